(* C04 (XZ writer): xz_compress (encode/xz.rs) emits a valid single-block XZ stream: stream
   header, one block (header, CRC32, LZMA2 payload of uncompressed chunks, zero padding, no
   check), index with one record, footer - i.e. its output satisfies the validity predicate
   that xz_decompress_sound (Proofs/XzSound.v) derives from a successful decode.
   For every fragmentation of the reader and every sink that does not fail a write. *)
From LZ Require Import Base.Prelude Base.Prog Model.Io Model.Tables Model.LzBuffer Model.RangeDec Model.Lzma Model.Lzma2
  Model.Crc Model.Xz Model.Enc
  Proofs.ProgLemmas Proofs.IoLemmas Proofs.IoInv Proofs.XzSound Proofs.EncCarry Proofs.Lzma2EncConform.
From Coq Require Import ZifyBool ZifyNat ZifyN.
Ltac Zify.zify_post_hook ::= Z.div_mod_to_equations.
Local Open Scope prog_scope.
Local Open Scope N_scope.

(* ================================================================== *)
(* multibyte integers: what encode/util.rs writes, decode/util.rs reads *)
(* ================================================================== *)
Lemma split7 v : N.lxor (N.land v 127) (N.shiftl (N.shiftr v 7) 7) = v.
Proof.
  apply N.bits_inj. intros n. rewrite N.lxor_spec. change 127 with (N.ones 7). rewrite N.land_ones.
  destruct (N.lt_ge_cases n 7) as [H|H].
  - rewrite N.mod_pow2_bits_low, N.shiftl_spec_low by exact H. apply xorb_false_r.
  - rewrite N.mod_pow2_bits_high, N.shiftl_spec_high' by exact H. rewrite N.shiftr_spec'.
    rewrite xorb_false_l. f_equal. lia.
Qed.

Lemma pow2_pos a : 0 < 2 ^ a.
Proof. apply N.neq_0_lt_0. apply N.pow_nonzero. discriminate. Qed.

Lemma shl_small x a i : x < 2 ^ a -> a + i * 7 <= 64 -> M64 (N.shiftl x (i * 7)) = N.shiftl x (i * 7).
Proof.
  intros Hx Ha. unfold M64. change 18446744073709551615 with (N.ones 64). rewrite N.land_ones.
  apply N.mod_small. rewrite N.shiftl_mul_pow2.
  apply N.lt_le_trans with (2 ^ a * 2 ^ (i * 7)).
  - apply N.mul_lt_mono_pos_r; [apply pow2_pos|exact Hx].
  - rewrite <- N.pow_add_r. apply N.pow_le_mono_r; [discriminate|exact Ha].
Qed.

Lemma land127_lt v : N.land v 127 < 2 ^ 7.
Proof. change 127 with (N.ones 7). rewrite N.land_ones. apply N.mod_lt. discriminate. Qed.

Lemma pow7_succ m : 2 ^ (7 * N.of_nat (S m)) = 128 * 2 ^ (7 * N.of_nat m).
Proof.
  replace (7 * N.of_nat (S m)) with (7 + 7 * N.of_nat m) by lia.
  rewrite N.pow_add_r. reflexivity.
Qed.

Lemma mbb_spec f : forall (m : nat) v i, (1 <= m <= f)%nat -> v < 2 ^ (7 * N.of_nat m) -> 7 * (i + N.of_nat m) <= 63 ->
  mb_shape (multibyte_bytes f v) /\ (length (multibyte_bytes f v) <= m)%nat /\
  mb_val i (multibyte_bytes f v) = N.shiftl v (i * 7).
Proof.
  induction f as [|f IH]; intros m v i Hm Hv Hi; [lia|].
  cbn [multibyte_bytes]. cbv zeta.
  assert (E127 : forall x, N.land (N.land x 127) 127 = N.land x 127).
  { intros x. rewrite <- N.land_assoc. reflexivity. }
  destruct (N.eqb_spec (N.shiftr v 7) 0) as [Z|NZ].
  - assert (Ev : N.land v 127 = v).
    { pose proof (split7 v) as S. rewrite Z, N.shiftl_0_l, N.lxor_0_r in S. exact S. }
    split; [|split].
    + apply mbs_last. rewrite <- N.land_assoc. change (N.land 127 128) with 0. apply N.land_0_r.
    + cbn [length]. lia.
    + cbn [mb_val]. rewrite N.lxor_0_r, E127, Ev.
      apply (shl_small v (7 * N.of_nat m)); [exact Hv|lia].
  - (* at least two groups *)
    destruct m as [|m]; [lia|].
    assert (Hm2 : (1 <= m)%nat).
    { destruct m as [|m]; [|lia]. exfalso. apply NZ.
      change (2 ^ (7 * N.of_nat 1)) with 128 in Hv. rewrite N.shiftr_div_pow2. change (2 ^ 7) with 128.
      apply N.div_small. exact Hv. }
    assert (Hv' : N.shiftr v 7 < 2 ^ (7 * N.of_nat m)).
    { rewrite N.shiftr_div_pow2. change (2 ^ 7) with 128. apply N.div_lt_upper_bound; [discriminate|].
      rewrite <- pow7_succ. exact Hv. }
    destruct (IH m (N.shiftr v 7) (i + 1) ltac:(lia) Hv' ltac:(lia)) as (S' & L' & V').
    assert (Eb : N.land (N.lor 128 (N.land v 127)) 127 = N.land v 127).
    { rewrite N.land_lor_distr_l. change (N.land 128 127) with 0. rewrite N.lor_0_l. apply E127. }
    split; [|split].
    + apply mbs_more; [|exact S'].
      rewrite N.land_lor_distr_l. change (N.land 128 128) with 128. intros H0.
      apply N.lor_eq_0_iff in H0. destruct H0 as [H0 _]. discriminate H0.
    + cbn [length]. lia.
    + cbn [mb_val]. rewrite V', Eb.
      rewrite (shl_small (N.land v 127) 7) by (apply land127_lt || lia).
      replace ((i + 1) * 7) with (7 + i * 7) by lia. rewrite <- N.shiftl_shiftl, <- N.shiftl_lxor, split7. reflexivity.
Qed.

(* every value below 2^63 is written as at most 9 bytes which get_multibyte decodes to it *)
Theorem multibyte_decodes v : v < 9223372036854775808 -> mb_decodes (multibyte_bytes 10 v) v.
Proof.
  intros Hv. destruct (mbb_spec 10 9 v 0) as (S & L & V); [lia|exact Hv|lia|].
  split; [exact S|]. split; [exact L|]. rewrite V. change (0 * 7) with 0. symmetry. apply N.shiftl_0_r.
Qed.
Print Assumptions multibyte_decodes.

(* values of 2^63 and above take 10 bytes, which the reader rejects (not reachable: sizes are < 2^63) *)
Example multibyte_2_63 : length (multibyte_bytes 10 9223372036854775808) = 10%nat.
Proof. vm_compute. reflexivity. Qed.

(* ================================================================== *)
(* sink-side runs                                                      *)
(* ================================================================== *)
Lemma run_getcount s k : run_io (icall GetCount) (mkIo s k) = (Done (k_count k), mkIo s k).
Proof. reflexivity. Qed.
Lemma run_getpos s k : run_io (icall GetPos) (mkIo s k) = (Done (s_pos s), mkIo s k).
Proof. reflexivity. Qed.

Lemma write_bytes_each_ok bs : forall s k, k_wfail k = None ->
  exists k', run_io (write_bytes_each bs) (mkIo s k) = (Done tt, mkIo s k') /\ snk_app k bs k'.
Proof.
  induction bs as [|b t IH]; intros s k Hw.
  - exists k. split; [reflexivity|apply snk_app_nil; exact Hw].
  - destruct (write_u8_ok b s k Hw) as (k1 & E1 & A1).
    destruct (IH s k1 (proj1 A1)) as (k2 & E2 & A2).
    exists k2. split.
    + cbn [write_bytes_each]. rewrite (run_bind_done _ _ _ _ _ E1). exact E2.
    + change (b :: t) with ([b] ++ t). eapply snk_app_trans; eassumption.
Qed.

Lemma write_u32_le_ok v s k : k_wfail k = None ->
  exists k', run_io (write_u32_le v) (mkIo s k) = (Done tt, mkIo s k') /\ snk_app k (le_bytes 4 v) k'.
Proof. apply write_all_ok. Qed.

Lemma le_num_le_bytes4 v : v < 4294967296 -> le_num (le_bytes 4 v) = v.
Proof.
  intros H. rewrite le_num_le_bytes. change (256 ^ N.of_nat 4) with 4294967296. apply N.mod_small. exact H.
Qed.

Lemma nlen_le_bytes n v : nlen (le_bytes n v) = N.of_nat n.
Proof. unfold nlen. rewrite le_bytes_length. reflexivity. Qed.

Section WithCrc.
Variable crc32 : list N -> N.
Variable crc64 : list N -> N.
(* the Rust CRC-32 is a u32 *)
Hypothesis crc32_u32 : forall l, crc32 l < 4294967296.

(* ================================================================== *)
(* stream header                                                       *)
(* ================================================================== *)
Definition xz_header_bytes : list N := XZ_MAGIC ++ [0; 0] ++ le_bytes 4 (crc32 [0; 0]).

Lemma xz_write_header_ok s k : k_wfail k = None ->
  exists k', run_io (xz_write_header crc32) (mkIo s k) = (Done tt, mkIo s k') /\ snk_app k xz_header_bytes k'.
Proof.
  intros Hw. unfold xz_write_header. change (check_id CkNone) with 0.
  destruct (write_all_ok XZ_MAGIC s k Hw) as (k1 & E1 & A1).
  destruct (write_all_ok [0; 0] s k1 (proj1 A1)) as (k2 & E2 & A2).
  destruct (write_u32_le_ok (crc32 [0; 0]) s k2 (proj1 A2)) as (k3 & E3 & A3).
  exists k3. split.
  - rewrite (run_bind_done _ _ _ _ _ E1), (run_bind_done _ _ _ _ _ E2). exact E3.
  - unfold xz_header_bytes. eapply snk_app_trans; [exact A1|]. eapply snk_app_trans; eassumption.
Qed.

Lemma xz_header_bytes_ok : header_bytes_ok crc32 CkNone xz_header_bytes.
Proof.
  exists 0, (le_bytes 4 (crc32 [0; 0])). split; [reflexivity|]. split; [apply le_bytes_length|].
  split; [apply le_num_le_bytes4, crc32_u32|reflexivity].
Qed.

(* ================================================================== *)
(* index                                                               *)
(* ================================================================== *)
Definition xz_index_body (unpadded unpacked : N) : list N :=
  0 :: multibyte_bytes 10 1 ++ multibyte_bytes 10 unpadded ++ multibyte_bytes 10 unpacked.
Definition xz_index_bytes (unpadded unpacked : N) : list N :=
  let body := xz_index_body unpadded unpacked in
  let pad := repeat 0 (N.to_nat (padding_of (nlen body))) in
  body ++ pad ++ le_bytes 4 (crc32 (body ++ pad)).

Lemma xz_write_index_ok unpadded unpacked s k : k_wfail k = None ->
  exists k', run_io (xz_write_index crc32 unpadded unpacked) (mkIo s k) =
               (Done (nlen (xz_index_bytes unpadded unpacked)), mkIo s k') /\
             snk_app k (xz_index_bytes unpadded unpacked) k'.
Proof.
  intros Hw. unfold xz_write_index. fold (xz_index_body unpadded unpacked).
  set (body := xz_index_body unpadded unpacked). cbv zeta.
  rewrite (run_bind_done _ _ _ _ _ (run_getcount s k)).
  destruct (write_bytes_each_ok body s k Hw) as (k1 & E1 & A1).
  rewrite (run_bind_done _ _ _ _ _ E1), (run_bind_done _ _ _ _ _ (run_getcount s k1)).
  assert (C1 : k_count k1 - k_count k = nlen body) by (destruct A1 as (_ & _ & _ & C & _); lia).
  rewrite C1. set (pad := repeat 0 (N.to_nat (padding_of (nlen body)))).
  destruct (write_all_ok pad s k1 (proj1 A1)) as (k2 & E2 & A2).
  destruct (write_u32_le_ok (crc32 (body ++ pad)) s k2 (proj1 A2)) as (k3 & E3 & A3).
  rewrite (run_bind_done _ _ _ _ _ E2), (run_bind_done _ _ _ _ _ E3), (run_bind_done _ _ _ _ _ (run_getcount s k3)).
  assert (A : snk_app k (xz_index_bytes unpadded unpacked) k3).
  { unfold xz_index_bytes. cbv zeta. fold body. fold pad.
    eapply snk_app_trans; [exact A1|]. eapply snk_app_trans; eassumption. }
  exists k3. split; [|exact A].
  rewrite run_ret. f_equal. f_equal. destruct A as (_ & _ & _ & C & _). lia.
Qed.

Lemma nlen_multibyte v : v < 9223372036854775808 -> nlen (multibyte_bytes 10 v) <= 9.
Proof. intros H. destruct (multibyte_decodes v H) as (_ & L & _). unfold nlen. lia. Qed.

Lemma xz_index_bytes_ok unpadded unpacked :
  unpadded < 9223372036854775808 -> unpacked < 9223372036854775808 ->
  index_bytes_ok crc32 [mkRecord unpadded unpacked] (xz_index_bytes unpadded unpacked).
Proof.
  intros Hu Hp. unfold index_bytes_ok.
  set (b0 := multibyte_bytes 10 1). set (b1 := multibyte_bytes 10 unpadded). set (b2 := multibyte_bytes 10 unpacked).
  assert (Eb : xz_index_body unpadded unpacked = 0 :: b0 ++ concat [b1 ++ b2]).
  { unfold xz_index_body. cbn [concat]. rewrite app_nil_r. reflexivity. }
  exists b0, [b1 ++ b2], (repeat 0 (N.to_nat (padding_of (nlen (0 :: b0 ++ concat [b1 ++ b2]))))),
         (le_bytes 4 (crc32 (xz_index_body unpadded unpacked ++
                             repeat 0 (N.to_nat (padding_of (nlen (xz_index_body unpadded unpacked))))))).
  split; [|split; [|split; [|split; [|split]]]].
  - unfold xz_index_bytes. cbv zeta. rewrite Eb. cbn [app]. rewrite <- !app_assoc. reflexivity.
  - change (nlen [mkRecord unpadded unpacked]) with 1. apply multibyte_decodes. lia.
  - constructor; [|constructor]. exists b1, b2. cbn [rc_unpadded rc_unpacked].
    split; [reflexivity|]. split; apply multibyte_decodes; assumption.
  - reflexivity.
  - apply le_bytes_length.
  - rewrite le_num_le_bytes4 by apply crc32_u32. rewrite Eb. cbn [app]. rewrite <- !app_assoc. reflexivity.
Qed.

(* the index of a one-block stream is short, and a multiple of 4 bytes long *)
Lemma xz_index_bytes_len unpadded unpacked :
  unpadded < 9223372036854775808 -> unpacked < 9223372036854775808 ->
  4 <= nlen (xz_index_bytes unpadded unpacked) <= 40 /\ nlen (xz_index_bytes unpadded unpacked) mod 4 = 0.
Proof.
  intros Hu Hp.
  pose proof (index_bytes_mod4 crc32 crc64 _ _ (xz_index_bytes_ok unpadded unpacked Hu Hp)) as M. split; [|exact M].
  unfold xz_index_bytes. cbv zeta.
  set (body := xz_index_body unpadded unpacked).
  pose proof (padding_of_spec (nlen body)) as (P & _).
  assert (B : 1 <= nlen body <= 28).
  { unfold body, xz_index_body. rewrite nl_cons, !nl_app.
    pose proof (nlen_multibyte 1 ltac:(lia)). pose proof (nlen_multibyte unpadded Hu). pose proof (nlen_multibyte unpacked Hp). lia. }
  assert (L4 : forall x, nlen (le_bytes 4 x) = 4) by (intros x; unfold nlen; rewrite le_bytes_length; reflexivity).
  rewrite !nl_app, nlen_repeat, N2Nat.id, L4. lia.
Qed.

(* ================================================================== *)
(* footer                                                              *)
(* ================================================================== *)
Definition xz_footer_bytes (index_size : N) : list N :=
  let fbuf := le_bytes 4 (M32 (N.shiftr index_size 2 - 1)) ++ [0; 0] in
  le_bytes 4 (crc32 fbuf) ++ fbuf ++ XZ_MAGIC_FOOTER.

Lemma xz_write_footer_ok isz s k : k_wfail k = None -> 4 <= isz ->
  exists k', run_io (xz_write_footer crc32 isz) (mkIo s k) = (Done tt, mkIo s k') /\ snk_app k (xz_footer_bytes isz) k'.
Proof.
  intros Hw Hi. unfold xz_write_footer.
  assert (Hs : N.shiftr isz 2 <> 0).
  { rewrite N.shiftr_div_pow2. change (2 ^ 2) with 4. lia. }
  destruct (N.eqb_spec (N.shiftr isz 2) 0) as [Z|_]; [contradiction|]. cbv zeta. change (check_id CkNone) with 0.
  set (fbuf := le_bytes 4 (M32 (N.shiftr isz 2 - 1)) ++ [0; 0]).
  destruct (write_u32_le_ok (crc32 fbuf) s k Hw) as (k1 & E1 & A1).
  destruct (write_all_ok fbuf s k1 (proj1 A1)) as (k2 & E2 & A2).
  destruct (write_all_ok XZ_MAGIC_FOOTER s k2 (proj1 A2)) as (k3 & E3 & A3).
  exists k3. split.
  - rewrite (run_bind_done _ _ _ _ _ E1), (run_bind_done _ _ _ _ _ E2). exact E3.
  - unfold xz_footer_bytes. cbv zeta. fold fbuf. eapply snk_app_trans; [exact A1|]. eapply snk_app_trans; eassumption.
Qed.

Lemma xz_footer_bytes_ok isz : 4 <= isz <= 4294967296 -> isz mod 4 = 0 ->
  footer_bytes_ok crc32 CkNone isz (xz_footer_bytes isz).
Proof.
  intros Hi Hm. unfold footer_bytes_ok, xz_footer_bytes. cbv zeta.
  set (bs := le_bytes 4 (M32 (N.shiftr isz 2 - 1))).
  exists (le_bytes 4 (crc32 (bs ++ [0; 0]))), bs, 0.
  split; [rewrite <- app_assoc; reflexivity|]. split; [apply le_bytes_length|]. split; [apply le_bytes_length|].
  split; [|split; [reflexivity|apply le_num_le_bytes4, crc32_u32]].
  unfold bs. rewrite M32_mod, N.shiftr_div_pow2. change (2 ^ 2) with 4.
  rewrite le_num_le_bytes4 by (apply N.mod_lt; discriminate). lia.
Qed.

(* ================================================================== *)
(* the block                                                           *)
(* ================================================================== *)
Definition xz_blk (chunks : list (list N)) : blk :=
  let payload := l2_stream chunks in
  mkBlk 2 [0; 33; 1; 22; 0; 0; 0] (le_bytes 4 (crc32 xz_block_header)) payload
        (repeat 0 (N.to_nat (padding_of (12 + nlen payload)))) [] (concat chunks).

Lemma xz_blk_ok fuel chunks : Forall chunk_ok chunks -> nlen chunks < Npos fuel ->
  blk_ok crc32 crc64 fuel CkNone (xz_blk chunks).
Proof.
  intros Fo Hf. unfold blk_ok, blk_ok_gen, xz_blk. cbv zeta.
  cbn [b_hs b_hdr b_hcrc b_payload b_pad b_chk b_out].
  set (payload := l2_stream chunks).
  split; [discriminate|]. split; [reflexivity|]. split; [apply le_bytes_length|].
  split; [apply le_num_le_bytes4, crc32_u32|]. split; [|split; [|reflexivity]].
  - (* the header parses to a single LZMA2 filter; the decoder reads the payload back *)
    destruct (lzma2_uncompressed_decodes fuel chunks [] (cursor_of (payload ++ [])) vec_sink
                (cursor_FaultFree _) eq_refl eq_refl Fo eq_refl Hf) as (w & E & B & _ & R & P & F).
    exists (mkBH [mkFilter [22]] None None), (mkFilter [22]), [], (concat chunks),
           (cursor_of (payload ++ [])), (i_src w).
    split; [reflexivity|]. split; [reflexivity|]. split; [|split; [|split; [reflexivity|split; discriminate]]].
    + unfold sadv. rewrite R. split; [reflexivity|]. split; [exact P|]. intros _. apply F.
    + unfold decode_filter. cbn [f_props]. change (negb (nlen [22] =? 1)) with false. cbv iota zeta.
      rewrite E. rewrite P, B. change (snk_bytes vec_sink) with (@nil N). cbn [app].
      f_equal. f_equal. f_equal. fold payload. lia.
  - f_equal. f_equal. f_equal. change (nlen (2 :: [0; 33; 1; 22; 0; 0; 0] ++ le_bytes 4 (crc32 xz_block_header) ++ payload))
      with (nlen ([2; 0; 33; 1; 22; 0; 0; 0] ++ le_bytes 4 (crc32 xz_block_header) ++ payload)).
    rewrite !nl_app, nlen_le_bytes. change (nlen [2; 0; 33; 1; 22; 0; 0; 0]) with 8. change (N.of_nat 4) with 4. lia.
Qed.

Lemma xz_blk_bytes chunks :
  blk_bytes (xz_blk chunks) =
  (xz_block_header ++ le_bytes 4 (crc32 xz_block_header)) ++ l2_stream chunks ++
  repeat 0 (N.to_nat (padding_of (12 + nlen (l2_stream chunks)))).
Proof.
  unfold blk_bytes, xz_blk. cbv zeta. cbn [b_hs b_hdr b_hcrc b_payload b_pad b_chk].
  unfold xz_block_header. cbn [app]. rewrite app_nil_r. reflexivity.
Qed.

Lemma xz_blk_record chunks :
  blk_record (xz_blk chunks) = mkRecord (12 + nlen (l2_stream chunks)) (nlen (concat chunks)).
Proof.
  unfold blk_record, xz_blk. cbv zeta. cbn [b_hs b_hdr b_hcrc b_payload b_pad b_chk b_out]. f_equal.
  rewrite app_nil_r.
  change (nlen (2 :: [0; 33; 1; 22; 0; 0; 0] ++ le_bytes 4 (crc32 xz_block_header) ++ l2_stream chunks))
    with (nlen ([2; 0; 33; 1; 22; 0; 0; 0] ++ le_bytes 4 (crc32 xz_block_header) ++ l2_stream chunks)).
  rewrite !nl_app, nlen_le_bytes. change (nlen [2; 0; 33; 1; 22; 0; 0; 0]) with 8. change (N.of_nat 4) with 4. lia.
Qed.

(* ================================================================== *)
(* PART 2: xz_compress                                                 *)
(* ================================================================== *)
(* the whole file for a given chunking of the input *)
Definition xz_file (chunks : list (list N)) : list N :=
  let b := xz_blk chunks in
  let idx := xz_index_bytes (rc_unpadded (blk_record b)) (rc_unpacked (blk_record b)) in
  xz_header_bytes ++ blk_bytes b ++ idx ++ xz_footer_bytes (nlen idx).

Theorem xz_compress_run fuel s k :
  FaultFree s -> k_wfail k = None -> nlen (s_rest s) < Npos fuel -> nlen (s_rest s) < 1152921504606846976 ->
  exists chunks s' k',
    xz_compress crc32 fuel (mkIo s k) = (Done tt, mkIo s' k') /\
    concat chunks = s_rest s /\ Forall chunk_ok chunks /\
    snk_app k (xz_file chunks) k' /\
    s_rest s' = [] /\ s_pos s' = s_pos s + nlen (s_rest s) /\ FaultFree s'.
Proof.
  intros Hs Hw Hf Hsz. unfold xz_compress.
  (* stream header, block header *)
  destruct (xz_write_header_ok s k Hw) as (k1 & E1 & A1).
  destruct (write_bytes_each_ok (firstn 5 xz_block_header) s k1 (proj1 A1)) as (k2 & E2 & A2).
  destruct (write_all_ok (skipn 5 xz_block_header) s k2 (proj1 A2)) as (k3 & E3 & A3).
  destruct (write_u32_le_ok (crc32 xz_block_header) s k3 (proj1 A3)) as (k4 & E4 & A4).
  rewrite (run_bind_done _ _ _ _ _ E1), (run_bind_done _ _ _ _ _ (run_getcount s k1)),
          (run_bind_done _ _ _ _ _ (run_getpos s k1)), (run_bind_done _ _ _ _ _ E2),
          (run_bind_done _ _ _ _ _ E3), (run_bind_done _ _ _ _ _ E4), run_ret.
  assert (A14 : snk_app k1 (xz_block_header ++ le_bytes 4 (crc32 xz_block_header)) k4).
  { change xz_block_header with (firstn 5 xz_block_header ++ skipn 5 xz_block_header) at 1. rewrite <- app_assoc.
    eapply snk_app_trans; [exact A2|]. eapply snk_app_trans; eassumption. }
  (* payload *)
  destruct (lzma2_compress_run fuel s k4 Hs (proj1 A4) Hf) as (chunks & s' & k5 & E5 & C & Fo & A5 & R' & P' & F').
  rewrite E5.
  (* sizes *)
  set (payload := l2_stream chunks) in *.
  assert (Hc1 : k_count k5 - k_count k1 = 12 + nlen payload).
  { destruct A14 as (_ & _ & _ & C14 & _). destruct A5 as (_ & _ & _ & C5 & _).
    rewrite C5, C14, nl_app, nlen_le_bytes. change (nlen xz_block_header) with 8. change (N.of_nat 4) with 4. lia. }
  assert (Hp1 : s_pos s' - s_pos s = nlen (concat chunks)) by (rewrite P', C; lia).
  pose proof (chunks_count_le chunks Fo) as Hcnt. rewrite C in Hcnt.
  assert (Hpl : nlen payload = nlen (s_rest s) + 3 * nlen chunks + 1) by (unfold payload; rewrite nlen_l2_stream, C; reflexivity).
  assert (Hu : 12 + nlen payload < 9223372036854775808) by lia.
  assert (Hup : nlen (concat chunks) < 9223372036854775808) by (rewrite C; lia).
  (* padding, index, footer *)
  rewrite (run_bind_done _ _ _ _ _ (run_getcount s' k5)), (run_bind_done _ _ _ _ _ (run_getpos s' k5)). cbv zeta.
  rewrite Hc1, Hp1.
  set (pad := repeat 0 (N.to_nat (padding_of (12 + nlen payload)))).
  destruct (write_all_ok pad s' k5 (proj1 A5)) as (k6 & E6 & A6).
  destruct (xz_write_index_ok (12 + nlen payload) (nlen (concat chunks)) s' k6 (proj1 A6)) as (k7 & E7 & A7).
  destruct (xz_index_bytes_len _ _ Hu Hup) as (Li & _).
  set (idx := xz_index_bytes (12 + nlen payload) (nlen (concat chunks))) in *.
  destruct (xz_write_footer_ok (nlen idx) s' k7 (proj1 A7) (proj1 Li)) as (k8 & E8 & A8).
  rewrite (run_bind_done _ _ _ _ _ E6), (run_bind_done _ _ _ _ _ E7), E8.
  exists chunks, s', k8. split; [reflexivity|]. split; [exact C|]. split; [exact Fo|].
  split; [|split; [exact R'|split; [exact P'|exact F']]].
  unfold xz_file. cbv zeta. rewrite xz_blk_record. cbn [rc_unpadded rc_unpacked]. rewrite xz_blk_bytes.
  fold payload. fold pad. fold idx.
  eapply snk_app_trans; [exact A1|]. rewrite <- app_assoc.
  eapply snk_app_trans; [exact A14|]. rewrite <- !app_assoc.
  eapply snk_app_trans; [exact A5|]. eapply snk_app_trans; [exact A6|]. eapply snk_app_trans; eassumption.
Qed.

(* every file of that shape satisfies the validity predicate of xz_decompress_sound *)
Theorem xz_file_valid fuel' chunks :
  Forall chunk_ok chunks -> nlen chunks < Npos fuel' -> nlen (concat chunks) < 1152921504606846976 ->
  let b := xz_blk chunks in
  exists hdr index footer,
    xz_file chunks = hdr ++ concat (map blk_bytes [b]) ++ index ++ footer /\
    header_bytes_ok crc32 CkNone hdr /\
    Forall (blk_ok crc32 crc64 fuel' CkNone) [b] /\
    index_bytes_ok crc32 (map blk_record [b]) index /\
    footer_bytes_ok crc32 CkNone (nlen index) footer /\
    concat (map b_out [b]) = concat chunks.
Proof.
  intros Fo Hf Hsz. cbv zeta.
  pose proof (chunks_count_le chunks Fo) as Hcnt.
  pose proof (nlen_l2_stream chunks) as Hpl.
  assert (Hu : 12 + nlen (l2_stream chunks) < 9223372036854775808) by lia.
  assert (Hup : nlen (concat chunks) < 9223372036854775808) by lia.
  destruct (xz_index_bytes_len _ _ Hu Hup) as (Li & Mi).
  exists xz_header_bytes, (xz_index_bytes (12 + nlen (l2_stream chunks)) (nlen (concat chunks))),
         (xz_footer_bytes (nlen (xz_index_bytes (12 + nlen (l2_stream chunks)) (nlen (concat chunks))))).
  cbn [map concat]. rewrite !app_nil_r, xz_blk_record.
  split; [|split; [|split; [|split; [|split]]]].
  - unfold xz_file. cbv zeta. rewrite xz_blk_record. cbn [rc_unpadded rc_unpacked]. reflexivity.
  - apply xz_header_bytes_ok.
  - constructor; [|constructor]. apply xz_blk_ok; assumption.
  - apply xz_index_bytes_ok; assumption.
  - apply xz_footer_bytes_ok; [lia|exact Mi].
  - reflexivity.
Qed.

(* the statement of the task *)
Theorem xz_compress_valid fuel fuel' data frag k :
  k_wfail k = None -> nlen data < Npos fuel -> nlen data < Npos fuel' -> nlen data < 1152921504606846976 ->
  exists w' chunks hdr b index footer,
    xz_compress crc32 fuel (mkIo (src_of data frag None) k) = (Done tt, w') /\
    snk_bytes (i_snk w') = snk_bytes k ++ hdr ++ blk_bytes b ++ index ++ footer /\
    s_rest (i_src w') = [] /\ k_wfail (i_snk w') = None /\
    (* the stream header *)
    header_bytes_ok crc32 CkNone hdr /\
    (* the block: header size byte 2, one LZMA2 filter with dictionary-size byte 22, CRC32, payload = the LZMA2
       stream of lzma2_compress, zero padding to a multiple of four, no check, decoding to the data *)
    concat chunks = data /\ Forall (fun c => 1 <= nlen c <= 65536) chunks /\
    b_hs b = 2 /\ b_hdr b = [0; 33; 1; 22; 0; 0; 0] /\ b_hcrc b = le_bytes 4 (crc32 xz_block_header) /\
    b_payload b = concat (map (fun c => 1 :: be_bytes 2 (nlen c - 1) ++ c) chunks) ++ [0] /\
    b_pad b = repeat 0 (N.to_nat (padding_of (12 + nlen (b_payload b)))) /\ b_chk b = [] /\ b_out b = data /\
    blk_ok crc32 crc64 fuel' CkNone b /\
    (* index with that block's record, footer *)
    index_bytes_ok crc32 [blk_record b] index /\
    footer_bytes_ok crc32 CkNone (nlen index) footer.
Proof.
  intros Hw Hf Hf' Hsz.
  destruct (xz_compress_run fuel (src_of data frag None) k (src_of_FaultFree data frag) Hw Hf Hsz)
    as (chunks & s' & k' & E & C & Fo & App & R & _).
  cbn [src_of s_rest] in C.
  assert (Hn : nlen chunks < Npos fuel').
  { pose proof (chunks_count_le chunks Fo) as L. rewrite C in L. lia. }
  destruct (xz_file_valid fuel' chunks Fo Hn) as (hdr & index & footer & EF & H1 & H2 & H3 & H4 & _); [rewrite C; exact Hsz|].
  cbn [map concat] in EF, H3. rewrite app_nil_r in EF.
  exists (mkIo s' k'), chunks, hdr, (xz_blk chunks), index, footer. cbn [i_src i_snk].
  split; [exact E|]. split; [rewrite <- EF; apply App|]. split; [exact R|]. split; [apply App|].
  split; [exact H1|]. split; [exact C|]. split; [exact Fo|].
  split; [reflexivity|]. split; [reflexivity|]. split; [reflexivity|]. split; [reflexivity|].
  split; [reflexivity|]. split; [reflexivity|]. split; [exact C|].
  split; [apply Forall_inv in H2; exact H2|]. split; [exact H3|exact H4].
Qed.

End WithCrc.
Print Assumptions xz_compress_run.
Print Assumptions xz_file_valid.
Print Assumptions xz_compress_valid.
