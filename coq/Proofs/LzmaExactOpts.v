(* C01 / C08: exact decoding of a well-formed .lzma stream under EVERY header option.
   The 13- or 5-byte header is [props_byte fp :: le_bytes 4 dict_field ++ field] where [field] is
   the 8-byte size field (ReadFromHeader, ReadHeaderButUseProvided - for the latter its contents are
   ARBITRARY) or empty (UseProvided).  What matters is the size in effect
   [size_in_effect (o_unpacked o) (le_num field)]:
     Some n : the stream is the sized encoding of n bytes (no marker, any delta, any trailing bytes)
     None   : the stream ends with the end marker (delta = 0, nothing after it).
   lzma_decode_exact_opts : the general theorem (any option, any sufficient memlimit, any allow_incomplete)
   lzma_decode_exact_rfh / _rhp / _up : the three options spelled out. *)
From LZ Require Import Base.Prelude Base.Prog Model.Io Model.Tables Model.LzBuffer Model.RangeDec Model.Lzma Format.RefEnc
  Proofs.ProgLemmas Proofs.IoLemmas Proofs.RangeLockstep Proofs.SymDecode Proofs.HeaderRules Proofs.LzmaExact.
From Coq Require Import ZifyBool ZifyNat ZifyN.
Local Open Scope prog_scope.

(* the header bytes for a given option: [field] has 8 bytes or none *)
Definition hdr_bytes (fp : fprops) (dict_field : N) (field : list N) : list N :=
  props_byte fp :: le_bytes 4 dict_field ++ field.

Lemma nlen_hdr_bytes fp dict_field field : nlen (hdr_bytes fp dict_field field) = 5 + nlen field.
Proof. unfold hdr_bytes. rewrite IoLemmas.nlen_cons, IoLemmas.nlen_app, nlen_le_bytes. change (N.of_nat 4) with 4. lia. Qed.

(* the properties byte of the reference encoder decodes to its own lc / lp / pb *)
Lemma hdr_props_props_byte fp : f_lc fp <= 8 -> f_lp fp <= 4 -> f_pb fp <= 4 ->
  props_byte fp < 225 /\ hdr_props (props_byte fp) = mkProps (f_lc fp) (f_lp fp) (f_pb fp).
Proof.
  intros H1 H2 H3. destruct (props_byte_decode fp H1 H2 H3) as (Hlt & D1 & D2 & D3).
  split; [exact Hlt|]. unfold hdr_props. rewrite <- pb_div_div, D1, D2, D3. reflexivity.
Qed.

(* memlimit: absent, or at least the dictionary actually allocated *)
Definition memlimit_ok (ml : option N) (dict : N) : Prop :=
  match ml with None => True | Some m => dict <= m end.

(* what the size in effect demands of the stream *)
Definition stream_mode (us : option N) (prog : list sym) (out : list N) (delta : N) (trail : list N) (ief : ienc) : Prop :=
  match us with
  | None => ends_with_marker prog /\ delta = 0 /\ trail = []
  | Some size => no_marker prog /\ size = nlen out /\ delta < i_range ief
  end.

Theorem lzma_decode_exact_opts fp dict_field field prog payload out delta trail ief o frag k fuel :
  f_lc fp <= 8 -> f_lp fp <= 4 -> f_pb fp <= 4 -> dict_field < 2 ^ 32 ->
  enc_payload_gen false fp (Some (N.max dict_field 4096)) prog delta = Some (payload, out) ->
  final_ienc fp (Some (N.max dict_field 4096)) prog = Some ief ->
  nlen field = size_field_len (o_unpacked o) ->
  memlimit_ok (o_memlimit o) (N.max dict_field 4096) ->
  stream_mode (size_in_effect (o_unpacked o) (le_num field)) prog out delta trail ief ->
  k_wfail k = None -> k_ffail k = false ->
  (length prog + 1 <= Pos.to_nat fuel)%nat ->
  exists w',
    lzma_decompress fuel o (mkIo (src_of ((hdr_bytes fp dict_field field ++ payload) ++ trail) frag None) k)
    = (Done tt, w') /\
    snk_bytes (i_snk w') = snk_bytes k ++ out /\
    k_flushes (i_snk w') = k_flushes k + 1 /\
    s_pos (i_src w') = nlen (hdr_bytes fp dict_field field ++ payload) /\
    s_pos (i_src w') = header_len (o_unpacked o) + nlen payload /\
    s_rest (i_src w') = trail.
Proof.
  intros Hlc Hlp Hpb Hdf Henc Hfin Hfield Hml Hmode Hkw Hkf Hfuel.
  destruct (hdr_props_props_byte fp Hlc Hlp Hpb) as (Hpb225 & Hprops).
  set (s := src_of ((hdr_bytes fp dict_field field ++ payload) ++ trail) frag None).
  assert (Hs : FaultFree s) by apply src_of_FaultFree.
  assert (Hrest : s_rest s = props_byte fp :: le_bytes 4 dict_field ++ field ++ payload ++ trail).
  { unfold s, src_of, hdr_bytes. cbn [s_rest app]. rewrite <- !app_assoc. reflexivity. }
  destruct (read_header_ok o s (props_byte fp) (le_bytes 4 dict_field) field (payload ++ trail) Hs Hrest)
    as (s1 & Hrun & Hr1 & Hp1 & Hs1).
  { rewrite nlen_le_bytes. reflexivity. }
  { exact Hfield. }
  { exact Hpb225. }
  rewrite Hprops in Hrun.
  rewrite (le_num_le_bytes_small 4 dict_field) in Hrun by exact Hdf.
  rewrite N.max_comm in Hrun.
  set (pr := mkProps (f_lc fp) (f_lp fp) (f_pb fp)) in *.
  set (dict := N.max dict_field 4096) in *.
  set (us := size_in_effect (o_unpacked o) (le_num field)) in *.
  assert (Hpm : props_match pr fp) by (unfold props_match, pr; cbn [lc lp pb]; repeat split; assumption || reflexivity).
  assert (Hnew : exists dec, lzma_decoder_new (mkParams pr dict us) (o_memlimit o) = Done dec).
  { unfold lzma_decoder_new. cbn [pr_dict pr_props pr_unpacked].
    destruct (N.eqb_spec dict 0) as [E0|_]; [unfold dict in E0; lia|].
    unfold dstate_new. rewrite (props_valid_of_match pr fp Hpm). cbn [negb]. eexists. reflexivity. }
  destruct Hnew as (dec & Hnew).
  assert (Hp1' : s_pos s1 = header_len (o_unpacked o)).
  { rewrite Hp1. unfold s, src_of. cbn [s_pos]. lia. }
  destruct (raw_lzma_decode_exact fp pr dict us (o_memlimit o) prog delta trail payload out ief dec s1 k fuel Hpm)
    as (dec' & w' & Hdec & Hb & Hfl & Hpos & Hrst); try assumption.
  { unfold dict. lia. }
  { unfold memlimit_ok in Hml. fold dict in Hml. destruct (o_memlimit o) as [m|]; [exact Hml|].
    unfold dict, USIZE, U64. change (2 ^ 32) with 4294967296 in Hdf. lia. }
  exists w'. split.
  { unfold lzma_decompress. cbn [i_src i_snk]. fold s. rewrite Hrun, Hnew, Hdec. reflexivity. }
  split; [exact Hb|]. split; [exact Hfl|].
  assert (Hhl : nlen (hdr_bytes fp dict_field field) = header_len (o_unpacked o)).
  { rewrite nlen_hdr_bytes, Hfield. reflexivity. }
  split; [rewrite Hpos, Hp1', IoLemmas.nlen_app, Hhl; reflexivity|].
  split; [rewrite Hpos, Hp1'; reflexivity|exact Hrst].
Qed.
Print Assumptions lzma_decode_exact_opts.

(* ---------- the three options spelled out ---------- *)

(* ReadFromHeader: the field is the true size, or all ones with the end marker *)
Theorem lzma_decode_exact_rfh fp dict_field size_field prog payload out delta trail ief ml ai frag k fuel :
  f_lc fp <= 8 -> f_lp fp <= 4 -> f_pb fp <= 4 -> dict_field < 2 ^ 32 ->
  enc_payload_gen false fp (Some (N.max dict_field 4096)) prog delta = Some (payload, out) ->
  final_ienc fp (Some (N.max dict_field 4096)) prog = Some ief ->
  memlimit_ok ml (N.max dict_field 4096) ->
  ( (size_field = 2 ^ 64 - 1 /\ ends_with_marker prog /\ delta = 0 /\ trail = [])
    \/ (size_field = nlen out /\ nlen out < 2 ^ 64 - 1 /\ no_marker prog /\ delta < i_range ief) ) ->
  k_wfail k = None -> k_ffail k = false ->
  (length prog + 1 <= Pos.to_nat fuel)%nat ->
  exists w',
    lzma_decompress fuel (mkOptions ReadFromHeader ml ai)
      (mkIo (src_of ((hdr_bytes fp dict_field (le_bytes 8 size_field) ++ payload) ++ trail) frag None) k)
    = (Done tt, w') /\
    snk_bytes (i_snk w') = snk_bytes k ++ out /\
    k_flushes (i_snk w') = k_flushes k + 1 /\
    s_pos (i_src w') = 13 + nlen payload /\
    s_rest (i_src w') = trail.
Proof.
  intros Hlc Hlp Hpb Hdf Henc Hfin Hml Hcase Hkw Hkf Hfuel.
  assert (Hsz : size_field < 2 ^ 64).
  { change (2 ^ 64) with 18446744073709551616 in *. destruct Hcase as [(-> & _)|(-> & H & _)]; lia. }
  destruct (lzma_decode_exact_opts fp dict_field (le_bytes 8 size_field) prog payload out delta trail ief
              (mkOptions ReadFromHeader ml ai) frag k fuel Hlc Hlp Hpb Hdf Henc Hfin)
    as (w' & R & B & F & _ & P & T); try assumption.
  { rewrite nlen_le_bytes. reflexivity. }
  { cbn [o_unpacked]. rewrite (le_num_le_bytes_small 8 size_field) by exact Hsz.
    unfold size_in_effect, stream_mode, U64MAX. change (2 ^ 64 - 1) with 18446744073709551615 in Hcase.
    destruct Hcase as [(-> & H1 & H2 & H3)|(-> & H0 & H1 & H2)].
    - rewrite N.eqb_refl. repeat split; assumption.
    - destruct (N.eqb_spec (nlen out) 18446744073709551615) as [E|_]; [lia|]. repeat split; assumption. }
  exists w'. split; [exact R|]. split; [exact B|]. split; [exact F|]. split; [exact P|exact T].
Qed.
Print Assumptions lzma_decode_exact_rfh.

(* ReadHeaderButUseProvided x: 13 bytes are consumed, the 8 field bytes are arbitrary and ignored *)
Theorem lzma_decode_exact_rhp fp dict_field field x prog payload out delta trail ief ml ai frag k fuel :
  f_lc fp <= 8 -> f_lp fp <= 4 -> f_pb fp <= 4 -> dict_field < 2 ^ 32 ->
  enc_payload_gen false fp (Some (N.max dict_field 4096)) prog delta = Some (payload, out) ->
  final_ienc fp (Some (N.max dict_field 4096)) prog = Some ief ->
  nlen field = 8 ->
  memlimit_ok ml (N.max dict_field 4096) ->
  stream_mode x prog out delta trail ief ->
  k_wfail k = None -> k_ffail k = false ->
  (length prog + 1 <= Pos.to_nat fuel)%nat ->
  exists w',
    lzma_decompress fuel (mkOptions (ReadHeaderButUseProvided x) ml ai)
      (mkIo (src_of ((hdr_bytes fp dict_field field ++ payload) ++ trail) frag None) k)
    = (Done tt, w') /\
    snk_bytes (i_snk w') = snk_bytes k ++ out /\
    k_flushes (i_snk w') = k_flushes k + 1 /\
    s_pos (i_src w') = 13 + nlen payload /\
    s_rest (i_src w') = trail.
Proof.
  intros Hlc Hlp Hpb Hdf Henc Hfin Hfield Hml Hmode Hkw Hkf Hfuel.
  destruct (lzma_decode_exact_opts fp dict_field field prog payload out delta trail ief
              (mkOptions (ReadHeaderButUseProvided x) ml ai) frag k fuel Hlc Hlp Hpb Hdf Henc Hfin)
    as (w' & R & B & F & _ & P & T); try assumption.
  exists w'. split; [exact R|]. split; [exact B|]. split; [exact F|]. split; [exact P|exact T].
Qed.
Print Assumptions lzma_decode_exact_rhp.

(* UseProvided x: the header has 5 bytes only *)
Theorem lzma_decode_exact_up fp dict_field x prog payload out delta trail ief ml ai frag k fuel :
  f_lc fp <= 8 -> f_lp fp <= 4 -> f_pb fp <= 4 -> dict_field < 2 ^ 32 ->
  enc_payload_gen false fp (Some (N.max dict_field 4096)) prog delta = Some (payload, out) ->
  final_ienc fp (Some (N.max dict_field 4096)) prog = Some ief ->
  memlimit_ok ml (N.max dict_field 4096) ->
  stream_mode x prog out delta trail ief ->
  k_wfail k = None -> k_ffail k = false ->
  (length prog + 1 <= Pos.to_nat fuel)%nat ->
  exists w',
    lzma_decompress fuel (mkOptions (UseProvided x) ml ai)
      (mkIo (src_of ((hdr_bytes fp dict_field [] ++ payload) ++ trail) frag None) k)
    = (Done tt, w') /\
    snk_bytes (i_snk w') = snk_bytes k ++ out /\
    k_flushes (i_snk w') = k_flushes k + 1 /\
    s_pos (i_src w') = 5 + nlen payload /\
    s_rest (i_src w') = trail.
Proof.
  intros Hlc Hlp Hpb Hdf Henc Hfin Hml Hmode Hkw Hkf Hfuel.
  destruct (lzma_decode_exact_opts fp dict_field [] prog payload out delta trail ief
              (mkOptions (UseProvided x) ml ai) frag k fuel Hlc Hlp Hpb Hdf Henc Hfin)
    as (w' & R & B & F & _ & P & T); try assumption.
  { reflexivity. }
  exists w'. split; [exact R|]. split; [exact B|]. split; [exact F|]. split; [exact P|exact T].
Qed.
Print Assumptions lzma_decode_exact_up.

(* the final ideal state exists whenever the payload does (so [final_ienc] is not an extra assumption) *)
Lemma final_ienc_of_payload fp w prog delta payload out :
  enc_payload_gen false fp w prog delta = Some (payload, out) ->
  exists ief, final_ienc fp w prog = Some ief /\ wf_ienc ief.
Proof.
  unfold enc_payload_gen, final_ienc. intros H.
  destruct (enc_syms_gen false fp w ienc0 (estate0 fp) prog) as [[ie sf]|] eqn:E; [|discriminate].
  exists ie. split; [reflexivity|]. exact (final_ienc_wf _ _ _ _ _ E).
Qed.
