(* C07, memory clause (M3): the XZ decoder (decode/xz.rs).

   What decode_stream keeps between two blocks is the list of index records; while a block is
   decoded it additionally holds the block header bytes, the LZMA2 decoder world of M2 and the
   per-block output Vec (tmpbuf).  For ARBITRARY input:
     - the record list has one entry per decoded block, and at most one entry per input byte consumed
       (every block consumes at least its header-size byte);
     - the buffered block header is made of bytes actually read, at most 4 * hs - 1 of them, and every
       filter-properties buffer cut from it is no longer than the header (a declared properties size
       that is not backed by header bytes is rejected);
     - tmpbuf is exactly the output of the decode_filter chain - the bytes the block produced - and is
       the same whatever packed / unpacked size the block header declares (those are only compared
       against the actual counts afterwards);
     - inside decode_filter the LZMA2 world obeys M2. *)
From LZ Require Import Base.Prelude Base.Prog Model.Io Model.Tables Model.LzBuffer Model.RangeDec Model.Lzma Model.Lzma2 Model.Crc Model.Xz.
From LZ Require Import Proofs.ProgLemmas Proofs.IoLemmas Proofs.IoInv Proofs.SrcMono Proofs.NoPanicXz
  Proofs.FootprintCore Proofs.FootprintLzma2.
Local Open Scope prog_scope.

Section WithCrc.
Variable crc32 : list N -> N.
Variable crc64 : list N -> N.

(* ------------------------------------------------------------------ *)
(* the read position never moves backwards                              *)
(* ------------------------------------------------------------------ *)
Definition m_mono {A} (m : M io A) : Prop := forall w, s_pos (i_src w) <= s_pos (i_src (snd (m w))).

Lemma m_mono_ret {A} (a : A) : m_mono (mret a).
Proof. intros w. cbn. lia. Qed.
Lemma m_mono_fail {A} e : m_mono (@mfail io A e).
Proof. intros w. cbn. lia. Qed.
Lemma m_mono_panic {A} q : m_mono (@mpanic io A q).
Proof. intros w. cbn. lia. Qed.
Lemma m_mono_bind {A B} (m : M io A) (f : A -> M io B) : m_mono m -> (forall a, m_mono (f a)) -> m_mono (mbind m f).
Proof.
  intros Hm Hf w. unfold mbind. specialize (Hm w). destruct (m w) as [[a|e|q] w1]; cbn [snd] in *; try exact Hm.
  specialize (Hf a w1). lia.
Qed.
Lemma m_mono_io {A} (p : iop A) : m_mono (io_run p).
Proof. intros w. apply run_io_pos_mono. Qed.

Lemma decode_filter_pos fuel f s : s_pos s <= s_pos (snd (decode_filter fuel f s)).
Proof.
  unfold decode_filter. destruct (negb _); [cbn [snd]; lia|]. cbv zeta.
  pose proof (sle_pos _ _ (lzma2_decompress_top_sle fuel (mkIo s vec_sink))) as H. cbn [i_src] in H.
  destruct (lzma2_decompress_top fuel (mkIo s vec_sink)) as [[[]|e|q] w]; cbn [snd] in *; exact H.
Qed.

(* ------------------------------------------------------------------ *)
(* read_block, with the production of tmpbuf singled out                 *)
(* ------------------------------------------------------------------ *)
Local Open Scope m_scope.

(* tmpbuf: built from the decoder output only *)
Definition block_decode (fuel : positive) (bh : block_header) : M io (list N) :=
  match bh_filters bh with
  | [] => mret []
  | f0 :: fs =>
      fun w =>
        match decode_filter fuel f0 (i_src w) with
        | (Failed e, s) => (Failed e, mkIo s (i_snk w))
        | (Panicked p, s) => (Panicked p, mkIo s (i_snk w))
        | (Done (packed, out), s) =>
            let w' := mkIo s (i_snk w) in
            if (match bh_packed bh with Some e => negb (packed =? e) | None => false end)
            then (Failed EXz, w')
            else match later_filters fuel fs out with
                 | Done b => (Done b, w') | Failed e => (Failed e, w') | Panicked p => (Panicked p, w')
                 end
        end
  end.

Lemma read_block_eq fuel start check hs :
  read_block crc32 crc64 fuel start check hs =
  if hs =? 0 then mpanic (POverflow 50) else
  let header_size := N.shiftl hs 2 - 1 in
  hdr <- io_run (read_upto header_size) ;;
  match read_block_header header_size hdr with
  | Failed e => mfail e | Panicked p => mpanic p
  | Done bh =>
  crc <- io_run read_u32_le ;;
  if negb (crc =? crc32 (hs :: hdr)) then mfail EXz else
  tmpbuf <- block_decode fuel bh ;;
  if (match bh_unpacked bh with Some e => negb (nlen tmpbuf =? e) | None => false end) then mfail EXz else
  block_tail crc32 crc64 start check tmpbuf
  end.
Proof. reflexivity. Qed.

Lemma block_decode_mono fuel bh : m_mono (block_decode fuel bh).
Proof.
  unfold block_decode. destruct (bh_filters bh) as [|f0 fs]; [apply m_mono_ret|]. intros w.
  pose proof (decode_filter_pos fuel f0 (i_src w)) as H.
  destruct (decode_filter fuel f0 (i_src w)) as [[[packed out]|e|q] s]; cbn [snd i_src] in *; try exact H.
  destruct (match bh_packed bh with Some e => _ | None => _ end); [exact H|].
  destruct (later_filters fuel fs out); exact H.
Qed.

Lemma block_tail_mono start check tmpbuf : m_mono (block_tail crc32 crc64 start check tmpbuf).
Proof.
  unfold block_tail.
  apply m_mono_bind; [apply m_mono_io|]. intros pos. cbv zeta.
  apply m_mono_bind; [apply m_mono_io|]. intros _.
  apply m_mono_bind; [apply m_mono_io|]. intros _.
  apply m_mono_bind; [apply m_mono_io|]. intros _.
  apply m_mono_bind; [apply m_mono_io|]. intros pos2.
  destruct (_ <? _); [apply m_mono_panic|apply m_mono_ret].
Qed.

Theorem read_block_mono fuel start check hs : m_mono (read_block crc32 crc64 fuel start check hs).
Proof.
  rewrite read_block_eq. destruct (hs =? 0); [apply m_mono_panic|]. cbv zeta.
  apply m_mono_bind; [apply m_mono_io|]. intros hdr.
  destruct (read_block_header _ hdr) as [bh|e|q]; [|apply m_mono_fail|apply m_mono_panic].
  apply m_mono_bind; [apply m_mono_io|]. intros crc.
  destruct (negb _); [apply m_mono_fail|].
  apply m_mono_bind; [apply block_decode_mono|]. intros tmpbuf.
  destruct (match bh_unpacked bh with Some e => _ | None => _ end); [apply m_mono_fail|apply block_tail_mono].
Qed.

(* ------------------------------------------------------------------ *)
(* the record list                                                      *)
(* ------------------------------------------------------------------ *)
(* [start0]: the read position when the block loop was entered *)
Definition XzFoot (start0 : N) (st : list record * io) : Prop :=
  start0 + nlen (fst st) <= s_pos (i_src (snd st)).

Lemma xz_body_foot fuel check start0 st : XzFoot start0 st ->
  match xz_body crc32 crc64 fuel check st with
  | Next st' => XzFoot start0 st' /\ nlen (fst st') = nlen (fst st) + 1
  | Break _ => True
  end.
Proof.
  destruct st as [records w]. unfold XzFoot. cbn [fst snd]. intros H. unfold xz_body.
  destruct (run_io read_u8 w) as [[hs|e|q] w1] eqn:E1; try exact I.
  apply read_u8_inv, reads_pos in E1. unfold nlen in E1. cbn [length] in E1.
  destruct (hs =? 0).
  - destruct (run_io _ w1) as [[u|e|q] w2]; exact I.
  - pose proof (read_block_mono fuel (s_pos (i_src w)) check hs w1) as M.
    destruct (read_block crc32 crc64 fuel (s_pos (i_src w)) check hs w1) as [[r|e|q] w2]; try exact I.
    cbn [fst snd] in *. rewrite IoLemmas.nlen_cons. split; [|reflexivity]. change (N.of_nat 1) with 1 in E1. lia.
Qed.

Lemma xz_iter_foot fuel check start0 n : forall st, XzFoot start0 st ->
  match iter_step n (xz_body crc32 crc64 fuel check) st with
  | Next st' => XzFoot start0 st' /\ nlen (fst st') = nlen (fst st) + N.of_nat n
  | Break _ => True
  end.
Proof.
  induction n as [|n IH]; intros st H; cbn [iter_step].
  - split; [exact H|]. change (N.of_nat 0) with 0. lia.
  - pose proof (xz_body_foot fuel check start0 st H) as B.
    destruct (xz_body crc32 crc64 fuel check st) as [st'|r]; [|exact I].
    destruct B as [B1 B2]. specialize (IH st' B1).
    destruct (iter_step n _ st') as [st''|r]; [|exact I]. destruct IH as [I1 I2].
    split; [exact I1|]. rewrite I2, B2, Nnat.Nat2N.inj_succ. lia.
Qed.

(* what the XZ decoder keeps between two blocks, in bytes (a record is two u64) *)
Definition xz_footprint (st : list record * io) : N := 16 * nlen (fst st).

(* the intended bound on a state of the block loop reached after n full iterations from w0 *)
Definition xz_foot_ok (w0 : io) (n : nat) (st : list record * io) : Prop :=
  nlen (fst st) = N.of_nat n /\
  s_pos (i_src w0) + nlen (fst st) <= s_pos (i_src (snd st)) /\
  xz_footprint st <= 16 * (s_pos (i_src (snd st)) - s_pos (i_src w0)).

(* M3, the summary theorem for the block loop: after n iterations that all went on (n blocks
   decoded) the record list has exactly n entries, and at least n bytes have been consumed since the
   loop was entered; so footprint <= 16 * blocks <= 16 * bytes consumed *)
Theorem xz_footprint_bounded fuel check w0 n :
  match iter_step n (xz_body crc32 crc64 fuel check) ([], w0) with
  | Next st => xz_foot_ok w0 n st
  | Break _ => True
  end.
Proof.
  assert (H0 : XzFoot (s_pos (i_src w0)) ([], w0)).
  { unfold XzFoot. cbn [fst snd]. unfold nlen. cbn [length]. lia. }
  pose proof (xz_iter_foot fuel check (s_pos (i_src w0)) n _ H0) as H.
  destruct (iter_step n _ _) as [st|r]; [|exact I]. destruct H as [H1 H2]. unfold XzFoot in H1.
  cbn [fst] in H2. unfold nlen at 2 in H2. cbn [length] in H2. unfold xz_foot_ok.
  split; [rewrite H2; change (N.of_nat 0) with 0; lia|]. split; [exact H1|]. unfold xz_footprint. lia.
Qed.

(* the same counted from the start of xz_decompress (the 12 header bytes come on top) *)
Definition xz_state_at (fuel : positive) (w : io) (n : nat) : option (step (list record * io) (outcome N * io)) :=
  match io_run (header_parse crc32) w with
  | (Done check, w0) => Some (iter_step n (xz_body crc32 crc64 fuel check) ([], w0))
  | _ => None
  end.

Corollary xz_decompress_footprint_bounded fuel w n st :
  xz_state_at fuel w n = Some (Next st) ->
  nlen (fst st) = N.of_nat n /\ xz_footprint st <= 16 * (s_pos (i_src (snd st)) - s_pos (i_src w)).
Proof.
  unfold xz_state_at. pose proof (run_io_pos_mono (header_parse crc32) w) as M. unfold io_run.
  destruct (run_io (header_parse crc32) w) as [[check|e|q] w0]; try discriminate. cbn [snd] in M.
  intros H. inversion H as [E]. pose proof (xz_footprint_bounded fuel check w0 n) as K. rewrite E in K.
  destruct K as (K1 & K2 & K3). split; [exact K1|]. unfold xz_footprint in *. lia.
Qed.

(* ------------------------------------------------------------------ *)
(* the block header                                                     *)
(* ------------------------------------------------------------------ *)
(* the buffered header consists of bytes actually read, at most 4 * hs - 1 of them *)
Theorem block_header_buffer hs w hdr w' :
  run_io (read_upto (N.shiftl hs 2 - 1)) w = (Done hdr, w') ->
  nlen hdr <= N.shiftl hs 2 - 1 /\ s_pos (i_src w') = s_pos (i_src w) + nlen hdr.
Proof.
  intros H. destruct (read_upto_inv _ _ _ _ H) as (R & L & _). split; [exact L|apply reads_pos; exact R].
Qed.

(* filter properties are cut out of the header bytes: a declared properties size never allocates
   more than the header holds *)
Lemma lget_multibyte_loop_len n : forall i res l v l', lget_multibyte_loop n i res l = Done (v, l') -> nlen l' <= nlen l.
Proof.
  induction n as [|n IH]; intros i res l v l'; cbn [lget_multibyte_loop]; [discriminate|].
  destruct l as [|b t]; [discriminate|]. rewrite IoLemmas.nlen_cons.
  destruct (_ =? 0).
  - intros H. inversion H; subst. lia.
  - intros H. apply IH in H. lia.
Qed.

Lemma read_filters_props n hs : forall l acc fs l' bound,
  read_filters n hs l acc = Done (fs, l') ->
  nlen l <= bound -> Forall (fun f => nlen (f_props f) <= bound) acc ->
  Forall (fun f => nlen (f_props f) <= bound) fs.
Proof.
  induction n as [|n IH]; intros l acc fs l' bound; cbn [read_filters].
  - intros H. inversion H; subst. intros _ Ha. rewrite lrev_rev. apply Forall_rev. exact Ha.
  - destruct (lget_multibyte l) as [[id l1]|e|q] eqn:E1; try discriminate.
    destruct (negb _); [discriminate|].
    destruct (lget_multibyte l1) as [[sz l2]|e|q] eqn:E2; try discriminate.
    destruct (hs <? sz); [discriminate|]. destruct (nlen l2 <? sz); [discriminate|].
    intros H Hl Ha. apply lget_multibyte_loop_len in E1. apply lget_multibyte_loop_len in E2.
    apply (IH _ _ _ _ bound H).
    + rewrite IoLemmas.nlen_nskipn. lia.
    + constructor; [|exact Ha]. cbn [f_props]. rewrite IoLemmas.nlen_nfirstn. lia.
Qed.

Theorem block_header_filters hs hdr bh : read_block_header hs hdr = Done bh ->
  Forall (fun f => nlen (f_props f) <= nlen hdr) (bh_filters bh).
Proof.
  unfold read_block_header. destruct hdr as [|flags l0]; [discriminate|].
  destruct (negb _); [discriminate|].
  cbv zeta.
  assert (Hopt : forall (b : bool) l (v : option N) l',
     (if b then match lget_multibyte l with
                | Done (v, l') => Done (Some v, l') | Failed e => Failed e | Panicked p => Panicked p
                end
      else Done (None, l)) = Done (v, l') -> nlen l' <= nlen l).
  { intros b l v l'. destruct b.
    - destruct (lget_multibyte l) as [[x lx]|e|q] eqn:E; try discriminate. intros H. inversion H; subst.
      apply lget_multibyte_loop_len in E. exact E.
    - intros H. inversion H; subst. lia. }
  match goal with |- context [match (if ?b then ?x else ?y) with _ => _ end] =>
    destruct (if b then x else y) as [[packed l1]|e|q] eqn:E1; try discriminate end.
  match goal with |- context [match (if ?b then ?x else ?y) with _ => _ end] =>
    destruct (if b then x else y) as [[unpacked l2]|e|q] eqn:E2; try discriminate end.
  destruct (read_filters _ hs l2 []) as [[fs l3]|e|q] eqn:E3; try discriminate.
  destruct (forallb _ l3); [|discriminate]. intros H. inversion H; subst. cbn [bh_filters].
  apply Hopt in E1. apply Hopt in E2. rewrite IoLemmas.nlen_cons.
  apply (read_filters_props _ _ _ _ _ _ _ E3); [lia|constructor].
Qed.

(* ------------------------------------------------------------------ *)
(* tmpbuf                                                               *)
(* ------------------------------------------------------------------ *)
(* tmpbuf is the output of the decode_filter chain *)
Theorem block_decode_output fuel bh w buf w' : block_decode fuel bh w = (Done buf, w') ->
  match bh_filters bh with
  | [] => buf = [] /\ w' = w
  | f0 :: fs =>
      exists packed out s,
        decode_filter fuel f0 (i_src w) = (Done (packed, out), s) /\
        later_filters fuel fs out = Done buf /\ w' = mkIo s (i_snk w)
  end.
Proof.
  unfold block_decode. destruct (bh_filters bh) as [|f0 fs].
  - intros H. inversion H; subst. split; reflexivity.
  - destruct (decode_filter fuel f0 (i_src w)) as [[[packed out]|e|q] s]; try discriminate.
    destruct (match bh_packed bh with Some e => _ | None => _ end); [discriminate|].
    destruct (later_filters fuel fs out) as [b|e|q] eqn:El; try discriminate.
    intros H. inversion H; subst. exists packed, out, s. auto.
Qed.

(* the output of one filter is what the LZMA2 decoder wrote to its Vec sink: the bytes it produced *)
Theorem decode_filter_output fuel f s n out s' : decode_filter fuel f s = (Done (n, out), s') ->
  out = snk_bytes (i_snk (snd (lzma2_decompress_top fuel (mkIo s vec_sink)))) /\
  s' = i_src (snd (lzma2_decompress_top fuel (mkIo s vec_sink))) /\
  n = s_pos s' - s_pos s.
Proof.
  unfold decode_filter. destruct (negb _); [discriminate|]. cbv zeta.
  destruct (lzma2_decompress_top fuel (mkIo s vec_sink)) as [[[]|e|q] w]; try discriminate.
  intros H. inversion H; subst. cbn [snd]. auto.
Qed.

(* the sizes declared in the block header do not influence tmpbuf: with other declared sizes the same
   buffer is produced, or the block is rejected *)
Theorem block_decode_declared_sizes fuel fs p1 u1 p2 u2 w buf w' :
  block_decode fuel (mkBH fs p1 u1) w = (Done buf, w') ->
  block_decode fuel (mkBH fs p2 u2) w = (Done buf, w') \/
  block_decode fuel (mkBH fs p2 u2) w = (Failed EXz, w').
Proof.
  unfold block_decode. cbn [bh_filters bh_packed]. destruct fs as [|f0 fs']; [left; assumption|].
  destruct (decode_filter fuel f0 (i_src w)) as [[[packed out]|e|q] s]; try discriminate.
  destruct (match p1 with Some e => _ | None => _ end); [discriminate|].
  destruct (later_filters fuel fs' out) as [b|e|q]; try discriminate.
  intros H. inversion H; subst.
  destruct (match p2 with Some e => _ | None => _ end); [right|left]; reflexivity.
Qed.

(* read_block as a whole: the record it returns carries nlen tmpbuf, and the declared unpacked size is
   only compared with it *)
Theorem read_block_record fuel start check hs w r w' :
  read_block crc32 crc64 fuel start check hs w = (Done r, w') ->
  exists hdr bh w1 tmpbuf w2,
    read_block_header (N.shiftl hs 2 - 1) hdr = Done bh /\
    nlen hdr <= N.shiftl hs 2 - 1 /\
    block_decode fuel bh w1 = (Done tmpbuf, w2) /\
    rc_unpacked r = nlen tmpbuf /\
    match bh_unpacked bh with Some e => e = nlen tmpbuf | None => True end.
Proof.
  rewrite read_block_eq. destruct (hs =? 0); [discriminate|]. cbv zeta. unfold mbind at 1. unfold io_run at 1.
  destruct (run_io (read_upto (N.shiftl hs 2 - 1)) w) as [[hdr|e|q] wa] eqn:Eh; try discriminate.
  destruct (read_block_header (N.shiftl hs 2 - 1) hdr) as [bh|e|q] eqn:Ebh; try discriminate.
  unfold mbind at 1. destruct (io_run read_u32_le wa) as [[crc|e|q] wb]; try discriminate.
  destruct (negb _); [discriminate|].
  unfold mbind at 1. destruct (block_decode fuel bh wb) as [[tmpbuf|e|q] wc] eqn:Ed; try discriminate.
  destruct (match bh_unpacked bh with Some e => _ | None => _ end) eqn:Eu; [discriminate|].
  intros H. exists hdr, bh, wb, tmpbuf, wc.
  split; [exact Ebh|]. split; [exact (proj1 (block_header_buffer _ _ _ _ Eh))|]. split; [exact Ed|].
  split.
  - revert H. unfold block_tail, mbind, io_run.
    repeat match goal with
           | |- context [match run_io ?p ?x with _ => _ end] => destruct (run_io p x) as [[?|?|?] ?]; try discriminate
           end.
    destruct (_ <? _); [discriminate|]. unfold mret. intros H. inversion H; subst. reflexivity.
  - destruct (bh_unpacked bh) as [e|]; [|exact I]. apply negb_false_iff, N.eqb_eq in Eu. symmetry. exact Eu.
Qed.

(* ------------------------------------------------------------------ *)
(* inside a block: the LZMA2 world of decode_filter                      *)
(* ------------------------------------------------------------------ *)
(* bytes the block has produced so far: flushed to the Vec sink + still in the accumulating buffer *)
Definition block_produced (w : w2) : N := nlen (k_out (a_snk (w_acc w))) + a_len (w_acc w).
(* memory held while the block is decoded: the LZMA2 world + the output Vec *)
Definition block_footprint (w : w2) : N := w2_footprint w + nlen (k_out (a_snk (w_acc w))).

Theorem xz_block_inner_footprint fuel dec s n : lzma2_new = Done dec ->
  let w := l2_res_state (iter_step n (l2_body fuel) (lzma2_start dec (mkIo s vec_sink))) in
  w2_foot_ok w /\ block_footprint w <= FOOT_CONST + block_produced w.
Proof.
  intros H w. destruct (lzma2_top_footprint_bounded fuel dec (mkIo s vec_sink) n H) as [K _]. fold w in K.
  split; [exact K|]. destruct K as (_ & _ & _ & K). unfold block_footprint, block_produced. lia.
Qed.

End WithCrc.

Print Assumptions read_block_mono.
Print Assumptions xz_footprint_bounded.
Print Assumptions xz_decompress_footprint_bounded.
Print Assumptions block_header_buffer.
Print Assumptions block_header_filters.
Print Assumptions block_decode_output.
Print Assumptions decode_filter_output.
Print Assumptions block_decode_declared_sizes.
Print Assumptions read_block_record.
Print Assumptions xz_block_inner_footprint.
