(* Property C07, Part 9 (fuel adequacy, LZMA2): the chunk loop of decode/lzma2.rs and the
   process_mode loop it runs inside every compressed chunk both run on the SAME fuel value.
   A fuel linear in the number of input bytes still to be read serves both:
     - every chunk-loop iteration that continues has consumed its control byte, so the loop runs
       at most (remaining input + 1) times;
     - the potential of FuelAdequacy.v ((|pib| + remaining bytes) * 2^32 + range) of the inner
       process_mode is bounded by the remaining input (the Take limit only hides bytes, it never
       adds any), and the source only advances from chunk to chunk.
   Input bytes are ARBITRARY (< 256); reader fragmentation / faults and sink behaviour are arbitrary. *)
From LZ Require Import Base.Prelude Base.Prog Model.Io Model.Tables Model.LzBuffer Model.RangeDec Model.Lzma Model.Lzma2.
From LZ Require Import Proofs.ProgLemmas Proofs.MapLemmas Proofs.NoPanic Proofs.NoPanicWorld
                       Proofs.IoInv Proofs.SrcMono Proofs.ResetFresh Proofs.Lzma2Inv Proofs.NoPanicLoops
                       Proofs.NoPanicLzma2 Proofs.FuelAdequacy.
From Coq Require Import ZifyBool ZifyNat ZifyN.
Local Open Scope prog_scope.

Ltac Zify.zify_post_hook ::= Z.div_mod_to_equations.

(* ====================================================================== *)
(* Loops with a strictly decreasing measure terminate within the fuel       *)
(* ====================================================================== *)
Lemma iter_step_measure {S R} (body : S -> step S R) (I : S -> Prop) (mu : S -> N) (Q : R -> Prop)
  (Hb : forall s, I s -> match body s with Next s' => I s' /\ mu s' + 1 <= mu s | Break r => Q r end) :
  forall n s, I s ->
    match iter_step n body s with Next s' => I s' /\ mu s' + N.of_nat n <= mu s | Break r => Q r end.
Proof.
  induction n as [|n IH]; intros s Hs; cbn [iter_step].
  - split; [exact Hs|lia].
  - specialize (Hb s Hs). destruct (body s) as [s1|r]; [|exact Hb]. destruct Hb as [H1 M1].
    specialize (IH s1 H1). destruct (iter_step n body s1) as [s2|r]; [|exact IH].
    destruct IH as [H2 M2]. split; [exact H2|lia].
Qed.

Lemma loopN_measure {S R} (body : S -> step S R) (I : S -> Prop) (mu : S -> N) (Q : R -> Prop)
  (Hb : forall s, I s -> match body s with Next s' => I s' /\ mu s' + 1 <= mu s | Break r => Q r end) :
  forall fuel s, I s -> mu s < N.pos fuel ->
    match loopN fuel body s with Next _ => False | Break r => Q r end.
Proof.
  intros fuel s Hs Hm. rewrite loopN_iter.
  pose proof (iter_step_measure body I mu Q Hb (Pos.to_nat fuel) s Hs) as H.
  destruct (iter_step (Pos.to_nat fuel) body s) as [s'|r]; [|exact H].
  destruct H as [_ H]. rewrite positive_nat_N in H. lia.
Qed.

Lemma iter_step_S {S R} (body : S -> step S R) i s :
  iter_step (Datatypes.S i) body s = match iter_step i body s with Next si => body si | Break r => Break r end.
Proof.
  replace (Datatypes.S i) with (i + 1)%nat by lia. rewrite iter_step_add.
  destruct (iter_step i body s) as [si|r]; [|reflexivity]. cbn [iter_step]. destruct (body si); reflexivity.
Qed.

(* ====================================================================== *)
(* Reading the control byte consumes exactly one byte                       *)
(* ====================================================================== *)
Lemma mapped_read_u8_len e s b s' : src_run (map_io_err e read_u8) s = (Done b, s') ->
  nlen (s_rest s) = nlen (s_rest s') + 1.
Proof.
  intros H. apply src_run_inv in H. destruct H as (w' & H & ->).
  destruct (run_map_io_err e read_u8 (mkIo s vec_sink)) as [Hs Hf]. rewrite H in Hs, Hf. cbn [fst snd] in Hs, Hf.
  destruct (run_io read_u8 (mkIo s vec_sink)) as [[a|e0|q0] w0] eqn:E; cbn [fst snd] in Hs, Hf; try contradiction.
  subst a w0. apply read_u8_inv in E. apply reads_rest in E. cbn [i_src] in E.
  rewrite E, IoInv.nlen_app. change (nlen [b]) with 1. lia.
Qed.

(* ====================================================================== *)
(* The chunk loop under a bound on the remaining input                      *)
(* ====================================================================== *)
Section L2.
Variable PB : N -> Prop.
Hypothesis HPB : forall b, b < 256 -> PB b.
Variable fuel : positive.
Variable B : N.                     (* bound on the number of bytes still to be read *)
Hypothesis Hfuel : 16913 * (B + 21) <= N.pos fuel.

Definition rest2 (w : w2) : N := nlen (s_rest (w_src w)).
Definition W2F (w : w2) : Prop := W2Inv PB w /\ rest2 w <= B.
(* no panic at all, and the invariant holds in the state left behind *)
Definition tot2 {A} (r : outcome A * w2) : Prop :=
  match r with (Panicked _, _) => False | (_, w') => W2F w' end.

Lemma w2_src_tot {A} (Q : A -> Prop) (p : iop A) w : io_safe Q p -> good p -> W2F w ->
  match w2_src w (src_run p (w_src w)) with
  | (Done a, w') => Q a /\ W2F w'
  | (Failed _, w') => W2F w'
  | (Panicked _, _) => False
  end.
Proof.
  intros Hp Hg [Hw Hb]. pose proof (w2_src_ok PB Q p w Hp Hw) as H.
  pose proof (src_step_phi p (w_src w) Hg) as Hl. unfold w2_src in *.
  destruct (src_run p (w_src w)) as [[a|e|q] s]; cbn [fst snd] in *; [| |exact H].
  - destruct H as [Ha H]. split; [exact Ha|]. split; [exact H|unfold rest2 in *; cbn [w_src]; lia].
  - split; [exact H|unfold rest2 in *; cbn [w_src]; lia].
Qed.

Lemma pl_dict_tot b w : W2F w -> tot2 (pl_dict b w).
Proof.
  intros [Hw Hb]. pose proof Hw as [H1 H2 H3 H4 H5]. unfold pl_dict. destruct b; [|split; assumption].
  pose proof (accum_reset_ok PB HPB (w_acc w) H4 H5) as H.
  destruct (accum_reset (w_acc w)) as [[u|e|q] a]; unfold tot2; [| |contradiction];
    destruct H as [Ha Hk]; (split; [constructor; assumption|exact Hb]).
Qed.

Lemma good_mapped_read_u8 e : good (map_io_err e read_u8).
Proof. apply good_map_io_err. apply good_read_u8. Qed.
Lemma good_mapped_read_u16 e : good (map_io_err e read_u16_be).
Proof. apply good_map_io_err. apply good_read_u16_be. Qed.

Lemma pl_props_tot b1 b2 w : W2F w -> tot2 (pl_props b1 b2 w).
Proof.
  intros Hw. unfold pl_props. destruct b1; [|exact Hw]. cbv zeta.
  set (np := if b2 then _ else _).
  assert (Hnp : match np with
                | (Done p, w') => props_valid p = true /\ W2F w'
                | (Failed _, w') => W2F w'
                | (Panicked _, _) => False
                end).
  { unfold np. destruct b2.
    - pose proof (w2_src_tot _ (map_io_err ELzma read_u8) w (io_safe_map_io_err _ _ _ read_u8_safe)
                    (good_mapped_read_u8 _) Hw) as H.
      destruct (w2_src w _) as [[pbyte|e|q] w1]; [| exact H|exact H].
      destruct H as [_ H]. destruct (N.leb_spec 225 pbyte) as [Hx|Hlt]; [exact H|].
      destruct (4 <? pbyte mod 9 + pbyte / 9 mod 5); [exact H|]. split; [|exact H].
      destruct (props_of_byte pbyte Hlt) as (A1 & A2 & A3). apply props_le_valid; cbn [lc lp pb]; assumption.
    - split; [|exact Hw]. destruct Hw as [[[D1 D2 D3 _ _ _] _ _ _ _] _]. apply props_le_valid; assumption. }
  clearbody np. destruct np as [[p|e|q] w1]; unfold tot2; [| exact Hnp|contradiction].
  destruct Hnp as [Hv [[H1 H2 H3 H4 H5] Hb]].
  destruct (reset_state_ok (w_ds w1) p H1 H2 Hv) as (d' & E & D1 & D2 & _). rewrite E.
  split; [constructor; assumption|exact Hb].
Qed.

(* the payload of a compressed chunk: the inner process_mode has enough fuel *)
Lemma pl_payload_tot us ps w : W2F w -> tot2 (pl_payload fuel us ps w).
Proof.
  intros [[H1 H2 H3 H4 H5] Hb]. unfold pl_payload. cbv zeta.
  set (d := set_unpacked_size (w_ds w) (Some (us + a_len (w_acc w)))).
  assert (Hd : DsOk d) by (apply DsOk_set_unpacked; exact H1).
  assert (Hp : PibOk d) by exact H2.
  pose proof (io_safe_src_run _ _ (set_limit (w_src w) (Some ps))
                (io_safe_map_io_err RcInv ELzma rc_new rc_new_io_safe) (SrcBytes_set_limit _ _ H3)) as Hr.
  pose proof (src_step_phi (map_io_err ELzma rc_new) (set_limit (w_src w) (Some ps))
                (good_map_io_err _ _ good_rc_new)) as Hl0.
  destruct (src_run (map_io_err ELzma rc_new) (set_limit (w_src w) (Some ps))) as [[r|e|q] s] eqn:Er; unfold tot2;
    [| |contradiction].
  2:{ cbn [snd] in Hl0. split; [constructor; assumption|].
      unfold rest2 in *. cbn [w_src set_limit s_rest] in *. lia. }
  destruct Hr as [Hr Hs]. apply src_run_map_rc_new in Er. destruct Er as [Erange Elen].
  cbn [set_limit s_rest] in Elen.
  set (w0 := mkLw d r s (WAccum (w_acc w))).
  assert (Hw0 : PmInv w0) by (apply PmInv_join; assumption).
  assert (Hphi : PhiL w0 < N.pos fuel * DROP).
  { unfold PhiL. cbn [w0 l_ds l_src l_rc]. rewrite Erange. apply fuel_simple.
    destruct Hp as [Hp _]. unfold MAX_REQUIRED_INPUT in Hp. unfold rest2 in Hb. lia. }
  pose proof (process_mode_total FinishMode fuel w0 Hw0) as Hpm. cbn [w0 l_rc] in Hpm. rewrite Erange in Hpm.
  specialize (Hpm ltac:(lia) Hphi). fold w0 in Hpm.
  destruct (process_mode_accum_inv FinishMode fuel w0 (w_acc w) eq_refl) as (a' & Ea & Ek).
  pose proof (process_mode_sle FinishMode fuel w0) as Hsle. apply sle_nlen in Hsle. cbn [w0 l_src] in Hsle.
  destruct (process_mode FinishMode fuel w0) as [res x]. cbn [snd] in Ea, Hsle.
  assert (Hx : PmInv x -> W2F (mkW2 (l_ds x) (set_limit (l_src x) None)
                                   match l_win x with WAccum a => a | WCirc _ => w_acc w end)).
  { intros Hx. apply PmInv_split in Hx. destruct Hx as (X1 & X2 & X3 & X4 & X5).
    rewrite Ea in *. split.
    - constructor; cbn [w_ds w_src w_acc]; try assumption. rewrite Ek. exact H5.
    - unfold rest2 in *. cbn [w_src set_limit s_rest]. lia. }
  destruct res as [u|e|q]; [apply Hx; exact Hpm|apply Hx; exact Hpm|contradiction].
Qed.

Theorem parse_lzma_tot status w : W2F w -> tot2 (parse_lzma fuel status w).
Proof.
  intros Hw. rewrite parse_lzma_eq. destruct (N.land status 128 =? 0); [exact Hw|].
  pose proof (w2_src_tot _ (map_io_err ELzma read_u16_be) w (io_safe_map_io_err _ _ _ read_u16_be_safe)
                (good_mapped_read_u16 _) Hw) as H1.
  destruct (w2_src w _) as [[us16|e|q] w1]; [|exact H1|contradiction]. destruct H1 as [_ H1].
  pose proof (w2_src_tot _ (map_io_err ELzma read_u16_be) w1 (io_safe_map_io_err _ _ _ read_u16_be_safe)
                (good_mapped_read_u16 _) H1) as H2.
  destruct (w2_src w1 _) as [[ps16|e|q] w2]; [|exact H2|contradiction]. destruct H2 as [_ H2].
  pose proof (pl_dict_tot (l2_cls status =? 3) w2 H2) as H3.
  destruct (pl_dict _ w2) as [[u|e|q] w3]; unfold tot2 in H3; [|exact H3|exact H3].
  pose proof (pl_props_tot (negb (l2_cls status =? 0)) ((l2_cls status =? 2) || (l2_cls status =? 3)) w3 H3) as H4.
  destruct (pl_props _ _ w3) as [[u'|e|q] w4]; unfold tot2 in H4; [|exact H4|exact H4].
  apply pl_payload_tot. exact H4.
Qed.

Theorem parse_uncompressed_tot rd w : W2F w -> tot2 (parse_uncompressed rd w).
Proof.
  intros Hw. unfold parse_uncompressed.
  pose proof (w2_src_tot _ (map_io_err ELzma read_u16_be) w (io_safe_map_io_err _ _ _ read_u16_be_safe)
                (good_mapped_read_u16 _) Hw) as H1.
  destruct (w2_src w _) as [[us16|e|q] w1]; [|exact H1|contradiction]. destruct H1 as [_ H1].
  pose proof (pl_dict_tot rd w1 H1) as H2. unfold pl_dict in H2.
  destruct (if rd then _ else _) as [[u|e|q] w2]; unfold tot2 in H2; [|exact H2|exact H2].
  pose proof (w2_src_tot _ (map_io_err ELzma (read_exact (us16 + 1))) w2
                (io_safe_map_io_err _ _ _ (read_exact_safe _))
                (good_map_io_err _ _ (good_read_exact _)) H2) as H3.
  destruct (w2_src w2 _) as [[bs|e|q] w3]; [|exact H3|contradiction].
  destruct H3 as [[Hb _] [[D1 D2 D3 D4 D5] Hl]]. unfold tot2.
  split; [|exact Hl]. constructor; cbn [w_ds w_src w_acc]; try assumption.
  unfold AccumOk, accum_append_bytes. cbn [a_buf]. apply map_append_BufBytes; assumption.
Qed.

(* one iteration of the chunk loop: no panic, and continuing costs at least the control byte *)
Theorem l2_body_tot w : W2F w ->
  match l2_body fuel w with
  | Next w' => W2F w' /\ rest2 w' + 1 <= rest2 w
  | Break r => tot2 r
  end.
Proof.
  intros Hw. unfold l2_body.
  pose proof (w2_src_tot _ (map_io_err ELzma read_u8) w (io_safe_map_io_err _ _ _ read_u8_safe)
                (good_mapped_read_u8 _) Hw) as H1.
  unfold w2_src in *.
  destruct (src_run (map_io_err ELzma read_u8) (w_src w)) as [[status|e|q] s1] eqn:E1; cbn [fst snd] in *;
    [|exact H1|contradiction].
  destruct H1 as [_ H1]. apply mapped_read_u8_len in E1.
  set (w1 := mkW2 (w_ds w) s1 (w_acc w)) in *.
  assert (R1 : rest2 w1 + 1 = rest2 w) by (unfold rest2; cbn [w1 w_src]; lia).
  destruct (status =? 0); [exact H1|].
  set (r := if status =? 1 then _ else _).
  assert (Hr : tot2 r /\ rest2 (snd r) <= rest2 w1).
  { unfold r. destruct (status =? 1); [|destruct (status =? 2)].
    - split; [apply parse_uncompressed_tot; exact H1|].
      apply sle_nlen. apply (parse_uncompressed_sle true w1).
    - split; [apply parse_uncompressed_tot; exact H1|].
      apply sle_nlen. apply (parse_uncompressed_sle false w1).
    - split; [apply parse_lzma_tot; exact H1|].
      apply sle_nlen. apply (parse_lzma_sle fuel status w1). }
  clearbody r. destruct r as [[u|e|q] w2]; cbn [snd] in Hr; destruct Hr as [Hr Hl]; unfold tot2 in *; try exact Hr.
  split; [exact Hr|lia].
Qed.

(* ====================================================================== *)
(* 1. lzma2_decompress is total                                             *)
(* ====================================================================== *)
Theorem lzma2_decompress_total_B dec io0 :
  L2Inv dec -> SrcBytes (i_src io0) -> SnkBytes PB (i_snk io0) -> nlen (s_rest (i_src io0)) <= B ->
  match lzma2_decompress fuel dec io0 with
  | (Panicked _, _) => False
  | (_, (dec', w')) => L2Inv dec' /\ SrcBytes (i_src w') /\ SnkBytes PB (i_snk w')
  end.
Proof.
  intros [Hd Hp] Hs Hk Hb. unfold lzma2_decompress. cbv zeta.
  set (w0 := mkW2 (l2_state dec) (i_src io0) (accum_new (i_snk io0) (USIZE - 1))).
  assert (Hw0 : W2F w0).
  { split; [|exact Hb]. constructor; cbn [w0 w_ds w_src w_acc]; try assumption. apply BufBytes_empty. }
  pose proof (loopN_measure (l2_body fuel) W2F rest2 tot2 l2_body_tot fuel w0 Hw0) as L.
  assert (Hm : rest2 w0 < N.pos fuel) by (unfold rest2; cbn [w0 w_src]; lia).
  specialize (L Hm). clearbody w0.
  assert (Hout : forall w, W2F w -> L2Inv (mkL2 (w_ds w)) /\ SrcBytes (w_src w) /\ SnkBytes PB (a_snk (w_acc w))).
  { intros w [[D1 D2 D3 D4 D5] _]. split; [split; assumption|split; assumption]. }
  destruct (loopN fuel (l2_body fuel) w0) as [w|[[u|e|q] w]]; unfold tot2 in L; cbn [i_src i_snk].
  - contradiction.
  - pose proof L as [[D1 D2 D3 D4 D5] _]. pose proof (accum_finish_ok PB HPB (w_acc w) D4 D5) as [F1 F2].
    destruct (accum_finish (w_acc w)) as [[u'|e|q] k]; cbn [fst snd not_panicked i_src i_snk] in *;
      try contradiction; (split; [split; assumption|split; assumption]).
  - apply Hout; exact L.
  - contradiction.
Qed.

End L2.

(* with fuel >= 16913 * (remaining input + 21) the LZMA2 decoder returns Ok or Err *)
Theorem lzma2_decoder_decompress_total (PB : N -> Prop) (HPB : forall b, b < 256 -> PB b) fuel dec io0 :
  L2Inv dec -> SrcBytes (i_src io0) -> SnkBytes PB (i_snk io0) ->
  16913 * (nlen (s_rest (i_src io0)) + 21) <= N.pos fuel ->
  match lzma2_decompress fuel dec io0 with
  | (Panicked _, _) => False
  | (_, (dec', w')) => L2Inv dec' /\ SrcBytes (i_src w') /\ SnkBytes PB (i_snk w')
  end.
Proof.
  intros Hd Hs Hk Hf.
  exact (lzma2_decompress_total_B PB HPB fuel (nlen (s_rest (i_src io0))) Hf dec io0 Hd Hs Hk (N.le_refl _)).
Qed.
Print Assumptions lzma2_decoder_decompress_total.

(* lib.rs: lzma2_decompress.  Nothing is assumed about the sink. *)
Theorem lzma2_decompress_total fuel io0 : SrcBytes (i_src io0) ->
  16913 * (nlen (s_rest (i_src io0)) + 21) <= N.pos fuel ->
  match lzma2_decompress_top fuel io0 with
  | (Panicked _, _) => False
  | (_, w') => SrcBytes (i_src w') /\ nlen (s_rest (i_src w')) <= nlen (s_rest (i_src io0))
  end.
Proof.
  intros Hs Hf. pose proof (lzma2_decompress_top_sle fuel io0) as Hsle. apply sle_nlen in Hsle.
  unfold lzma2_decompress_top in *. destruct lzma2_new_ok as (dec & E & Hd). rewrite E in *.
  pose proof (lzma2_decoder_decompress_total (fun _ => True) AnyN_ok fuel dec io0 Hd Hs (SnkBytes_any _) Hf) as H.
  destruct (lzma2_decompress fuel dec io0) as [[u|e|q] [dec' w']]; cbn [snd] in Hsle; tauto.
Qed.
Print Assumptions lzma2_decompress_total.

(* the variant that also tracks "the sink only ever receives bytes" (needed for chained XZ filters) *)
Theorem lzma2_decompress_total_bytes fuel io0 : SrcBytes (i_src io0) -> SnkBytes IsByte (i_snk io0) ->
  16913 * (nlen (s_rest (i_src io0)) + 21) <= N.pos fuel ->
  match lzma2_decompress_top fuel io0 with
  | (Panicked _, _) => False
  | (_, w') => SrcBytes (i_src w') /\ SnkBytes IsByte (i_snk w') /\
               nlen (s_rest (i_src w')) <= nlen (s_rest (i_src io0))
  end.
Proof.
  intros Hs Hk Hf. pose proof (lzma2_decompress_top_sle fuel io0) as Hsle. apply sle_nlen in Hsle.
  unfold lzma2_decompress_top in *. destruct lzma2_new_ok as (dec & E & Hd). rewrite E in *.
  pose proof (lzma2_decoder_decompress_total IsByte IsByte_ok fuel dec io0 Hd Hs Hk Hf) as H.
  destruct (lzma2_decompress fuel dec io0) as [[u|e|q] [dec' w']]; cbn [snd] in Hsle; tauto.
Qed.
Print Assumptions lzma2_decompress_total_bytes.

(* one-shot decoding of a byte list into a Vec, fuel computed from the length *)
Corollary lzma2_decompress_bytes_total data fuel : Bytes data ->
  16913 * (nlen data + 21) <= N.pos fuel ->
  not_panicked (fst (lzma2_decompress_top fuel (mkIo (cursor_of data) vec_sink))).
Proof.
  intros Hb Hf. pose proof (lzma2_decompress_total fuel (mkIo (cursor_of data) vec_sink) Hb Hf) as H.
  destruct (lzma2_decompress_top fuel _) as [[u|e|q] w']; cbn [fst not_panicked]; tauto.
Qed.
Print Assumptions lzma2_decompress_bytes_total.
