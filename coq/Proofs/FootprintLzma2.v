(* C07, memory clause (M2): the LZMA2 decoder (decode/lzma2.rs).

   For ARBITRARY input, in every state of the chunk loop l2_body (and of the symbol loop inside a
   compressed chunk):
     - the accumulating buffer holds exactly the bytes produced since the last dictionary reset
       (a_blen = a_len); a dictionary reset frees it;
     - the sizes declared in a chunk header (unpacked size, packed size) allocate nothing: they only
       become the decoder's unpacked-size target and the Take limit of the reader;
     - partial input buffer <= 20 bytes, tables of constant shape (<= TABS_MAX cells; LZMA2 restricts
       lc + lp <= 4 but the bound used here is the general one).
   Hence footprint <= FOOT_CONST + bytes produced since the last dictionary reset. *)
From LZ Require Import Base.Prelude Base.Prog Model.Io Model.Tables Model.LzBuffer Model.RangeDec Model.Lzma Model.Lzma2.
From LZ Require Import Proofs.ProgLemmas Proofs.IoLemmas Proofs.StreamLatch Proofs.StreamPrefix Proofs.SizeRules Proofs.ResetFresh
  Proofs.FaultProp Proofs.Lzma2Inv Proofs.FootprintCore.
From LZ Require Proofs.IoInv Proofs.SrcMono Proofs.NoPanicLoops.
Local Open Scope prog_scope.

Definition w2_footprint (w : w2) : N :=
  nlen (ds_pib (w_ds w)) + 2 * tabs_size (ds_tabs (w_ds w)) + a_blen (w_acc w).

Definition W2Foot (w : w2) : Prop := DsFoot (w_ds w) /\ AccFoot (w_acc w).

Definition w2_foot_ok (w : w2) : Prop :=
  nlen (ds_pib (w_ds w)) <= MAX_REQUIRED_INPUT /\
  tabs_size (ds_tabs (w_ds w)) <= TABS_MAX /\
  a_blen (w_acc w) = a_len (w_acc w) /\
  w2_footprint w <= FOOT_CONST + a_len (w_acc w).

Lemma W2Foot_ok w : W2Foot w -> w2_foot_ok w.
Proof.
  intros [[Hp Ht] Ha]. pose proof (TabsFoot_bound _ Ht) as T. unfold AccFoot in Ha.
  repeat split; try assumption. unfold w2_footprint, FOOT_CONST. lia.
Qed.

(* the memory limit of LzAccumBuffer is enforced by append_literal only (as in the crate): what holds
   is this; append_lz and append_bytes do not look at a_mem (see FootprintExamples for the
   counterexamples).  Lzma2Decoder never sets a limit (usize::MAX). *)
Lemma accum_append_literal_memlimit a lit : fst (accum_append_literal a lit) = Done tt ->
  a_len (snd (accum_append_literal a lit)) <= a_mem a.
Proof.
  unfold accum_append_literal. cbv zeta. destruct (N.ltb_spec (a_mem a) (a_len a + 1)); cbn [fst snd a_len]; [discriminate|lia].
Qed.

(* ---------- the pieces of a chunk ---------- *)
Lemma w2_src_foot {A} w (r : outcome A * src) : W2Foot w -> W2Foot (snd (w2_src w r)).
Proof. intros H. exact H. Qed.

Lemma pl_dict_foot b w : W2Foot w -> W2Foot (snd (pl_dict b w)).
Proof.
  intros [Hd Ha]. unfold pl_dict. destruct b; [|split; assumption].
  pose proof (accum_reset_foot _ Ha) as K. destruct (accum_reset (w_acc w)) as [o a]. split; assumption.
Qed.

Lemma pl_props_foot b1 b2 w : W2Foot w -> W2Foot (snd (pl_props b1 b2 w)).
Proof.
  intros Hw. unfold pl_props. destruct b1; [|exact Hw]. cbv zeta.
  assert (Hnp : forall np : outcome props * w2, W2Foot (snd np) ->
     W2Foot (snd (match np with
                  | (Failed e, w) => (Failed e, w) | (Panicked p, w) => (Panicked p, w)
                  | (Done p, w) =>
                      match reset_state (w_ds w) p with
                      | (Done d, _) => (Done tt, mkW2 d (w_src w) (w_acc w))
                      | (Failed e, _) => (Failed e, w)
                      | (Panicked q, _) => (Panicked q, w)
                      end
                  end : outcome unit * w2))).
  { intros [[p|e|q] w1] H1; cbn [snd] in *; try exact H1.
    destruct (reset_state (w_ds w1) p) as [[d|e|q] []] eqn:Er; cbn [snd]; try exact H1.
    destruct H1 as [Hd Ha]. split; cbn [w_ds w_acc]; [exact (reset_state_foot _ _ _ Hd Er)|exact Ha]. }
  apply Hnp. destruct b2; [|exact Hw].
  destruct (w2_src w (src_run (map_io_err ELzma read_u8) (w_src w))) as [[pbyte|e|q] w1] eqn:E;
    assert (H1 : W2Foot w1) by (pose proof (w2_src_foot w (src_run (map_io_err ELzma read_u8) (w_src w)) Hw) as K; rewrite E in K; exact K);
    cbn [snd]; try exact H1.
  destruct (225 <=? pbyte); [exact H1|]. destruct (4 <? _); exact H1.
Qed.

Lemma pl_payload_foot fuel us ps w : W2Foot w -> W2Foot (snd (pl_payload fuel us ps w)).
Proof.
  intros [Hd Ha]. unfold pl_payload. cbv zeta.
  destruct (src_run (map_io_err ELzma rc_new) (set_limit (w_src w) (Some ps))) as [[r|e|q] s]; cbn [snd];
    try (split; cbn [w_ds w_acc]; [apply DsFoot_set_unpacked; exact Hd|exact Ha]).
  assert (H0 : LwFoot 0 0 (mkLw (set_unpacked_size (w_ds w) (Some (us + a_len (w_acc w)))) r s (WAccum (w_acc w)))).
  { split; cbn [l_ds l_win WinFoot]; [apply DsFoot_set_unpacked; exact Hd|exact Ha]. }
  pose proof (process_mode_foot 0 0 FinishMode fuel _ H0) as [_ [KD KW]].
  destruct (process_mode FinishMode fuel _) as [res x]. cbn [snd] in *.
  split; cbn [w_ds w_acc]; [exact KD|]. destruct (l_win x) as [c|a]; [exact Ha|exact KW].
Qed.

Theorem parse_lzma_foot fuel status w : W2Foot w -> W2Foot (snd (parse_lzma fuel status w)).
Proof.
  intros Hw. rewrite parse_lzma_eq. destruct (_ =? 0); [exact Hw|].
  destruct (w2_src w (src_run (map_io_err ELzma read_u16_be) (w_src w))) as [[us16|e|q] w1] eqn:E1;
    assert (H1 : W2Foot w1) by (pose proof (w2_src_foot w (src_run (map_io_err ELzma read_u16_be) (w_src w)) Hw) as K; rewrite E1 in K; exact K);
    cbn [snd]; try exact H1.
  destruct (w2_src w1 (src_run (map_io_err ELzma read_u16_be) (w_src w1))) as [[ps16|e|q] w2'] eqn:E2;
    assert (H2 : W2Foot w2') by (pose proof (w2_src_foot w1 (src_run (map_io_err ELzma read_u16_be) (w_src w1)) H1) as K; rewrite E2 in K; exact K);
    cbn [snd]; try exact H2.
  pose proof (pl_dict_foot (l2_cls status =? 3) w2' H2) as H3.
  destruct (pl_dict (l2_cls status =? 3) w2') as [[u|e|q] w3]; cbn [snd] in *; try exact H3.
  pose proof (pl_props_foot (negb (l2_cls status =? 0)) ((l2_cls status =? 2) || (l2_cls status =? 3)) w3 H3) as H4.
  destruct (pl_props _ _ w3) as [[u'|e|q] w4]; cbn [snd] in *; try exact H4.
  apply pl_payload_foot. exact H4.
Qed.

Theorem parse_uncompressed_foot rd w : W2Foot w -> W2Foot (snd (parse_uncompressed rd w)).
Proof.
  intros Hw. unfold parse_uncompressed.
  destruct (w2_src w (src_run (map_io_err ELzma read_u16_be) (w_src w))) as [[us16|e|q] w1] eqn:E1;
    assert (H1 : W2Foot w1) by (pose proof (w2_src_foot w (src_run (map_io_err ELzma read_u16_be) (w_src w)) Hw) as K; rewrite E1 in K; exact K);
    cbn [snd]; try exact H1.
  cbv zeta. fold (pl_dict rd w1). pose proof (pl_dict_foot rd w1 H1) as H2.
  destruct (pl_dict rd w1) as [[u|e|q] w2']; cbn [snd] in *; try exact H2.
  destruct (w2_src w2' (src_run (map_io_err ELzma (read_exact (us16 + 1))) (w_src w2'))) as [[bs|e|q] w3] eqn:E3;
    assert (H3 : W2Foot w3) by (pose proof (w2_src_foot w2' (src_run (map_io_err ELzma (read_exact (us16 + 1))) (w_src w2')) H2) as K; rewrite E3 in K; exact K);
    cbn [snd]; try exact H3.
  destruct H3 as [Hd Ha]. split; cbn [w_ds w_acc]; [exact Hd|apply accum_append_bytes_foot; exact Ha].
Qed.

(* ---------- the chunk loop ---------- *)
Definition l2_res_state (x : step w2 (outcome unit * w2)) : w2 := match x with Next w => w | Break (_, w) => w end.

Theorem l2_body_foot fuel w : W2Foot w -> W2Foot (l2_res_state (l2_body fuel w)).
Proof.
  intros Hw. unfold l2_body.
  destruct (w2_src w (src_run (map_io_err ELzma read_u8) (w_src w))) as [[status|e|q] w1] eqn:E1;
    assert (H1 : W2Foot w1) by (pose proof (w2_src_foot w (src_run (map_io_err ELzma read_u8) (w_src w)) Hw) as K; rewrite E1 in K; exact K);
    cbn [l2_res_state]; try exact H1.
  destruct (status =? 0); [exact H1|]. cbv zeta.
  assert (H2 : W2Foot (snd (if status =? 1 then parse_uncompressed true w1
                            else if status =? 2 then parse_uncompressed false w1 else parse_lzma fuel status w1))).
  { destruct (status =? 1); [apply parse_uncompressed_foot; exact H1|].
    destruct (status =? 2); [apply parse_uncompressed_foot; exact H1|apply parse_lzma_foot; exact H1]. }
  destruct (if status =? 1 then _ else _) as [[u|e|q] w2']; exact H2.
Qed.

Theorem l2_iter_foot fuel n w : W2Foot w -> W2Foot (l2_res_state (iter_step n (l2_body fuel) w)).
Proof.
  intros Hw.
  pose proof (iter_step_inv (l2_body fuel) W2Foot (fun r => W2Foot (snd r))) as L.
  assert (H1 : forall s s', W2Foot s -> l2_body fuel s = Next s' -> W2Foot s').
  { intros s s' Hs E. pose proof (l2_body_foot fuel s Hs) as K. rewrite E in K. exact K. }
  assert (H2 : forall s r, W2Foot s -> l2_body fuel s = Break r -> W2Foot (snd r)).
  { intros s [o t] Hs E. pose proof (l2_body_foot fuel s Hs) as K. rewrite E in K. exact K. }
  specialize (L H1 H2 n w Hw). destruct (iter_step n (l2_body fuel) w) as [w'|[o w']]; exact L.
Qed.

(* the world in which Lzma2Decoder::decompress starts *)
Definition lzma2_start (dec : lzma2_decoder) (io0 : io) : w2 :=
  mkW2 (l2_state dec) (i_src io0) (accum_new (i_snk io0) (USIZE - 1)).

(* M2, the summary theorem: every state of the chunk loop, any input, any fuel *)
Theorem lzma2_footprint_bounded fuel dec io0 n : DsFoot (l2_state dec) ->
  w2_foot_ok (l2_res_state (iter_step n (l2_body fuel) (lzma2_start dec io0))).
Proof.
  intros Hd. apply W2Foot_ok, l2_iter_foot. split; [exact Hd|apply accum_new_foot].
Qed.
Print Assumptions lzma2_footprint_bounded.

(* lzma2_decompress (lib.rs) builds its decoder with lzma2_new *)
Theorem lzma2_new_foot dec : lzma2_new = Done dec -> DsFoot (l2_state dec) /\ ds_pib (l2_state dec) = [].
Proof.
  unfold lzma2_new. destruct (dstate_new props0 None) as [[d|e|q] []] eqn:E; try discriminate.
  intros H. inversion H; subst. exact (dstate_new_foot _ _ _ E).
Qed.

Theorem lzma2_reset_foot dec dec' : DsFoot (l2_state dec) -> lzma2_reset dec = Done dec' -> DsFoot (l2_state dec').
Proof.
  intros Hd. unfold lzma2_reset. destruct (reset_state (l2_state dec) props0) as [[d|e|q] []] eqn:E; try discriminate.
  intros H. inversion H; subst. exact (reset_state_foot _ _ _ Hd E).
Qed.

Corollary lzma2_top_footprint_bounded fuel dec io0 n : lzma2_new = Done dec ->
  w2_foot_ok (l2_res_state (iter_step n (l2_body fuel) (lzma2_start dec io0))) /\
  w2_footprint (lzma2_start dec io0) <= 2 * TABS_MAX.
Proof.
  intros H. destruct (lzma2_new_foot dec H) as [Hd Hp]. split; [apply lzma2_footprint_bounded; exact Hd|].
  unfold w2_footprint, lzma2_start. cbn [w_ds w_acc accum_new a_blen]. rewrite Hp.
  destruct Hd as [_ Ht]. pose proof (TabsFoot_bound _ Ht). unfold nlen. cbn [length]. lia.
Qed.
Print Assumptions lzma2_top_footprint_bounded.

(* what the decoder object keeps when decompress returns: 20 bytes + tables *)
Theorem lzma2_decompress_keeps fuel dec io0 : DsFoot (l2_state dec) ->
  DsFoot (l2_state (fst (snd (lzma2_decompress fuel dec io0)))).
Proof.
  intros Hd. unfold lzma2_decompress. cbv zeta. fold (lzma2_start dec io0). rewrite loopN_iter.
  pose proof (l2_iter_foot fuel (Pos.to_nat fuel) (lzma2_start dec io0)) as K.
  assert (H0 : W2Foot (lzma2_start dec io0)) by (split; [exact Hd|apply accum_new_foot]). specialize (K H0).
  destruct (iter_step _ _ _) as [w'|[[[]|e|q] w']]; cbn [l2_res_state] in K; destruct K as [K _].
  - exact K.
  - destruct (accum_finish (w_acc w')) as [r k]. exact K.
  - exact K.
  - exact K.
Qed.

(* ---------- inside a compressed chunk: every iteration of the symbol loop ---------- *)
Theorem lzma2_chunk_inner_footprint w us r s n : W2Foot w ->
  let x := res_state (iter_step n (pm_body FinishMode)
                        (mkLw (set_unpacked_size (w_ds w) (Some us)) r s (WAccum (w_acc w)))) in
  nlen (ds_pib (l_ds x)) <= MAX_REQUIRED_INPUT /\
  tabs_size (ds_tabs (l_ds x)) <= TABS_MAX /\
  win_alloc (l_win x) <= win_len (l_win x) /\
  lw_footprint x <= FOOT_CONST + win_len (l_win x).
Proof.
  intros [Hd Ha] x. apply (LwBound_footprint 0 0). apply StepFoot_bound, pm_iter_foot.
  split; cbn [l_ds l_win WinFoot]; [apply DsFoot_set_unpacked; exact Hd|exact Ha].
Qed.
Print Assumptions lzma2_chunk_inner_footprint.

(* ---------- declared sizes allocate nothing ---------- *)
(* The chunk header of a compressed chunk declares unpacked_size (21 bits + 1) and packed_size.
   Whatever they are, running the header part of parse_lzma (everything before the payload is
   decoded) leaves the accumulating buffer either untouched or emptied by a dictionary reset. *)
Theorem chunk_header_allocates_nothing status w w1 w2' :
  pl_dict (l2_cls status =? 3) w = (Done tt, w1) ->
  pl_props (negb (l2_cls status =? 0)) ((l2_cls status =? 2) || (l2_cls status =? 3)) w1 = (Done tt, w2') ->
  a_blen (w_acc w2') <= a_blen (w_acc w) /\ (l2_cls status =? 3 = true -> a_blen (w_acc w2') = 0).
Proof.
  intros E1 E2.
  assert (A2 : w_acc w2' = w_acc w1).
  { revert E2. unfold pl_props. destruct (negb _); [|intros H; inversion H; reflexivity]. cbv zeta.
    destruct (_ || _).
    - destruct (w2_src w1 _) as [[pbyte|e|q] w3] eqn:E3; try discriminate.
      assert (A3 : w_acc w3 = w_acc w1) by (unfold w2_src in E3; inversion E3; reflexivity).
      destruct (225 <=? pbyte); [discriminate|]. destruct (4 <? _); [discriminate|].
      destruct (reset_state _ _) as [[d|e|q] []]; try discriminate. intros H; inversion H; subst. exact A3.
    - destruct (reset_state _ _) as [[d|e|q] []]; try discriminate. intros H; inversion H; subst. reflexivity. }
  rewrite A2. revert E1. unfold pl_dict. destruct (l2_cls status =? 3).
  - destruct (accum_reset (w_acc w)) as [o a] eqn:Er. intros H. inversion H; subst. cbn [w_acc].
    destruct (accum_reset_frees _ _ Er) as [Z _]. rewrite Z. split; [lia|reflexivity].
  - intros H. inversion H; subst. split; [lia|discriminate].
Qed.
Print Assumptions chunk_header_allocates_nothing.

(* an uncompressed chunk appends exactly the bytes it has read: the buffer grows by nlen bs where bs
   are bytes that read_exact has consumed from the input (a declared size that is not backed by
   input makes read_exact fail, and then nothing is appended) *)
Lemma sle_pos s s' : SrcMono.sle s s' -> s_pos s <= s_pos s'.
Proof. intros [(c & _ & P) _]. rewrite P. lia. Qed.

Lemma src_run_map_done {A} e' (p : iop A) s a s' : src_run (map_io_err e' p) s = (Done a, s') ->
  exists w', run_io p (mkIo s vec_sink) = (Done a, w') /\ i_src w' = s'.
Proof.
  unfold src_run. destruct (NoPanicLoops.run_map_io_err e' p (mkIo s vec_sink)) as [Hs Hf].
  destruct (run_io (map_io_err e' p) (mkIo s vec_sink)) as [[a2|e2|q2] w2'] eqn:E2; intros H; inversion H; subst.
  destruct (run_io p (mkIo s vec_sink)) as [[a1|e1|q1] w1] eqn:E1; cbn [fst snd] in *; try contradiction.
  subst. eexists. split; reflexivity.
Qed.

Theorem uncompressed_chunk_allocates_what_it_reads rd w w' :
  parse_uncompressed rd w = (Done tt, w') ->
  exists base (bs : list N),
    base <= a_blen (w_acc w) /\ (rd = true -> base = 0) /\
    a_blen (w_acc w') = base + nlen bs /\
    s_pos (w_src w) + nlen bs <= s_pos (w_src w').
Proof.
  unfold parse_uncompressed.
  pose proof (SrcMono.src_run_sle (map_io_err ELzma read_u16_be) (w_src w)
                (SrcMono.good_map_io_err ELzma _ SrcMono.good_read_u16_be)) as M1.
  destruct (w2_src w _) as [[us16|e|q] w1] eqn:E1; try discriminate.
  assert (A1 : w_acc w1 = w_acc w /\ s_pos (w_src w) <= s_pos (w_src w1)).
  { unfold w2_src in E1. destruct (src_run (map_io_err ELzma read_u16_be) (w_src w)) as [o s1] eqn:Er.
    cbn [fst snd] in *. inversion E1; subst. split; [reflexivity|]. cbn [w_src]. apply sle_pos. exact M1. }
  destruct A1 as [A1 P1]. cbv zeta.
  destruct (if rd then _ else _) as [[u|e|q] w2'] eqn:E2; try discriminate.
  assert (A2 : w_src w2' = w_src w1 /\ a_blen (w_acc w2') <= a_blen (w_acc w) /\ (rd = true -> a_blen (w_acc w2') = 0)).
  { destruct rd.
    - destruct (accum_reset (w_acc w1)) as [o a] eqn:Er. inversion E2; subst. cbn [w_src w_acc]. destruct u.
      destruct (accum_reset_frees _ _ Er) as [Z _]. rewrite Z. split; [reflexivity|]. split; [lia|reflexivity].
    - inversion E2; subst. rewrite A1. split; [reflexivity|]. split; [lia|discriminate]. }
  destruct A2 as (S2 & B2 & Z2).
  destruct (w2_src w2' _) as [[bs|e|q] w3] eqn:E3; try discriminate.
  intros H. inversion H; subst. clear H.
  unfold w2_src in E3. destruct (src_run (map_io_err ELzma (read_exact (us16 + 1))) (w_src w2')) as [o s3] eqn:Er.
  cbn [fst snd] in E3. inversion E3; subst. clear E3.
  destruct (src_run_map_done _ _ _ _ _ Er) as (w0 & R & Ew).
  destruct (IoInv.read_exact_inv _ _ _ _ R) as [Rd _]. pose proof (IoInv.reads_pos _ _ _ Rd) as Pp.
  cbn [i_src] in Pp. rewrite Ew in Pp.
  exists (a_blen (w_acc w2')), bs. cbn [w_acc w_src accum_append_bytes a_blen].
  split; [exact B2|]. split; [exact Z2|]. split; [reflexivity|]. rewrite Pp, S2. lia.
Qed.
Print Assumptions uncompressed_chunk_allocates_what_it_reads.
