(* C08 / C17, cut-short streams: the hypotheses of the theorems of CutShort.v are satisfiable (concrete streams, checked
   by vm_compute), and the model run on EVERY cut of these streams agrees with the theorems. *)
From LZ Require Import Base.Prelude Base.Prog Model.Io Model.Tables Model.LzBuffer Model.RangeDec Model.Lzma Model.Lzma2
  Format.RefEnc Format.Lzma2Fmt
  Proofs.IoLemmas Proofs.SymDecode Proofs.LzmaExact Proofs.LzmaExactExamples
  Proofs.Lzma2ExactChunk Proofs.Lzma2Exact Proofs.Lzma2ExactExamples
  Proofs.CutShort.

Definition is_failed {A} (o : outcome A) : bool := match o with Failed _ => true | _ => false end.

(* ---------- T1: a .lzma file with the end marker, cut anywhere ---------- *)
Definition lz_bytes : list N :=
  match enc_lzma_gen false ex_fp 100 (2 ^ 64 - 1) (ex_body ++ [EndMarker]) 0 with Some (b, _) => b | None => [] end.

Example lz_len : length lz_bytes = 33%nat.
Proof. vm_compute. reflexivity. Qed.

Example lz_cut_rejected cut frag :
  cut_of cut lz_bytes ->
  exists x w', lzma_decompress 100 (mkOptions ReadFromHeader None false) (mkIo (src_of cut frag None) vec_sink) = (Failed x, w').
Proof.
  intros Hcut. evar (ief : ienc).
  apply (lzma_truncated_rejected ex_fp 100 (2 ^ 64 - 1) (ex_body ++ [EndMarker]) lz_bytes LzmaExactExamples.ex_out 0 ief frag vec_sink 100%positive cut).
  - vm_compute. discriminate.
  - vm_compute. discriminate.
  - vm_compute. discriminate.
  - vm_compute. reflexivity.
  - vm_compute. reflexivity.
  - vm_compute. reflexivity.
  - left. split; [reflexivity|]. split; [exists ex_body; reflexivity|reflexivity].
  - reflexivity.
  - reflexivity.
  - vm_compute. lia.
  - exact Hcut.
Qed.

(* the model run on all 33 cuts (two bytes per refill): the error classes.  Cuts inside the 13-byte header give
   HeaderTooShort, cuts inside the 5 bytes read by RangeDecoder::new give LzmaError (the mapped read), later cuts give
   the I/O error of the read that hit the end, including a cut of the very last flush byte *)
Definition lz_run (n : nat) : outcome unit :=
  fst (lzma_decompress 100 (mkOptions ReadFromHeader None false) (mkIo (src_of (firstn n lz_bytes) (fun _ => 2) None) vec_sink)).
Example lz_all_cuts :
  map lz_run (seq 0 33) = repeat (Failed EHeaderTooShort) 13 ++ repeat (Failed ELzma) 5 ++ repeat (Failed EIo) 15
  /\ lz_run 33 = Done tt.
Proof. split; vm_compute; reflexivity. Qed.

(* ---------- T1, sized: declared size, no marker, a non-canonical flush offset ---------- *)
Definition lzs_bytes : list N :=
  match enc_lzma_gen false ex_fp 100 19 ex_body 5 with Some (b, _) => b | None => [] end.

Example lzs_cut_rejected cut frag :
  cut_of cut lzs_bytes ->
  exists x w', lzma_decompress 100 (mkOptions ReadFromHeader None false) (mkIo (src_of cut frag None) vec_sink) = (Failed x, w').
Proof.
  intros Hcut. evar (ief : ienc).
  apply (lzma_truncated_rejected ex_fp 100 19 ex_body lzs_bytes LzmaExactExamples.ex_out 5 ief frag vec_sink 100%positive cut).
  - vm_compute. discriminate.
  - vm_compute. discriminate.
  - vm_compute. discriminate.
  - vm_compute. reflexivity.
  - vm_compute. reflexivity.
  - vm_compute. reflexivity.
  - right. split; [reflexivity|]. split; [vm_compute; reflexivity|].
    split; [unfold no_marker, ex_body; repeat constructor; discriminate|vm_compute; reflexivity].
  - reflexivity.
  - reflexivity.
  - vm_compute. lia.
  - exact Hcut.
Qed.

Definition lzs_run (n : nat) : outcome unit :=
  fst (lzma_decompress 100 (mkOptions ReadFromHeader None false) (mkIo (src_of (firstn n lzs_bytes) (fun _ => 3) None) vec_sink)).
Example lzs_all_cuts :
  forallb (fun n => is_failed (lzs_run n)) (seq 0 (length lzs_bytes)) = true /\ lzs_run (length lzs_bytes) = Done tt.
Proof. split; vm_compute; reflexivity. Qed.

(* ---------- T2: the raw decoder behind a Take that is one byte short ---------- *)
Example raw_take_rejected : exists payload dec,
  enc_payload_gen false ex_fp (Some 4) (ex_body ++ [EndMarker]) 0 = Some (payload, LzmaExactExamples.ex_out) /\
  lzma_decoder_new (mkParams ex_pr 4 None) None = Done dec /\
  forall frag m, m < nlen payload -> exists x y,
    lzma_decoder_decompress 100 dec (mkIo (set_limit (src_of payload frag None) (Some m)) vec_sink) = (Failed x, y).
Proof.
  eexists _, _. split; [vm_compute; reflexivity|]. split; [vm_compute; reflexivity|].
  intros frag m Hm. evar (ief : ienc).
  match goal with |- exists _ _, lzma_decoder_decompress _ ?d (mkIo (set_limit (src_of ?p _ _) _) _) = _ =>
    apply (raw_lzma_short_take_rejected ex_fp ex_pr 4 None None (ex_body ++ [EndMarker]) 0 [] p LzmaExactExamples.ex_out ief d
             (src_of p frag None) vec_sink 100%positive m)
  end.
  - exact ex_pm.
  - lia.
  - vm_compute. discriminate.
  - vm_compute. reflexivity.
  - vm_compute. reflexivity.
  - split; [exists ex_body; reflexivity|split; reflexivity].
  - vm_compute. reflexivity.
  - apply src_of_FaultFree.
  - cbn [src_of s_rest]. rewrite app_nil_r. reflexivity.
  - reflexivity.
  - reflexivity.
  - vm_compute. lia.
  - exact Hm.
Qed.

(* ---------- T3: the LZMA2 stream of Lzma2ExactExamples.v (7 chunks, 80 bytes), cut anywhere ---------- *)
Example l2_cut_rejected cut frag k : k_wfail k = None -> k_ffail k = false ->
  cut_of cut ex_bytes ->
  exists x w', lzma2_decompress_top 8 (mkIo (src_of cut frag None) k) = (Failed x, w').
Proof.
  intros H1 H2 Hcut.
  exact (lzma2_truncated_rejected ex_cs ex_bytes Lzma2ExactExamples.ex_out frag k 8%positive cut ex_ser ex_wf H1 H2 ex_fuel Hcut).
Qed.

Definition l2_run (bytes : list N) : outcome unit :=
  fst (lzma2_decompress_top 8 (mkIo (src_of bytes (fun _ => 3) None) vec_sink)).
Example l2_all_cuts :
  forallb (fun n => is_failed (l2_run (firstn n ex_bytes))) (seq 0 80) = true /\ l2_run ex_bytes = Done tt.
Proof. split; vm_compute; reflexivity. Qed.

(* ---------- T4: the fifth chunk of that stream (class 2, new properties, 8 payload bytes) declares fewer bytes ---------- *)
Definition t4_cs1 : list chunk := firstn 4 ex_cs.
Definition t4_cs2 : list chunk := skipn 5 ex_cs.

Example t4_rejected m trail frag k : k_wfail k = None -> k_ffail k = false -> 1 <= m -> m < 8 ->
  exists b1 bc b3,
    ex_bytes = b1 ++ bc ++ b3 ++ [0] /\ nlen bc = 14 /\
    exists x w', lzma2_decompress_top 8 (mkIo (src_of ((b1 ++ with_packed_field bc m ++ b3 ++ [0]) ++ trail) frag None) k) = (Failed x, w').
Proof.
  intros H1 H2 Hm1 Hm2.
  destruct (ser_chunks_gen false l2state0 t4_cs1) as [[b1 s1]|] eqn:E1; [|vm_compute in E1; discriminate].
  destruct (ser_chunk_gen false s1 (CLzma 2 (Some (mkFProps 0 2 0)) [Lit 1; Lit 2; Match 1 5] 7)) as [[bc s2]|] eqn:E2;
    [|vm_compute in E1; inversion E1; subst; vm_compute in E2; discriminate].
  destruct (ser_chunks_gen false s2 t4_cs2) as [[b3 s3]|] eqn:E3;
    [|vm_compute in E1; inversion E1; subst; vm_compute in E2; inversion E2; subst; vm_compute in E3; discriminate].
  exists b1, bc, b3.
  assert (Hbc : nlen bc = 14).
  { vm_compute in E1. inversion E1; subst. vm_compute in E2. inversion E2; subst. reflexivity. }
  split; [|split; [exact Hbc|]].
  - vm_compute in E1. inversion E1; subst. vm_compute in E2. inversion E2; subst. vm_compute in E3. inversion E3; subst.
    reflexivity.
  - apply (lzma2_short_packed_size_rejected t4_cs1 2 (Some (mkFProps 0 2 0)) [Lit 1; Lit 2; Match 1 5] 7 t4_cs2
             b1 s1 bc s2 b3 s3 m trail frag k 8%positive E1 E2 E3); try assumption.
    + exact ex_wf.
    + exact ex_fuel.
    + rewrite Hbc. unfold chunk_hdr_len. change (2 <=? 2) with true. cbv iota. lia.
Qed.

(* the same by computation: packed-size field (bytes 49 and 50 of the stream) overwritten with m - 1 *)
Definition t4_bytes (m : N) : list N := firstn 49 ex_bytes ++ be_bytes 2 (m - 1) ++ skipn 51 ex_bytes.
Example t4_computed :
  t4_bytes 8 = ex_bytes /\ l2_run (t4_bytes 8) = Done tt /\
  forallb (fun m => is_failed (l2_run (t4_bytes m))) [1; 2; 3; 4; 5; 6; 7] = true.
Proof. repeat split; vm_compute; reflexivity. Qed.
(* declared sizes below the five bytes of RangeDecoder::new give the mapped LzmaError, larger ones the I/O error of the
   normalisation read that hits the Take limit *)
Example t4_classes :
  map (fun m => l2_run (t4_bytes m)) [1; 2; 3; 4; 5; 6; 7] = repeat (Failed ELzma) 4 ++ repeat (Failed EIo) 3.
Proof. vm_compute. reflexivity. Qed.
