(* C15, second part: the intermediate states of the streaming decoder against the ONE-SHOT result on the
   complete input.

   Setting: options [o] (allow_incomplete true or false), a sink [k0], a byte string [bs] (< 2^62 bytes) on which
   the one-shot decoder succeeds:   lzma_decompress big_fuel o (mkIo (cursor_of bs) k0) = (Done tt, w),
   out := snk_bytes (i_snk w).  A streaming decoder [stream_new o k0] is driven by any sequence of write calls
   on the bytes of [bs] in order ([wtrace], StreamPrefix2Trace.v; the C05 drivers [feed] / [feed_all] are instances).

   P1  C15_sink_is_prefix_of_final_output          after every write call the bytes in the sink are a prefix of out  (ANY sink)
   P2  C15_finish_incomplete_returns_prefix_of_final_output
                                                   with allow_incomplete, once header + 5 bytes are in, finish succeeds and
                                                   returns a prefix of out; exactly out when the declared size was reached
                                                   (sinks that accept everything, possibly in short writes, and never fail)
       C15_finish_incomplete_may_lose_staged_bytes the clause "everything written => finish returns out" of the task is
                                                   FALSE in the model (counterexample)
   P3  C15_keeps_up_with_input                     after every write call in the data state the decoder of the stream IS the
                                                   abstract one-shot loop after some k iterations, whose unread input is
                                                   staged ++ unconsumed with |staged| < 20; + the corollary on history lengths
       C15_writes_never_fail, C15_feed_all_never_fails   no write call fails on a prefix of a stream that decodes *)
From LZ Require Import Base.Prelude Base.Prog Model.Io Model.Tables Model.LzBuffer Model.RangeDec Model.Lzma Model.Stream.
From LZ Require Import Proofs.ProgLemmas Proofs.IoLemmas Proofs.WinCirc Proofs.StreamLatch Proofs.StreamPrefix Proofs.StreamFinish Proofs.StreamInv.
From LZ Require Import Proofs.StreamSimAbs Proofs.StreamSimSym Proofs.StreamSimBody Proofs.StreamSimMark Proofs.StreamSimCall
  Proofs.StreamSimLoop Proofs.StreamSimData Proofs.StreamSimHeader Proofs.StreamSimFull
  Proofs.StreamPrefix2Sync Proofs.StreamPrefix2Hist Proofs.StreamPrefix2Trace.
From Coq Require Import ZifyBool ZifyNat ZifyN.
Local Open Scope prog_scope.

(* ====================================================================== *)
(* Vocabulary of the statements                                             *)
(* ====================================================================== *)
(* l1 is a prefix of l2 *)
Definition prefix_of (l1 l2 : list N) : Prop := exists t, l2 = l1 ++ t.

(* a sink that accepts everything it is given (possibly in short writes) and never fails *)
Definition well_behaved (k : snk) : Prop := k_wfail k = None /\ k_ffail k = false.

Lemma vec_sink_well_behaved : well_behaved vec_sink.
Proof. split; reflexivity. Qed.
(* a Vec that already holds [init] *)
Definition vec_sink_with (init : list N) : snk := mkSnk (lrev init) (nlen init) 0 frag_all None 0 false.
Lemma vec_sink_with_well_behaved init : well_behaved (vec_sink_with init) /\ snk_bytes (vec_sink_with init) = init.
Proof.
  split; [split; reflexivity|]. unfold snk_bytes, vec_sink_with. cbn [k_out]. rewrite !lrev_rev. apply rev_involutive.
Qed.

(* the state in which the one-shot decoder enters its symbol loop (justified by StreamSimHeader.oneshot_abs) *)
Definition oneshot_start (o : options) (k0 : snk) (bs : list N) (A0 : ast) : Prop :=
  exists p r rest0 d, ahdr o bs = HGood p r rest0 /\ dstate_new (pr_props p) (pr_unpacked p) = (Done d, tt) /\
                      A0 = A0_of o k0 p r rest0 d.

(* [keeps_up A0 r0 staged rem]: the decoder state / registers / window [r0] of the stream are those of the abstract
   one-shot loop started in A0 after k iterations (k completed symbol steps), and
   - either that loop still has exactly [staged ++ rem] to read, [staged] (the partial input buffer, plus the bytes left
     in tmp by the header phase) being shorter than 20 = MAX_REQUIRED_INPUT,
   - or the declared size has been reached (the one-shot loop stops here),
   - or the end marker has been decoded: the state is the final state of the one-shot loop and no input is left. *)
Inductive keeps_up (A0 : ast) (r0 : run_state) (staged rem : list N) : Prop :=
| ku_step k A : osteps A0 k A -> core_eq (ast_of_run r0 []) A -> x_in A = staged ++ rem -> nlen staged < 20 -> keeps_up A0 r0 staged rem
| ku_size k A : osteps A0 k A -> core_eq (ast_of_run r0 []) A -> size_hit A = true -> keeps_up A0 r0 staged rem
| ku_end n A : oeval n A0 (Done tt, A) -> core_eq (ast_of_run r0 []) A -> staged ++ rem = [] -> keeps_up A0 r0 staged rem.

Lemma size_reached_hit r0 : size_reached r0 <-> size_hit (ast_of_run r0 []) = true.
Proof.
  unfold size_reached, size_hit, ast_of_run. cbn [x_ds x_win win_len]. split.
  - intros (us & E & H). rewrite E. apply N.leb_le. exact H.
  - destruct (ds_unpacked (rs_dec r0)) as [us|]; [|discriminate]. intros H. exists us. split; [reflexivity|apply N.leb_le; exact H].
Qed.

(* ====================================================================== *)
(* The one-shot run, analysed                                               *)
(* ====================================================================== *)
Lemma afinal_done R u A' : afinal R = (Done u, A') -> fst R = Done tt /\ snd R = A'.
Proof.
  destruct R as [[v|e|q] a]; cbn [afinal]; [|discriminate|discriminate]. destruct v.
  destruct (ds_unpacked (x_ds a)) as [len|]; [destruct (len =? win_len (x_win a))|]; intros E; inversion E; subst; split; reflexivity.
Qed.

(* [W] stands for the result of lzma_decompress (kept abstract: big_fuel must never be evaluated) *)
Definition oneshot_shape (o : options) (k0 : snk) (bs : list N) (W : outcome unit * io) : Prop :=
  match ahdr o bs with
  | HShort | HBad => is_failed (fst W)
  | HGood p r rest => exists d, dstate_new (pr_props p) (pr_unpacked p) = (Done d, tt) /\
      forall res A' c, aprocess FinishMode big_fuel (mkAst d r (WCirc (circ_new k0 (pr_dict p) (memlim o))) rest) = (res, A') ->
        x_win A' = WCirc c ->
        (fst W, i_snk (snd W)) =
        match res with
        | Done _ => circ_finish c
        | Failed e => (Failed e, c_snk c)
        | Panicked q => (Panicked q, c_snk c)
        end
  end.

Lemma oneshot_setup o k0 bs (W : outcome unit * io) :
  is_byte_string bs -> nlen bs < BIG -> oneshot_shape o k0 bs W -> fst W = Done tt ->
  exists p r rest0 d R n c,
    ahdr o bs = HGood p r rest0 /\ dstate_new (pr_props p) (pr_unpacked p) = (Done d, tt) /\
    oeval n (A0_of o k0 p r rest0 d) R /\ (n <= Pos.to_nat big_fuel)%nat /\
    AInv (A0_of o k0 p r rest0 d) /\ dict_ok (x_win (A0_of o k0 p r rest0 d)) /\ ds_pib d = [] /\
    4096 <= pr_dict p /\ fst R = Done tt /\ x_win (snd R) = WCirc c /\ circ_finish c = (Done tt, i_snk (snd W)).
Proof.
  intros Hb Hlen OS HW. unfold oneshot_shape in OS.
  destruct (ahdr o bs) as [| |p r rest0] eqn:EH; [rewrite HW in OS; contradiction|rewrite HW in OS; contradiction|].
  destruct OS as (d0 & Hd0 & OS).
  destruct (ahdr_good_facts o bs p r rest0 EH) as (Vp & Vd & Vb). destruct (Vb Hb) as (Vd2 & Vr & Vc).
  pose proof (ahdr_good_suffix o bs p r rest0 EH) as Hsuf.
  assert (Hbr : is_byte_string rest0) by (eapply is_byte_string_suffix; eassumption).
  assert (Hlr : nlen rest0 < BIG) by (apply suffix_nlen in Hsuf; lia).
  destruct (init_inv o k0 p r rest0 d0 Hd0 (conj Vd Vd2) Vr Vc Hbr Hlr) as (HI & HD & Hp0).
  fold (A0_of o k0 p r rest0 d0) in OS, HI, HD, Hp0. set (A0 := A0_of o k0 p r rest0 d0) in *.
  pose proof (aprocess_circ FinishMode big_fuel A0 I) as HC.
  destruct (aprocess FinishMode big_fuel A0) as [res A'] eqn:EP.
  cbn [snd] in HC. destruct (x_win A') as [c|] eqn:Ew; [|contradiction].
  specialize (OS res A' c eq_refl Ew). rewrite HW in OS.
  destruct (loopN big_fuel (abody FinishMode) A0) as [a'|R] eqn:EL.
  { exfalso. rewrite (aprocess_next FinishMode big_fuel A0 a' EL) in EP. inversion EP; subst. discriminate OS. }
  rewrite (aprocess_finish big_fuel _ R EL) in EP.
  rewrite loopN_iter in EL. destruct (iter_oeval _ _ _ EL) as (n & Hn & Hev).
  destruct res as [u|e|q]; [|discriminate OS|discriminate OS].
  destruct (afinal_done R u A' EP) as [HR1 HR2].
  exists p, r, rest0, d0, R, n, c. split; [reflexivity|]. split; [exact Hd0|]. split; [exact Hev|]. split; [exact Hn|].
  split; [exact HI|]. split; [exact HD|]. split; [exact Hp0|]. split; [exact Vd|]. split; [exact HR1|].
  split; [rewrite HR2; exact Ew|]. symmetry. exact OS.
Qed.

(* ====================================================================== *)
(* The three properties, relative to an analysed one-shot run               *)
(* ====================================================================== *)
Section Core.
  Variables (o : options) (k0 : snk) (bs : list N) (p : params) (r : rc) (rest0 : list N) (d : dstate)
            (R : outcome unit * ast) (n : nat) (c : circ) (kout : snk).
  Let A0 := A0_of o k0 p r rest0 d.
  Hypothesis Hgood : ahdr o bs = HGood p r rest0.
  Hypothesis Hd : dstate_new (pr_props p) (pr_unpacked p) = (Done d, tt).
  Hypothesis Hev : oeval n A0 R.
  Hypothesis Hn : (n <= Pos.to_nat big_fuel)%nat.
  Hypothesis HI : AInv A0.
  Hypothesis HD : dict_ok (x_win A0).
  Hypothesis Hp0 : ds_pib d = [].
  Hypothesis Hl : nlen bs <= BIG.
  Hypothesis Hdict : 4096 <= pr_dict p.
  Hypothesis HRd : fst R = Done tt.
  Hypothesis HcR : x_win (snd R) = WCirc c.
  Hypothesis HcF : circ_finish c = (Done tt, kout).

  Let Hp0' : ds_pib (x_ds A0) = [] := Hp0.

  Lemma core_tinv s' rem' : wtrace (stream_new o k0) bs s' rem' -> TInv o k0 bs p r rest0 d R n s' rem'.
  Proof.
    intros HT. apply (wtrace_inv o k0 bs p r rest0 d R n Hgood Hd Hev Hn HI HD Hp0 Hl _ _ _ _ HT).
    apply tinv_init. exact Hl.
  Qed.

  (* the sink of the final state of the one-shot loop ends up in the result *)
  Lemma final_snk_ext : sext (win_snk (x_win (snd R))) kout.
  Proof. rewrite HcR. cbn [win_snk]. pose proof (circ_finish_ext c) as H. rewrite HcF in H. exact H. Qed.

  Lemma chain_snk_ext A n' : AInv A -> ds_pib (x_ds A) = [] -> oeval n' A R -> sext (win_snk (x_win A)) kout.
  Proof. intros HIA HpA HevA. eapply ext_trans; [apply (oeval_snk_ext n' A R HevA HIA HpA)|apply final_snk_ext]. Qed.

  (* ---------- P1 ---------- *)
  Theorem core_sink_prefix s' rem' : wtrace (stream_new o k0) bs s' rem' -> sext (stream_sink s') kout.
  Proof.
    intros HT. pose proof (core_tinv s' rem' HT) as HV. unfold stream_sink.
    destruct (st_state s') as [[k|r0]|] eqn:Es.
    - destruct (tinv_header o k0 bs p r rest0 d R n Hn Hl s' rem' k HV Es) as (-> & _).
      apply (chain_snk_ext A0 n HI Hp0' Hev).
    - destruct (tinv_data o k0 bs p r rest0 d R n Hev Hn Hl HRd s' rem' r0 HV Es) as (_ & A & (_ & _ & Hw) & Ph).
      change (c_snk (rs_out r0)) with (win_snk (x_win (ast_of_run r0 []))). rewrite <- Hw.
      destruct Ph as [k n' Hos HevA _ _ _|k Hos _ ER|ER _].
      + destruct (osteps_inv A0 k A HI Hp0' Hos) as [HIA HpA]. apply (chain_snk_ext A n' HIA HpA HevA).
      + replace A with (snd R) by (rewrite ER; reflexivity). apply final_snk_ext.
      + replace A with (snd R) by (rewrite ER; reflexivity). apply final_snk_ext.
    - exfalso. apply (tinv_alive o k0 bs p r rest0 d R n s' rem' HV). exact Es.
  Qed.

  (* ---------- P3 ---------- *)
  Theorem core_keeps_up s' rem' r0 : wtrace (stream_new o k0) bs s' rem' -> st_state s' = Some (SData r0) ->
    keeps_up A0 r0 (ds_pib (rs_dec r0) ++ st_tmp s') rem'.
  Proof.
    intros HT Es. pose proof (core_tinv s' rem' HT) as HV.
    destruct (tinv_data o k0 bs p r rest0 d R n Hev Hn Hl HRd s' rem' r0 HV Es) as (_ & A & Hc & Ph).
    destruct Ph as [k n' Hos HevA Hsz Hin Hlen|k Hos Hsz ER|ER Hnil].
    - eapply ku_step; [exact Hos|exact Hc| |exact Hlen]. rewrite <- app_assoc. exact Hin.
    - eapply ku_size; eassumption.
    - eapply ku_end; [rewrite <- ER; exact Hev|exact Hc|]. rewrite <- app_assoc. exact Hnil.
  Qed.

  (* every iteration of the one-shot loop that ends at least 20 bytes before the end of what has been consumed
     lies before the state the stream is in *)
  Lemma core_before s' rem' r0 : wtrace (stream_new o k0) bs s' rem' -> st_state s' = Some (SData r0) ->
    forall j Aj, osteps A0 j Aj -> 20 + nlen rem' <= nlen (x_in Aj) ->
    AInv Aj /\ ds_pib (x_ds Aj) = [] /\
    exists A, core_eq (ast_of_run r0 []) A /\ ((exists m, osteps Aj m A) \/ (exists m, oeval m Aj R /\ snd R = A)).
  Proof.
    intros HT Es j Aj Hj Hfar. pose proof (core_tinv s' rem' HT) as HV.
    destruct (tinv_data o k0 bs p r rest0 d R n Hev Hn Hl HRd s' rem' r0 HV Es) as (_ & A & Hc & Ph).
    destruct (osteps_inv A0 j Aj HI Hp0' Hj) as [HIj Hpj]. split; [exact HIj|]. split; [exact Hpj|].
    exists A. split; [exact Hc|].
    destruct Ph as [k n' Hos HevA Hsz Hin Hlen|k Hos Hsz ER|ER Hnil].
    - left. destruct (Nat.le_gt_cases j k) as [Hle|Hgt]; [exists (k - j)%nat; apply (osteps_le A0 k A Hos j Aj Hj Hle)|exfalso].
      destruct (osteps_inv A0 k A HI Hp0' Hos) as [HIA HpA].
      pose proof (osteps_suffix A (j - k) Aj HIA HpA (osteps_le A0 j Aj Hj k A Hos ltac:(lia))) as Hsuf.
      apply suffix_nlen in Hsuf. rewrite Hin, !nlen_app in Hsuf. rewrite nlen_app in Hlen. lia.
    - left. exists (k - j)%nat. apply (osteps_le A0 k A Hos j Aj Hj).
      apply (osteps_stop A0 k A _ Hos (size_hit_call FinishMode A Hsz) j Aj Hj).
    - right. destruct (osteps_oeval A0 j Aj Hj n R Hev) as [_ HevJ]. exists (n - j)%nat. split; [exact HevJ|rewrite ER; reflexivity].
  Qed.

  (* the history of the stream is at least as long as that of the one-shot loop at any such iteration *)
  Theorem core_history s' rem' r0 : wtrace (stream_new o k0) bs s' rem' -> st_state s' = Some (SData r0) ->
    forall j Aj, osteps A0 j Aj -> 20 + nlen rem' <= nlen (x_in Aj) -> win_len (x_win Aj) <= c_len (rs_out r0).
  Proof.
    intros HT Es j Aj Hj Hfar.
    destruct (core_before s' rem' r0 HT Es j Aj Hj Hfar) as (HIj & Hpj & A & (_ & _ & Hw) & Hbef).
    change (c_len (rs_out r0)) with (win_len (x_win (ast_of_run r0 []))). rewrite <- Hw.
    destruct Hbef as [[m Hm]|[m [Hm EA]]].
    - apply (osteps_len_mono Aj m A HIj Hpj Hm).
    - rewrite <- EA. apply (oeval_len_mono m Aj R Hm HIj Hpj).
  Qed.

  (* ---------- P2 ---------- *)
  Hypothesis Hwb : well_behaved k0.

  Lemma core_cinv0 : CInv (snk_bytes k0) (circ_new k0 (pr_dict p) (memlim o)) [].
  Proof. apply circ_new_inv; [lia|apply Hwb]. Qed.

  Theorem core_finish s' rem' r0 : o_allow_incomplete o = true ->
    wtrace (stream_new o k0) bs s' rem' -> st_state s' = Some (SData r0) ->
    exists k' t, stream_finish s' = (Done tt, k') /\ snk_bytes kout = snk_bytes k' ++ t /\ (size_reached r0 -> t = []).
  Proof.
    intros Hai HT Es. pose proof (core_tinv s' rem' HT) as HV.
    destruct (tinv_data o k0 bs p r rest0 d R n Hev Hn Hl HRd s' rem' r0 HV Es) as (Ho & A & Hc & Ph).
    pose proof Hc as (_ & _ & Hw).
    assert (Hff : k_ffail (c_snk (rs_out r0)) = false).
    { pose proof (wtrace_cfg _ _ _ _ HT) as [_ F]. unfold stream_sink in F at 1. rewrite Es in F. cbn [stream_new stream_sink st_state] in F.
      rewrite F. apply Hwb. }
    assert (Hfin : forall h, CInv (snk_bytes k0) (rs_out r0) h -> exists k', stream_finish s' = (Done tt, k') /\ snk_bytes k' = snk_bytes k0 ++ h).
    { intros h HC. apply (finish_allow_incomplete s' r0 (snk_bytes k0) h Es); [rewrite Ho; exact Hai|exact HC|exact Hff]. }
    assert (Hend : A = snd R -> exists k' t, stream_finish s' = (Done tt, k') /\ snk_bytes kout = snk_bytes k' ++ t /\ (size_reached r0 -> t = [])).
    { intros EA.
      destruct (oeval_cinv (snk_bytes k0) n A0 R Hev HI Hp0' _ [] tt eq_refl core_cinv0 HRd) as (c' & t & E1 & E2).
      rewrite HcR in E1. inversion E1; subst c'. cbn [app] in E2.
      assert (Ec : c = rs_out r0) by (rewrite <- EA, Hw in HcR; cbn [ast_of_run x_win] in HcR; inversion HcR; reflexivity).
      rewrite Ec in E2. destruct (Hfin t E2) as (k' & Ef & Eb). exists k', []. split; [exact Ef|]. split; [|reflexivity].
      rewrite app_nil_r, Eb. rewrite <- Ec in E2. apply (circ_finish_done_bytes _ c t tt kout E2 HcF). }
    destruct Ph as [k n' Hos HevA Hsz Hin Hlen|k Hos Hsz ER|ER Hnil].
    - destruct (osteps_inv A0 k A HI Hp0' Hos) as [HIA HpA].
      destruct (osteps_cinv (snk_bytes k0) A0 k A _ [] HI Hp0' Hos eq_refl core_cinv0) as (cA & tA & EwA & HCA). cbn [app] in HCA.
      assert (EcA : cA = rs_out r0) by (rewrite Hw in EwA; cbn [ast_of_run x_win] in EwA; inversion EwA; reflexivity).
      destruct (oeval_cinv (snk_bytes k0) n' A R HevA HIA HpA cA tA tt EwA HCA HRd) as (c' & t & E1 & E2).
      rewrite HcR in E1. inversion E1; subst c'.
      rewrite EcA in HCA. destruct (Hfin tA HCA) as (k' & Ef & Eb). exists k', t. split; [exact Ef|]. split.
      + rewrite Eb, <- app_assoc. apply (circ_finish_done_bytes _ c (tA ++ t) tt kout E2 HcF).
      + intros Hsr. exfalso. apply size_reached_hit in Hsr. rewrite <- (size_hit_core _ A Hc) in Hsr. congruence.
    - apply Hend. rewrite ER. reflexivity.
    - apply Hend. rewrite ER. reflexivity.
  Qed.

  (* ... and finish(allow_incomplete) returns at least the history the one-shot loop has at any such iteration *)
  Theorem core_finish_keeps_up s' rem' r0 : o_allow_incomplete o = true ->
    wtrace (stream_new o k0) bs s' rem' -> st_state s' = Some (SData r0) ->
    forall j Aj cj hj, osteps A0 j Aj -> 20 + nlen rem' <= nlen (x_in Aj) -> x_win Aj = WCirc cj -> CInv (snk_bytes k0) cj hj ->
    exists k' t, stream_finish s' = (Done tt, k') /\ snk_bytes k' = snk_bytes k0 ++ hj ++ t.
  Proof.
    intros Hai HT Es j Aj cj hj Hj Hfar Ewj HCj. pose proof (core_tinv s' rem' HT) as HV.
    destruct (tinv_data o k0 bs p r rest0 d R n Hev Hn Hl HRd s' rem' r0 HV Es) as (Ho & _).
    destruct (core_before s' rem' r0 HT Es j Aj Hj Hfar) as (HIj & Hpj & A & (_ & _ & Hw) & Hbef).
    assert (Hff : k_ffail (c_snk (rs_out r0)) = false).
    { pose proof (wtrace_cfg _ _ _ _ HT) as [_ F]. unfold stream_sink in F at 1. rewrite Es in F. cbn [stream_new stream_sink st_state] in F.
      rewrite F. apply Hwb. }
    assert (HCA : exists cA t, x_win A = WCirc cA /\ CInv (snk_bytes k0) cA (hj ++ t)).
    { destruct Hbef as [[m Hm]|[m [Hm EA]]].
      - apply (osteps_cinv (snk_bytes k0) Aj m A cj hj HIj Hpj Hm Ewj HCj).
      - rewrite <- EA. apply (oeval_cinv (snk_bytes k0) m Aj R Hm HIj Hpj cj hj tt Ewj HCj HRd). }
    destruct HCA as (cA & t & EwA & HCA). rewrite Hw in EwA. cbn [ast_of_run x_win] in EwA. inversion EwA; subst cA.
    destruct (finish_allow_incomplete s' r0 (snk_bytes k0) (hj ++ t) Es ltac:(rewrite Ho; exact Hai) HCA Hff) as (k' & Ef & Eb).
    exists k', t. split; [exact Ef|exact Eb].
  Qed.

  (* header + 5 bytes consumed => the stream is in the data state *)
  Lemma core_data_state s' rem' : wtrace (stream_new o k0) bs s' rem' -> 18 + nlen rem' <= nlen bs -> exists r0, st_state s' = Some (SData r0).
  Proof.
    intros HT H18. pose proof (core_tinv s' rem' HT) as HV.
    destruct (st_state s') as [[k|r0]|] eqn:Es; [|exists r0; reflexivity|].
    - exfalso. destruct (tinv_header o k0 bs p r rest0 d R n Hn Hl s' rem' k HV Es) as (_ & Hbs & Hlt).
      rewrite Hbs, nlen_app in H18. lia.
    - exfalso. apply (tinv_alive o k0 bs p r rest0 d R n s' rem' HV). exact Es.
  Qed.

  (* ---------- writes never fail ---------- *)
  Theorem core_write_ok s' rem' data fut : wtrace (stream_new o k0) bs s' rem' -> rem' = data ++ fut ->
    exists m s'', stream_write s' data = (Done m, s'') /\ m <= nlen data.
  Proof.
    intros HT E. pose proof (core_tinv s' rem' HT) as HV.
    destruct (tinv_write_ok o k0 bs p r rest0 d R n Hgood Hd Hev Hn HI HD Hp0 Hl HRd s' rem' data fut HV E) as (m & s'' & E1 & E2 & _).
    exists m, s''. split; assumption.
  Qed.

  Lemma core_feed_ok fuel : forall s data fut, (length data <= fuel)%nat -> TInv o k0 bs p r rest0 d R n s (data ++ fut) ->
    match feed fuel s data with
    | FedAll s' => TInv o k0 bs p r rest0 d R n s' fut
    | Stopped s' => exists rem', TInv o k0 bs p r rest0 d R n s' rem'
    | _ => False
    end.
  Proof.
    induction fuel as [|f IH]; intros s data fut Hf HV.
    - destruct data; [exact HV|cbn in Hf; lia].
    - destruct (list_eq_dec N.eq_dec data []) as [->|Hne]; [exact HV|].
      rewrite (feed_step f s data Hne).
      destruct (tinv_write_ok o k0 bs p r rest0 d R n Hgood Hd Hev Hn HI HD Hp0 Hl HRd s _ data fut HV eq_refl) as (m & s'' & E1 & E2 & E3).
      rewrite E1. destruct (N.eqb_spec m 0) as [Ez|Ez]; [eexists; exact E3|].
      apply IH; [|exact E3]. pose proof (nskipn_length_lt m data ltac:(lia) Hne). lia.
  Qed.

  Lemma core_feed_all_ok pieces : forall s fut, TInv o k0 bs p r rest0 d R n s (concat pieces ++ fut) ->
    match feed_all s pieces with
    | FedAll s' => TInv o k0 bs p r rest0 d R n s' fut
    | Stopped s' => exists rem', TInv o k0 bs p r rest0 d R n s' rem'
    | _ => False
    end.
  Proof.
    induction pieces as [|pc ps IH]; intros s fut HV; cbn [feed_all concat app] in *; [exact HV|].
    rewrite <- app_assoc in HV. pose proof (core_feed_ok (length pc) s pc (concat ps ++ fut) (le_n _) HV) as F.
    destruct (feed (length pc) s pc) as [s1|s1|e s1|q s1|s1]; try contradiction; [|exact F].
    apply IH. exact F.
  Qed.
End Core.

(* ====================================================================== *)
(* The statements                                                           *)
(* ====================================================================== *)
(* P1 + P2.  [complete s' rem'] is the condition under which finish(allow_incomplete) is claimed to return ALL of out. *)
Definition c15_prefix_statement_for (complete : stream -> list N -> Prop) : Prop :=
  forall (o : options) (k0 : snk) (bs : list N) (w : io),
    is_byte_string bs -> nlen bs < 140737488355328 ->
    lzma_decompress big_fuel o (mkIo (cursor_of bs) k0) = (Done tt, w) ->
    let out := snk_bytes (i_snk w) in
    forall s' rem', wtrace (stream_new o k0) bs s' rem' ->
      (* P1: at any moment the sink holds a prefix of the final output (any sink) *)
      prefix_of (snk_bytes (stream_sink s')) out /\
      (* P2: finish with allow_incomplete after header + 5 bytes *)
      (o_allow_incomplete o = true -> well_behaved k0 -> 18 + nlen rem' <= nlen bs ->
       exists k', stream_finish s' = (Done tt, k') /\ prefix_of (snk_bytes k') out /\ (complete s' rem' -> snk_bytes k' = out)).

(* the statement as intended by the task: everything written => finish returns the complete output *)
Definition c15_prefix_statement : Prop := c15_prefix_statement_for (fun s' rem' => rem' = []).
(* the statement that holds: the declared size has been reached => finish returns the complete output *)
Definition c15_prefix_statement_proved : Prop :=
  c15_prefix_statement_for (fun s' rem' => exists r0, st_state s' = Some (SData r0) /\ size_reached r0).

Definition c15_keeps_up_statement : Prop :=
  forall (o : options) (k0 : snk) (bs : list N) (w : io),
    is_byte_string bs -> nlen bs < 140737488355328 ->
    lzma_decompress big_fuel o (mkIo (cursor_of bs) k0) = (Done tt, w) ->
    forall s' rem' r0, wtrace (stream_new o k0) bs s' rem' -> st_state s' = Some (SData r0) ->
      exists A0, oneshot_start o k0 bs A0 /\
        keeps_up A0 r0 (ds_pib (rs_dec r0) ++ st_tmp s') rem' /\
        (forall j Aj, osteps A0 j Aj -> 20 + nlen rem' <= nlen (x_in Aj) -> win_len (x_win Aj) <= c_len (rs_out r0)).

(* ====================================================================== *)
(* The theorems                                                             *)
(* ====================================================================== *)
Section Main.
  Variables (o : options) (k0 : snk) (bs : list N) (w : io).
  Hypothesis Hb : is_byte_string bs.
  Hypothesis Hlen : nlen bs < BIG.
  Hypothesis Hone : lzma_decompress big_fuel o (mkIo (cursor_of bs) k0) = (Done tt, w).

  Lemma main_setup :
    exists p r rest0 d R n c,
      ahdr o bs = HGood p r rest0 /\ dstate_new (pr_props p) (pr_unpacked p) = (Done d, tt) /\
      oeval n (A0_of o k0 p r rest0 d) R /\ (n <= Pos.to_nat big_fuel)%nat /\
      AInv (A0_of o k0 p r rest0 d) /\ dict_ok (x_win (A0_of o k0 p r rest0 d)) /\ ds_pib d = [] /\
      4096 <= pr_dict p /\ fst R = Done tt /\ x_win (snd R) = WCirc c /\ circ_finish c = (Done tt, i_snk w).
  Proof.
    assert (Hl : nlen bs <= BIG) by lia.
    pose proof (oneshot_abs big_fuel o k0 bs Hl) as OS.
    pose proof (oneshot_setup o k0 bs (lzma_decompress big_fuel o (mkIo (cursor_of bs) k0)) Hb Hlen OS) as S.
    rewrite Hone in S. cbn [fst snd] in S. exact (S eq_refl).
  Qed.

  Theorem sink_is_prefix s' rem' : wtrace (stream_new o k0) bs s' rem' ->
    prefix_of (snk_bytes (stream_sink s')) (snk_bytes (i_snk w)).
  Proof.
    intros HT. destruct main_setup as (p & r & rest0 & d & R & n & c & H1 & H2 & H3 & H4 & H5 & H6 & H7 & H8 & H9 & H10 & H11).
    apply (core_sink_prefix o k0 bs p r rest0 d R n c (i_snk w) H1 H2 H3 H4 H5 H6 H7 ltac:(lia) H9 H10 H11 s' rem' HT).
  Qed.

  Theorem finish_incomplete_prefix s' rem' : o_allow_incomplete o = true -> well_behaved k0 ->
    wtrace (stream_new o k0) bs s' rem' -> 18 + nlen rem' <= nlen bs ->
    exists r0 k', st_state s' = Some (SData r0) /\ stream_finish s' = (Done tt, k') /\
      prefix_of (snk_bytes k') (snk_bytes (i_snk w)) /\ (size_reached r0 -> snk_bytes k' = snk_bytes (i_snk w)).
  Proof.
    intros Hai Hwb HT H18. destruct main_setup as (p & r & rest0 & d & R & n & c & H1 & H2 & H3 & H4 & H5 & H6 & H7 & H8 & H9 & H10 & H11).
    assert (Hl : nlen bs <= BIG) by lia.
    destruct (core_data_state o k0 bs p r rest0 d R n H1 H2 H3 H4 H5 H6 H7 Hl H8 s' rem' HT H18) as (r0 & Es).
    destruct (core_finish o k0 bs p r rest0 d R n c (i_snk w) H1 H2 H3 H4 H5 H6 H7 Hl H8 H9 H10 H11 Hwb s' rem' r0 Hai HT Es)
      as (k' & t & E1 & E2 & E3).
    exists r0, k'. split; [exact Es|]. split; [exact E1|]. split; [exists t; exact E2|].
    intros Hsr. rewrite E2, (E3 Hsr), app_nil_r. reflexivity.
  Qed.

  Theorem keeps_up_with_input s' rem' r0 : wtrace (stream_new o k0) bs s' rem' -> st_state s' = Some (SData r0) ->
    exists A0, oneshot_start o k0 bs A0 /\
      keeps_up A0 r0 (ds_pib (rs_dec r0) ++ st_tmp s') rem' /\
      (forall j Aj, osteps A0 j Aj -> 20 + nlen rem' <= nlen (x_in Aj) -> win_len (x_win Aj) <= c_len (rs_out r0)).
  Proof.
    intros HT Es. destruct main_setup as (p & r & rest0 & d & R & n & c & H1 & H2 & H3 & H4 & H5 & H6 & H7 & H8 & H9 & H10 & H11).
    assert (Hl : nlen bs <= BIG) by lia.
    exists (A0_of o k0 p r rest0 d). split; [exists p, r, rest0, d; repeat split; assumption|]. split.
    - apply (core_keeps_up o k0 bs p r rest0 d R n H1 H2 H3 H4 H5 H6 H7 Hl H9 s' rem' r0 HT Es).
    - apply (core_history o k0 bs p r rest0 d R n H1 H2 H3 H4 H5 H6 H7 Hl H8 H9 s' rem' r0 HT Es).
  Qed.

  Theorem finish_incomplete_keeps_up s' rem' r0 : o_allow_incomplete o = true -> well_behaved k0 ->
    wtrace (stream_new o k0) bs s' rem' -> st_state s' = Some (SData r0) ->
    exists A0, oneshot_start o k0 bs A0 /\
      forall j Aj, osteps A0 j Aj -> 20 + nlen rem' <= nlen (x_in Aj) ->
      exists cj hj k' t, x_win Aj = WCirc cj /\ CInv (snk_bytes k0) cj hj /\
                         stream_finish s' = (Done tt, k') /\ snk_bytes k' = snk_bytes k0 ++ hj ++ t.
  Proof.
    intros Hai Hwb HT Es. destruct main_setup as (p & r & rest0 & d & R & n & c & H1 & H2 & H3 & H4 & H5 & H6 & H7 & H8 & H9 & H10 & H11).
    assert (Hl : nlen bs <= BIG) by lia.
    exists (A0_of o k0 p r rest0 d). split; [exists p, r, rest0, d; repeat split; assumption|].
    intros j Aj Hj Hfar.
    destruct (osteps_cinv (snk_bytes k0) (A0_of o k0 p r rest0 d) j Aj _ [] H5 H7 Hj eq_refl
                (circ_new_inv k0 (pr_dict p) (memlim o) ltac:(lia) (proj1 Hwb))) as (cj & hj & Ewj & HCj). cbn [app] in HCj.
    destruct (core_finish_keeps_up o k0 bs p r rest0 d R n H1 H2 H3 H4 H5 H6 H7 Hl H8 H9 Hwb s' rem' r0 Hai HT Es j Aj cj hj Hj Hfar Ewj HCj)
      as (k' & t & E1 & E2).
    exists cj, hj, k', t. split; [exact Ewj|]. split; [exact HCj|]. split; [exact E1|exact E2].
  Qed.

  Theorem writes_never_fail s' rem' data fut : wtrace (stream_new o k0) bs s' rem' -> rem' = data ++ fut ->
    exists m s'', stream_write s' data = (Done m, s'') /\ m <= nlen data.
  Proof.
    intros HT E. destruct main_setup as (p & r & rest0 & d & R & n & c & H1 & H2 & H3 & H4 & H5 & H6 & H7 & H8 & H9 & H10 & H11).
    apply (core_write_ok o k0 bs p r rest0 d R n H1 H2 H3 H4 H5 H6 H7 ltac:(lia) H9 s' rem' data fut HT E).
  Qed.

  Theorem feed_all_never_fails pieces rest : concat pieces ++ rest = bs ->
    (exists s', feed_all (stream_new o k0) pieces = FedAll s' /\ wtrace (stream_new o k0) bs s' rest) \/
    (exists s' rem', feed_all (stream_new o k0) pieces = Stopped s' /\ wtrace (stream_new o k0) bs s' rem').
  Proof.
    intros Hcat. destruct main_setup as (p & r & rest0 & d & R & n & c & H1 & H2 & H3 & H4 & H5 & H6 & H7 & H8 & H9 & H10 & H11).
    assert (Hl : nlen bs <= BIG) by lia.
    pose proof (core_feed_all_ok o k0 bs p r rest0 d R n H1 H2 H3 H4 H5 H6 H7 Hl H8 H9 pieces (stream_new o k0) rest) as F.
    rewrite Hcat in F. specialize (F (tinv_init o k0 bs p r rest0 d R n Hl)).
    pose proof (feed_all_wtrace pieces (stream_new o k0) rest) as T. rewrite Hcat in T.
    destruct (feed_all (stream_new o k0) pieces) as [s1|s1|e s1|q s1|s1]; try contradiction.
    - left. exists s1. split; [reflexivity|exact T].
    - right. destruct T as [rem' T]. exists s1, rem'. split; [reflexivity|exact T].
  Qed.
End Main.

(* ---------- the named theorems ---------- *)
Theorem C15_sink_is_prefix_of_final_output (o : options) (k0 : snk) (bs : list N) (w : io) :
  is_byte_string bs -> nlen bs < 4611686018427387904 ->
  lzma_decompress big_fuel o (mkIo (cursor_of bs) k0) = (Done tt, w) ->
  forall s' rem', wtrace (stream_new o k0) bs s' rem' ->
  prefix_of (snk_bytes (stream_sink s')) (snk_bytes (i_snk w)).
Proof. intros Hb Hlen Hone s' rem'. apply (sink_is_prefix o k0 bs w Hb Hlen Hone). Qed.
Print Assumptions C15_sink_is_prefix_of_final_output.

Theorem C15_finish_incomplete_returns_prefix_of_final_output (o : options) (k0 : snk) (bs : list N) (w : io) :
  is_byte_string bs -> nlen bs < 4611686018427387904 ->
  lzma_decompress big_fuel o (mkIo (cursor_of bs) k0) = (Done tt, w) ->
  o_allow_incomplete o = true -> well_behaved k0 ->
  forall s' rem', wtrace (stream_new o k0) bs s' rem' -> 18 + nlen rem' <= nlen bs ->
  exists r0 k', st_state s' = Some (SData r0) /\ stream_finish s' = (Done tt, k') /\
    prefix_of (snk_bytes k') (snk_bytes (i_snk w)) /\ (size_reached r0 -> snk_bytes k' = snk_bytes (i_snk w)).
Proof. intros Hb Hlen Hone Hai Hwb s' rem'. apply (finish_incomplete_prefix o k0 bs w Hb Hlen Hone s' rem' Hai Hwb). Qed.
Print Assumptions C15_finish_incomplete_returns_prefix_of_final_output.

Theorem C15_keeps_up_with_input (o : options) (k0 : snk) (bs : list N) (w : io) :
  is_byte_string bs -> nlen bs < 4611686018427387904 ->
  lzma_decompress big_fuel o (mkIo (cursor_of bs) k0) = (Done tt, w) ->
  forall s' rem' r0, wtrace (stream_new o k0) bs s' rem' -> st_state s' = Some (SData r0) ->
  exists A0, oneshot_start o k0 bs A0 /\
    keeps_up A0 r0 (ds_pib (rs_dec r0) ++ st_tmp s') rem' /\
    (forall j Aj, osteps A0 j Aj -> 20 + nlen rem' <= nlen (x_in Aj) -> win_len (x_win Aj) <= c_len (rs_out r0)).
Proof. intros Hb Hlen Hone s' rem' r0. apply (keeps_up_with_input o k0 bs w Hb Hlen Hone). Qed.
Print Assumptions C15_keeps_up_with_input.

(* P3 in bytes: with allow_incomplete, finish returns at least the history (oldest byte first; [CInv pre c h]: the window
   c represents the history h on top of the pre bytes the sink held at the start) that the one-shot loop has decoded
   at any iteration that ends at least 20 bytes before the end of the consumed input *)
Theorem C15_finish_incomplete_keeps_up (o : options) (k0 : snk) (bs : list N) (w : io) :
  is_byte_string bs -> nlen bs < 4611686018427387904 ->
  lzma_decompress big_fuel o (mkIo (cursor_of bs) k0) = (Done tt, w) ->
  o_allow_incomplete o = true -> well_behaved k0 ->
  forall s' rem' r0, wtrace (stream_new o k0) bs s' rem' -> st_state s' = Some (SData r0) ->
  exists A0, oneshot_start o k0 bs A0 /\
    forall j Aj, osteps A0 j Aj -> 20 + nlen rem' <= nlen (x_in Aj) ->
    exists cj hj k' t, x_win Aj = WCirc cj /\ CInv (snk_bytes k0) cj hj /\
                       stream_finish s' = (Done tt, k') /\ snk_bytes k' = snk_bytes k0 ++ hj ++ t.
Proof. intros Hb Hlen Hone Hai Hwb s' rem' r0. apply (finish_incomplete_keeps_up o k0 bs w Hb Hlen Hone s' rem' r0 Hai Hwb). Qed.
Print Assumptions C15_finish_incomplete_keeps_up.

Theorem C15_writes_never_fail (o : options) (k0 : snk) (bs : list N) (w : io) :
  is_byte_string bs -> nlen bs < 4611686018427387904 ->
  lzma_decompress big_fuel o (mkIo (cursor_of bs) k0) = (Done tt, w) ->
  forall s' rem' data fut, wtrace (stream_new o k0) bs s' rem' -> rem' = data ++ fut ->
  exists m s'', stream_write s' data = (Done m, s'') /\ m <= nlen data.
Proof. intros Hb Hlen Hone s' rem' data fut. apply (writes_never_fail o k0 bs w Hb Hlen Hone). Qed.
Print Assumptions C15_writes_never_fail.

(* the C05 driver, piece by piece: it never fails, and the state it reaches after the pieces is a trace state *)
Theorem C15_feed_all_never_fails (o : options) (k0 : snk) (bs : list N) (w : io) pieces rest :
  is_byte_string bs -> nlen bs < 4611686018427387904 ->
  lzma_decompress big_fuel o (mkIo (cursor_of bs) k0) = (Done tt, w) ->
  concat pieces ++ rest = bs ->
  (exists s', feed_all (stream_new o k0) pieces = FedAll s' /\ wtrace (stream_new o k0) bs s' rest) \/
  (exists s' rem', feed_all (stream_new o k0) pieces = Stopped s' /\ wtrace (stream_new o k0) bs s' rem').
Proof. intros Hb Hlen Hone. apply (feed_all_never_fails o k0 bs w Hb Hlen Hone). Qed.
Print Assumptions C15_feed_all_never_fails.

(* P1 for the driver: after feeding any pieces whose concatenation is a prefix of bs (take [firstn j pieces] for
   "after j of the pieces") the sink holds a prefix of the final output *)
Corollary C15_sink_is_prefix_after_pieces (o : options) (k0 : snk) (bs : list N) (w : io) pieces rest s' :
  is_byte_string bs -> nlen bs < 4611686018427387904 ->
  lzma_decompress big_fuel o (mkIo (cursor_of bs) k0) = (Done tt, w) ->
  concat pieces ++ rest = bs ->
  feed_all (stream_new o k0) pieces = FedAll s' \/ feed_all (stream_new o k0) pieces = Stopped s' ->
  prefix_of (snk_bytes (stream_sink s')) (snk_bytes (i_snk w)).
Proof.
  intros Hb Hlen Hone Hcat Hf.
  destruct (C15_feed_all_never_fails o k0 bs w pieces rest Hb Hlen Hone Hcat) as [(s1 & E & T)|(s1 & rem' & E & T)];
    destruct Hf as [Hf|Hf]; rewrite Hf in E; inversion E; subst s1;
    eapply C15_sink_is_prefix_of_final_output; eassumption.
Qed.

Theorem C15_prefix : c15_prefix_statement_proved.
Proof.
  intros o k0 bs w Hb Hlen Hone out s' rem' HT.
  assert (Hlen' : nlen bs < 4611686018427387904) by lia.
  split; [apply (C15_sink_is_prefix_of_final_output o k0 bs w Hb Hlen' Hone s' rem' HT)|].
  intros Hai Hwb H18.
  destruct (C15_finish_incomplete_returns_prefix_of_final_output o k0 bs w Hb Hlen' Hone Hai Hwb s' rem' HT H18)
    as (r0 & k' & Es & Ef & Hp & Hc).
  exists k'. split; [exact Ef|]. split; [exact Hp|]. intros (r1 & Es1 & Hsr). rewrite Es in Es1. inversion Es1; subst r1. apply Hc. exact Hsr.
Qed.
Print Assumptions C15_prefix.

Theorem C15_keeps_up : c15_keeps_up_statement.
Proof.
  intros o k0 bs w Hb Hlen Hone s' rem' r0 HT Es.
  apply (C15_keeps_up_with_input o k0 bs w Hb ltac:(lia) Hone s' rem' r0 HT Es).
Qed.
Print Assumptions C15_keeps_up.
