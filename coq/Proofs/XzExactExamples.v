(* C03 + C02: non-vacuity of xz_wellformed_decode_exact.
   A two-block .xz file with CRC64 built from concrete chunk lists:
   - block 1 declares both sizes (the compressed size in a NON-minimal two-byte multibyte
     encoding), has header size byte 3, hence four bytes of header padding; its payload is
     an LZMA chunk (dictionary reset, properties lc=3 lp=0 pb=2) followed by an uncompressed chunk;
   - block 2 declares no size, header size byte 2; its payload is an uncompressed chunk with
     dictionary reset followed by an LZMA chunk with new properties (lc=0 lp=2 pb=0);
   - the index encodes one of its fields non-minimally.
   The file satisfies xz_file_bytes (computable parts by vm_compute), hence it decodes exactly
   under every fragmentation of the source and every short-writing sink. *)
From LZ Require Import Base.Prelude Base.Prog Model.Io Model.Crc Model.Xz Format.RefEnc Format.Lzma2Fmt
  Proofs.IoLemmas Proofs.XzSound Proofs.XzExact.
From LZ Require Proofs.Lzma2ExactChunk Proofs.Lzma2Exact.

Definition ex_cs1 : list chunk :=
  [ CLzma 3 (Some (mkFProps 3 0 2)) [Lit 97; Lit 98; Lit 99; Match 3 4] 0; CRaw false [100; 101; 102] ].
Definition ex_cs2 : list chunk :=
  [ CRaw true [104; 101; 108; 108; 111]; CLzma 2 (Some (mkFProps 0 2 0)) [Lit 33; Match 5 6; ShortRep] 0 ].

Definition ex_file : xz_file :=
  mkXzFile CkCrc64 [ mkXzBlock ex_cs1 true true; mkXzBlock ex_cs2 false false ].

Definition ex_payload1 : list N := [224; 0; 6; 0; 8; 93; 0; 48; 152; 136; 164; 233; 41; 0; 0; 2; 0; 2; 100; 101; 102; 0].
Definition ex_out1 : list N := [97; 98; 99; 97; 98; 99; 97; 100; 101; 102].
Definition ex_payload2 : list N := [1; 0; 4; 104; 101; 108; 108; 111; 192; 0; 7; 0; 7; 18; 0; 16; 201; 221; 232; 0; 0; 0; 0].
Definition ex_out2 : list N := [104; 101; 108; 108; 111; 33; 101; 108; 108; 111; 33; 101; 108].

Example ex_ser1 : ser2_gen false ex_cs1 = Some (ex_payload1, ex_out1).
Proof. vm_compute. reflexivity. Qed.
Example ex_ser2 : ser2_gen false ex_cs2 = Some (ex_payload2, ex_out2).
Proof. vm_compute. reflexivity. Qed.

(* header of block 1: flags 0xC0 (both sizes), compressed size 22 as [0x96; 0x00], uncompressed
   size 10, filter id 0x21, property size 1, dictionary byte 22, four zero bytes of padding *)
Definition ex_blk1 : blk :=
  mkBlk 3 [192; 150; 0; 10; 33; 1; 22; 0; 0; 0; 0] [38; 95; 161; 189] ex_payload1 [0; 0]
        [230; 130; 182; 238; 255; 175; 189; 20] ex_out1.
Definition ex_blk2 : blk :=
  mkBlk 2 [0; 33; 1; 22; 0; 0; 0] [116; 47; 229; 163] ex_payload2 [0]
        [171; 11; 198; 3; 65; 149; 196; 240] ex_out2.

Definition ex_hdr : list N := [253; 55; 122; 88; 90; 0; 0; 4; 230; 214; 180; 70].
(* records (46, 10) and (43, 13); the 10 is encoded as [0x8A; 0x00] *)
Definition ex_index : list N := [0; 2; 46; 138; 0; 43; 13; 0; 121; 213; 251; 181].
Definition ex_footer : list N := [177; 196; 103; 251; 2; 0; 0; 0; 0; 4; 89; 90].

Definition ex_xz : list N :=
  [253; 55; 122; 88; 90; 0; 0; 4; 230; 214; 180; 70; 3; 192; 150; 0; 10;
   33; 1; 22; 0; 0; 0; 0; 38; 95; 161; 189; 224; 0; 6; 0; 8; 93; 0; 48;
   152; 136; 164; 233; 41; 0; 0; 2; 0; 2; 100; 101; 102; 0; 0; 0; 230;
   130; 182; 238; 255; 175; 189; 20; 2; 0; 33; 1; 22; 0; 0; 0; 116; 47;
   229; 163; 1; 0; 4; 104; 101; 108; 108; 111; 192; 0; 7; 0; 7; 18; 0;
   16; 201; 221; 232; 0; 0; 0; 0; 0; 171; 11; 198; 3; 65; 149; 196; 240;
   0; 2; 46; 138; 0; 43; 13; 0; 121; 213; 251; 181; 177; 196; 103; 251;
   2; 0; 0; 0; 0; 4; 89; 90].

Lemma mb1 b v : N.land b 128 = 0 -> v = mb_val 0 [b] -> mb_decodes [b] v.
Proof. intros H E. split; [apply mbs_last; exact H|]. split; [cbn [length]; lia|exact E]. Qed.
Lemma mb2 a b v : N.land a 128 <> 0 -> N.land b 128 = 0 -> v = mb_val 0 [a; b] -> mb_decodes [a; b] v.
Proof.
  intros Ha Hb E. split; [apply mbs_more; [exact Ha|apply mbs_last; exact Hb]|].
  split; [cbn [length]; lia|exact E].
Qed.

(* the header of block 1 has the declarative shape; hence (block_header_shape_accepted) it is legal *)
Example ex_hdr1_shape : block_header_shape (Some 22) (Some 10) 22 (b_hdr ex_blk1).
Proof.
  exists [150; 0], [10], [33], [1], 4%nat. split; [reflexivity|].
  split; [apply mb2; [vm_compute; discriminate|reflexivity|vm_compute; reflexivity]|].
  split; [apply mb1; [reflexivity|vm_compute; reflexivity]|].
  split; apply mb1; try reflexivity; vm_compute; reflexivity.
Qed.

Example ex_blk1_ok : xz_block_bytes crc32_exec crc64_exec CkCrc64 (mkXzBlock ex_cs1 true true) ex_blk1.
Proof.
  unfold xz_block_bytes, ex_blk1.
  cbn [xb_chunks xb_has_packed xb_has_unpacked b_hs b_hdr b_hcrc b_payload b_pad b_chk b_out].
  split; [exact ex_ser1|]. split; [vm_compute; reflexivity|]. split; [discriminate|]. split; [reflexivity|].
  split.
  { exists (mkFilter [22]). split; [|reflexivity].
    change (nlen ex_payload1) with 22. change (nlen ex_out1) with 10.
    apply block_header_shape_accepted; [vm_compute; discriminate|exact ex_hdr1_shape]. }
  split; [reflexivity|]. split; [vm_compute; reflexivity|]. split; [vm_compute; reflexivity|].
  split; [reflexivity|vm_compute; reflexivity].
Qed.

Example ex_blk2_ok : xz_block_bytes crc32_exec crc64_exec CkCrc64 (mkXzBlock ex_cs2 false false) ex_blk2.
Proof.
  unfold xz_block_bytes, ex_blk2.
  cbn [xb_chunks xb_has_packed xb_has_unpacked b_hs b_hdr b_hcrc b_payload b_pad b_chk b_out].
  split; [exact ex_ser2|]. split; [vm_compute; reflexivity|]. split; [discriminate|]. split; [reflexivity|].
  split; [exists (mkFilter [22]); split; [vm_compute; reflexivity|reflexivity]|].
  split; [reflexivity|]. split; [vm_compute; reflexivity|]. split; [vm_compute; reflexivity|].
  split; [reflexivity|vm_compute; reflexivity].
Qed.

Example ex_xz_wellformed : xz_file_bytes crc32_exec crc64_exec ex_file ex_xz.
Proof.
  split; [right; right; reflexivity|].
  exists ex_hdr, [ex_blk1; ex_blk2], ex_index, ex_footer.
  split; [reflexivity|]. split.
  { exists 4, [230; 214; 180; 70]. split; [reflexivity|]. split; [reflexivity|]. split; vm_compute; reflexivity. }
  split; [constructor; [exact ex_blk1_ok|constructor; [exact ex_blk2_ok|constructor]]|].
  split.
  { exists [2], [[46; 138; 0]; [43; 13]], [0], [121; 213; 251; 181]. split; [reflexivity|].
    split; [apply mb1; [reflexivity|vm_compute; reflexivity]|].
    split.
    { constructor; [|constructor; [|constructor]].
      - exists [46], [138; 0]. split; [reflexivity|].
        split; [apply mb1; [reflexivity|vm_compute; reflexivity]|].
        apply mb2; [vm_compute; discriminate|reflexivity|vm_compute; reflexivity].
      - exists [43], [13]. split; [reflexivity|].
        split; (apply mb1; [reflexivity|vm_compute; reflexivity]). }
    split; [vm_compute; reflexivity|]. split; [reflexivity|vm_compute; reflexivity]. }
  exists [177; 196; 103; 251], [2; 0; 0; 0], 4. split; [reflexivity|]. split; [reflexivity|]. split; [reflexivity|].
  split; [vm_compute; reflexivity|]. split; vm_compute; reflexivity.
Qed.

Example ex_xz_fuel : xz_fuel_ok 8 ex_file.
Proof.
  split; [vm_compute; lia|].
  repeat constructor; vm_compute; lia.
Qed.

(* the theorem applied: any fragmentation, any short-writing sink *)
Example ex_xz_any_fragmentation frag accept ffail :
  exists w', xz_decompress crc32_exec crc64_exec 8
               (mkIo (src_of ex_xz frag None) (snk_new accept None ffail)) = (Done tt, w') /\
             snk_bytes (i_snk w') = ex_out1 ++ ex_out2 /\ s_rest (i_src w') = [].
Proof.
  destruct (xz_wellformed_decode_exact_src crc32_exec crc64_exec ex_file ex_xz 8 frag accept ffail
              ex_xz_wellformed ex_xz_fuel) as (w' & R & B & Z).
  exists w'. split; [exact R|]. split; [|exact Z]. rewrite B. vm_compute. reflexivity.
Qed.

(* the same by running the model (3 bytes per refill) *)
Example ex_xz_run :
  (let '(r, w) := xz_decompress crc32_exec crc64_exec 8 (mkIo (src_of ex_xz (fun _ => 3) None) vec_sink) in
   (r, snk_bytes (i_snk w), s_rest (i_src w))) = (Done tt, ex_out1 ++ ex_out2, []).
Proof. vm_compute. reflexivity. Qed.

Print Assumptions ex_xz_wellformed.
Print Assumptions ex_xz_any_fragmentation.
