(* C08 through the streaming API (task c12b, PART B).
   B1  stream_size_rule   : allow_incomplete = false and the driver returns Done  ==>  with a size in effect exactly
                            that many bytes went through the window (and, for a sink that does not fail on writes,
                            reached the sink); with no size in effect the end marker was decoded.
   B2  stream_header_bytes: the three header options consume 13 / 13 / 5 header bytes (+ 5 bytes of range-coder
                            preamble) in the streaming decoder too, however the input is cut into write() calls. *)
From LZ Require Import Base.Prelude Base.Prog Model.Io Model.Tables Model.LzBuffer Model.RangeDec Model.Lzma Model.Stream.
From LZ Require Import Proofs.ProgLemmas Proofs.IoLemmas Proofs.SizeRules Proofs.HeaderRules Proofs.WinCirc
  Proofs.StreamLatch Proofs.StreamPrefix Proofs.StreamFinish Proofs.StreamInv.
From LZ Require Import Proofs.StreamSimLoop Proofs.StreamSimData Proofs.StreamSimHeader Proofs.StreamSimFull Proofs.StreamSimTotal.
From Coq Require Import ZifyBool ZifyNat ZifyN.
Local Open Scope prog_scope.
Local Open Scope N_scope.

(* ====================================================================== *)
(* B1: the size rules through the driver                                    *)
(* ====================================================================== *)

(* The stages of a successful one-shot run on a header [pbyte :: db ++ _ ++ t] selecting the size [us]:
   LzmaDecoder::new, RangeDecoder::new on the bytes [t] after the header, process_mode(Finish) on a fresh circular
   window over the caller's sink [k], LzCircularBuffer::finish returning the sink [kfin].
   [x] is the final decoder state, [c] the final circular buffer ([c_len c] = bytes that went through the window). *)
Definition oneshot_stages (fuel : positive) (o : options) (k kfin : snk) (pbyte : N) (db : list N) (us : option N)
                          (t : list N) (x : lw) (c : circ) : Prop :=
  exists s dec r s2,
    s_rest s = t /\
    lzma_decoder_new (mkParams (hdr_props pbyte) (N.max 4096 (le_num db)) us) (o_memlimit o) = Done dec /\
    src_run (map_io_err ELzma rc_new) s = (Done r, s2) /\
    process_mode FinishMode fuel
      (mkLw (ld_state dec) r s2 (WCirc (circ_new k (N.max 4096 (le_num db)) (ld_memlimit dec)))) = (Done tt, x) /\
    l_win x = WCirc c /\
    circ_finish c = (Done tt, kfin).

(* what the size rule says about the final state, given the size in effect *)
Definition size_verdict (us : option N) (x : lw) (c : circ) : Prop :=
  match us with
  | Some n => c_len c = n
  | None => rep0 (ds_rep (l_ds x)) = MARK /\ r_code (l_rc x) = 0
  end.

(* ---------- the one-shot side, for any fuel ---------- *)
Lemma oneshot_size_rule fuel o k bs w' pbyte db ub t :
  bs = pbyte :: db ++ ub ++ t -> nlen db = 4 -> nlen ub = size_field_len (o_unpacked o) ->
  lzma_decompress fuel o (mkIo (cursor_of bs) k) = (Done tt, w') ->
  pbyte < 225 /\
  exists x c, oneshot_stages fuel o k (i_snk w') pbyte db (size_in_effect (o_unpacked o) (le_num ub)) t x c /\
              size_verdict (size_in_effect (o_unpacked o) (le_num ub)) x c.
Proof.
  intros Hbs Hdb Hub H.
  assert (Hs : FaultFree (i_src (mkIo (cursor_of bs) k))) by (cbn [i_src]; apply cursor_FaultFree).
  assert (Hr : s_rest (i_src (mkIo (cursor_of bs) k)) = pbyte :: db ++ ub ++ t) by (rewrite <- Hbs; reflexivity).
  destruct (size_in_effect (o_unpacked o) (le_num ub)) as [n|] eqn:Hn.
  - destruct (lzma_decompress_sized_exact fuel o _ w' pbyte db ub t n Hs Hr Hdb Hub Hn H)
      as (Hp & s & dec & r & s2 & x & c & Hrest & _ & En & Er & Epm & Ew & Hl & Ef & _).
    split; [exact Hp|]. exists x, c. split; [|exact Hl].
    exists s, dec, r, s2. cbn [i_snk] in Epm.
    split; [exact Hrest|]. split; [exact En|]. split; [exact Er|]. split; [exact Epm|]. split; [exact Ew|exact Ef].
  - destruct (lzma_decompress_unsized_marker fuel o _ w' pbyte db ub t Hs Hr Hdb Hub Hn H)
      as (Hp & s & dec & r & s2 & x & c & Hrest & _ & En & Er & Epm & Hm & Hc & Ew & Ef & _).
    split; [exact Hp|]. exists x, c. split; [|split; [exact Hm|exact Hc]].
    exists s, dec, r, s2. cbn [i_snk] in Epm.
    split; [exact Hrest|]. split; [exact En|]. split; [exact Er|]. split; [exact Epm|]. split; [exact Ew|exact Ef].
Qed.

(* a successful one-shot run has seen a complete header with a valid properties byte *)
Lemma oneshot_done_header fuel o k bs w' :
  lzma_decompress fuel o (mkIo (cursor_of bs) k) = (Done tt, w') ->
  header_len (o_unpacked o) <= nlen bs /\ exists pbyte rest, bs = pbyte :: rest /\ pbyte < 225.
Proof.
  intros H.
  assert (Hs : FaultFree (i_src (mkIo (cursor_of bs) k))) by (cbn [i_src]; apply cursor_FaultFree).
  assert (Hr : s_rest (i_src (mkIo (cursor_of bs) k)) = bs) by reflexivity.
  assert (Hhead : forall b t0, bs = b :: t0 -> b < 225).
  { intros b t0 E. destruct (N.ltb_spec b 225) as [Hb|Hb]; [exact Hb|exfalso].
    destruct (lzma_decompress_bad_props fuel o (mkIo (cursor_of bs) k) b t0 Hs) as (s' & E' & _).
    - rewrite Hr. exact E.
    - exact Hb.
    - rewrite E' in H. discriminate H. }
  destruct (N.ltb_spec (nlen bs) (header_len (o_unpacked o))) as [Hlt|Hge].
  - exfalso. destruct (lzma_decompress_header_short fuel o (mkIo (cursor_of bs) k) Hs) as (s' & E' & _).
    + rewrite Hr. exact Hlt.
    + rewrite Hr. exact Hhead.
    + rewrite E' in H. discriminate H.
  - split; [exact Hge|]. destruct bs as [|b t0].
    + rewrite nlen_nil in Hge. unfold header_len in Hge. lia.
    + exists b, t0. split; [reflexivity|]. apply (Hhead b t0 eq_refl).
Qed.

(* cutting a long enough input into properties byte, dictionary size, size field and the rest *)
Lemma header_split (u : unpacked_size_opt) (bs : list N) : header_len u <= nlen bs ->
  exists pbyte db ub t, bs = pbyte :: db ++ ub ++ t /\ nlen db = 4 /\ nlen ub = size_field_len u.
Proof.
  intros H. unfold header_len in H. destruct bs as [|b t0]; [rewrite nlen_nil in H; lia|]. rewrite nlen_cons in H.
  exists b, (nfirstn 4 t0), (nfirstn (size_field_len u) (nskipn 4 t0)), (nskipn (size_field_len u) (nskipn 4 t0)).
  split; [|split].
  - rewrite (nfirstn_nskipn (size_field_len u) (nskipn 4 t0)), (nfirstn_nskipn 4 t0). reflexivity.
  - rewrite IoLemmas.nlen_nfirstn. lia.
  - rewrite IoLemmas.nlen_nfirstn, nlen_nskipn. lia.
Qed.

(* ---------- from the driver to the one-shot run (C05) ---------- *)
Lemma drive_done_oneshot (o : options) (k : snk) (bs : list N) (pieces : list (list N)) :
  o_allow_incomplete o = false -> Forall (fun b => b < 256) bs -> bs <> [] -> concat pieces = bs ->
  nlen bs < 140737488355328 ->
  fst (drive (stream_new o k) pieces) = Done tt ->
  exists w', lzma_decompress big_fuel o (mkIo (cursor_of bs) k) = (Done tt, w') /\
             i_snk w' = snd (drive (stream_new o k) pieces).
Proof.
  intros Hai Hb Hne Hcat Hlen Hd.
  pose proof (stream_equals_oneshot_every_chunking o k bs pieces Hai Hb Hne Hcat Hlen) as HC.
  remember (lzma_decompress big_fuel o (mkIo (cursor_of bs) k)) as X eqn:EX.
  destruct X as [res w']. cbn [fst snd] in HC. destruct HC as [HV HS].
  rewrite Hd in HV. unfold same_verdict in HV.
  destruct res as [u|e|q]; [|contradiction|contradiction]. destruct u.
  exists w'. split; [reflexivity|]. symmetry. exact (HS Hd).
Qed.

(* ---------- the theorem ---------- *)
(* full statement, version (i): the decomposition of the input is given *)
Definition stream_size_rule_statement : Prop :=
  forall (o : options) (k : snk) (pieces : list (list N)) (pbyte : N) (db ub t : list N),
    o_allow_incomplete o = false ->
    concat pieces = pbyte :: db ++ ub ++ t -> nlen db = 4 -> nlen ub = size_field_len (o_unpacked o) ->
    Forall (fun b => b < 256) (concat pieces) -> nlen (concat pieces) < 140737488355328 ->
    fst (drive (stream_new o k) pieces) = Done tt ->
    pbyte < 225 /\
    exists x c,
      oneshot_stages big_fuel o k (snd (drive (stream_new o k) pieces)) pbyte db
                     (size_in_effect (o_unpacked o) (le_num ub)) t x c /\
      (forall n, size_in_effect (o_unpacked o) (le_num ub) = Some n -> c_len c = n) /\
      (size_in_effect (o_unpacked o) (le_num ub) = None -> rep0 (ds_rep (l_ds x)) = MARK /\ r_code (l_rc x) = 0).

Theorem stream_size_rule : stream_size_rule_statement.
Proof.
  intros o k pieces pbyte db ub t Hai Hcat Hdb Hub Hb Hlen Hd.
  assert (Hne : concat pieces <> []) by (rewrite Hcat; discriminate).
  destruct (drive_done_oneshot o k (concat pieces) pieces Hai Hb Hne eq_refl Hlen Hd) as (w' & E & Hk).
  destruct (oneshot_size_rule big_fuel o k (concat pieces) w' pbyte db ub t Hcat Hdb Hub E) as (Hp & x & c & Hst & Hv).
  split; [exact Hp|]. exists x, c. rewrite <- Hk. split; [exact Hst|].
  destruct (size_in_effect (o_unpacked o) (le_num ub)) as [n|]; cbn [size_verdict] in Hv; split.
  - intros m Hm. injection Hm as <-. exact Hv.
  - intros Hm. discriminate Hm.
  - intros m Hm. discriminate Hm.
  - intros _. exact Hv.
Qed.
Print Assumptions stream_size_rule.

(* version (ii): success of the driver implies that the input holds a complete header with a valid properties
   byte; the decomposition is part of the conclusion *)
Definition stream_size_rule_ex_statement : Prop :=
  forall (o : options) (k : snk) (pieces : list (list N)) (bs : list N),
    o_allow_incomplete o = false -> concat pieces = bs -> bs <> [] ->
    Forall (fun b => b < 256) bs -> nlen bs < 140737488355328 ->
    fst (drive (stream_new o k) pieces) = Done tt ->
    header_len (o_unpacked o) <= nlen bs /\
    exists pbyte db ub t,
      bs = pbyte :: db ++ ub ++ t /\ nlen db = 4 /\ nlen ub = size_field_len (o_unpacked o) /\ pbyte < 225 /\
      exists x c,
        oneshot_stages big_fuel o k (snd (drive (stream_new o k) pieces)) pbyte db
                       (size_in_effect (o_unpacked o) (le_num ub)) t x c /\
        (forall n, size_in_effect (o_unpacked o) (le_num ub) = Some n -> c_len c = n) /\
        (size_in_effect (o_unpacked o) (le_num ub) = None -> rep0 (ds_rep (l_ds x)) = MARK /\ r_code (l_rc x) = 0).

Theorem stream_size_rule_ex : stream_size_rule_ex_statement.
Proof.
  intros o k pieces bs Hai Hcat Hne Hb Hlen Hd.
  destruct (drive_done_oneshot o k bs pieces Hai Hb Hne Hcat Hlen Hd) as (w' & E & Hk).
  destruct (oneshot_done_header big_fuel o k bs w' E) as (Hhl & _).
  split; [exact Hhl|].
  destruct (header_split (o_unpacked o) bs Hhl) as (pbyte & db & ub & t & Hbs & Hdb & Hub).
  exists pbyte, db, ub, t. split; [exact Hbs|]. split; [exact Hdb|]. split; [exact Hub|].
  subst bs.
  exact (stream_size_rule o k pieces pbyte db ub t Hai Hbs Hdb Hub Hb Hlen Hd).
Qed.
Print Assumptions stream_size_rule_ex.

(* ---------- the three options spelled out ---------- *)
(* ReadFromHeader: the size is the 8-byte header field, unless it is all ones (then the end marker is required) *)
Theorem stream_size_rule_rfh (mem : option N) (k : snk) (pieces : list (list N)) (pbyte : N) (db ub t : list N) :
  let o := mkOptions ReadFromHeader mem false in
  concat pieces = pbyte :: db ++ ub ++ t -> nlen db = 4 -> nlen ub = 8 ->
  Forall (fun b => b < 256) (concat pieces) -> nlen (concat pieces) < 140737488355328 ->
  fst (drive (stream_new o k) pieces) = Done tt ->
  pbyte < 225 /\
  exists x c,
    oneshot_stages big_fuel o k (snd (drive (stream_new o k) pieces)) pbyte db
                   (if le_num ub =? U64MAX then None else Some (le_num ub)) t x c /\
    if le_num ub =? U64MAX then rep0 (ds_rep (l_ds x)) = MARK /\ r_code (l_rc x) = 0
    else c_len c = le_num ub.
Proof.
  intros o Hcat Hdb Hub Hb Hlen Hd.
  destruct (stream_size_rule o k pieces pbyte db ub t eq_refl Hcat Hdb Hub Hb Hlen Hd) as (Hp & x & c & Hst & HS & HN).
  split; [exact Hp|]. exists x, c. cbn [o o_unpacked size_in_effect] in Hst, HS, HN. split; [exact Hst|].
  destruct (le_num ub =? U64MAX); [exact (HN eq_refl)|exact (HS _ eq_refl)].
Qed.
Print Assumptions stream_size_rule_rfh.

(* ReadHeaderButUseProvided us: 13 header bytes, but the caller's value decides (whatever the field holds) *)
Theorem stream_size_rule_rhp (us : option N) (mem : option N) (k : snk) (pieces : list (list N)) (pbyte : N) (db ub t : list N) :
  let o := mkOptions (ReadHeaderButUseProvided us) mem false in
  concat pieces = pbyte :: db ++ ub ++ t -> nlen db = 4 -> nlen ub = 8 ->
  Forall (fun b => b < 256) (concat pieces) -> nlen (concat pieces) < 140737488355328 ->
  fst (drive (stream_new o k) pieces) = Done tt ->
  pbyte < 225 /\
  exists x c,
    oneshot_stages big_fuel o k (snd (drive (stream_new o k) pieces)) pbyte db us t x c /\
    match us with
    | Some n => c_len c = n
    | None => rep0 (ds_rep (l_ds x)) = MARK /\ r_code (l_rc x) = 0
    end.
Proof.
  intros o Hcat Hdb Hub Hb Hlen Hd.
  destruct (stream_size_rule o k pieces pbyte db ub t eq_refl Hcat Hdb Hub Hb Hlen Hd) as (Hp & x & c & Hst & HS & HN).
  split; [exact Hp|]. exists x, c. cbn [o o_unpacked size_in_effect] in Hst, HS, HN. split; [exact Hst|].
  destruct us as [n|]; [exact (HS n eq_refl)|exact (HN eq_refl)].
Qed.
Print Assumptions stream_size_rule_rhp.

(* UseProvided us: the header has no size field (5 bytes), the caller's value decides *)
Theorem stream_size_rule_up (us : option N) (mem : option N) (k : snk) (pieces : list (list N)) (pbyte : N) (db t : list N) :
  let o := mkOptions (UseProvided us) mem false in
  concat pieces = pbyte :: db ++ t -> nlen db = 4 ->
  Forall (fun b => b < 256) (concat pieces) -> nlen (concat pieces) < 140737488355328 ->
  fst (drive (stream_new o k) pieces) = Done tt ->
  pbyte < 225 /\
  exists x c,
    oneshot_stages big_fuel o k (snd (drive (stream_new o k) pieces)) pbyte db us t x c /\
    match us with
    | Some n => c_len c = n
    | None => rep0 (ds_rep (l_ds x)) = MARK /\ r_code (l_rc x) = 0
    end.
Proof.
  intros o Hcat Hdb Hb Hlen Hd.
  destruct (stream_size_rule o k pieces pbyte db [] t eq_refl Hcat Hdb eq_refl Hb Hlen Hd) as (Hp & x & c & Hst & HS & HN).
  split; [exact Hp|]. exists x, c. cbn [o o_unpacked size_in_effect] in Hst, HS, HN. split; [exact Hst|].
  destruct us as [n|]; [exact (HS n eq_refl)|exact (HN eq_refl)].
Qed.
Print Assumptions stream_size_rule_up.

(* ---------- STRETCH: the bytes that reached the sink ---------- *)
(* a successful LzCircularBuffer::finish has delivered the whole history, whatever the flush policy *)
Lemma circ_finish_done_bytes pre b h kf : CInv pre b h -> circ_finish b = (Done tt, kf) -> snk_bytes kf = pre ++ h.
Proof.
  intros HI E. destruct (k_ffail (c_snk b)) eqn:Hff.
  - exfalso. pose proof HI as (_ & _ & _ & _ & _ & _ & _ & _ & Hwf). revert E.
    unfold circ_finish, snk_run, run_io. rewrite interp_bind.
    destruct (N.ltb_spec 0 (c_cursor b)) as [Hpos|Hz].
    + unfold write_all.
      destruct (write_all_loop_ok (length (map_slice (c_buf b) 0 (c_cursor b))) _
                  (mkIo (cursor_of []) (c_snk b)) (le_n _) Hwf) as (k' & E' & _ & _ & Hff' & _).
      rewrite E'. rewrite interp_call. cbn [io_h i_snk i_src]. unfold snk_flush.
      cbn [i_snk] in Hff'. rewrite Hff', Hff. intros E. discriminate E.
    + cbn [interp]. rewrite interp_call. cbn [io_h i_snk i_src]. unfold snk_flush. rewrite Hff.
      intros E. discriminate E.
  - destruct (circ_finish_spec pre b h HI Hff) as (k2 & E' & Hb & _). rewrite E' in E.
    injection E as <-. exact Hb.
Qed.

(* the stages of a successful run over a sink that never fails a write: the sink received, after what it held
   before, exactly [c_len c] bytes *)
Lemma oneshot_stages_sink fuel o k kfin pbyte db us t x c :
  k_wfail k = None -> oneshot_stages fuel o k kfin pbyte db us t x c ->
  exists out, snk_bytes kfin = snk_bytes k ++ out /\ nlen out = c_len c.
Proof.
  intros Hw (s & dec & r & s2 & _ & _ & _ & Epm & Ew & Ef).
  assert (H0 : CInv (snk_bytes k) (circ_new k (N.max 4096 (le_num db)) (ld_memlimit dec)) [])
    by (apply circ_new_inv; [lia|exact Hw]).
  destruct (process_mode_inv (snk_bytes k) FinishMode fuel _ tt x _ [] (eq_refl : l_win (mkLw _ _ _ (WCirc _)) = WCirc _) H0 Epm)
    as (c' & out & Ew' & HI).
  rewrite Ew in Ew'. injection Ew' as <-. cbn [app] in HI.
  exists out. split; [exact (circ_finish_done_bytes _ c out kfin HI Ef)|].
  destruct HI as (_ & Hlen & _). symmetry. exact Hlen.
Qed.

Definition stream_size_rule_sink_statement : Prop :=
  forall (o : options) (k : snk) (pieces : list (list N)) (pbyte : N) (db ub t : list N),
    o_allow_incomplete o = false -> k_wfail k = None ->
    concat pieces = pbyte :: db ++ ub ++ t -> nlen db = 4 -> nlen ub = size_field_len (o_unpacked o) ->
    Forall (fun b => b < 256) (concat pieces) -> nlen (concat pieces) < 140737488355328 ->
    fst (drive (stream_new o k) pieces) = Done tt ->
    exists out, snk_bytes (snd (drive (stream_new o k) pieces)) = snk_bytes k ++ out /\
      forall n, size_in_effect (o_unpacked o) (le_num ub) = Some n -> nlen out = n.

Theorem stream_size_rule_sink : stream_size_rule_sink_statement.
Proof.
  intros o k pieces pbyte db ub t Hai Hw Hcat Hdb Hub Hb Hlen Hd.
  destruct (stream_size_rule o k pieces pbyte db ub t Hai Hcat Hdb Hub Hb Hlen Hd) as (_ & x & c & Hst & HS & _).
  destruct (oneshot_stages_sink _ _ _ _ _ _ _ _ _ _ Hw Hst) as (out & Hbytes & Hl).
  exists out. split; [exact Hbytes|]. intros n Hn. rewrite Hl. exact (HS n Hn).
Qed.
Print Assumptions stream_size_rule_sink.

(* ====================================================================== *)
(* B2: the header bytes consumed by the streaming decoder                   *)
(* ====================================================================== *)

(* the run state with which the data phase starts after the header [pbyte :: db ++ ub] and the coder preamble [rcb] *)
Definition hdr_run_state (o : options) (k : snk) (pbyte : N) (db ub rcb : list N) : run_state :=
  mkRun (mkDstate [] (hdr_props pbyte) (size_in_effect (o_unpacked o) (le_num ub))
                  (ptabs_new (N.shiftl 1 (lc (hdr_props pbyte) + lp (hdr_props pbyte)))) 0 (mkReps 0 0 0 0))
        (mkRc 4294967295 (be_num (tl rcb)))
        (circ_new k (N.max 4096 (le_num db)) (memlim o)).

Lemma hdr_run_state_facts o k pbyte db ub rcb :
  let r := hdr_run_state o k pbyte db ub rcb in
  ds_unpacked (rs_dec r) = size_in_effect (o_unpacked o) (le_num ub) /\
  ds_props (rs_dec r) = hdr_props pbyte /\
  ds_pib (rs_dec r) = [] /\ ds_rep (rs_dec r) = mkReps 0 0 0 0 /\
  rs_rc r = mkRc 4294967295 (be_num (tl rcb)) /\
  c_dict (rs_out r) = N.max 4096 (le_num db) /\
  c_mem (rs_out r) = memlim o /\
  c_snk (rs_out r) = k /\ c_len (rs_out r) = 0 /\ c_cursor (rs_out r) = 0.
Proof. cbv zeta. unfold hdr_run_state, circ_new. cbn [rs_dec rs_rc rs_out ds_unpacked ds_props ds_pib ds_rep c_dict c_mem c_snk c_len c_cursor]. repeat split. Qed.

Lemma need_header_len o : need o = header_len (o_unpacked o) + 5.
Proof. unfold need, hdr_len, header_len, size_field_len. destruct (o_unpacked o); reflexivity. Qed.

(* RangeDecoder::new reads five bytes; the first one is ignored *)
Lemma io_rc_new_exact s rcb t : FaultFree s -> s_rest s = rcb ++ t -> nlen rcb = 5 ->
  exists s', io_runs rc_new s (Done (mkRc 4294967295 (be_num (tl rcb)))) s' /\
             s_rest s' = t /\ s_pos s' = s_pos s + 5 /\ FaultFree s'.
Proof.
  intros Hs Hr Hn. destruct rcb as [|b0 r4]; [rewrite nlen_nil in Hn; lia|]. rewrite nlen_cons in Hn.
  cbn [app tl] in *.
  destruct (io_read_u8_spec s b0 _ Hs Hr) as (s1 & H1 & Hr1 & Hp1 & Hf1).
  destruct (io_read_exact_spec s1 r4 t 4 Hf1 Hr1 ltac:(lia)) as (s2 & H2 & Hr2 & Hp2 & Hf2).
  exists s2. split; [|split; [exact Hr2|split; [lia|exact Hf2]]].
  unfold rc_new. eapply io_runs_bind; [exact H1|]. cbv beta.
  eapply io_runs_bind; [|apply io_runs_ret].
  unfold read_u32_be. eapply io_runs_bind; [exact H2|apply io_runs_ret].
Qed.

(* Stream::read_header on a cursor that shows a whole header and the preamble *)
Lemma srh_exact k o pbyte db ub rcb t :
  pbyte < 225 -> nlen db = 4 -> nlen ub = size_field_len (o_unpacked o) -> nlen rcb = 5 ->
  exists s', stream_read_header k (cursor_of (pbyte :: db ++ ub ++ rcb ++ t)) o =
               (Done (SData (hdr_run_state o k pbyte db ub rcb)), s') /\
             s_pos s' = header_len (o_unpacked o) + 5 /\ s_rest s' = t.
Proof.
  intros Hp Hdb Hub Hrc. unfold stream_read_header.
  destruct (HeaderRules.read_header_ok o (cursor_of (pbyte :: db ++ ub ++ rcb ++ t)) pbyte db ub (rcb ++ t)
              (cursor_FaultFree _) eq_refl Hdb Hub Hp) as (s1 & E1 & Hr1 & Hp1 & Hf1).
  rewrite E1. cbn [pr_props pr_unpacked pr_dict].
  rewrite (dstate_new_valid _ (size_in_effect (o_unpacked o) (le_num ub)) (hdr_props_valid pbyte Hp)).
  destruct (io_rc_new_exact s1 rcb t Hf1 Hr1 Hrc) as (s2 & H2 & Hr2 & Hp2 & _).
  rewrite (io_runs_src_run _ _ _ _ H2).
  exists s2. split; [reflexivity|]. split; [|exact Hr2].
  rewrite Hp2, Hp1. reflexivity.
Qed.

(* list bookkeeping *)
Lemma app_split_ge {A} (c : list A) : forall a b d, a ++ b = c ++ d -> nlen c <= nlen a ->
  exists m, a = c ++ m /\ d = m ++ b.
Proof.
  induction c as [|x c IH]; intros a b d H Hl.
  - exists a. split; [reflexivity|]. symmetry. exact H.
  - destruct a as [|y a]; [rewrite nlen_nil, nlen_cons in Hl; lia|]. cbn [app] in H.
    injection H as -> H. rewrite !nlen_cons in Hl.
    destruct (IH a b d H ltac:(lia)) as (m & -> & ->). exists m. split; reflexivity.
Qed.

Lemma nskipn_app_exact {A} (l1 l2 : list A) : nskipn (nlen l1) (l1 ++ l2) = l2.
Proof. rewrite nskipn_app_le by lia. rewrite nskipn_all. reflexivity. Qed.

Section HeaderBytes.
  Variables (pbyte : N) (db ub rcb t : list N).
  Hypothesis Hp : pbyte < 225.
  Hypothesis Hdb : nlen db = 4.
  Hypothesis Hrc : nlen rcb = 5.

  Let L := pbyte :: db ++ ub ++ rcb.

  Lemma L_app m : L ++ m = pbyte :: db ++ ub ++ rcb ++ m.
  Proof. unfold L. cbn [app]. rewrite <- !app_assoc. reflexivity. Qed.

  Lemma head_ok_prefix (a b m : list N) : a ++ b = L ++ m -> head_ok a.
  Proof. intros E x y Ea. subst a. unfold L in E. cbn [app] in E. injection E as -> _. exact Hp. Qed.

  (* the write that completes header + preamble *)
  Lemma header_step_full_exact s k d fut :
    st_state s = Some (SHeader k) -> nlen ub = size_field_len (o_unpacked (st_opts s)) ->
    st_tmp s ++ d ++ fut = L ++ t ->
    nlen (st_tmp s) < need (st_opts s) -> need (st_opts s) <= nlen (st_tmp s) + nlen d ->
    exists n s', stream_write s d = (Done n, s') /\ n <= nlen d /\
      st_state s' = Some (SData (hdr_run_state (st_opts s) k pbyte db ub rcb)) /\ st_opts s' = st_opts s /\
      st_tmp s' ++ nskipn n d ++ fut = t.
  Proof.
    intros Es Hub Hcat Hlt Hn. pose proof (need_bounds (st_opts s)) as Hnb.
    assert (HL : nlen L = need (st_opts s)).
    { unfold L. rewrite nlen_cons, !nlen_app, need_header_len. unfold header_len. lia. }
    unfold stream_write. rewrite Es. cbv zeta. unfold MAX_TMP_LEN.
    destruct (N.ltb_spec 0 (nlen (st_tmp s))) as [Hpos|Hz].
    - set (n := N.min (nlen d) (18 - nlen (st_tmp s))).
      assert (Hcat' : (st_tmp s ++ nfirstn n d) ++ (nskipn n d ++ fut) = L ++ t).
      { rewrite <- app_assoc, (app_assoc (nfirstn n d)), nfirstn_nskipn. exact Hcat. }
      destruct (app_split_ge L _ _ _ Hcat') as (m & Em & Et).
      { rewrite nlen_app, IoLemmas.nlen_nfirstn. unfold n. lia. }
      destruct (srh_exact k (st_opts s) pbyte db ub rcb m Hp Hdb Hub Hrc) as (ts & E & Hpos' & _).
      rewrite <- L_app, <- Em in E. rewrite E. cbv beta iota.
      eexists. eexists. split; [reflexivity|]. cbn [st_state st_opts st_tmp].
      split; [unfold n; lia|]. split; [reflexivity|]. split; [reflexivity|].
      rewrite Hpos', <- need_header_len, <- HL, Em, nskipn_app_exact. symmetry. exact Et.
    - assert (Et0 : st_tmp s = []) by (apply nlen_zero; lia). rewrite Et0 in *. cbn [app] in *.
      rewrite nlen_nil in Hn.
      destruct (app_split_ge L _ _ _ Hcat) as (m & Em & Et); [lia|].
      destruct (srh_exact k (st_opts s) pbyte db ub rcb m Hp Hdb Hub Hrc) as (ts & E & Hpos' & _).
      rewrite <- L_app, <- Em in E. rewrite E. cbv beta iota.
      eexists. eexists. split; [reflexivity|]. cbn [st_state st_opts st_tmp app].
      rewrite Hpos', <- need_header_len.
      split; [lia|]. split; [reflexivity|]. split; [reflexivity|].
      rewrite Em, <- HL, nskipn_app_exact. symmetry. exact Et.
  Qed.

  (* header + preamble in any number of pieces *)
  Lemma header_chunks_exact ds : forall s k,
    st_state s = Some (SHeader k) -> nlen ub = size_field_len (o_unpacked (st_opts s)) ->
    st_tmp s ++ concat ds = L ++ t -> nlen (st_tmp s) < need (st_opts s) ->
    exists ds1 d ds2 s1 n s2, ds = ds1 ++ d :: ds2 /\ fed s ds1 s1 /\
      stream_write s1 d = (Done n, s2) /\ n <= nlen d /\ st_opts s2 = st_opts s /\
      st_state s2 = Some (SData (hdr_run_state (st_opts s) k pbyte db ub rcb)) /\
      st_tmp s2 ++ nskipn n d ++ concat ds2 = t.
  Proof.
    induction ds as [|d ds IH]; intros s k Es Hub Hcat Hlt.
    - exfalso. cbn [concat] in Hcat. rewrite app_nil_r in Hcat.
      assert (HL : nlen L = need (st_opts s)).
      { unfold L. rewrite nlen_cons, !nlen_app, need_header_len. unfold header_len. lia. }
      rewrite Hcat, nlen_app in Hlt. lia.
    - cbn [concat] in Hcat.
      assert (HL : nlen L = need (st_opts s)).
      { unfold L. rewrite nlen_cons, !nlen_app, need_header_len. unfold header_len. lia. }
      destruct (N.ltb_spec (nlen (st_tmp s) + nlen d) (need (st_opts s))) as [Hs|Hf].
      + assert (Hb1 : head_ok (st_tmp s ++ d)) by (apply (head_ok_prefix _ (concat ds) t); rewrite <- app_assoc; exact Hcat).
        pose proof (header_step_short s k d Es Hb1 Hs) as E1.
        set (s1 := mkStream (st_tmp s ++ d) (Some (SHeader k)) (st_opts s) k) in *.
        destruct (IH s1 k eq_refl Hub) as (ds1 & d' & ds2 & s1' & n & s2 & Eds & Hfed & Ew & Hle & Ho & Hst & Hacc).
        { cbn [s1 st_tmp]. rewrite <- app_assoc. exact Hcat. }
        { cbn [s1 st_tmp st_opts]. rewrite nlen_app. exact Hs. }
        exists (d :: ds1), d', ds2, s1', n, s2. split; [rewrite Eds; reflexivity|].
        split; [econstructor; [exact E1|exists k; reflexivity|exact Hfed]|].
        split; [exact Ew|]. split; [exact Hle|]. split; [exact Ho|]. split; [exact Hst|exact Hacc].
      + destruct (header_step_full_exact s k d (concat ds) Es Hub Hcat Hlt Hf) as (n & s2 & E & Hle & Hst & Ho & Hacc).
        exists [], d, ds, s, n, s2. split; [reflexivity|]. split; [constructor|].
        split; [exact E|]. split; [exact Hle|]. split; [exact Ho|]. split; [exact Hst|exact Hacc].
  Qed.
End HeaderBytes.

(* full statement: for every chunking [ds] of an input that starts with a well-formed header
   [pbyte :: db ++ ub] (ub = the 8-byte size field, or nothing under UseProvided) and the five preamble bytes [rcb],
   there is a completing write; the earlier pieces were all taken whole (state still SHeader), the completing write
   enters the data state with exactly the parameters of the header, the coder initialised from [rcb], a fresh window
   over the untouched sink, and exactly the bytes [t] after header + preamble are still to be decoded (kept in tmp,
   or not yet taken from the piece, or in later pieces). *)
Definition stream_header_bytes_statement : Prop :=
  forall (o : options) (k : snk) (ds : list (list N)) (pbyte : N) (db ub rcb t : list N),
    concat ds = pbyte :: db ++ ub ++ rcb ++ t ->
    pbyte < 225 -> nlen db = 4 -> nlen ub = size_field_len (o_unpacked o) -> nlen rcb = 5 ->
    exists ds1 d ds2 s1 n s2 r,
      ds = ds1 ++ d :: ds2 /\ fed (stream_new o k) ds1 s1 /\
      stream_write s1 d = (Done n, s2) /\ n <= nlen d /\
      st_state s2 = Some (SData r) /\ st_opts s2 = o /\
      r = hdr_run_state o k pbyte db ub rcb /\
      ds_unpacked (rs_dec r) = size_in_effect (o_unpacked o) (le_num ub) /\
      ds_props (rs_dec r) = hdr_props pbyte /\
      c_dict (rs_out r) = N.max 4096 (le_num db) /\
      c_snk (rs_out r) = k /\ c_len (rs_out r) = 0 /\
      rs_rc r = mkRc 4294967295 (be_num (tl rcb)) /\
      st_tmp s2 ++ nskipn n d ++ concat ds2 = t.

Theorem stream_header_bytes : stream_header_bytes_statement.
Proof.
  intros o k ds pbyte db ub rcb t Hcat Hp Hdb Hub Hrc.
  destruct (header_chunks_exact pbyte db ub rcb t Hp Hdb Hrc ds (stream_new o k) k eq_refl Hub)
    as (ds1 & d & ds2 & s1 & n & s2 & Eds & Hfed & Ew & Hle & Ho & Hst & Hacc).
  - cbn [stream_new st_tmp app]. rewrite <- !app_assoc. exact Hcat.
  - cbn [stream_new st_tmp st_opts]. rewrite nlen_nil. pose proof (need_bounds o). lia.
  - cbn [stream_new st_opts] in Ho, Hst.
    destruct (hdr_run_state_facts o k pbyte db ub rcb) as (F1 & F2 & _ & _ & F5 & F6 & _ & F8 & F9 & _).
    exists ds1, d, ds2, s1, n, s2, (hdr_run_state o k pbyte db ub rcb).
    split; [exact Eds|]. split; [exact Hfed|]. split; [exact Ew|]. split; [exact Hle|]. split; [exact Hst|].
    split; [exact Ho|]. split; [reflexivity|]. split; [exact F1|]. split; [exact F2|]. split; [exact F6|].
    split; [exact F8|]. split; [exact F9|]. split; [exact F5|exact Hacc].
Qed.
Print Assumptions stream_header_bytes.

(* the numbers: when the data state is entered the header logic has consumed exactly
   header_len + 5 = 18 / 18 / 10 bytes of the input *)
Lemma nlen_concat_app {A} (l1 l2 : list (list A)) : nlen (concat (l1 ++ l2)) = nlen (concat l1) + nlen (concat l2).
Proof. rewrite concat_app, nlen_app. reflexivity. Qed.

Definition stream_header_bytes_count_statement : Prop :=
  forall (o : options) (k : snk) (ds : list (list N)) (pbyte : N) (db ub rcb t : list N),
    concat ds = pbyte :: db ++ ub ++ rcb ++ t ->
    pbyte < 225 -> nlen db = 4 -> nlen ub = size_field_len (o_unpacked o) -> nlen rcb = 5 ->
    exists ds1 d ds2 s1 n s2 r,
      ds = ds1 ++ d :: ds2 /\ fed (stream_new o k) ds1 s1 /\
      stream_write s1 d = (Done n, s2) /\ n <= nlen d /\ st_state s2 = Some (SData r) /\
      nlen (st_tmp s2) <= nlen (concat ds1) + n /\
      nlen (concat ds1) + n - nlen (st_tmp s2) = header_len (o_unpacked o) + 5 /\
      header_len (o_unpacked o) = match o_unpacked o with UseProvided _ => 5 | _ => 13 end.

Theorem stream_header_bytes_count : stream_header_bytes_count_statement.
Proof.
  intros o k ds pbyte db ub rcb t Hcat Hp Hdb Hub Hrc.
  destruct (stream_header_bytes o k ds pbyte db ub rcb t Hcat Hp Hdb Hub Hrc)
    as (ds1 & d & ds2 & s1 & n & s2 & r & Eds & Hfed & Ew & Hle & Hst & _ & _ & _ & _ & _ & _ & _ & _ & Hacc).
  exists ds1, d, ds2, s1, n, s2, r.
  split; [exact Eds|]. split; [exact Hfed|]. split; [exact Ew|]. split; [exact Hle|]. split; [exact Hst|].
  assert (Hlen : nlen (concat ds1) + nlen d + nlen (concat ds2) =
                 header_len (o_unpacked o) + 5 + (nlen (st_tmp s2) + (nlen d - n) + nlen (concat ds2))).
  { assert (E : nlen (concat ds) = nlen (pbyte :: db ++ ub ++ rcb ++ t)) by (rewrite Hcat; reflexivity).
    rewrite Eds, nlen_concat_app in E. cbn [concat] in E.
    rewrite <- Hacc in E. rewrite nlen_cons, !nlen_app, nlen_nskipn in E. unfold header_len. lia. }
  split; [lia|]. split; [lia|]. apply header_len_cases.
Qed.
Print Assumptions stream_header_bytes_count.

(* ====================================================================== *)
(* The hypotheses are satisfiable: concrete runs                            *)
(* ====================================================================== *)
Definition bytewise (l : list N) : list (list N) := map (fun b => [b]) l.

Ltac concrete_bytes :=
  apply Forall_forall; intros b Hb; vm_compute in Hb;
  repeat (destruct Hb as [Hb|Hb]; [rewrite <- Hb; reflexivity|]); contradiction.

(* B1, a size in the header: StreamLatch.ex_stream (lc=3 lp=0 pb=2, dict 4096, size field 1, one literal) written
   one byte at a time satisfies every hypothesis of stream_size_rule_rfh; one byte reaches the sink *)
Example ex_size_rule_hyps :
  let pieces := bytewise ex_stream in
  concat pieces = 93 :: [0; 16; 0; 0] ++ [1; 0; 0; 0; 0; 0; 0; 0] ++ nskipn 13 ex_stream /\
  Forall (fun b => b < 256) (concat pieces) /\ nlen (concat pieces) < 140737488355328 /\
  fst (drive (stream_new ex_opts vec_sink) pieces) = Done tt /\
  snk_bytes (snd (drive (stream_new ex_opts vec_sink) pieces)) = [0] /\
  size_in_effect (o_unpacked ex_opts) (le_num [1; 0; 0; 0; 0; 0; 0; 0]) = Some 1.
Proof.
  cbv zeta. split; [vm_compute; reflexivity|]. split; [concrete_bytes|].
  split; [vm_compute; reflexivity|]. split; [vm_compute; reflexivity|]. split; vm_compute; reflexivity.
Qed.

(* ... and the theorem applied to it *)
Example ex_size_rule_applied :
  exists out, snk_bytes (snd (drive (stream_new ex_opts vec_sink) (bytewise ex_stream))) = snk_bytes vec_sink ++ out /\
              nlen out = 1.
Proof.
  destruct ex_size_rule_hyps as (H1 & H2 & H3 & H4 & _ & H6).
  destruct (stream_size_rule_sink ex_opts vec_sink (bytewise ex_stream) 93 [0; 16; 0; 0] [1; 0; 0; 0; 0; 0; 0; 0]
              (nskipn 13 ex_stream) eq_refl eq_refl H1 eq_refl eq_refl H2 H3 H4) as (out & Hb & Hn).
  exists out. split; [exact Hb|exact (Hn 1 H6)].
Qed.

(* B1, no size in effect: StreamSimFull.ex_marker (size field all ones, only the end marker) cut in two pieces *)
Example ex_marker_rule_hyps :
  let pieces := [nfirstn 9 ex_marker; nskipn 9 ex_marker] in
  concat pieces = 93 :: [0; 0; 16; 0] ++ [255; 255; 255; 255; 255; 255; 255; 255] ++ nskipn 13 ex_marker /\
  Forall (fun b => b < 256) (concat pieces) /\ nlen (concat pieces) < 140737488355328 /\
  fst (drive (stream_new ex_opts vec_sink) pieces) = Done tt /\
  snk_bytes (snd (drive (stream_new ex_opts vec_sink) pieces)) = [] /\
  size_in_effect (o_unpacked ex_opts) (le_num [255; 255; 255; 255; 255; 255; 255; 255]) = None.
Proof.
  cbv zeta. split; [vm_compute; reflexivity|]. split; [concrete_bytes|].
  split; [vm_compute; reflexivity|]. split; [vm_compute; reflexivity|]. split; vm_compute; reflexivity.
Qed.

(* B2: the header of ex_stream cut after 7 bytes (ReadFromHeader: 13 + 5 bytes).  The first write stashes 7 bytes,
   the second one takes 11 of its 17 bytes, completes header + preamble and leaves nothing in tmp; the remaining
   6 bytes of the piece are exactly the bytes after the preamble. *)
Example ex_header_two_pieces :
  let ds := [nfirstn 7 ex_stream; nskipn 7 ex_stream] in
  let s1 := snd (stream_write (stream_new ex_opts vec_sink) (nfirstn 7 ex_stream)) in
  let w2 := stream_write s1 (nskipn 7 ex_stream) in
  concat ds = 93 :: [0; 16; 0; 0] ++ [1; 0; 0; 0; 0; 0; 0; 0] ++ [0; 0; 0; 0; 0] ++ nskipn 18 ex_stream /\
  fst (stream_write (stream_new ex_opts vec_sink) (nfirstn 7 ex_stream)) = Done 7 /\
  st_tmp s1 = nfirstn 7 ex_stream /\
  fst w2 = Done 11 /\ st_tmp (snd w2) = [] /\
  st_state (snd w2) = Some (SData (hdr_run_state ex_opts vec_sink 93 [0; 16; 0; 0] [1; 0; 0; 0; 0; 0; 0; 0] [0; 0; 0; 0; 0])) /\
  st_tmp (snd w2) ++ nskipn 11 (nskipn 7 ex_stream) ++ [] = nskipn 18 ex_stream /\
  7 + 11 - nlen (st_tmp (snd w2)) = header_len (o_unpacked ex_opts) + 5.
Proof. cbv zeta. repeat split; vm_compute; reflexivity. Qed.

(* B2 with UseProvided (5 + 5 bytes): the same properties byte and dictionary size without a size field, cut after
   3 bytes.  The second write copies 15 bytes into tmp (18 in all), the header logic consumes 10 of them and the
   8 bytes after the preamble stay in tmp for the decoder. *)
Definition ex_opts_up : options := mkOptions (UseProvided (Some 1)) None false.
Definition ex_stream_up : list N := nfirstn 5 ex_stream ++ nskipn 13 ex_stream ++ [0; 0; 0; 0; 0; 0; 0; 0; 0; 0].
Example ex_header_use_provided :
  let s1 := snd (stream_write (stream_new ex_opts_up vec_sink) (nfirstn 3 ex_stream_up)) in
  let w2 := stream_write s1 (nskipn 3 ex_stream_up) in
  concat [nfirstn 3 ex_stream_up; nskipn 3 ex_stream_up] = 93 :: [0; 16; 0; 0] ++ [] ++ [0; 0; 0; 0; 0] ++ nskipn 10 ex_stream_up /\
  fst w2 = Done 15 /\ nlen (st_tmp (snd w2)) = 8 /\
  st_state (snd w2) = Some (SData (hdr_run_state ex_opts_up vec_sink 93 [0; 16; 0; 0] [] [0; 0; 0; 0; 0])) /\
  st_tmp (snd w2) ++ nskipn 15 (nskipn 3 ex_stream_up) ++ [] = nskipn 10 ex_stream_up /\
  3 + 15 - nlen (st_tmp (snd w2)) = header_len (o_unpacked ex_opts_up) + 5.
Proof. cbv zeta. repeat split; vm_compute; reflexivity. Qed.

(* the theorem applied to the two-piece example *)
Example ex_header_bytes_applied :
  exists ds1 d ds2 s1 n s2 r,
    [nfirstn 7 ex_stream; nskipn 7 ex_stream] = ds1 ++ d :: ds2 /\ fed (stream_new ex_opts vec_sink) ds1 s1 /\
    stream_write s1 d = (Done n, s2) /\ n <= nlen d /\ st_state s2 = Some (SData r) /\
    nlen (st_tmp s2) <= nlen (concat ds1) + n /\
    nlen (concat ds1) + n - nlen (st_tmp s2) = header_len (o_unpacked ex_opts) + 5 /\
    header_len (o_unpacked ex_opts) = 13.
Proof.
  apply (stream_header_bytes_count ex_opts vec_sink [nfirstn 7 ex_stream; nskipn 7 ex_stream]
           93 [0; 16; 0; 0] [1; 0; 0; 0; 0; 0; 0; 0] [0; 0; 0; 0; 0] (nskipn 18 ex_stream)).
  - vm_compute. reflexivity.
  - reflexivity.
  - reflexivity.
  - reflexivity.
  - reflexivity.
Qed.
