(* C14, LZMA2 half: a reset raw LZMA2 decoder is indistinguishable from a new one. *)
From LZ Require Import Base.Prelude Base.Prog Model.Io Model.Tables Model.LzBuffer Model.RangeDec Model.Lzma Model.Lzma2
  Proofs.ProgLemmas Proofs.ResetFresh.

(* ====================================================================== *)
(* Part A.  The invariant DsWf (empty partial-input buffer, valid props,   *)
(*          literal table allocated for the current lc+lp) is preserved    *)
(*          by every lzma2_decompress and by lzma2_reset.                  *)
(* ====================================================================== *)

Definition L2Wf (dec : lzma2_decoder) : Prop := DsWf (l2_state dec).

Lemma ptabs_new_rows r : p_lit_rows (ptabs_new r) = r.
Proof. reflexivity. Qed.

Lemma reset_state_wf d np d' u : DsWf d -> reset_state d np = (Done d', u) -> DsWf d'.
Proof.
  intros (Hpib & Hv & Hrows). unfold reset_state.
  destruct (props_valid np) eqn:Hnp; cbn [negb]; [|discriminate].
  intros H. inversion H; subst d'. clear H. unfold DsWf. cbn [ds_pib ds_props ds_tabs].
  split; [exact Hpib|]. split; [exact Hnp|]. rewrite ptabs_new_rows.
  destruct (N.eqb_spec (lc (ds_props d) + lp (ds_props d)) (lc np + lp np)) as [E|E]; [|reflexivity].
  rewrite Hrows, E. reflexivity.
Qed.

Lemma set_unpacked_wf d u : DsWf d -> DsWf (set_unpacked_size d u).
Proof. intros H. exact H. Qed.

Lemma w2_src_ds {A} (w : w2) (r : outcome A * src) : w_ds (snd (w2_src w r)) = w_ds w.
Proof. reflexivity. Qed.

(* the shape of the stages of a chunk: the decoder state satisfies DsWf afterwards *)
Definition keeps_wf (r : outcome unit * w2) : Prop := DsWf (w_ds (snd r)).

Lemma parse_uncompressed_wf b w : DsWf (w_ds w) -> keeps_wf (parse_uncompressed b w).
Proof.
  intros H. unfold parse_uncompressed, keeps_wf, w2_src.
  destruct (src_run _ (w_src w)) as [[us16|e|q] s1]; cbn [fst snd w_ds w_src w_acc]; try exact H.
  destruct b.
  - destruct (accum_reset (w_acc w)) as [[u|e|q] a]; cbn [fst snd w_ds w_src w_acc]; try exact H.
    destruct (src_run _ s1) as [[bs|e|q] s2]; cbn [fst snd w_ds w_src w_acc]; exact H.
  - cbn [fst snd w_ds w_src w_acc].
    destruct (src_run _ s1) as [[bs|e|q] s2]; cbn [fst snd w_ds w_src w_acc]; exact H.
Qed.

(* parse_lzma as a composition of stages (same decomposition as Proofs/Lzma2Inv.v, restated
   here so that this file depends only on the model and on ResetFresh.v) *)
Definition st_dict (reset_dict : bool) (w : w2) : outcome unit * w2 :=
  if reset_dict then
    match accum_reset (w_acc w) with
    | (r, a) => (r, mkW2 (w_ds w) (w_src w) a)
    end
  else (Done tt, w).

Definition st_np (reset_props : bool) (w : w2) : outcome props * w2 :=
  if reset_props then
    match w2_src w (src_run (map_io_err ELzma read_u8) (w_src w)) with
    | (Failed e, w) => (Failed e, w) | (Panicked p, w) => (Panicked p, w)
    | (Done pbyte, w) =>
        if 225 <=? pbyte then (Failed ELzma, w) else
        let lc_ := pbyte mod 9 in let t := pbyte / 9 in
        let lp_ := t mod 5 in let pb_ := t / 5 in
        if 4 <? lc_ + lp_ then (Failed ELzma, w) else (Done (mkProps lc_ lp_ pb_), w)
    end
  else (Done (ds_props (w_ds w)), w).

Definition st_props (reset_st reset_props : bool) (w : w2) : outcome unit * w2 :=
  if reset_st then
    match st_np reset_props w with
    | (Failed e, w) => (Failed e, w) | (Panicked p, w) => (Panicked p, w)
    | (Done p, w) =>
        match reset_state (w_ds w) p with
        | (Done d, _) => (Done tt, mkW2 d (w_src w) (w_acc w))
        | (Failed e, _) => (Failed e, w)
        | (Panicked q, _) => (Panicked q, w)
        end
    end
  else (Done tt, w).

Definition st_payload (fuel : positive) (unpacked_size packed_size : N) (w : w2) : outcome unit * w2 :=
  let d := set_unpacked_size (w_ds w) (Some (unpacked_size + a_len (w_acc w))) in
  let taken := set_limit (w_src w) (Some packed_size) in
  match src_run (map_io_err ELzma rc_new) taken with
  | (Failed e, s) => (Failed e, mkW2 d (set_limit s None) (w_acc w))
  | (Panicked p, s) => (Panicked p, mkW2 d (set_limit s None) (w_acc w))
  | (Done r, s) =>
      match process_mode FinishMode fuel (mkLw d r s (WAccum (w_acc w))) with
      | (res, x) =>
          (res, mkW2 (l_ds x) (set_limit (l_src x) None)
                     (match l_win x with WAccum a => a | WCirc _ => w_acc w end))
      end
  end.

Definition st_cls (status : N) : N := N.land (N.shiftr status 5) 3.
Definition st_unpacked (status us16 : N) : N := N.lor (N.shiftl (N.land status 31) 16) us16 + 1.

Lemma parse_lzma_stages fuel status w :
  parse_lzma fuel status w =
  if N.land status 128 =? 0 then (Failed ELzma, w) else
  match w2_src w (src_run (map_io_err ELzma read_u16_be) (w_src w)) with
  | (Failed e, w) => (Failed e, w) | (Panicked p, w) => (Panicked p, w)
  | (Done us16, w) =>
  match w2_src w (src_run (map_io_err ELzma read_u16_be) (w_src w)) with
  | (Failed e, w) => (Failed e, w) | (Panicked p, w) => (Panicked p, w)
  | (Done ps16, w) =>
  match st_dict (st_cls status =? 3) w with
  | (Failed e, w) => (Failed e, w) | (Panicked p, w) => (Panicked p, w)
  | (Done _, w) =>
  match st_props (negb (st_cls status =? 0)) ((st_cls status =? 2) || (st_cls status =? 3)) w with
  | (Failed e, w) => (Failed e, w) | (Panicked p, w) => (Panicked p, w)
  | (Done _, w) => st_payload fuel (st_unpacked status us16) (ps16 + 1) w
  end end end end.
Proof. reflexivity. Qed.

Lemma st_dict_wf b w : DsWf (w_ds w) -> keeps_wf (st_dict b w).
Proof.
  intros H. unfold st_dict, keeps_wf. destruct b; [|exact H].
  destruct (accum_reset (w_acc w)) as [r a]. exact H.
Qed.

Lemma st_np_ds b w : w_ds (snd (st_np b w)) = w_ds w.
Proof.
  unfold st_np, w2_src. destruct b; [|reflexivity].
  destruct (src_run _ (w_src w)) as [[pbyte|e|q] s1]; cbn [fst snd]; try reflexivity.
  destruct (225 <=? pbyte); [reflexivity|]. cbv zeta.
  destruct (4 <? _); reflexivity.
Qed.

Lemma st_props_wf b1 b2 w : DsWf (w_ds w) -> keeps_wf (st_props b1 b2 w).
Proof.
  intros H. unfold st_props, keeps_wf. destruct b1; [|exact H].
  pose proof (st_np_ds b2 w) as E. destruct (st_np b2 w) as [[p|e|q] w1]; cbn [snd] in E |- *;
    try (rewrite E; exact H).
  destruct (reset_state (w_ds w1) p) as [[d|e|q] u] eqn:Er; cbn [snd w_ds]; try (rewrite E; exact H).
  eapply reset_state_wf; [|exact Er]. rewrite E. exact H.
Qed.

Lemma st_payload_wf fuel us ps w : DsWf (w_ds w) -> keeps_wf (st_payload fuel us ps w).
Proof.
  intros H. unfold st_payload, keeps_wf. cbv zeta.
  set (d := set_unpacked_size (w_ds w) _).
  assert (Hd : DsWf d) by (apply set_unpacked_wf; exact H). clearbody d.
  destruct (src_run _ _) as [[r|e|q] s]; cbn [snd w_ds]; try exact Hd.
  pose proof (process_finish_frame fuel (mkLw d r s (WAccum (w_acc w))) (proj1 Hd)) as HF. cbn [l_ds] in HF.
  destruct (process_mode FinishMode fuel _) as [res x]. cbn [snd w_ds] in *.
  eapply wf_frame; eauto.
Qed.

Lemma parse_lzma_wf fuel status w : DsWf (w_ds w) -> keeps_wf (parse_lzma fuel status w).
Proof.
  intros H. rewrite parse_lzma_stages.
  destruct (N.land status 128 =? 0); [exact H|].
  unfold w2_src at 1.
  destruct (src_run _ (w_src w)) as [[us16|e|q] s1]; cbn [fst snd]; try exact H.
  unfold w2_src at 1. cbn [w_src w_ds w_acc].
  destruct (src_run _ s1) as [[ps16|e|q] s2]; cbn [fst snd]; try exact H.
  set (w2' := mkW2 (w_ds w) s2 (w_acc w)).
  assert (H2 : DsWf (w_ds w2')) by exact H. clearbody w2'.
  pose proof (st_dict_wf (st_cls status =? 3) w2' H2) as H3.
  destruct (st_dict _ w2') as [[u|e|q] w3]; unfold keeps_wf in H3; cbn [snd] in H3; try exact H3.
  pose proof (st_props_wf (negb (st_cls status =? 0)) ((st_cls status =? 2) || (st_cls status =? 3)) w3 H3) as H4.
  destruct (st_props _ _ w3) as [[u'|e|q] w4]; unfold keeps_wf in H4; cbn [snd] in H4; try exact H4.
  apply st_payload_wf. exact H4.
Qed.

Lemma l2_body_wf fuel w : DsWf (w_ds w) ->
  match l2_body fuel w with
  | Next w' => DsWf (w_ds w')
  | Break r => DsWf (w_ds (snd r))
  end.
Proof.
  intros H. unfold l2_body, w2_src.
  destruct (src_run _ (w_src w)) as [[status|e|q] s1]; cbn [fst snd]; try exact H.
  destruct (status =? 0); [exact H|].
  set (w1 := mkW2 (w_ds w) s1 (w_acc w)).
  assert (H1 : DsWf (w_ds w1)) by exact H. clearbody w1.
  assert (HR : keeps_wf (if status =? 1 then parse_uncompressed true w1
                         else if status =? 2 then parse_uncompressed false w1
                         else parse_lzma fuel status w1)).
  { destruct (status =? 1); [apply parse_uncompressed_wf; exact H1|].
    destruct (status =? 2); [apply parse_uncompressed_wf; exact H1|].
    apply parse_lzma_wf; exact H1. }
  destruct (if status =? 1 then _ else _) as [[u|e|q] w']; exact HR.
Qed.

Theorem lzma2_decompress_wf fuel dec w : L2Wf dec -> L2Wf (fst (snd (lzma2_decompress fuel dec w))).
Proof.
  intros H. unfold lzma2_decompress, L2Wf. cbv zeta.
  set (w0 := mkW2 (l2_state dec) (i_src w) (accum_new (i_snk w) (USIZE - 1))).
  assert (H0 : DsWf (w_ds w0)) by exact H. clearbody w0.
  pose proof (loopN_inv (l2_body fuel) (fun x => DsWf (w_ds x)) (fun r => DsWf (w_ds (snd r)))) as LI.
  assert (Hn : forall s s', DsWf (w_ds s) -> l2_body fuel s = Next s' -> DsWf (w_ds s')).
  { intros s s' Hs E. pose proof (l2_body_wf fuel s Hs) as HB. rewrite E in HB. exact HB. }
  assert (Hb : forall s r, DsWf (w_ds s) -> l2_body fuel s = Break r -> DsWf (w_ds (snd r))).
  { intros s r Hs E. pose proof (l2_body_wf fuel s Hs) as HB. rewrite E in HB. exact HB. }
  specialize (LI Hn Hb fuel w0 H0).
  destruct (loopN fuel (l2_body fuel) w0) as [x|[[u|e|q] x]]; cbn [snd fst l2_state] in *; try exact LI.
  destruct (accum_finish (w_acc x)) as [r k]. cbn [snd fst l2_state]. exact LI.
Qed.

Lemma lzma2_new_wf d0 : lzma2_new = Done d0 -> L2Wf d0.
Proof.
  unfold lzma2_new, dstate_new. change (negb (props_valid props0)) with false. cbv iota.
  intros H. inversion H. unfold L2Wf, DsWf. cbn [l2_state ds_pib ds_props ds_tabs].
  repeat split; reflexivity.
Qed.

(* the state of a freshly constructed LZMA2 decoder *)
Definition fresh_ds : dstate :=
  mkDstate [] props0 None (ptabs_new (N.shiftl 1 (lc props0 + lp props0))) 0 (mkReps 0 0 0 0).

Lemma lzma2_new_eq : lzma2_new = Done (mkL2 fresh_ds).
Proof. reflexivity. Qed.

(* reset of a well-formed decoder: everything is as in a fresh decoder except the (dead) size field *)
Lemma lzma2_reset_wf_eq dec : L2Wf dec ->
  lzma2_reset dec = Done (mkL2 (set_unpacked_size fresh_ds (ds_unpacked (l2_state dec)))).
Proof.
  intros (Hpib & Hv & Hrows). unfold lzma2_reset, reset_state.
  change (negb (props_valid props0)) with false. cbv iota.
  rewrite Hpib. unfold fresh_ds, set_unpacked_size. cbn [ds_pib ds_props ds_tabs ds_state ds_rep].
  destruct (N.eqb_spec (lc (ds_props (l2_state dec)) + lp (ds_props (l2_state dec))) (lc props0 + lp props0)) as [E|E].
  - rewrite Hrows, E. reflexivity.
  - reflexivity.
Qed.

Lemma lzma2_reset_wf dec dec' : L2Wf dec -> lzma2_reset dec = Done dec' -> L2Wf dec'.
Proof.
  intros H E. rewrite (lzma2_reset_wf_eq dec H) in E. inversion E. unfold L2Wf, DsWf.
  cbn [l2_state set_unpacked_size fresh_ds ds_pib ds_props ds_tabs]. repeat split; reflexivity.
Qed.

(* ---------- histories ---------- *)
Inductive rop2 := R2Decompress (fuel : positive) (src0 : src) (snk0 : snk) | R2Reset.
Definition do_rop2 (dec : lzma2_decoder) (o : rop2) : lzma2_decoder :=
  match o with
  | R2Decompress fuel s k => fst (snd (lzma2_decompress fuel dec (mkIo s k)))
  | R2Reset => match lzma2_reset dec with Done d => d | _ => dec end
  end.

Lemma do_rop2_wf dec o : L2Wf dec -> L2Wf (do_rop2 dec o).
Proof.
  intros H. destruct o as [fuel s k|]; cbn [do_rop2]; [apply lzma2_decompress_wf; exact H|].
  destruct (lzma2_reset dec) as [d|e|q] eqn:E; try exact H. eapply lzma2_reset_wf; eauto.
Qed.

Theorem lzma2_history_wf ops : forall dec, L2Wf dec -> L2Wf (fold_left do_rop2 ops dec).
Proof. induction ops as [|o ops IH]; intros dec H; cbn [fold_left]; [exact H|]. apply IH. apply do_rop2_wf. exact H. Qed.

(* ====================================================================== *)
(* Part B.  ds_unpacked is dead for LZMA2: changing it in the initial      *)
(*          state changes neither the verdict nor source / accumulator.   *)
(* ====================================================================== *)

(* overwrite the size field of the decoder state inside the live objects *)
Definition with_u (x : w2) (u : option N) : w2 := mkW2 (set_unpacked_size (w_ds x) u) (w_src x) (w_acc x).

(* x1 and x2 agree on everything except ds_unpacked *)
Definition Ru (x1 x2 : w2) : Prop := exists u, x1 = with_u x2 u.

Lemma with_u_self x : with_u x (ds_unpacked (w_ds x)) = x.
Proof. destruct x as [[pib pr us t st rp] s a]. reflexivity. Qed.

Lemma Ru_refl x : Ru x x.
Proof. exists (ds_unpacked (w_ds x)). symmetry. apply with_u_self. Qed.

Lemma Ru_src x1 x2 : Ru x1 x2 -> w_src x1 = w_src x2.
Proof. intros [u ->]. reflexivity. Qed.
Lemma Ru_acc x1 x2 : Ru x1 x2 -> w_acc x1 = w_acc x2.
Proof. intros [u ->]. reflexivity. Qed.

(* equal verdicts, Ru-related objects *)
Definition oRu (r1 r2 : outcome unit * w2) : Prop := fst r1 = fst r2 /\ Ru (snd r1) (snd r2).

Lemma parse_uncompressed_u b x u :
  parse_uncompressed b (with_u x u) = (fst (parse_uncompressed b x), with_u (snd (parse_uncompressed b x)) u).
Proof.
  unfold parse_uncompressed, w2_src, with_u. cbn [w_ds w_src w_acc fst snd].
  destruct (src_run _ (w_src x)) as [[us16|e|q] s1]; cbn [fst snd w_ds w_src w_acc]; try reflexivity.
  destruct b.
  - destruct (accum_reset (w_acc x)) as [[u0|e|q] a]; cbn [fst snd w_ds w_src w_acc]; try reflexivity.
    destruct (src_run _ s1) as [[bs|e|q] s2]; cbn [fst snd w_ds w_src w_acc]; reflexivity.
  - cbn [fst snd w_ds w_src w_acc].
    destruct (src_run _ s1) as [[bs|e|q] s2]; cbn [fst snd w_ds w_src w_acc]; reflexivity.
Qed.

Lemma st_dict_u b x u :
  st_dict b (with_u x u) = (fst (st_dict b x), with_u (snd (st_dict b x)) u).
Proof.
  unfold st_dict, with_u. cbn [w_ds w_src w_acc]. destruct b.
  - destruct (accum_reset (w_acc x)) as [r a]. reflexivity.
  - reflexivity.
Qed.

Lemma st_np_u b x u :
  st_np b (with_u x u) = (fst (st_np b x), with_u (snd (st_np b x)) u).
Proof.
  unfold st_np, w2_src, with_u. cbn [w_ds w_src w_acc fst snd]. destruct b; [|reflexivity].
  destruct (src_run _ (w_src x)) as [[pbyte|e|q] s1]; cbn [fst snd w_ds w_src w_acc]; try reflexivity.
  destruct (225 <=? pbyte); [reflexivity|]. cbv zeta.
  destruct (4 <? _); reflexivity.
Qed.

Lemma reset_state_u d p u :
  reset_state (set_unpacked_size d u) p =
  match reset_state d p with
  | (Done d', t) => (Done (set_unpacked_size d' u), t)
  | r => r
  end.
Proof.
  unfold reset_state. destruct (negb (props_valid p)); reflexivity.
Qed.

Lemma st_props_u b1 b2 x u :
  st_props b1 b2 (with_u x u) = (fst (st_props b1 b2 x), with_u (snd (st_props b1 b2 x)) u).
Proof.
  unfold st_props. destruct b1; [|reflexivity].
  rewrite st_np_u. destruct (st_np b2 x) as [[p|e|q] x1]; cbn [fst snd]; try reflexivity.
  unfold with_u at 1 2 3. cbn [w_ds w_src w_acc]. rewrite reset_state_u.
  destruct (reset_state (w_ds x1) p) as [[d|e|q] t]; reflexivity.
Qed.

(* the payload stage overwrites the size before looking at it *)
Lemma st_payload_u fuel us ps x u : st_payload fuel us ps (with_u x u) = st_payload fuel us ps x.
Proof. destruct x as [[pib pr us0 t st rp] s a]. reflexivity. Qed.

Lemma oRu_same r : oRu r r.
Proof. split; [reflexivity|apply Ru_refl]. Qed.

Lemma parse_lzma_u fuel status x u : oRu (parse_lzma fuel status (with_u x u)) (parse_lzma fuel status x).
Proof.
  assert (MK : forall (o : outcome unit) y, oRu (o, with_u y u) (o, y)).
  { intros o y. split; [reflexivity|]. exists u. reflexivity. }
  rewrite !parse_lzma_stages.
  destruct (N.land status 128 =? 0); [apply MK|].
  change (w2_src (with_u x u) (src_run (map_io_err ELzma read_u16_be) (w_src (with_u x u))))
    with (fst (src_run (map_io_err ELzma read_u16_be) (w_src x)),
          with_u (mkW2 (w_ds x) (snd (src_run (map_io_err ELzma read_u16_be) (w_src x))) (w_acc x)) u).
  unfold w2_src at 2.
  destruct (src_run _ (w_src x)) as [[us16|e|q] s1]; cbn [fst snd]; try apply MK.
  set (x1 := mkW2 (w_ds x) s1 (w_acc x)). clearbody x1.
  change (w2_src (with_u x1 u) (src_run (map_io_err ELzma read_u16_be) (w_src (with_u x1 u))))
    with (fst (src_run (map_io_err ELzma read_u16_be) (w_src x1)),
          with_u (mkW2 (w_ds x1) (snd (src_run (map_io_err ELzma read_u16_be) (w_src x1))) (w_acc x1)) u).
  unfold w2_src at 1.
  destruct (src_run _ (w_src x1)) as [[ps16|e|q] s2]; cbn [fst snd]; try apply MK.
  set (x2 := mkW2 (w_ds x1) s2 (w_acc x1)). clearbody x2.
  rewrite st_dict_u.
  destruct (st_dict (st_cls status =? 3) x2) as [[u1|e|q] x3]; cbn [fst snd]; try apply MK.
  rewrite st_props_u.
  destruct (st_props _ _ x3) as [[u2|e|q] x4]; cbn [fst snd]; try apply MK.
  rewrite st_payload_u. apply oRu_same.
Qed.

Lemma parse_lzma_Ru fuel status x1 x2 : Ru x1 x2 -> oRu (parse_lzma fuel status x1) (parse_lzma fuel status x2).
Proof. intros [u ->]. apply parse_lzma_u. Qed.

Lemma parse_uncompressed_Ru b x1 x2 : Ru x1 x2 -> oRu (parse_uncompressed b x1) (parse_uncompressed b x2).
Proof. intros [u ->]. rewrite parse_uncompressed_u. split; [reflexivity|]. exists u. reflexivity. Qed.

Definition stepRu (b1 b2 : step w2 (outcome unit * w2)) : Prop :=
  match b1, b2 with
  | Next t1, Next t2 => Ru t1 t2
  | Break r1, Break r2 => oRu r1 r2
  | _, _ => False
  end.

Lemma l2_body_Ru fuel x1 x2 : Ru x1 x2 -> stepRu (l2_body fuel x1) (l2_body fuel x2).
Proof.
  intros [u ->]. unfold l2_body.
  change (w2_src (with_u x2 u) (src_run (map_io_err ELzma read_u8) (w_src (with_u x2 u))))
    with (fst (src_run (map_io_err ELzma read_u8) (w_src x2)),
          with_u (mkW2 (w_ds x2) (snd (src_run (map_io_err ELzma read_u8) (w_src x2))) (w_acc x2)) u).
  unfold w2_src.
  assert (MK : forall y, Ru (with_u y u) y) by (intros y; exists u; reflexivity).
  destruct (src_run _ (w_src x2)) as [[status|e|q] s1]; cbn [fst snd];
    try (unfold stepRu, oRu; cbn [fst snd]; split; [reflexivity|apply MK]).
  destruct (status =? 0); [unfold stepRu, oRu; cbn [fst snd]; split; [reflexivity|apply MK]|].
  set (y := mkW2 (w_ds x2) s1 (w_acc x2)). clearbody y.
  assert (HR : oRu (if status =? 1 then parse_uncompressed true (with_u y u)
                    else if status =? 2 then parse_uncompressed false (with_u y u)
                    else parse_lzma fuel status (with_u y u))
                   (if status =? 1 then parse_uncompressed true y
                    else if status =? 2 then parse_uncompressed false y
                    else parse_lzma fuel status y)).
  { destruct (status =? 1); [apply parse_uncompressed_Ru, MK|].
    destruct (status =? 2); [apply parse_uncompressed_Ru, MK|].
    apply parse_lzma_Ru, MK. }
  destruct (if status =? 1 then parse_uncompressed true (with_u y u) else _) as [o1 z1].
  destruct (if status =? 1 then parse_uncompressed true y else _) as [o2 z2].
  destruct HR as [Hf Hr]. cbn [fst snd] in Hf, Hr. subst o2.
  destruct o1 as [t|e|q]; unfold stepRu, oRu; cbn [fst snd]; try (split; [reflexivity|exact Hr]). exact Hr.
Qed.

(* decompress does not depend on the size field of the state it is started in *)
Theorem lzma2_decompress_unpacked_dead fuel d1 d2 w :
  (exists u, l2_state d1 = set_unpacked_size (l2_state d2) u) ->
  fst (lzma2_decompress fuel d1 w) = fst (lzma2_decompress fuel d2 w) /\
  snd (snd (lzma2_decompress fuel d1 w)) = snd (snd (lzma2_decompress fuel d2 w)).
Proof.
  intros [u Hu]. unfold lzma2_decompress. cbv zeta.
  set (a0 := accum_new (i_snk w) (USIZE - 1)).
  assert (H0 : Ru (mkW2 (l2_state d1) (i_src w) a0) (mkW2 (l2_state d2) (i_src w) a0)).
  { exists u. rewrite Hu. reflexivity. }
  pose proof (loopN_sim (l2_body fuel) (l2_body fuel) Ru oRu (l2_body_Ru fuel) fuel _ _ H0) as L.
  destruct (loopN fuel (l2_body fuel) (mkW2 (l2_state d1) (i_src w) a0)) as [t1|[o1 y1]];
    destruct (loopN fuel (l2_body fuel) (mkW2 (l2_state d2) (i_src w) a0)) as [t2|[o2 y2]]; try contradiction.
  - cbn [fst snd]. rewrite (Ru_src _ _ L), (Ru_acc _ _ L). split; reflexivity.
  - destruct L as [Hf Hr]. cbn [fst snd] in Hf, Hr. subst o2.
    rewrite (Ru_src _ _ Hr), (Ru_acc _ _ Hr).
    destruct o1 as [t|e|q]; [destruct (accum_finish (w_acc y2)) as [r k]| |]; cbn [fst snd]; split; reflexivity.
Qed.

(* ====================================================================== *)
(* Part C.  The theorem.                                                   *)
(* ====================================================================== *)

(* C14 for the raw LZMA2 decoder: whatever happened before (successful decodes, decodes that failed
   half-way on any input and sink, earlier resets), reset succeeds and the next decompress gives the
   same verdict and the same effect on source and sink as on a freshly constructed decoder. *)
Theorem lzma2_reset_equals_new d0 ops fuel w :
  lzma2_new = Done d0 ->
  let dec := fold_left do_rop2 ops d0 in
  exists dec',
    lzma2_reset dec = Done dec' /\
    fst (lzma2_decompress fuel dec' w) = fst (lzma2_decompress fuel d0 w) /\
    snd (snd (lzma2_decompress fuel dec' w)) = snd (snd (lzma2_decompress fuel d0 w)).
Proof.
  intros Hnew dec.
  pose proof (lzma2_history_wf ops d0 (lzma2_new_wf d0 Hnew)) as HW. fold dec in HW.
  rewrite lzma2_new_eq in Hnew. inversion Hnew; subst d0.
  eexists. split; [apply lzma2_reset_wf_eq; exact HW|].
  apply lzma2_decompress_unpacked_dead. cbn [l2_state]. eexists. reflexivity.
Qed.

(* the reset decoder differs from the fresh one at most in the dead size field *)
Theorem lzma2_reset_state d0 ops :
  lzma2_new = Done d0 ->
  let dec := fold_left do_rop2 ops d0 in
  lzma2_reset dec = Done (mkL2 (set_unpacked_size (l2_state d0) (ds_unpacked (l2_state dec)))).
Proof.
  intros Hnew dec.
  pose proof (lzma2_history_wf ops d0 (lzma2_new_wf d0 Hnew)) as HW. fold dec in HW.
  rewrite lzma2_new_eq in Hnew. inversion Hnew; subst d0. apply lzma2_reset_wf_eq. exact HW.
Qed.

(* ---------- the hypotheses are satisfiable, and the stale field is really there ---------- *)
(* one LZMA2 compressed chunk (state+props+dict reset, lc=3 lp=0 pb=2, 3 bytes "aba") and the end byte *)
Definition ex_good : list N := [224; 0; 2; 0; 7; 93; 0; 48; 152; 136; 66; 64; 168; 0; 0].
(* the same chunk cut in the middle of the range-coded payload *)
Definition ex_bad : list N := [224; 0; 2; 0; 7; 93; 0; 48; 152].
Definition ex_ops : list rop2 :=
  [R2Decompress big_fuel (cursor_of ex_good) vec_sink;      (* succeeds *)
   R2Decompress big_fuel (cursor_of ex_bad) vec_sink;       (* fails half-way *)
   R2Reset;
   R2Decompress big_fuel (cursor_of ex_bad) vec_sink].      (* fails again *)

Example lzma2_history_example :
  exists d0 dec',
    lzma2_new = Done d0 /\
    let dec := fold_left do_rop2 ex_ops d0 in
    L2Wf dec /\
    (* the history really changed the properties and left a stale size behind *)
    ds_props (l2_state dec) = mkProps 3 0 2 /\ ds_unpacked (l2_state dec) = Some 3 /\
    fst (lzma2_decompress big_fuel d0 (mkIo (cursor_of ex_bad) vec_sink)) = Failed ELzma /\
    lzma2_reset dec = Done dec' /\
    (* the reset decoder is NOT syntactically the fresh one ... *)
    ds_unpacked (l2_state dec') = Some 3 /\ ds_unpacked (l2_state d0) = None /\
    (* ... but decodes exactly like it *)
    fst (lzma2_decompress big_fuel dec' (mkIo (cursor_of ex_good) vec_sink)) = Done tt /\
    lrev (k_out (i_snk (snd (snd (lzma2_decompress big_fuel dec' (mkIo (cursor_of ex_good) vec_sink)))))) = [97; 98; 97] /\
    fst (lzma2_decompress big_fuel d0 (mkIo (cursor_of ex_good) vec_sink)) = Done tt /\
    lrev (k_out (i_snk (snd (snd (lzma2_decompress big_fuel d0 (mkIo (cursor_of ex_good) vec_sink)))))) = [97; 98; 97].
Proof.
  eexists. eexists. split; [reflexivity|]. cbv zeta.
  split; [apply lzma2_history_wf, lzma2_new_wf; reflexivity|].
  split; [vm_compute; reflexivity|]. split; [vm_compute; reflexivity|]. split; [vm_compute; reflexivity|].
  split; [vm_compute; reflexivity|].
  repeat split; vm_compute; reflexivity.
Qed.

Print Assumptions lzma2_decompress_wf.
Print Assumptions lzma2_history_wf.
Print Assumptions lzma2_decompress_unpacked_dead.
Print Assumptions lzma2_reset_equals_new.
Print Assumptions lzma2_reset_state.
Print Assumptions lzma2_history_example.
