(* C04 / C01 / C08: the LZMA compression round trip.
   What lzma_compress (encode/dumbencoder.rs) emits is decoded back to the input by lzma_decompress
   with the matching decode option, for every fragmentation of both inputs and every non-failing sink.
     lzma_round_trip_gen      : the general statement, keyed on the size in effect
     lzma_round_trip_marker   : WriteToHeader None               / ReadFromHeader
     lzma_round_trip_sized    : WriteToHeader (Some (nlen data)) / ReadFromHeader
     lzma_round_trip_skip     : SkipWritingToHeader              / UseProvided (Some (nlen data))
     lzma_round_trip_override : WriteToHeader x                  / ReadHeaderButUseProvided (the size if x = Some _, None if x = None)
   The size bound [9 * nlen data + 50 < 2^32] is that of lzma_compress_conforms (it implies nlen data < 2^64 - 1). *)
From LZ Require Import Base.Prelude Base.Prog Model.Io Model.Tables Model.LzBuffer Model.RangeDec Model.Lzma Model.Enc Format.RefEnc
  Proofs.ProgLemmas Proofs.IoLemmas Proofs.RangeLockstep Proofs.HeaderRules Proofs.LzmaExact Proofs.LzmaExactOpts
  Proofs.EncCarry Proofs.DumbEncConform.
From Coq Require Import ZifyBool ZifyNat ZifyN.
Local Open Scope N_scope.

(* ---------- the literal program ---------- *)
Lemma lit_program_length o data : (length (lit_program o data) <= length data + 1)%nat.
Proof.
  unfold lit_program. rewrite app_length, map_length.
  destruct o as [[x|]|]; cbn [length]; lia.
Qed.

Lemma lit_program_marker data : ends_with_marker (lit_program (WriteToHeader None) data).
Proof. exists (map Lit data). reflexivity. Qed.

Lemma no_marker_lits data : no_marker (map Lit data).
Proof. unfold no_marker. apply Forall_forall. intros x Hx. apply in_map_iff in Hx. destruct Hx as (b & <- & _). discriminate. Qed.

Lemma lit_program_no_marker o data : o <> WriteToHeader None -> no_marker (lit_program o data).
Proof.
  intros Ho. unfold lit_program.
  destruct o as [[x|]|]; try congruence; rewrite app_nil_r; apply no_marker_lits.
Qed.

(* the size that the decoder must have in effect: none iff the encoder wrote the marker *)
Definition size_needed (o : enc_unpacked) (data : list N) : option N :=
  match o with WriteToHeader None => None | _ => Some (nlen data) end.

(* the size field that the encoder writes (absent for SkipWritingToHeader) *)
Definition enc_field (o : enc_unpacked) : list N :=
  match o with
  | WriteToHeader None => le_bytes 8 18446744073709551615
  | WriteToHeader (Some x) => le_bytes 8 x
  | SkipWritingToHeader => []
  end.

Lemma header_hdr_bytes o : header o = hdr_bytes (mkFProps 3 0 2) 8388608 (enc_field o).
Proof. unfold header, hdr_bytes, enc_field. destruct o as [[x|]|]; reflexivity. Qed.

Lemma nlen_enc_field o : nlen (enc_field o) = match o with SkipWritingToHeader => 0 | _ => 8 end.
Proof. unfold enc_field. destruct o as [[x|]|]; try rewrite nlen_le_bytes; reflexivity. Qed.

(* ---------- the general round trip ---------- *)
Theorem lzma_round_trip_gen fuel fuel' o o' data frag1 frag2 k1 k2 :
  bytes data -> k_wfail k1 = None -> k_wfail k2 = None -> k_ffail k2 = false ->
  nlen data < Npos fuel -> 9 * nlen data + 50 < 4294967296 ->
  (length data + 2 <= Pos.to_nat fuel')%nat ->
  nlen (enc_field o) = size_field_len (o_unpacked o') ->
  memlimit_ok (o_memlimit o') 8388608 ->
  size_in_effect (o_unpacked o') (le_num (enc_field o)) = size_needed o data ->
  exists file w1 w2,
    lzma_compress fuel o (mkIo (src_of data frag1 None) k1) = (Done tt, w1) /\
    snk_bytes (i_snk w1) = snk_bytes k1 ++ file /\
    lzma_decompress fuel' o' (mkIo (src_of file frag2 None) k2) = (Done tt, w2) /\
    snk_bytes (i_snk w2) = snk_bytes k2 ++ data /\
    k_flushes (i_snk w2) = k_flushes k2 + 1 /\
    s_pos (i_src w2) = nlen file /\ s_rest (i_src w2) = [].
Proof.
  intros Hb Hw1 Hw2 Hf2 Hfuel Hsz Hfuel' Hfield Hml Hsize.
  destruct (lzma_compress_conforms fuel o data frag1 k1 Hb Hw1 Hfuel Hsz) as (w1 & payload & E & B & P).
  destruct (final_ienc_of_payload _ _ _ _ _ _ P) as (ief & Hfin & Hwf).
  exists (header o ++ payload), w1.
  destruct (lzma_decode_exact_opts (mkFProps 3 0 2) 8388608 (enc_field o) (lit_program o data) payload data 0 [] ief
              o' frag2 k2 fuel') as (w2 & R & B2 & F2 & P2 & _ & T2).
  { cbn [f_lc]. lia. }
  { cbn [f_lp]. lia. }
  { cbn [f_pb]. lia. }
  { reflexivity. }
  { exact P. }
  { exact Hfin. }
  { exact Hfield. }
  { exact Hml. }
  { rewrite Hsize. unfold stream_mode, size_needed.
    assert (Hmark : o = WriteToHeader None \/ o <> WriteToHeader None).
    { destruct o as [[x|]|]; [right; discriminate|left; reflexivity|right; discriminate]. }
    destruct Hmark as [->|Ho].
    - split; [apply lit_program_marker|]. split; reflexivity.
    - assert (Hs : match o with WriteToHeader None => None | _ => Some (nlen data) end = Some (nlen data)).
      { destruct o as [[x|]|]; try reflexivity. congruence. }
      rewrite Hs. split; [apply lit_program_no_marker; exact Ho|]. split; [reflexivity|].
      unfold wf_ienc in Hwf. lia. }
  { exact Hw2. }
  { exact Hf2. }
  { pose proof (lit_program_length o data). lia. }
  rewrite app_nil_r in R. rewrite <- header_hdr_bytes in R, P2.
  exists w2. split; [exact E|]. split; [exact B|]. split; [exact R|]. split; [exact B2|].
  split; [exact F2|]. split; [exact P2|exact T2].
Qed.
Print Assumptions lzma_round_trip_gen.

(* ---------- the four pairings of the public API ---------- *)

(* end marker, no size in the header *)
Theorem lzma_round_trip_marker fuel fuel' ml ai data frag1 frag2 k1 k2 :
  bytes data -> k_wfail k1 = None -> k_wfail k2 = None -> k_ffail k2 = false ->
  nlen data < Npos fuel -> 9 * nlen data + 50 < 4294967296 ->
  (length data + 2 <= Pos.to_nat fuel')%nat -> memlimit_ok ml 8388608 ->
  exists file w1 w2,
    lzma_compress fuel (WriteToHeader None) (mkIo (src_of data frag1 None) k1) = (Done tt, w1) /\
    snk_bytes (i_snk w1) = snk_bytes k1 ++ file /\
    lzma_decompress fuel' (mkOptions ReadFromHeader ml ai) (mkIo (src_of file frag2 None) k2) = (Done tt, w2) /\
    snk_bytes (i_snk w2) = snk_bytes k2 ++ data /\
    k_flushes (i_snk w2) = k_flushes k2 + 1 /\
    s_pos (i_src w2) = nlen file /\ s_rest (i_src w2) = [].
Proof.
  intros Hb Hw1 Hw2 Hf2 Hfuel Hsz Hfuel' Hml.
  apply lzma_round_trip_gen; try assumption; reflexivity.
Qed.
Print Assumptions lzma_round_trip_marker.

(* the true size in the header, no marker *)
Theorem lzma_round_trip_sized fuel fuel' ml ai data frag1 frag2 k1 k2 :
  bytes data -> k_wfail k1 = None -> k_wfail k2 = None -> k_ffail k2 = false ->
  nlen data < Npos fuel -> 9 * nlen data + 50 < 4294967296 ->
  (length data + 2 <= Pos.to_nat fuel')%nat -> memlimit_ok ml 8388608 ->
  exists file w1 w2,
    lzma_compress fuel (WriteToHeader (Some (nlen data))) (mkIo (src_of data frag1 None) k1) = (Done tt, w1) /\
    snk_bytes (i_snk w1) = snk_bytes k1 ++ file /\
    lzma_decompress fuel' (mkOptions ReadFromHeader ml ai) (mkIo (src_of file frag2 None) k2) = (Done tt, w2) /\
    snk_bytes (i_snk w2) = snk_bytes k2 ++ data /\
    k_flushes (i_snk w2) = k_flushes k2 + 1 /\
    s_pos (i_src w2) = nlen file /\ s_rest (i_src w2) = [].
Proof.
  intros Hb Hw1 Hw2 Hf2 Hfuel Hsz Hfuel' Hml.
  apply lzma_round_trip_gen; try assumption.
  - rewrite nlen_enc_field. reflexivity.
  - cbn [o_unpacked enc_field size_needed]. rewrite (le_num_le_bytes_small 8 (nlen data)).
    + unfold size_in_effect, U64MAX.
      destruct (N.eqb_spec (nlen data) 18446744073709551615) as [E|_]; [lia|reflexivity].
    + change (256 ^ N.of_nat 8) with 18446744073709551616. lia.
Qed.
Print Assumptions lzma_round_trip_sized.

(* no size field at all: the caller supplies the size *)
Theorem lzma_round_trip_skip fuel fuel' ml ai data frag1 frag2 k1 k2 :
  bytes data -> k_wfail k1 = None -> k_wfail k2 = None -> k_ffail k2 = false ->
  nlen data < Npos fuel -> 9 * nlen data + 50 < 4294967296 ->
  (length data + 2 <= Pos.to_nat fuel')%nat -> memlimit_ok ml 8388608 ->
  exists file w1 w2,
    lzma_compress fuel SkipWritingToHeader (mkIo (src_of data frag1 None) k1) = (Done tt, w1) /\
    snk_bytes (i_snk w1) = snk_bytes k1 ++ file /\
    lzma_decompress fuel' (mkOptions (UseProvided (Some (nlen data))) ml ai) (mkIo (src_of file frag2 None) k2) = (Done tt, w2) /\
    snk_bytes (i_snk w2) = snk_bytes k2 ++ data /\
    k_flushes (i_snk w2) = k_flushes k2 + 1 /\
    s_pos (i_src w2) = nlen file /\ s_rest (i_src w2) = [].
Proof.
  intros Hb Hw1 Hw2 Hf2 Hfuel Hsz Hfuel' Hml.
  apply lzma_round_trip_gen; try assumption; reflexivity.
Qed.
Print Assumptions lzma_round_trip_skip.

(* the caller's size overrides the header field, whatever was written there:
   x = Some v (any v, even a wrong one): no marker was written, decode with the true size;
   x = None: the marker was written, decode with ReadHeaderButUseProvided None *)
Definition override_size (x : option N) (data : list N) : option N :=
  match x with Some _ => Some (nlen data) | None => None end.

Theorem lzma_round_trip_override fuel fuel' x ml ai data frag1 frag2 k1 k2 :
  bytes data -> k_wfail k1 = None -> k_wfail k2 = None -> k_ffail k2 = false ->
  nlen data < Npos fuel -> 9 * nlen data + 50 < 4294967296 ->
  (length data + 2 <= Pos.to_nat fuel')%nat -> memlimit_ok ml 8388608 ->
  exists file w1 w2,
    lzma_compress fuel (WriteToHeader x) (mkIo (src_of data frag1 None) k1) = (Done tt, w1) /\
    snk_bytes (i_snk w1) = snk_bytes k1 ++ file /\
    lzma_decompress fuel' (mkOptions (ReadHeaderButUseProvided (override_size x data)) ml ai)
      (mkIo (src_of file frag2 None) k2) = (Done tt, w2) /\
    snk_bytes (i_snk w2) = snk_bytes k2 ++ data /\
    k_flushes (i_snk w2) = k_flushes k2 + 1 /\
    s_pos (i_src w2) = nlen file /\ s_rest (i_src w2) = [].
Proof.
  intros Hb Hw1 Hw2 Hf2 Hfuel Hsz Hfuel' Hml.
  apply lzma_round_trip_gen; try assumption.
  - rewrite nlen_enc_field. reflexivity.
  - cbn [o_unpacked]. rewrite size_in_effect_rhp. destruct x as [v|]; reflexivity.
Qed.
Print Assumptions lzma_round_trip_override.

(* the two instances of the override named in the task *)
Corollary lzma_round_trip_override_sized fuel fuel' v ml ai data frag1 frag2 k1 k2 :
  bytes data -> k_wfail k1 = None -> k_wfail k2 = None -> k_ffail k2 = false ->
  nlen data < Npos fuel -> 9 * nlen data + 50 < 4294967296 ->
  (length data + 2 <= Pos.to_nat fuel')%nat -> memlimit_ok ml 8388608 ->
  exists file w1 w2,
    lzma_compress fuel (WriteToHeader (Some v)) (mkIo (src_of data frag1 None) k1) = (Done tt, w1) /\
    snk_bytes (i_snk w1) = snk_bytes k1 ++ file /\
    lzma_decompress fuel' (mkOptions (ReadHeaderButUseProvided (Some (nlen data))) ml ai)
      (mkIo (src_of file frag2 None) k2) = (Done tt, w2) /\
    snk_bytes (i_snk w2) = snk_bytes k2 ++ data.
Proof.
  intros Hb Hw1 Hw2 Hf2 Hfuel Hsz Hfuel' Hml.
  destruct (lzma_round_trip_override fuel fuel' (Some v) ml ai data frag1 frag2 k1 k2 Hb Hw1 Hw2 Hf2 Hfuel Hsz Hfuel' Hml)
    as (file & w1 & w2 & H1 & H2 & H3 & H4 & _).
  exists file, w1, w2. repeat split; assumption.
Qed.

Corollary lzma_round_trip_override_marker fuel fuel' ml ai data frag1 frag2 k1 k2 :
  bytes data -> k_wfail k1 = None -> k_wfail k2 = None -> k_ffail k2 = false ->
  nlen data < Npos fuel -> 9 * nlen data + 50 < 4294967296 ->
  (length data + 2 <= Pos.to_nat fuel')%nat -> memlimit_ok ml 8388608 ->
  exists file w1 w2,
    lzma_compress fuel (WriteToHeader None) (mkIo (src_of data frag1 None) k1) = (Done tt, w1) /\
    snk_bytes (i_snk w1) = snk_bytes k1 ++ file /\
    lzma_decompress fuel' (mkOptions (ReadHeaderButUseProvided None) ml ai)
      (mkIo (src_of file frag2 None) k2) = (Done tt, w2) /\
    snk_bytes (i_snk w2) = snk_bytes k2 ++ data.
Proof.
  intros Hb Hw1 Hw2 Hf2 Hfuel Hsz Hfuel' Hml.
  destruct (lzma_round_trip_override fuel fuel' None ml ai data frag1 frag2 k1 k2 Hb Hw1 Hw2 Hf2 Hfuel Hsz Hfuel' Hml)
    as (file & w1 & w2 & H1 & H2 & H3 & H4 & _).
  exists file, w1, w2. repeat split; assumption.
Qed.
Print Assumptions lzma_round_trip_override_sized.
Print Assumptions lzma_round_trip_override_marker.

(* ---------- sanity: the statements are not vacuous ---------- *)
Example round_trip_demo :
  let data := [97; 98; 99; 97; 98; 99; 0; 255] in
  let file o := snk_bytes (i_snk (snd (lzma_compress 20 o (mkIo (src_of data (fun i => i + 2) None) vec_sink)))) in
  let dec o o' := let '(r, w) := lzma_decompress 20 (mkOptions o' None false) (mkIo (src_of (file o) (fun _ => 1) None) vec_sink) in
                  (r, snk_bytes (i_snk w)) in
  dec (WriteToHeader None) ReadFromHeader = (Done tt, data) /\
  dec (WriteToHeader (Some 8)) ReadFromHeader = (Done tt, data) /\
  dec SkipWritingToHeader (UseProvided (Some 8)) = (Done tt, data) /\
  dec (WriteToHeader (Some 12345)) (ReadHeaderButUseProvided (Some 8)) = (Done tt, data) /\
  dec (WriteToHeader None) (ReadHeaderButUseProvided None) = (Done tt, data).
Proof. vm_compute. repeat split. Qed.
