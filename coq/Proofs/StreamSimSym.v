(* C05: facts about one symbol step on the abstract handler.
   - is_finished_ok is the very last thing a symbol does, and only the end marker gets there;
   - a step that runs out of input on [i] reads beyond [i] when more input is appended;
   - with 20 bytes available a step never runs out of input (F4 transferred);
   - after the end marker every further step fails. *)
From LZ Require Import Base.Prelude Base.Prog Model.Io Model.Tables Model.LzBuffer Model.RangeDec Model.Lzma.
From LZ Require Import Proofs.ProgLemmas Proofs.MapLemmas Proofs.IoLemmas Proofs.Bound20 Proofs.Bound20Run.
From LZ Require Import Proofs.NoPanic Proofs.NoPanicWorld Proofs.StreamSimAbs Proofs.StreamSimDry.
From Coq Require Import ZifyBool ZifyNat ZifyN.
Ltac Zify.zify_post_hook ::= Z.div_mod_to_equations.
Local Open Scope prog_scope.

(* ====================================================================== *)
(* Programs that never ask is_finished_ok                                   *)
(* ====================================================================== *)
Fixpoint nofin {A} (p : dprog A) : Prop :=
  match p with
  | Vis o k => match o with FinishedOk => False | _ => True end /\ forall x, nofin (k x)
  | _ => True
  end.

Lemma nofin_bind {A B} (p : dprog A) (f : A -> dprog B) : nofin p -> (forall a, nofin (f a)) -> nofin (bind p f).
Proof. induction p as [a|e|q|X o k IH]; cbn [nofin bind]; auto. intros [Ho Hk] Hf. split; auto. Qed.

Lemma ah_eo_same X (o : decE X) w : match o with FinishedOk => False | _ => True end -> a_eo (hst (ah X o w)) = a_eo w.
Proof.
  destruct o as [cl upd|count| | |d|dist|b|len dist]; intros H; try contradiction; cbn [ah].
  - destruct (cell_get (a_tabs w) cl) as [prob|]; [|reflexivity].
    destruct (an_decode_bit (a_rc w) prob upd (a_in w)) as [[[[b p'] r']|e|q] i]; reflexivity.
  - destruct (an_get count (a_rc w) (a_in w)) as [[[x r']|e|q] i]; reflexivity.
  - reflexivity.
  - destruct (win_last_or (a_win w) d) as [[x|e|q] v]; reflexivity.
  - destruct (win_last_n (a_win w) dist) as [[x|e|q] v]; reflexivity.
  - destruct (win_append_literal (a_win w) b) as [[x|e|q] v]; reflexivity.
  - destruct (win_append_lz (a_win w) len dist) as [[x|e|q] v]; reflexivity.
Qed.

Lemma nofin_eo {A} (p : dprog A) : nofin p -> forall w, a_eo (snd (interp ah p w)) = a_eo w.
Proof.
  induction p as [a|e|q|X o k IH]; intros Hn w; cbn [interp snd nofin] in *; try reflexivity.
  destruct Hn as [Ho Hk]. pose proof (ah_eo_same X o w Ho) as E.
  destruct (ah X o w) as [x t|e t|q t]; cbn [hst snd] in *; try exact E.
  rewrite IH by apply Hk. exact E.
Qed.

Lemma nofin_bit_tree_loop n mk upd : forall tmp, nofin (bit_tree_loop n mk upd tmp).
Proof. induction n as [|n IH]; intros tmp; cbn [bit_tree_loop bind call nofin]; auto. Qed.
Lemma nofin_parse_bit_tree nb mk upd : nofin (parse_bit_tree nb mk upd).
Proof.
  unfold parse_bit_tree. apply nofin_bind; [apply nofin_bit_tree_loop|].
  intros tmp. destruct (_ <? _); exact I.
Qed.
Lemma nofin_rev_bit_tree_loop n mk offset upd : forall i tmp result, nofin (rev_bit_tree_loop n i mk offset upd tmp result).
Proof. induction n as [|n IH]; intros i tmp result; cbn [rev_bit_tree_loop bind call nofin]; auto. Qed.
Lemma nofin_len_decode rep ps upd : nofin (len_decode rep ps upd).
Proof.
  unfold len_decode. cbn [bind call nofin]. split; [exact I|]. intros c1. destruct (negb c1).
  - apply nofin_parse_bit_tree.
  - cbn [bind call nofin]. split; [exact I|]. intros c2. destruct (negb c2);
      (apply nofin_bind; [apply nofin_parse_bit_tree|intros; exact I]).
Qed.
Lemma nofin_lit_plain_loop f row upd : forall result, nofin (lit_plain_loop f row upd result).
Proof.
  induction f as [|f IH]; intros result; cbn [lit_plain_loop]; [exact I|].
  destruct (256 <=? result); [exact I|]. cbn [bind call nofin]. auto.
Qed.
Lemma nofin_lit_matched_loop f row upd : forall mb result, nofin (lit_matched_loop f row upd mb result).
Proof.
  induction f as [|f IH]; intros mb result; cbn [lit_matched_loop]; [exact I|].
  destruct (256 <=? result); [exact I|]. cbn [bind call nofin]. split; [exact I|].
  intros b. destruct (_ =? _); [apply IH|exact I].
Qed.
Lemma nofin_decode_literal p y upd : nofin (decode_literal p y upd).
Proof.
  unfold decode_literal. cbn [bind call nofin]. split; [exact I|]. intros prev. split; [exact I|]. intros len.
  destruct (8 <? lc p); [exact I|]. cbv zeta.
  apply nofin_bind.
  - destruct (7 <=? y_state y); [|exact I]. cbn [bind call nofin]. split; [exact I|]. intros mb. apply nofin_lit_matched_loop.
  - intros r. apply nofin_bind; [apply nofin_lit_plain_loop|]. intros r'. destruct (r' <? 256); exact I.
Qed.
Lemma nofin_decode_distance len upd : nofin (decode_distance len upd).
Proof.
  unfold decode_distance. cbv zeta. apply nofin_bind; [apply nofin_parse_bit_tree|]. intros ps.
  destruct (ps <? 4); [exact I|]. destruct (ps <? 14).
  - destruct (_ <? ps); [exact I|]. apply nofin_bind; [apply nofin_rev_bit_tree_loop|intros; exact I].
  - cbn [bind call nofin]. split; [exact I|]. intros d.
    apply nofin_bind; [apply nofin_rev_bit_tree_loop|intros; exact I].
Qed.
Lemma nofin_lit_arm p y upd : nofin (lit_arm p y upd).
Proof.
  unfold lit_arm. cbv zeta. apply nofin_bind; [apply nofin_decode_literal|]. intros byte.
  destruct upd; cbn [bind call nofin]; auto.
Qed.
Lemma nofin_rep_select y ps upd : nofin (rep_select y ps upd).
Proof.
  unfold rep_select. cbv zeta. cbn [bind call nofin]. split; [exact I|]. intros g0. destruct (negb g0).
  - cbn [bind call nofin]. split; [exact I|]. intros l0. destruct (negb l0); [|exact I].
    destruct upd; cbn [bind call nofin]; auto.
  - cbn [bind call nofin]. split; [exact I|]. intros g1. destruct (negb g1); cbn [bind call nofin].
    + destruct upd; exact I.
    + split; [exact I|]. intros g2. destruct upd; exact I.
Qed.
Lemma nofin_rep_arm y ps upd : nofin (rep_arm y ps upd).
Proof.
  unfold rep_arm. cbv zeta. apply nofin_bind; [apply nofin_rep_select|]. intros [res|r']; [exact I|].
  apply nofin_bind; [apply nofin_len_decode|]. intros len. destruct upd; cbn [bind call nofin]; auto.
Qed.

(* ---------- programs that cannot return Finished ---------- *)
Fixpoint noFinRet (p : dprog psym) : Prop :=
  match p with
  | Ret (Finished, _) => False
  | Vis o k => forall x, noFinRet (k x)
  | _ => True
  end.

Lemma noFinRet_bind_post {A} (Q : A -> Prop) (p : dprog A) (f : A -> dprog psym) :
  post Q p -> (forall a, Q a -> noFinRet (f a)) -> noFinRet (bind p f).
Proof. induction p as [a|e|q|X o k IH]; cbn [post noFinRet bind]; auto. Qed.

Lemma noFinRet_interp (p : dprog psym) : noFinRet p -> forall w y, fst (interp ah p w) <> Done (Finished, y).
Proof.
  induction p as [[st y0]|e|q|X o k IH]; intros Hn w y; cbn [interp fst noFinRet] in *; try discriminate.
  - destruct st; [discriminate|contradiction].
  - destruct (ah X o w) as [x t|e t|q t]; cbn [fst]; try discriminate. apply IH. apply Hn.
Qed.

Lemma noFinRet_lit_arm p y upd : noFinRet (lit_arm p y upd).
Proof.
  unfold lit_arm. cbv zeta. apply noFinRet_bind_post with (Q := fun _ => True); [apply post_true|].
  intros byte _. destruct upd; cbn [bind call noFinRet]; auto.
Qed.

Lemma rep_select_post y ps upd :
  post (fun x : psym + reps => match x with inl (st, _) => st = Continue | inr _ => True end) (rep_select y ps upd).
Proof.
  unfold rep_select. cbv zeta. cbn [bind call post]. intros g0. destruct (negb g0).
  - cbn [bind call post]. intros l0. destruct (negb l0); [|exact I].
    destruct upd; cbn [bind call post]; auto.
  - cbn [bind call post]. intros g1. destruct (negb g1); cbn [bind call post].
    + destruct upd; exact I.
    + intros g2. destruct upd; exact I.
Qed.

Lemma noFinRet_rep_arm y ps upd : noFinRet (rep_arm y ps upd).
Proof.
  unfold rep_arm. cbv zeta. eapply noFinRet_bind_post; [apply rep_select_post|].
  intros [[st y']|r'] H; [subst st; exact I|].
  apply noFinRet_bind_post with (Q := fun _ => True); [apply post_true|].
  intros len _. destruct upd; cbn [bind call noFinRet]; auto.
Qed.

(* ---------- the symbol: Finished <-> is_finished_ok saw the end of the input ---------- *)
Definition MARKER : N := 4294967295.

Lemma match_arm_fin y ps w : a_eo w = false ->
  let res := interp ah (match_arm y ps true) w in
  (a_eo (snd res) = true ->
     exists y', fst res = Done (Finished, y') /\ a_in (snd res) = [] /\ r_code (a_rc (snd res)) = 0 /\
                rep0 (y_rep y') = MARKER /\ y_state y' = (if y_state y <? 7 then 7 else 10)) /\
  (forall y', fst res = Done (Finished, y') -> a_eo (snd res) = true).
Proof.
  intros H0. unfold match_arm. cbv zeta. rewrite interp_bind.
  pose proof (nofin_eo _ (nofin_len_decode false ps true) w) as E1.
  destruct (interp ah (len_decode false ps true) w) as [[l|e|q] w1]; cbn [fst snd] in *;
    try (split; [congruence|discriminate]).
  rewrite interp_bind.
  pose proof (nofin_eo _ (nofin_decode_distance l true) w1) as E2.
  destruct (interp ah (decode_distance l true) w1) as [[d|e|q] w2]; cbn [fst snd] in *;
    try (split; [congruence|discriminate]).
  assert (H2 : a_eo w2 = false) by congruence.
  destruct (N.eqb_spec d 4294967295) as [Ed|Ed].
  - rewrite interp_bind, interp_call. cbn [ah]. unfold an_finished_ok, an_eof, mret.
    destruct (N.eqb_spec (r_code (a_rc w2)) 0) as [Ec|Ec].
    + destruct (a_in w2) as [|b0 t0] eqn:Ei; cbn [interp fst snd a_eo a_in a_rc]; rewrite H2; cbn [orb].
      * split; [|reflexivity]. intros _. eexists. split; [reflexivity|]. cbn [y_rep y_state rep0].
        repeat split; try assumption.
      * split; [discriminate|discriminate].
    + cbn [interp fst snd a_eo]. rewrite H2. split; discriminate.
  - rewrite interp_bind, interp_call.
    pose proof (ah_eo_same unit (WAppendLz (l + 2) (d + 1)) w2 I) as E3.
    destruct (ah unit (WAppendLz (l + 2) (d + 1)) w2) as [u w3|e w3|q w3]; cbn [hst interp fst snd] in *;
      (split; [congruence|discriminate]).
Qed.

Theorem pni_fin p y w : a_eo w = false ->
  let res := interp ah (process_next_inner p y true) w in
  (a_eo (snd res) = true ->
     exists y', fst res = Done (Finished, y') /\ a_in (snd res) = [] /\ r_code (a_rc (snd res)) = 0 /\
                rep0 (y_rep y') = MARKER /\ y_state y' = (if y_state y <? 7 then 7 else 10)) /\
  (forall y', fst res = Done (Finished, y') -> a_eo (snd res) = true).
Proof.
  intros H0. unfold process_next_inner. rewrite interp_bind, interp_call. cbn [ah].
  destruct (63 <? pb p); [cbn [interp fst snd]; split; [congruence|discriminate]|]. cbv zeta.
  rewrite interp_bind, interp_call.
  set (c1 := CIsMatch _).
  pose proof (ah_eo_same bool (Bit c1 true) w I) as E1.
  destruct (ah bool (Bit c1 true) w) as [m w1|e w1|q w1]; cbn [hst fst snd] in *;
    try (split; [congruence|discriminate]).
  assert (H1 : a_eo w1 = false) by congruence.
  destruct m; cbn [negb].
  - rewrite interp_bind, interp_call.
    pose proof (ah_eo_same bool (Bit (CIsRep (y_state y)) true) w1 I) as E2.
    destruct (ah bool (Bit (CIsRep (y_state y)) true) w1) as [r w2|e w2|q w2]; cbn [hst fst snd] in *;
      try (split; [congruence|discriminate]).
    assert (H2 : a_eo w2 = false) by congruence.
    destruct r.
    + split.
      * rewrite (nofin_eo _ (nofin_rep_arm y _ true)). congruence.
      * intros y' E. exfalso. eapply noFinRet_interp; [apply noFinRet_rep_arm|exact E].
    + apply match_arm_fin. exact H2.
  - split.
    + rewrite (nofin_eo _ (nofin_lit_arm p y true)). congruence.
    + intros y' E. exfalso. eapply noFinRet_interp; [apply noFinRet_lit_arm|exact E].
Qed.
Print Assumptions pni_fin.

(* ====================================================================== *)
(* Running out of input on [i] means reading beyond [i] when there is more  *)
(* ====================================================================== *)
Lemma suffix_nlen (i' i : list N) : suffix_of i' i -> nlen i' <= nlen i.
Proof. intros [pre ->]. rewrite nlen_app. lia. Qed.

Definition LMext2 {A} (m : LM A) : Prop :=
  forall i b more, match m i with
                   | (Failed _, _) => nlen (snd (m (i ++ b :: more))) <= nlen more
                   | _ => True
                   end.
Lemma LMext2_ret {A} (a : A) : LMext2 (mret a). Proof. intros i b more. exact I. Qed.
Lemma LMext2_panic {A} q : LMext2 (@mpanic _ A q). Proof. intros i b more. exact I. Qed.
Lemma LMext2_bind {A B} (m : LM A) (g : A -> LM B) :
  LMext m -> LMext2 m -> (forall a, LMsuffix (g a)) -> (forall a, LMext2 (g a)) -> LMext2 (mbind m g).
Proof.
  intros He H2 Hs Hg i b more. unfold mbind. specialize (He i (b :: more)). specialize (H2 i b more).
  destruct (m i) as [[a|e|q] i1]; [| |exact I].
  - rewrite He. apply Hg.
  - destruct (m (i ++ b :: more)) as [[a'|e'|q'] i2]; cbn [snd] in *; try exact H2.
    eapply N.le_trans; [apply suffix_nlen; apply Hs|exact H2].
Qed.
Lemma LMext2_read : LMext2 an_read.
Proof. intros [|b0 t] b more; cbn [an_read app snd]; [lia|exact I]. Qed.
Lemma LMext2_normalize r : LMext2 (an_normalize r).
Proof.
  unfold an_normalize. destruct (_ <? _); [|apply LMext2_ret].
  apply LMext2_bind; [apply LMext_read|apply LMext2_read|intros; apply LMsuffix_ret|intros; apply LMext2_ret].
Qed.
Lemma LMext_get_bit r : LMext (an_get_bit r).
Proof. unfold an_get_bit. cbv zeta. apply LMext_bind; [apply LMext_normalize|intros; apply LMext_ret]. Qed.
Lemma LMext2_get_bit r : LMext2 (an_get_bit r).
Proof.
  unfold an_get_bit. cbv zeta.
  apply LMext2_bind; [apply LMext_normalize|apply LMext2_normalize|intros; apply LMsuffix_ret|intros; apply LMext2_ret].
Qed.
Lemma LMext2_get_loop n : forall r result, LMext2 (an_get_loop n r result).
Proof.
  induction n as [|n IH]; intros r result; cbn [an_get_loop]; [apply LMext2_ret|].
  apply LMext2_bind; [apply LMext_get_bit|apply LMext2_get_bit|intros; apply LMsuffix_get_loop|intros; apply IH].
Qed.
Lemma LMext2_decode_bit r prob upd : LMext2 (an_decode_bit r prob upd).
Proof.
  unfold an_decode_bit. cbv zeta.
  repeat match goal with |- LMext2 (if ?c then _ else _) => destruct c end;
    try apply LMext2_panic;
    (apply LMext2_bind; [apply LMext_normalize|apply LMext2_normalize|intros; apply LMsuffix_ret|intros; apply LMext2_ret]).
Qed.

Lemma ah_eof_ext b more X (o : decE X) w1 w2 : ext (b :: more) w1 w2 -> a_rf w1 = false ->
  a_rf (hst (ah X o w1)) = true -> nlen (a_in (hst (ah X o w2))) <= nlen more.
Proof.
  intros (Ht & Hr & Hw & Hi & Hf & He) H0 H1.
  destruct o as [cl upd|count| | |d|dist|b0|len dist]; cbn [ah] in *.
  - rewrite Ht, Hr, Hi. destruct (cell_get (a_tabs w1) cl) as [prob|]; [|cbn [hst] in H1; congruence].
    pose proof (LMext2_decode_bit (a_rc w1) prob upd (a_in w1) b more) as H.
    destruct (an_decode_bit (a_rc w1) prob upd (a_in w1)) as [[[[bb p'] r']|e|q] i]; cbn [hst a_rf] in H1; try congruence.
    destruct (an_decode_bit (a_rc w1) prob upd (a_in w1 ++ b :: more)) as [[[[bb p'] r']|e'|q] i']; exact H.
  - rewrite Hr, Hi. unfold an_get in *.
    pose proof (LMext2_get_loop (N.to_nat count) (a_rc w1) 0 (a_in w1) b more) as H.
    destruct (an_get_loop (N.to_nat count) (a_rc w1) 0 (a_in w1)) as [[[x r']|e|q] i]; cbn [hst a_rf] in H1; try congruence.
    destruct (an_get_loop (N.to_nat count) (a_rc w1) 0 (a_in w1 ++ b :: more)) as [[[x r']|e'|q] i']; exact H.
  - destruct (an_finished_ok (a_rc w1) (a_in w1)) as [[x|e|q] i]; cbn [hst a_rf] in H1; congruence.
  - cbn [hst] in H1. congruence.
  - destruct (win_last_or (a_win w1) d) as [[x|e|q] v]; cbn [alift_win hst a_rf] in H1; congruence.
  - destruct (win_last_n (a_win w1) dist) as [[x|e|q] v]; cbn [alift_win hst a_rf] in H1; congruence.
  - destruct (win_append_literal (a_win w1) b0) as [[x|e|q] v]; cbn [alift_win hst a_rf] in H1; congruence.
  - destruct (win_append_lz (a_win w1) len dist) as [[x|e|q] v]; cbn [alift_win hst a_rf] in H1; congruence.
Qed.

Theorem eof_ext b more {A} (p : dprog A) : forall w1 w2, ext (b :: more) w1 w2 -> a_rf w1 = false ->
  a_rf (snd (interp ah p w1)) = true -> a_eo (snd (interp ah p w1)) = false ->
  nlen (a_in (snd (interp ah p w2))) <= nlen more.
Proof.
  induction p as [a|e|q|X o k IH]; intros w1 w2 He H0 H1 Heo; cbn [interp snd] in *; try congruence.
  destruct (a_rf (hst (ah X o w1))) eqn:Erf.
  - pose proof (ah_eof_ext b more X o w1 w2 He H0 Erf) as Hb.
    destruct (ah X o w2) as [x2 t2|e2 t2|q2 t2]; cbn [hst snd] in *; try exact Hb.
    eapply N.le_trans; [apply suffix_nlen; apply interp_ah_suffix|exact Hb].
  - assert (Heo1 : a_eo (hst (ah X o w1)) = false).
    { destruct (ah X o w1) as [x t|e t|q t]; cbn [hst snd] in *; try exact Heo.
      destruct (a_eo t) eqn:Et; [|reflexivity].
      destruct (interp_ah_flags (k x) t) as [_ F]. rewrite (F Et) in Heo. discriminate. }
    pose proof (ext_step (b :: more) X o w1 w2 He Erf Heo1) as Hs.
    destruct (ah X o w1) as [x1 t1|e1 t1|q1 t1]; destruct (ah X o w2) as [x2 t2|e2 t2|q2 t2]; try contradiction;
      destruct Hs as [<- He']; cbn [hst snd] in *; try congruence.
    apply (IH x1 t1 t2 He' Erf H1 Heo).
Qed.
Print Assumptions eof_ext.

(* ====================================================================== *)
(* One symbol on abstract decoder states                                    *)
(* ====================================================================== *)
Record ast := mkAst { x_ds : dstate; x_rc : rc; x_win : win; x_in : list N }.
Definition with_in (a : ast) (i : list N) : ast := mkAst (x_ds a) (x_rc a) (x_win a) i.
Definition aw0 (a : ast) : aw := mkAw (ds_tabs (x_ds a)) (x_rc a) (x_in a) (x_win a) false false.
Definition pni (a : ast) (upd : bool) : dprog psym :=
  process_next_inner (ds_props (x_ds a)) (mkSym (ds_state (x_ds a)) (ds_rep (x_ds a))) upd.
Definition araw (upd : bool) (a : ast) : outcome psym * aw := interp ah (pni a upd) (aw0 a).
Definition ds_upd (d : dstate) (t : ptabs) (st : N) (rp : reps) : dstate :=
  mkDstate (ds_pib d) (ds_props d) (ds_unpacked d) t st rp.
Definition ast_of (a : ast) (st : N) (rp : reps) (x : aw) : ast :=
  mkAst (ds_upd (x_ds a) (a_tabs x) st rp) (a_rc x) (a_win x) (a_in x).
Definition arun (upd : bool) (a : ast) : outcome status * ast :=
  match araw upd a with
  | (Done (st, y), x) => (Done st, ast_of a (y_state y) (y_rep y) x)
  | (Failed e, x) => (Failed e, ast_of a (ds_state (x_ds a)) (ds_rep (x_ds a)) x)
  | (Panicked q, x) => (Panicked q, ast_of a (ds_state (x_ds a)) (ds_rep (x_ds a)) x)
  end.
Definition arf (upd : bool) (a : ast) : bool := a_rf (snd (araw upd a)).
Definition aeo (upd : bool) (a : ast) : bool := a_eo (snd (araw upd a)).

Lemma arun_in upd a : x_in (snd (arun upd a)) = a_in (snd (araw upd a)).
Proof. unfold arun. destruct (araw upd a) as [[[st y]|e|q] x]; reflexivity. Qed.

(* ---------- the concrete run_sym on a fully visible source is arun ---------- *)
Definition lw_abs (c : N) (w : lw) (a : ast) : Prop :=
  l_ds w = x_ds a /\ l_rc w = x_rc a /\ l_win w = x_win a /\
  FullVis (l_src w) /\ s_rest (l_src w) = x_in a /\ s_pos (l_src w) + nlen (x_in a) = c.

Theorem run_sym_abs upd c w a : lw_abs c w a ->
  fst (run_sym upd w) = fst (arun upd a) /\ lw_abs c (snd (run_sym upd w)) (snd (arun upd a)).
Proof.
  intros (Hd & Hr & Hw & Hs & Hi & Hp). unfold run_sym, arun, araw, pni. cbv zeta. rewrite Hd.
  assert (HR : absR c (mkDw (ds_tabs (x_ds a)) (l_rc w) (l_src w) (l_win w)) (aw0 a)).
  { unfold absR, aw0. cbn [d_tabs d_rc d_src d_win a_tabs a_rc a_in a_win]. repeat split; try assumption; apply Hs. }
  pose proof (dec_h_refines_ah c (process_next_inner (ds_props (x_ds a)) (mkSym (ds_state (x_ds a)) (ds_rep (x_ds a))) upd) _ _ HR) as [F R].
  destruct (interp dec_h _ _) as [[[st y]|e|q] x]; destruct (interp ah _ _) as [[[st' y']|e'|q'] x'];
    cbn [fst snd] in *; try discriminate; inversion F; subst;
    destruct R as (T & Rc & W & S & I & P); (split; [reflexivity|]);
    unfold lw_abs, ast_of, ds_upd; cbn [l_ds l_rc l_win l_src x_ds x_rc x_win x_in];
    rewrite T, Rc, W; (split; [reflexivity|split; [reflexivity|split; [reflexivity|split; [exact S|split; assumption]]]]).
Qed.
Print Assumptions run_sym_abs.

(* ---------- prefix stability of a symbol step ---------- *)
Theorem arun_ext upd a more : arf upd a = false -> aeo upd a = false ->
  arun upd (with_in a (x_in a ++ more)) =
    (fst (arun upd a), with_in (snd (arun upd a)) (x_in (snd (arun upd a)) ++ more)) /\
  arf upd (with_in a (x_in a ++ more)) = false /\ aeo upd (with_in a (x_in a ++ more)) = false.
Proof.
  intros Hrf Heo. unfold arf, aeo, araw in *.
  assert (He : ext more (aw0 a) (aw0 (with_in a (x_in a ++ more)))) by (unfold ext, aw0, with_in; cbn; repeat split).
  destruct (prefix_stable more (pni a upd) _ _ He Hrf Heo) as [F (T & R & W & I & Frf & Feo)].
  change (pni (with_in a (x_in a ++ more)) upd) with (pni a upd).
  split; [|split; congruence].
  unfold arun, araw. change (pni (with_in a (x_in a ++ more)) upd) with (pni a upd).
  destruct (interp ah (pni a upd) (aw0 a)) as [[[st y]|e|q] x1];
    destruct (interp ah (pni a upd) (aw0 (with_in a (x_in a ++ more)))) as [[[st' y']|e'|q'] x2];
    cbn [fst snd] in *; try discriminate; inversion F; subst;
    unfold ast_of, with_in; cbn [x_ds x_rc x_win x_in]; rewrite T, R, W, I; reflexivity.
Qed.

Lemma arun_suffix upd a : suffix_of (x_in (snd (arun upd a))) (x_in a).
Proof. rewrite arun_in. unfold araw. apply (interp_ah_suffix (pni a upd) (aw0 a)). Qed.

(* the other fields of the decoder state are not touched *)
Lemma arun_ds upd a : ds_pib (x_ds (snd (arun upd a))) = ds_pib (x_ds a) /\
  ds_props (x_ds (snd (arun upd a))) = ds_props (x_ds a) /\ ds_unpacked (x_ds (snd (arun upd a))) = ds_unpacked (x_ds a).
Proof. unfold arun. destruct (araw upd a) as [[[st y]|e|q] x]; cbn; auto. Qed.

(* ---------- Finished <-> the end of the input was seen; running out of input = Failed EIo ---------- *)
Theorem arun_fin a :
  (aeo true a = true ->
     fst (arun true a) = Done Finished /\ x_in (snd (arun true a)) = [] /\ r_code (x_rc (snd (arun true a))) = 0 /\
     rep0 (ds_rep (x_ds (snd (arun true a)))) = MARKER /\
     ds_state (x_ds (snd (arun true a))) = (if ds_state (x_ds a) <? 7 then 7 else 10)) /\
  (fst (arun true a) = Done Finished -> aeo true a = true).
Proof.
  unfold aeo, arun, araw.
  destruct (pni_fin (ds_props (x_ds a)) (mkSym (ds_state (x_ds a)) (ds_rep (x_ds a))) (aw0 a) eq_refl) as [H1 H2].
  fold (pni a true) in H1, H2. cbn [y_state] in H1.
  destruct (interp ah (pni a true) (aw0 a)) as [[[st y]|e|q] x]; cbn [fst snd] in *.
  - split.
    + intros E. destruct (H1 E) as (y' & Ey & Hi & Hc & Hm & Hs). inversion Ey; subst.
      cbn [ast_of ds_upd x_in x_rc x_ds ds_rep ds_state]. auto.
    + intros E. inversion E; subst. apply (H2 y). reflexivity.
  - split; [|discriminate]. intros E. destruct (H1 E) as (y' & Ey & _). discriminate.
  - split; [|discriminate]. intros E. destruct (H1 E) as (y' & Ey & _). discriminate.
Qed.

Lemma arf_eio upd a : arf upd a = true -> fst (arun upd a) = Failed EIo.
Proof.
  unfold arf, arun, araw. intros E. pose proof (rf_only_by_eio (pni a upd) (aw0 a) eq_refl E) as H.
  destruct (interp ah (pni a upd) (aw0 a)) as [[[st y]|e|q] x]; cbn [fst] in *; try discriminate. congruence.
Qed.

Lemma arf_aeo_excl a : arf true a = true -> aeo true a = false.
Proof.
  intros E. destruct (aeo true a) eqn:Eo; [|reflexivity].
  destruct (arun_fin a) as [H _]. destruct (H Eo) as [F _]. rewrite (arf_eio _ _ E) in F. discriminate.
Qed.

(* ---------- F3 on states ---------- *)
Theorem dry_ok_then_fed a st : fst (arun false a) = Done st -> arf true a = false.
Proof.
  unfold arun, arf, araw. intros H.
  destruct (interp ah (pni a false) (aw0 a)) as [[[st' y]|e|q] x] eqn:E; cbn [fst] in H; try discriminate.
  eapply dry_run_ok_real_run_fed; [reflexivity|exact E].
Qed.

(* ====================================================================== *)
(* Invariants                                                               *)
(* ====================================================================== *)
Definition to_lw (a : ast) : lw := mkLw (x_ds a) (x_rc a) (cursor_of (x_in a)) (x_win a).

Definition is_circ (v : win) : Prop := match v with WCirc _ => True | WAccum _ => False end.

Record AInv (a : ast) : Prop := mkAInv {
  ai_lw : LwInv (to_lw a);
  ai_rng : T24 <= r_range (x_rc a) < T32;
  ai_tabs : tabs_ok (ds_tabs (x_ds a));
  ai_len : nlen (x_in a) < BIG;
  ai_circ : is_circ (x_win a)
}.

Lemma lw_abs_to_lw a : nlen (x_in a) <= BIG -> lw_abs (nlen (x_in a)) (to_lw a) a.
Proof.
  intros H. unfold lw_abs, to_lw. cbn [l_ds l_rc l_win l_src].
  repeat split; try reflexivity; try apply (cursor_FullVis _ H).
Qed.

Lemma LwInv_transfer c w a : lw_abs c w a -> LwInv w -> LwInv (to_lw a).
Proof.
  intros (Hd & Hr & Hw & Hs & Hi & Hp) [h1 h2 h3 h4 [g1 g2 g3 g4 g5]].
  cbn [d_rc d_tabs d_src d_win] in *. rewrite Hd, ?Hr, ?Hw in *.
  constructor; cbn [to_lw l_ds l_rc l_src l_win]; try assumption.
  constructor; cbn [d_rc d_tabs d_src d_win]; try assumption.
  unfold SrcBytes in *. cbn [cursor_of src_of s_rest]. rewrite <- Hi. exact g4.
Qed.

Lemma ah_keeps_circ X (o : decE X) w : is_circ (a_win w) -> is_circ (a_win (hst (ah X o w))).
Proof.
  intros H. destruct o as [cl upd|count| | |d|dist|b|len dist]; cbn [ah].
  - destruct (cell_get (a_tabs w) cl) as [prob|]; [|exact H].
    destruct (an_decode_bit (a_rc w) prob upd (a_in w)) as [[[[bb p'] r']|e|q] i]; exact H.
  - destruct (an_get count (a_rc w) (a_in w)) as [[[x r']|e|q] i]; exact H.
  - destruct (an_finished_ok (a_rc w) (a_in w)) as [[x|e|q] i]; exact H.
  - exact H.
  - destruct (a_win w) as [c|ac]; [|contradiction]. cbn [win_last_or]. unfold lift_c.
    destruct (circ_last_or c d) as [[x|e|q] c']; exact I.
  - destruct (a_win w) as [c|ac]; [|contradiction]. cbn [win_last_n]. unfold lift_c.
    destruct (circ_last_n c dist) as [[x|e|q] c']; exact I.
  - destruct (a_win w) as [c|ac]; [|contradiction]. cbn [win_append_literal]. unfold lift_c.
    destruct (circ_append_literal c b) as [[x|e|q] c']; exact I.
  - destruct (a_win w) as [c|ac]; [|contradiction]. cbn [win_append_lz]. unfold lift_c.
    destruct (circ_append_lz c len dist) as [[x|e|q] c']; exact I.
Qed.

Lemma interp_ah_circ {A} (p : dprog A) w : is_circ (a_win w) -> is_circ (a_win (snd (interp ah p w))).
Proof.
  apply (ProgLemmas.interp_inv ah (fun w => is_circ (a_win w))). intros X o s Hs.
  pose proof (ah_keeps_circ X o s Hs) as H. destruct (ah X o s); exact H.
Qed.

Lemma arun_circ upd a : is_circ (x_win a) -> is_circ (x_win (snd (arun upd a))).
Proof.
  intros H. pose proof (interp_ah_circ (pni a upd) (aw0 a) H) as G. unfold arun, araw.
  destruct (interp ah (pni a upd) (aw0 a)) as [[[st y]|e|q] x]; exact G.
Qed.

(* a symbol step never panics and keeps the invariant *)
Theorem arun_inv upd a : AInv a ->
  match arun upd a with
  | (Panicked _, _) => False
  | (Done _, a') => AInv a'
  | (Failed _, a') => LwInv (to_lw a') /\ is_circ (x_win a')
  end.
Proof.
  intros [HL HR HT Hn HC].
  pose proof (run_sym_abs upd _ _ _ (lw_abs_to_lw a ltac:(lia))) as [F R].
  pose proof (run_sym_safe upd (to_lw a) HL) as Hsafe.
  pose proof (arun_circ upd a HC) as HC'.
  pose proof (arun_suffix upd a) as Hsuf. apply suffix_nlen in Hsuf.
  destruct (run_sym upd (to_lw a)) as [[st|e|q] w'] eqn:E; cbn [fst snd] in *; [| |contradiction].
  - destruct (arun upd a) as [[st'|e'|q'] a']; cbn [fst snd] in *; try discriminate.
    destruct (run_sym_inv upd (to_lw a) w' st HR HT E) as [HR' HT'].
    pose proof R as R0. destruct R as (Hd & Hr & Hw & Hs & Hi & Hp). rewrite Hd in HT'. rewrite Hr in HR'.
    constructor; try assumption; [|lia].
    eapply LwInv_transfer; [exact R0|exact Hsafe].
  - destruct (arun upd a) as [[st'|e'|q'] a']; cbn [fst snd] in *; try discriminate.
    split; [|exact HC']. eapply LwInv_transfer; [exact R|exact Hsafe].
Qed.
Print Assumptions arun_inv.

(* ---------- S3 / F4: with 20 bytes in the buffer a real step never runs out of input ---------- *)
Theorem fed_with_20 a : AInv a -> 20 <= nlen (x_in a) -> arf true a = false.
Proof.
  intros [HL HR HT Hn HC] H20. destruct (arf true a) eqn:E; [exfalso|reflexivity].
  pose proof (arf_aeo_excl a E) as Heo.
  set (a2 := with_in a (x_in a ++ [0])).
  assert (He : ext [0] (aw0 a) (aw0 a2)) by (unfold ext, aw0, a2, with_in; cbn; repeat split).
  pose proof (eof_ext 0 [] (pni a true) _ _ He eq_refl E Heo) as Hb.
  change (pni a true) with (pni a2 true) in Hb. fold (araw true a2) in Hb. rewrite <- arun_in in Hb.
  assert (Hl2 : nlen (x_in a2) <= BIG) by (unfold a2; cbn [with_in x_in]; rewrite nlen_app; change (nlen [0]) with 1; lia).
  pose proof (run_sym_abs true _ _ _ (lw_abs_to_lw a2 Hl2)) as [_ (_ & _ & _ & _ & _ & P)].
  pose proof (run_sym_pos_20 true (to_lw a2) HR HT) as H4.
  unfold a2 in P, H4 at 2. cbn [to_lw with_in x_in l_src cursor_of src_of s_pos] in P, H4.
  rewrite nlen_app in P. change (nlen [0]) with 1 in P. change (nlen []) with 0 in Hb.
  unfold MAX_REQUIRED_INPUT in H4. fold a2 in P. lia.
Qed.
Print Assumptions fed_with_20.

(* ---------- S4: after the end marker every step fails ---------- *)
Lemma decode_bit_zero r prob upd i : r_code r = 0 -> 0 < N.shiftr (r_range r) 11 * prob ->
  match an_decode_bit r prob upd i with (Done (b, _, _), _) => b = false | _ => True end.
Proof.
  intros Hc Hb. unfold an_decode_bit. cbv zeta. rewrite Hc.
  destruct (U32 <=? _); [exact I|].
  destruct (N.ltb_spec 0 (N.shiftr (r_range r) 11 * prob)) as [_|]; [|lia].
  destruct (upd && _)%bool; [exact I|]. destruct (U16 <=? _); [exact I|].
  unfold mbind, mret. destruct (an_normalize _ i) as [[x|e|q] i']; auto.
Qed.

Lemma circ_last_or_same c d : snd (circ_last_or c d) = c.
Proof. unfold circ_last_or. destruct (_ =? _); [reflexivity|]. destruct (_ =? _); reflexivity. Qed.

Lemma lit_arm_after_marker p y upd w c :
  a_win w = WCirc c -> c_dict c < 4294967296 -> 7 <= y_state y -> rep0 (y_rep y) = MARKER ->
  forall r, fst (interp ah (lit_arm p y upd) w) <> Done r.
Proof.
  intros Hw Hd Hst Hrep r. unfold lit_arm. cbv zeta. rewrite interp_bind.
  assert (H : forall b, fst (interp ah (decode_literal p y upd) w) <> Done b).
  { intros b. unfold decode_literal. rewrite interp_bind, interp_call. cbn [ah]. rewrite Hw. cbn [win_last_or]. unfold lift_c.
    pose proof (circ_last_or_same c 0) as Es. destruct (circ_last_or c 0) as [[x|e|q] c']; cbn [fst snd alift_win] in *; try discriminate.
    subst c'. rewrite interp_bind, interp_call. cbn [ah a_win].
    destruct (8 <? lc p); [cbn [interp fst]; discriminate|]. cbv zeta.
    destruct (N.leb_spec 7 (y_state y)) as [_|]; [|lia].
    rewrite interp_bind, interp_bind, interp_call. cbn [ah a_win win_last_n]. unfold lift_c, circ_last_n.
    rewrite Hrep. unfold MARKER. change (4294967295 + 1) with 4294967296.
    destruct (N.ltb_spec (c_dict c) 4294967296) as [_|]; [|lia]. cbn [fst snd alift_win]. discriminate. }
  destruct (interp ah (decode_literal p y upd) w) as [[b|e|q] w1]; cbn [fst] in *; try discriminate.
  exfalso. apply (H b). reflexivity.
Qed.

Theorem after_marker_fails p y upd w c :
  r_code (a_rc w) = 0 -> T24 <= r_range (a_rc w) < T32 -> tabs_ok (a_tabs w) ->
  a_win w = WCirc c -> c_dict c < 4294967296 -> 7 <= y_state y -> rep0 (y_rep y) = MARKER ->
  forall r, fst (interp ah (process_next_inner p y upd) w) <> Done r.
Proof.
  intros Hc HR HT Hw Hd Hst Hrep r. unfold process_next_inner. rewrite interp_bind, interp_call. cbn [ah].
  destruct (63 <? pb p); [cbn [interp fst]; discriminate|]. cbv zeta.
  rewrite interp_bind, interp_call. cbn [ah].
  set (cl := CIsMatch _).
  destruct (cell_get (a_tabs w) cl) as [prob|] eqn:Ec; [|cbn [fst]; discriminate].
  pose proof (HT cl prob Ec) as Hp.
  assert (Hb : 0 < N.shiftr (r_range (a_rc w)) 11 * prob).
  { rewrite N.shiftr_div_pow2. change (2 ^ 11) with 2048. unfold T24 in HR. nia. }
  pose proof (decode_bit_zero (a_rc w) prob upd (a_in w) Hc Hb) as Hz.
  destruct (an_decode_bit (a_rc w) prob upd (a_in w)) as [[[[b p'] r']|e|q] i]; cbn [fst]; try discriminate.
  subst b. cbn [negb]. eapply lit_arm_after_marker; cbn [a_win]; eassumption.
Qed.
Print Assumptions after_marker_fails.
