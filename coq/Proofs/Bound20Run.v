(* Part 3 of the MAX_REQUIRED_INPUT bound: on the concrete handler dec_h, a program whose paths stay within
   the symbol budget advances the source position by at most 20 bytes. *)
From LZ Require Import Base.Prelude Base.Prog Model.Io Model.Tables Model.LzBuffer Model.RangeDec Model.Lzma.
From LZ Require Import Proofs.ProgLemmas Proofs.MapLemmas Proofs.Bound20.
From Coq Require Import ZifyBool ZifyNat ZifyN.
Ltac Zify.zify_post_hook ::= Z.div_mod_to_equations.
Local Open Scope N_scope.

(* ---------- abstract runs ---------- *)
Lemma step_shift R n o : step (R, n) o = (fst (step (R, 0) o), n + snd (step (R, 0) o)).
Proof. unfold step. destruct (pre R o <? T24); cbn [fst snd]; f_equal; lia. Qed.

Lemma run_shift os : forall R n, run (R, n) os = (fst (run (R, 0) os), n + snd (run (R, 0) os)).
Proof.
  induction os as [|o os IH]; intros R n; cbn [run fold_left fst snd].
  - f_equal; lia.
  - fold (run (step (R, n) o) os). fold (run (step (R, 0) o) os).
    rewrite step_shift. destruct (step (R, 0) o) as [R1 m1]. cbn [fst snd].
    rewrite (IH R1 (n + m1)), (IH R1 m1). cbn [fst snd]. f_equal; lia.
Qed.

Lemma run_app R n os1 os2 : run (R, n) (os1 ++ os2) = run (run (R, n) os1) os2.
Proof. unfold run. apply fold_left_app. Qed.

Lemma run_app0 R os1 os2 :
  run (R, 0) (os1 ++ os2) =
  (fst (run (fst (run (R, 0) os1), 0) os2), snd (run (R, 0) os1) + snd (run (fst (run (R, 0) os1), 0) os2)).
Proof.
  rewrite run_app. destruct (run (R, 0) os1) as [R1 m1]. cbn [fst snd]. apply run_shift.
Qed.

Lemma run_range os : forall R n, T24 <= R < T32 -> Forall wf_op os -> T24 <= fst (run (R, n) os) < T32.
Proof.
  intros R n HR Hw. pose proof (run_inv os R n HR Hw) as H. destruct (run (R, n) os). cbn [fst]. tauto.
Qed.

Lemma cntP_app os1 os2 : cntP (os1 ++ os2) = (cntP os1 + cntP os2)%nat.
Proof. induction os1 as [|[p b|] t IH]; cbn [app cntP]; lia. Qed.
Lemma cntD_app os1 os2 : cntD (os1 ++ os2) = (cntD os1 + cntD os2)%nat.
Proof. induction os1 as [|[p b|] t IH]; cbn [app cntD]; lia. Qed.
Lemma cnt_repeat_OD n : cntP (repeat OD n) = 0%nat /\ cntD (repeat OD n) = n /\ Forall wf_op (repeat OD n).
Proof.
  induction n as [|n (H1 & H2 & H3)]; cbn [repeat cntP cntD]; [repeat split; constructor|].
  repeat split; [exact H1|lia|constructor; [exact I|exact H3]].
Qed.

(* ---------- the source position under the derived reads ---------- *)
Definition ipos (w : io) : N := s_pos (i_src w).

Definition hres_st {X S} (r : hres X S) : S :=
  match r with HOk _ s => s | HErr _ s => s | HPanic _ s => s end.

Lemma src_fill_pos' s : s_pos (hres_st (src_fill s)) = s_pos s.
Proof.
  unfold src_fill.
  repeat match goal with
         | |- context [match ?x with _ => _ end] => destruct x; cbn [hres_st s_pos]
         end; reflexivity.
Qed.

Lemma src_fill_pos s :
  match src_fill s with
  | HOk _ s' => s_pos s' = s_pos s | HErr _ s' => s_pos s' = s_pos s | HPanic _ s' => s_pos s' = s_pos s
  end.
Proof. pose proof (src_fill_pos' s) as H. destruct (src_fill s); exact H. Qed.

Lemma nlen_nfirstn {A} k (l : list A) : nlen (nfirstn k l) <= k.
Proof. unfold nlen, nfirstn. pose proof (firstn_le_length (N.to_nat k) l). lia. Qed.

Lemma read_buf_pos n w :
  match interp io_h (read_buf n) w with
  | (Done got, w') => ipos w' = ipos w + nlen got /\ nlen got <= n
  | (_, w') => ipos w' = ipos w
  end.
Proof.
  unfold read_buf. destruct (N.eqb_spec n 0) as [->|Hn]; cbn [interp].
  - unfold nlen. cbn [length]. lia.
  - cbn [call bind interp io_h]. pose proof (src_fill_pos (i_src w)) as Hf.
    destruct (src_fill (i_src w)) as [vis s'|e s'|q s']; cbn [interp io_h ipos i_src src_consume s_pos].
    + unfold ipos. split; [lia|]. eapply N.le_trans; [apply nlen_nfirstn|lia].
    + unfold ipos. exact Hf.
    + unfold ipos. exact Hf.
Qed.

Lemma read_exact_loop_pos fuel : forall n acc w,
  ipos (snd (interp io_h (read_exact_loop fuel n acc) w)) <= ipos w + n.
Proof.
  induction fuel as [|fuel IH]; intros n acc w; cbn [read_exact_loop].
  - destruct (n =? 0); cbn [interp snd]; lia.
  - destruct (n =? 0); [cbn [interp snd]; lia|].
    rewrite interp_bind. pose proof (read_buf_pos n w) as Hb.
    destruct (interp io_h (read_buf n) w) as [[got|e|q] w1]; cbn [snd]; [|lia|lia].
    destruct Hb as [Hp Hl]. destruct got as [|g got]; [cbn [interp snd]; unfold nlen in *; cbn [length] in *; lia|].
    eapply N.le_trans; [apply IH|]. lia.
Qed.

Lemma read_u8_pos w : ipos (snd (interp io_h read_u8 w)) <= ipos w + 1.
Proof.
  unfold read_u8, read_exact. rewrite interp_bind.
  pose proof (read_exact_loop_pos (N.to_nat 1) 1 [] w) as H.
  destruct (interp io_h (read_exact_loop (N.to_nat 1) 1 []) w) as [[bs|e|q] w1]; cbn [snd] in *; try exact H.
  destruct bs as [|b [|b' bs]]; cbn [interp snd]; exact H.
Qed.

(* ---------- the register operations ---------- *)
Lemma rc_normalize_run R o code w : 65536 <= pre R o < T32 ->
  let res := interp io_h (rc_normalize (mkRc (pre R o) code)) w in
  ipos (snd res) <= ipos w + snd (step (R, 0) o) /\
  (forall r', fst res = Done r' -> r_range r' = fst (step (R, 0) o)).
Proof.
  intros Hpre. unfold rc_normalize, step. cbn [r_range r_code].
  change 16777216 with T24. destruct (N.ltb_spec (pre R o) T24) as [Hlt|Hge]; cbv zeta; cbn [fst snd].
  - rewrite interp_bind. pose proof (read_u8_pos w) as Hp.
    destruct (interp io_h read_u8 w) as [[b|e|q] w1]; cbn [interp fst snd] in *.
    + split; [lia|]. intros r' E. inversion E; subst. cbn [r_range].
      rewrite M32_mod, N.shiftl_mul_pow2. change (2 ^ 8) with 256. unfold T24 in Hlt. apply N.mod_small. lia.
    + split; [lia|]. intros r' E. discriminate.
    + split; [lia|]. intros r' E. discriminate.
  - cbn [interp fst snd]. split; [lia|]. intros r' E. inversion E; subst. reflexivity.
Qed.

Lemma prob_up p : 31 <= p <= 2017 -> 31 <= p + N.shiftr (2048 - p) 5 <= 2017.
Proof. intros H. rewrite N.shiftr_div_pow2. change (2 ^ 5) with 32. lia. Qed.
Lemma prob_down p : 31 <= p <= 2017 -> 31 <= p - N.shiftr p 5 <= 2017.
Proof. intros H. rewrite N.shiftr_div_pow2. change (2 ^ 5) with 32. lia. Qed.

Lemma rc_decode_bit_run r prob upd w : T24 <= r_range r < T32 -> 31 <= prob <= 2017 ->
  exists b, let res := interp io_h (rc_decode_bit r prob upd) w in
    ipos (snd res) <= ipos w + snd (step (r_range r, 0) (OP prob b)) /\
    (forall b' prob' r', fst res = Done (b', prob', r') ->
       31 <= prob' <= 2017 /\ r_range r' = fst (step (r_range r, 0) (OP prob b))).
Proof.
  intros HR Hp. unfold rc_decode_bit. cbv zeta.
  destruct (pre_prob (r_range r) prob false HR Hp) as [_ Hf].
  destruct (pre_prob (r_range r) prob true HR Hp) as [_ Ht].
  cbn [pre] in Hf, Ht.
  change U32 with T32. destruct (N.leb_spec T32 (N.shiftr (r_range r) 11 * prob)) as [Hbad|_]; [lia|].
  destruct (r_code r <? N.shiftr (r_range r) 11 * prob).
  - exists false.
    assert (Hup: (upd && (2048 <? prob))%bool = false).
    { destruct upd; cbn [andb]; [|reflexivity]. apply N.ltb_ge. lia. }
    rewrite Hup.
    assert (Hp': 31 <= (if upd then prob + N.shiftr (2048 - prob) 5 else prob) <= 2017)
      by (destruct upd; [apply prob_up; exact Hp|exact Hp]).
    set (prob' := if upd then prob + N.shiftr (2048 - prob) 5 else prob) in *. clearbody prob'.
    destruct (N.leb_spec U16 prob') as [Hbad|_]; [unfold U16 in Hbad; lia|].
    rewrite interp_bind.
    destruct (rc_normalize_run (r_range r) (OP prob false) (r_code r) w Hf) as [H1 H2]. cbn [pre] in H1, H2.
    destruct (interp io_h (rc_normalize (mkRc (N.shiftr (r_range r) 11 * prob) (r_code r))) w) as [[r1|e|q] w1];
      cbn [interp fst snd] in *; (split; [exact H1|]); intros b' p' r' E; try discriminate.
    inversion E; subst. split; [exact Hp'|]. apply H2. reflexivity.
  - exists true.
    assert (Hp': 31 <= (if upd then prob - N.shiftr prob 5 else prob) <= 2017)
      by (destruct upd; [apply prob_down; exact Hp|exact Hp]).
    set (prob' := if upd then prob - N.shiftr prob 5 else prob) in *. clearbody prob'.
    destruct (N.ltb_spec (r_range r) (N.shiftr (r_range r) 11 * prob)) as [Hbad|_]; [lia|].
    rewrite interp_bind.
    destruct (rc_normalize_run (r_range r) (OP prob true) (r_code r - N.shiftr (r_range r) 11 * prob) w Ht) as [H1 H2].
    cbn [pre] in H1, H2.
    destruct (interp io_h (rc_normalize (mkRc (r_range r - N.shiftr (r_range r) 11 * prob) (r_code r - N.shiftr (r_range r) 11 * prob))) w) as [[r1|e|q] w1];
      cbn [interp fst snd] in *; (split; [exact H1|]); intros b' p' r' E; try discriminate.
    inversion E; subst. split; [exact Hp'|]. apply H2. reflexivity.
Qed.

Lemma rc_get_loop_run n : forall r result w, T24 <= r_range r < T32 ->
  let res := interp io_h (rc_get_loop n r result) w in
  ipos (snd res) <= ipos w + snd (run (r_range r, 0) (repeat OD n)) /\
  (forall x r', fst res = Done (x, r') -> r_range r' = fst (run (r_range r, 0) (repeat OD n))).
Proof.
  induction n as [|n IH]; intros r result w HR; cbn [rc_get_loop repeat].
  - cbn [interp run fold_left fst snd]. split; [lia|]. intros x r' E. inversion E; subst. reflexivity.
  - cbv zeta. change (OD :: repeat OD n) with ([OD] ++ repeat OD n). rewrite run_app0.
    cbn [run fold_left fst snd]. fold (run (fst (step (r_range r, 0) OD), 0) (repeat OD n)).
    destruct (pre_dir (r_range r) HR) as [_ Hd].
    assert (Hd': 65536 <= pre (r_range r) OD < T32) by lia.
    pose proof (step_inv (r_range r) 0 OD HR I) as Hs.
    unfold rc_get_bit. cbv zeta. rewrite !interp_bind.
    set (code := if N.shiftr (r_range r) 1 <=? r_code r then r_code r - N.shiftr (r_range r) 1 else r_code r).
    destruct (rc_normalize_run (r_range r) OD code w Hd') as [H1 H2]. cbn [pre] in H1, H2.
    destruct (step (r_range r, 0) OD) as [R1 m1]. cbn [fst snd] in *.
    destruct (interp io_h (rc_normalize (mkRc (N.shiftr (r_range r) 1) code)) w) as [[r1|e|q] w1];
      cbn [interp fst snd] in *.
    + specialize (H2 r1 eq_refl).
      assert (HR1: T24 <= r_range r1 < T32) by (rewrite H2; tauto).
      destruct (IH r1 (N.lxor (M32 (N.shiftl result 1)) (b2n (N.shiftr (r_range r) 1 <=? r_code r))) w1 HR1) as [H3 H4].
      rewrite H2 in H3, H4. split; [lia|exact H4].
    + split; [lia|]. intros x r' E. discriminate.
    + split; [lia|]. intros x r' E. discriminate.
Qed.

(* ---------- the probability tables stay within [31, 2017] ---------- *)
Definition tabs_ok (t : ptabs) : Prop := forall c v, cell_get t c = Some v -> 31 <= v <= 2017.

Lemma tab_get_set_cases t j v i x : tab_get (tab_set t j v) i = Some x -> x = v \/ tab_get t i = Some x.
Proof.
  destruct (N.eq_dec i j) as [->|Hne].
  - unfold tab_get, tab_set. cbn [t_len t_map]. destruct (j <? t_len t); [|discriminate].
    rewrite nm_gss. intros E. inversion E. left. reflexivity.
  - rewrite tab_get_set_other by exact Hne. auto.
Qed.

Lemma len_get_set_cases l p v p' x : len_get (len_set l p v) p' = Some x -> x = v \/ len_get l p' = Some x.
Proof.
  destruct p, p'; cbn [len_get len_set lt_choice lt_choice2 lt_low lt_mid lt_high]; intros H; auto;
    try (inversion H; left; reflexivity);
    try (destruct (_ && _)%bool; [|discriminate]); eapply tab_get_set_cases; exact H.
Qed.

Lemma cell_get_set_cases t c v c' x : cell_get (cell_set t c v) c' = Some x -> x = v \/ cell_get t c' = Some x.
Proof.
  destruct t as [rows lit ps al pd im ir g0 g1 g2 r0 ln rl]. destruct c as [i|i|i|i|i|i|row col|ls i|i|i|[|] p];
    destruct c' as [i'|i'|i'|i'|i'|i'|row' col'|ls' i'|i'|i'|[|] p'];
    cbn [cell_get cell_set p_lit_rows p_lit p_pos_slot p_align p_pos_dec p_is_match p_is_rep p_is_rep_g0
         p_is_rep_g1 p_is_rep_g2 p_is_rep_0long p_len p_rep_len]; intros H; auto;
    try (eapply len_get_set_cases; exact H);
    try (destruct (_ && _)%bool; [|discriminate]); eapply tab_get_set_cases; exact H.
Qed.

Lemma tabs_ok_set t c v : tabs_ok t -> 31 <= v <= 2017 -> tabs_ok (cell_set t c v).
Proof.
  intros Ht Hv c' x H. destruct (cell_get_set_cases _ _ _ _ _ H) as [->|H']; [exact Hv|eapply Ht; exact H'].
Qed.

Lemma tabs_ok_new rows : tabs_ok (ptabs_new rows).
Proof.
  assert (T: forall len i v, tab_get (tab_new len) i = Some v -> 31 <= v <= 2017).
  { intros len i v. rewrite tab_get_new. destruct (i <? len); [|discriminate]. intros E; inversion E; lia. }
  assert (L: forall p v, len_get lentabs_new p = Some v -> 31 <= v <= 2017).
  { intros p v. destruct p; cbn [len_get lentabs_new lt_choice lt_choice2 lt_low lt_mid lt_high]; intros H;
      try (inversion H; lia); try (destruct (_ && _)%bool; [|discriminate]); eapply T; exact H. }
  intros c v. unfold ptabs_new.
  destruct c as [i|i|i|i|i|i|row col|ls i|i|i|[|] p];
    cbn [cell_get p_lit_rows p_lit p_pos_slot p_align p_pos_dec p_is_match p_is_rep p_is_rep_g0
         p_is_rep_g1 p_is_rep_g2 p_is_rep_0long p_len p_rep_len]; intros H;
    try (eapply L; exact H); try (destruct (_ && _)%bool; [|discriminate]); eapply T; exact H.
Qed.

(* ---------- one handler step ---------- *)
Definition dpos (w : dw) : N := s_pos (d_src w).
Definition regs_ok (w : dw) : Prop := T24 <= r_range (d_rc w) < T32.
Definition inv (w : dw) : Prop := regs_ok w /\ tabs_ok (d_tabs w).

Lemma src_run_eq {A} (p : prog ioE A) s :
  src_run p s = (fst (interp io_h p (mkIo s vec_sink)), i_src (snd (interp io_h p (mkIo s vec_sink)))).
Proof. unfold src_run, run_io. destruct (interp io_h p (mkIo s vec_sink)). reflexivity. Qed.

Lemma is_finished_ok_pos r w : ipos (snd (interp io_h (rc_is_finished_ok r) w)) = ipos w.
Proof.
  unfold rc_is_finished_ok, is_eof. destruct (r_code r =? 0); cbn [call bind interp io_h snd]; [|reflexivity].
  pose proof (src_fill_pos (i_src w)) as H.
  destruct (src_fill (i_src w)); cbn [interp snd]; unfold ipos; cbn [i_src]; exact H.
Qed.

Lemma dec_h_step X (o : decE X) w : inv w ->
  exists os, Forall wf_op os /\ cntP os = fst (opcost o) /\ cntD os = snd (opcost o) /\
    match dec_h _ o w with
    | HOk x w' => inv w' /\ r_range (d_rc w') = fst (run (r_range (d_rc w), 0) os) /\
                  dpos w' <= dpos w + snd (run (r_range (d_rc w), 0) os)
    | HErr _ w' => dpos w' <= dpos w + snd (run (r_range (d_rc w), 0) os)
    | HPanic _ w' => dpos w' <= dpos w + snd (run (r_range (d_rc w), 0) os)
    end.
Proof.
  intros [HR Ht]. unfold regs_ok in HR.
  destruct o as [c upd|c| | |dd|dist|b|len dist]; cbn [dec_h opcost fst snd].
  - (* Bit *)
    destruct (cell_get (d_tabs w) c) as [prob|] eqn:Ec.
    + pose proof (Ht c prob Ec) as Hp. rewrite src_run_eq.
      destruct (rc_decode_bit_run (d_rc w) prob upd (mkIo (d_src w) vec_sink) HR Hp) as (b & H1 & H2).
      exists [OP prob b]. split; [constructor; [exact Hp|constructor]|]. split; [reflexivity|]. split; [reflexivity|].
      cbn [run fold_left]. pose proof (step_inv (r_range (d_rc w)) 0 (OP prob b) HR Hp) as Hs.
      destruct (step (r_range (d_rc w), 0) (OP prob b)) as [R1 m1]. cbn [fst snd] in *.
      unfold ipos in H1. cbn [i_src] in H1.
      destruct (interp io_h (rc_decode_bit (d_rc w) prob upd) (mkIo (d_src w) vec_sink)) as [[[[b' prob'] r']|e|q] w1];
        cbn [fst snd] in *; unfold dpos; cbn [d_src d_rc d_tabs]; try exact H1.
      destruct (H2 b' prob' r' eq_refl) as [Hp' Hr'].
      split; [|split; [exact Hr'|exact H1]].
      split; [unfold regs_ok; cbn [d_rc]; rewrite Hr'; tauto|]. cbn [d_tabs].
      destruct upd; [apply tabs_ok_set; assumption|exact Ht].
    + exists [OP 1024 false]. split; [constructor; [cbn [wf_op]; lia|constructor]|].
      split; [reflexivity|]. split; [reflexivity|]. lia.
  - (* Direct *)
    pose proof (cnt_repeat_OD (N.to_nat c)) as (C1 & C2 & C3).
    exists (repeat OD (N.to_nat c)). split; [exact C3|]. split; [exact C1|]. split; [exact C2|].
    rewrite src_run_eq. unfold rc_get.
    destruct (rc_get_loop_run (N.to_nat c) (d_rc w) 0 (mkIo (d_src w) vec_sink) HR) as [H1 H2].
    pose proof (run_range (repeat OD (N.to_nat c)) (r_range (d_rc w)) 0 HR C3) as Hrr.
    unfold ipos in H1. cbn [i_src] in H1.
    destruct (interp io_h (rc_get_loop (N.to_nat c) (d_rc w) 0) (mkIo (d_src w) vec_sink)) as [[[x r']|e|q] w1];
      cbn [lift_src fst snd] in *; unfold dpos; cbn [d_src d_rc d_tabs]; try exact H1.
    pose proof (H2 x r' eq_refl) as Hr'.
    split; [|split; [exact Hr'|exact H1]].
    split; [unfold regs_ok; cbn [d_rc]; rewrite Hr'; exact Hrr|exact Ht].
  - (* FinishedOk *)
    exists []. split; [constructor|]. split; [reflexivity|]. split; [reflexivity|].
    rewrite src_run_eq. pose proof (is_finished_ok_pos (d_rc w) (mkIo (d_src w) vec_sink)) as H1.
    unfold ipos in H1. cbn [i_src] in H1. cbn [run fold_left fst snd].
    destruct (interp io_h (rc_is_finished_ok (d_rc w)) (mkIo (d_src w) vec_sink)) as [[x|e|q] w1];
      cbn [fst snd] in *; unfold dpos, inv, regs_ok; cbn [d_src d_rc d_tabs]; try lia.
    (split; [split; [exact HR|exact Ht]|split; [reflexivity|lia]]).
  - exists []. split; [constructor|]. split; [reflexivity|]. split; [reflexivity|].
    cbn [run fold_left fst snd]. unfold inv, regs_ok. (split; [split; [exact HR|exact Ht]|split; [reflexivity|lia]]).
  - exists []. split; [constructor|]. split; [reflexivity|]. split; [reflexivity|].
    cbn [run fold_left fst snd]. destruct (win_last_or (d_win w) dd) as [[x|e|q] v];
      cbn [lift_win]; unfold dpos, inv, regs_ok; cbn [d_src d_rc d_tabs]; try lia. (split; [split; [exact HR|exact Ht]|split; [reflexivity|lia]]).
  - exists []. split; [constructor|]. split; [reflexivity|]. split; [reflexivity|].
    cbn [run fold_left fst snd]. destruct (win_last_n (d_win w) dist) as [[x|e|q] v];
      cbn [lift_win]; unfold dpos, inv, regs_ok; cbn [d_src d_rc d_tabs]; try lia. (split; [split; [exact HR|exact Ht]|split; [reflexivity|lia]]).
  - exists []. split; [constructor|]. split; [reflexivity|]. split; [reflexivity|].
    cbn [run fold_left fst snd]. destruct (win_append_literal (d_win w) b) as [[x|e|q] v];
      cbn [lift_win]; unfold dpos, inv, regs_ok; cbn [d_src d_rc d_tabs]; try lia. (split; [split; [exact HR|exact Ht]|split; [reflexivity|lia]]).
  - exists []. split; [constructor|]. split; [reflexivity|]. split; [reflexivity|].
    cbn [run fold_left fst snd]. destruct (win_append_lz (d_win w) len dist) as [[x|e|q] v];
      cbn [lift_win]; unfold dpos, inv, regs_ok; cbn [d_src d_rc d_tabs]; try lia. (split; [split; [exact HR|exact Ht]|split; [reflexivity|lia]]).
Qed.

(* ---------- whole programs ---------- *)
Lemma paths_run {A} (p : dprog A) : forall (G : nat -> nat -> Prop) w, paths p G -> inv w ->
  exists os, Forall wf_op os /\
    (exists b d, G b d /\ (cntP os <= b)%nat /\ (cntD os <= d)%nat) /\
    dpos (snd (interp dec_h p w)) <= dpos w + snd (run (r_range (d_rc w), 0) os).
Proof.
  induction p as [a|e|q|X o k IH]; intros G w HG Hw; cbn [paths interp snd] in *;
    try (exists []; split; [constructor|]; split; [exists 0%nat, 0%nat; cbn [cntP cntD]; auto|];
         cbn [run fold_left snd]; lia).
  destruct (dec_h_step X o w Hw) as (os1 & W1 & P1 & D1 & Hstep).
  destruct (dec_h X o w) as [x w'|e w'|q w'].
  - destruct Hstep as (Hw' & Hr & Hpos).
    destruct (IH x _ w' (HG x) Hw') as (os2 & W2 & (b & d & Gbd & Pb & Dd) & Hpos2).
    exists (os1 ++ os2). split; [apply Forall_app; split; assumption|].
    split.
    + exists (fst (opcost o) + b)%nat, (snd (opcost o) + d)%nat. rewrite cntP_app, cntD_app.
      split; [exact Gbd|lia].
    + rewrite run_app0. cbn [snd]. rewrite <- Hr. lia.
  - destruct (paths_inhabited _ _ (HG (dflt o))) as (b & d & Gbd).
    exists os1. split; [exact W1|]. split; [|cbn [snd]; exact Hstep].
    exists (fst (opcost o) + b)%nat, (snd (opcost o) + d)%nat. split; [exact Gbd|lia].
  - destruct (paths_inhabited _ _ (HG (dflt o))) as (b & d & Gbd).
    exists os1. split; [exact W1|]. split; [|cbn [snd]; exact Hstep].
    exists (fst (opcost o) + b)%nat, (snd (opcost o) + d)%nat. split; [exact Gbd|lia].
Qed.

(* Main theorem of Part 3: a program within the symbol budget reads at most 20 bytes *)
Theorem sym_budget_run_20 {A} (p : dprog A) w : paths p sym_budget ->
  T24 <= r_range (d_rc w) < T32 -> tabs_ok (d_tabs w) ->
  s_pos (d_src (snd (interp dec_h p w))) <= s_pos (d_src w) + 20.
Proof.
  intros Hp HR Ht.
  destruct (paths_run p sym_budget w Hp (conj HR Ht)) as (os & Wf & (b & d & Gbd & Pb & Dd) & Hpos).
  unfold dpos in Hpos. eapply N.le_trans; [exact Hpos|]. apply N.add_le_mono_l.
  destruct Gbd as [[Hb Hd]|[Hb Hd]].
  - apply at_most_20_bytes; [exact HR|exact Wf|lia|lia].
  - apply at_most_20_bytes_23; [exact HR|exact Wf|lia|lia].
Qed.
Print Assumptions sym_budget_run_20.

(* the statement requested by the task *)
Theorem bounded_run_20 {A} (p : dprog A) w : bounded 22 26 p ->
  T24 <= r_range (d_rc w) < T32 -> tabs_ok (d_tabs w) ->
  s_pos (d_src (snd (interp dec_h p w))) <= s_pos (d_src w) + 20.
Proof.
  intros Hp. apply sym_budget_run_20. apply bounded_paths with (1 := Hp).
  intros b d Hb Hd. left. split; assumption.
Qed.
Print Assumptions bounded_run_20.

Theorem process_next_inner_run_20 p y upd w :
  T24 <= r_range (d_rc w) < T32 -> tabs_ok (d_tabs w) ->
  s_pos (d_src (snd (interp dec_h (process_next_inner p y upd) w))) <= s_pos (d_src w) + 20.
Proof. apply sym_budget_run_20. apply process_next_inner_paths. Qed.
Print Assumptions process_next_inner_run_20.

(* one call of process_next_inner on the decoder objects: MAX_REQUIRED_INPUT bytes suffice *)
Theorem run_sym_pos_20 upd (w : lw) :
  T24 <= r_range (l_rc w) < T32 -> tabs_ok (ds_tabs (l_ds w)) ->
  s_pos (l_src (snd (run_sym upd w))) <= s_pos (l_src w) + MAX_REQUIRED_INPUT.
Proof.
  intros HR Ht. unfold run_sym, MAX_REQUIRED_INPUT. cbv zeta.
  pose proof (process_next_inner_run_20 (ds_props (l_ds w)) (mkSym (ds_state (l_ds w)) (ds_rep (l_ds w))) upd
                (mkDw (ds_tabs (l_ds w)) (l_rc w) (l_src w) (l_win w)) HR Ht) as H.
  cbn [d_src] in H.
  destruct (interp dec_h _ _) as [[[st y]|e|q] x]; cbn [snd l_src] in *; exact H.
Qed.
Print Assumptions run_sym_pos_20.

(* ---------- the hypotheses are invariants of successful decoding (so the bound applies to every symbol) ---------- *)
Lemma interp_inv {A} (p : dprog A) : forall w a w', inv w -> interp dec_h p w = (Done a, w') -> inv w'.
Proof.
  induction p as [a0|e|q|X o k IH]; intros w a w' Hw E; cbn [interp] in E; try discriminate.
  - inversion E; subst. exact Hw.
  - destruct (dec_h_step X o w Hw) as (os1 & _ & _ & _ & Hstep).
    destruct (dec_h X o w) as [x w1|e w1|q w1]; try discriminate.
    destruct Hstep as (Hw1 & _). eapply IH; eassumption.
Qed.

Theorem run_sym_inv upd (w w' : lw) st :
  T24 <= r_range (l_rc w) < T32 -> tabs_ok (ds_tabs (l_ds w)) -> run_sym upd w = (Done st, w') ->
  T24 <= r_range (l_rc w') < T32 /\ tabs_ok (ds_tabs (l_ds w')).
Proof.
  intros HR Ht. unfold run_sym. cbv zeta.
  destruct (interp dec_h _ _) as [[[st' y]|e|q] x] eqn:E; intros E'; inversion E'; subst; clear E'.
  cbn [l_rc l_ds ds_tabs].
  assert (Hw: inv (mkDw (ds_tabs (l_ds w)) (l_rc w) (l_src w) (l_win w))) by (split; [exact HR|exact Ht]).
  exact (interp_inv _ _ _ _ Hw E).
Qed.
Print Assumptions run_sym_inv.
