(* C05, layers L0 and L1.
   L0: on the sources that the streaming decoder builds (Cursors, more generally "fully visible"
       fault-free sources) the concrete handler dec_h behaves like an abstract handler [ah] whose
       source is just the list of unread bytes.  [ah] carries two ghost flags: [a_rf] (a read hit the
       end of the input) and [a_eo] (is_finished_ok looked at the end of the input and saw it).
   L1: prefix stability: a run of ANY decoder program that never saw the end of its input is
       unchanged (same outcome, same tables/registers/window, same number of bytes read) when
       more input is appended. *)
From LZ Require Import Base.Prelude Base.Prog Model.Io Model.Tables Model.LzBuffer Model.RangeDec.
From LZ Require Import Proofs.ProgLemmas Proofs.IoLemmas.
From Coq Require Import ZifyBool ZifyNat ZifyN.
Local Open Scope prog_scope.

(* ====================================================================== *)
(* Fully visible sources                                                    *)
(* ====================================================================== *)
Definition BIG : N := 4611686018427387904.

Definition FullVis (s : src) : Prop :=
  s_fail s = None /\ s_limit s = None /\ nlen (s_rest s) <= BIG /\
  (forall r, BIG <= s_frag s r) /\ (s_avail s = 0 \/ s_avail s = nlen (s_rest s)).

Lemma FullVis_FaultFree s : FullVis s -> FaultFree s.
Proof. intros (H1 & H2 & H3 & H4 & H5). repeat split; try assumption. lia. Qed.

Lemma cursor_FullVis data : nlen data <= BIG -> FullVis (cursor_of data).
Proof.
  intros H. unfold FullVis, cursor_of, src_of, frag_all. cbn [s_fail s_limit s_rest s_frag s_avail].
  repeat split; try assumption; try (left; reflexivity). intros _. unfold BIG. lia.
Qed.

Lemma src_fill_full s : FullVis s ->
  exists s', src_fill s = HOk (s_rest s, nlen (s_rest s)) s' /\ FullVis s' /\
             s_rest s' = s_rest s /\ s_pos s' = s_pos s.
Proof.
  intros (Hf & Hl & Hn & Hfr & Ha). unfold src_fill, limited. rewrite Hl.
  destruct (N.ltb_spec 0 (s_avail s)) as [Hpos|Hz].
  - exists s. destruct Ha as [Ha|Ha]; [lia|]. rewrite Ha.
    repeat split; try assumption. right. exact Ha.
  - destruct (s_rest s) as [|b t] eqn:Er.
    + exists s. split; [reflexivity|]. split; [|split; [exact Er|reflexivity]].
      unfold FullVis. rewrite Er. repeat split; assumption.
    + rewrite Hf. cbn [s_limit]. rewrite nmin_len_spec.
      assert (E : N.min (N.max 1 (s_frag s (s_refills s))) (nlen (b :: t)) = nlen (b :: t)).
      { specialize (Hfr (s_refills s)). rewrite <- Er in *. unfold BIG in *. lia. }
      rewrite E. eexists. split; [reflexivity|].
      unfold FullVis. cbn [s_fail s_limit s_rest s_frag s_avail s_pos].
      rewrite <- Er in *. repeat split; try assumption. right. rewrite Er. reflexivity.
Qed.

Lemma src_consume_full s n : FullVis s -> FullVis (src_consume s n).
Proof.
  intros (Hf & Hl & Hn & Hfr & Ha). unfold FullVis, src_consume.
  cbn [s_fail s_limit s_rest s_frag s_avail]. rewrite Hl, nlen_nskipn.
  repeat split; try assumption; try lia.
Qed.

(* FullVis is preserved by every I/O program *)
Lemma io_FullVis {A} (p : iop A) w : FullVis (i_src w) -> FullVis (i_src (snd (run_io p w))).
Proof.
  unfold run_io. apply (interp_inv io_h (fun w => FullVis (i_src w))).
  intros X o s Hs. destruct o; cbn [io_h].
  - destruct (src_fill_full _ Hs) as (s' & E & Hs' & _). rewrite E. cbn [i_src]. exact Hs'.
  - cbn [i_src]. apply src_consume_full. exact Hs.
  - destruct (snk_write (i_snk s) bs); cbn [i_src]; exact Hs.
  - destruct (snk_flush (i_snk s)); cbn [i_src]; exact Hs.
  - exact Hs.
  - exact Hs.
Qed.

Lemma io_runs_FullVis {A} (p : iop A) s r s' : io_runs p s r s' -> FullVis s -> FullVis s'.
Proof.
  intros H Hs. pose proof (io_FullVis p (mkIo s vec_sink) Hs) as G. rewrite (H vec_sink) in G. exact G.
Qed.

(* ====================================================================== *)
(* Reads over a list of unread bytes                                        *)
(* ====================================================================== *)
Notation LM := (M (list N)).

Definition an_read : LM N := fun i => match i with [] => (Failed EIo, []) | b :: t => (Done b, t) end.
Definition an_eof : LM bool := fun i => (Done (match i with [] => true | _ => false end), i).

(* [p] run on a fully visible source behaves like [m] on the list of its unread bytes *)
Definition src_sim {A} (p : iop A) (m : LM A) : Prop :=
  forall s, FullVis s ->
    exists s', io_runs p s (fst (m (s_rest s))) s' /\ FullVis s' /\
               s_rest s' = snd (m (s_rest s)) /\
               s_pos s' + nlen (s_rest s') = s_pos s + nlen (s_rest s).

Lemma src_sim_ret {A} (a : A) : src_sim (Ret a) (mret a).
Proof. intros s Hs. exists s. unfold mret. cbn [fst snd]. split; [apply io_runs_ret|]. split; [exact Hs|]. split; reflexivity. Qed.

Lemma src_sim_panic {A} q : src_sim (@Panic ioE A q) (mpanic q).
Proof. intros s Hs. exists s. unfold mpanic. cbn [fst snd]. split; [intros k; reflexivity|]. split; [exact Hs|]. split; reflexivity. Qed.

Lemma src_sim_bind {A B} (p : iop A) (f : A -> iop B) m g :
  src_sim p m -> (forall a, src_sim (f a) (g a)) -> src_sim (bind p f) (mbind m g).
Proof.
  intros Hp Hf s Hs. destruct (Hp s Hs) as (s1 & Hrun & Hs1 & Hr1 & Hp1). unfold mbind.
  destruct (m (s_rest s)) as [[a|e|q] i1] eqn:Em; cbn [fst snd] in *.
  - destruct (Hf a s1 Hs1) as (s2 & Hrun2 & Hs2 & Hr2 & Hp2). rewrite Hr1 in *.
    exists s2. split; [eapply io_runs_bind; eassumption|]. split; [exact Hs2|]. split; [exact Hr2|]. lia.
  - exists s1. split; [apply io_runs_bind_fail; exact Hrun|]. split; [exact Hs1|]. split; assumption.
  - exists s1. split; [apply io_runs_bind_panic; exact Hrun|]. split; [exact Hs1|]. split; assumption.
Qed.

Lemma src_sim_read_u8 : src_sim read_u8 an_read.
Proof.
  intros s Hs. pose proof (FullVis_FaultFree s Hs) as Hff. unfold an_read.
  destruct (s_rest s) as [|b t] eqn:Er; cbn [fst snd].
  - destruct (io_read_u8_eof s Hff Er) as (s' & Hrun & Hr & Hp & _).
    exists s'. split; [exact Hrun|]. split; [eapply io_runs_FullVis; eassumption|].
    split; [exact Hr|]. rewrite Hr, Hp. reflexivity.
  - destruct (io_read_u8_spec s b t Hff Er) as (s' & Hrun & Hr & Hp & _).
    exists s'. split; [exact Hrun|]. split; [eapply io_runs_FullVis; eassumption|].
    split; [exact Hr|]. rewrite Hr, Hp, nlen_cons. lia.
Qed.

Lemma src_sim_is_eof : src_sim is_eof an_eof.
Proof.
  intros s Hs. pose proof (FullVis_FaultFree s Hs) as Hff. unfold an_eof. cbn [fst snd].
  destruct (io_is_eof_spec s Hff) as (s' & Hrun & Hr & Hp & _).
  exists s'. split; [exact Hrun|]. split; [eapply io_runs_FullVis; eassumption|].
  split; [exact Hr|]. rewrite Hr, Hp. reflexivity.
Qed.

Lemma src_sim_src_run {A} (p : iop A) m s : src_sim p m -> FullVis s ->
  exists s', src_run p s = (fst (m (s_rest s)), s') /\ FullVis s' /\
             s_rest s' = snd (m (s_rest s)) /\ s_pos s' + nlen (s_rest s') = s_pos s + nlen (s_rest s).
Proof.
  intros H Hs. destruct (H s Hs) as (s' & Hrun & R). exists s'. split; [apply io_runs_src_run; exact Hrun|exact R].
Qed.

(* ---------- the range decoder over a list ---------- *)
Definition an_normalize (r : rc) : LM rc :=
  if r_range r <? 16777216 then
    mbind an_read (fun b => mret (mkRc (M32 (N.shiftl (r_range r) 8)) (N.lxor (M32 (N.shiftl (r_code r) 8)) b)))
  else mret r.

Definition an_get_bit (r : rc) : LM (bool * rc) :=
  let range := N.shiftr (r_range r) 1 in
  let bit := range <=? r_code r in
  let code := if bit then r_code r - range else r_code r in
  mbind (an_normalize (mkRc range code)) (fun r' => mret (bit, r')).

Fixpoint an_get_loop (n : nat) (r : rc) (result : N) : LM (N * rc) :=
  match n with
  | O => mret (result, r)
  | S n' => mbind (an_get_bit r) (fun x => an_get_loop n' (snd x) (N.lxor (M32 (N.shiftl result 1)) (b2n (fst x))))
  end.
Definition an_get (count : N) (r : rc) : LM (N * rc) := an_get_loop (N.to_nat count) r 0.

Definition an_decode_bit (r : rc) (prob : N) (upd : bool) : LM (bool * N * rc) :=
  let bound := N.shiftr (r_range r) 11 * prob in
  if U32 <=? bound then mpanic (POverflow 1) else
  if r_code r <? bound then
    if upd && (2048 <? prob) then mpanic (POverflow 2) else
    let prob' := if upd then prob + N.shiftr (2048 - prob) 5 else prob in
    if U16 <=? prob' then mpanic (POverflow 3) else
    mbind (an_normalize (mkRc bound (r_code r))) (fun r' => mret (false, prob', r'))
  else
    let prob' := if upd then prob - N.shiftr prob 5 else prob in
    if r_range r <? bound then mpanic (POverflow 4) else
    mbind (an_normalize (mkRc (r_range r - bound) (r_code r - bound))) (fun r' => mret (true, prob', r')).

Definition an_finished_ok (r : rc) : LM bool := if r_code r =? 0 then an_eof else mret false.

Lemma sim_normalize r : src_sim (rc_normalize r) (an_normalize r).
Proof.
  unfold rc_normalize, an_normalize. destruct (_ <? _); [|apply src_sim_ret].
  apply src_sim_bind; [apply src_sim_read_u8|]. intros b. apply src_sim_ret.
Qed.

Lemma sim_get_bit r : src_sim (rc_get_bit r) (an_get_bit r).
Proof.
  unfold rc_get_bit, an_get_bit. cbv zeta. apply src_sim_bind; [apply sim_normalize|].
  intros r'. apply src_sim_ret.
Qed.

Lemma sim_get_loop n : forall r result, src_sim (rc_get_loop n r result) (an_get_loop n r result).
Proof.
  induction n as [|n IH]; intros r result; cbn [rc_get_loop an_get_loop]; [apply src_sim_ret|].
  apply src_sim_bind; [apply sim_get_bit|]. intros [b r']. cbn [fst snd]. apply IH.
Qed.

Lemma sim_decode_bit r prob upd : src_sim (rc_decode_bit r prob upd) (an_decode_bit r prob upd).
Proof.
  unfold rc_decode_bit, an_decode_bit. cbv zeta.
  destruct (U32 <=? _); [apply src_sim_panic|].
  destruct (r_code r <? _).
  - destruct (upd && _)%bool; [apply src_sim_panic|].
    destruct (U16 <=? _); [apply src_sim_panic|].
    apply src_sim_bind; [apply sim_normalize|]. intros r'. apply src_sim_ret.
  - destruct (r_range r <? _); [apply src_sim_panic|].
    apply src_sim_bind; [apply sim_normalize|]. intros r'. apply src_sim_ret.
Qed.

Lemma sim_finished_ok r : src_sim (rc_is_finished_ok r) (an_finished_ok r).
Proof.
  unfold rc_is_finished_ok, an_finished_ok. destruct (_ =? _); [apply src_sim_is_eof|apply src_sim_ret].
Qed.

(* ====================================================================== *)
(* The abstract handler                                                     *)
(* ====================================================================== *)
Record aw := mkAw {
  a_tabs : ptabs; a_rc : rc; a_in : list N; a_win : win;
  a_rf : bool;      (* ghost: a read was attempted at the end of the input *)
  a_eo : bool       (* ghost: is_finished_ok saw the end of the input *)
}.

Definition alift_win {X} (w : aw) (r : outcome X * win) : hres X aw :=
  match r with
  | (Done x, v) => HOk x (mkAw (a_tabs w) (a_rc w) (a_in w) v (a_rf w) (a_eo w))
  | (Failed e, v) => HErr e (mkAw (a_tabs w) (a_rc w) (a_in w) v (a_rf w) (a_eo w))
  | (Panicked p, v) => HPanic p (mkAw (a_tabs w) (a_rc w) (a_in w) v (a_rf w) (a_eo w))
  end.

Definition ah : handler decE aw := fun X o =>
  match o in decE X return aw -> hres X aw with
  | Bit c upd => fun w =>
      match cell_get (a_tabs w) c with
      | None => HPanic (PIndex 1) w
      | Some prob =>
          match an_decode_bit (a_rc w) prob upd (a_in w) with
          | (Done (b, prob', r'), i) =>
              HOk b (mkAw (if upd then cell_set (a_tabs w) c prob' else a_tabs w) r' i (a_win w) (a_rf w) (a_eo w))
          | (Failed e, i) =>
              let bound := N.shiftr (r_range (a_rc w)) 11 * prob in
              let prob' := if r_code (a_rc w) <? bound then prob + N.shiftr (2048 - prob) 5 else prob - N.shiftr prob 5 in
              HErr e (mkAw (if upd then cell_set (a_tabs w) c prob' else a_tabs w) (a_rc w) i (a_win w) true (a_eo w))
          | (Panicked p, i) => HPanic p (mkAw (a_tabs w) (a_rc w) i (a_win w) (a_rf w) (a_eo w))
          end
      end
  | Direct count => fun w =>
      match an_get count (a_rc w) (a_in w) with
      | (Done (x, r'), i) => HOk x (mkAw (a_tabs w) r' i (a_win w) (a_rf w) (a_eo w))
      | (Failed e, i) => HErr e (mkAw (a_tabs w) (a_rc w) i (a_win w) true (a_eo w))
      | (Panicked p, i) => HPanic p (mkAw (a_tabs w) (a_rc w) i (a_win w) (a_rf w) (a_eo w))
      end
  | FinishedOk => fun w =>
      match an_finished_ok (a_rc w) (a_in w) with
      | (Done b, i) => HOk b (mkAw (a_tabs w) (a_rc w) i (a_win w) (a_rf w) (a_eo w || b))
      | (Failed e, i) => HErr e (mkAw (a_tabs w) (a_rc w) i (a_win w) (a_rf w) (a_eo w))
      | (Panicked p, i) => HPanic p (mkAw (a_tabs w) (a_rc w) i (a_win w) (a_rf w) (a_eo w))
      end
  | WLen => fun w => HOk (win_len (a_win w)) w
  | WLastOr d => fun w => alift_win w (win_last_or (a_win w) d)
  | WLastN dist => fun w => alift_win w (win_last_n (a_win w) dist)
  | WAppendLit b => fun w => alift_win w (win_append_literal (a_win w) b)
  | WAppendLz len dist => fun w => alift_win w (win_append_lz (a_win w) len dist)
  end.

(* ---------- L0: dec_h on a fully visible source refines ah ---------- *)
Definition absR (c : N) (w : dw) (a : aw) : Prop :=
  d_tabs w = a_tabs a /\ d_rc w = a_rc a /\ d_win w = a_win a /\
  FullVis (d_src w) /\ s_rest (d_src w) = a_in a /\ s_pos (d_src w) + nlen (a_in a) = c.

Ltac absR_tac :=
  unfold absR; cbn [d_tabs d_rc d_src d_win a_tabs a_rc a_in a_win];
  (split; [try assumption; try reflexivity|split; [try assumption; try reflexivity|split; [try assumption; try reflexivity|
   split; [assumption|split; [try assumption; try reflexivity|try assumption; try lia]]]]]).

Lemma absR_step c X (o : decE X) w a : absR c w a ->
  match dec_h X o w, ah X o a with
  | HOk x1 t1, HOk x2 t2 => x1 = x2 /\ absR c t1 t2
  | HErr e1 t1, HErr e2 t2 => e1 = e2 /\ absR c t1 t2
  | HPanic w1 t1, HPanic w2 t2 => w1 = w2 /\ absR c t1 t2
  | _, _ => False
  end.
Proof.
  intros (Ht & Hr & Hw & Hs & Hi & Hp).
  destruct o as [cl upd|count| | |d|dist|b|len dist]; cbn [dec_h ah].
  - rewrite <- Ht. destruct (cell_get (d_tabs w) cl) as [prob|]; [|split; [reflexivity|absR_tac]].
    destruct (src_sim_src_run _ _ _ (sim_decode_bit (d_rc w) prob upd) Hs) as (s' & E & Hs' & Hr' & Hp').
    rewrite E, <- Hr, <- Hi, <- Hw. rewrite <- Hi in Hp.
    destruct (an_decode_bit (d_rc w) prob upd (s_rest (d_src w))) as [[[[b p'] r']|e|q] i]; cbn [fst snd] in *;
      (split; [reflexivity|]); rewrite <- Hr'; absR_tac.
  - destruct (src_sim_src_run _ _ _ (sim_get_loop (N.to_nat count) (d_rc w) 0) Hs) as (s' & E & Hs' & Hr' & Hp').
    unfold rc_get, an_get. rewrite E, <- Hr, <- Hi. rewrite <- Hi in Hp.
    destruct (an_get_loop (N.to_nat count) (d_rc w) 0 (s_rest (d_src w))) as [[[x r']|e|q] i]; cbn [fst snd lift_src] in *;
      (split; [reflexivity|]); rewrite <- Hr'; absR_tac.
  - destruct (src_sim_src_run _ _ _ (sim_finished_ok (d_rc w)) Hs) as (s' & E & Hs' & Hr' & Hp').
    rewrite E, <- Hr, <- Hi. rewrite <- Hi in Hp.
    destruct (an_finished_ok (d_rc w) (s_rest (d_src w))) as [[x|e|q] i]; cbn [fst snd] in *;
      (split; [reflexivity|]); rewrite <- Hr'; absR_tac.
  - rewrite Hw. split; [reflexivity|absR_tac].
  - rewrite <- Hw. destruct (win_last_or (d_win w) d) as [[x|e|q] v]; cbn [lift_win alift_win];
      (split; [reflexivity|absR_tac]).
  - rewrite <- Hw. destruct (win_last_n (d_win w) dist) as [[x|e|q] v]; cbn [lift_win alift_win];
      (split; [reflexivity|absR_tac]).
  - rewrite <- Hw. destruct (win_append_literal (d_win w) b) as [[x|e|q] v]; cbn [lift_win alift_win];
      (split; [reflexivity|absR_tac]).
  - rewrite <- Hw. destruct (win_append_lz (d_win w) len dist) as [[x|e|q] v]; cbn [lift_win alift_win];
      (split; [reflexivity|absR_tac]).
Qed.

Theorem dec_h_refines_ah c {A} (p : dprog A) w a : absR c w a ->
  fst (interp dec_h p w) = fst (interp ah p a) /\ absR c (snd (interp dec_h p w)) (snd (interp ah p a)).
Proof. apply (handler_refinement dec_h ah (absR c)). intros X o s1 s2. apply absR_step. Qed.
Print Assumptions dec_h_refines_ah.

(* ====================================================================== *)
(* Properties of the abstract handler                                       *)
(* ====================================================================== *)
Definition hst {X S} (r : hres X S) : S := match r with HOk _ s => s | HErr _ s => s | HPanic _ s => s end.

(* the input only shrinks: what is left is a suffix *)
Definition suffix_of (i' i : list N) : Prop := exists pre, i = pre ++ i'.
Lemma suffix_refl i : suffix_of i i. Proof. exists []. reflexivity. Qed.
Lemma suffix_trans i1 i2 i3 : suffix_of i1 i2 -> suffix_of i2 i3 -> suffix_of i1 i3.
Proof. intros [p1 ->] [p2 ->]. exists (p2 ++ p1). rewrite app_assoc. reflexivity. Qed.

Definition LMsuffix {A} (m : LM A) : Prop := forall i, suffix_of (snd (m i)) i.
Lemma LMsuffix_ret {A} (a : A) : LMsuffix (mret a). Proof. intros i. apply suffix_refl. Qed.
Lemma LMsuffix_panic {A} q : LMsuffix (@mpanic _ A q). Proof. intros i. apply suffix_refl. Qed.
Lemma LMsuffix_bind {A B} (m : LM A) (g : A -> LM B) : LMsuffix m -> (forall a, LMsuffix (g a)) -> LMsuffix (mbind m g).
Proof.
  intros Hm Hg i. unfold mbind. specialize (Hm i). destruct (m i) as [[a|e|q] i1]; cbn [snd] in *; try exact Hm.
  eapply suffix_trans; [apply Hg|exact Hm].
Qed.
Lemma LMsuffix_read : LMsuffix an_read.
Proof. intros [|b t]; cbn [an_read snd]; [apply suffix_refl|exists [b]; reflexivity]. Qed.
Lemma LMsuffix_normalize r : LMsuffix (an_normalize r).
Proof.
  unfold an_normalize. destruct (_ <? _); [|apply LMsuffix_ret].
  apply LMsuffix_bind; [apply LMsuffix_read|intros; apply LMsuffix_ret].
Qed.
Lemma LMsuffix_get_loop n : forall r result, LMsuffix (an_get_loop n r result).
Proof.
  induction n as [|n IH]; intros r result; cbn [an_get_loop]; [apply LMsuffix_ret|].
  apply LMsuffix_bind; [|intros; apply IH].
  unfold an_get_bit. cbv zeta. apply LMsuffix_bind; [apply LMsuffix_normalize|intros; apply LMsuffix_ret].
Qed.
Lemma LMsuffix_decode_bit r prob upd : LMsuffix (an_decode_bit r prob upd).
Proof.
  unfold an_decode_bit. cbv zeta.
  repeat match goal with |- LMsuffix (if ?c then _ else _) => destruct c end;
    try apply LMsuffix_panic; (apply LMsuffix_bind; [apply LMsuffix_normalize|intros; apply LMsuffix_ret]).
Qed.
Lemma LMsuffix_finished_ok r : LMsuffix (an_finished_ok r).
Proof. unfold an_finished_ok. destruct (_ =? _); [intros i; apply suffix_refl|apply LMsuffix_ret]. Qed.

Lemma ah_suffix X (o : decE X) w : suffix_of (a_in (hst (ah X o w))) (a_in w).
Proof.
  destruct o as [cl upd|count| | |d|dist|b|len dist]; cbn [ah].
  - destruct (cell_get (a_tabs w) cl) as [prob|]; [|apply suffix_refl].
    pose proof (LMsuffix_decode_bit (a_rc w) prob upd (a_in w)) as H.
    destruct (an_decode_bit (a_rc w) prob upd (a_in w)) as [[[[b p'] r']|e|q] i]; exact H.
  - pose proof (LMsuffix_get_loop (N.to_nat count) (a_rc w) 0 (a_in w)) as H. unfold an_get.
    destruct (an_get_loop (N.to_nat count) (a_rc w) 0 (a_in w)) as [[[x r']|e|q] i]; exact H.
  - pose proof (LMsuffix_finished_ok (a_rc w) (a_in w)) as H.
    destruct (an_finished_ok (a_rc w) (a_in w)) as [[x|e|q] i]; exact H.
  - apply suffix_refl.
  - destruct (win_last_or (a_win w) d) as [[x|e|q] v]; apply suffix_refl.
  - destruct (win_last_n (a_win w) dist) as [[x|e|q] v]; apply suffix_refl.
  - destruct (win_append_literal (a_win w) b) as [[x|e|q] v]; apply suffix_refl.
  - destruct (win_append_lz (a_win w) len dist) as [[x|e|q] v]; apply suffix_refl.
Qed.

Lemma interp_ah_suffix {A} (p : dprog A) : forall w, suffix_of (a_in (snd (interp ah p w))) (a_in w).
Proof.
  induction p as [a|e|q|X o k IH]; intros w; cbn [interp snd]; try apply suffix_refl.
  pose proof (ah_suffix X o w) as H.
  destruct (ah X o w) as [x w'|e w'|q w']; cbn [hst snd] in *; try exact H.
  eapply suffix_trans; [apply IH|exact H].
Qed.

(* the flags only go up *)
Definition flags_le (w w' : aw) : Prop :=
  (a_rf w = true -> a_rf w' = true) /\ (a_eo w = true -> a_eo w' = true).

Lemma ah_flags X (o : decE X) w : flags_le w (hst (ah X o w)).
Proof.
  unfold flags_le.
  destruct o as [cl upd|count| | |d|dist|b|len dist]; cbn [ah].
  - destruct (cell_get (a_tabs w) cl) as [prob|]; [|tauto].
    destruct (an_decode_bit (a_rc w) prob upd (a_in w)) as [[[[b p'] r']|e|q] i]; cbn [hst a_rf a_eo]; tauto.
  - destruct (an_get count (a_rc w) (a_in w)) as [[[x r']|e|q] i]; cbn [hst a_rf a_eo]; tauto.
  - destruct (an_finished_ok (a_rc w) (a_in w)) as [[x|e|q] i]; cbn [hst a_rf a_eo]; try tauto.
    split; [tauto|]. intros ->. reflexivity.
  - tauto.
  - destruct (win_last_or (a_win w) d) as [[x|e|q] v]; cbn [alift_win hst a_rf a_eo]; tauto.
  - destruct (win_last_n (a_win w) dist) as [[x|e|q] v]; cbn [alift_win hst a_rf a_eo]; tauto.
  - destruct (win_append_literal (a_win w) b) as [[x|e|q] v]; cbn [alift_win hst a_rf a_eo]; tauto.
  - destruct (win_append_lz (a_win w) len dist) as [[x|e|q] v]; cbn [alift_win hst a_rf a_eo]; tauto.
Qed.

Lemma interp_ah_flags {A} (p : dprog A) : forall w, flags_le w (snd (interp ah p w)).
Proof.
  induction p as [a|e|q|X o k IH]; intros w; cbn [interp snd]; try (split; tauto).
  pose proof (ah_flags X o w) as H.
  destruct (ah X o w) as [x w'|e w'|q w']; cbn [hst snd] in *; try exact H.
  specialize (IH x w'). unfold flags_le in *. tauto.
Qed.

(* ====================================================================== *)
(* L1: prefix stability                                                     *)
(* ====================================================================== *)
(* [ext more w1 w2]: same decoder objects, the second one has [more] appended to its input *)
Definition ext (more : list N) (w1 w2 : aw) : Prop :=
  a_tabs w2 = a_tabs w1 /\ a_rc w2 = a_rc w1 /\ a_win w2 = a_win w1 /\ a_in w2 = a_in w1 ++ more /\
  a_rf w2 = a_rf w1 /\ a_eo w2 = a_eo w1.

Lemma ext_refl_nil w : ext [] w w.
Proof. unfold ext. rewrite app_nil_r. repeat split. Qed.

(* list-level readers on an extended input *)
Definition LMext {A} (m : LM A) : Prop :=
  forall i more, match m i with
                 | (Failed e, i') => i' = [] /\ e = EIo   (* the only failure is the end of the input *)
                 | (r, i') => m (i ++ more) = (r, i' ++ more)
                 end.
Lemma LMext_ret {A} (a : A) : LMext (mret a). Proof. intros i more. reflexivity. Qed.
Lemma LMext_panic {A} q : LMext (@mpanic _ A q). Proof. intros i more. reflexivity. Qed.
Lemma LMext_bind {A B} (m : LM A) (g : A -> LM B) : LMext m -> (forall a, LMext (g a)) -> LMext (mbind m g).
Proof.
  intros Hm Hg i more. unfold mbind. specialize (Hm i more).
  destruct (m i) as [[a|e|q] i1].
  - rewrite Hm. apply Hg.
  - exact Hm.
  - rewrite Hm. reflexivity.
Qed.
Lemma LMext_read : LMext an_read.
Proof. intros [|b t] more; cbn [an_read app]; [split; reflexivity|reflexivity]. Qed.
Lemma LMext_normalize r : LMext (an_normalize r).
Proof.
  unfold an_normalize. destruct (_ <? _); [|apply LMext_ret].
  apply LMext_bind; [apply LMext_read|intros; apply LMext_ret].
Qed.
Lemma LMext_get_loop n : forall r result, LMext (an_get_loop n r result).
Proof.
  induction n as [|n IH]; intros r result; cbn [an_get_loop]; [apply LMext_ret|].
  apply LMext_bind; [|intros; apply IH].
  unfold an_get_bit. cbv zeta. apply LMext_bind; [apply LMext_normalize|intros; apply LMext_ret].
Qed.
Lemma LMext_decode_bit r prob upd : LMext (an_decode_bit r prob upd).
Proof.
  unfold an_decode_bit. cbv zeta.
  repeat match goal with |- LMext (if ?c then _ else _) => destruct c end;
    try apply LMext_panic; (apply LMext_bind; [apply LMext_normalize|intros; apply LMext_ret]).
Qed.

(* one operation: if no flag is up after it, the extended world answers alike *)
Lemma ext_step more X (o : decE X) w1 w2 : ext more w1 w2 ->
  a_rf (hst (ah X o w1)) = false -> a_eo (hst (ah X o w1)) = false ->
  match ah X o w1, ah X o w2 with
  | HOk x1 t1, HOk x2 t2 => x1 = x2 /\ ext more t1 t2
  | HErr e1 t1, HErr e2 t2 => e1 = e2 /\ ext more t1 t2
  | HPanic q1 t1, HPanic q2 t2 => q1 = q2 /\ ext more t1 t2
  | _, _ => False
  end.
Proof.
  intros (Ht & Hr & Hw & Hi & Hf & He) Hrf Heo.
  destruct o as [cl upd|count| | |d|dist|b|len dist]; cbn [ah] in *.
  - rewrite Ht. destruct (cell_get (a_tabs w1) cl) as [prob|]; [|split; [reflexivity|repeat split; assumption]].
    rewrite Hr, Hi, Hw, Hf, He. pose proof (LMext_decode_bit (a_rc w1) prob upd (a_in w1) more) as H.
    destruct (an_decode_bit (a_rc w1) prob upd (a_in w1)) as [[[[b p'] r']|e|q] i]; cbn [hst a_rf] in *.
    + rewrite H. split; [reflexivity|]. unfold ext; cbn [a_tabs a_rc a_in a_win a_rf a_eo]. repeat split.
    + discriminate.
    + rewrite H. split; [reflexivity|]. unfold ext; cbn [a_tabs a_rc a_in a_win a_rf a_eo]. repeat split.
  - rewrite Hr, Hi, Hw, Hf, He, Ht. unfold an_get in *.
    pose proof (LMext_get_loop (N.to_nat count) (a_rc w1) 0 (a_in w1) more) as H.
    destruct (an_get_loop (N.to_nat count) (a_rc w1) 0 (a_in w1)) as [[[x r']|e|q] i]; cbn [hst a_rf] in *.
    + rewrite H. split; [reflexivity|]. unfold ext; cbn [a_tabs a_rc a_in a_win a_rf a_eo]. repeat split.
    + discriminate.
    + rewrite H. split; [reflexivity|]. unfold ext; cbn [a_tabs a_rc a_in a_win a_rf a_eo]. repeat split.
  - rewrite Hr, Hi, Hw, Hf, He, Ht. unfold an_finished_ok, an_eof, mret in *.
    destruct (r_code (a_rc w1) =? 0); cbn [hst a_eo] in *.
    + destruct (a_in w1) as [|b0 t0] eqn:Ei; cbn [app].
      * rewrite orb_true_r in Heo. discriminate.
      * split; [reflexivity|]. unfold ext; cbn [a_tabs a_rc a_in a_win a_rf a_eo app]. repeat split.
    + split; [reflexivity|]. unfold ext; cbn [a_tabs a_rc a_in a_win a_rf a_eo]. repeat split.
  - rewrite Hw. split; [reflexivity|]. repeat split; assumption.
  - rewrite Hw. destruct (win_last_or (a_win w1) d) as [[x|e|q] v]; cbn [alift_win];
      (split; [reflexivity|]); unfold ext; cbn [a_tabs a_rc a_in a_win a_rf a_eo]; repeat split; assumption.
  - rewrite Hw. destruct (win_last_n (a_win w1) dist) as [[x|e|q] v]; cbn [alift_win];
      (split; [reflexivity|]); unfold ext; cbn [a_tabs a_rc a_in a_win a_rf a_eo]; repeat split; assumption.
  - rewrite Hw. destruct (win_append_literal (a_win w1) b) as [[x|e|q] v]; cbn [alift_win];
      (split; [reflexivity|]); unfold ext; cbn [a_tabs a_rc a_in a_win a_rf a_eo]; repeat split; assumption.
  - rewrite Hw. destruct (win_append_lz (a_win w1) len dist) as [[x|e|q] v]; cbn [alift_win];
      (split; [reflexivity|]); unfold ext; cbn [a_tabs a_rc a_in a_win a_rf a_eo]; repeat split; assumption.
Qed.

(* L1 on the abstract handler: a run that ends with both flags down never saw the end of its
   input; with more input appended it is the same run. *)
Theorem prefix_stable more {A} (p : dprog A) : forall w1 w2, ext more w1 w2 ->
  a_rf (snd (interp ah p w1)) = false -> a_eo (snd (interp ah p w1)) = false ->
  fst (interp ah p w2) = fst (interp ah p w1) /\ ext more (snd (interp ah p w1)) (snd (interp ah p w2)).
Proof.
  induction p as [a|e|q|X o k IH]; intros w1 w2 He Hrf Heo; cbn [interp fst snd] in *;
    try (split; [reflexivity|exact He]).
  assert (F : flags_le (hst (ah X o w1)) (snd (interp ah (Vis o k) w1))).
  { cbn [interp]. destruct (ah X o w1) as [x t|e t|q t]; cbn [hst snd]; [apply interp_ah_flags|split; tauto|split; tauto]. }
  cbn [interp] in F.
  assert (Hrf1 : a_rf (hst (ah X o w1)) = false).
  { destruct (ah X o w1) as [x t|e t|q t]; cbn [hst snd] in *; destruct F as [F _];
      (destruct (a_rf t); [specialize (F eq_refl); congruence|reflexivity]). }
  assert (Heo1 : a_eo (hst (ah X o w1)) = false).
  { destruct (ah X o w1) as [x t|e t|q t]; cbn [hst snd] in *; destruct F as [_ F];
      (destruct (a_eo t); [specialize (F eq_refl); congruence|reflexivity]). }
  pose proof (ext_step more X o w1 w2 He Hrf1 Heo1) as Hs.
  destruct (ah X o w1) as [x1 t1|e1 t1|q1 t1]; destruct (ah X o w2) as [x2 t2|e2 t2|q2 t2]; try contradiction;
    destruct Hs as [<- He']; cbn [fst snd] in *; try (split; [reflexivity|exact He']).
  apply IH; assumption.
Qed.
Print Assumptions prefix_stable.

(* ---------- when are the flags down? ---------- *)
(* a read at the end of the input ends the run with Failed EIo *)
Lemma rf_only_by_eio {A} (p : dprog A) : forall w, a_rf w = false ->
  a_rf (snd (interp ah p w)) = true -> fst (interp ah p w) = Failed EIo.
Proof.
  induction p as [a|e|q|X o k IH]; intros w H0 H1; cbn [interp fst snd] in *; try congruence.
  assert (S : match ah X o w with
              | HOk _ t => a_rf t = false
              | HErr e t => a_rf t = true -> e = EIo
              | HPanic _ t => a_rf t = false end).
  { destruct o as [cl upd|count| | |d|dist|b|len dist]; cbn [ah].
    - destruct (cell_get (a_tabs w) cl) as [prob|]; [|exact H0].
      pose proof (LMext_decode_bit (a_rc w) prob upd (a_in w) []) as H.
      destruct (an_decode_bit (a_rc w) prob upd (a_in w)) as [[[[b p'] r']|e|q] i]; cbn [a_rf]; try exact H0.
      intros _. apply H.
    - unfold an_get. pose proof (LMext_get_loop (N.to_nat count) (a_rc w) 0 (a_in w) []) as H.
      destruct (an_get_loop (N.to_nat count) (a_rc w) 0 (a_in w)) as [[[x r']|e|q] i]; cbn [a_rf]; try exact H0.
      intros _. apply H.
    - destruct (an_finished_ok (a_rc w) (a_in w)) as [[x|e|q] i]; cbn [a_rf]; try exact H0. congruence.
    - exact H0.
    - destruct (win_last_or (a_win w) d) as [[x|e|q] v]; cbn [alift_win a_rf]; try exact H0; congruence.
    - destruct (win_last_n (a_win w) dist) as [[x|e|q] v]; cbn [alift_win a_rf]; try exact H0; congruence.
    - destruct (win_append_literal (a_win w) b) as [[x|e|q] v]; cbn [alift_win a_rf]; try exact H0; congruence.
    - destruct (win_append_lz (a_win w) len dist) as [[x|e|q] v]; cbn [alift_win a_rf]; try exact H0; congruence. }
  destruct (ah X o w) as [x t|e t|q t]; cbn [fst snd] in *.
  - apply IH; assumption.
  - rewrite (S H1). reflexivity.
  - congruence.
Qed.

(* is_finished_ok can only have seen the end of the input if nothing is left *)
Lemma eo_needs_empty {A} (p : dprog A) : forall w, a_eo w = false ->
  a_eo (snd (interp ah p w)) = true -> a_in (snd (interp ah p w)) = [].
Proof.
  induction p as [a|e|q|X o k IH]; intros w H0 H1; cbn [interp fst snd] in *; try congruence.
  assert (S : a_eo (hst (ah X o w)) = true -> a_in (hst (ah X o w)) = []).
  { destruct o as [cl upd|count| | |d|dist|b|len dist]; cbn [ah].
    - destruct (cell_get (a_tabs w) cl) as [prob|]; [|cbn [hst]; congruence].
      destruct (an_decode_bit (a_rc w) prob upd (a_in w)) as [[[[b p'] r']|e|q] i]; cbn [hst a_eo]; congruence.
    - destruct (an_get count (a_rc w) (a_in w)) as [[[x r']|e|q] i]; cbn [hst a_eo]; congruence.
    - unfold an_finished_ok, an_eof, mret. destruct (r_code (a_rc w) =? 0).
      + destruct (a_in w); cbn [hst a_eo a_in]; [reflexivity|rewrite H0; discriminate].
      + cbn [hst a_eo a_in]. rewrite H0. discriminate.
    - cbn [hst]. congruence.
    - destruct (win_last_or (a_win w) d) as [[x|e|q] v]; cbn [alift_win hst a_eo]; congruence.
    - destruct (win_last_n (a_win w) dist) as [[x|e|q] v]; cbn [alift_win hst a_eo]; congruence.
    - destruct (win_append_literal (a_win w) b) as [[x|e|q] v]; cbn [alift_win hst a_eo]; congruence.
    - destruct (win_append_lz (a_win w) len dist) as [[x|e|q] v]; cbn [alift_win hst a_eo]; congruence. }
  destruct (ah X o w) as [x t|e t|q t]; cbn [hst fst snd] in *; try (apply S; exact H1).
  destruct (a_eo t) eqn:Et.
  - specialize (S eq_refl). pose proof (interp_ah_suffix (k x) t) as [pre Hp]. rewrite S in Hp.
    symmetry in Hp. apply app_eq_nil in Hp. apply Hp.
  - apply IH; assumption.
Qed.

(* ---------- L1 on the concrete handler, for Cursor sources ---------- *)
Definition abs_of (w : dw) : aw := mkAw (d_tabs w) (d_rc w) (s_rest (d_src w)) (d_win w) false false.

Lemma absR_abs_of w : FullVis (d_src w) -> absR (s_pos (d_src w) + nlen (s_rest (d_src w))) w (abs_of w).
Proof. intros H. unfold absR, abs_of. cbn [a_tabs a_rc a_in a_win]. repeat split; try reflexivity; apply H. Qed.

(* F1: a run of any decoder program on a Cursor over [bs] that neither ran out of input (Failed EIo)
   nor exhausted its input is the same run on a Cursor over [bs ++ more]: same outcome, same tables,
   registers and window, same number of bytes consumed. *)
Theorem dec_h_prefix_stable {A} (p : dprog A) t r v bs more :
  nlen (bs ++ more) <= BIG ->
  let w1 := mkDw t r (cursor_of bs) v in
  let w2 := mkDw t r (cursor_of (bs ++ more)) v in
  fst (interp dec_h p w1) <> Failed EIo ->
  s_rest (d_src (snd (interp dec_h p w1))) <> [] ->
  fst (interp dec_h p w2) = fst (interp dec_h p w1) /\
  d_tabs (snd (interp dec_h p w2)) = d_tabs (snd (interp dec_h p w1)) /\
  d_rc (snd (interp dec_h p w2)) = d_rc (snd (interp dec_h p w1)) /\
  d_win (snd (interp dec_h p w2)) = d_win (snd (interp dec_h p w1)) /\
  s_pos (d_src (snd (interp dec_h p w2))) = s_pos (d_src (snd (interp dec_h p w1))) /\
  s_rest (d_src (snd (interp dec_h p w2))) = s_rest (d_src (snd (interp dec_h p w1))) ++ more.
Proof.
  intros Hlen w1 w2 Hne Hrest.
  assert (Hl1 : nlen bs <= BIG) by (rewrite nlen_app in Hlen; lia).
  pose proof (dec_h_refines_ah _ p w1 (abs_of w1) (absR_abs_of w1 (cursor_FullVis bs Hl1))) as [F1 R1].
  pose proof (dec_h_refines_ah _ p w2 (abs_of w2) (absR_abs_of w2 (cursor_FullVis _ Hlen))) as [F2 R2].
  assert (Hrf : a_rf (snd (interp ah p (abs_of w1))) = false).
  { destruct (a_rf (snd (interp ah p (abs_of w1)))) eqn:E; [|reflexivity].
    exfalso. apply Hne. rewrite F1. apply rf_only_by_eio; [reflexivity|exact E]. }
  assert (Heo : a_eo (snd (interp ah p (abs_of w1))) = false).
  { destruct (a_eo (snd (interp ah p (abs_of w1)))) eqn:E; [|reflexivity].
    exfalso. apply Hrest. destruct R1 as (_ & _ & _ & _ & -> & _). apply eo_needs_empty; [reflexivity|exact E]. }
  assert (Hext : ext more (abs_of w1) (abs_of w2)) by (unfold ext, abs_of; cbn; repeat split).
  destruct (prefix_stable more p _ _ Hext Hrf Heo) as [F (T & R & W & I & _)].
  destruct R1 as (T1 & Rc1 & W1 & _ & I1 & P1). destruct R2 as (T2 & Rc2 & W2 & _ & I2 & P2).
  cbn [w1 w2 d_src cursor_of src_of s_pos s_rest] in P1, P2.
  split; [congruence|]. split; [congruence|]. split; [congruence|]. split; [congruence|].
  split; [|congruence].
  rewrite I, nlen_app in P2. rewrite nlen_app in P2. lia.
Qed.
Print Assumptions dec_h_prefix_stable.
