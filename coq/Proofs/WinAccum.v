(* The accumulating window (model of LzAccumBuffer, used by LZMA2) refines a plain
   history list.  [AInv pre a h]: the buffer holds exactly [h] (the bytes appended
   since the last reset, oldest first) and the sink holds [pre]. *)
From LZ Require Import Base.Prelude Base.Prog Model.Io Model.LzBuffer
  Proofs.ProgLemmas Proofs.MapLemmas Proofs.WinCirc.

(* the map agrees with the list on [0, nlen h) *)
Definition APt (m : nmap) (h : list N) : Prop :=
  forall i, i < nlen h -> nm_get m i 0 = nth (N.to_nat i) h 0.

Definition AInv (pre : list N) (a : accum) (h : list N) : Prop :=
  a_blen a = nlen h /\ a_len a = nlen h /\ APt (a_buf a) h /\
  snk_bytes (a_snk a) = pre /\ k_wfail (a_snk a) = None.

Lemma APt_nil m : APt m [].
Proof. intros i Hi. unfold nlen in Hi. cbn [length] in Hi. lia. Qed.

Lemma APt_snoc m h x : APt m h -> APt (nm_set m (nlen h) x) (h ++ [x]).
Proof.
  intros H i Hi. rewrite nlen_app1 in Hi. destruct (N.eq_dec i (nlen h)) as [->|Hne].
  - rewrite nm_gss. unfold nlen. rewrite Nat2N.id, app_nth2 by lia. rewrite Nat.sub_diag. reflexivity.
  - rewrite nm_gso by exact Hne. rewrite H by lia. symmetry. apply app_nth1. unfold nlen in *. lia.
Qed.

Lemma APt_app bs : forall m h, APt m h -> APt (map_append m (nlen h) bs) (h ++ bs).
Proof.
  induction bs as [|x t IH]; intros m h H; cbn [map_append].
  - rewrite app_nil_r. exact H.
  - replace (N.succ (nlen h)) with (nlen (h ++ [x])) by (rewrite nlen_app1; lia).
    replace (h ++ x :: t) with ((h ++ [x]) ++ t) by (rewrite <- app_assoc; reflexivity).
    apply IH. apply APt_snoc. exact H.
Qed.

Lemma APt_slice h : forall m, APt m h -> map_slice m 0 (nlen h) = h.
Proof.
  induction h as [|x h IH] using rev_ind; intros m H.
  - reflexivity.
  - rewrite nlen_app1, map_slice_succ. f_equal.
    + apply IH. intros i Hi. rewrite H by (rewrite nlen_app1; lia).
      apply app_nth1. unfold nlen in Hi. lia.
    + rewrite H by (rewrite nlen_app1; lia). unfold nlen. rewrite Nat2N.id, app_nth2 by lia.
      rewrite Nat.sub_diag. reflexivity.
Qed.

(* ---------- new ---------- *)
Theorem accum_new_inv k mem : k_wfail k = None -> AInv (snk_bytes k) (accum_new k mem) [].
Proof.
  intros Hw. unfold AInv, accum_new. cbn [a_buf a_blen a_mem a_len a_snk].
  split; [reflexivity|]. split; [reflexivity|]. split; [apply APt_nil|]. split; [reflexivity|exact Hw].
Qed.
Print Assumptions accum_new_inv.

(* ---------- append_literal ---------- *)
Theorem accum_append_literal_spec pre a h lit : AInv pre a h ->
  if nlen h + 1 <=? a_mem a
  then exists a', accum_append_literal a lit = (Done tt, a') /\ AInv pre a' (h ++ [lit]) /\ a_mem a' = a_mem a
  else accum_append_literal a lit = (Failed ELzma, a).
Proof.
  intros (Hbl & Hlen & Hpt & Hsnk & Hwf). unfold accum_append_literal. rewrite Hlen.
  destruct (N.leb_spec (nlen h + 1) (a_mem a)) as [Hm|Hm].
  - destruct (N.ltb_spec (a_mem a) (nlen h + 1)); [lia|].
    eexists. split; [reflexivity|]. split; [|reflexivity].
    unfold AInv. cbn [a_buf a_blen a_mem a_len a_snk]. rewrite nlen_app1, Hbl.
    split; [reflexivity|]. split; [reflexivity|]. split; [apply APt_snoc; exact Hpt|]. split; assumption.
  - destruct (N.ltb_spec (a_mem a) (nlen h + 1)); [reflexivity|lia].
Qed.
Print Assumptions accum_append_literal_spec.

(* ---------- append_bytes (uncompressed LZMA2 chunks) ---------- *)
Theorem accum_append_bytes_spec pre a h bs : AInv pre a h -> AInv pre (accum_append_bytes a bs) (h ++ bs).
Proof.
  intros (Hbl & Hlen & Hpt & Hsnk & Hwf). unfold AInv, accum_append_bytes.
  cbn [a_buf a_blen a_mem a_len a_snk].
  assert (Hn : nlen (h ++ bs) = nlen h + nlen bs) by (unfold nlen; rewrite app_length; lia).
  rewrite Hn, Hbl, Hlen.
  split; [reflexivity|]. split; [reflexivity|]. split; [apply APt_app; exact Hpt|]. split; assumption.
Qed.
Print Assumptions accum_append_bytes_spec.

(* ---------- append_lz ---------- *)
Lemma accum_lz_loop_spec n : forall m h dist, APt m h -> 1 <= dist <= nlen h ->
  let r := accum_lz_loop n m (nlen h) (nlen h - dist) in
  snd r = nlen (lz_copy n h dist) /\ APt (fst r) (lz_copy n h dist).
Proof.
  induction n as [|n IH]; intros m h dist Hpt Hd; cbn zeta; cbn [accum_lz_loop lz_copy].
  - cbn [fst snd]. split; [reflexivity|exact Hpt].
  - rewrite Hpt by lia.
    replace (N.to_nat (nlen h - dist)) with (length h - N.to_nat dist)%nat by (unfold nlen in *; lia).
    set (x := nth (length h - N.to_nat dist) h 0).
    replace (nlen h + 1) with (nlen (h ++ [x])) by apply nlen_app1.
    replace (nlen h - dist + 1) with (nlen (h ++ [x]) - dist) by (rewrite nlen_app1; lia).
    apply IH; [apply APt_snoc; exact Hpt|rewrite nlen_app1; lia].
Qed.

Lemma nlen_lz_copy n h dist : nlen (lz_copy n h dist) = nlen h + N.of_nat n.
Proof. unfold nlen. rewrite lz_copy_length. lia. Qed.

Theorem accum_append_lz_spec pre a h len dist : AInv pre a h -> 1 <= dist ->
  if dist <=? nlen h
  then exists a', accum_append_lz a len dist = (Done tt, a') /\
                  AInv pre a' (lz_copy (N.to_nat len) h dist) /\ a_mem a' = a_mem a
  else accum_append_lz a len dist = (Failed ELzma, a).
Proof.
  intros (Hbl & Hlen & Hpt & Hsnk & Hwf) H1. unfold accum_append_lz. rewrite Hbl.
  destruct (N.leb_spec dist (nlen h)) as [H2|H2].
  - destruct (N.ltb_spec (nlen h) dist); [lia|].
    destruct (N.eqb_spec dist 0); [lia|]. cbn [andb].
    pose proof (accum_lz_loop_spec (N.to_nat len) (a_buf a) h dist Hpt (conj H1 H2)) as Hl.
    cbn zeta in Hl.
    destruct (accum_lz_loop (N.to_nat len) (a_buf a) (nlen h) (nlen h - dist)) as [m bl].
    cbn [fst snd] in Hl. destruct Hl as [Hl1 Hl2].
    eexists. split; [reflexivity|]. split; [|reflexivity].
    unfold AInv. cbn [a_buf a_blen a_mem a_len a_snk].
    split; [exact Hl1|]. split; [rewrite nlen_lz_copy, Hlen; lia|]. split; [exact Hl2|]. split; assumption.
  - destruct (N.ltb_spec (nlen h) dist); [reflexivity|lia].
Qed.
Print Assumptions accum_append_lz_spec.

(* distance 0 (never produced by the decoder: dist = rep0 + 1): the Rust code indexes buf[buf.len()] *)
Lemma accum_append_lz_dist0 a len : 0 < len -> accum_append_lz a len 0 = (Panicked (PIndex 11), a).
Proof.
  intros Hl. unfold accum_append_lz.
  destruct (N.ltb_spec (a_blen a) 0); [lia|].
  destruct (N.ltb_spec 0 len); [|lia]. reflexivity.
Qed.

(* ---------- last_n / last_or ---------- *)
Theorem accum_last_n_spec pre a h dist : AInv pre a h -> 1 <= dist ->
  accum_last_n a dist =
  if dist <=? nlen h then (Done (nth (length h - N.to_nat dist) h 0), a) else (Failed ELzma, a).
Proof.
  intros (Hbl & Hlen & Hpt & Hsnk & Hwf) H1. unfold accum_last_n. rewrite Hbl.
  destruct (N.leb_spec dist (nlen h)) as [H2|H2].
  - destruct (N.ltb_spec (nlen h) dist); [lia|].
    destruct (N.eqb_spec dist 0); [lia|].
    rewrite Hpt by lia.
    replace (N.to_nat (nlen h - dist)) with (length h - N.to_nat dist)%nat by (unfold nlen in *; lia).
    reflexivity.
  - destruct (N.ltb_spec (nlen h) dist); [reflexivity|lia].
Qed.
Print Assumptions accum_last_n_spec.

Theorem accum_last_or_spec pre a h d : AInv pre a h -> accum_last_or a d = (Done (last h d), a).
Proof.
  intros (Hbl & Hlen & Hpt & Hsnk & Hwf). unfold accum_last_or. rewrite Hbl. destruct h as [|x t].
  - reflexivity.
  - assert (HL : 1 <= nlen (x :: t)) by (unfold nlen; cbn [length]; lia).
    destruct (N.eqb_spec (nlen (x :: t)) 0); [lia|].
    rewrite Hpt by lia.
    replace (N.to_nat (nlen (x :: t) - 1)) with (length (x :: t) - N.to_nat 1)%nat by (unfold nlen in *; lia).
    rewrite (nth_last_eq (x :: t) d) by discriminate. reflexivity.
Qed.
Print Assumptions accum_last_or_spec.

(* ---------- reset / finish ---------- *)
Theorem accum_reset_spec pre a h : AInv pre a h ->
  exists a', accum_reset a = (Done tt, a') /\ AInv (pre ++ h) a' [] /\ a_mem a' = a_mem a /\
             k_ffail (a_snk a') = k_ffail (a_snk a) /\ k_flushes (a_snk a') = k_flushes (a_snk a).
Proof.
  intros (Hbl & Hlen & Hpt & Hsnk & Hwf). unfold accum_reset. rewrite Hbl, (APt_slice h _ Hpt).
  destruct (snk_run_write_all h (a_snk a) Hwf) as (k' & E & Hb & Hw' & Hff & Hfl & _).
  rewrite E. eexists. split; [reflexivity|]. cbn [a_mem a_snk].
  split; [|split; [reflexivity|split; assumption]].
  unfold AInv. cbn [a_buf a_blen a_mem a_len a_snk].
  split; [reflexivity|]. split; [reflexivity|]. split; [apply APt_nil|]. split; [|exact Hw'].
  rewrite Hb, Hsnk. reflexivity.
Qed.
Print Assumptions accum_reset_spec.

Theorem accum_finish_spec pre a h : AInv pre a h -> k_ffail (a_snk a) = false ->
  exists k, accum_finish a = (Done tt, k) /\ snk_bytes k = pre ++ h /\
            k_flushes k = k_flushes (a_snk a) + 1.
Proof.
  intros (Hbl & Hlen & Hpt & Hsnk & Hwf) Hff.
  unfold accum_finish, snk_run, run_io. rewrite interp_bind. rewrite Hbl, (APt_slice h _ Hpt).
  unfold write_all.
  destruct (write_all_loop_ok (length h) h (mkIo (cursor_of []) (a_snk a)) (le_n _) Hwf)
    as (k' & E & Hb & Hw' & Hff' & Hfl' & _).
  rewrite E. rewrite interp_call. cbn [io_h i_snk i_src]. unfold snk_flush.
  cbn [i_snk] in Hb, Hff', Hfl'. rewrite Hff', Hff.
  eexists. split; [reflexivity|]. cbn [k_flushes k_out i_snk]. split; [|rewrite Hfl'; reflexivity].
  unfold snk_bytes. cbn [k_out i_snk]. fold (snk_bytes k'). rewrite Hb, Hsnk. reflexivity.
Qed.
Print Assumptions accum_finish_spec.

(* the accumulating buffer enforces its limit on literals only *)
Theorem accum_len_eq pre a h : AInv pre a h -> a_len a = a_blen a.
Proof. intros (Hbl & Hlen & _). congruence. Qed.
