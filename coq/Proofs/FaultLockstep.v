(* C12, part 2 (goal b): a run with injected faults proceeds in lock step with the
   fault-free run until the first fault is hit; from then on the faulty run has
   failed with Failed EIo and its sink is frozen, while the fault-free sink only grows.
   Hence the bytes accepted by a faulty sink are a prefix of the fault-free output. *)
From LZ Require Import Base.Prelude Base.Prog Model.Io Model.Tables Model.LzBuffer Model.RangeDec
  Model.Lzma Model.Lzma2 Model.Xz Model.Enc Proofs.ProgLemmas Proofs.IoLemmas Proofs.FaultProp Proofs.FaultTheorems.

(* ---------- clearing the fault switches ---------- *)
Definition clrS (s : src) : src := mkSrc (s_rest s) (s_pos s) (s_avail s) (s_refills s) (s_frag s) None (s_limit s).
Definition clrK (k : snk) : snk := mkSnk (k_out k) (k_count k) (k_calls k) (k_accept k) None (k_flushes k) false.
Definition clrIo (w : io) : io := mkIo (clrS (i_src w)) (clrK (i_snk w)).

Definition okS (s : src) : Prop := src_hit s = false.
Definition okK (k : snk) : Prop := snk_hit k = false.
Definition Qk (k1 k2 : snk) : Prop := exists t, snk_bytes k2 = snk_bytes k1 ++ t.

Lemma Qk_refl k : Qk k k.
Proof. exists []. rewrite app_nil_r. reflexivity. Qed.
Lemma Qk_clr k : Qk k (clrK k).
Proof. exists []. rewrite app_nil_r. reflexivity. Qed.
Lemma Qk_grow k1 k2 : Qk k1 k2 <-> PkGrow (snk_bytes k1) KDone k2.
Proof. reflexivity. Qed.

Definition hout {X S} (r : hres X S) : outcome X * S :=
  match r with HOk x s => (Done x, s) | HErr e s => (Failed e, s) | HPanic p s => (Panicked p, s) end.

(* ---------- the generic statement ---------- *)
Section Gen.
Variable S : Type.
Variable clr : S -> S.
Variable ok : S -> Prop.
Variable Q : S -> S -> Prop.

(* x1: the run with faults, x2: the run without.  Either both are still in lock step,
   or the faulty run has failed with an I/O error and its (frozen) state is related by Q to
   the state of the other run - unless that one has panicked: the state the model returns
   with a panic is not meaningful (pm_body returns the window of the previous iteration
   at its unreachable POverflow 40). *)
Definition Sim2 {A} (x1 x2 : outcome A * S) : Prop :=
  (fst x2 = fst x1 /\ snd x2 = clr (snd x1) /\ ok (snd x1)) \/
  (fst x1 = Failed EIo /\ (Q (snd x1) (snd x2) \/ exists p, fst x2 = Panicked p)).

Lemma interp_sim {E : Type -> Type} {A} (h : handler E S)
  (Hstep : forall X (o : E X) s, ok s -> Sim2 (hout (h X o s)) (hout (h X o (clr s))))
  (Hgrow : forall X (o : E X) t1 s2, Q t1 s2 -> Q t1 (snd (hout (h X o s2)))) :
  forall (p : prog E A) s, ok s -> Sim2 (interp h p s) (interp h p (clr s)).
Proof.
  induction p as [a|e|q|X o k IH]; intros s Hs; cbn [interp];
    try (left; cbn [fst snd]; repeat split; auto; fail).
  specialize (Hstep X o s Hs).
  assert (G : forall t1 x2 t2, Q t1 t2 -> Q t1 (snd (interp h (k x2) t2))).
  { intros t1 x2 t2 HQ. apply (interp_inv h (Q t1)); [|exact HQ].
    intros X' o' s' Hs'. specialize (Hgrow X' o' t1 s' Hs'). destruct (h X' o' s'); exact Hgrow. }
  destruct (h X o s) as [x1 t1|e1 t1|q1 t1]; destruct (h X o (clr s)) as [x2 t2|e2 t2|q2 t2]; cbn [hout] in Hstep;
    destruct Hstep as [(E1 & E2 & E3)|(E1 & E2)]; cbn [fst snd] in *; try discriminate.
  all: inversion E1; subst.
  - apply IH. exact E3.
  - right. cbn [fst snd]. split; [reflexivity|]. destruct E2 as [E2|[p E2]]; [|discriminate]. left. apply G. exact E2.
  - left. cbn [fst snd]. auto.
  - right. cbn [fst snd]. split; [reflexivity|]. destruct E2 as [E2|[p E2]]; [left; exact E2|discriminate].
  - right. cbn [fst snd]. split; [reflexivity|]. right. eexists; reflexivity.
  - left. cbn [fst snd]. auto.
Qed.

(* loops: the faulty run may break (with a failure) while the other one goes on *)
Lemma iter_step_sim2 {R1} (b : S -> step S R1) (Rr : R1 -> R1 -> Prop) (D : R1 -> S -> Prop)
  (Hb : forall s, ok s ->
     match b s, b (clr s) with
     | Next t1, Next t2 => t2 = clr t1 /\ ok t1
     | Break r1, Break r2 => Rr r1 r2
     | Break r1, Next t2 => D r1 t2
     | Next _, Break _ => False
     end)
  (Hd : forall r1 s2, D r1 s2 -> match b s2 with Next t2 => D r1 t2 | Break r2 => Rr r1 r2 end) :
  forall n s, ok s ->
     match iter_step n b s, iter_step n b (clr s) with
     | Next t1, Next t2 => t2 = clr t1 /\ ok t1
     | Break r1, Break r2 => Rr r1 r2
     | Break r1, Next t2 => D r1 t2
     | Next _, Break _ => False
     end.
Proof.
  assert (HD : forall n r1 s2, D r1 s2 -> match iter_step n b s2 with Next t2 => D r1 t2 | Break r2 => Rr r1 r2 end).
  { induction n as [|n IH]; intros r1 s2 H; cbn [iter_step]; [exact H|].
    specialize (Hd r1 s2 H). destruct (b s2) as [t2|r2]; [apply IH; exact Hd|exact Hd]. }
  induction n as [|n IH]; intros s Hs; cbn [iter_step]; [auto|].
  specialize (Hb s Hs). destruct (b s) as [t1|r1]; destruct (b (clr s)) as [t2|r2]; try contradiction.
  - destruct Hb as [-> Hok]. apply IH. exact Hok.
  - apply HD. exact Hb.
  - exact Hb.
Qed.

Lemma loopN_sim2 {R1} (b : S -> step S R1) (Rr : R1 -> R1 -> Prop) (D : R1 -> S -> Prop)
  (Hb : forall s, ok s ->
     match b s, b (clr s) with
     | Next t1, Next t2 => t2 = clr t1 /\ ok t1
     | Break r1, Break r2 => Rr r1 r2
     | Break r1, Next t2 => D r1 t2
     | Next _, Break _ => False
     end)
  (Hd : forall r1 s2, D r1 s2 -> match b s2 with Next t2 => D r1 t2 | Break r2 => Rr r1 r2 end) :
  forall p s, ok s ->
     match loopN p b s, loopN p b (clr s) with
     | Next t1, Next t2 => t2 = clr t1 /\ ok t1
     | Break r1, Break r2 => Rr r1 r2
     | Break r1, Next t2 => D r1 t2
     | Next _, Break _ => False
     end.
Proof. intros p s Hs. rewrite !loopN_iter. apply iter_step_sim2; assumption. Qed.
End Gen.

Arguments Sim2 {S} clr ok Q {A} x1 x2.

(* unpack a Sim2 hypothesis about two destructed runs *)
Ltac sim_cases H :=
  let Ea := fresh "Ea" in
  destruct H as [(Ea & ?E2 & ?E3)|(Ea & ?E2)]; cbn [fst snd] in *; try discriminate Ea;
  try (inversion Ea; subst); try clear Ea.
(* conclude with the "diverged" disjunct; [tac] proves the Q part from the Q part in the context *)
Ltac div_fin tac :=
  right; cbn [fst snd]; split; [first [reflexivity|assumption]|];
  match goal with
  | E : _ \/ (exists p, _ = Panicked p) |- _ =>
      destruct E as [E|[?p E]]; [left; tac E|first [discriminate E|right; eexists; first [reflexivity|exact E]]]
  end.

(* ---------- the primitive operations ---------- *)
Lemma src_fill_sim s : okS s ->
  Sim2 clrS okS (fun _ _ => True) (hout (src_fill s)) (hout (src_fill (clrS s))).
Proof.
  unfold okS, src_hit. intros H.
  assert (G : forall (L : option N) (lim : N -> N), Sim2 clrS okS (fun _ _ => True)
    (hout (if 0 <? s_avail s then HOk (s_rest s, lim (s_avail s)) s
      else match s_rest s with
      | [] => HOk ([], 0) s
      | _ =>
        if (match s_fail s with Some k => k =? s_refills s | None => false end)
        then HErr EIo (mkSrc (s_rest s) (s_pos s) 0 (s_refills s + 1) (s_frag s) (s_fail s) L)
        else HOk (s_rest s, lim (nmin_len (N.max 1 (s_frag s (s_refills s))) (s_rest s)))
               (mkSrc (s_rest s) (s_pos s) (nmin_len (N.max 1 (s_frag s (s_refills s))) (s_rest s))
                      (s_refills s + 1) (s_frag s) (s_fail s) L)
      end))
    (hout (if 0 <? s_avail s then HOk (s_rest s, lim (s_avail s)) (clrS s)
      else match s_rest s with
      | [] => HOk ([], 0) (clrS s)
      | _ => HOk (s_rest s, lim (nmin_len (N.max 1 (s_frag s (s_refills s))) (s_rest s)))
               (mkSrc (s_rest s) (s_pos s) (nmin_len (N.max 1 (s_frag s (s_refills s))) (s_rest s))
                      (s_refills s + 1) (s_frag s) None L)
      end))).
  { intros L lim. destruct (0 <? s_avail s); [left; cbn [hout fst snd]; auto|].
    destruct (s_rest s) as [|b t]; [left; cbn [hout fst snd]; auto|].
    destruct (s_fail s) as [j|] eqn:Ej.
    - destruct (N.eqb_spec j (s_refills s)); [right; cbn [hout fst snd]; auto|].
      left. cbn [hout fst snd]. repeat split. unfold okS, src_hit. cbn [s_fail s_refills].
      apply N.ltb_ge. apply N.ltb_ge in H. lia.
    - left. cbn [hout fst snd]. repeat split. }
  unfold src_fill, limited. cbv zeta. cbn [clrS s_limit s_avail s_rest s_fail s_refills s_frag s_pos].
  destruct (s_limit s) as [[|p]|].
  - left. cbn [hout fst snd]. repeat split. exact H.
  - apply (G (Some (N.pos p)) (fun n => N.min (N.pos p) n)).
  - apply (G None (fun n => n)).
Qed.

Lemma snk_write_sim k bs : okK k ->
  Sim2 clrK okK Qk (hout (snk_write k bs)) (hout (snk_write (clrK k) bs)).
Proof.
  unfold okK, snk_hit, snk_write. intros H. cbn [clrK k_wfail k_calls k_accept k_out k_count k_flushes k_ffail].
  destruct (k_wfail k) as [j|] eqn:Ej.
  - destruct (N.eqb_spec j (k_calls k)).
    + right. cbv zeta. cbn [hout fst snd]. split; [reflexivity|]. left.
      unfold Qk, snk_bytes. cbn [k_out]. rewrite lrev_rev_append. eexists; reflexivity.
    + left. cbv zeta. cbn [hout fst snd]. repeat split. unfold okK, snk_hit. cbn [k_wfail k_calls]. rewrite ?Ej.
      apply N.ltb_ge. apply N.ltb_ge in H. lia.
  - left. cbv zeta. cbn [hout fst snd]. repeat split; try (unfold okK, snk_hit; cbn [k_wfail]; rewrite ?Ej; reflexivity).
Qed.

Lemma snk_flush_sim k : okK k ->
  Sim2 clrK okK Qk (hout (snk_flush k)) (hout (snk_flush (clrK k))).
Proof.
  unfold snk_flush. intros H. cbn [clrK k_ffail k_out k_count k_calls k_accept k_wfail k_flushes].
  destruct (k_ffail k).
  - right. cbn [hout fst snd]. split; [reflexivity|]. left. exists []. rewrite app_nil_r. reflexivity.
  - left. cbn [hout fst snd]. repeat split. exact H.
Qed.

Lemma snk_write_grow k0 k bs : Qk k0 k -> Qk k0 (snd (hout (snk_write k bs))).
Proof.
  intros H. pose proof (PkGrow_write (snk_bytes k0) k bs H) as G.
  destruct (snk_write k bs); exact G.
Qed.
Lemma snk_flush_grow k0 k : Qk k0 k -> Qk k0 (snd (hout (snk_flush k))).
Proof.
  intros H. pose proof (PkGrow_flush (snk_bytes k0) k H) as G.
  destruct (snk_flush k); exact G.
Qed.

(* ---------- worlds: arbitrary programs ---------- *)
Definition okIo (w : io) : Prop := okS (i_src w) /\ okK (i_snk w).
Definition QIo (w1 w2 : io) : Prop := Qk (i_snk w1) (i_snk w2).

Lemma io_h_sim X (o : ioE X) w : okIo w ->
  Sim2 clrIo okIo QIo (hout (io_h X o w)) (hout (io_h X o (clrIo w))).
Proof.
  intros [Hs Hk]. destruct o; cbn [io_h clrIo i_src i_snk].
  - pose proof (src_fill_sim (i_src w) Hs) as H.
    destruct (src_fill (i_src w)) as [x1 t1|e1 t1|q1 t1]; destruct (src_fill (clrS (i_src w))) as [x2 t2|e2 t2|q2 t2];
      destruct H as [(E1 & E2 & E3)|(E1 & E2)]; cbn [hout fst snd] in *; try discriminate;
      try (left; cbn [fst snd]; subst; inversion E1; subst; repeat split; assumption);
      div_fin ltac:(fun _ => apply Qk_clr).
  - left. cbn [hout fst snd]. repeat split; assumption.
  - pose proof (snk_write_sim (i_snk w) bs Hk) as H.
    destruct (snk_write (i_snk w) bs) as [x1 t1|e1 t1|q1 t1]; destruct (snk_write (clrK (i_snk w)) bs) as [x2 t2|e2 t2|q2 t2];
      destruct H as [(E1 & E2 & E3)|(E1 & E2)]; cbn [hout fst snd] in *; try discriminate;
      try (left; cbn [fst snd]; subst; inversion E1; subst; repeat split; assumption);
      div_fin ltac:(fun E => exact E).
  - pose proof (snk_flush_sim (i_snk w) Hk) as H.
    destruct (snk_flush (i_snk w)) as [x1 t1|e1 t1|q1 t1]; destruct (snk_flush (clrK (i_snk w))) as [x2 t2|e2 t2|q2 t2];
      destruct H as [(E1 & E2 & E3)|(E1 & E2)]; cbn [hout fst snd] in *; try discriminate;
      try (left; cbn [fst snd]; subst; inversion E1; subst; repeat split; assumption);
      div_fin ltac:(fun E => exact E).
  - left. cbn [hout fst snd]. repeat split; assumption.
  - left. cbn [hout fst snd]. repeat split; assumption.
Qed.

Lemma io_h_grow X (o : ioE X) t1 w2 : QIo t1 w2 -> QIo t1 (snd (hout (io_h X o w2))).
Proof.
  unfold QIo. intros H. destruct o; cbn [io_h]; try exact H.
  - destruct (src_fill (i_src w2)); exact H.
  - pose proof (snk_write_grow (i_snk t1) (i_snk w2) bs H) as G. destruct (snk_write (i_snk w2) bs); exact G.
  - pose proof (snk_flush_grow (i_snk t1) (i_snk w2) H) as G. destruct (snk_flush (i_snk w2)); exact G.
Qed.

Theorem run_io_sim {A} (p : iop A) w : okIo w ->
  Sim2 clrIo okIo QIo (run_io p w) (run_io p (clrIo w)).
Proof. unfold run_io. apply interp_sim; [apply io_h_sim|apply io_h_grow]. Qed.

Lemma run_io_grow {A} (p : iop A) t1 w2 : QIo t1 w2 -> QIo t1 (snd (run_io p w2)).
Proof.
  intros H. unfold run_io. apply (interp_inv io_h (QIo t1)); [|exact H].
  intros X o s Hs. pose proof (io_h_grow X o t1 s Hs) as G. destruct (io_h X o s); exact G.
Qed.


(* ---------- programs that touch only one end ---------- *)
Lemma src_run_sim {A} (p : iop A) s : okS s ->
  Sim2 clrS okS (fun _ _ => True) (src_run p s) (src_run p (clrS s)).
Proof.
  intros Hs. pose proof (run_io_sim p (mkIo s vec_sink) (conj Hs eq_refl)) as H.
  change (clrIo (mkIo s vec_sink)) with (mkIo (clrS s) vec_sink) in H. unfold src_run.
  destruct (run_io p (mkIo s vec_sink)) as [r1 w1]. destruct (run_io p (mkIo (clrS s) vec_sink)) as [r2 w2].
  sim_cases H.
  - left. cbn [fst snd]. subst. destruct E3. auto.
  - div_fin ltac:(fun _ => exact I).
Qed.

Lemma snk_run_sim {A} (p : iop A) k : okK k ->
  Sim2 clrK okK Qk (snk_run p k) (snk_run p (clrK k)).
Proof.
  intros Hk. pose proof (run_io_sim p (mkIo (cursor_of []) k) (conj eq_refl Hk)) as H.
  change (clrIo (mkIo (cursor_of []) k)) with (mkIo (cursor_of []) (clrK k)) in H. unfold snk_run.
  destruct (run_io p (mkIo (cursor_of []) k)) as [r1 w1]. destruct (run_io p (mkIo (cursor_of []) (clrK k))) as [r2 w2].
  sim_cases H.
  - left. cbn [fst snd]. subst. destruct E3. auto.
  - div_fin ltac:(fun E => exact E).
Qed.

Lemma snk_run_grow {A} (p : iop A) k0 k : Qk k0 k -> Qk k0 (snd (snk_run p k)).
Proof.
  intros H. pose proof (run_io_grow p (mkIo (cursor_of []) k0) (mkIo (cursor_of []) k) H) as G.
  unfold snk_run. destruct (run_io p _) as [r w]. exact G.
Qed.

(* ---------- LzCircularBuffer ---------- *)
Definition clrC (c : circ) : circ :=
  mkCirc (c_buf c) (c_blen c) (c_dict c) (c_mem c) (c_cursor c) (c_len c) (clrK (c_snk c)).
Definition okC (c : circ) : Prop := okK (c_snk c).
Definition QC (c1 c2 : circ) : Prop := Qk (c_snk c1) (c_snk c2).

Lemma circ_set_clr b i v : circ_set (clrC b) i v = (fst (circ_set b i v), clrC (snd (circ_set b i v))).
Proof.
  unfold circ_set. cbn [clrC c_blen c_mem c_buf c_dict c_cursor c_len c_snk].
  destruct (_ <? _); [destruct (_ <=? _)|]; reflexivity.
Qed.

Lemma circ_append_literal_sim b lit : okC b ->
  Sim2 clrC okC QC (circ_append_literal b lit) (circ_append_literal (clrC b) lit).
Proof.
  intros Hk. unfold circ_append_literal. rewrite circ_set_clr. cbn [clrC c_cursor].
  pose proof (circ_set_snk b (c_cursor b) lit) as Es.
  destruct (circ_set b (c_cursor b) lit) as [[u|e|q] b1]; cbn [fst snd] in *;
    try (left; cbn [fst snd]; repeat split; unfold okC; rewrite Es; exact Hk).
  cbn [clrC c_cursor c_dict c_len c_buf c_blen c_mem c_snk].
  destruct (_ =? _).
  - assert (Hk1 : okK (c_snk b1)) by (rewrite Es; exact Hk).
    pose proof (snk_run_sim (write_all (map_slice (c_buf b1) 0 (c_blen b1))) (c_snk b1) Hk1) as H.
    destruct (snk_run _ (c_snk b1)) as [[u1|e1|q1] k1]; destruct (snk_run _ (clrK (c_snk b1))) as [[u2|e2|q2] k2];
      sim_cases H; try (inversion E1; subst);
      try (left; cbn [fst snd]; repeat split; exact E3);
      div_fin ltac:(fun E => exact E).
  - left. cbn [fst snd]. repeat split. unfold okC. cbn [c_snk]. rewrite Es. exact Hk.
Qed.

Lemma circ_append_literal_grow k0 b lit : Qk k0 (c_snk b) -> Qk k0 (c_snk (snd (circ_append_literal b lit))).
Proof. apply (circ_append_literal_inv (PkGrow (snk_bytes k0)) (fun _ _ H => H) (PkGrow_write _)). Qed.
Lemma circ_lz_loop_grow k0 n b o : Qk k0 (c_snk b) -> Qk k0 (c_snk (snd (circ_lz_loop n b o))).
Proof. apply (circ_lz_loop_inv (PkGrow (snk_bytes k0)) (fun _ _ H => H) (PkGrow_write _)). Qed.

Lemma circ_lz_loop_sim n : forall b offset, okC b ->
  Sim2 clrC okC QC (circ_lz_loop n b offset) (circ_lz_loop n (clrC b) offset).
Proof.
  induction n as [|n IH]; intros b offset Hk; cbn [circ_lz_loop].
  - left. cbn [fst snd]. auto.
  - change (circ_get (clrC b) offset) with (circ_get b offset).
    pose proof (circ_append_literal_sim b (circ_get b offset) Hk) as H.
    destruct (circ_append_literal b (circ_get b offset)) as [[u1|e1|q1] b1];
      destruct (circ_append_literal (clrC b) (circ_get b offset)) as [[u2|e2|q2] b2];
      sim_cases H; try (inversion E1; subst);
      try (left; cbn [fst snd]; repeat split; exact E3);
      try (div_fin ltac:(fun E => exact E)).
    + change (c_dict (clrC b1)) with (c_dict b1). apply IH. exact E3.
    + div_fin ltac:(fun E => apply circ_lz_loop_grow; exact E).
Qed.

Lemma circ_append_lz_sim b len dist : okC b ->
  Sim2 clrC okC QC (circ_append_lz b len dist) (circ_append_lz (clrC b) len dist).
Proof.
  intros Hk. unfold circ_append_lz. cbn [clrC c_dict c_len c_cursor].
  destruct (_ <? _); [left; cbn [fst snd]; auto|].
  destruct (_ <? _); [left; cbn [fst snd]; auto|].
  destruct (_ =? _); [left; cbn [fst snd]; auto|].
  apply circ_lz_loop_sim. exact Hk.
Qed.

Lemma circ_finish_sim c : okC c ->
  Sim2 clrK okK Qk (circ_finish c) (circ_finish (clrC c)).
Proof. intros Hk. unfold circ_finish. cbn [clrC c_cursor c_buf c_snk]. apply snk_run_sim. exact Hk. Qed.

(* ---------- LzAccumBuffer ---------- *)
Definition clrA (a : accum) : accum := mkAccum (a_buf a) (a_blen a) (a_mem a) (a_len a) (clrK (a_snk a)).
Definition okA (a : accum) : Prop := okK (a_snk a).
Definition QA (a1 a2 : accum) : Prop := Qk (a_snk a1) (a_snk a2).

Lemma accum_reset_sim a : okA a -> Sim2 clrA okA QA (accum_reset a) (accum_reset (clrA a)).
Proof.
  intros Hk. unfold accum_reset. cbn [clrA a_buf a_blen a_mem a_len a_snk].
  pose proof (snk_run_sim (write_all (map_slice (a_buf a) 0 (a_blen a))) (a_snk a) Hk) as H.
  destruct (snk_run _ (a_snk a)) as [[u1|e1|q1] k1]; destruct (snk_run _ (clrK (a_snk a))) as [[u2|e2|q2] k2];
    sim_cases H; try (inversion E1; subst);
    try (left; cbn [fst snd]; repeat split; exact E3);
    div_fin ltac:(fun E => exact E).
Qed.

Lemma accum_finish_sim a : okA a -> Sim2 clrK okK Qk (accum_finish a) (accum_finish (clrA a)).
Proof. intros Hk. unfold accum_finish. cbn [clrA a_buf a_blen a_snk]. apply snk_run_sim. exact Hk. Qed.

(* ---------- the window ---------- *)
Definition clrW (w : win) : win := match w with WCirc c => WCirc (clrC c) | WAccum a => WAccum (clrA a) end.
Definition okW (w : win) : Prop := okK (win_snk w).
Definition QW (w1 w2 : win) : Prop := Qk (win_snk w1) (win_snk w2).

Lemma win_snk_clr w : win_snk (clrW w) = clrK (win_snk w).
Proof. destruct w; reflexivity. Qed.
Lemma win_len_clr w : win_len (clrW w) = win_len w.
Proof. destruct w; reflexivity. Qed.

Lemma lift_c_sim {A} (x1 x2 : outcome A * circ) :
  Sim2 clrC okC QC x1 x2 -> Sim2 clrW okW QW (lift_c x1) (lift_c x2).
Proof.
  intros H. destruct x1 as [r1 c1], x2 as [r2 c2]. unfold lift_c. sim_cases H.
  - left. cbn [fst snd]. subst. auto.
  - div_fin ltac:(fun E => exact E).
Qed.

(* operations that do not touch the sink commute with clearing *)
Definition Pure {A} (x1 x2 : outcome A * win) : Prop := x2 = (fst x1, clrW (snd x1)).

Lemma pure_sim {A} (x1 x2 : outcome A * win) w : Pure x1 x2 -> win_snk (snd x1) = win_snk w -> okW w ->
  Sim2 clrW okW QW x1 x2.
Proof. intros -> E H. left. cbn [fst snd]. repeat split. unfold okW. rewrite E. exact H. Qed.

Lemma win_last_or_pure w d : Pure (win_last_or w d) (win_last_or (clrW w) d).
Proof.
  destruct w as [c|a]; unfold Pure; cbn [win_last_or clrW lift_c lift_a fst snd].
  - unfold circ_last_or. cbn [clrC c_len c_dict c_cursor]. change (circ_get (clrC c)) with (circ_get c).
    destruct (_ =? _); [|destruct (_ =? _)]; reflexivity.
  - unfold accum_last_or. cbn [clrA a_blen a_buf]. destruct (_ =? _); reflexivity.
Qed.
Lemma win_last_n_pure w d : Pure (win_last_n w d) (win_last_n (clrW w) d).
Proof.
  destruct w as [c|a]; unfold Pure; cbn [win_last_n clrW lift_c lift_a fst snd].
  - unfold circ_last_n. cbn [clrC c_len c_dict c_cursor]. change (circ_get (clrC c)) with (circ_get c).
    destruct (_ <? _); [|destruct (_ <? _); [|destruct (_ =? _)]]; reflexivity.
  - unfold accum_last_n. cbn [clrA a_blen a_buf]. destruct (_ <? _); [|destruct (_ =? _)]; reflexivity.
Qed.
Lemma accum_append_literal_pure a b :
  lift_a (accum_append_literal (clrA a) b) = (fst (lift_a (accum_append_literal a b)), clrW (snd (lift_a (accum_append_literal a b)))).
Proof.
  unfold accum_append_literal, lift_a. cbn [clrA a_len a_mem a_buf a_blen a_snk]. destruct (_ <? _); reflexivity.
Qed.
Lemma accum_append_lz_pure a len dist :
  lift_a (accum_append_lz (clrA a) len dist) = (fst (lift_a (accum_append_lz a len dist)), clrW (snd (lift_a (accum_append_lz a len dist)))).
Proof.
  unfold accum_append_lz, lift_a. cbn [clrA a_len a_mem a_buf a_blen a_snk].
  destruct (_ <? _); [reflexivity|]. destruct (_ && _); [reflexivity|]. destruct (accum_lz_loop _ _ _ _). reflexivity.
Qed.

Lemma win_last_or_sim w d : okW w -> Sim2 clrW okW QW (win_last_or w d) (win_last_or (clrW w) d).
Proof. intros H. eapply pure_sim; [apply win_last_or_pure|apply win_last_or_snk|exact H]. Qed.
Lemma win_last_n_sim w d : okW w -> Sim2 clrW okW QW (win_last_n w d) (win_last_n (clrW w) d).
Proof. intros H. eapply pure_sim; [apply win_last_n_pure|apply win_last_n_snk|exact H]. Qed.

Lemma win_append_literal_sim w b : okW w ->
  Sim2 clrW okW QW (win_append_literal w b) (win_append_literal (clrW w) b).
Proof.
  destruct w as [c|a]; cbn [win_append_literal clrW]; intros H.
  - apply lift_c_sim. apply circ_append_literal_sim. exact H.
  - eapply pure_sim; [apply accum_append_literal_pure| |exact H].
    unfold lift_a. cbn [snd win_snk]. apply accum_append_literal_snk.
Qed.
Lemma win_append_lz_sim w len dist : okW w ->
  Sim2 clrW okW QW (win_append_lz w len dist) (win_append_lz (clrW w) len dist).
Proof.
  destruct w as [c|a]; cbn [win_append_lz clrW]; intros H.
  - apply lift_c_sim. apply circ_append_lz_sim. exact H.
  - eapply pure_sim; [apply accum_append_lz_pure| |exact H].
    unfold lift_a. cbn [snd win_snk]. apply accum_append_lz_snk.
Qed.

(* ---------- the symbol decoder's handler ---------- *)
Definition clrD (w : dw) : dw := mkDw (d_tabs w) (d_rc w) (clrS (d_src w)) (clrW (d_win w)).
Definition okD (w : dw) : Prop := okS (d_src w) /\ okW (d_win w).
Definition QD (w1 w2 : dw) : Prop := QW (d_win w1) (d_win w2).

Lemma QW_clr w : QW w (clrW w).
Proof. unfold QW. rewrite win_snk_clr. apply Qk_clr. Qed.

Lemma lift_win_sim {X} w (x1 x2 : outcome X * win) : okS (d_src w) ->
  Sim2 clrW okW QW x1 x2 -> Sim2 clrD okD QD (hout (lift_win w x1)) (hout (lift_win (clrD w) x2)).
Proof.
  intros Hs H. destruct x1 as [[a1|e1|q1] v1]; destruct x2 as [[a2|e2|q2] v2]; sim_cases H;
    try (inversion E1; subst);
    try (left; cbn [lift_win hout fst snd clrD d_tabs d_rc d_src d_win]; repeat split; assumption);
    cbn [lift_win hout]; div_fin ltac:(fun E => exact E).
Qed.

Lemma dec_h_sim X (o : decE X) w : okD w ->
  Sim2 clrD okD QD (hout (dec_h X o w)) (hout (dec_h X o (clrD w))).
Proof.
  intros [Hs Hk]. destruct o; cbn [dec_h clrD d_tabs d_rc d_src d_win].
  - destruct (cell_get (d_tabs w) c) as [prob|]; [|left; cbn [hout fst snd]; repeat split; assumption].
    pose proof (src_run_sim (rc_decode_bit (d_rc w) prob upd) (d_src w) Hs) as H.
    destruct (src_run _ (d_src w)) as [[[[b1 p1] r1]|e1|q1] s1];
      destruct (src_run _ (clrS (d_src w))) as [[[[b2 p2] r2]|e2|q2] s2];
      sim_cases H; try (inversion E1; subst);
      try (left; cbn [hout fst snd clrD d_tabs d_rc d_src d_win]; repeat split; assumption);
      cbn [hout]; div_fin ltac:(fun _ => apply QW_clr).
  - pose proof (src_run_sim (rc_get count (d_rc w)) (d_src w) Hs) as H.
    destruct (src_run _ (d_src w)) as [[[x1 r1]|e1|q1] s1];
      destruct (src_run _ (clrS (d_src w))) as [[[x2 r2]|e2|q2] s2];
      sim_cases H; try (inversion E1; subst);
      try (left; cbn [lift_src hout fst snd clrD d_tabs d_rc d_src d_win]; repeat split; assumption);
      cbn [lift_src hout]; div_fin ltac:(fun _ => apply QW_clr).
  - pose proof (src_run_sim (rc_is_finished_ok (d_rc w)) (d_src w) Hs) as H.
    destruct (src_run _ (d_src w)) as [[x1|e1|q1] s1];
      destruct (src_run _ (clrS (d_src w))) as [[x2|e2|q2] s2];
      sim_cases H; try (inversion E1; subst);
      try (left; cbn [hout fst snd clrD d_tabs d_rc d_src d_win]; repeat split; assumption);
      cbn [hout]; div_fin ltac:(fun _ => apply QW_clr).
  - left. cbn [hout fst snd]. rewrite win_len_clr. repeat split; assumption.
  - apply (lift_win_sim w _ _ Hs). apply win_last_or_sim. exact Hk.
  - apply (lift_win_sim w _ _ Hs). apply win_last_n_sim. exact Hk.
  - apply (lift_win_sim w _ _ Hs). apply win_append_literal_sim. exact Hk.
  - apply (lift_win_sim w _ _ Hs). apply win_append_lz_sim. exact Hk.
Qed.

Lemma dec_h_grow X (o : decE X) t1 w2 : QD t1 w2 -> QD t1 (snd (hout (dec_h X o w2))).
Proof.
  intros H.
  pose proof (dec_h_snk (PkGrow (snk_bytes (win_snk (d_win t1)))) (fun _ _ H => H) (PkGrow_write _) X o w2 H) as G.
  destruct (dec_h X o w2); exact G.
Qed.

Lemma interp_dec_sim {A} (p : dprog A) w : okD w ->
  Sim2 clrD okD QD (interp dec_h p w) (interp dec_h p (clrD w)).
Proof. apply interp_sim; [apply dec_h_sim|apply dec_h_grow]. Qed.

(* ---------- the window never changes its kind (needed for LZMA2, which takes the
   accumulator back out of the window after process_mode) ---------- *)
Definition wkind (w : win) : bool := match w with WCirc _ => true | WAccum _ => false end.

Lemma lift_win_kind {X} w (r : outcome X * win) :
  wkind (snd r) = wkind (d_win w) -> wkind (d_win (snd (hout (lift_win w r)))) = wkind (d_win w).
Proof. destruct r as [[x|e|q] v]; cbn [lift_win hout snd d_win]; auto. Qed.

Lemma dec_h_kind X (o : decE X) w : wkind (d_win (snd (hout (dec_h X o w)))) = wkind (d_win w).
Proof.
  destruct o; cbn [dec_h].
  - destruct (cell_get (d_tabs w) c); [|reflexivity].
    destruct (src_run _ _) as [[[[b p'] r']|e|q] s]; reflexivity.
  - destruct (src_run _ _) as [[[x r']|e|q] s]; reflexivity.
  - destruct (src_run _ _) as [[x|e|q] s]; reflexivity.
  - reflexivity.
  - apply lift_win_kind. destruct (d_win w); reflexivity.
  - apply lift_win_kind. destruct (d_win w); reflexivity.
  - apply lift_win_kind. destruct (d_win w); reflexivity.
  - apply lift_win_kind. destruct (d_win w); reflexivity.
Qed.

Lemma run_sym_kind upd w : wkind (l_win (snd (run_sym upd w))) = wkind (l_win w).
Proof.
  unfold run_sym.
  assert (HH : forall X (o : decE X) s, wkind (d_win s) = wkind (l_win w) ->
            match dec_h X o s with
            | HOk _ s' => wkind (d_win s') = wkind (l_win w)
            | HErr _ s' => wkind (d_win s') = wkind (l_win w)
            | HPanic _ s' => wkind (d_win s') = wkind (l_win w) end).
  { intros X o s Hs. pose proof (dec_h_kind X o s) as G. rewrite Hs in G. destruct (dec_h X o s); exact G. }
  match goal with |- context [interp dec_h ?p ?d0] =>
    pose proof (interp_inv dec_h (fun x => wkind (d_win x) = wkind (l_win w)) HH p d0 eq_refl) as H end.
  destruct (interp dec_h _ _) as [[[st y]|e|q] x]; exact H.
Qed.

Lemma read_partial_input_buf_win w : l_win (snd (read_partial_input_buf w)) = l_win w.
Proof.
  unfold read_partial_input_buf. destruct (_ <? _); [reflexivity|].
  destruct (src_run _ _) as [[g|e|q] s]; reflexivity.
Qed.

Lemma pm_head_win mode w : l_win (snd (pm_head mode w)) = l_win w.
Proof.
  unfold pm_head. destruct (ds_unpacked (l_ds w)); [reflexivity|]. destruct mode.
  - destruct (src_run _ _) as [[x|e|q] s]; reflexivity.
  - destruct (_ =? _); [|reflexivity]. destruct (src_run _ _) as [[x|e|q] s]; reflexivity.
Qed.

Definition KindPost (b : bool) (x : step lw pm_result) : Prop :=
  match x with Next w' => wkind (l_win w') = b | Break (_, w') => wkind (l_win w') = b end.

Lemma pm_tail_kind mode w1 : KindPost (wkind (l_win w1)) (pm_tail mode w1).
Proof.
  unfold pm_tail. destruct (0 <? _).
  - pose proof (read_partial_input_buf_win w1) as E.
    destruct (read_partial_input_buf w1) as [[u|e|q] w2]; cbn [snd KindPost] in *; try (rewrite E; reflexivity).
    cbv zeta. rewrite <- E.
    assert (TAIL : KindPost (wkind (l_win w2))
      (match run_sym true (mkLw (l_ds w2) (l_rc w2) (cursor_of (ds_pib (l_ds w2))) (l_win w2)) with
          | (Failed e, t) => Break (Failed e, mkLw (l_ds t) (l_rc w2) (l_src w2) (l_win t))
          | (Panicked p, t) => Break (Panicked p, mkLw (l_ds t) (l_rc w2) (l_src w2) (l_win t))
          | (Done res, t) =>
            if nlen (ds_pib (l_ds w2)) <? s_pos (l_src t) then Break (Panicked (POverflow 40), w2) else
            match res with
            | Finished => Break (Done tt, mkLw (set_pib (l_ds t) (nskipn (s_pos (l_src t)) (ds_pib (l_ds w2)))) (l_rc t) (l_src w2) (l_win t))
            | Continue => Next (mkLw (set_pib (l_ds t) (nskipn (s_pos (l_src t)) (ds_pib (l_ds w2)))) (l_rc t) (l_src w2) (l_win t))
            end
          end)).
    { pose proof (run_sym_kind true (mkLw (l_ds w2) (l_rc w2) (cursor_of (ds_pib (l_ds w2))) (l_win w2))) as K.
      cbn [l_win] in K.
      destruct (run_sym true _) as [[res|e|q] t]; cbn [snd KindPost l_win] in *; try exact K.
      destruct (_ <? _); [reflexivity|]. destruct res; exact K. }
    destruct mode; [|exact TAIL].
    destruct (_ <? _); [|exact TAIL].
    destruct (try_process_next w2 _) as [[|]|e|q]; cbn [KindPost]; try exact TAIL; reflexivity.
  - destruct (src_run _ _) as [[buf|e|q] s]; cbn [KindPost l_win]; try reflexivity.
    cbv zeta.
    assert (TAIL : KindPost (wkind (l_win w1))
      (match run_sym true (mkLw (l_ds w1) (l_rc w1) s (l_win w1)) with
          | (Failed e, w3) => Break (Failed e, w3)
          | (Panicked p, w3) => Break (Panicked p, w3)
          | (Done Finished, w3) => Break (Done tt, w3)
          | (Done Continue, w3) => Next w3
          end)).
    { pose proof (run_sym_kind true (mkLw (l_ds w1) (l_rc w1) s (l_win w1))) as K. cbn [l_win] in K.
      destruct (run_sym true _) as [[[|]|e|q] w3]; cbn [snd KindPost] in *; exact K. }
    destruct mode; [|exact TAIL].
    destruct (_ <? _); [|exact TAIL].
    destruct (try_process_next _ _) as [[|]|e|q]; cbn [KindPost l_win]; try exact TAIL; try reflexivity.
    pose proof (read_partial_input_buf_win (mkLw (l_ds w1) (l_rc w1) s (l_win w1))) as E.
    destruct (read_partial_input_buf _) as [r4 w4]. cbn [snd l_win] in E. rewrite E. reflexivity.
Qed.

Lemma pm_body_kind mode w : KindPost (wkind (l_win w)) (pm_body mode w).
Proof.
  rewrite pm_body_split. pose proof (pm_head_win mode w) as E.
  destruct (pm_head mode w) as [[[|]|e|q] w1]; cbn [snd KindPost] in *; try (rewrite E; reflexivity).
  rewrite <- E. apply pm_tail_kind.
Qed.

Lemma process_mode_kind mode fuel w : wkind (l_win (snd (process_mode mode fuel w))) = wkind (l_win w).
Proof.
  unfold process_mode.
  pose proof (loopN_cond_inv (pm_body mode) (fun s => wkind (l_win s) = wkind (l_win w))
                (fun r => wkind (l_win (snd r)) = wkind (l_win w))) as LI.
  assert (Hb : forall s, wkind (l_win s) = wkind (l_win w) ->
            match pm_body mode s with Next s' => wkind (l_win s') = wkind (l_win w)
                                 | Break r => wkind (l_win (snd r)) = wkind (l_win w) end).
  { intros s Hs. pose proof (pm_body_kind mode s) as H. rewrite Hs in H.
    destruct (pm_body mode s) as [s'|[r s']]; exact H. }
  specialize (LI Hb fuel w eq_refl).
  destruct (loopN fuel (pm_body mode) w) as [w'|[[u|e|q] w']]; cbn [snd] in *; try exact LI.
  destruct (ds_unpacked (l_ds w')); [|exact LI].
  destruct mode; [exact LI|]. destruct (_ =? _); exact LI.
Qed.

(* ---------- process_mode (Finish mode: the one-shot entry points) ---------- *)
Definition clrL (w : lw) : lw := mkLw (l_ds w) (l_rc w) (clrS (l_src w)) (clrW (l_win w)).
Definition okL (w : lw) : Prop := okS (l_src w) /\ okW (l_win w).
Definition QL (w1 w2 : lw) : Prop := QW (l_win w1) (l_win w2).

Lemma run_sym_sim upd w : okL w -> Sim2 clrL okL QL (run_sym upd w) (run_sym upd (clrL w)).
Proof.
  intros Hw. unfold run_sym. cbn [clrL l_ds l_rc l_src l_win].
  match goal with |- context [interp dec_h ?p (mkDw ?a ?b (clrS ?c) (clrW ?d))] =>
    pose proof (interp_dec_sim p (mkDw a b c d) Hw) as H;
    change (clrD (mkDw a b c d)) with (mkDw a b (clrS c) (clrW d)) in H;
    destruct (interp dec_h p (mkDw a b c d)) as [[[st1 y1]|e1|q1] x1];
    destruct (interp dec_h p (mkDw a b (clrS c) (clrW d))) as [[[st2 y2]|e2|q2] x2]
  end; sim_cases H; try (inversion E1; subst);
    try (left; cbn [fst snd clrD clrL d_tabs d_rc d_src d_win l_ds l_rc l_src l_win]; repeat split; apply E3);
    div_fin ltac:(fun E => exact E).
Qed.

Lemma run_sym_grow k0 upd w : Qk k0 (win_snk (l_win w)) -> Qk k0 (win_snk (l_win (snd (run_sym upd w)))).
Proof. apply (run_sym_snk (PkGrow (snk_bytes k0)) (fun _ _ H => H) (PkGrow_write _)). Qed.

Lemma read_partial_input_buf_sim w : okL w ->
  Sim2 clrL okL QL (read_partial_input_buf w) (read_partial_input_buf (clrL w)).
Proof.
  intros [Hs Hk]. unfold read_partial_input_buf. cbn [clrL l_ds l_rc l_src l_win].
  destruct (_ <? _); [left; cbn [fst snd]; repeat split; assumption|].
  pose proof (src_run_sim (read_buf (MAX_REQUIRED_INPUT - nlen (ds_pib (l_ds w)))) (l_src w) Hs) as H.
  destruct (src_run _ (l_src w)) as [[g1|e1|q1] s1]; destruct (src_run _ (clrS (l_src w))) as [[g2|e2|q2] s2];
    sim_cases H; try (inversion E1; subst);
    try (left; cbn [fst snd clrL l_ds l_rc l_src l_win]; repeat split; assumption);
    div_fin ltac:(fun _ => apply QW_clr).
Qed.

Definition trivP : ocls -> src -> Prop := fun _ _ => True.
Lemma trivP_any b s : trivP KDone s -> trivP b s. Proof. exact (fun H => H). Qed.
Lemma trivP_fill s : trivP KDone s ->
  match src_fill s with HOk _ s' => trivP KDone s' | HErr e s' => trivP (KFail e) s' | HPanic _ s' => trivP KPanic s' end.
Proof. intros _. destruct (src_fill s); exact I. Qed.
Lemma trivP_consume s n : trivP KDone s -> trivP KDone (src_consume s n). Proof. exact (fun H => H). Qed.
Lemma trivP_limit b s l : trivP b s -> trivP b (set_limit s l). Proof. exact (fun H => H). Qed.

Lemma pm_tail_grow k0 mode w : Qk k0 (win_snk (l_win w)) ->
  match pm_tail mode w with
  | Next w' => Qk k0 (win_snk (l_win w')) | Break r => Qk k0 (win_snk (l_win (snd r)))
  end.
Proof.
  intros H.
  pose proof (pm_tail_inv trivP (PkGrow (snk_bytes k0)) trivP_any (fun _ _ H => H) trivP_fill trivP_consume (PkGrow_write _)
                mode w (conj I H)) as G.
  destruct (pm_tail mode w) as [w'|[r w']]; exact (proj2 G).
Qed.

Lemma pm_body_grow k0 mode w : Qk k0 (win_snk (l_win w)) ->
  match pm_body mode w with
  | Next w' => Qk k0 (win_snk (l_win w')) | Break r => Qk k0 (win_snk (l_win (snd r)))
  end.
Proof.
  intros H.
  pose proof (pm_body_inv trivP (PkGrow (snk_bytes k0)) trivP_any (fun _ _ H => H) trivP_fill trivP_consume (PkGrow_write _)
                mode w (conj I H)) as G.
  destruct (pm_body mode w) as [w'|[r w']]; exact (proj2 G).
Qed.

Lemma process_mode_grow k0 mode fuel w : Qk k0 (win_snk (l_win w)) ->
  Qk k0 (win_snk (l_win (snd (process_mode mode fuel w)))).
Proof.
  intros H.
  exact (proj2 (process_mode_inv trivP (PkGrow (snk_bytes k0)) trivP_any (fun _ _ H => H) trivP_fill trivP_consume (PkGrow_write _)
                  mode fuel w (conj I H))).
Qed.

Definition StepSim (x1 x2 : step lw pm_result) : Prop :=
  match x1, x2 with
  | Next t1, Next t2 => t2 = clrL t1 /\ okL t1
  | Break r1, Break r2 => Sim2 clrL okL QL r1 r2
  | Break r1, Next t2 => fst r1 = Failed EIo /\ QL (snd r1) t2
  | Next _, Break _ => False
  end.

Lemma step_div r1 x2 : fst r1 = Failed EIo ->
  match x2 with Next t2 => QL (snd r1) t2 | Break r2 => QL (snd r1) (snd r2) end ->
  StepSim (Break r1) x2.
Proof.
  intros E H. destruct x2 as [t2|r2]; cbn [StepSim]; [auto|]. right. auto.
Qed.

Lemma pm_head_sim w : okL w -> Sim2 clrL okL QL (pm_head FinishMode w) (pm_head FinishMode (clrL w)).
Proof.
  intros [Hs Hk]. unfold pm_head. cbn [clrL l_ds l_rc l_src l_win]. rewrite win_len_clr.
  destruct (ds_unpacked (l_ds w)); [left; cbn [fst snd]; repeat split; assumption|].
  destruct (_ =? _); [|left; cbn [fst snd]; repeat split; assumption].
  pose proof (src_run_sim (rc_is_finished_ok (l_rc w)) (l_src w) Hs) as H.
  destruct (src_run _ (l_src w)) as [[g1|e1|q1] s1]; destruct (src_run _ (clrS (l_src w))) as [[g2|e2|q2] s2];
    sim_cases H; try (inversion E1; subst);
    try (left; cbn [fst snd clrL l_ds l_rc l_src l_win]; repeat split; assumption);
    div_fin ltac:(fun _ => apply QW_clr).
Qed.

Ltac lock_fin :=
  left; cbn [fst snd clrL clrD l_ds l_rc l_src l_win d_tabs d_rc d_src d_win]; repeat split;
  first [assumption
        |match goal with E : okL _ |- _ => apply E end
        |match goal with E : okD _ |- _ => apply E end].

Lemma pm_tail_sim w1 : okL w1 -> StepSim (pm_tail FinishMode w1) (pm_tail FinishMode (clrL w1)).
Proof.
  intros Hw. unfold pm_tail. change (l_ds (clrL w1)) with (l_ds w1). destruct (0 <? _).
  - pose proof (read_partial_input_buf_sim w1 Hw) as H.
    destruct (read_partial_input_buf w1) as [[u1|e1|q1] w2]; destruct (read_partial_input_buf (clrL w1)) as [[u2|e2|q2] w2'];
      sim_cases H; cbn [StepSim]; try lock_fin; try (div_fin ltac:(fun E => exact E)).
    + (* both went on: the scratch run on the partial input buffer *)
      cbv zeta. cbn [clrL l_ds l_rc l_src l_win]. destruct E3 as [Hs2 Hk2].
      pose proof (run_sym_sim true (mkLw (l_ds w2) (l_rc w2) (cursor_of (ds_pib (l_ds w2))) (l_win w2)) (conj eq_refl Hk2)) as H.
      change (clrL (mkLw (l_ds w2) (l_rc w2) (cursor_of (ds_pib (l_ds w2))) (l_win w2)))
        with (mkLw (l_ds w2) (l_rc w2) (cursor_of (ds_pib (l_ds w2))) (clrW (l_win w2))) in H.
      destruct (run_sym true (mkLw (l_ds w2) (l_rc w2) (cursor_of (ds_pib (l_ds w2))) (l_win w2))) as [[res1|e1|q1] t1];
        destruct (run_sym true (mkLw (l_ds w2) (l_rc w2) (cursor_of (ds_pib (l_ds w2))) (clrW (l_win w2)))) as [[res2|e2|q2] t2];
        sim_cases H; cbn [StepSim clrL l_ds l_rc l_src l_win]; try lock_fin; try (div_fin ltac:(fun E => exact E)).
      * destruct (_ <? _); [lock_fin|].
        destruct res1; cbn [StepSim]; [|lock_fin].
        repeat split; first [assumption|match goal with E : okL _ |- _ => apply E end].
      * (* the faulty run failed in the scratch run *)
        destruct E2 as [E2|[p E2]]; [|discriminate].
        destruct (_ <? _); [right; cbn [fst snd]; split; [reflexivity|right; eexists; reflexivity]|].
        destruct res2; cbn [StepSim fst snd]; [split; [reflexivity|exact E2]|].
        right. cbn [fst snd]. split; [reflexivity|left; exact E2].
    + (* the source failed while refilling the partial input buffer; the other run goes on *)
      destruct E2 as [E2|[p E2]]; [|discriminate].
      cbv zeta. apply step_div; [reflexivity|]. cbn [snd].
      pose proof (run_sym_grow (win_snk (l_win w2)) true
                    (mkLw (l_ds w2') (l_rc w2') (cursor_of (ds_pib (l_ds w2'))) (l_win w2')) E2) as G.
      destruct (run_sym true _) as [[res|e|q] t2]; cbn [snd l_win] in *; try exact G.
      destruct (_ <? _); [exact E2|]. destruct res; exact G.
  - destruct Hw as [Hs Hk]. change (l_src (clrL w1)) with (clrS (l_src w1)).
    pose proof (src_run_sim (icall FillBuf) (l_src w1) Hs) as H.
    destruct (src_run _ (l_src w1)) as [[buf1|e1|q1] s1]; destruct (src_run _ (clrS (l_src w1))) as [[buf2|e2|q2] s2];
      sim_cases H; cbn [StepSim clrL l_ds l_rc l_src l_win]; try lock_fin; try (div_fin ltac:(fun _ => apply QW_clr)).
    + cbv zeta.
      pose proof (run_sym_sim true (mkLw (l_ds w1) (l_rc w1) s1 (l_win w1)) (conj E3 Hk)) as H.
      change (clrL (mkLw (l_ds w1) (l_rc w1) s1 (l_win w1))) with (mkLw (l_ds w1) (l_rc w1) (clrS s1) (clrW (l_win w1))) in H.
      destruct (run_sym true (mkLw (l_ds w1) (l_rc w1) s1 (l_win w1))) as [[[|]|e1|q1] t1];
        destruct (run_sym true (mkLw (l_ds w1) (l_rc w1) (clrS s1) (clrW (l_win w1)))) as [[[|]|e2|q2] t2];
        sim_cases H; cbn [StepSim]; try lock_fin; try (div_fin ltac:(fun E => exact E)).
      * repeat split; match goal with E : okL _ |- _ => apply E end.
      * destruct E2 as [E2|[p E2]]; [|discriminate]. split; [reflexivity|exact E2].
    + (* the source failed at fill_buf; the other run goes on with the symbol *)
      cbv zeta. apply step_div; [reflexivity|]. cbn [snd].
      pose proof (run_sym_grow (win_snk (l_win w1)) true (mkLw (l_ds w1) (l_rc w1) s2 (clrW (l_win w1)))) as G.
      cbn [l_win] in G. specialize (G (QW_clr _)).
      destruct (run_sym true _) as [[[|]|e|q] t2]; cbn [snd] in *; exact G.
Qed.

Lemma pm_body_sim w : okL w -> StepSim (pm_body FinishMode w) (pm_body FinishMode (clrL w)).
Proof.
  intros Hw. rewrite !pm_body_split.
  pose proof (pm_head_sim w Hw) as H.
  destruct (pm_head FinishMode w) as [[[|]|e1|q1] w1]; destruct (pm_head FinishMode (clrL w)) as [[[|]|e2|q2] w1'];
    sim_cases H; cbn [StepSim]; try lock_fin; try (div_fin ltac:(fun E => exact E)).
  - apply pm_tail_sim. assumption.
  - destruct E2 as [E2|[p E2]]; [|discriminate].
    apply step_div; [reflexivity|]. cbn [snd]. apply pm_tail_grow. exact E2.
Qed.

Lemma process_mode_sim fuel w : okL w ->
  Sim2 clrL okL QL (process_mode FinishMode fuel w) (process_mode FinishMode fuel (clrL w)).
Proof.
  intros Hw. unfold process_mode.
  pose proof (loopN_sim2 lw clrL okL (pm_body FinishMode) (Sim2 clrL okL QL)
                (fun r1 s2 => fst r1 = Failed EIo /\ QL (snd r1) s2)) as LS.
  assert (Hb : forall s, okL s ->
     match pm_body FinishMode s, pm_body FinishMode (clrL s) with
     | Next t1, Next t2 => t2 = clrL t1 /\ okL t1
     | Break r1, Break r2 => Sim2 clrL okL QL r1 r2
     | Break r1, Next t2 => fst r1 = Failed EIo /\ QL (snd r1) t2
     | Next _, Break _ => False
     end) by (intros s Hs; exact (pm_body_sim s Hs)).
  assert (Hd : forall (r1 : pm_result) s2, fst r1 = Failed EIo /\ QL (snd r1) s2 ->
     match pm_body FinishMode s2 with
     | Next t2 => fst r1 = Failed EIo /\ QL (snd r1) t2
     | Break r2 => Sim2 clrL okL QL r1 r2
     end).
  { intros r1 s2 [E Q0]. pose proof (pm_body_grow (win_snk (l_win (snd r1))) FinishMode s2 Q0) as G.
    destruct (pm_body FinishMode s2) as [t2|r2]; [split; assumption|]. right. split; [exact E|left; exact G]. }
  specialize (LS Hb Hd fuel w Hw).
  destruct (loopN fuel (pm_body FinishMode) w) as [t1|[r1 t1]];
    destruct (loopN fuel (pm_body FinishMode) (clrL w)) as [t2|[r2 t2]]; try contradiction.
  - destruct LS as [-> LS]. lock_fin.
  - cbn [fst snd] in LS. destruct LS as [-> Q0]. right. cbn [fst snd]. split; [reflexivity|right; eexists; reflexivity].
  - sim_cases LS.
    + change (l_ds (clrL t1)) with (l_ds t1). change (l_win (clrL t1)) with (clrW (l_win t1)). rewrite win_len_clr.
      destruct r1 as [u|e|q]; try lock_fin.
      destruct (ds_unpacked (l_ds t1)); [destruct (_ =? _)|]; lock_fin.
    + destruct r2 as [u|e|q]; try (div_fin ltac:(fun E => exact E)).
      destruct E2 as [E2|[p E2]]; [|discriminate].
      destruct (ds_unpacked (l_ds t2)); [destruct (_ =? _)|]; (right; cbn [fst snd]; split; [reflexivity|left; exact E2]).
Qed.


(* ---------- the one-shot LZMA decoder ---------- *)
Lemma FinPost_grow {A} l (r : outcome A) k' : FinPost (PkGrow l) r k' -> exists t, snk_bytes k' = l ++ t.
Proof.
  destruct r; cbn [FinPost cls]; intros F; try exact F.
  destruct F as (k1 & B & E). apply snk_flush_ok in E. destruct E as [_ ->]. exact B.
Qed.

Lemma circ_finish_grow k0 c : Qk k0 (c_snk c) -> Qk k0 (snd (circ_finish c)).
Proof. intros H. unfold circ_finish. apply snk_run_grow. exact H. Qed.
Lemma accum_finish_grow k0 a : Qk k0 (a_snk a) -> Qk k0 (snd (accum_finish a)).
Proof. intros H. unfold accum_finish. apply snk_run_grow. exact H. Qed.

Definition ldd (fuel : positive) (dec : lzma_decoder) (w : io) : outcome unit * io :=
  (fst (lzma_decoder_decompress fuel dec w), snd (snd (lzma_decoder_decompress fuel dec w))).

Lemma ldd_grow t1 fuel dec w : QIo t1 w -> QIo t1 (snd (ldd fuel dec w)).
Proof.
  intros H. unfold ldd. cbn [snd].
  pose proof (lzma_decoder_decompress_inv trivP (PkGrow (snk_bytes (i_snk t1))) trivP_any (fun _ _ H => H) trivP_fill trivP_consume
                (PkGrow_write _) fuel dec w I H) as [_ F].
  apply FinPost_grow in F. exact F.
Qed.

Lemma ldd_sim fuel dec w : okIo w -> Sim2 clrIo okIo QIo (ldd fuel dec w) (ldd fuel dec (clrIo w)).
Proof.
  intros [Hs Hk]. unfold ldd, lzma_decoder_decompress. cbn [clrIo i_src i_snk].
  pose proof (src_run_sim (map_io_err ELzma rc_new) (i_src w) Hs) as H.
  destruct (src_run _ (i_src w)) as [[r1|e1|q1] s1]; destruct (src_run _ (clrS (i_src w))) as [[r2|e2|q2] s2];
    sim_cases H; cbn [fst snd];
    try (left; cbn [fst snd clrIo i_src i_snk]; repeat split; assumption);
    try (div_fin ltac:(fun _ => apply Qk_clr)).
  - (* lock step through rc_new *)
    set (L := mkLw (ld_state dec) r1 s1 (WCirc (circ_new (i_snk w) (pr_dict (ld_params dec)) (ld_memlimit dec)))).
    change (mkLw (ld_state dec) r1 (clrS s1) (WCirc (circ_new (clrK (i_snk w)) (pr_dict (ld_params dec)) (ld_memlimit dec))))
      with (clrL L).
    assert (HL : okL L) by (split; assumption).
    pose proof (process_mode_sim fuel L HL) as H. clearbody L.
    destruct (process_mode FinishMode fuel L) as [[u1|e1|q1] x1]; destruct (process_mode FinishMode fuel (clrL L)) as [[u2|e2|q2] x2];
      sim_cases H; cbn [fst snd].
    + change (l_win (clrL x1)) with (clrW (l_win x1)). change (l_src (clrL x1)) with (clrS (l_src x1)).
      match goal with E : okL x1 |- _ => destruct E as [Hs3 Hk3] end. unfold okW in Hk3.
      destruct (l_win x1) as [c|a]; cbn [clrW win_snk] in *.
      * pose proof (circ_finish_sim c Hk3) as H.
        destruct (circ_finish c) as [[v1|e1|q1] k1]; destruct (circ_finish (clrC c)) as [[v2|e2|q2] k2];
          sim_cases H; cbn [fst snd];
          try (left; cbn [fst snd clrIo i_src i_snk]; repeat split; assumption);
          div_fin ltac:(fun E => exact E).
      * left. cbn [fst snd clrIo i_src i_snk clrA a_snk]. repeat split; assumption.
    + (* the faulty run failed inside process_mode; the other one finishes *)
      destruct E2 as [E2|[p E2]]; [|discriminate].
      right. cbn [fst snd]. split; [reflexivity|].
      unfold QL, QW in E2.
      destruct (l_win x2) as [c|a]; cbn [win_snk] in E2.
      * left. pose proof (circ_finish_grow _ c E2) as G. destruct (circ_finish c) as [[v|e|q] k]; exact G.
      * right. eexists; reflexivity.
    + change (l_win (clrL x1)) with (clrW (l_win x1)). rewrite win_snk_clr.
      left. cbn [fst snd clrIo i_src i_snk clrL l_src]. repeat split; match goal with E : okL x1 |- _ => apply E end.
    + div_fin ltac:(fun E => exact E).
    + div_fin ltac:(fun E => exact E).
    + change (l_win (clrL x1)) with (clrW (l_win x1)). rewrite win_snk_clr.
      left. cbn [fst snd clrIo i_src i_snk clrL l_src]. repeat split; match goal with E : okL x1 |- _ => apply E end.
  - (* the source failed in rc_new; the other run decodes on *)
    right. cbn [fst snd]. split; [reflexivity|].
    match goal with |- context [process_mode FinishMode fuel ?L2] =>
      pose proof (process_mode_grow (i_snk w) FinishMode fuel L2 (Qk_clr _)) as G;
      destruct (process_mode FinishMode fuel L2) as [[u|e|q] x] end; cbn [fst snd i_snk] in *;
      try (left; exact G).
    destruct (l_win x) as [c|a]; cbn [win_snk] in G.
    + left. pose proof (circ_finish_grow _ c G) as G2. destruct (circ_finish c) as [[v|e|q] k]; exact G2.
    + right. eexists; reflexivity.
Qed.


Lemma lzma_decompress_ldd fuel o w :
  lzma_decompress fuel o w =
  match src_run (map_io_err EHeaderTooShort (read_header o)) (i_src w) with
  | (Failed e, s) => (Failed e, mkIo s (i_snk w))
  | (Panicked p, s) => (Panicked p, mkIo s (i_snk w))
  | (Done p, s) =>
      match lzma_decoder_new p (o_memlimit o) with
      | Failed e => (Failed e, mkIo s (i_snk w))
      | Panicked q => (Panicked q, mkIo s (i_snk w))
      | Done dec => ldd fuel dec (mkIo s (i_snk w))
      end
  end.
Proof.
  unfold lzma_decompress, ldd. destruct (src_run _ _) as [[p|e|q] s]; try reflexivity.
  destruct (lzma_decoder_new p (o_memlimit o)); try reflexivity.
  destruct (lzma_decoder_decompress _ _ _) as [r [d w']]. reflexivity.
Qed.

Theorem lzma_decompress_sim fuel o w : okIo w ->
  Sim2 clrIo okIo QIo (lzma_decompress fuel o w) (lzma_decompress fuel o (clrIo w)).
Proof.
  intros [Hs Hk]. rewrite !lzma_decompress_ldd. cbn [clrIo i_src i_snk].
  pose proof (src_run_sim (map_io_err EHeaderTooShort (read_header o)) (i_src w) Hs) as H.
  destruct (src_run _ (i_src w)) as [[p1|e1|q1] s1]; destruct (src_run _ (clrS (i_src w))) as [[p2|e2|q2] s2];
    sim_cases H; cbn [fst snd];
    try (left; cbn [fst snd clrIo i_src i_snk]; repeat split; assumption);
    try (div_fin ltac:(fun _ => apply Qk_clr)).
  - destruct (lzma_decoder_new p1 (o_memlimit o)) as [dec|e|q];
      try (left; cbn [fst snd clrIo i_src i_snk]; repeat split; assumption).
    apply (ldd_sim fuel dec (mkIo s1 (i_snk w))). split; assumption.
  - right. cbn [fst snd]. split; [reflexivity|].
    destruct (lzma_decoder_new p2 (o_memlimit o)) as [dec|e|q]; try (left; apply Qk_clr).
    left. apply (ldd_grow (mkIo s1 (i_snk w)) fuel dec (mkIo s2 (clrK (i_snk w)))). apply Qk_clr.
Qed.
Print Assumptions lzma_decompress_sim.

(* ======================================================================= *)
(* Combinators: a computation is SG when it runs in lock step (first half) and
   keeps "Q t1 _" when run alone on the fault-free side (second half). *)
Section Comb.
Variable S : Type.
Variable clr : S -> S.
Variable ok : S -> Prop.
Variable Q : S -> S -> Prop.

Definition SG {A} (f : M S A) : Prop :=
  (forall s, ok s -> Sim2 clr ok Q (f s) (f (clr s))) /\
  (forall t1 s2, Q t1 s2 -> Q t1 (snd (f s2))).

Lemma SG_ret {A} (a : A) : SG (mret a).
Proof. split; [intros s Hs; left; cbn [mret fst snd]; auto|intros t1 s2 H; exact H]. Qed.
Lemma SG_fail {A} e : SG (@mfail S A e).
Proof. split; [intros s Hs; left; cbn [mfail fst snd]; auto|intros t1 s2 H; exact H]. Qed.
Lemma SG_panic {A} p : SG (@mpanic S A p).
Proof. split; [intros s Hs; left; cbn [mpanic fst snd]; auto|intros t1 s2 H; exact H]. Qed.

Lemma SG_bind {A B} (f : M S A) (g : A -> M S B) : SG f -> (forall a, SG (g a)) -> SG (mbind f g).
Proof.
  intros [F1 F2] G. split.
  - intros s Hs. unfold mbind. specialize (F1 s Hs).
    pose proof (F2) as F2'.
    destruct (f s) as [[a1|e1|q1] t1] eqn:Ef1; destruct (f (clr s)) as [[a2|e2|q2] t2] eqn:Ef2;
      sim_cases F1; try (left; cbn [fst snd]; auto; fail); try (div_fin ltac:(fun E => exact E)).
    + apply (proj1 (G a1)). assumption.
    + destruct E2 as [E2|[p E2]]; [|discriminate].
      right. cbn [fst snd]. split; [reflexivity|]. left. apply (proj2 (G a2)). exact E2.
  - intros t1 s2 H. unfold mbind. specialize (F2 t1 s2 H).
    destruct (f s2) as [[a|e|q] s']; cbn [snd] in *; try exact F2. apply (proj2 (G a)). exact F2.
Qed.

Lemma SG_ext {A} (f g : M S A) : (forall s, f s = g s) -> SG g -> SG f.
Proof.
  intros E [G1 G2]. split.
  - intros s Hs. rewrite !E. apply G1. exact Hs.
  - intros t1 s2 H. rewrite E. apply G2. exact H.
Qed.

(* loops over an SG body *)
Definition SGstep {A} (b : S -> step S (outcome A * S)) : Prop :=
  (forall s, ok s ->
     match b s, b (clr s) with
     | Next t1, Next t2 => t2 = clr t1 /\ ok t1
     | Break r1, Break r2 => Sim2 clr ok Q r1 r2
     | Break r1, Next t2 => fst r1 = Failed EIo /\ Q (snd r1) t2
     | Next _, Break _ => False
     end) /\
  (forall t1 s2, Q t1 s2 -> match b s2 with Next t2 => Q t1 t2 | Break r2 => Q t1 (snd r2) end).

Lemma SG_loop {A} (b : S -> step S (outcome A * S)) (fuel : positive) (pf : panic_site) :
  SGstep b ->
  SG (fun s => match loopN fuel b s with Next s' => (Panicked pf, s') | Break r => r end).
Proof.
  intros [B1 B2]. split.
  - intros s Hs.
    pose proof (loopN_sim2 S clr ok b (Sim2 clr ok Q) (fun r1 s2 => fst r1 = Failed EIo /\ Q (snd r1) s2) B1) as LS.
    assert (Hd : forall (r1 : outcome A * S) s2, fst r1 = Failed EIo /\ Q (snd r1) s2 ->
       match b s2 with
       | Next t2 => fst r1 = Failed EIo /\ Q (snd r1) t2
       | Break r2 => Sim2 clr ok Q r1 r2
       end).
    { intros r1 s2 [E Q0]. specialize (B2 (snd r1) s2 Q0).
      destruct (b s2) as [t2|r2]; [split; assumption|]. right. split; [exact E|left; exact B2]. }
    specialize (LS Hd fuel s Hs).
    destruct (loopN fuel b s) as [t1|[r1 t1]]; destruct (loopN fuel b (clr s)) as [t2|[r2 t2]]; try contradiction.
    + destruct LS as [-> LS]. left. cbn [fst snd]. auto.
    + cbn [fst snd] in LS. destruct LS as [-> Q0]. right. cbn [fst snd]. split; [reflexivity|right; eexists; reflexivity].
    + exact LS.
  - intros t1 s2 H.
    pose proof (loopN_cond_inv b (Q t1) (fun r => Q t1 (snd r)) (B2 t1) fuel s2 H) as G.
    destruct (loopN fuel b s2) as [s'|r]; exact G.
Qed.
Lemma SGstep_bind {A B} (f : M S A) (k : A -> S -> step S (outcome B * S)) :
  SG f -> (forall a, SGstep (k a)) ->
  SGstep (fun s => match f s with
                   | (Done a, s') => k a s'
                   | (Failed e, s') => Break (Failed e, s')
                   | (Panicked p, s') => Break (Panicked p, s')
                   end).
Proof.
  intros [F1 F2] K. split.
  - intros s Hs. specialize (F1 s Hs).
    destruct (f s) as [[a1|e1|q1] t1]; destruct (f (clr s)) as [[a2|e2|q2] t2];
      sim_cases F1; try (left; cbn [fst snd]; auto; fail); try (div_fin ltac:(fun E => exact E)).
    + apply (proj1 (K a1)). assumption.
    + destruct E2 as [E2|[p E2]]; [|discriminate].
      pose proof (proj2 (K a2) t1 t2 E2) as G.
      destruct (k a2 t2) as [t3|r3]; [split; [reflexivity|exact G]|].
      right. cbn [fst snd]. split; [reflexivity|left; exact G].
  - intros t1 s2 H. specialize (F2 t1 s2 H).
    destruct (f s2) as [[a|e|q] s']; cbn [snd] in *; try exact F2. apply (proj2 (K a)). exact F2.
Qed.

Lemma SGstep_of_SG {A} (g : M S A) :
  SG g -> SGstep (fun s => match g s with (Done _, s') => Next s' | r => Break r end).
Proof.
  intros [G1 G2]. split.
  - intros s Hs. specialize (G1 s Hs).
    destruct (g s) as [[a1|e1|q1] t1]; destruct (g (clr s)) as [[a2|e2|q2] t2];
      sim_cases G1; try (left; cbn [fst snd]; auto; fail); try (div_fin ltac:(fun E => exact E)).
    + auto.
    + destruct E2 as [E2|[p E2]]; [|discriminate]. cbn [fst snd]. auto.
  - intros t1 s2 H. specialize (G2 t1 s2 H).
    destruct (g s2) as [[a|e|q] s']; cbn [snd] in *; exact G2.
Qed.

Lemma SGstep_break {A} (r : outcome A) : SGstep (fun s => Break (r, s)).
Proof.
  split; [intros s Hs; left; cbn [fst snd]; auto|intros t1 s2 H; exact H].
Qed.
Lemma SGstep_ext {A} (b b' : S -> step S (outcome A * S)) :
  (forall s, b s = b' s) -> SGstep b' -> SGstep b.
Proof.
  intros E [B1 B2]. split.
  - intros s Hs. rewrite !E. apply B1. exact Hs.
  - intros t1 s2 H. rewrite E. apply B2. exact H.
Qed.
End Comb.


(* ---------- LZMA2 ---------- *)
Definition clrW2 (w : w2) : w2 := mkW2 (w_ds w) (clrS (w_src w)) (clrA (w_acc w)).
Definition okW2 (w : w2) : Prop := okS (w_src w) /\ okA (w_acc w).
Definition QW2 (w1 w2' : w2) : Prop := QA (w_acc w1) (w_acc w2').
Notation SG2 := (SG w2 clrW2 okW2 QW2).

Lemma QA_clr a : QA a (clrA a).
Proof. apply Qk_clr. Qed.

Lemma SG2_w2src {A} (p : iop A) : SG2 (fun w => w2_src w (src_run p (w_src w))).
Proof.
  split.
  - intros w [Hs Hk]. unfold w2_src. cbn [clrW2 w_ds w_src w_acc].
    pose proof (src_run_sim p (w_src w) Hs) as H.
    destruct (src_run p (w_src w)) as [r1 s1]; destruct (src_run p (clrS (w_src w))) as [r2 s2]; sim_cases H.
    + left. cbn [fst snd clrW2 w_ds w_src w_acc]. repeat split; assumption.
    + div_fin ltac:(fun _ => apply QA_clr).
  - intros t1 w H. exact H.
Qed.

(* steps that neither read nor write *)
Lemma SG2_pure {A} (f : M w2 A) :
  (forall w, f (clrW2 w) = (fst (f w), clrW2 (snd (f w)))) ->
  (forall w, w_src (snd (f w)) = w_src w /\ a_snk (w_acc (snd (f w))) = a_snk (w_acc w)) ->
  SG2 f.
Proof.
  intros E P. split.
  - intros w [Hs Hk]. rewrite E. left. cbn [fst snd]. destruct (P w) as [P1 P2].
    repeat split; unfold okW2, okA; rewrite ?P1, ?P2; assumption.
  - intros t1 w H. unfold QW2, QA. rewrite (proj2 (P w)). exact H.
Qed.

Lemma SG2_reset_dict rd : SG2 (l2_reset_dict rd).
Proof.
  destruct rd; [|apply (SG_ret w2 clrW2 okW2 QW2 tt)]. split.
  - intros w [Hs Hk]. unfold l2_reset_dict. cbn [clrW2 w_ds w_src w_acc].
    pose proof (accum_reset_sim (w_acc w) Hk) as H.
    destruct (accum_reset (w_acc w)) as [r1 a1]; destruct (accum_reset (clrA (w_acc w))) as [r2 a2]; sim_cases H.
    + left. cbn [fst snd clrW2 w_ds w_src w_acc]. repeat split; assumption.
    + div_fin ltac:(fun E => exact E).
  - intros t1 w H. unfold l2_reset_dict.
    pose proof (accum_reset_inv (PkGrow (snk_bytes (a_snk (w_acc t1)))) (fun _ _ H => H) (PkGrow_write _) (w_acc w) H) as G.
    destruct (accum_reset (w_acc w)) as [r a]. exact G.
Qed.

Lemma SG2_new_props rp : SG2 (l2_new_props rp).
Proof.
  destruct rp.
  - apply (SG_ext _ _ _ _ (l2_new_props true)
             (mbind (fun w => w2_src w (src_run (map_io_err ELzma read_u8) (w_src w)))
                    (fun pbyte => if 225 <=? pbyte then mfail ELzma else
                                  if 4 <? pbyte mod 9 + pbyte / 9 mod 5 then mfail ELzma
                                  else mret (mkProps (pbyte mod 9) (pbyte / 9 mod 5) (pbyte / 9 / 5))))).
    + intros w. unfold l2_new_props, mbind.
      destruct (w2_src w _) as [[pbyte|e|q] w']; try reflexivity.
      destruct (225 <=? pbyte); [reflexivity|]. cbv zeta. destruct (4 <? _); reflexivity.
    + apply SG_bind; [apply SG2_w2src|]. intros pbyte.
      destruct (225 <=? pbyte); [apply SG_fail|]. destruct (4 <? _); [apply SG_fail|apply SG_ret].
  - apply SG2_pure; intros w; cbn [l2_new_props fst snd clrW2 w_ds]; auto.
Qed.

Lemma SG2_reset_state rs rp : SG2 (l2_reset_state rs rp).
Proof.
  destruct rs; [|apply (SG_ret w2 clrW2 okW2 QW2 tt)].
  apply (SG_ext _ _ _ _ (l2_reset_state true rp)
           (mbind (l2_new_props rp)
                  (fun p w => match reset_state (w_ds w) p with
                              | (Done d, _) => (Done tt, mkW2 d (w_src w) (w_acc w))
                              | (Failed e, _) => (Failed e, w)
                              | (Panicked q, _) => (Panicked q, w)
                              end))).
  - intros w. unfold l2_reset_state, mbind. destruct (l2_new_props rp w) as [[p|e|q] w']; reflexivity.
  - apply SG_bind; [apply SG2_new_props|]. intros p. apply SG2_pure; intros w; cbn [clrW2 w_ds];
      destruct (reset_state (w_ds w) p) as [[d|e|q] []]; cbn [fst snd w_src w_acc]; auto.
Qed.

Lemma SG2_run fuel us ps : SG2 (l2_run fuel us ps).
Proof.
  split.
  - intros w [Hs Hk]. unfold l2_run. cbv zeta. cbn [clrW2 w_ds w_src w_acc clrA a_len].
    change (set_limit (clrS (w_src w)) (Some ps)) with (clrS (set_limit (w_src w) (Some ps))).
    pose proof (src_run_sim (map_io_err ELzma rc_new) (set_limit (w_src w) (Some ps)) Hs) as H.
    destruct (src_run _ (set_limit (w_src w) (Some ps))) as [[r1|e1|q1] s1];
      destruct (src_run _ (clrS (set_limit (w_src w) (Some ps)))) as [[r2|e2|q2] s2];
      sim_cases H; cbn [fst snd];
      try (left; cbn [fst snd clrW2 w_ds w_src w_acc]; repeat split; assumption);
      try (div_fin ltac:(fun _ => apply QA_clr)).
    + set (d := set_unpacked_size (w_ds w) (Some (us + a_len (w_acc w)))).
      set (L := mkLw d r1 s1 (WAccum (w_acc w))).
      change (mkLw d r1 (clrS s1) (WAccum (clrA (w_acc w)))) with (clrL L).
      assert (HL : okL L) by (split; assumption).
      pose proof (process_mode_sim fuel L HL) as H.
      pose proof (process_mode_kind FinishMode fuel L) as K1.
      pose proof (process_mode_kind FinishMode fuel (clrL L)) as K2.
      cbn [L clrL l_win clrW wkind] in K1, K2. clearbody L.
      destruct (process_mode FinishMode fuel L) as [r1' x1]; destruct (process_mode FinishMode fuel (clrL L)) as [r2' x2].
      cbn [snd] in K1, K2.
      destruct (l_win x1) as [c1|a1] eqn:W1; [discriminate|]. destruct (l_win x2) as [c2|a2] eqn:W2; [discriminate|].
      sim_cases H.
      * left. cbn [fst snd clrW2 w_ds w_src w_acc]. change (l_win (clrL x1)) with (clrW (l_win x1)) in W2.
        rewrite W1 in W2. cbn [clrW] in W2. inversion W2; subst.
        match goal with E : okL x1 |- _ => destruct E as [Hs3 Hk3] end. unfold okW in Hk3. rewrite W1 in Hk3.
        repeat split; assumption.
      * right. cbn [fst snd]. split; [reflexivity|]. destruct E2 as [E2|E2]; [left|right; exact E2].
        unfold QL, QW in E2. rewrite W1, W2 in E2. exact E2.
    + (* the source failed in rc_new *)
      right. cbn [fst snd]. split; [reflexivity|]. left.
      match goal with |- context [process_mode FinishMode fuel ?L2] =>
        pose proof (process_mode_grow (a_snk (w_acc w)) FinishMode fuel L2 (Qk_clr _)) as G;
        pose proof (process_mode_kind FinishMode fuel L2) as K;
        destruct (process_mode FinishMode fuel L2) as [r x] end.
      cbn [fst snd l_win wkind] in *. unfold QW2, QA. cbn [w_acc].
      destruct (l_win x) as [c|a]; [discriminate|exact G].
  - intros t1 w H.
    exact (proj2 (l2_run_inv trivP (PkGrow (snk_bytes (a_snk (w_acc t1)))) trivP_any (fun _ _ H => H) trivP_fill trivP_consume
                    trivP_limit (PkGrow_write _) fuel us ps w (conj I H))).
Qed.

Lemma SG2_parse_lzma fuel status : SG2 (parse_lzma fuel status).
Proof.
  apply (SG_ext _ _ _ _ _
    (if N.land status 128 =? 0 then mfail ELzma else
     mbind (fun w => w2_src w (src_run (map_io_err ELzma read_u16_be) (w_src w))) (fun us16 =>
     mbind (fun w => w2_src w (src_run (map_io_err ELzma read_u16_be) (w_src w))) (fun ps16 =>
     mbind (l2_reset_dict (N.land (N.shiftr status 5) 3 =? 3)) (fun _ =>
     mbind (l2_reset_state (negb (N.land (N.shiftr status 5) 3 =? 0))
                           ((N.land (N.shiftr status 5) 3 =? 2) || (N.land (N.shiftr status 5) 3 =? 3))) (fun _ =>
     l2_run fuel (N.lor (N.shiftl (N.land status 31) 16) us16 + 1) (ps16 + 1))))))).
  - intros w. rewrite parse_lzma_split. destruct (_ =? 0); reflexivity.
  - destruct (_ =? 0); [apply SG_fail|].
    apply SG_bind; [apply SG2_w2src|intros us16].
    apply SG_bind; [apply SG2_w2src|intros ps16].
    apply SG_bind; [apply SG2_reset_dict|intros _].
    apply SG_bind; [apply SG2_reset_state|intros _].
    apply SG2_run.
Qed.

Lemma SG2_parse_uncompressed rd : SG2 (parse_uncompressed rd).
Proof.
  apply (SG_ext _ _ _ _ _
    (mbind (fun w => w2_src w (src_run (map_io_err ELzma read_u16_be) (w_src w))) (fun us16 =>
     mbind (l2_reset_dict rd) (fun _ =>
     mbind (fun w => w2_src w (src_run (map_io_err ELzma (read_exact (us16 + 1))) (w_src w))) (fun bs w =>
     (Done tt, mkW2 (w_ds w) (w_src w) (accum_append_bytes (w_acc w) bs))))))).
  - intros w. reflexivity.
  - apply SG_bind; [apply SG2_w2src|intros us16].
    apply SG_bind; [apply SG2_reset_dict|intros _].
    apply SG_bind; [apply SG2_w2src|intros bs].
    apply SG2_pure; intros w; cbn [fst snd clrW2 w_ds w_src w_acc accum_append_bytes clrA a_buf a_blen a_mem a_len a_snk]; auto.
Qed.

Lemma SGstep_l2_body fuel : SGstep w2 clrW2 okW2 QW2 (l2_body fuel).
Proof.
  apply (SGstep_ext w2 clrW2 okW2 QW2 (l2_body fuel)
    (fun w => match w2_src w (src_run (map_io_err ELzma read_u8) (w_src w)) with
              | (Done status, w') =>
                  (fun status w => if status =? 0 then Break (Done tt, w)
                     else match (if status =? 1 then parse_uncompressed true w
                                 else if status =? 2 then parse_uncompressed false w else parse_lzma fuel status w) with
                          | (Done _, w') => Next w' | r' => Break r' end) status w'
              | (Failed e, w') => Break (Failed e, w')
              | (Panicked p, w') => Break (Panicked p, w')
              end)).
  - intros w. unfold l2_body. destruct (w2_src w _) as [[status|e|q] w']; try reflexivity.
    destruct (status =? 0); [reflexivity|].
    destruct (if status =? 1 then _ else _) as [[u|e|q] w'']; reflexivity.
  - apply SGstep_bind; [apply SG2_w2src|].
    intros status. destruct (status =? 0); [apply SGstep_break|].
    destruct (status =? 1); [apply SGstep_of_SG; apply SG2_parse_uncompressed|].
    destruct (status =? 2); [apply SGstep_of_SG; apply SG2_parse_uncompressed|].
    apply SGstep_of_SG; apply SG2_parse_lzma.
Qed.

(* lzma2_decompress with the decoder object dropped from the result *)
Definition l2d (fuel : positive) (dec : lzma2_decoder) (io0 : io) : outcome unit * io :=
  (fst (lzma2_decompress fuel dec io0), snd (snd (lzma2_decompress fuel dec io0))).

Definition l2_loop (fuel : positive) : M w2 unit :=
  fun w => match loopN fuel (l2_body fuel) w with Next w' => (Panicked (PFuel 20), w') | Break r => r end.

Lemma l2d_loop fuel dec io0 :
  l2d fuel dec io0 =
  match l2_loop fuel (mkW2 (l2_state dec) (i_src io0) (accum_new (i_snk io0) (USIZE - 1))) with
  | (Done _, w) => (fst (accum_finish (w_acc w)), mkIo (w_src w) (snd (accum_finish (w_acc w))))
  | (r, w) => (r, mkIo (w_src w) (a_snk (w_acc w)))
  end.
Proof.
  unfold l2d, lzma2_decompress, l2_loop.
  destruct (loopN fuel (l2_body fuel) _) as [w|[[u|e|q] w]]; try reflexivity.
  destruct (accum_finish (w_acc w)) as [r k]. reflexivity.
Qed.

Lemma l2d_sim fuel dec w : okIo w -> Sim2 clrIo okIo QIo (l2d fuel dec w) (l2d fuel dec (clrIo w)).
Proof.
  intros [Hs Hk]. rewrite !l2d_loop. cbn [clrIo i_src i_snk].
  set (W := mkW2 (l2_state dec) (i_src w) (accum_new (i_snk w) (USIZE - 1))).
  change (mkW2 (l2_state dec) (clrS (i_src w)) (accum_new (clrK (i_snk w)) (USIZE - 1))) with (clrW2 W).
  assert (HW : okW2 W) by (split; assumption).
  pose proof (proj1 (SG_loop w2 clrW2 okW2 QW2 (l2_body fuel) fuel (PFuel 20) (SGstep_l2_body fuel)) W HW) as H.
  fold (l2_loop fuel) in H. clearbody W.
  destruct (l2_loop fuel W) as [[u1|e1|q1] x1]; destruct (l2_loop fuel (clrW2 W)) as [[u2|e2|q2] x2];
    sim_cases H; cbn [fst snd clrW2 w_src w_acc clrA a_snk];
    try (left; cbn [fst snd clrIo i_src i_snk]; repeat split; match goal with E : okW2 _ |- _ => apply E end);
    try (div_fin ltac:(fun E => exact E)).
  - match goal with E : okW2 x1 |- _ => destruct E as [Hs3 Hk3] end.
    pose proof (accum_finish_sim (w_acc x1) Hk3) as H.
    destruct (accum_finish (w_acc x1)) as [r1 k1]; destruct (accum_finish (clrA (w_acc x1))) as [r2 k2]; sim_cases H.
    + left. cbn [fst snd clrIo i_src i_snk]. repeat split; assumption.
    + div_fin ltac:(fun E => exact E).
  - destruct E2 as [E2|[p E2]]; [|discriminate].
    right. cbn [fst snd]. split; [reflexivity|]. left.
    pose proof (accum_finish_grow _ (w_acc x2) E2) as G. destruct (accum_finish (w_acc x2)) as [r k]. exact G.
Qed.

Lemma lzma2_top_l2d fuel io0 :
  lzma2_decompress_top fuel io0 =
  match lzma2_new with
  | Done dec => l2d fuel dec io0
  | Failed e => (Failed e, io0)
  | Panicked p => (Panicked p, io0)
  end.
Proof.
  unfold lzma2_decompress_top, l2d. destruct lzma2_new as [dec|e|q]; try reflexivity.
  destruct (lzma2_decompress fuel dec io0) as [r [d w]]. reflexivity.
Qed.

Theorem lzma2_decompress_sim fuel w : okIo w ->
  Sim2 clrIo okIo QIo (lzma2_decompress_top fuel w) (lzma2_decompress_top fuel (clrIo w)).
Proof.
  intros Hw. rewrite !lzma2_top_l2d. destruct lzma2_new as [dec|e|q].
  - apply l2d_sim. exact Hw.
  - left. cbn [fst snd]. auto.
  - left. cbn [fst snd]. auto.
Qed.
Print Assumptions lzma2_decompress_sim.

(* ======================================================================= *)
(* Goal (b) for the two raw decoders *)
Definition fault_free (w : io) : Prop :=
  s_fail (i_src w) = None /\ k_wfail (i_snk w) = None /\ k_ffail (i_snk w) = false.

(* [w2 = clrIo w1] says exactly: w2 is fault free and differs from w1 only in the three fault switches *)
Lemma clrIo_spec w1 w2 :
  w2 = clrIo w1 <->
  fault_free w2 /\
  s_rest (i_src w2) = s_rest (i_src w1) /\ s_pos (i_src w2) = s_pos (i_src w1) /\
  s_avail (i_src w2) = s_avail (i_src w1) /\ s_refills (i_src w2) = s_refills (i_src w1) /\
  s_frag (i_src w2) = s_frag (i_src w1) /\ s_limit (i_src w2) = s_limit (i_src w1) /\
  k_out (i_snk w2) = k_out (i_snk w1) /\ k_count (i_snk w2) = k_count (i_snk w1) /\
  k_calls (i_snk w2) = k_calls (i_snk w1) /\ k_accept (i_snk w2) = k_accept (i_snk w1) /\
  k_flushes (i_snk w2) = k_flushes (i_snk w1).
Proof.
  split.
  - intros ->. unfold fault_free. cbn. repeat split.
  - destruct w2 as [[a1 a2 a3 a4 a5 a6 a7] [b1 b2 b3 b4 b5 b6 b7]]. unfold fault_free. cbn.
    intros ((F1 & F2 & F3) & E1 & E2 & E3 & E4 & E5 & E6 & E7 & E8 & E9 & E10 & E11). subst. reflexivity.
Qed.

Definition FaultyVsFree {A} (x1 x2 : outcome A * io) : Prop :=
  (* the two runs agree completely (same outcome, same final state up to the switches),
     or else the faulty run returns an I/O error *)
  ((fst x1 = fst x2 /\ snd x2 = clrIo (snd x1)) \/ fst x1 = Failed EIo) /\
  (* and what the faulty sink accepted is a prefix of the fault-free output *)
  ((exists t, snk_bytes (i_snk (snd x2)) = snk_bytes (i_snk (snd x1)) ++ t) \/ (exists p, fst x2 = Panicked p)).

Lemma sim_faulty_vs_free {A} (x1 x2 : outcome A * io) : Sim2 clrIo okIo QIo x1 x2 -> FaultyVsFree x1 x2.
Proof.
  intros [(E1 & E2 & E3)|(E1 & E2)]; unfold FaultyVsFree.
  - split; [left; auto|]. left; exists []; rewrite E2, app_nil_r; reflexivity.
  - split; [right; exact E1|]. destruct E2 as [E2|E2]; [left; exact E2|right; exact E2].
Qed.

Theorem lzma_faulty_vs_free fuel o w : no_hit w ->
  FaultyVsFree (lzma_decompress fuel o w) (lzma_decompress fuel o (clrIo w)).
Proof. intros H. apply sim_faulty_vs_free. apply lzma_decompress_sim. exact H. Qed.
Theorem lzma2_faulty_vs_free fuel w : no_hit w ->
  FaultyVsFree (lzma2_decompress_top fuel w) (lzma2_decompress_top fuel (clrIo w)).
Proof. intros H. apply sim_faulty_vs_free. apply lzma2_decompress_sim. exact H. Qed.
Print Assumptions lzma_faulty_vs_free.
Print Assumptions lzma2_faulty_vs_free.

(* goal (c), second half: if the decoder succeeds on the fault-free sink, then on a sink whose
   flush fails (whatever its other switches) it returns an I/O error *)
Theorem lzma_flush_failure_is_error fuel o w : no_hit w -> k_ffail (i_snk w) = true ->
  fst (lzma_decompress fuel o (clrIo w)) = Done tt -> fst (lzma_decompress fuel o w) = Failed EIo.
Proof.
  intros Hn Hf Hd. destruct (lzma_faulty_vs_free fuel o w Hn) as [[[E _]|E] _]; [|exact E].
  exfalso. apply (proj1 (lzma_flush_failure fuel o w Hf)). rewrite E. exact Hd.
Qed.
Theorem lzma2_flush_failure_is_error fuel w : no_hit w -> k_ffail (i_snk w) = true ->
  fst (lzma2_decompress_top fuel (clrIo w)) = Done tt -> fst (lzma2_decompress_top fuel w) = Failed EIo.
Proof.
  intros Hn Hf Hd. destruct (lzma2_faulty_vs_free fuel w Hn) as [[[E _]|E] _]; [|exact E].
  exfalso. apply (proj1 (lzma2_flush_failure fuel w Hf)). rewrite E. exact Hd.
Qed.
Print Assumptions lzma_flush_failure_is_error.
Print Assumptions lzma2_flush_failure_is_error.

(* ======================================================================= *)
(* Goal (b) for Xz and the encoders *)
Notation SGio := (SG io clrIo okIo QIo).

Lemma SGio_run {A} (p : iop A) : SGio (run_io p).
Proof. split; [apply run_io_sim|intros t1 w2; apply run_io_grow]. Qed.

Section XzLock.
Variable crc32 : list N -> N.
Variable crc64 : list N -> N.

Lemma decode_filter_sim fuel f s : okS s ->
  Sim2 clrS okS (fun _ _ => True) (decode_filter fuel f s) (decode_filter fuel f (clrS s)).
Proof.
  intros Hs. unfold decode_filter. destruct (negb _); [left; cbn [fst snd]; auto|].
  change (s_pos (clrS s)) with (s_pos s).
  pose proof (lzma2_decompress_sim fuel (mkIo s vec_sink) (conj Hs eq_refl)) as H.
  change (clrIo (mkIo s vec_sink)) with (mkIo (clrS s) vec_sink) in H.
  destruct (lzma2_decompress_top fuel (mkIo s vec_sink)) as [[u1|e1|q1] w1];
    destruct (lzma2_decompress_top fuel (mkIo (clrS s) vec_sink)) as [[u2|e2|q2] w2]; sim_cases H;
    try (left; cbn [fst snd clrIo i_src i_snk]; repeat split; match goal with E : okIo _ |- _ => apply E end);
    div_fin ltac:(fun _ => exact I).
Qed.

Lemma SGio_filters fuel (bh : block_header) :
  SGio (match bh_filters bh with
        | [] => mret []
        | f0 :: fs =>
            fun w =>
              match decode_filter fuel f0 (i_src w) with
              | (Failed e, s) => (Failed e, mkIo s (i_snk w))
              | (Panicked p, s) => (Panicked p, mkIo s (i_snk w))
              | (Done (packed, out), s) =>
                  let w' := mkIo s (i_snk w) in
                  if (match bh_packed bh with Some e => negb (packed =? e) | None => false end)
                  then (Failed EXz, w')
                  else match later_filters fuel fs out with
                       | Done b => (Done b, w') | Failed e => (Failed e, w') | Panicked p => (Panicked p, w')
                       end
              end
        end).
Proof.
  destruct (bh_filters bh) as [|f0 fs]; [apply SG_ret|]. split.
  - intros w [Hs Hk]. cbn [clrIo i_src i_snk].
    pose proof (decode_filter_sim fuel f0 (i_src w) Hs) as H.
    destruct (decode_filter fuel f0 (i_src w)) as [[[pk1 out1]|e1|q1] s1];
      destruct (decode_filter fuel f0 (clrS (i_src w))) as [[[pk2 out2]|e2|q2] s2]; sim_cases H;
      try (left; cbn [fst snd clrIo i_src i_snk]; repeat split; assumption);
      try (div_fin ltac:(fun _ => apply Qk_clr)).
    + cbv zeta. destruct (match bh_packed bh with Some _ => _ | None => _ end);
        [left; cbn [fst snd clrIo i_src i_snk]; repeat split; assumption|].
      destruct (later_filters fuel fs out1); left; cbn [fst snd clrIo i_src i_snk]; repeat split; assumption.
    + right. cbn [fst snd]. split; [reflexivity|]. cbv zeta.
      destruct (match bh_packed bh with Some _ => _ | None => _ end); [left; apply Qk_clr|].
      destruct (later_filters fuel fs out2); cbn [fst snd]; first [left; apply Qk_clr|right; eexists; reflexivity].
  - intros t1 w H. destruct (decode_filter fuel f0 (i_src w)) as [[[pk out]|e|q] s]; cbn [snd]; try exact H.
    cbv zeta. destruct (match bh_packed bh with Some _ => _ | None => _ end); [exact H|].
    destruct (later_filters fuel fs out); exact H.
Qed.

Lemma SGio_read_block fuel start check hs : SGio (read_block crc32 crc64 fuel start check hs).
Proof.
  unfold read_block. destruct (hs =? 0); [apply SG_panic|]. cbv zeta.
  apply SG_bind; [apply SGio_run|intros hdr].
  destruct (read_block_header _ hdr) as [bh|e|q]; [|apply SG_fail|apply SG_panic].
  apply SG_bind; [apply SGio_run|intros crc].
  destruct (negb _); [apply SG_fail|].
  apply SG_bind; [apply SGio_filters|intros tmpbuf].
  destruct (match bh_unpacked bh with Some _ => _ | None => _ end); [apply SG_fail|].
  apply SG_bind; [apply SGio_run|intros pos].
  apply SG_bind; [apply SGio_run|intros _].
  apply SG_bind; [apply SGio_run|intros _].
  apply SG_bind; [apply SGio_run|intros _].
  apply SG_bind; [apply SGio_run|intros pos2].
  destruct (_ <? _); [apply SG_panic|apply SG_ret].
Qed.

(* the block loop: its state carries the records next to the world *)
Definition clrX (st : list record * io) : list record * io := (fst st, clrIo (snd st)).
Definition okX (st : list record * io) : Prop := okIo (snd st).

Lemma xz_body_sim fuel check st : okX st ->
  match xz_body crc32 crc64 fuel check st, xz_body crc32 crc64 fuel check (clrX st) with
  | Next t1, Next t2 => t2 = clrX t1 /\ okX t1
  | Break r1, Break r2 => Sim2 clrIo okIo QIo r1 r2
  | Break r1, Next t2 => fst r1 = Failed EIo /\ QIo (snd r1) (snd t2)
  | Next _, Break _ => False
  end.
Proof.
  destruct st as [records w]. unfold okX, clrX. cbn [fst snd]. intros Hw. unfold xz_body.
  change (s_pos (i_src (clrIo w))) with (s_pos (i_src w)).
  pose proof (run_io_sim read_u8 w Hw) as H.
  destruct (run_io read_u8 w) as [[hs1|e1|q1] w1]; destruct (run_io read_u8 (clrIo w)) as [[hs2|e2|q2] w1'];
    sim_cases H; try (left; cbn [fst snd]; auto; fail); try (div_fin ltac:(fun E => exact E)).
  - destruct (hs1 =? 0).
    + pose proof (run_io_sim (check_index crc32 (s_pos (i_src w)) (lrev records)) w1 E3) as H.
      destruct (run_io _ w1) as [[u1|e1|q1] w2]; destruct (run_io _ (clrIo w1)) as [[u2|e2|q2] w2'];
        sim_cases H; try (left; cbn [fst snd clrIo i_src]; auto; fail); div_fin ltac:(fun E => exact E).
    + pose proof (proj1 (SGio_read_block fuel (s_pos (i_src w)) check hs1) w1 E3) as H.
      destruct (read_block _ _ _ _ _ _ w1) as [[r1|e1|q1] w2]; destruct (read_block _ _ _ _ _ _ (clrIo w1)) as [[r2|e2|q2] w2'];
        sim_cases H; try (left; cbn [fst snd]; auto; fail); try (div_fin ltac:(fun E => exact E)).
      * cbn [fst snd]. auto.
      * destruct E2 as [E2|[p E2]]; [|discriminate]. cbn [fst snd]. auto.
  - destruct E2 as [E2|[p E2]]; [|discriminate].
    destruct (hs2 =? 0).
    + pose proof (run_io_grow (check_index crc32 (s_pos (i_src w)) (lrev records)) w1 w1' E2) as G.
      destruct (run_io _ w1') as [[u|e|q] w2]; right; cbn [fst snd] in *; (split; [reflexivity|left; exact G]).
    + pose proof (proj2 (SGio_read_block fuel (s_pos (i_src w)) check hs2) w1 w1' E2) as G.
      destruct (read_block _ _ _ _ _ _ w1') as [[r|e|q] w2]; cbn [fst snd] in *;
        [split; [reflexivity|exact G]|right; cbn [fst snd]; (split; [reflexivity|left; exact G])..].
Qed.

Lemma xz_body_grow fuel check t1 st : QIo t1 (snd st) ->
  match xz_body crc32 crc64 fuel check st with
  | Next st' => QIo t1 (snd st') | Break r => QIo t1 (snd r)
  end.
Proof.
  intros H.
  pose proof (xz_body_inv trivP (PkGrow (snk_bytes (i_snk t1))) trivP_any (fun _ _ H => H) trivP_fill trivP_consume trivP_limit
                (PkGrow_write _) (PkGrow_flush _) crc32 crc64 fuel check st (conj I H)) as G.
  destruct (xz_body _ _ _ _ st) as [st'|r]; exact (proj2 G).
Qed.

Definition xz_loop fuel check : M io unit :=
  fun w =>
    match loopN fuel (xz_body crc32 crc64 fuel check) ([], w) with
    | Next (_, w') => (Panicked (PFuel 30), w')
    | Break (Done index_size, w') => run_io (xz_footer crc32 check index_size) w'
    | Break (Failed e, w') => (Failed e, w')
    | Break (Panicked p, w') => (Panicked p, w')
    end.

Lemma SGio_xz_loop fuel check : SGio (xz_loop fuel check).
Proof.
  split.
  - intros w Hw. unfold xz_loop.
    pose proof (loopN_sim2 (list record * io) clrX okX (xz_body crc32 crc64 fuel check) (Sim2 clrIo okIo QIo)
                  (fun r1 s2 => fst r1 = Failed EIo /\ QIo (snd r1) (snd s2)) (xz_body_sim fuel check)) as LS.
    assert (Hd : forall (r1 : outcome N * io) s2, fst r1 = Failed EIo /\ QIo (snd r1) (snd s2) ->
       match xz_body crc32 crc64 fuel check s2 with
       | Next t2 => fst r1 = Failed EIo /\ QIo (snd r1) (snd t2)
       | Break r2 => Sim2 clrIo okIo QIo r1 r2
       end).
    { intros r1 s2 [E Q0]. pose proof (xz_body_grow fuel check (snd r1) s2 Q0) as G.
      destruct (xz_body _ _ _ _ s2) as [t2|r2]; [split; assumption|]. right. split; [exact E|left; exact G]. }
    specialize (LS Hd fuel ([], w) Hw). change (clrX ([], w)) with (@nil record, clrIo w) in LS.
    destruct (loopN fuel _ ([], w)) as [[rs1 t1]|[r1 t1]]; destruct (loopN fuel _ ([], clrIo w)) as [[rs2 t2]|[r2 t2]];
      try contradiction.
    + destruct LS as [E Hok]. unfold clrX in E. cbn [fst snd] in E. inversion E; subst. left. cbn [fst snd]. auto.
    + cbn [fst snd] in LS. destruct LS as [-> Q0]. right. cbn [fst snd]. split; [reflexivity|right; eexists; reflexivity].
    + sim_cases LS.
      * destruct r1 as [n|e|q]; try (left; cbn [fst snd]; auto; fail).
        apply run_io_sim. assumption.
      * destruct r2 as [n|e|q]; try (div_fin ltac:(fun E => exact E)).
        destruct E2 as [E2|[p E2]]; [|discriminate].
        right. cbn [fst snd]. split; [reflexivity|left]. apply run_io_grow. exact E2.
  - intros t1 w H. unfold xz_loop.
    pose proof (loopN_cond_inv (xz_body crc32 crc64 fuel check) (fun st => QIo t1 (snd st)) (fun r => QIo t1 (snd r))
                  (xz_body_grow fuel check t1) fuel ([], w) H) as G.
    destruct (loopN fuel _ ([], w)) as [[rs w']|[[n|e|q] w']]; cbn [snd] in *; try exact G.
    apply run_io_grow. exact G.
Qed.

Theorem xz_decompress_sim fuel w : okIo w ->
  Sim2 clrIo okIo QIo (xz_decompress crc32 crc64 fuel w) (xz_decompress crc32 crc64 fuel (clrIo w)).
Proof.
  apply (proj1 (SG_bind io clrIo okIo QIo (io_run (header_parse crc32)) (xz_loop fuel)
                  (SGio_run _) (SGio_xz_loop fuel))).
Qed.
End XzLock.
Print Assumptions xz_decompress_sim.

(* ---------- the encoders ---------- *)
Lemma SGstep_break_of_SG {S A} clr ok Q (g : M S A) :
  SG S clr ok Q g -> SGstep S clr ok Q (fun s => Break (g s)).
Proof. intros [G1 G2]. split; [intros s Hs; apply G1; exact Hs|intros t1 s2 H; apply G2; exact H]. Qed.

Lemma SGstep_l2enc_body : SGstep io clrIo okIo QIo l2enc_body.
Proof.
  apply (SGstep_ext io clrIo okIo QIo l2enc_body
    (fun w => match run_io (read_buf 65536) w with
              | (Done buf, w1) =>
                  (fun buf => match buf with
                              | [] => fun w1 => Break (run_io (write_u8 0) w1)
                              | _ => fun w1 => match run_io (write_u8 1 ;;; write_u16_be (nlen buf - 1) ;;; write_all buf)%prog w1 with
                                               | (Done _, w2) => Next w2 | r => Break r end
                              end) buf w1
              | (Failed e, w1) => Break (Failed e, w1)
              | (Panicked p, w1) => Break (Panicked p, w1)
              end)).
  - intros w. unfold l2enc_body. destruct (run_io (read_buf 65536) w) as [[[|b t]|e|q] w1]; reflexivity.
  - apply SGstep_bind; [apply SGio_run|]. intros [|b t].
    + apply SGstep_break_of_SG. apply SGio_run.
    + apply SGstep_of_SG. apply SGio_run.
Qed.

Lemma SGio_lzma2_compress fuel : SGio (lzma2_compress fuel).
Proof. apply (SG_loop io clrIo okIo QIo l2enc_body fuel (PFuel 43) SGstep_l2enc_body). Qed.

Theorem lzma2_compress_sim fuel w : okIo w ->
  Sim2 clrIo okIo QIo (lzma2_compress fuel w) (lzma2_compress fuel (clrIo w)).
Proof. apply (proj1 (SGio_lzma2_compress fuel)). Qed.

Lemma SGio_xz_compress crc32 fuel : SGio (xz_compress crc32 fuel).
Proof.
  apply (SG_ext io clrIo okIo QIo (xz_compress crc32 fuel)
    (mbind (run_io (xz_write_header crc32 ;;;
                c0 <- icall GetCount ;; p0 <- icall GetPos ;;
                write_bytes_each (firstn 5 xz_block_header) ;;; write_all (skipn 5 xz_block_header) ;;;
                write_u32_le (crc32 xz_block_header) ;;; Ret (c0, p0))%prog)
       (fun cp => mbind (lzma2_compress fuel) (fun _ =>
          run_io (c1 <- icall GetCount ;; p1 <- icall GetPos ;;
                  let unpadded := c1 - fst cp in
                  let unpacked := p1 - snd cp in
                  write_all (repeat 0 (N.to_nat (padding_of unpadded))) ;;;
                  index_size <- xz_write_index crc32 unpadded unpacked ;;
                  xz_write_footer crc32 index_size)%prog)))).
  - intros s. unfold xz_compress, mbind.
    destruct (run_io _ s) as [[[c0 p0]|e|q] w1]; try reflexivity.
    all: cbn [fst snd]; destruct (lzma2_compress fuel w1) as [[u|e|q] w2']; reflexivity.
  - apply SG_bind; [apply SGio_run|intros cp].
    apply SG_bind; [apply SGio_lzma2_compress|intros _]. apply SGio_run.
Qed.

Theorem xz_compress_sim crc32 fuel w : okIo w ->
  Sim2 clrIo okIo QIo (xz_compress crc32 fuel w) (xz_compress crc32 fuel (clrIo w)).
Proof. apply (proj1 (SGio_xz_compress crc32 fuel)). Qed.

(* lzma_compress: the loop state carries the encoder next to the world *)
Definition clrE (st : dloop * io) : dloop * io := (fst st, clrIo (snd st)).
Definition okE (st : dloop * io) : Prop := okIo (snd st).

Lemma denc_body_sim st : okE st ->
  match denc_body st, denc_body (clrE st) with
  | Next t1, Next t2 => t2 = clrE t1 /\ okE t1
  | Break r1, Break r2 => Sim2 clrIo okIo QIo r1 r2
  | Break r1, Next t2 => fst r1 = Failed EIo /\ QIo (snd r1) (snd t2)
  | Next _, Break _ => False
  end.
Proof.
  destruct st as [l w]. unfold okE, clrE. cbn [fst snd]. intros Hw. unfold denc_body.
  pose proof (run_io_sim (read_buf 1) w Hw) as H.
  destruct (run_io (read_buf 1) w) as [[[|b1 t1]|e1|q1] w1]; destruct (run_io (read_buf 1) (clrIo w)) as [[[|b2 t2]|e2|q2] w1'];
    sim_cases H; try (left; cbn [fst snd]; auto; fail); try (div_fin ltac:(fun E => exact E)).
  - match goal with |- context [run_io ?p w1] =>
      pose proof (run_io_sim p w1 E3) as H; destruct (run_io p w1) as [[d1|e1|q1] w2]; destruct (run_io p (clrIo w1)) as [[d2|e2|q2] w2'] end;
      sim_cases H; try (left; cbn [fst snd]; auto; fail); try (div_fin ltac:(fun E => exact E)).
    + cbn [fst snd]. auto.
    + destruct E2 as [E2|[p E2]]; [|discriminate]. cbn [fst snd]. auto.
  - destruct E2 as [E2|[p E2]]; [|discriminate].
    match goal with |- context [run_io ?p w1'] =>
      pose proof (run_io_grow p w1 w1' E2) as G; destruct (run_io p w1') as [[d2|e2|q2] w2'] end; cbn [fst snd] in *;
      [split; [reflexivity|exact G]|right; cbn [fst snd]; (split; [reflexivity|left; exact G])..].
Qed.

Lemma denc_body_grow t1 st : QIo t1 (snd st) ->
  match denc_body st with Next st' => QIo t1 (snd st') | Break r => QIo t1 (snd r) end.
Proof.
  intros H.
  pose proof (denc_body_inv trivP (PkGrow (snk_bytes (i_snk t1))) trivP_any (fun _ _ H => H) trivP_fill trivP_consume
                (PkGrow_write _) (PkGrow_flush _) st (conj I H)) as G.
  destruct (denc_body st) as [st'|r]; exact (proj2 G).
Qed.

Definition denc_loop fuel (d : denc) : M io unit :=
  fun w1 =>
      match loopN fuel denc_body (mkDloop d 0 0 0, w1) with
      | Next (_, w2) => (Panicked (PFuel 42), w2)
      | Break (Done l, w2) => run_io (denc_finish (dl_enc l) (dl_input_len l + 1)) w2
      | Break (Failed e, w2) => (Failed e, w2)
      | Break (Panicked p, w2) => (Panicked p, w2)
      end.

Lemma SGio_denc_loop fuel d : SGio (denc_loop fuel d).
Proof.
  split.
  - intros w Hw. unfold denc_loop.
    pose proof (loopN_sim2 (dloop * io) clrE okE denc_body (Sim2 clrIo okIo QIo)
                  (fun r1 s2 => fst r1 = Failed EIo /\ QIo (snd r1) (snd s2)) denc_body_sim) as LS.
    assert (Hd : forall (r1 : outcome dloop * io) s2, fst r1 = Failed EIo /\ QIo (snd r1) (snd s2) ->
       match denc_body s2 with
       | Next t2 => fst r1 = Failed EIo /\ QIo (snd r1) (snd t2)
       | Break r2 => Sim2 clrIo okIo QIo r1 r2
       end).
    { intros r1 s2 [E Q0]. pose proof (denc_body_grow (snd r1) s2 Q0) as G.
      destruct (denc_body s2) as [t2|r2]; [split; assumption|]. right. split; [exact E|left; exact G]. }
    specialize (LS Hd fuel (mkDloop d 0 0 0, w) Hw).
    change (clrE (mkDloop d 0 0 0, w)) with (mkDloop d 0 0 0, clrIo w) in LS.
    destruct (loopN fuel denc_body (mkDloop d 0 0 0, w)) as [[l1 t1]|[r1 t1]];
      destruct (loopN fuel denc_body (mkDloop d 0 0 0, clrIo w)) as [[l2 t2]|[r2 t2]]; try contradiction.
    + destruct LS as [E Hok]. unfold clrE in E. cbn [fst snd] in E. inversion E; subst. left. cbn [fst snd]. auto.
    + cbn [fst snd] in LS. destruct LS as [-> Q0]. right. cbn [fst snd]. split; [reflexivity|right; eexists; reflexivity].
    + sim_cases LS.
      * destruct r1 as [l|e|q]; try (left; cbn [fst snd]; auto; fail).
        apply run_io_sim. assumption.
      * destruct r2 as [l|e|q]; try (div_fin ltac:(fun E => exact E)).
        destruct E2 as [E2|[p E2]]; [|discriminate].
        right. cbn [fst snd]. split; [reflexivity|left]. apply run_io_grow. exact E2.
  - intros t1 w H. unfold denc_loop.
    pose proof (loopN_cond_inv denc_body (fun st => QIo t1 (snd st)) (fun r => QIo t1 (snd r))
                  (denc_body_grow t1) fuel (mkDloop d 0 0 0, w) H) as G.
    destruct (loopN fuel denc_body _) as [[l w']|[[l|e|q] w']]; cbn [snd] in *; try exact G.
    apply run_io_grow. exact G.
Qed.

Theorem lzma_compress_sim fuel o w : okIo w ->
  Sim2 clrIo okIo QIo (lzma_compress fuel o w) (lzma_compress fuel o (clrIo w)).
Proof.
  apply (proj1 (SG_ext io clrIo okIo QIo (lzma_compress fuel o)
                  (mbind (run_io (denc_from_stream o)) (denc_loop fuel)) (fun s => eq_refl)
                  (SG_bind io clrIo okIo QIo _ _ (SGio_run _) (SGio_denc_loop fuel)))).
Qed.

(* the summary statements *)
Theorem xz_faulty_vs_free crc32 crc64 fuel w : no_hit w ->
  FaultyVsFree (xz_decompress crc32 crc64 fuel w) (xz_decompress crc32 crc64 fuel (clrIo w)).
Proof. intros H. apply sim_faulty_vs_free. apply xz_decompress_sim. exact H. Qed.
Theorem lzma_compress_faulty_vs_free fuel o w : no_hit w ->
  FaultyVsFree (lzma_compress fuel o w) (lzma_compress fuel o (clrIo w)).
Proof. intros H. apply sim_faulty_vs_free. apply lzma_compress_sim. exact H. Qed.
Theorem lzma2_compress_faulty_vs_free fuel w : no_hit w ->
  FaultyVsFree (lzma2_compress fuel w) (lzma2_compress fuel (clrIo w)).
Proof. intros H. apply sim_faulty_vs_free. apply lzma2_compress_sim. exact H. Qed.
Theorem xz_compress_faulty_vs_free crc32 fuel w : no_hit w ->
  FaultyVsFree (xz_compress crc32 fuel w) (xz_compress crc32 fuel (clrIo w)).
Proof. intros H. apply sim_faulty_vs_free. apply xz_compress_sim. exact H. Qed.
Print Assumptions xz_faulty_vs_free.
Print Assumptions lzma_compress_faulty_vs_free.
Print Assumptions lzma2_compress_faulty_vs_free.
Print Assumptions xz_compress_faulty_vs_free.
