(* The event oracle: a handler for the decoder's effect signature [decE] whose state is
   the list of binarisation events still to be consumed plus the format-level history.
   Also: the bit-level arithmetic facts used by the coder lemmas. *)
From LZ Require Import Base.Prelude Base.Prog Model.Tables Model.RangeDec Model.Lzma Format.RefEnc Proofs.ProgLemmas.
Local Open Scope prog_scope.

(* ---------- decidable equality on cells ---------- *)
Definition lenpart_eq_dec (a b : lenpart) : {a = b} + {a <> b}.
Proof. decide equality; apply N.eq_dec. Defined.
Definition cell_eq_dec (a b : cell) : {a = b} + {a <> b}.
Proof. decide equality; try apply N.eq_dec; try apply lenpart_eq_dec; apply Bool.bool_dec. Defined.

(* ---------- the oracle ---------- *)
Definition ostate := (list ev * hist)%type.

(* pop n direct bits, most significant first *)
Fixpoint pop_direct (n : nat) (acc : N) (evs : list ev) : option (N * list ev) :=
  match n with
  | O => Some (acc, evs)
  | S k => match evs with
           | EvDirect b :: t => pop_direct k (2 * acc + b2n b) t
           | _ => None
           end
  end.

Definition hist_push (h : hist) (b : N) : hist :=
  mkHist (b :: h_bytes h) (h_len h + 1) (h_r0 h) (h_r1 h) (h_r2 h) (h_r3 h).
Definition hist_copy (h : hist) (len dist : N) : hist :=
  mkHist (copy_back (N.to_nat len) (N.to_nat (dist - 1)) (h_bytes h)) (h_len h + len)
         (h_r0 h) (h_r1 h) (h_r2 h) (h_r3 h).

Definition oracle (w : option N) : handler decE ostate := fun X o =>
  match o in decE X return ostate -> hres X ostate with
  | Bit c upd => fun s =>
      match fst s with
      | EvBit c' b :: t => if cell_eq_dec c' c then HOk b (t, snd s) else HPanic (PAssert 777) s
      | _ => HPanic (PAssert 777) s
      end
  | Direct n => fun s =>
      match pop_direct (N.to_nat n) 0 (fst s) with
      | Some (v, t) => HOk v (t, snd s)
      | None => HPanic (PAssert 778) s
      end
  | FinishedOk => fun s => HOk (match fst s with [] => true | _ => false end) s
  | WLen => fun s => HOk (h_len (snd s)) s
  | WLastOr d => fun s => HOk (match h_bytes (snd s) with [] => d | x :: _ => x end) s
  | WLastN dist => fun s =>
      if can_copy w (snd s) dist then HOk (nth (N.to_nat (dist - 1)) (h_bytes (snd s)) 0) s
      else HErr ELzma s
  | WAppendLit b => fun s => HOk tt (fst s, hist_push (snd s) b)
  | WAppendLz len dist => fun s =>
      if can_copy w (snd s) dist then HOk tt (fst s, hist_copy (snd s) len dist)
      else HErr ELzma s
  end.

Definition reps_of (h : hist) : reps := mkReps (h_r0 h) (h_r1 h) (h_r2 h) (h_r3 h).
(* the bytes and length of [h'], the repeat distances of [h] *)
Definition with_data (h h' : hist) : hist :=
  mkHist (h_bytes h') (h_len h') (h_r0 h) (h_r1 h) (h_r2 h) (h_r3 h).

(* ---------- stepping lemmas ---------- *)
Lemma interp_vis_bind {A X} w (o : decE X) (k : X -> dprog A) s x s' :
  oracle w _ o s = HOk x s' ->
  interp (oracle w) (bind (dcall o) k) s = interp (oracle w) (k x) s'.
Proof. intros H. cbn [call bind interp]. rewrite H. reflexivity. Qed.

Lemma interp_ret {A} w (a : A) s : interp (oracle w) (Ret a) s = (Done a, s).
Proof. reflexivity. Qed.

Lemma interp_bit {A} w c upd b evs h (k : bool -> dprog A) :
  interp (oracle w) (bind (dcall (Bit c upd)) k) (EvBit c b :: evs, h) = interp (oracle w) (k b) (evs, h).
Proof.
  apply interp_vis_bind. cbn [oracle fst snd].
  destruct (cell_eq_dec c c) as [_|N]; [reflexivity|congruence].
Qed.

Lemma interp_direct {A} w n v evs t h (k : N -> dprog A) :
  pop_direct (N.to_nat n) 0 evs = Some (v, t) ->
  interp (oracle w) (bind (dcall (Direct n)) k) (evs, h) = interp (oracle w) (k v) (t, h).
Proof. intros H. apply interp_vis_bind. cbn [oracle fst snd]. rewrite H. reflexivity. Qed.

Lemma interp_finished {A} w evs h (k : bool -> dprog A) :
  interp (oracle w) (bind (dcall FinishedOk) k) (evs, h)
  = interp (oracle w) (k (match evs with [] => true | _ => false end)) (evs, h).
Proof. apply interp_vis_bind. reflexivity. Qed.

Lemma interp_wlen {A} w evs h (k : N -> dprog A) :
  interp (oracle w) (bind (dcall WLen) k) (evs, h) = interp (oracle w) (k (h_len h)) (evs, h).
Proof. apply interp_vis_bind. reflexivity. Qed.

Lemma interp_wlastor {A} w d evs h (k : N -> dprog A) :
  interp (oracle w) (bind (dcall (WLastOr d)) k) (evs, h)
  = interp (oracle w) (k (match h_bytes h with [] => d | x :: _ => x end)) (evs, h).
Proof. apply interp_vis_bind. reflexivity. Qed.

Lemma interp_wlastn {A} w dist evs h (k : N -> dprog A) :
  can_copy w h dist = true ->
  interp (oracle w) (bind (dcall (WLastN dist)) k) (evs, h)
  = interp (oracle w) (k (nth (N.to_nat (dist - 1)) (h_bytes h) 0)) (evs, h).
Proof. intros H. apply interp_vis_bind. cbn [oracle fst snd]. rewrite H. reflexivity. Qed.

Lemma interp_wappendlit {A} w b evs h (k : unit -> dprog A) :
  interp (oracle w) (bind (dcall (WAppendLit b)) k) (evs, h) = interp (oracle w) (k tt) (evs, hist_push h b).
Proof. apply interp_vis_bind. reflexivity. Qed.

Lemma interp_wappendlz {A} w len dist evs h (k : unit -> dprog A) :
  can_copy w h dist = true ->
  interp (oracle w) (bind (dcall (WAppendLz len dist)) k) (evs, h)
  = interp (oracle w) (k tt) (evs, hist_copy h len dist).
Proof. intros H. apply interp_vis_bind. cbn [oracle fst snd]. rewrite H. reflexivity. Qed.

(* sequencing with a coder whose behaviour is known *)
Lemma interp_bind_done {A B} w (p : dprog A) (f : A -> dprog B) s a s' :
  interp (oracle w) p s = (Done a, s') ->
  interp (oracle w) (bind p f) s = interp (oracle w) (f a) s'.
Proof. intros H. rewrite interp_bind, H. reflexivity. Qed.

(* ---------- bit arithmetic ---------- *)
Lemma M32_small x : x < 4294967296 -> M32 x = x.
Proof.
  intros H. unfold M32. change 4294967295 with (N.ones 32).
  rewrite N.land_ones. apply N.mod_small. exact H.
Qed.

Lemma M8_small x : x < 256 -> M8 x = x.
Proof.
  intros H. unfold M8. change 255 with (N.ones 8).
  rewrite N.land_ones. apply N.mod_small. exact H.
Qed.

Lemma b2n_le1 b : b2n b <= 1.
Proof. destruct b; cbn [b2n]; lia. Qed.

Lemma lxor_double_bit m b : N.lxor (N.shiftl m 1) (b2n b) = 2 * m + b2n b.
Proof.
  rewrite N.shiftl_mul_pow2. change (2 ^ 1) with 2.
  destruct b; cbn [b2n].
  - replace (m * 2) with (N.double m) by (rewrite N.double_spec; lia).
    replace (2 * m + 1) with (N.succ_double m) by (rewrite N.succ_double_spec; lia).
    destruct m; reflexivity.
  - rewrite N.lxor_0_r. lia.
Qed.

Lemma testbit_b2n v k : b2n (N.testbit v k) = (v / 2 ^ k) mod 2.
Proof. rewrite <- N.testbit_spec'. destruct (N.testbit v k); reflexivity. Qed.

Lemma mod_pow2_succ v k : v mod 2 ^ (N.succ k) = b2n (N.testbit v k) * 2 ^ k + v mod 2 ^ k.
Proof.
  rewrite N.pow_succ_r', (N.mul_comm 2), testbit_b2n.
  rewrite N.mod_mul_r by (try apply N.pow_nonzero; lia). lia.
Qed.

Lemma pow2_pos k : 0 < 2 ^ k.
Proof. apply N.neq_0_lt_0, N.pow_nonzero. lia. Qed.

Lemma land_disjoint a c i : a < 2 ^ i -> N.land a (c * 2 ^ i) = 0.
Proof.
  intros H. apply N.bits_inj. intros n. rewrite N.land_spec, N.bits_0.
  destruct (N.lt_ge_cases n i) as [L|G].
  - rewrite N.mul_pow2_bits_low by exact L. apply andb_false_r.
  - rewrite <- (N.mod_small a (2 ^ i)) by exact H.
    rewrite N.mod_pow2_bits_high by exact G. reflexivity.
Qed.

Lemma lxor_disjoint a c i : a < 2 ^ i -> N.lxor a (c * 2 ^ i) = a + c * 2 ^ i.
Proof. intros H. symmetry. apply N.add_nocarry_lxor. apply land_disjoint. exact H. Qed.

Lemma land1_shiftr_bit x k : N.land (N.shiftr x k) 1 = b2n (N.testbit x k).
Proof.
  change 1 with (N.ones 1). rewrite N.land_ones. change (2 ^ 1) with 2.
  rewrite N.shiftr_div_pow2. symmetry. apply testbit_b2n.
Qed.

Lemma land1_bit x : N.land x 1 = b2n (N.testbit x 0).
Proof. rewrite <- (N.shiftr_0_r x) at 1. apply land1_shiftr_bit. Qed.
