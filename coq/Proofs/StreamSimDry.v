(* C05, layer L2 (F3): the dry run of try_process_next (update = false) takes exactly the decisions
   of the real run (update = true): it reads the same probabilities (every probability cell is read
   at most once per symbol, so the updates of the real run are never seen), hence the same bits,
   the same registers and the same input bytes.  Consequence used by the streaming decoder:
   if the dry run succeeds, the real run does not run out of input. *)
From LZ Require Import Base.Prelude Base.Prog Model.Io Model.Tables Model.LzBuffer Model.RangeDec Model.Lzma.
From LZ Require Import Proofs.ProgLemmas Proofs.MapLemmas Proofs.IoLemmas Proofs.Bound20 Proofs.StreamSimAbs.
From Coq Require Import ZifyBool ZifyNat ZifyN.
Ltac Zify.zify_post_hook ::= Z.div_mod_to_equations.
Local Open Scope prog_scope.

(* ====================================================================== *)
(* Cells: setting one does not disturb another                              *)
(* ====================================================================== *)
Lemma tab_get_some_lt t i v : tab_get t i = Some v -> i < t_len t.
Proof. unfold tab_get. destruct (N.ltb_spec i (t_len t)); [auto|discriminate]. Qed.

Lemma len_gso l p p' v : len_get l p <> None -> p <> p' -> len_get (len_set l p v) p' = len_get l p'.
Proof.
  intros Hin Hne.
  destruct p as [| |ps i|ps i|i]; destruct p' as [| |ps' i'|ps' i'|i'];
    cbn [len_get len_set lt_choice lt_choice2 lt_low lt_mid lt_high] in *; try reflexivity; try congruence.
  - destruct (N.ltb_spec ps 16); cbn [andb] in Hin; [|congruence]. destruct (N.ltb_spec i 8); cbn [andb] in Hin; [|congruence].
    destruct (N.ltb_spec ps' 16); cbn [andb]; [|reflexivity]. destruct (N.ltb_spec i' 8); cbn [andb]; [|reflexivity].
    apply tab_get_set_other. intros E. apply Hne. assert (ps' = ps /\ i' = i) as [-> ->] by lia. reflexivity.
  - destruct (N.ltb_spec ps 16); cbn [andb] in Hin; [|congruence]. destruct (N.ltb_spec i 8); cbn [andb] in Hin; [|congruence].
    destruct (N.ltb_spec ps' 16); cbn [andb]; [|reflexivity]. destruct (N.ltb_spec i' 8); cbn [andb]; [|reflexivity].
    apply tab_get_set_other. intros E. apply Hne. assert (ps' = ps /\ i' = i) as [-> ->] by lia. reflexivity.
  - apply tab_get_set_other. intros E. apply Hne. subst. reflexivity.
Qed.

Lemma cell_gso t c c' v : cell_get t c <> None -> c <> c' -> cell_get (cell_set t c v) c' = cell_get t c'.
Proof.
  intros Hin Hne. destruct t as [rows lit ps al pd im ir g0 g1 g2 r0 ln rl].
  destruct c as [i|i|i|i|i|i|row col|ls i|i|i|[|] p];
    destruct c' as [i'|i'|i'|i'|i'|i'|row' col'|ls' i'|i'|i'|[|] p'];
    cbn [cell_get cell_set p_lit_rows p_lit p_pos_slot p_align p_pos_dec p_is_match p_is_rep p_is_rep_g0
         p_is_rep_g1 p_is_rep_g2 p_is_rep_0long p_len p_rep_len] in *; try reflexivity;
    try (apply tab_get_set_other; intros E; apply Hne; subst; reflexivity).
  - destruct (N.ltb_spec row rows); cbn [andb] in Hin; [|congruence]. destruct (N.ltb_spec col 768); cbn [andb] in Hin; [|congruence].
    destruct (N.ltb_spec row' rows); cbn [andb]; [|reflexivity]. destruct (N.ltb_spec col' 768); cbn [andb]; [|reflexivity].
    apply tab_get_set_other. intros E. apply Hne. assert (row' = row /\ col' = col) as [-> ->] by lia. reflexivity.
  - destruct (N.ltb_spec ls 4); cbn [andb] in Hin; [|congruence]. destruct (N.ltb_spec i 64); cbn [andb] in Hin; [|congruence].
    destruct (N.ltb_spec ls' 4); cbn [andb]; [|reflexivity]. destruct (N.ltb_spec i' 64); cbn [andb]; [|reflexivity].
    apply tab_get_set_other. intros E. apply Hne. assert (ls' = ls /\ i' = i) as [-> ->] by lia. reflexivity.
  - apply len_gso; [exact Hin|]. intros E. apply Hne. subst. reflexivity.
  - apply len_gso; [exact Hin|]. intros E. apply Hne. subst. reflexivity.
Qed.

(* ====================================================================== *)
(* The order in which one symbol reads its cells                            *)
(* ====================================================================== *)
Definition lrank (p : lenpart) : N :=
  match p with LChoice => 5 | LChoice2 => 6 | LLow _ i => 7 + i | LMid _ i => 7 + i | LHigh i => 7 + i end.
Definition rank (c : cell) : N :=
  match c with
  | CIsMatch _ => 0
  | CIsRep _ => 1
  | CIsRepG0 _ => 2
  | CIsRep0Long _ => 3
  | CIsRepG1 _ => 3
  | CIsRepG2 _ => 4
  | CLit _ col => 1 + col mod 256
  | CLen _ p => lrank p
  | CPosSlot _ i => 600 + i
  | CPosDec i => 1000 + i
  | CAlign i => 1000 + i
  end.

(* the tables of the real run agree with those of the dry run on all cells not read yet *)
Definition agree (r : N) (t1 t2 : ptabs) : Prop := forall c, r <= rank c -> cell_get t1 c = cell_get t2 c.

(* real world w1, dry world w2 *)
Definition lock (r : N) (w1 w2 : aw) : Prop :=
  a_rc w1 = a_rc w2 /\ a_in w1 = a_in w2 /\ a_win w1 = a_win w2 /\ agree r (a_tabs w1) (a_tabs w2) /\ a_rf w1 = false.

Lemma lock_weaken r r' w1 w2 : lock r w1 w2 -> r <= r' -> lock r' w1 w2.
Proof.
  intros (H1 & H2 & H3 & H4 & H5) Hr. repeat split; try assumption. intros c Hc. apply H4. lia.
Qed.

(* ---------- decode_bit with and without update ---------- *)
Lemma decode_bit_upd r prob i :
  match an_decode_bit r prob false i with
  | (Done (b, _, r'), i') =>
      match an_decode_bit r prob true i with
      | (Done (b1, _, r1), i1) => b1 = b /\ r1 = r' /\ i1 = i'
      | (Failed _, _) => False
      | (Panicked _, _) => True
      end
  | _ => True
  end.
Proof.
  unfold an_decode_bit. cbv zeta. cbn [andb].
  destruct (U32 <=? _); [exact I|].
  destruct (r_code r <? _).
  - destruct (U16 <=? prob); [exact I|].
    destruct (2048 <? prob); [unfold mbind at 1; destruct (an_normalize _ i) as [[x|e|q] i']; exact I|].
    destruct (U16 <=? _); [unfold mbind; destruct (an_normalize _ i) as [[x|e|q] i']; exact I|].
    unfold mbind, mret. destruct (an_normalize _ i) as [[x|e|q] i']; auto.
  - destruct (r_range r <? _); [exact I|].
    unfold mbind, mret. destruct (an_normalize _ i) as [[x|e|q] i']; auto.
Qed.

(* ====================================================================== *)
(* The lock-step judgement                                                  *)
(* ====================================================================== *)
(* [dry_ok Q r r' p1 p2]: started in lock-step (cells of rank >= r unread), if the dry program p2 succeeds
   then the real program p1 either succeeds with a Q-related result, in lock-step (cells >= r' unread),
   or stops without having run out of input. *)
Definition dry_ok {A B} (Q : A -> B -> Prop) (r r' : N) (p1 : dprog A) (p2 : dprog B) : Prop :=
  forall w1 w2, lock r w1 w2 ->
    match interp ah p2 w2 with
    | (Done a2, w2') =>
        match interp ah p1 w1 with
        | (Done a1, w1') => Q a1 a2 /\ lock r' w1' w2'
        | (_, w1') => a_rf w1' = false
        end
    | _ => True
    end.

(* [dry_rf r p1 p2]: ... then the real program does not run out of input *)
Definition dry_rf {A B} (r : N) (p1 : dprog A) (p2 : dprog B) : Prop :=
  forall w1 w2, lock r w1 w2 ->
    match interp ah p2 w2 with
    | (Done _, _) => a_rf (snd (interp ah p1 w1)) = false
    | _ => True
    end.

Lemma dry_ok_bind {A B C D} (Q : A -> B -> Prop) (Q' : C -> D -> Prop) r r' r'' p1 p2 (f1 : A -> dprog C) (f2 : B -> dprog D) :
  dry_ok Q r r' p1 p2 -> (forall a1 a2, Q a1 a2 -> dry_ok Q' r' r'' (f1 a1) (f2 a2)) ->
  dry_ok Q' r r'' (bind p1 f1) (bind p2 f2).
Proof.
  intros Hp Hf w1 w2 Hl. rewrite !interp_bind. specialize (Hp w1 w2 Hl).
  destruct (interp ah p2 w2) as [[a2|e2|q2] w2']; try exact I.
  destruct (interp ah p1 w1) as [[a1|e1|q1] w1'].
  - destruct Hp as [HQ Hl']. exact (Hf a1 a2 HQ w1' w2' Hl').
  - destruct (interp ah (f2 a2) w2') as [[c|e|q] w2'']; auto.
  - destruct (interp ah (f2 a2) w2') as [[c|e|q] w2'']; auto.
Qed.

Lemma dry_rf_bind {A B C D} (Q : A -> B -> Prop) r r' p1 p2 (f1 : A -> dprog C) (f2 : B -> dprog D) :
  dry_ok Q r r' p1 p2 -> (forall a1 a2, Q a1 a2 -> dry_rf r' (f1 a1) (f2 a2)) ->
  dry_rf r (bind p1 f1) (bind p2 f2).
Proof.
  intros Hp Hf w1 w2 Hl. rewrite !interp_bind. specialize (Hp w1 w2 Hl).
  destruct (interp ah p2 w2) as [[a2|e2|q2] w2']; try exact I.
  destruct (interp ah p1 w1) as [[a1|e1|q1] w1'].
  - destruct Hp as [HQ Hl']. exact (Hf a1 a2 HQ w1' w2' Hl').
  - destruct (interp ah (f2 a2) w2') as [[c|e|q] w2'']; auto.
  - destruct (interp ah (f2 a2) w2') as [[c|e|q] w2'']; auto.
Qed.

Lemma dry_ok_pre {A B} (Q : A -> B -> Prop) r0 r r' p1 p2 : dry_ok Q r0 r' p1 p2 -> r <= r0 -> dry_ok Q r r' p1 p2.
Proof. intros H Hr w1 w2 Hl. apply H. eapply lock_weaken; eassumption. Qed.

Lemma dry_ok_post {A B} (Q : A -> B -> Prop) r r' r'' p1 p2 : dry_ok Q r r' p1 p2 -> r' <= r'' -> dry_ok Q r r'' p1 p2.
Proof.
  intros H Hr w1 w2 Hl. specialize (H w1 w2 Hl).
  destruct (interp ah p2 w2) as [[a2|e2|q2] w2']; try exact I.
  destruct (interp ah p1 w1) as [[a1|e1|q1] w1']; try exact H.
  destruct H as [HQ Hl']. split; [exact HQ|]. eapply lock_weaken; eassumption.
Qed.

Lemma dry_rf_pre {A B} r0 r (p1 : dprog A) (p2 : dprog B) : dry_rf r0 p1 p2 -> r <= r0 -> dry_rf r p1 p2.
Proof. intros H Hr w1 w2 Hl. apply H. eapply lock_weaken; eassumption. Qed.

Lemma dry_ok_ret {A B} (Q : A -> B -> Prop) r a1 a2 : Q a1 a2 -> dry_ok Q r r (Ret a1) (Ret a2).
Proof. intros HQ w1 w2 Hl. cbn [interp]. auto. Qed.

Lemma dry_ok_dry_fail {A B} (Q : A -> B -> Prop) r r' p1 e : dry_ok Q r r' p1 (Fail e).
Proof. intros w1 w2 Hl. cbn [interp]. exact I. Qed.
Lemma dry_ok_dry_panic {A B} (Q : A -> B -> Prop) r r' p1 q : dry_ok Q r r' p1 (Panic q).
Proof. intros w1 w2 Hl. cbn [interp]. exact I. Qed.
Lemma dry_rf_dry_fail {A B} r (p1 : dprog A) e : dry_rf r p1 (@Fail decE B e).
Proof. intros w1 w2 Hl. cbn [interp]. exact I. Qed.
Lemma dry_rf_dry_panic {A B} r (p1 : dprog A) q : dry_rf r p1 (@Panic decE B q).
Proof. intros w1 w2 Hl. cbn [interp]. exact I. Qed.

(* ---------- the operations ---------- *)
Lemma dry_ok_bit r c : r <= rank c -> dry_ok eq r (rank c + 1) (dcall (Bit c true)) (dcall (Bit c false)).
Proof.
  intros Hr w1 w2 (Hrc & Hin & Hwin & Hag & Hrf). rewrite !interp_call. cbn [ah].
  rewrite (Hag c Hr). destruct (cell_get (a_tabs w2) c) as [prob|] eqn:Ec; [|exact I].
  rewrite Hrc, Hin. pose proof (decode_bit_upd (a_rc w2) prob (a_in w2)) as H.
  destruct (an_decode_bit (a_rc w2) prob false (a_in w2)) as [[[[b p'] r']|e|q] i']; try exact I.
  destruct (an_decode_bit (a_rc w2) prob true (a_in w2)) as [[[[b1 p1] r1]|e1|q1] i1]; [|contradiction|cbn [a_rf]; exact Hrf].
  destruct H as (-> & -> & ->). split; [reflexivity|].
  unfold lock. cbn [a_rc a_in a_win a_tabs a_rf]. repeat split; try assumption.
  intros c' Hc'. rewrite cell_gso.
  - apply Hag. lia.
  - rewrite (Hag c Hr), Ec. discriminate.
  - intros E. subst c'. lia.
Qed.

Lemma dry_ok_direct r n : dry_ok eq r r (dcall (Direct n)) (dcall (Direct n)).
Proof.
  intros w1 w2 (Hrc & Hin & Hwin & Hag & Hrf). rewrite !interp_call. cbn [ah]. rewrite Hrc, Hin.
  destruct (an_get n (a_rc w2) (a_in w2)) as [[[x r']|e|q] i']; try exact I.
  split; [reflexivity|]. unfold lock. cbn [a_rc a_in a_win a_tabs a_rf]. repeat split; assumption.
Qed.

Lemma dry_ok_wlen r : dry_ok eq r r (dcall WLen) (dcall WLen).
Proof.
  intros w1 w2 Hl. rewrite !interp_call. cbn [ah]. destruct Hl as (Hrc & Hin & Hwin & Hag & Hrf).
  rewrite Hwin. split; [reflexivity|]. repeat split; assumption.
Qed.

Lemma dry_ok_lastor r d : dry_ok eq r r (dcall (WLastOr d)) (dcall (WLastOr d)).
Proof.
  intros w1 w2 (Hrc & Hin & Hwin & Hag & Hrf). rewrite !interp_call. cbn [ah]. rewrite Hwin.
  destruct (win_last_or (a_win w2) d) as [[x|e|q] v]; cbn [alift_win]; try exact I.
  split; [reflexivity|]. unfold lock. cbn [a_rc a_in a_win a_tabs a_rf]. repeat split; assumption.
Qed.

Lemma dry_ok_lastn r d : dry_ok eq r r (dcall (WLastN d)) (dcall (WLastN d)).
Proof.
  intros w1 w2 (Hrc & Hin & Hwin & Hag & Hrf). rewrite !interp_call. cbn [ah]. rewrite Hwin.
  destruct (win_last_n (a_win w2) d) as [[x|e|q] v]; cbn [alift_win]; try exact I.
  split; [reflexivity|]. unfold lock. cbn [a_rc a_in a_win a_tabs a_rf]. repeat split; assumption.
Qed.

(* ---------- programs that do not touch the source ---------- *)
Fixpoint quiet {A} (p : dprog A) : Prop :=
  match p with
  | Vis o k => match o with Bit _ _ => False | Direct _ => False | _ => True end /\ forall x, quiet (k x)
  | _ => True
  end.

Lemma quiet_rf {A} (p : dprog A) : quiet p -> forall w, a_rf (snd (interp ah p w)) = a_rf w.
Proof.
  induction p as [a|e|q|X o k IH]; intros Hq w; cbn [interp snd quiet] in *; try reflexivity.
  destruct Hq as [Ho Hk].
  destruct o as [cl upd|count| | |d|dist|b|len dist]; try contradiction; cbn [ah].
  - destruct (an_finished_ok (a_rc w) (a_in w)) as [[x|e|q] i]; cbn [snd a_rf]; try reflexivity.
    rewrite IH by apply Hk. reflexivity.
  - rewrite IH by apply Hk. reflexivity.
  - destruct (win_last_or (a_win w) d) as [[x|e|q] v]; cbn [alift_win snd a_rf]; try reflexivity. rewrite IH by apply Hk. reflexivity.
  - destruct (win_last_n (a_win w) dist) as [[x|e|q] v]; cbn [alift_win snd a_rf]; try reflexivity. rewrite IH by apply Hk. reflexivity.
  - destruct (win_append_literal (a_win w) b) as [[x|e|q] v]; cbn [alift_win snd a_rf]; try reflexivity. rewrite IH by apply Hk. reflexivity.
  - destruct (win_append_lz (a_win w) len dist) as [[x|e|q] v]; cbn [alift_win snd a_rf]; try reflexivity. rewrite IH by apply Hk. reflexivity.
Qed.

Lemma dry_rf_quiet {A B} r (p1 : dprog A) (p2 : dprog B) : quiet p1 -> dry_rf r p1 p2.
Proof.
  intros Hq w1 w2 Hl. destruct (interp ah p2 w2) as [[a|e|q] w2']; try exact I.
  rewrite quiet_rf by exact Hq. apply Hl.
Qed.

(* ====================================================================== *)
(* The sub-decoders                                                         *)
(* ====================================================================== *)
Lemma tree_step tmp b : tmp * 2 < 4294967296 -> N.lxor (M32 (N.shiftl tmp 1)) (b2n b) = 2 * tmp + b2n b.
Proof. intros Hs. rewrite M32_mod, shl1, N.mod_small by exact Hs. rewrite lxor_bit by lia. lia. Qed.
Lemma rtree_step tmp b : N.lxor (N.shiftl tmp 1) (b2n b) = 2 * tmp + b2n b.
Proof. rewrite shl1, lxor_bit by lia. lia. Qed.

Lemma bit_tree_loop_dry mk base n : (forall j, rank (mk j) = base + j) ->
  forall tmp r, 1 <= tmp -> r <= base + tmp -> (tmp + 1) * 2 ^ N.of_nat n <= 4294967296 ->
  dry_ok eq r (base + (tmp + 1) * 2 ^ N.of_nat n) (bit_tree_loop n mk true tmp) (bit_tree_loop n mk false tmp).
Proof.
  intros Hmk. induction n as [|n IH]; intros tmp r H1 Hr Hb; cbn [bit_tree_loop].
  - apply dry_ok_post with (r' := r); [apply dry_ok_ret; reflexivity|]. change (2 ^ N.of_nat 0) with 1. lia.
  - rewrite Nat2N.inj_succ, N.pow_succ_r' in *.
    eapply dry_ok_bind.
    + apply dry_ok_bit. rewrite Hmk. exact Hr.
    + intros b1 b <-. rewrite Hmk.
      assert (E : N.lxor (M32 (N.shiftl tmp 1)) (b2n b1) = 2 * tmp + b2n b1).
      { apply tree_step. pose proof (N.pow_nonzero 2 (N.of_nat n) ltac:(lia)) as Hp.
        set (q := 2 ^ N.of_nat n) in *. clearbody q. nia. }
      rewrite E. eapply dry_ok_post.
      * apply IH; [pose proof (b2n_le b1); lia|pose proof (b2n_le b1); lia|].
        pose proof (b2n_le b1). set (q := 2 ^ N.of_nat n) in *. clearbody q. nia.
      * pose proof (b2n_le b1). set (q := 2 ^ N.of_nat n) in *. clearbody q. nia.
Qed.

Lemma parse_bit_tree_dry mk base nb r : (forall j, rank (mk j) = base + j) -> r <= base + 1 -> nb <= 8 ->
  dry_ok eq r (base + 2 * 2 ^ nb) (parse_bit_tree nb mk true) (parse_bit_tree nb mk false).
Proof.
  intros Hmk Hr Hnb. unfold parse_bit_tree.
  assert (Hp : 2 * 2 ^ nb <= 512).
  { change 512 with (2 * 2 ^ 8). apply N.mul_le_mono_l. apply N.pow_le_mono_r; lia. }
  eapply dry_ok_bind.
  - eapply dry_ok_post; [apply (bit_tree_loop_dry mk base (N.to_nat nb) Hmk 1 r (N.le_refl 1) Hr)|].
    + rewrite N2Nat.id. lia.
    + rewrite N2Nat.id. instantiate (1 := base + 2 * 2 ^ nb). lia.
  - intros t1 t <-. destruct (t1 <? N.shiftl 1 nb); [apply dry_ok_dry_panic|apply dry_ok_ret; reflexivity].
Qed.

(* the reverse trees *)
Lemma rev_bit_tree_loop_dry mk base offset n : (forall j, rank (mk j) = base + j) ->
  forall i tmp result r, r <= base + offset + tmp -> 1 <= tmp ->
  dry_ok eq r (base + offset + (tmp + 1) * 2 ^ N.of_nat n)
    (rev_bit_tree_loop n i mk offset true tmp result) (rev_bit_tree_loop n i mk offset false tmp result).
Proof.
  intros Hmk. induction n as [|n IH]; intros i tmp result r Hr Ht; cbn [rev_bit_tree_loop].
  - apply dry_ok_post with (r' := r); [apply dry_ok_ret; reflexivity|]. change (2 ^ N.of_nat 0) with 1. lia.
  - rewrite Nat2N.inj_succ, N.pow_succ_r'.
    eapply dry_ok_bind.
    + apply dry_ok_bit. rewrite Hmk. lia.
    + intros b1 b <-. rewrite Hmk.
      assert (E : N.lxor (N.shiftl tmp 1) (b2n b1) = 2 * tmp + b2n b1) by apply rtree_step.
      rewrite E. eapply dry_ok_post.
      * apply IH; pose proof (b2n_le b1); lia.
      * pose proof (b2n_le b1). set (q := 2 ^ N.of_nat n) in *. clearbody q. nia.
Qed.

(* operations in Vis form *)
Lemma dry_ok_vis {X Y A B} (QX : X -> Y -> Prop) (Q : A -> B -> Prop) r r' r'' (o1 : decE X) (o2 : decE Y) k1 k2 :
  dry_ok QX r r' (call o1) (call o2) -> (forall x y, QX x y -> dry_ok Q r' r'' (k1 x) (k2 y)) ->
  dry_ok Q r r'' (Vis o1 k1) (Vis o2 k2).
Proof. intros H1 H2. exact (dry_ok_bind QX Q r r' r'' (call o1) (call o2) k1 k2 H1 H2). Qed.

Lemma dry_rf_vis {X Y A B} (QX : X -> Y -> Prop) r r' (o1 : decE X) (o2 : decE Y) (k1 : X -> dprog A) (k2 : Y -> dprog B) :
  dry_ok QX r r' (call o1) (call o2) -> (forall x y, QX x y -> dry_rf r' (k1 x) (k2 y)) ->
  dry_rf r (Vis o1 k1) (Vis o2 k2).
Proof. intros H1 H2. exact (dry_rf_bind QX r r' (call o1) (call o2) k1 k2 H1 H2). Qed.

Lemma len_decode_dry rep ps r : r <= 5 ->
  dry_ok eq r 600 (len_decode rep ps true) (len_decode rep ps false).
Proof.
  intros Hr. unfold len_decode.
  eapply dry_ok_bind; [apply dry_ok_bit; cbn [rank lrank]; exact Hr|].
  intros c1 c <-. cbn [rank lrank]. destruct (negb c1).
  - eapply dry_ok_post; [apply (parse_bit_tree_dry (fun i => CLen rep (LLow ps i)) 7); [reflexivity|lia|lia]|].
    change (2 ^ 3) with 8. lia.
  - eapply dry_ok_bind; [apply dry_ok_bit; cbn [rank lrank]; lia|].
    intros c2' c2 <-. cbn [rank lrank]. destruct (negb c2').
    + eapply dry_ok_bind.
      * eapply dry_ok_post; [apply (parse_bit_tree_dry (fun i => CLen rep (LMid ps i)) 7); [reflexivity|lia|lia]|].
        instantiate (1 := 600). change (2 ^ 3) with 8. lia.
      * intros v1 v <-. apply dry_ok_ret. reflexivity.
    + eapply dry_ok_bind.
      * eapply dry_ok_post; [apply (parse_bit_tree_dry (fun i => CLen rep (LHigh i)) 7); [reflexivity|lia|lia]|].
        instantiate (1 := 600). change (2 ^ 8) with 256. lia.
      * intros v1 v <-. apply dry_ok_ret. reflexivity.
Qed.

(* literals: the cell index is 256 * k + result with result < 256 strictly increasing *)
Definition lit_pre (result r : N) : Prop := 1 <= result /\ r <= 257 /\ (result < 256 -> r <= 1 + result).

Lemma lit_step result b : 1 <= result -> result < 256 -> lit_pre (N.lxor (N.shiftl result 1) (b2n b)) (1 + result + 1).
Proof.
  intros H1 H2. rewrite shl1, lxor_bit by lia. pose proof (b2n_le b). unfold lit_pre. lia.
Qed.

Lemma lit_plain_loop_dry row f : forall result r, lit_pre result r ->
  dry_ok eq r 257 (lit_plain_loop f row true result) (lit_plain_loop f row false result).
Proof.
  induction f as [|f IH]; intros result r (H1 & H2 & H3); cbn [lit_plain_loop].
  - eapply dry_ok_post; [apply dry_ok_ret; reflexivity|exact H2].
  - destruct (N.leb_spec 256 result) as [Hge|Hlt].
    + eapply dry_ok_post; [apply dry_ok_ret; reflexivity|exact H2].
    + eapply dry_ok_bind.
      * apply dry_ok_bit. cbn [rank]. rewrite N.mod_small by lia. apply H3. exact Hlt.
      * intros b1 b <-. cbn [rank]. rewrite N.mod_small by lia. apply IH. apply lit_step; assumption.
Qed.

Lemma lit_loops_dry {C D} (Q : C -> D -> Prop) row r'' (g1 : N -> dprog C) (g2 : N -> dprog D) :
  (forall res r, lit_pre res r -> dry_ok Q r r'' (g1 res) (g2 res)) ->
  forall f mb result r, lit_pre result r ->
    dry_ok Q r r'' (bind (lit_matched_loop f row true mb result) g1) (bind (lit_matched_loop f row false mb result) g2).
Proof.
  intros Hg. induction f as [|f IH]; intros mb result r Hpre; cbn [lit_matched_loop].
  - cbn [bind]. apply Hg. exact Hpre.
  - destruct Hpre as (H1 & H2 & H3).
    destruct (N.leb_spec 256 result) as [Hge|Hlt]; [cbn [bind]; apply Hg; repeat split; assumption|].
    cbn [bind call].
    assert (Hm : N.land (N.shiftr mb 7) 1 <= 1).
    { change 1 with (N.ones 1) at 1. rewrite N.land_ones. change (2 ^ 1) with 2. lia. }
    set (mbit := N.land (N.shiftr mb 7) 1) in *. clearbody mbit.
    assert (Hrk : rank (CLit row (N.shiftl (1 + mbit) 8 + result)) = 1 + result).
    { cbn [rank]. rewrite N.shiftl_mul_pow2. change (2 ^ 8) with 256. lia. }
    eapply dry_ok_vis.
    + apply dry_ok_bit. rewrite Hrk. apply H3. exact Hlt.
    + intros b1 b <-. rewrite Hrk.
      pose proof (lit_step result b1 H1 Hlt) as Hpre'.
      destruct (mbit =? b2n b1).
      * apply IH. exact Hpre'.
      * cbn [bind]. apply Hg. exact Hpre'.
Qed.

Lemma decode_literal_dry p y r : r <= 2 ->
  dry_ok eq r 257 (decode_literal p y true) (decode_literal p y false).
Proof.
  intros Hr. unfold decode_literal.
  eapply dry_ok_bind; [apply dry_ok_lastor|]. intros prev1 prev <-.
  eapply dry_ok_bind; [apply dry_ok_wlen|]. intros len1 len <-.
  destruct (8 <? lc p); [apply dry_ok_dry_panic|]. cbv zeta.
  set (row := N.shiftl (N.land len1 (N.shiftl 1 (lp p) - 1)) (lc p) + N.shiftr prev1 (8 - lc p)). clearbody row.
  assert (HG : forall res r0, lit_pre res r0 ->
    dry_ok eq r0 257
      (result <- lit_plain_loop 8 row true res ;; (if result <? 256 then Panic (POverflow 31) else Ret (M8 (result - 256))))
      (result <- lit_plain_loop 8 row false res ;; (if result <? 256 then Panic (POverflow 31) else Ret (M8 (result - 256))))).
  { intros res r0 Hpre. eapply dry_ok_bind; [apply lit_plain_loop_dry; exact Hpre|].
    intros x1 x <-. destruct (x1 <? 256); [apply dry_ok_dry_panic|apply dry_ok_ret; reflexivity]. }
  destruct (7 <=? y_state y).
  - cbn [bind call]. eapply dry_ok_vis; [apply dry_ok_lastn|]. intros mb1 mb <-.
    apply lit_loops_dry; [exact HG|]. unfold lit_pre. lia.
  - cbn [bind]. apply HG. unfold lit_pre. lia.
Qed.

(* a post-rank that may depend on the path *)
Definition dry_okE {A B} (Q : A -> B -> Prop) (r : N) (p1 : dprog A) (p2 : dprog B) : Prop :=
  forall w1 w2, lock r w1 w2 ->
    match interp ah p2 w2 with
    | (Done a2, w2') =>
        match interp ah p1 w1 with
        | (Done a1, w1') => Q a1 a2 /\ exists r', lock r' w1' w2'
        | (_, w1') => a_rf w1' = false
        end
    | _ => True
    end.

Lemma dry_okE_of {A B} (Q : A -> B -> Prop) r r' p1 p2 : dry_ok Q r r' p1 p2 -> dry_okE Q r p1 p2.
Proof.
  intros H w1 w2 Hl. specialize (H w1 w2 Hl).
  destruct (interp ah p2 w2) as [[a2|e2|q2] w2']; try exact I.
  destruct (interp ah p1 w1) as [[a1|e1|q1] w1']; try exact H.
  destruct H as [HQ Hl']. split; [exact HQ|]. exists r'. exact Hl'.
Qed.

Lemma dry_okE_bind {A B C D} (Q : A -> B -> Prop) (Q' : C -> D -> Prop) r r' p1 p2 (f1 : A -> dprog C) (f2 : B -> dprog D) :
  dry_ok Q r r' p1 p2 -> (forall a1 a2, Q a1 a2 -> dry_okE Q' r' (f1 a1) (f2 a2)) ->
  dry_okE Q' r (bind p1 f1) (bind p2 f2).
Proof.
  intros Hp Hf w1 w2 Hl. rewrite !interp_bind. specialize (Hp w1 w2 Hl).
  destruct (interp ah p2 w2) as [[a2|e2|q2] w2']; try exact I.
  destruct (interp ah p1 w1) as [[a1|e1|q1] w1'].
  - destruct Hp as [HQ Hl']. exact (Hf a1 a2 HQ w1' w2' Hl').
  - destruct (interp ah (f2 a2) w2') as [[c|e|q] w2'']; auto.
  - destruct (interp ah (f2 a2) w2') as [[c|e|q] w2'']; auto.
Qed.

Lemma dry_rf_bindE {A B C D} (Q : A -> B -> Prop) r p1 p2 (f1 : A -> dprog C) (f2 : B -> dprog D) :
  dry_okE Q r p1 p2 -> (forall a1 a2 r', Q a1 a2 -> dry_rf r' (f1 a1) (f2 a2)) ->
  dry_rf r (bind p1 f1) (bind p2 f2).
Proof.
  intros Hp Hf w1 w2 Hl. rewrite !interp_bind. specialize (Hp w1 w2 Hl).
  destruct (interp ah p2 w2) as [[a2|e2|q2] w2']; try exact I.
  destruct (interp ah p1 w1) as [[a1|e1|q1] w1'].
  - destruct Hp as [HQ [r' Hl']]. exact (Hf a1 a2 r' HQ w1' w2' Hl').
  - destruct (interp ah (f2 a2) w2') as [[c|e|q] w2'']; auto.
  - destruct (interp ah (f2 a2) w2') as [[c|e|q] w2'']; auto.
Qed.

Lemma decode_distance_dry len r : r <= 601 ->
  dry_okE eq r (decode_distance len true) (decode_distance len false).
Proof.
  intros Hr. unfold decode_distance. cbv zeta.
  eapply dry_okE_bind.
  - apply (parse_bit_tree_dry (fun i => CPosSlot (if 3 <? len then 3 else len) i) 600); [reflexivity|lia|lia].
  - intros ps1 ps <-. change (600 + 2 * 2 ^ 6) with 728.
    destruct (ps1 <? 4); [apply (dry_okE_of _ 728 728); apply dry_ok_ret; reflexivity|].
    destruct (ps1 <? 14).
    + destruct (_ <? ps1); [apply (dry_okE_of _ 728 728); apply dry_ok_dry_panic|].
      eapply dry_okE_of. eapply dry_ok_bind.
      * unfold parse_reverse_bit_tree. apply (rev_bit_tree_loop_dry (fun i => CPosDec i) 1000); [reflexivity|lia|lia].
      * intros x1 x <-. apply dry_ok_ret. reflexivity.
    + eapply dry_okE_of. eapply dry_ok_bind; [apply dry_ok_direct|]. intros d1 d <-.
      eapply dry_ok_bind.
      * unfold parse_reverse_bit_tree. apply (rev_bit_tree_loop_dry (fun i => CAlign i) 1000); [reflexivity|lia|lia].
      * intros x1 x <-. apply dry_ok_ret. reflexivity.
Qed.

(* ====================================================================== *)
(* The three arms and the symbol                                            *)
(* ====================================================================== *)
Lemma lit_arm_dry p y r : r <= 2 -> dry_rf r (lit_arm p y true) (lit_arm p y false).
Proof.
  intros Hr. unfold lit_arm. cbv zeta.
  eapply dry_rf_bind; [apply decode_literal_dry; exact Hr|].
  intros b1 b <-. apply dry_rf_quiet. cbn [bind call quiet]. auto.
Qed.

Lemma rep_tail_quiet (len st : N) (r' : reps) :
  quiet (dcall (WAppendLz (len + 2) (rep0 r' + 1)) ;;; Ret (Continue, mkSym (if st <? 7 then 8 else 11) r')).
Proof. cbn [bind call quiet]. auto. Qed.

Lemma rep_arm_dry y ps r : r <= 2 -> dry_rf r (rep_arm y ps true) (rep_arm y ps false).
Proof.
  intros Hr. unfold rep_arm, rep_select. cbv zeta. cbn [bind call].
  assert (HL : forall r0 (r1 : reps), r0 <= 5 ->
     dry_rf r0 (len <- len_decode true ps true ;; dcall (WAppendLz (len + 2) (rep0 r1 + 1)) ;;;
                        Ret (Continue, mkSym (if y_state y <? 7 then 8 else 11) r1))
               (len <- len_decode true ps false ;; Ret (Continue, y))).
  { intros r0 r1 H0. eapply dry_rf_bind; [apply len_decode_dry; exact H0|].
    intros l1 l <-. apply dry_rf_quiet. apply rep_tail_quiet. }
  eapply dry_rf_vis; [apply dry_ok_bit; cbn [rank]; exact Hr|]. intros g0' g0 <-. cbn [rank].
  destruct (negb g0').
  - cbn [bind]. eapply dry_rf_vis; [apply dry_ok_bit; cbn [rank]; lia|]. intros l0' l0 <-. cbn [rank].
    destruct (negb l0'); cbn [bind].
    + apply dry_rf_quiet. cbn [quiet]. auto.
    + apply HL. lia.
  - cbn [bind]. eapply dry_rf_vis; [apply dry_ok_bit; cbn [rank]; lia|]. intros g1' g1 <-. cbn [rank].
    destruct (negb g1'); cbn [bind].
    + apply HL. lia.
    + eapply dry_rf_vis; [apply dry_ok_bit; cbn [rank]; lia|]. intros g2' g2 <-. cbn [rank bind].
      apply HL. lia.
Qed.

Lemma match_arm_dry y ps r : r <= 2 -> dry_rf r (match_arm y ps true) (match_arm y ps false).
Proof.
  intros Hr. unfold match_arm. cbv zeta.
  eapply dry_rf_bind; [apply len_decode_dry; lia|]. intros l1 l <-.
  eapply dry_rf_bindE; [apply decode_distance_dry; lia|]. intros d1 d r' <-.
  apply dry_rf_quiet. destruct (d1 =? 4294967295); cbn [bind call quiet].
  - split; [exact I|]. intros fin. destruct fin; exact I.
  - auto.
Qed.

Theorem process_next_inner_dry_rf p y :
  dry_rf 0 (process_next_inner p y true) (process_next_inner p y false).
Proof.
  unfold process_next_inner.
  eapply dry_rf_bind; [apply dry_ok_wlen|]. intros len1 len <-.
  destruct (63 <? pb p); [apply dry_rf_dry_panic|]. cbv zeta.
  eapply dry_rf_bind; [apply dry_ok_bit; cbn [rank]; lia|]. intros m1 m <-. cbn [rank].
  destruct (negb m1).
  - apply lit_arm_dry. lia.
  - eapply dry_rf_bind; [apply dry_ok_bit; cbn [rank]; lia|]. intros r1 r <-. cbn [rank].
    destruct r1; [apply rep_arm_dry; lia|apply match_arm_dry; lia].
Qed.

(* F3 (the direction the streaming decoder relies on), on the abstract handler:
   if the dry run of a symbol succeeds, the real run on the same objects does not run out of input. *)
Theorem dry_run_ok_real_run_fed p y w a w' :
  a_rf w = false ->
  interp ah (process_next_inner p y false) w = (Done a, w') ->
  a_rf (snd (interp ah (process_next_inner p y true) w)) = false.
Proof.
  intros Hrf Hdry.
  assert (Hl : lock 0 w w) by (repeat split; try reflexivity; exact Hrf).
  pose proof (process_next_inner_dry_rf p y w w Hl) as H. rewrite Hdry in H. exact H.
Qed.
Print Assumptions dry_run_ok_real_run_fed.
