(* Cut-short inputs, LZMA2 layer: parse_lzma, parse_uncompressed, the chunk loop and lzma2_decompress on a
   truncated source and on the full source proceed in lock step, or the truncated run fails, or the full run fails.
   Also: a compressed chunk whose declared packed size is reduced below what its payload consumes is rejected. *)
From LZ Require Import Base.Prelude Base.Prog Model.Io Model.Tables Model.LzBuffer Model.RangeDec Model.Lzma Model.Lzma2
  Proofs.ProgLemmas Proofs.IoLemmas Proofs.FragIo Proofs.FragLzma Proofs.FragLzma2 Proofs.Lzma2Inv
  Proofs.CutShortIo Proofs.CutShortLzma.
From Coq Require Import ZifyBool ZifyNat ZifyN.
Local Open Scope prog_scope.

Definition w2R (E : N) (x1 x2 : w2) : Prop :=
  w_ds x1 = w_ds x2 /\ ds_pib (w_ds x1) = [] /\ w_acc x1 = w_acc x2 /\ tr E E (w_src x1) (w_src x2).

Lemma w2R_mk E d a s1 s2 : ds_pib d = [] -> tr E E s1 s2 -> w2R E (mkW2 d s1 a) (mkW2 d s2 a).
Proof. intros Hp H. unfold w2R. cbn [w_ds w_acc w_src]. repeat split; try reflexivity; try assumption; apply H. Qed.

Lemma w2_src3 E {A} (p : iop A) x1 x2 : Tw2 p -> w2R E x1 x2 ->
  tw3 (w2R E) (w2_src x1 (src_run p (w_src x1))) (w2_src x2 (src_run p (w_src x2))).
Proof.
  intros Hp (E1 & Hpib & E3 & Htr).
  destruct (Tw2_src_run p Hp E E _ _ Htr) as [[Hf Hs]|[x Hx]].
  - left. unfold w2_src. cbn [fst snd]. split; [exact Hf|]. rewrite <- E1, <- E3. apply w2R_mk; assumption.
  - right; left. exists x. unfold w2_src. cbn [fst]. exact Hx.
Qed.

(* goal: tw3 R (match X1 with ..) (match X2 with ..) where both matches propagate Failed / Panicked *)
Ltac tw_step lem y1 y2 v :=
  match goal with
  | |- tw3 ?R (match ?X1 with _ => _ end) (match ?X2 with _ => _ end) =>
      let H := fresh "H" in
      let o1 := fresh "o" in let o2 := fresh "o" in
      let Hf := fresh "Hf" in let Hr := fresh "Hr" in
      let x := fresh "x" in let Hx := fresh "Hx" in
      assert (H : tw3 R X1 X2) by lem;
      revert H; destruct X1 as [o1 y1]; destruct X2 as [o2 y2];
      intros [[Hf Hr]|[[x Hx]|[x Hx]]];
      [ cbn [fst snd] in Hf, Hr; subst o2; destruct o1 as [v| |];
        [ | left; cbn [fst snd]; split; [reflexivity|assumption] | left; cbn [fst snd]; split; [reflexivity|assumption] ]
      | cbn [fst] in Hx; subst o1; right; left; exists x; reflexivity
      | cbn [fst] in Hx; subst o2; right; right; exists x; reflexivity ]
  end.

Lemma pl_dict3 E b x1 x2 : w2R E x1 x2 -> tw3 (w2R E) (pl_dict b x1) (pl_dict b x2).
Proof.
  intros H. unfold pl_dict. destruct b; [|left; split; [reflexivity|exact H]].
  destruct H as (E1 & Hpib & E3 & Htr). rewrite <- E1, <- E3.
  destruct (accum_reset (w_acc x1)) as [r a]. left. split; [reflexivity|]. cbn [snd]. apply w2R_mk; assumption.
Qed.

Lemma pl_props3 E b1 b2 x1 x2 : w2R E x1 x2 -> tw3 (w2R E) (pl_props b1 b2 x1) (pl_props b1 b2 x2).
Proof.
  intros H0. unfold pl_props. destruct b1; [|left; split; [reflexivity|exact H0]]. cbv zeta.
  match goal with
  | |- tw3 _ (match ?X1 with _ => _ end) (match ?X2 with _ => _ end) =>
      assert (H : tw3 (w2R E) X1 X2)
  end.
  { destruct b2.
    - tw_step ltac:(apply w2_src3; [apply Tw2_map, Tw2_read_u8|exact H0]) v1 v2 pbyte.
      destruct (225 <=? pbyte); [left; cbn [fst snd]; split; [reflexivity|assumption]|]. cbv zeta.
      destruct (4 <? pbyte mod 9 + (pbyte / 9) mod 5); left; cbn [fst snd]; (split; [reflexivity|assumption]).
    - assert (E1 : w_ds x1 = w_ds x2) by apply H0. rewrite <- E1.
      left. split; [reflexivity|exact H0]. }
  tw_step ltac:(exact H) v1 v2 np.
  pose proof Hr as Hr'. destruct Hr as (E1 & Hpib & E3 & Hsd). rewrite <- E1, <- E3.
  destruct (reset_state (w_ds v1) np) as [[d'|x|q] u] eqn:Er; left.
  - split; [reflexivity|]. cbn [snd]. apply w2R_mk; [|assumption].
    rewrite (reset_state_pib _ _ _ _ Er). assumption.
  - split; [reflexivity|exact Hr'].
  - split; [reflexivity|exact Hr'].
Qed.

(* the payload of a compressed chunk, with possibly different declared packed sizes *)
Lemma pl_payload_gen E e fuel u p1 p2 d a s1 s2 :
  ds_pib d = [] -> tr E e (set_limit s1 (Some p1)) (set_limit s2 (Some p2)) ->
  (fst (pl_payload fuel u p1 (mkW2 d s1 a)) = fst (pl_payload fuel u p2 (mkW2 d s2 a)) /\
   w2R E (snd (pl_payload fuel u p1 (mkW2 d s1 a))) (snd (pl_payload fuel u p2 (mkW2 d s2 a))) /\
   s_pos (w_src (snd (pl_payload fuel u p1 (mkW2 d s1 a)))) <= e)
  \/ failed (pl_payload fuel u p1 (mkW2 d s1 a)) \/ failed (pl_payload fuel u p2 (mkW2 d s2 a)).
Proof.
  intros Hpib Htr. unfold pl_payload. cbn [w_ds w_src w_acc]. cbv zeta.
  set (d' := set_unpacked_size d _).
  assert (Hpib' : ds_pib d' = []) by exact Hpib.
  assert (Hi : HeadInv d') by (intros C; discriminate C).
  clearbody d'.
  destruct (Tw2_src_run _ (Tw2_map ELzma _ Tw2_rc_new) E e _ _ Htr) as [[Hf Hs]|[x Hx]].
  2:{ destruct (src_run (map_io_err ELzma rc_new) (set_limit s1 (Some p1))) as [o1 t1]. cbn [fst] in Hx. subst o1.
      right; left. exists x. reflexivity. }
  destruct (src_run (map_io_err ELzma rc_new) (set_limit s1 (Some p1))) as [o t1].
  destruct (src_run (map_io_err ELzma rc_new) (set_limit s2 (Some p2))) as [o2 t2]. cbn [fst snd] in Hf, Hs. subst o2.
  destruct o as [r|x|q];
    try (left; cbn [fst snd w_src]; split; [reflexivity|]; split;
         [apply w2R_mk; [assumption|eapply tr_unlimit; eassumption]|apply (tr_bound _ _ _ _ Hs)]).
  pose proof (process_mode3 E e fuel (mkLw d' r t1 (WAccum a)) (mkLw d' r t2 (WAccum a))
              (conj (lwR0_mk _ _ _ _ _ _ _ Hpib' Hs) Hi)) as H3.
  destruct (process_mode FinishMode fuel (mkLw d' r t1 (WAccum a))) as [o1 y1].
  destruct (process_mode FinishMode fuel (mkLw d' r t2 (WAccum a))) as [o2 y2].
  destruct H3 as [[Gf Gr]|[[x Hx]|[x Hx]]]; cbn [fst snd] in *.
  - subst o2. destruct Gr as (F1 & Fp & F2 & F3 & Fs). left.
    split; [reflexivity|]. split; [|apply (tr_bound _ _ _ _ Fs)].
    rewrite <- F1, <- F3. apply w2R_mk; [assumption|]. eapply tr_unlimit; eassumption.
  - subst o1. right; left. exists x. reflexivity.
  - subst o2. right; right. exists x. reflexivity.
Qed.

Lemma pl_payload3 E fuel u p x1 x2 : w2R E x1 x2 -> tw3 (w2R E) (pl_payload fuel u p x1) (pl_payload fuel u p x2).
Proof.
  destruct x1 as [d s1 a], x2 as [d2 s2 a2]. intros (E1 & Hpib & E3 & Htr). cbn [w_ds w_acc w_src] in *. subst d2 a2.
  destruct (pl_payload_gen E _ fuel u p p d a s1 s2 Hpib (tr_set_limit E E s1 s2 p Htr)) as [(H1 & H2 & _)|[H|H]].
  - left. split; assumption.
  - right; left. exact H.
  - right; right. exact H.
Qed.

Theorem parse_lzma3 E fuel status x1 x2 : w2R E x1 x2 ->
  tw3 (w2R E) (parse_lzma fuel status x1) (parse_lzma fuel status x2).
Proof.
  intros H0. rewrite !parse_lzma_eq.
  destruct (N.land status 128 =? 0); [left; split; [reflexivity|exact H0]|].
  tw_step ltac:(apply w2_src3; [apply Tw2_map, Tw2_read_u16_be|exact H0]) y1 y2 us16.
  tw_step ltac:(apply w2_src3; [apply Tw2_map, Tw2_read_u16_be|assumption]) z1 z2 ps16.
  tw_step ltac:(apply pl_dict3; assumption) u1 u2 tt1.
  tw_step ltac:(apply pl_props3; assumption) v1 v2 tt2.
  apply pl_payload3. assumption.
Qed.

Theorem parse_uncompressed3 E b x1 x2 : w2R E x1 x2 ->
  tw3 (w2R E) (parse_uncompressed b x1) (parse_uncompressed b x2).
Proof.
  intros H0. unfold parse_uncompressed.
  tw_step ltac:(apply w2_src3; [apply Tw2_map, Tw2_read_u16_be|exact H0]) y1 y2 us16.
  cbv zeta.
  tw_step ltac:(apply (pl_dict3 E b); assumption) u1 u2 tt1.
  tw_step ltac:(apply w2_src3; [apply Tw2_map, Tw2_read_exact|assumption]) z1 z2 bs.
  destruct Hr1 as (E1 & Hpib & E3 & Hsd). rewrite <- E1, <- E3.
  left. split; [reflexivity|]. cbn [snd]. apply w2R_mk; assumption.
Qed.

Lemma l2_body3 E fuel x1 x2 : w2R E x1 x2 -> step3 (w2R E) (w2R E) (l2_body fuel x1) (l2_body fuel x2).
Proof.
  intros H0. unfold l2_body.
  pose proof (w2_src3 E (map_io_err ELzma read_u8) x1 x2 (Tw2_map _ _ Tw2_read_u8) H0) as H.
  revert H. destruct (w2_src x1 _) as [o1 y1]. destruct (w2_src x2 _) as [o2 y2].
  intros [[Hf Hr]|[[x Hx]|[x Hx]]]; cbn [fst snd] in *.
  2:{ subst o1. right; left. eexists. split; [reflexivity|]. exists x. reflexivity. }
  2:{ subst o2. right; right. eexists. split; [reflexivity|]. exists x. reflexivity. }
  subst o2.
  destruct o1 as [status|x|q]; try (left; cbn [fst snd]; split; [reflexivity|assumption]).
  destruct (status =? 0); [left; cbn [fst snd]; split; [reflexivity|assumption]|].
  match goal with
  | |- step3 _ _ (match ?X1 with _ => _ end) (match ?X2 with _ => _ end) =>
      assert (H : tw3 (w2R E) X1 X2)
  end.
  { destruct (status =? 1); [apply parse_uncompressed3; assumption|].
    destruct (status =? 2); [apply parse_uncompressed3; assumption|].
    apply parse_lzma3; assumption. }
  revert H.
  match goal with
  | |- tw3 _ ?X1 ?X2 -> _ => destruct X1 as [r1 z1]; destruct X2 as [r2 z2]
  end.
  intros [[Hf' Hr']|[[x Hx]|[x Hx]]]; cbn [fst snd] in *.
  - subst r2. left. destruct r1 as [u|x|q]; cbn [fst snd]; try (split; [reflexivity|assumption]). assumption.
  - subst r1. right; left. eexists. split; [reflexivity|]. exists x. reflexivity.
  - subst r2. right; right. eexists. split; [reflexivity|]. exists x. reflexivity.
Qed.

Theorem lzma2_decompress3 E fuel dec w1 w2 :
  ds_pib (l2_state dec) = [] -> trio E E w1 w2 ->
  (fst (lzma2_decompress fuel dec w1) = fst (lzma2_decompress fuel dec w2) /\
   tr E E (src_of_res (lzma2_decompress fuel dec w1)) (src_of_res (lzma2_decompress fuel dec w2)))
  \/ failed (lzma2_decompress fuel dec w1) \/ failed (lzma2_decompress fuel dec w2).
Proof.
  destruct w1 as [s1 k1], w2 as [s2 k2]. intros Hp [Htr Hk]. cbn [i_src i_snk] in *. subst k2.
  unfold lzma2_decompress, src_of_res. cbv zeta. cbn [i_src i_snk].
  set (a0 := accum_new k1 (USIZE - 1)).
  match goal with
  | |- (fst (match ?a with _ => _ end) = fst (match ?b with _ => _ end) /\ _) \/ _ =>
      assert (L : step3 (w2R E) (w2R E) a b) by (apply loopN3; [apply l2_body3|apply w2R_mk; assumption]);
      destruct a as [t1|[o1 y1]]; destruct b as [t2|[o2 y2]]
  end; destruct L as [L|[(r & Er & x & Hx)|(r & Er & x & Hx)]]; try contradiction; try discriminate Er;
    try (inversion Er; subst r; cbn [fst] in Hx; subst;
         first [right; left; exists x; reflexivity|right; right; exists x; reflexivity]).
  - destruct L as (E1 & _ & E3 & Hs). rewrite <- E1, <- E3. left. cbn [fst snd i_src]. split; [reflexivity|exact Hs].
  - destruct L as [Hf (E1 & _ & E3 & Hs)]. cbn [fst snd] in *. subst o2. rewrite <- E1, <- E3. left.
    destruct o1 as [u|x|q].
    + destruct (accum_finish (w_acc y1)) as [r k]. cbn [fst snd i_src]. split; [reflexivity|exact Hs].
    + cbn [fst snd i_src]. split; [reflexivity|exact Hs].
    + cbn [fst snd i_src]. split; [reflexivity|exact Hs].
Qed.

Theorem lzma2_decompress_top3 E fuel w1 w2 : trio E E w1 w2 ->
  (fst (lzma2_decompress_top fuel w1) = fst (lzma2_decompress_top fuel w2) /\
   tr E E (i_src (snd (lzma2_decompress_top fuel w1))) (i_src (snd (lzma2_decompress_top fuel w2))))
  \/ failed (lzma2_decompress_top fuel w1) \/ failed (lzma2_decompress_top fuel w2).
Proof.
  intros H. unfold lzma2_decompress_top.
  destruct lzma2_new as [dec|x|q] eqn:En; try (left; split; [reflexivity|apply H]).
  assert (Hp : ds_pib (l2_state dec) = []).
  { revert En. unfold lzma2_new, dstate_new. destruct (negb (props_valid props0)); [discriminate|].
    intros E0. inversion E0. reflexivity. }
  pose proof (lzma2_decompress3 E fuel dec w1 w2 Hp H) as H3. unfold src_of_res, failed in *.
  destruct (lzma2_decompress fuel dec w1) as [r1 [d1 v1]].
  destruct (lzma2_decompress fuel dec w2) as [r2 [d2 v2]].
  cbn [fst snd] in *. exact H3.
Qed.

(* ====================================================================== *)
(* General consequences                                                     *)
(* ====================================================================== *)
Theorem lzma2_cut_short_general fuel D more frag frag' k w2' :
  lzma2_decompress_top fuel (mkIo (src_of (D ++ more) frag None) k) = (Done tt, w2') ->
  nlen D < s_pos (i_src w2') ->
  exists x w1', lzma2_decompress_top fuel (mkIo (src_of D frag' None) k) = (Failed x, w1').
Proof.
  intros Hrun Hlt.
  destruct (lzma2_decompress_top3 (nlen D) fuel (mkIo (src_of D frag' None) k) (mkIo (src_of (D ++ more) frag None) k))
    as [[Hf Hs]|[[x Hx]|[x Hx]]].
  - split; [apply tr_src_of|reflexivity].
  - rewrite Hrun in Hs. cbn [fst snd] in Hs. pose proof (tr_pos _ _ _ _ Hs). pose proof (tr_bound _ _ _ _ Hs). lia.
  - destruct (lzma2_decompress_top fuel (mkIo (src_of D frag' None) k)) as [r1 w1']. cbn [fst] in Hx. subst r1.
    exists x, w1'. reflexivity.
  - rewrite Hrun in Hx. discriminate Hx.
Qed.
Print Assumptions lzma2_cut_short_general.

(* a payload that was decoded with Take(p) and consumed n bytes fails under every Take(m) with m < n *)
Theorem pl_payload_short fuel u m p w w' :
  FaultFreeL (w_src w) -> ds_pib (w_ds w) = [] -> m <= p ->
  pl_payload fuel u p w = (Done tt, w') -> s_pos (w_src w) + m < s_pos (w_src w') ->
  exists x w'', pl_payload fuel u m w = (Failed x, w'').
Proof.
  destruct w as [d s a]. cbn [w_ds w_src w_acc]. intros Hs Hpib Hmp Hrun Hpos.
  destruct (pl_payload_gen _ _ fuel u m p d a s s Hpib (tr_two_limits s m p Hs Hmp)) as [(H1 & H2 & H3)|[[x Hx]|[x Hx]]].
  - rewrite Hrun in H2. cbn [snd] in H2. destruct H2 as (_ & _ & _ & Htr). pose proof (tr_pos _ _ _ _ Htr). lia.
  - destruct (pl_payload fuel u m (mkW2 d s a)) as [r1 w'']. cbn [fst] in Hx. subst r1. exists x, w''. reflexivity.
  - rewrite Hrun in Hx. discriminate Hx.
Qed.
Print Assumptions pl_payload_short.
