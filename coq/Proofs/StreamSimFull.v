(* C05, layer L6: the streaming decoder under the driver equals the one-shot decoder. *)
From LZ Require Import Base.Prelude Base.Prog Model.Io Model.Tables Model.LzBuffer Model.RangeDec Model.Lzma Model.Stream.
From LZ Require Import Proofs.ProgLemmas Proofs.IoLemmas Proofs.Bound20 Proofs.Bound20Run Proofs.NoPanic Proofs.NoPanicWorld Proofs.StreamLatch.
From LZ Require Import Proofs.StreamSimAbs Proofs.StreamSimSym Proofs.StreamSimBody Proofs.StreamSimMark Proofs.StreamSimCall
  Proofs.StreamSimLoop Proofs.StreamSimData Proofs.StreamSimHeader.
From Coq Require Import ZifyBool ZifyNat ZifyN.
Local Open Scope prog_scope.

(* ====================================================================== *)
(* The statement                                                            *)
(* ====================================================================== *)
Definition is_byte_string (bs : list N) : Prop := Forall (fun b => b < 256) bs.

(* C05 as asked for: for every chunking the driver and the one-shot decoder agree *)
Definition stream_equals_oneshot_statement : Prop :=
  (forall (o : options) (k : snk) (bs : list N) (pieces : list (list N)),
     o_allow_incomplete o = false -> is_byte_string bs -> bs <> [] -> concat pieces = bs ->
     let d := drive (stream_new o k) pieces in
     let w := lzma_decompress big_fuel o (mkIo (cursor_of bs) k) in
     same_verdict (fst d) (fst w) /\ (fst d = Done tt -> snk_bytes (snd d) = snk_bytes (i_snk (snd w)))) /\
  (forall o k, stream_finish (stream_new o k) = (Done tt, k)).

(* ====================================================================== *)
(* The one-shot loop never panics                                           *)
(* ====================================================================== *)
Lemma oeval_nopanic n A R : oeval n A R -> AInv A -> ds_pib (x_ds A) = [] -> forall q, fst R <> Panicked q.
Proof.
  induction 1 as [A R OB|n A A' R OB Hev IH]; intros HI Hp q.
  - rewrite (obody_unfold A Hp) in OB. destruct (ahead FinishMode A); [inversion OB; discriminate|].
    pose proof (arun_inv true A HI) as Hinv.
    destruct (arun true A) as [[[|]|e|q'] t]; inversion OB; subst; cbn [fst]; try discriminate. contradiction.
  - rewrite (obody_unfold A Hp) in OB. destruct (ahead FinishMode A); [discriminate|].
    pose proof (arun_inv true A HI) as Hinv. destruct (arun_ds true A) as (Dp & _).
    destruct (arun true A) as [[[|]|e|q'] t]; inversion OB; subst. cbn [snd] in Dp. apply IH; [exact Hinv|congruence].
Qed.

(* ====================================================================== *)
(* The state right after the header                                         *)
(* ====================================================================== *)
Lemma init_inv o k p r rest d : dstate_new (pr_props p) (pr_unpacked p) = (Done d, tt) ->
  4096 <= pr_dict p < 4294967296 -> r_range r = 4294967295 -> r_code r < 4294967296 ->
  is_byte_string rest -> nlen rest < BIG ->
  let A0 := mkAst d r (WCirc (circ_new k (pr_dict p) (memlim o))) rest in
  AInv A0 /\ dict_ok (x_win A0) /\ ds_pib (x_ds A0) = [].
Proof.
  intros Hd Hdict Hr Hc Hb Hl A0.
  assert (Hpib : ds_pib d = []).
  { unfold dstate_new in Hd. destruct (negb _); [discriminate|]. inversion Hd; subst. reflexivity. }
  assert (Htabs : tabs_ok (ds_tabs d)).
  { unfold dstate_new in Hd. destruct (negb _); [discriminate|]. inversion Hd; subst. cbn [ds_tabs]. apply tabs_ok_new. }
  split; [|split; [|exact Hpib]].
  - constructor; cbn [A0 x_ds x_rc x_win x_in to_lw].
    + apply (LwInv_init (pr_props p) (pr_unpacked p) d r (cursor_of rest) k (pr_dict p) (memlim o) Hd); [lia| |exact Hb].
      unfold RcInv. change (2 ^ 32) with 4294967296. lia.
    + unfold T24, T32. lia.
    + exact Htabs.
    + exact Hl.
    + exact I.
  - unfold dict_ok, A0. cbn [x_win win_dict circ_new c_dict]. lia.
Qed.

(* ====================================================================== *)
(* Writes in the header phase                                               *)
(* ====================================================================== *)
Definition HS (o : options) (k : snk) (s : stream) (tmp : list N) : Prop :=
  st_state s = Some (SHeader k) /\ st_tmp s = tmp /\ st_opts s = o /\ (tmp = [] \/ ahdr o tmp = HShort).

(* the header has just been completed by this write *)
Definition Trans (o : options) (k : snk) (bs : list N) (s' : stream) (unread : list N) : Prop :=
  exists p r d, ahdr o bs = HGood p r (st_tmp s' ++ unread) /\
    dstate_new (pr_props p) (pr_unpacked p) = (Done d, tt) /\
    st_state s' = Some (SData (mkRun d r (circ_new k (pr_dict p) (memlim o)))) /\
    st_opts s' = o /\ nlen (st_tmp s') <= 18.

Lemma read_header_consumes o i p i1 : an_read_header o i = (Done p, i1) -> nlen i1 < nlen i.
Proof.
  unfold an_read_header, an_num, mbind, mret, mfail, an_read, an_read_exact.
  destruct i as [|pby i0]; [discriminate|]. rewrite nlen_cons.
  destruct (225 <=? pby); [discriminate|]. cbv zeta.
  destruct (N.ltb_spec (nlen i0) 4) as [|H4]; [discriminate|].
  destruct (o_unpacked o); try (destruct (N.ltb_spec (nlen (nskipn 4 i0)) 8); [discriminate|]);
    intros E; inversion E; subst; rewrite ?nlen_nskipn; lia.
Qed.

Lemma ahdr_good_lt o i p r rest : ahdr o i = HGood p r rest -> nlen rest < nlen i.
Proof.
  unfold ahdr. pose proof (read_header_consumes o i) as H.
  destruct (an_read_header o i) as [[p0|e|q] i1]; [|destruct e; discriminate|discriminate].
  specialize (H p0 i1 eq_refl).
  destruct rc_new_props as (_ & _ & T). specialize (T i1).
  destruct (an_rc_new i1) as [[r0|e|q] i2]; try discriminate. cbn [snd] in T. intros E. inversion E; subst.
  apply suffix_nlen in T. lia.
Qed.

Lemma nfirstn_ge {A} n (l : list A) : nlen l <= n -> nfirstn n l = l.
Proof. intros H. unfold nfirstn, nlen in *. apply firstn_all2. lia. Qed.

Theorem write_hs o k bs s tmp data fut : HS o k s tmp -> data <> [] -> bs = tmp ++ data ++ fut -> nlen bs <= BIG ->
  match stream_write s data with
  | (Done n, s') => 0 < n <= nlen data /\
      ((n = nlen data /\ HS o k s' (tmp ++ data)) \/ Trans o k bs s' (nskipn n data ++ fut))
  | (Failed e, s') => st_state s' = None /\ ahdr o bs = HBad
  | (Panicked _, _) => False
  end.
Proof.
  intros (Hs & Ht & Ho & Hshort) Hne Hbs Hl.
  assert (Hld : 0 < nlen data) by (destruct data; [contradiction|rewrite nlen_cons; lia]).
  assert (Hlens : nlen tmp + nlen data + nlen fut <= BIG) by (rewrite Hbs, !nlen_app in Hl; lia).
  unfold stream_write. rewrite Hs, Ht, Ho.
  destruct (N.ltb_spec 0 (nlen tmp)) as [Hpos|Hzero].
  - (* bytes already stashed *)
    destruct Hshort as [->|Hshort]; [cbn in Hpos; lia|].
    pose proof (ahdr_short_len o tmp Hshort) as H18. unfold MAX_TMP_LEN.
    set (n := N.min (nlen data) (18 - nlen tmp)). set (tmp' := tmp ++ nfirstn n data).
    assert (Hn : 0 < n <= nlen data) by (unfold n; lia).
    assert (Hl' : nlen tmp' <= BIG) by (unfold tmp'; rewrite nlen_app, IoLemmas.nlen_nfirstn; lia).
    assert (Hbs' : bs = tmp' ++ nskipn n data ++ fut).
    { rewrite Hbs. unfold tmp'. rewrite <- app_assoc. f_equal. rewrite app_assoc, nfirstn_nskipn. reflexivity. }
    pose proof (stream_read_header_abs k (cursor_of tmp') o (cursor_FullVis tmp' Hl')) as HA.
    change (s_rest (cursor_of tmp')) with tmp' in HA.
    destruct (ahdr o tmp') as [| |p r rest] eqn:EH.
    + destruct (stream_read_header k (cursor_of tmp') o) as [res ts]. cbn [fst] in HA. subst res.
      assert (Etmp : nlen tmp' =? 0 = false) by (apply N.eqb_neq; unfold tmp'; rewrite nlen_app; lia).
      rewrite Etmp. split; [exact Hn|]. left.
      pose proof (ahdr_short_len o tmp' EH) as H18'. unfold tmp' in H18'. rewrite nlen_app, IoLemmas.nlen_nfirstn in H18'.
      assert (En : n = nlen data) by (unfold n in *; lia).
      split; [exact En|]. unfold HS. cbn [st_state st_tmp st_opts].
      assert (Et' : tmp' = tmp ++ data) by (unfold tmp'; rewrite En, nfirstn_all; reflexivity).
      rewrite <- Et'. repeat split. right. exact EH.
    + destruct (stream_read_header k (cursor_of tmp') o) as [res ts]. cbn [fst] in HA. subst res.
      split; [reflexivity|]. rewrite Hbs'. apply ahdr_ext_bad. exact EH.
    + destruct HA as (d & Hd & HF & HP).
      destruct (stream_read_header k (cursor_of tmp') o) as [res ts]. cbn [fst snd] in HF, HP. subst res.
      split; [exact Hn|]. right.
      pose proof (ahdr_good_suffix o tmp' p r rest EH) as Hsuf.
      assert (Epos : s_pos ts = nlen tmp' - nlen rest) by (cbn in HP; lia).
      exists p, r, d. cbn [st_tmp st_state st_opts]. rewrite Epos, (nskipn_suffix tmp' rest Hsuf).
      split; [rewrite Hbs'; apply ahdr_ext_good; exact EH|]. split; [exact Hd|]. split; [reflexivity|]. split; [reflexivity|].
      apply suffix_nlen in Hsuf. unfold tmp' in Hsuf. rewrite nlen_app, IoLemmas.nlen_nfirstn in Hsuf. unfold n in Hsuf. lia.
  - (* nothing stashed yet: try the data itself *)
    assert (Etmp : tmp = []) by (apply nlen_zero; lia). clear Ht. subst tmp. cbn [app] in *.
    assert (Hl' : nlen data <= BIG) by lia.
    pose proof (stream_read_header_abs k (cursor_of data) o (cursor_FullVis data Hl')) as HA.
    change (s_rest (cursor_of data)) with data in HA.
    destruct (ahdr o data) as [| |p r rest] eqn:EH.
    + destruct (stream_read_header k (cursor_of data) o) as [res ts]. cbn [fst] in HA. subst res.
      cbn [nlen length N.of_nat]. change (0 =? 0) with true. cbv iota. unfold MAX_TMP_LEN.
      pose proof (ahdr_short_len o data EH) as H18.
      replace (N.min (nlen data) 18) with (nlen data) by lia. rewrite nfirstn_all.
      split; [lia|]. left. split; [reflexivity|]. unfold HS. cbn [st_state st_tmp st_opts]. repeat split. right. exact EH.
    + destruct (stream_read_header k (cursor_of data) o) as [res ts]. cbn [fst] in HA. subst res.
      split; [reflexivity|]. rewrite Hbs. apply ahdr_ext_bad. exact EH.
    + destruct HA as (d & Hd & HF & HP).
      destruct (stream_read_header k (cursor_of data) o) as [res ts]. cbn [fst snd] in HF, HP. subst res.
      pose proof (ahdr_good_suffix o data p r rest EH) as Hsuf.
      pose proof (ahdr_good_lt o data p r rest EH) as Hlt.
      assert (Epos : s_pos ts = nlen data - nlen rest) by (cbn in HP; lia).
      split; [lia|]. right. exists p, r, d. cbn [st_tmp st_state st_opts app]. rewrite Epos, (nskipn_suffix data rest Hsuf).
      split; [rewrite Hbs; apply ahdr_ext_good; exact EH|]. split; [exact Hd|]. split; [reflexivity|]. split; [reflexivity|cbn; lia].
Qed.
Print Assumptions write_hs.

(* ====================================================================== *)
(* circ_finish never panics                                                 *)
(* ====================================================================== *)
Lemma circ_finish_nopanic c q : fst (circ_finish c) <> Panicked q.
Proof.
  unfold circ_finish, snk_run, run_io. rewrite interp_bind.
  set (P := if 0 <? c_cursor c then write_all (map_slice (c_buf c) 0 (c_cursor c)) else Ret tt).
  assert (HP : not_panicked (fst (interp io_h P (mkIo (cursor_of []) (c_snk c))))).
  { unfold P. destruct (0 <? c_cursor c); [|exact I].
    unfold write_all. apply (write_all_loop_nopanic _ _ _ (le_n _)). }
  destruct (interp io_h P (mkIo (cursor_of []) (c_snk c))) as [[u|e|q'] w]; cbn [fst not_panicked] in *; try discriminate; [|contradiction].
  rewrite interp_call. cbn [io_h]. unfold snk_flush. destruct (k_ffail (i_snk w)); cbn [fst]; discriminate.
Qed.

(* feed with any sufficient fuel, data phase *)
Lemma feed_nil fuel s : feed fuel s [] = FedAll s.
Proof. destruct fuel; reflexivity. Qed.

Theorem feed_dsg' o n R : (n <= Pos.to_nat big_fuel)%nat -> forall fuel data s fut,
  (length data <= fuel)%nat -> DSg o n s (data ++ fut) R -> nlen data <= BIG ->
  match feed fuel s data with
  | FedAll s' => DSg o n s' fut R
  | Stopped s' => DSz o n s' R
  | FeedFailed e s' => st_state s' = None /\ is_failed (fst R)
  | _ => False
  end.
Proof.
  intros Hn fuel data s fut Hf HD Hl.
  destruct (list_eq_dec N.eq_dec data []) as [->|Hne]; [rewrite feed_nil; exact HD|].
  destruct fuel as [|f]; [destruct data; [contradiction|cbn in Hf; lia]|].
  rewrite (feed_step f s data Hne).
  assert (W : match stream_write s data with
              | (Done k, s') => (k = nlen data /\ DS o n s' fut R) \/ (k <= nlen data /\ DSz o n s' R) \/
                                (0 < k <= nlen data /\ DS o n s' (nskipn k data ++ fut) R)
              | (Failed e, s') => st_state s' = None /\ is_failed (fst R)
              | (Panicked _, _) => False
              end).
  { destruct HD as [HD|HD]; [apply write_ds|apply write_ds0]; assumption. }
  destruct (stream_write s data) as [[k|e|q] s']; [| exact W | exact W].
  destruct (N.eqb_spec k 0) as [Ek|Ek].
  - destruct W as [[E1 _]|[[_ Z]|[[E1 _] _]]]; [|exact Z|lia].
    exfalso. destruct data; [contradiction|]. rewrite nlen_cons in E1. lia.
  - assert (Hlen : (length (nskipn k data) <= f)%nat) by (pose proof (nskipn_length_lt k data ltac:(lia) Hne); lia).
    assert (Hl' : nlen (nskipn k data) <= BIG) by (rewrite nlen_nskipn; lia).
    pose proof (feed_ds o n R Hn f (nskipn k data) s' fut Hlen) as FD.
    destruct W as [[E1 D1]|[[E1 Z]|[E1 D1]]].
    + subst k. rewrite nskipn_all, feed_nil. left. exact D1.
    + specialize (FD (DSz_DS o n s' _ R Z) Hl'). destruct (feed f s' (nskipn k data)); try exact FD. left. exact FD.
    + specialize (FD D1 Hl'). destruct (feed f s' (nskipn k data)); try exact FD. left. exact FD.
Qed.

(* ====================================================================== *)
(* The driver when the header is never completed                            *)
(* ====================================================================== *)
Section NoHeader.
  Variables (o : options) (k : snk) (bs : list N).
  Hypothesis Hbad : forall p r rest, ahdr o bs <> HGood p r rest.
  Hypothesis Hl : nlen bs <= BIG.

  Lemma feed_hs_bad fuel data s tmp fut : (length data <= fuel)%nat -> HS o k s tmp -> bs = tmp ++ data ++ fut ->
    match feed fuel s data with
    | FedAll s' => HS o k s' (tmp ++ data)
    | FeedFailed e s' => st_state s' = None
    | _ => False
    end.
  Proof.
    intros Hf HH Hbs.
    destruct (list_eq_dec N.eq_dec data []) as [->|Hne]; [rewrite feed_nil, app_nil_r; exact HH|].
    destruct fuel as [|f]; [destruct data; [contradiction|cbn in Hf; lia]|].
    rewrite (feed_step f s data Hne).
    pose proof (write_hs o k bs s tmp data fut HH Hne Hbs Hl) as W.
    destruct (stream_write s data) as [[m|e|q] s']; [|apply W|exact W].
    destruct W as [Hm [[E1 H1]|(p & r & d & HG & _)]]; [|exfalso; eapply Hbad; exact HG].
    destruct (N.eqb_spec m 0) as [|_]; [lia|]. subst m. rewrite nskipn_all, feed_nil. exact H1.
  Qed.

  Lemma drive_hs_bad : forall pieces s tmp, HS o k s tmp -> bs = tmp ++ concat pieces -> bs <> [] ->
    is_failed (fst (drive s pieces)).
  Proof.
    induction pieces as [|p ps IH]; intros s tmp HH Hbs Hne; cbn [drive concat] in *.
    - rewrite app_nil_r in Hbs. subst tmp. destruct HH as (Hs & Ht & _).
      unfold stream_finish. rewrite Hs, Ht.
      destruct (N.ltb_spec 0 (nlen bs)) as [_|Hz]; [exact I|]. exfalso. apply Hne. apply nlen_zero. lia.
    - pose proof (feed_hs_bad (length p) p s tmp (concat ps) (le_n _) HH Hbs) as FD.
      destruct (feed (length p) s p) as [s'|s'|e s'|q s'|s']; try contradiction.
      + apply (IH s' (tmp ++ p) FD); [rewrite <- app_assoc; exact Hbs|exact Hne].
      + rewrite (finish_when_dead s' FD). exact I.
  Qed.
End NoHeader.

(* ====================================================================== *)
(* The driver when the header is complete                                   *)
(* ====================================================================== *)
Lemma set_pib_id d : ds_pib d = [] -> set_pib d [] = d.
Proof. destruct d. cbn. intros ->. reflexivity. Qed.

Section GoodHeader.
  Variables (o : options) (k : snk) (bs : list N) (p : params) (r : rc) (rest : list N) (d : dstate)
            (R : outcome unit * ast) (n : nat).
  Let A0 := mkAst d r (WCirc (circ_new k (pr_dict p) (memlim o))) rest.
  Hypothesis Hai : o_allow_incomplete o = false.
  Hypothesis Hgood : ahdr o bs = HGood p r rest.
  Hypothesis Hd : dstate_new (pr_props p) (pr_unpacked p) = (Done d, tt).
  Hypothesis Hev : oeval n A0 R.
  Hypothesis Hn : (n <= Pos.to_nat big_fuel)%nat.
  Hypothesis HI : AInv A0.
  Hypothesis HD : dict_ok (x_win A0).
  Hypothesis Hp0 : ds_pib d = [].
  Hypothesis Hl : nlen bs <= BIG.

  Lemma trans_ds0 s' unread : Trans o k bs s' unread -> DS0 o n s' unread R.
  Proof.
    intros (p' & r' & d' & HG & Hd' & Hs & Ho & Ht). rewrite Hgood in HG. inversion HG; subst p' r'.
    rewrite Hd in Hd'. inversion Hd'; subst d'.
    eexists. split; [exact Hs|]. split; [exact Ho|]. split; [exact Hp0|]. split; [unfold BIG; lia|].
    exists A0, n. split; [lia|]. split.
    { unfold core_eq, ast_of_run, A0. cbn [x_ds x_rc x_win rs_dec rs_rc rs_out]. rewrite (set_pib_id d Hp0). repeat split. }
    split; [exact HI|]. split; [exact HD|]. split; [exact Hev|].
    unfold pibof, ast_of_run. cbn [x_ds rs_dec]. rewrite Hp0. cbn [nlen length N.of_nat app].
    split; [lia|]. right. split; [|lia]. unfold A0. cbn [x_in]. assumption.
  Qed.

  Lemma feed_hs_good fuel data s tmp fut : (length data <= fuel)%nat -> HS o k s tmp -> bs = tmp ++ data ++ fut ->
    match feed fuel s data with
    | FedAll s' => HS o k s' (tmp ++ data) \/ DSg o n s' fut R
    | Stopped s' => DSz o n s' R
    | FeedFailed e s' => st_state s' = None /\ is_failed (fst R)
    | _ => False
    end.
  Proof.
    intros Hf HH Hbs.
    destruct (list_eq_dec N.eq_dec data []) as [->|Hne]; [rewrite feed_nil, app_nil_r; left; exact HH|].
    destruct fuel as [|f]; [destruct data; [contradiction|cbn in Hf; lia]|].
    rewrite (feed_step f s data Hne).
    pose proof (write_hs o k bs s tmp data fut HH Hne Hbs Hl) as W.
    destruct (stream_write s data) as [[m|e|q] s']; [| |exact W].
    - destruct W as [Hm [[E1 H1]|HT]].
      + destruct (N.eqb_spec m 0) as [|_]; [lia|]. subst m. rewrite nskipn_all, feed_nil. left. exact H1.
      + destruct (N.eqb_spec m 0) as [|_]; [lia|].
        pose proof (trans_ds0 s' _ HT) as D0.
        assert (Hlen : (length (nskipn m data) <= f)%nat) by (pose proof (nskipn_length_lt m data ltac:(lia) Hne); lia).
        assert (Hl' : nlen (nskipn m data) <= BIG).
        { rewrite nlen_nskipn. rewrite Hbs, !nlen_app in Hl. lia. }
        pose proof (feed_dsg' o n R Hn f (nskipn m data) s' fut Hlen (or_intror D0) Hl') as FD.
        destruct (feed f s' (nskipn m data)); try exact FD. right. exact FD.
    - destruct W as [_ HB]. rewrite Hgood in HB. discriminate.
  Qed.

  Lemma drive_hs_good : forall pieces s tmp, HS o k s tmp -> bs = tmp ++ concat pieces -> FinalRel (drive s pieces) R.
  Proof.
    induction pieces as [|pc ps IH]; intros s tmp HH Hbs; cbn [drive concat] in *.
    - exfalso. rewrite app_nil_r in Hbs. subst tmp. destruct HH as (_ & _ & _ & [E|E]).
      + pose proof (ahdr_good_lt o bs p r rest Hgood) as X. rewrite E in X. cbn in X. lia.
      + rewrite Hgood in E. discriminate.
    - pose proof (feed_hs_good (length pc) pc s tmp (concat ps) (le_n _) HH Hbs) as FD.
      assert (Hlc : nlen (concat ps) <= BIG) by (rewrite Hbs, !nlen_app in Hl; lia).
      destruct (feed (length pc) s pc) as [s'|s'|e s'|q s'|s']; try contradiction.
      + destruct FD as [FD|FD].
        * apply (IH s' (tmp ++ pc) FD). rewrite <- app_assoc. exact Hbs.
        * apply (drive_ds o n R Hn Hai ps s' FD Hlc).
      + apply (finish_ds o n s' R Hn Hai). right. exact FD.
      + destruct FD as [Hdead HRf]. rewrite (finish_when_dead s' Hdead).
        unfold FinalRel. destruct R as [[u|e'|q] A']; cbn [fst] in HRf; try contradiction. cbn [afinal fst]. exact I.
  Qed.
End GoodHeader.

(* ====================================================================== *)
(* The theorem                                                              *)
(* ====================================================================== *)
Lemma is_byte_string_suffix l l' : is_byte_string l -> suffix_of l' l -> is_byte_string l'.
Proof. intros H [pre ->]. apply Forall_app in H. apply H. Qed.

Lemma glue_bad (d : outcome unit * snk) (w : outcome unit * io) :
  is_failed (fst d) -> is_failed (fst w) ->
  same_verdict (fst d) (fst w) /\ (fst d = Done tt -> snd d = i_snk (snd w)).
Proof.
  intros H1 H2. destruct (fst d) as [u|e|q]; try contradiction. destruct (fst w) as [u|e'|q]; try contradiction.
  split; [exact I|discriminate].
Qed.

Lemma glue_good (d : outcome unit * snk) (w : outcome unit * io) res A' c R :
  (fst w, i_snk (snd w)) = match res with
                           | Done _ => circ_finish c
                           | Failed e => (Failed e, c_snk c)
                           | Panicked q => (Panicked q, c_snk c)
                           end ->
  afinal R = (res, A') -> x_win A' = WCirc c -> (forall q, fst R <> Panicked q) -> FinalRel d R ->
  same_verdict (fst d) (fst w) /\ (fst d = Done tt -> snd d = i_snk (snd w)).
Proof.
  intros OS EP Ew Hnp FR. unfold FinalRel in FR. rewrite EP in FR. cbn [fst snd] in FR.
  destruct res as [u|e|q].
  - destruct FR as (c' & Ec' & Ed). rewrite Ew in Ec'. inversion Ec'; subst c'.
    rewrite Ed. rewrite <- OS. cbn [fst snd].
    pose proof (circ_finish_nopanic c) as NP. rewrite <- OS in NP. cbn [fst] in NP.
    destruct (fst w) as [u'|e'|q']; [split; [exact I|reflexivity]|split; [exact I|reflexivity]|exfalso; eapply NP; reflexivity].
  - apply (f_equal fst) in OS. cbn [fst] in OS. rewrite OS.
    destruct (fst d) as [u'|e'|q']; try contradiction. split; [exact I|discriminate].
  - exfalso. destruct R as [[u|e|q'] AR]; cbn [afinal] in EP.
    + destruct (ds_unpacked (x_ds AR)) as [len|]; [destruct (len =? win_len (x_win AR))|]; discriminate EP.
    + discriminate EP.
    + eapply Hnp. reflexivity.
Qed.

Lemma glue_fuel (w : outcome unit * io) a' c :
  (fst w, i_snk (snd w)) = (Panicked (PFuel 10), c_snk c) -> x_win a' = WCirc c -> fst w = Panicked (PFuel 10).
Proof. intros H _. apply (f_equal fst) in H. exact H. Qed.

Lemma aprocess_next mode F a a' : loopN F (abody mode) a = Next a' -> aprocess mode F a = (Panicked (PFuel 10), a').
Proof. intros H. unfold aprocess. rewrite H. reflexivity. Qed.

Lemma good_core o k bs pieces p r rest d0 (w : outcome unit * io) :
  o_allow_incomplete o = false -> is_byte_string bs -> concat pieces = bs -> nlen bs < BIG ->
  ahdr o bs = HGood p r rest -> dstate_new (pr_props p) (pr_unpacked p) = (Done d0, tt) ->
  fst w <> Panicked (PFuel 10) ->
  (forall res A' c, aprocess FinishMode big_fuel (mkAst d0 r (WCirc (circ_new k (pr_dict p) (memlim o))) rest) = (res, A') ->
     x_win A' = WCirc c ->
     (fst w, i_snk (snd w)) = match res with
                              | Done _ => circ_finish c
                              | Failed e => (Failed e, c_snk c)
                              | Panicked q => (Panicked q, c_snk c)
                              end) ->
  same_verdict (fst (drive (stream_new o k) pieces)) (fst w) /\
  (fst (drive (stream_new o k) pieces) = Done tt -> snd (drive (stream_new o k) pieces) = i_snk (snd w)).
Proof.
  intros Hai Hb Hcat Hlen EH Hd0 Hfuel OS.
  assert (Hl : nlen bs <= BIG) by lia.
  assert (HH : HS o k (stream_new o k) []) by (repeat split; left; reflexivity).
  assert (Hbs : bs = [] ++ concat pieces) by (symmetry; exact Hcat).
  destruct (ahdr_good_facts o bs p r rest EH) as (Vp & Vd & Vb). destruct (Vb Hb) as (Vd2 & Vr & Vc).
  pose proof (ahdr_good_suffix o bs p r rest EH) as Hsuf.
  assert (Hbr : is_byte_string rest) by (eapply is_byte_string_suffix; eassumption).
  assert (Hlr : nlen rest < BIG) by (apply suffix_nlen in Hsuf; lia).
  destruct (init_inv o k p r rest d0 Hd0 (conj Vd Vd2) Vr Vc Hbr Hlr) as (HI & HD & Hp0).
  set (A0 := mkAst d0 r (WCirc (circ_new k (pr_dict p) (memlim o))) rest) in *.
  pose proof (aprocess_circ FinishMode big_fuel A0 I) as HC.
  destruct (aprocess FinishMode big_fuel A0) as [res A'] eqn:EP.
  cbn [snd] in HC. destruct (x_win A') as [c|] eqn:Ew; [|contradiction].
  specialize (OS res A' c eq_refl Ew).
  destruct (loopN big_fuel (abody FinishMode) A0) as [a'|R] eqn:EL.
  { exfalso. apply Hfuel. rewrite (aprocess_next FinishMode big_fuel A0 a' EL) in EP. inversion EP; subst.
    eapply glue_fuel; [exact OS|exact Ew]. }
  rewrite (aprocess_finish big_fuel _ R EL) in EP.
  rewrite loopN_iter in EL. destruct (iter_oeval _ _ _ EL) as (n & Hn & Hev).
  pose proof (oeval_nopanic n _ R Hev HI Hp0) as Hnp.
  apply (glue_good _ _ res A' c R OS EP Ew Hnp).
  apply (drive_hs_good o k bs p r rest d0 R n Hai EH Hd0 Hev Hn HI HD Hp0 Hl pieces _ [] HH Hbs).
Qed.

(* C05, proved form.  Besides the hypotheses of the statement it assumes
   - that the input is shorter than 2^62 bytes (the model's Cursor shows at most 2^62 bytes per fill_buf), and
   - that the one-shot decoder does not exhaust the model's loop fuel (2^62 symbols). *)
Theorem stream_equals_oneshot (o : options) (k : snk) (bs : list N) (pieces : list (list N)) :
  o_allow_incomplete o = false -> is_byte_string bs -> bs <> [] -> concat pieces = bs ->
  nlen bs < BIG ->
  fst (lzma_decompress big_fuel o (mkIo (cursor_of bs) k)) <> Panicked (PFuel 10) ->
  same_verdict (fst (drive (stream_new o k) pieces)) (fst (lzma_decompress big_fuel o (mkIo (cursor_of bs) k))) /\
  (fst (drive (stream_new o k) pieces) = Done tt ->
   snd (drive (stream_new o k) pieces) = i_snk (snd (lzma_decompress big_fuel o (mkIo (cursor_of bs) k)))).
Proof.
  intros Hai Hb Hne Hcat Hlen Hfuel.
  assert (Hl : nlen bs <= BIG) by lia.
  assert (HH : HS o k (stream_new o k) []) by (repeat split; left; reflexivity).
  assert (Hbs : bs = [] ++ concat pieces) by (symmetry; exact Hcat).
  pose proof (oneshot_abs big_fuel o k bs Hl) as OS.
  destruct (ahdr o bs) as [| |p r rest] eqn:EH.
  - apply glue_bad; [|exact OS].
    apply (drive_hs_bad o k bs ltac:(intros; rewrite EH; discriminate) Hl pieces _ [] HH Hbs Hne).
  - apply glue_bad; [|exact OS].
    apply (drive_hs_bad o k bs ltac:(intros; rewrite EH; discriminate) Hl pieces _ [] HH Hbs Hne).
  - destruct OS as (d0 & Hd0 & OS).
    apply (good_core o k bs pieces p r rest d0 _ Hai Hb Hcat Hlen EH Hd0 Hfuel OS).
Qed.
Print Assumptions stream_equals_oneshot.

(* zero total input *)
Theorem stream_zero_input o k : stream_finish (stream_new o k) = (Done tt, k).
Proof. reflexivity. Qed.

(* C05 as proved: the statement with the two model-size side conditions made explicit *)
Definition stream_equals_oneshot_proved_statement : Prop :=
  (forall (o : options) (k : snk) (bs : list N) (pieces : list (list N)),
     o_allow_incomplete o = false -> is_byte_string bs -> bs <> [] -> concat pieces = bs ->
     nlen bs < 4611686018427387904 ->                                                     (* fewer than 2^62 bytes *)
     fst (lzma_decompress big_fuel o (mkIo (cursor_of bs) k)) <> Panicked (PFuel 10) ->   (* one-shot loop fuel (2^62 symbols) suffices *)
     let d := drive (stream_new o k) pieces in
     let w := lzma_decompress big_fuel o (mkIo (cursor_of bs) k) in
     same_verdict (fst d) (fst w) /\ (fst d = Done tt -> snk_bytes (snd d) = snk_bytes (i_snk (snd w)))) /\
  (forall o k, stream_finish (stream_new o k) = (Done tt, k)).

Theorem C05_stream_equals_oneshot : stream_equals_oneshot_proved_statement.
Proof.
  split; [|apply stream_zero_input].
  intros o k bs pieces Hai Hb Hne Hcat Hlen Hfuel. cbv zeta.
  destruct (stream_equals_oneshot o k bs pieces Hai Hb Hne Hcat Hlen Hfuel) as [V S].
  split; [exact V|]. intros E. rewrite (S E). reflexivity.
Qed.
Print Assumptions C05_stream_equals_oneshot.

(* the literal statement follows as soon as the two side conditions hold for all inputs considered *)
Theorem stream_equals_oneshot_statement_modulo_fuel :
  (forall o k bs, is_byte_string bs -> nlen bs < BIG /\ fst (lzma_decompress big_fuel o (mkIo (cursor_of bs) k)) <> Panicked (PFuel 10)) ->
  stream_equals_oneshot_statement.
Proof.
  intros H. split; [|apply stream_zero_input].
  intros o k bs pieces Hai Hb Hne Hcat. destruct (H o k bs Hb) as [H1 H2].
  destruct (stream_equals_oneshot o k bs pieces Hai Hb Hne Hcat H1 H2) as [V S].
  cbv zeta. split; [exact V|]. intros E. rewrite (S E). reflexivity.
Qed.

(* ====================================================================== *)
(* F1 for a symbol step, on the concrete objects                            *)
(* ====================================================================== *)
Theorem run_sym_prefix_stable d r v bs more w1' : nlen (bs ++ more) <= BIG ->
  run_sym true (mkLw d r (cursor_of bs) v) = (Done Continue, w1') ->
  exists s2', run_sym true (mkLw d r (cursor_of (bs ++ more)) v) = (Done Continue, mkLw (l_ds w1') (l_rc w1') s2' (l_win w1')) /\
              s_pos s2' = s_pos (l_src w1') /\ s_rest s2' = s_rest (l_src w1') ++ more.
Proof.
  intros Hl E1.
  assert (Hl1 : nlen bs <= BIG) by (rewrite nlen_app in Hl; lia).
  set (a := mkAst d r v bs).
  assert (HA1 : lw_abs (nlen bs) (mkLw d r (cursor_of bs) v) a).
  { unfold lw_abs, a. cbn [l_ds l_rc l_win l_src x_ds x_rc x_win x_in].
    split; [reflexivity|]. split; [reflexivity|]. split; [reflexivity|]. split; [apply cursor_FullVis; exact Hl1|]. split; reflexivity. }
  assert (HA2 : lw_abs (nlen (bs ++ more)) (mkLw d r (cursor_of (bs ++ more)) v) (with_in a (x_in a ++ more))).
  { unfold lw_abs, a, with_in. cbn [l_ds l_rc l_win l_src x_ds x_rc x_win x_in].
    split; [reflexivity|]. split; [reflexivity|]. split; [reflexivity|]. split; [apply cursor_FullVis; exact Hl|]. split; reflexivity. }
  destruct (run_sym_abs true _ _ _ HA1) as [F1 R1]. rewrite E1 in F1, R1. cbn [fst snd] in F1, R1.
  assert (Hrf : arf true a = false).
  { destruct (arf true a) eqn:X; [|reflexivity]. rewrite (arf_eio _ _ X) in F1. discriminate. }
  assert (Heo : aeo true a = false).
  { destruct (aeo true a) eqn:X; [|reflexivity]. destruct (arun_fin a) as [Y _]. destruct (Y X) as [Z _]. rewrite Z in F1. discriminate. }
  destruct (arun_ext true a more Hrf Heo) as (EX & _).
  destruct (run_sym_abs true _ _ _ HA2) as [F2 R2]. rewrite EX in F2, R2. cbn [fst snd] in F2, R2.
  destruct (run_sym true (mkLw d r (cursor_of (bs ++ more)) v)) as [res2 w2']. cbn [fst snd] in *.
  destruct R1 as (D1 & C1 & W1 & S1 & I1 & P1). destruct R2 as (D2 & C2 & W2 & S2 & I2 & P2).
  cbn [with_in x_ds x_rc x_win x_in] in *.
  exists (l_src w2'). split.
  - rewrite F2, <- F1. f_equal. destruct w2' as [d2 r2 s2 v2]. cbn [l_ds l_rc l_src l_win] in *. congruence.
  - split; [|congruence]. rewrite nlen_app in P2. rewrite nlen_app in P2. lia.
Qed.
Print Assumptions run_sym_prefix_stable.

(* ====================================================================== *)
(* The definitions are not vacuous: a few concrete runs                     *)
(* ====================================================================== *)
Definition ex_res (x : outcome unit * snk) := (fst x, snk_bytes (snd x)).
Definition ex_oneshot (bs : list N) :=
  let w := lzma_decompress big_fuel ex_opts (mkIo (cursor_of bs) vec_sink) in (fst w, snk_bytes (i_snk (snd w))).
(* an empty .lzma stream of unknown size, terminated by the end marker *)
Definition ex_marker : list N := [93;0;0;16;0;255;255;255;255;255;255;255;255;0;131;255;251;255;255;192;0;0;0].

Example ex_valid_bytewise :
  ex_res (drive (stream_new ex_opts vec_sink) (map (fun b => [b]) ex_stream)) = (Done tt, [0]) /\ ex_oneshot ex_stream = (Done tt, [0]).
Proof. split; vm_compute; reflexivity. Qed.
Example ex_valid_two_pieces :
  ex_res (drive (stream_new ex_opts vec_sink) [nfirstn 5 ex_stream; nskipn 5 ex_stream]) = (Done tt, [0]).
Proof. vm_compute. reflexivity. Qed.
Example ex_truncated :
  fst (drive (stream_new ex_opts vec_sink) (map (fun b => [b]) (nfirstn 15 ex_stream))) = Failed ELzma /\
  fst (ex_oneshot (nfirstn 15 ex_stream)) = Failed ELzma.
Proof. split; vm_compute; reflexivity. Qed.
Example ex_marker_accepted :
  ex_res (drive (stream_new ex_opts vec_sink) (map (fun b => [b]) ex_marker)) = (Done tt, []) /\ ex_oneshot ex_marker = (Done tt, []).
Proof. split; vm_compute; reflexivity. Qed.
Example ex_trailing_data_rejected :
  fst (drive (stream_new ex_opts vec_sink) [ex_marker; [1;2;3]]) = Failed ELzma /\
  fst (drive (stream_new ex_opts vec_sink) [nfirstn 21 ex_marker; nskipn 21 ex_marker ++ [1;2;3]]) = Failed ELzma /\
  fst (ex_oneshot (ex_marker ++ [1;2;3])) = Failed ELzma.
Proof. repeat split; vm_compute; reflexivity. Qed.
