(* C18: unsupported XZ features are refused.  Small corollaries of Proofs/XzSound.v and direct decision rules. *)
From LZ Require Import Base.Prelude Base.Prog Model.Io Model.Xz Proofs.IoInv Proofs.SrcMono Proofs.XzSound.

(* only the four assigned check IDs parse, so every reserved bit of the second stream-flag byte is rejected *)
Lemma check_of_id_assigned b ck : check_of_id b = Some ck -> b = 0 \/ b = 1 \/ b = 4 \/ b = 10.
Proof.
  unfold check_of_id.
  destruct (N.eqb_spec b 0); [auto|]. destruct (N.eqb_spec b 1); [auto|].
  destruct (N.eqb_spec b 4); [auto|]. destruct (N.eqb_spec b 10); [auto|]. discriminate.
Qed.

Lemma flags_parse_reserved b0 b1 : b0 <> 0 -> flags_parse b0 b1 = Failed EXz.
Proof. intros H. unfold flags_parse. destruct (N.eqb_spec b0 0); [contradiction|reflexivity]. Qed.

Lemma flags_parse_unassigned b1 : b1 <> 0 -> b1 <> 1 -> b1 <> 4 -> b1 <> 10 -> flags_parse 0 b1 = Failed EXz.
Proof.
  intros. unfold flags_parse, check_of_id. cbn [negb N.eqb].
  destruct (N.eqb_spec b1 0); [contradiction|]. destruct (N.eqb_spec b1 1); [contradiction|].
  destruct (N.eqb_spec b1 4); [contradiction|]. destruct (N.eqb_spec b1 10); [contradiction|]. reflexivity.
Qed.

(* reserved block-flag bits *)
Lemma block_flags_reserved hs flags l : N.land flags 60 <> 0 -> read_block_header hs (flags :: l) = Failed EXz.
Proof. intros H. unfold read_block_header. destruct (N.eqb_spec (N.land flags 60) 0); [contradiction|reflexivity]. Qed.

(* a filter other than LZMA2 (ID 0x21) *)
Lemma filter_id_unsupported n hs l acc id l1 :
  lget_multibyte l = Done (id, l1) -> id <> 33 -> read_filters (S n) hs l acc = Failed EXz.
Proof.
  intros H Hid. cbn [read_filters]. rewrite H. destruct (N.eqb_spec id 33); [contradiction|reflexivity].
Qed.

(* SHA-256: a block can never be validated *)
Lemma sha256_block_refused crc32 crc64 buf w :
  fst (run_io (validate_block_check crc32 crc64 buf CkSha256) w) = Failed EXz.
Proof. reflexivity. Qed.

Section Corollaries.
Variables crc32 crc64 : list N -> N.

(* success with at least one block means the check type is one of the supported ones *)
Theorem success_means_supported_check fuel w w' :
  xz_decompress crc32 crc64 fuel w = (Done tt, w') -> s_limit (i_src w) = None ->
  exists ck hdr blocks index footer,
    s_rest (i_src w) = hdr ++ concat (map blk_bytes blocks) ++ index ++ footer /\
    header_bytes_ok crc32 ck hdr /\
    (blocks <> [] -> ck <> CkSha256) /\
    s_rest (i_src w') = [].
Proof.
  intros H L. destruct (xz_decompress_sound crc32 crc64 fuel w w' H L) as (ck & hdr & blocks & index & footer & E & R & _ & Hh & Hb & _ & _ & _).
  exists ck, hdr, blocks, index, footer. repeat split; try assumption.
  intros Hne Hck. destruct blocks as [|b bs]; [contradiction|]. inversion Hb as [|? ? Hb1 _]; subst.
  unfold blk_ok, blk_ok_gen in Hb1. destruct Hb1 as (_ & _ & _ & _ & _ & _ & Hc). exact Hc.
Qed.

(* nothing may follow the stream footer: neither stream padding nor a second stream is consumed silently;
   the accepted input is exactly one stream, so success leaves no byte unread *)
Theorem success_consumes_everything fuel w w' :
  xz_decompress crc32 crc64 fuel w = (Done tt, w') -> s_limit (i_src w) = None ->
  s_rest (i_src w') = [] /\ s_pos (i_src w') = s_pos (i_src w) + nlen (s_rest (i_src w)).
Proof.
  intros H L. destruct (xz_decompress_sound crc32 crc64 fuel w w' H L) as (ck & hdr & blocks & index & footer & _ & R & P & _).
  split; assumption.
Qed.
End Corollaries.
