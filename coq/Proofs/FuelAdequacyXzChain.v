(* Property C07, Part 12 (fuel adequacy, XZ with chained filters, closed form).
   An LZMA2 stream cannot expand by more than 2^21 per input byte: every chunk costs at least its
   control byte and declares at most 2^21 bytes of output (LZMA chunk: 5 + 16 bits, + 1; raw chunk:
   16 bits, + 1), and a chunk that succeeds produces exactly the declared amount.  Hence the output
   of an LZMA2 filter on n remaining bytes has at most 2^21 * n bytes, a block header declares at
   most 4 filters, and the longest buffer ever handed to a chained filter has at most
   2^63 * (input length) bytes.  With fuel >= 16913 * (2^63 * input length + 21) xz_decompress is
   total for ARBITRARY input, whatever the number of filters. *)
From LZ Require Import Base.Prelude Base.Prog Model.Io Model.Tables Model.LzBuffer Model.RangeDec
  Model.Lzma Model.Lzma2 Model.Crc Model.Xz.
From LZ Require Import Proofs.ProgLemmas Proofs.MapLemmas Proofs.NoPanic Proofs.NoPanicWorld
                       Proofs.IoInv Proofs.SrcMono Proofs.ResetFresh Proofs.SizeRules Proofs.Lzma2Inv Proofs.XzSound
                       Proofs.NoPanicLoops Proofs.NoPanicLzma2 Proofs.NoPanicXz
                       Proofs.FuelAdequacy Proofs.FuelAdequacy2 Proofs.FuelAdequacyXz.
From Coq Require Import ZifyBool ZifyNat ZifyN.
Local Open Scope prog_scope.

Ltac Zify.zify_post_hook ::= Z.div_mod_to_equations.

Definition EXP : N := 2097152.       (* 2^21 *)

(* ====================================================================== *)
(* How much a sink can grow                                                 *)
(* ====================================================================== *)
Definition klen (k : snk) : N := nlen (k_out k).

Lemma nlen_first_skip {A} n (l : list A) : nlen (nfirstn n l) + nlen (nskipn n l) = nlen l.
Proof.
  unfold nlen, nfirstn, nskipn. rewrite <- Nat2N.inj_add, <- app_length, firstn_skipn. reflexivity.
Qed.

Lemma write_all_loop_klen fuel : forall bs w,
  klen (i_snk (snd (run_io (write_all_loop fuel bs) w))) <= klen (i_snk w) + nlen bs.
Proof.
  induction fuel as [|fuel IH]; intros bs w.
  - destruct bs; unfold run_io; cbn [write_all_loop interp snd]; lia.
  - destruct bs as [|b t]; [unfold run_io; cbn [write_all_loop interp snd]; lia|].
    cbn [write_all_loop]. set (l := b :: t) in *. clearbody l.
    unfold run_io. rewrite interp_bind, interp_call. cbn [io_h]. unfold snk_write.
    destruct (match k_wfail (i_snk w) with Some j => j =? k_calls (i_snk w) | None => false end);
      [cbn [snd i_snk]; unfold klen; cbn [k_out]; lia|].
    cbv zeta. set (n := nmin_len _ l). clearbody n.
    set (w1 := mkIo (i_src w) _).
    assert (K1 : klen (i_snk w1) = klen (i_snk w) + nlen (nfirstn n l)).
    { unfold klen, w1. cbn [i_snk k_out]. rewrite rev_append_rev. unfold nlen. rewrite app_length, rev_length. lia. }
    pose proof (nlen_first_skip n l) as FS.
    destruct (n =? 0).
    + cbn [interp snd]. lia.
    + specialize (IH (nskipn n l) w1). unfold run_io in IH. lia.
Qed.

Lemma snk_run_write_all_klen bs k : klen (snd (snk_run (write_all bs) k)) <= klen k + nlen bs.
Proof.
  unfold snk_run, write_all.
  pose proof (write_all_loop_klen (length bs) bs (mkIo (cursor_of []) k)) as H.
  destruct (run_io (write_all_loop (length bs) bs) (mkIo (cursor_of []) k)) as [r w]. exact H.
Qed.

Lemma nseq_map_length {A} (f : N -> A) n : forall lo, length (nseq_map f lo n) = n.
Proof. induction n as [|n IH]; intros lo; cbn [nseq_map length]; [reflexivity|rewrite IH; reflexivity]. Qed.

Lemma nlen_map_slice m lo n : nlen (map_slice m lo n) = n.
Proof. unfold nlen, map_slice. rewrite nseq_map_length. lia. Qed.

Lemma accum_finish_klen a : klen (snd (accum_finish a)) <= klen (a_snk a) + a_blen a.
Proof.
  unfold accum_finish, snk_run.
  pose proof (write_all_loop_klen (length (map_slice (a_buf a) 0 (a_blen a))) (map_slice (a_buf a) 0 (a_blen a))
                (mkIo (cursor_of []) (a_snk a))) as H.
  rewrite nlen_map_slice in H. cbn [i_snk] in H.
  unfold run_io in *. rewrite interp_bind. unfold write_all.
  destruct (interp io_h (write_all_loop _ _) _) as [[u|e|q] w1]; cbn [snd] in *; try exact H.
  rewrite interp_call. cbn [io_h]. unfold snk_flush. destruct (k_ffail (i_snk w1)); cbn [snd i_snk]; [exact H|].
  unfold klen in *. cbn [k_out]. exact H.
Qed.

(* ====================================================================== *)
(* The accumulating buffer: buf.len() never exceeds len                     *)
(* ====================================================================== *)
Definition Pbl (v : win) : Prop := exists a, v = WAccum a /\ a_blen a <= a_len a.

Lemma Pbl_last_or v d : Pbl v -> Pbl (snd (win_last_or v d)).
Proof.
  intros (a & -> & H). cbn [win_last_or]. unfold lift_a, accum_last_or. cbn [snd].
  exists a. destruct (_ =? _); cbn [snd]; split; (reflexivity || exact H).
Qed.
Lemma Pbl_last_n v d : Pbl v -> Pbl (snd (win_last_n v d)).
Proof.
  intros (a & -> & H). cbn [win_last_n]. unfold lift_a, accum_last_n. cbn [snd].
  exists a. destruct (_ <? _); [|destruct (_ =? _)]; cbn [snd]; split; (reflexivity || exact H).
Qed.
Lemma Pbl_append_literal v b : Pbl v -> Pbl (snd (win_append_literal v b)).
Proof.
  intros (a & -> & H). cbn [win_append_literal]. unfold lift_a, accum_append_literal. cbn [snd]. cbv zeta.
  destruct (_ <? _); cbn [snd]; eexists; (split; [reflexivity|]); [exact H|]. cbn [a_blen a_len]. lia.
Qed.
Lemma accum_lz_loop_blen n : forall m bl off, snd (accum_lz_loop n m bl off) = bl + N.of_nat n.
Proof.
  induction n as [|n IH]; intros m bl off; cbn [accum_lz_loop snd]; [lia|]. rewrite IH. lia.
Qed.
Lemma Pbl_append_lz v l d : Pbl v -> Pbl (snd (win_append_lz v l d)).
Proof.
  intros (a & -> & H). cbn [win_append_lz]. unfold lift_a, accum_append_lz. cbn [snd].
  destruct (_ <? _); [cbn [snd]; eexists; split; [reflexivity|exact H]|].
  destruct (_ && _); [cbn [snd]; eexists; split; [reflexivity|exact H]|].
  pose proof (accum_lz_loop_blen (N.to_nat l) (a_buf a) (a_blen a) (a_blen a - d)) as E.
  destruct (accum_lz_loop _ _ _ _) as [m bl]. cbn [snd] in *. eexists; split; [reflexivity|].
  cbn [a_blen a_len]. lia.
Qed.

Lemma process_mode_Pbl mode fuel w : Pbl (l_win w) -> Pbl (l_win (snd (process_mode mode fuel w))).
Proof.
  intros H.
  apply (process_mode_LI (fun _ => True) Pbl (fun _ _ _ _ => I)
           Pbl_last_or Pbl_last_n Pbl_append_literal Pbl_append_lz mode fuel w).
  split; [exact I|exact H].
Qed.

(* ====================================================================== *)
(* The chunk loop: output so far + what the remaining input can still buy   *)
(* ====================================================================== *)
Definition OutS (K slack : N) (w : w2) : Prop :=
  a_blen (w_acc w) <= a_len (w_acc w) /\
  klen (a_snk (w_acc w)) + a_len (w_acc w) + EXP * rest2 w + slack <= K.

Lemma OutS_src {A} K sl w (p : iop A) : good p -> OutS K sl w -> OutS K sl (snd (w2_src w (src_run p (w_src w)))).
Proof.
  intros Hg [H1 H2]. pose proof (src_step_phi p (w_src w) Hg) as Hl. unfold w2_src. cbn [snd].
  split; cbn [w_acc]; [exact H1|]. unfold rest2 in *. cbn [w_src]. unfold EXP in *. lia.
Qed.

Lemma pl_dict_out K sl rd w u w' : pl_dict rd w = (Done u, w') -> OutS K sl w -> OutS K sl w'.
Proof.
  unfold pl_dict. destruct rd; [|intros H; inversion H; subst; exact (fun X => X)].
  unfold accum_reset.
  pose proof (snk_run_write_all_klen (map_slice (a_buf (w_acc w)) 0 (a_blen (w_acc w))) (a_snk (w_acc w))) as Hk.
  rewrite nlen_map_slice in Hk.
  destruct (snk_run _ (a_snk (w_acc w))) as [[v|e|q] k]; intros H; inversion H; subst. cbn [snd] in Hk.
  intros [H1 H2]. split; cbn [w_acc a_blen a_len a_snk]; [lia|]. unfold rest2 in *. cbn [w_src]. lia.
Qed.

Lemma pl_props_out K sl b1 b2 w : OutS K sl w -> OutS K sl (snd (pl_props b1 b2 w)).
Proof.
  intros Hw. unfold pl_props. destruct b1; [|exact Hw]. cbv zeta. destruct b2.
  - pose proof (OutS_src K sl w (map_io_err ELzma read_u8) (good_mapped_read_u8 _) Hw) as H1.
    destruct (w2_src w _) as [[pbyte|e|q] w1]; cbn [snd] in *; try exact H1.
    destruct (225 <=? pbyte); [exact H1|]. destruct (4 <? _); [exact H1|].
    destruct (reset_state _ _) as [[d|e|q] u]; cbn [snd]; exact H1.
  - destruct (reset_state _ _) as [[d|e|q] u]; cbn [snd]; exact Hw.
Qed.

(* a compressed chunk that succeeds adds exactly the declared number of bytes *)
Lemma pl_payload_out fuel K us ps w w' : pl_payload fuel us ps w = (Done tt, w') -> us <= EXP ->
  OutS K EXP w -> OutS K 0 w'.
Proof.
  unfold pl_payload. cbv zeta. intros H Hus [H1 H2].
  pose proof (src_step_phi (map_io_err ELzma rc_new) (set_limit (w_src w) (Some ps))
                (good_map_io_err _ _ good_rc_new)) as Hl0.
  destruct (src_run (map_io_err ELzma rc_new) _) as [[r|e|q] s]; try discriminate.
  cbn [snd set_limit s_rest] in Hl0.
  set (w0 := mkLw _ r s (WAccum (w_acc w))) in *.
  destruct (process_mode_accum_inv FinishMode fuel w0 (w_acc w) eq_refl) as (a' & Q2 & Q3).
  pose proof (process_mode_Pbl FinishMode fuel w0 (ex_intro _ (w_acc w) (conj eq_refl H1))) as (a2 & Q4 & Q5).
  pose proof (process_mode_sle FinishMode fuel w0) as Hsle. apply sle_nlen in Hsle. cbn [w0 l_src] in Hsle.
  destruct (process_mode FinishMode fuel w0) as [res x] eqn:E. cbn [snd] in *.
  inversion H; subst. cbn [w_acc]. rewrite Q2 in *. inversion Q4; subst a2.
  pose proof (sized_success_is_exact fuel w0 x (us + a_len (w_acc w)) eq_refl E) as S.
  rewrite Q2 in S. cbn [win_len] in S.
  split; cbn [w_acc]; [exact Q5|]. unfold rest2 in *. cbn [w_src set_limit s_rest]. rewrite Q3, S. unfold EXP in *. lia.
Qed.

(* ---------- the declared sizes ---------- *)
Lemma read_u16_be_lt : io_safe (fun v => v < 65536) read_u16_be.
Proof.
  unfold read_u16_be. eapply io_safe_bind; [apply read_exact_safe|]. intros bs [Hb Hl]. apply io_safe_ret.
  destruct (len2 bs Hl) as (a & b & ->). inversion Hb as [|? ? Ha Hb']; subst. inversion Hb' as [|? ? Hb2 _]; subst.
  unfold be_num. cbn [be_num_acc]. lia.
Qed.

Lemma lor_lt_2_21 a b : a < 2097152 -> b < 2097152 -> N.lor a b < 2097152.
Proof.
  intros Ha Hb. destruct (N.eq_0_gt_0_cases (N.lor a b)) as [E|E]; [lia|].
  change 2097152 with (2 ^ 21) in *. apply N.log2_lt_pow2; [exact E|]. rewrite N.log2_lor.
  apply N.max_lub_lt.
  - destruct (N.eq_0_gt_0_cases a) as [->|Ha0]; [cbn; lia|]. apply N.log2_lt_pow2; assumption.
  - destruct (N.eq_0_gt_0_cases b) as [->|Hb0]; [cbn; lia|]. apply N.log2_lt_pow2; assumption.
Qed.

Lemma l2_unpacked_le status us16 : us16 < 65536 -> l2_unpacked status us16 <= EXP.
Proof.
  intros H. unfold l2_unpacked, EXP.
  assert (N.lor (N.shiftl (N.land status 31) 16) us16 < 2097152); [|lia].
  apply lor_lt_2_21; [|lia]. rewrite N.shiftl_mul_pow2. change (2 ^ 16) with 65536.
  change 31 with (N.ones 5). rewrite N.land_ones. change (2 ^ 5) with 32. lia.
Qed.

Section Chunk.
Variable fuel : positive.
Variable K : N.
Notation W2I := (W2Inv (fun _ : N => True)).

Lemma parse_lzma_out status w u w' : W2I w -> OutS K EXP w ->
  parse_lzma fuel status w = (Done u, w') -> OutS K 0 w'.
Proof.
  intros Hw Ho. rewrite parse_lzma_eq. destruct (N.land status 128 =? 0); [discriminate|].
  pose proof (w2_src_ok _ _ (map_io_err ELzma read_u16_be) w (io_safe_map_io_err _ _ _ read_u16_be_lt) Hw) as H1.
  pose proof (OutS_src K EXP w (map_io_err ELzma read_u16_be) (good_mapped_read_u16 _) Ho) as O1.
  destruct (w2_src w _) as [[us16|e|q] w1]; try discriminate. destruct H1 as [Hus H1]. cbn [snd] in O1.
  pose proof (OutS_src K EXP w1 (map_io_err ELzma read_u16_be) (good_mapped_read_u16 _) O1) as O2.
  destruct (w2_src w1 _) as [[ps16|e|q] w2]; try discriminate. cbn [snd] in O2.
  destruct (pl_dict _ w2) as [[u3|e|q] w3] eqn:E3; try discriminate.
  pose proof (pl_dict_out K EXP _ w2 u3 w3 E3 O2) as O3.
  pose proof (pl_props_out K EXP (negb (l2_cls status =? 0)) ((l2_cls status =? 2) || (l2_cls status =? 3)) w3 O3) as O4.
  destruct (pl_props _ _ w3) as [[u4|e|q] w4]; try discriminate. cbn [snd] in O4.
  intros E. destruct u. exact (pl_payload_out fuel K _ _ w4 w' E (l2_unpacked_le status us16 Hus) O4).
Qed.

Lemma parse_uncompressed_out rd w u w' : W2I w -> OutS K EXP w ->
  parse_uncompressed rd w = (Done u, w') -> OutS K 0 w'.
Proof.
  intros Hw Ho. unfold parse_uncompressed.
  pose proof (w2_src_ok _ _ (map_io_err ELzma read_u16_be) w (io_safe_map_io_err _ _ _ read_u16_be_lt) Hw) as H1.
  pose proof (OutS_src K EXP w (map_io_err ELzma read_u16_be) (good_mapped_read_u16 _) Ho) as O1.
  destruct (w2_src w _) as [[us16|e|q] w1]; try discriminate. destruct H1 as [Hus H1]. cbn [snd] in O1.
  pose proof (pl_dict_ok _ AnyN_ok rd w1 H1) as H2. unfold pl_dict in H2.
  pose proof (pl_dict_out K EXP rd w1) as O2. unfold pl_dict in O2.
  destruct (if rd then _ else _) as [[u2|e|q] w2]; try discriminate. unfold ok2 in H2.
  specialize (O2 u2 w2 eq_refl O1).
  pose proof (w2_src_ok _ _ (map_io_err ELzma (read_exact (us16 + 1))) w2
                (io_safe_map_io_err _ _ _ (read_exact_safe _)) H2) as H3.
  pose proof (OutS_src K EXP w2 (map_io_err ELzma (read_exact (us16 + 1)))
                (good_map_io_err _ _ (good_read_exact _)) O2) as O3.
  destruct (w2_src w2 _) as [[bs|e|q] w3]; try discriminate. cbn [snd] in O3.
  destruct H3 as [[_ Hl] _]. intros E. inversion E; subst. destruct O3 as [B1 B2].
  split; cbn [w_acc accum_append_bytes a_blen a_len a_snk]; [lia|].
  unfold rest2 in *. cbn [w_src]. unfold EXP in *. lia.
Qed.

Theorem l2_body_out w : W2I w -> OutS K 0 w ->
  match l2_body fuel w with
  | Next w' => OutS K 0 w'
  | Break (Done _, w') => OutS K 0 w'
  | Break _ => True
  end.
Proof.
  intros Hw [B1 B2]. unfold l2_body.
  pose proof (w2_src_ok _ _ (map_io_err ELzma read_u8) w (io_safe_map_io_err _ _ _ read_u8_safe) Hw) as H1.
  unfold w2_src in *.
  destruct (src_run (map_io_err ELzma read_u8) (w_src w)) as [[status|e|q] s1] eqn:E1; cbn [fst snd] in *; try exact I.
  destruct H1 as [_ H1]. apply mapped_read_u8_len in E1.
  set (w1 := mkW2 (w_ds w) s1 (w_acc w)) in *.
  assert (O1 : OutS K EXP w1).
  { unfold w1. split; cbn [w_acc]; [exact B1|]. unfold rest2 in *. cbn [w_src]. unfold EXP in *. lia. }
  destruct (status =? 0).
  - destruct O1 as [C1 C2]. split; [exact C1|lia].
  - set (r := if status =? 1 then _ else _).
    assert (Hr : match r with (Done _, w') => OutS K 0 w' | _ => True end).
    { unfold r. destruct (status =? 1); [|destruct (status =? 2)].
      - destruct (parse_uncompressed true w1) as [[u|e|q] w2] eqn:E; try exact I.
        exact (parse_uncompressed_out true w1 u w2 H1 O1 E).
      - destruct (parse_uncompressed false w1) as [[u|e|q] w2] eqn:E; try exact I.
        exact (parse_uncompressed_out false w1 u w2 H1 O1 E).
      - destruct (parse_lzma fuel status w1) as [[u|e|q] w2] eqn:E; try exact I.
        exact (parse_lzma_out status w1 u w2 H1 O1 E). }
    clearbody r. destruct r as [[u|e|q] w2]; [exact Hr|exact I|exact I].
Qed.

End Chunk.

(* ====================================================================== *)
(* LZMA2 expands by at most 2^21 per input byte                             *)
(* ====================================================================== *)
Theorem lzma2_decompress_expansion fuel dec io0 u dec' w' :
  L2Inv dec -> SrcBytes (i_src io0) -> lzma2_decompress fuel dec io0 = (Done u, (dec', w')) ->
  klen (i_snk w') <= klen (i_snk io0) + EXP * nlen (s_rest (i_src io0)).
Proof.
  intros [Hd Hp] Hs. unfold lzma2_decompress. cbv zeta.
  set (K := klen (i_snk io0) + EXP * nlen (s_rest (i_src io0))).
  set (w0 := mkW2 (l2_state dec) (i_src io0) (accum_new (i_snk io0) (USIZE - 1))).
  set (I2 := fun w => W2Inv (fun _ : N => True) w /\ OutS K 0 w).
  set (Q2 := fun r : outcome unit * w2 => match r with (Done _, w) => OutS K 0 w | _ => True end).
  assert (Hw0 : I2 w0).
  { split.
    - constructor; cbn [w0 w_ds w_src w_acc]; try assumption; [apply BufBytes_empty|apply SnkBytes_any].
    - unfold OutS, rest2, w0. cbn [w_acc w_src accum_new a_blen a_len a_snk]. unfold K. split; lia. }
  pose proof (loopN_inv (l2_body fuel) I2 Q2) as L.
  assert (H1 : forall s s', I2 s -> l2_body fuel s = Next s' -> I2 s').
  { intros s s' [A1 A2] E. pose proof (l2_body_ok _ AnyN_ok fuel s A1) as P. pose proof (l2_body_out fuel K s A1 A2) as O.
    rewrite E in P, O. split; assumption. }
  assert (H2 : forall s r, I2 s -> l2_body fuel s = Break r -> Q2 r).
  { intros s r [A1 A2] E. pose proof (l2_body_out fuel K s A1 A2) as O. rewrite E in O.
    destruct r as [[v|e|q] t]; [exact O|exact I|exact I]. }
  specialize (L H1 H2 fuel w0 Hw0). clearbody w0.
  destruct (loopN fuel (l2_body fuel) w0) as [w|[[v|e|q] w]]; try discriminate.
  cbn [Q2] in L. pose proof (accum_finish_klen (w_acc w)) as F.
  destruct (accum_finish (w_acc w)) as [r k]. cbn [snd] in F. intros H. inversion H; subst. cbn [i_snk].
  destruct L as [L1 L2]. fold K. lia.
Qed.
Print Assumptions lzma2_decompress_expansion.

Theorem decode_filter_expansion fuel f s k out s' : SrcBytes s ->
  decode_filter fuel f s = (Done (k, out), s') -> nlen out <= EXP * nlen (s_rest s).
Proof.
  intros Hs. unfold decode_filter. destruct (negb (nlen (f_props f) =? 1)); [discriminate|]. cbv zeta.
  unfold lzma2_decompress_top. destruct lzma2_new_ok as (dec & E & Hd). rewrite E.
  destruct (lzma2_decompress fuel dec (mkIo s vec_sink)) as [[u|e|q] [dec' w]] eqn:El; try discriminate.
  intros H. inversion H; subst.
  pose proof (lzma2_decompress_expansion fuel dec (mkIo s vec_sink) u dec' w Hd Hs El) as X.
  cbn [i_src i_snk] in X. unfold klen in X. change (nlen (k_out vec_sink)) with 0 in X.
  unfold snk_bytes. rewrite lrev_rev. unfold nlen in *. rewrite rev_length. lia.
Qed.
Print Assumptions decode_filter_expansion.

(* ====================================================================== *)
(* Chained filters with the closed-form bound                               *)
(* ====================================================================== *)
Lemma later_inputs_bound fuel fs : forall buf, Bytes buf ->
  Forall (fun b => nlen b <= EXP ^ N.of_nat (length fs - 1) * nlen buf) (later_inputs fuel fs buf).
Proof.
  induction fs as [|f fs IH]; intros buf Hb; cbn [later_inputs]; [constructor|].
  constructor.
  - assert (1 <= EXP ^ N.of_nat (length (f :: fs) - 1)); [|nia].
    apply N.lt_pred_le. cbn [N.pred]. apply N.neq_0_lt_0. apply N.pow_nonzero. unfold EXP. lia.
  - pose proof (decode_filter_safe fuel f (cursor_of buf) Hb) as Hsafe.
    destruct (decode_filter fuel f (cursor_of buf)) as [[[n out]|e|q] s'] eqn:E; try constructor.
    pose proof (decode_filter_expansion fuel f (cursor_of buf) n out s' Hb E) as X. cbn [cursor_of src_of s_rest] in X.
    destruct fs as [|f1 fs']; [constructor|].
    specialize (IH out (proj1 Hsafe)). eapply Forall_impl; [|exact IH]. intros b Hle. cbn beta in *.
    replace (length (f :: f1 :: fs') - 1)%nat with (S (length (f1 :: fs') - 1)) by (cbn [length]; lia).
    rewrite Nat2N.inj_succ, N.pow_succ_r'.
    set (e := EXP ^ N.of_nat (length (f1 :: fs') - 1)) in *. clearbody e.
    transitivity (e * nlen out); [exact Hle|].
    transitivity (e * (EXP * nlen buf)); [apply N.mul_le_mono_l; exact X|]. lia.
Qed.

(* 2^63: three chained filters after the first one *)
Definition CHAIN : N := 9223372036854775808.

Lemma pow_le_chain n : (n <= 3)%nat -> EXP ^ N.of_nat n <= CHAIN.
Proof.
  intros H. transitivity (EXP ^ 3); [|vm_compute; discriminate].
  apply N.pow_le_mono_r; [unfold EXP; lia|lia].
Qed.

(* 2d. xz_decompress is total for ARBITRARY input, any number of filters *)
Theorem xz_decompress_total crc32 crc64 fuel w : SrcBytes (i_src w) ->
  fuel_for fuel (CHAIN * nlen (s_rest (i_src w))) ->
  match xz_decompress crc32 crc64 fuel w with
  | (Panicked _, _) => False
  | (_, w') => SrcBytes (i_src w')
  end.
Proof.
  intros Hs Hf. set (B := nlen (s_rest (i_src w))) in *.
  assert (HB : fuel_for fuel B) by (apply (fuel_for_mono fuel (CHAIN * B)); [unfold CHAIN; lia|exact Hf]).
  apply (xz_decompress_total_inter crc32 crc64 fuel (CHAIN * B) w Hs HB Hf).
  intros check w0 hs w1 hdr w2 bh f0 fs out _ _ _ Ebh Ef (f & s & k & s' & Hss & Hl & Ed).
  fold B in Hl. pose proof (read_block_header_filters _ _ _ Ebh) as Hn. rewrite Ef in Hn. cbn [length] in Hn.
  pose proof (decode_filter_safe fuel f s Hss) as Hsafe. rewrite Ed in Hsafe.
  pose proof (decode_filter_expansion fuel f s k out s' Hss Ed) as X.
  pose proof (later_inputs_bound fuel fs out (proj1 Hsafe)) as Hall.
  eapply Forall_impl; [|exact Hall]. intros b Hb. cbn beta in *.
  destruct fs as [|f1 fs']; [cbn [later_inputs] in Hall|].
  - (* no chained filter: the list is empty, nothing to show; b is arbitrary so bound it anyway *)
    cbn [length] in Hb. change (N.of_nat (0 - 1)) with 0 in Hb. rewrite N.pow_0_r in Hb.
    clearbody B. unfold EXP, CHAIN in *. lia.
  - assert (Hp : EXP ^ N.of_nat (length (f1 :: fs') - 1) * EXP <= CHAIN).
    { rewrite N.mul_comm, <- N.pow_succ_r', <- Nat2N.inj_succ. apply pow_le_chain. cbn [length] in *. lia. }
    set (e := EXP ^ N.of_nat (length (f1 :: fs') - 1)) in *. clearbody e.
    transitivity (e * nlen out); [exact Hb|].
    transitivity (e * (EXP * B)); [apply N.mul_le_mono_l; clearbody B; unfold EXP in *; lia|].
    rewrite N.mul_assoc. apply N.mul_le_mono_r. exact Hp.
Qed.
Print Assumptions xz_decompress_total.

Corollary xz_decompress_bytes_total crc32 crc64 fuel data : Bytes data ->
  16913 * (CHAIN * nlen data + 21) <= N.pos fuel ->
  not_panicked (fst (xz_decompress crc32 crc64 fuel (mkIo (cursor_of data) vec_sink))).
Proof.
  intros Hb Hf. pose proof (xz_decompress_total crc32 crc64 fuel (mkIo (cursor_of data) vec_sink) Hb Hf) as H.
  destruct (xz_decompress crc32 crc64 fuel _) as [[u|e|q] w']; cbn [fst not_panicked]; tauto.
Qed.
Print Assumptions xz_decompress_bytes_total.
