(* C15, part 3: finish with allow_incomplete.
   - Once a stream is in the data state (header and the five bytes of the range
     coder preamble consumed) finish() with allow_incomplete succeeds and hands
     back exactly what has been decoded so far.
   - The data state is reached as soon as header + 5 bytes have been written,
     however the bytes are cut into write() calls. *)
From LZ Require Import Base.Prelude Base.Prog Model.Io Model.Tables Model.LzBuffer Model.RangeDec
  Model.Lzma Model.Stream Proofs.ProgLemmas Proofs.IoLemmas Proofs.WinCirc Proofs.StreamLatch Proofs.StreamPrefix.
From Coq Require Import ZifyBool ZifyNat ZifyN.
Local Open Scope prog_scope.

(* ------------------------------------------------------------------ *)
(* finish                                                              *)
(* ------------------------------------------------------------------ *)
Theorem finish_allow_incomplete s r pre h :
  st_state s = Some (SData r) -> o_allow_incomplete (st_opts s) = true ->
  CInv pre (rs_out r) h -> k_ffail (c_snk (rs_out r)) = false ->
  exists k, stream_finish s = (Done tt, k) /\ snk_bytes k = pre ++ h.
Proof.
  intros Hs Ha HI Hff. unfold stream_finish. rewrite Hs, Ha. cbn [negb].
  destruct (circ_finish_spec pre (rs_out r) h HI Hff) as (k & E & Hb & _).
  exists k. split; [exact E|exact Hb].
Qed.
Print Assumptions finish_allow_incomplete.

(* ------------------------------------------------------------------ *)
(* map_io_err on a run in which no handler fails                       *)
(* ------------------------------------------------------------------ *)
Definition NoFault (w : io) : Prop :=
  s_fail (i_src w) = None /\ k_wfail (i_snk w) = None /\ k_ffail (i_snk w) = false.

Lemma io_h_nofault X (o : ioE X) w : NoFault w ->
  match io_h X o w with HOk _ w' => NoFault w' | HErr _ _ => False | HPanic _ w' => NoFault w' end.
Proof.
  intros (Hf & Hw & Hff). destruct o; cbn [io_h].
  - unfold src_fill. rewrite Hf.
    destruct (s_limit (i_src w)) as [[|l]|]; try (repeat split; assumption);
      (destruct (0 <? s_avail (i_src w)); [repeat split; assumption|]);
      (destruct (s_rest (i_src w)); repeat split; assumption).
  - repeat split; assumption.
  - unfold snk_write. rewrite Hw. repeat split; assumption.
  - unfold snk_flush. rewrite Hff. repeat split; assumption.
  - repeat split; assumption.
  - repeat split; assumption.
Qed.

Definition mapo {A} (e' : err) (o : outcome A) : outcome A :=
  match o with Failed EIo => Failed e' | o => o end.

Lemma interp_map_io_err {A} e' (p : iop A) : forall w, NoFault w ->
  interp io_h (map_io_err e' p) w = (mapo e' (fst (interp io_h p w)), snd (interp io_h p w)).
Proof.
  induction p as [a|e|q|X o k IH]; intros w Hw; cbn [map_io_err interp fst snd mapo]; try reflexivity.
  - destruct e; reflexivity.
  - pose proof (io_h_nofault X o w Hw) as H.
    destruct (io_h X o w) as [x w'|e w'|q w']; [apply IH; exact H|contradiction|reflexivity].
Qed.

Lemma src_run_map {A} e' (p : iop A) s r s' : s_fail s = None -> io_runs p s r s' ->
  src_run (map_io_err e' p) s = (mapo e' r, s').
Proof.
  intros Hf H. unfold src_run, run_io. rewrite interp_map_io_err by (repeat split; assumption).
  specialize (H vec_sink). unfold run_io in H. rewrite H. reflexivity.
Qed.

(* ------------------------------------------------------------------ *)
(* reading the header and the coder preamble from a fault-free source  *)
(* ------------------------------------------------------------------ *)
Lemma io_read_num_ok {A} n (f : list N -> A) s bs t : FaultFree s -> s_rest s = bs ++ t -> nlen bs = n ->
  exists s', io_runs (bind (read_exact n) (fun b => Ret (f b))) s (Done (f bs)) s' /\
             s_rest s' = t /\ s_pos s' = s_pos s + n /\ FaultFree s'.
Proof.
  intros Hs Hr Hn. destruct (io_read_exact_spec s bs t n Hs Hr Hn) as (s' & H1 & H2).
  exists s'. split; [|exact H2]. eapply io_runs_bind; [exact H1|apply io_runs_ret].
Qed.

Lemma io_read_num_eof {A} n (f : list N -> A) s : FaultFree s -> nlen (s_rest s) < n ->
  exists s', io_runs (bind (read_exact n) (fun b => Ret (f b))) s (Failed EIo) s'.
Proof.
  intros Hs Hn. destruct (io_read_exact_eof s n Hs Hn) as (s' & H1 & _).
  exists s'. apply io_runs_bind_fail. exact H1.
Qed.

Lemma split_at {A} n (l : list A) : n <= nlen l -> exists bs t, l = bs ++ t /\ nlen bs = n.
Proof.
  intros H. exists (nfirstn n l), (nskipn n l). split; [symmetry; apply nfirstn_nskipn|].
  rewrite nlen_nfirstn. lia.
Qed.

(* bytes of the .lzma header that read_header consumes *)
Definition hdr_len (o : options) : N := match o_unpacked o with UseProvided _ => 5 | _ => 13 end.

Lemma props_of_byte b : b < 225 -> props_valid (mkProps (b mod 9) ((b / 9) mod 5) (b / 9 / 5)) = true.
Proof.
  intros H. unfold props_valid. cbn [lc lp pb].
  assert (H1 : b mod 9 <= 8) by (pose proof (N.mod_upper_bound b 9); lia).
  assert (H2 : (b / 9) mod 5 <= 4) by (pose proof (N.mod_upper_bound (b / 9) 5); lia).
  assert (H3 : b / 9 / 5 <= 4).
  { rewrite N.div_div by lia. change (9 * 5) with 45.
    assert (b / 45 < 5); [|lia]. apply N.div_lt_upper_bound; lia. }
  apply N.leb_le in H1, H2, H3. rewrite H1, H2, H3. reflexivity.
Qed.

Lemma read_header_short o s : FaultFree s -> (forall b t, s_rest s = b :: t -> b < 225) ->
  nlen (s_rest s) < hdr_len o -> exists s', io_runs (read_header o) s (Failed EIo) s'.
Proof.
  intros Hs Hb Hn. unfold read_header.
  destruct (s_rest s) as [|b t] eqn:Er.
  - destruct (io_read_u8_eof s Hs Er) as (s' & H & _). exists s'. apply io_runs_bind_fail. exact H.
  - destruct (io_read_u8_spec s b t Hs Er) as (s1 & H1 & Hr1 & Hp1 & Hf1).
    specialize (Hb b t eq_refl). rewrite nlen_cons in Hn.
    destruct (N.ltb_spec (nlen t) 4) as [H4|H4].
    + destruct (io_read_num_eof 4 le_num s1 Hf1) as (s2 & H2); [rewrite Hr1; exact H4|].
      exists s2. eapply io_runs_bind; [exact H1|]. cbv beta zeta.
      destruct (N.leb_spec 225 b); [lia|]. apply io_runs_bind_fail. exact H2.
    + destruct (split_at 4 t H4) as (bs4 & t1 & Et & Hl4).
      destruct (io_read_num_ok 4 le_num s1 bs4 t1 Hf1) as (s2 & H2 & Hr2 & Hp2 & Hf2); [congruence|exact Hl4|].
      assert (Hn1 : nlen t = 4 + nlen t1) by (rewrite Et, nlen_app; lia).
      unfold hdr_len in Hn.
      destruct (o_unpacked o) as [|x|x] eqn:Eo; try lia.
      * destruct (io_read_num_eof 8 le_num s2 Hf2) as (s3 & H3); [rewrite Hr2; lia|].
        exists s3. eapply io_runs_bind; [exact H1|]. cbv beta zeta.
        destruct (N.leb_spec 225 b); [lia|]. eapply io_runs_bind; [exact H2|]. cbv beta.
        apply io_runs_bind_fail. apply io_runs_bind_fail. exact H3.
      * destruct (io_read_num_eof 8 le_num s2 Hf2) as (s3 & H3); [rewrite Hr2; lia|].
        exists s3. eapply io_runs_bind; [exact H1|]. cbv beta zeta.
        destruct (N.leb_spec 225 b); [lia|]. eapply io_runs_bind; [exact H2|]. cbv beta.
        apply io_runs_bind_fail. apply io_runs_bind_fail. exact H3.
Qed.

Lemma read_header_ok o s : FaultFree s -> (forall b t, s_rest s = b :: t -> b < 225) ->
  hdr_len o <= nlen (s_rest s) ->
  exists p s', io_runs (read_header o) s (Done p) s' /\
    (exists hd, s_rest s = hd ++ s_rest s' /\ nlen hd = hdr_len o) /\
    s_pos s' = s_pos s + hdr_len o /\ FaultFree s' /\
    props_valid (pr_props p) = true /\ 0 < pr_dict p.
Proof.
  intros Hs Hb Hn. unfold read_header.
  destruct (s_rest s) as [|b t] eqn:Er.
  - rewrite nlen_nil in Hn. unfold hdr_len in Hn. destruct (o_unpacked o); lia.
  - destruct (io_read_u8_spec s b t Hs Er) as (s1 & H1 & Hr1 & Hp1 & Hf1).
    specialize (Hb b t eq_refl). rewrite nlen_cons in Hn.
    assert (H4 : 4 <= nlen t) by (unfold hdr_len in Hn; destruct (o_unpacked o); lia).
    destruct (split_at 4 t H4) as (bs4 & t1 & Et & Hl4).
    destruct (io_read_num_ok 4 le_num s1 bs4 t1 Hf1) as (s2 & H2 & Hr2 & Hp2 & Hf2); [congruence|exact Hl4|].
    assert (Hn1 : nlen t = 4 + nlen t1) by (rewrite Et, nlen_app; lia).
    assert (Hdict : 0 < (if le_num bs4 <? 4096 then 4096 else le_num bs4))
      by (destruct (N.ltb_spec (le_num bs4) 4096); lia).
    unfold hdr_len in *.
    destruct (o_unpacked o) as [|x|x] eqn:Eo.
    + assert (H8 : 8 <= nlen t1) by lia.
      destruct (split_at 8 t1 H8) as (bs8 & t2 & Et1 & Hl8).
      destruct (io_read_num_ok 8 le_num s2 bs8 t2 Hf2) as (s3 & H3 & Hr3 & Hp3 & Hf3); [congruence|exact Hl8|].
      eexists. exists s3. split; [|split; [|split; [|split; [|split]]]].
      * eapply io_runs_bind; [exact H1|]. cbv beta zeta.
        destruct (N.leb_spec 225 b); [lia|]. eapply io_runs_bind; [exact H2|]. cbv beta.
        eapply io_runs_bind; [|apply io_runs_ret].
        eapply io_runs_bind; [exact H3|apply io_runs_ret].
      * exists (b :: bs4 ++ bs8). rewrite Hr3, Et, Et1. split.
        -- cbn [app]. rewrite <- app_assoc. reflexivity.
        -- rewrite nlen_cons, nlen_app. lia.
      * lia.
      * exact Hf3.
      * cbn [pr_props]. apply props_of_byte. exact Hb.
      * cbn [pr_dict]. exact Hdict.
    + assert (H8 : 8 <= nlen t1) by lia.
      destruct (split_at 8 t1 H8) as (bs8 & t2 & Et1 & Hl8).
      destruct (io_read_num_ok 8 le_num s2 bs8 t2 Hf2) as (s3 & H3 & Hr3 & Hp3 & Hf3); [congruence|exact Hl8|].
      eexists. exists s3. split; [|split; [|split; [|split; [|split]]]].
      * eapply io_runs_bind; [exact H1|]. cbv beta zeta.
        destruct (N.leb_spec 225 b); [lia|]. eapply io_runs_bind; [exact H2|]. cbv beta.
        eapply io_runs_bind; [|apply io_runs_ret].
        eapply io_runs_bind; [exact H3|apply io_runs_ret].
      * exists (b :: bs4 ++ bs8). rewrite Hr3, Et, Et1. split.
        -- cbn [app]. rewrite <- app_assoc. reflexivity.
        -- rewrite nlen_cons, nlen_app. lia.
      * lia.
      * exact Hf3.
      * cbn [pr_props]. apply props_of_byte. exact Hb.
      * cbn [pr_dict]. exact Hdict.
    + eexists. exists s2. split; [|split; [|split; [|split; [|split]]]].
      * eapply io_runs_bind; [exact H1|]. cbv beta zeta.
        destruct (N.leb_spec 225 b); [lia|]. eapply io_runs_bind; [exact H2|]. cbv beta.
        eapply io_runs_bind; [apply io_runs_ret|apply io_runs_ret].
      * exists (b :: bs4). rewrite Hr2, Et. split; [reflexivity|]. rewrite nlen_cons. lia.
      * lia.
      * exact Hf2.
      * cbn [pr_props]. apply props_of_byte. exact Hb.
      * cbn [pr_dict]. exact Hdict.
Qed.

Lemma rc_new_short s : FaultFree s -> nlen (s_rest s) < 5 -> exists s', io_runs rc_new s (Failed EIo) s'.
Proof.
  intros Hs Hn. unfold rc_new.
  destruct (s_rest s) as [|b t] eqn:Er.
  - destruct (io_read_u8_eof s Hs Er) as (s' & H & _). exists s'. apply io_runs_bind_fail. exact H.
  - destruct (io_read_u8_spec s b t Hs Er) as (s1 & H1 & Hr1 & Hp1 & Hf1).
    rewrite nlen_cons in Hn.
    destruct (io_read_num_eof 4 be_num s1 Hf1) as (s2 & H2); [rewrite Hr1; lia|].
    exists s2. eapply io_runs_bind; [exact H1|]. cbv beta. apply io_runs_bind_fail. exact H2.
Qed.

Lemma rc_new_ok s : FaultFree s -> 5 <= nlen (s_rest s) ->
  exists r s', io_runs rc_new s (Done r) s' /\ s_pos s' = s_pos s + 5 /\
    exists hd, s_rest s = hd ++ s_rest s' /\ nlen hd = 5.
Proof.
  intros Hs Hn. unfold rc_new.
  destruct (s_rest s) as [|b t] eqn:Er; [rewrite nlen_nil in Hn; lia|].
  destruct (io_read_u8_spec s b t Hs Er) as (s1 & H1 & Hr1 & Hp1 & Hf1).
  rewrite nlen_cons in Hn.
  destruct (split_at 4 t ltac:(lia)) as (bs4 & t1 & Et & Hl4).
  destruct (io_read_num_ok 4 be_num s1 bs4 t1 Hf1) as (s2 & H2 & Hr2 & Hp2 & Hf2); [congruence|exact Hl4|].
  eexists. exists s2. split; [|split].
  - eapply io_runs_bind; [exact H1|]. cbv beta. eapply io_runs_bind; [exact H2|apply io_runs_ret].
  - lia.
  - exists (b :: bs4). rewrite Hr2, Et. split; [reflexivity|]. rewrite nlen_cons. lia.
Qed.

(* ------------------------------------------------------------------ *)
(* Stream::read_header on a cursor                                     *)
(* ------------------------------------------------------------------ *)
(* header + range coder preamble *)
Definition need (o : options) : N := hdr_len o + 5.

Lemma need_bounds o : 10 <= need o <= 18.
Proof. unfold need, hdr_len. destruct (o_unpacked o); lia. Qed.

Definition head_ok (l : list N) : Prop := forall b t, l = b :: t -> b < 225.

Lemma srh_short k d o : head_ok d -> nlen d < need o ->
  exists s', stream_read_header k (cursor_of d) o = (Done (SHeader k), s').
Proof.
  intros Hb Hn. unfold stream_read_header.
  pose proof (cursor_FaultFree d) as Hs.
  destruct (N.ltb_spec (nlen d) (hdr_len o)) as [Hh|Hh].
  - destruct (read_header_short o (cursor_of d) Hs Hb Hh) as (s' & H).
    rewrite (src_run_map EHeaderTooShort (read_header o) (cursor_of d) _ _ eq_refl H). cbn [mapo]. eexists. reflexivity.
  - destruct (read_header_ok o (cursor_of d) Hs Hb Hh) as (p & s' & H & (hd & Ehd & Lhd) & Hp & Hf & Hv & Hd).
    rewrite (src_run_map EHeaderTooShort (read_header o) (cursor_of d) _ _ eq_refl H). cbn [mapo].
    unfold dstate_new. rewrite Hv. cbn [negb].
    assert (Hr : nlen (s_rest s') < 5).
    { change (s_rest (cursor_of d)) with d in Ehd. rewrite Ehd, nlen_app in Hn. unfold need in Hn. lia. }
    destruct (rc_new_short s' Hf Hr) as (s'' & H2).
    rewrite (io_runs_src_run _ _ _ _ H2). eexists. reflexivity.
Qed.

Lemma srh_full k d o : head_ok d -> need o <= nlen d ->
  exists r s', stream_read_header k (cursor_of d) o = (Done (SData r), s') /\
    s_pos s' = need o /\ c_snk (rs_out r) = k /\
    (k_wfail k = None -> CInv (snk_bytes k) (rs_out r) []).
Proof.
  intros Hb Hn. unfold stream_read_header.
  pose proof (cursor_FaultFree d) as Hs.
  assert (Hh : hdr_len o <= nlen (s_rest (cursor_of d))) by (change (s_rest (cursor_of d)) with d; unfold need in Hn; lia).
  destruct (read_header_ok o (cursor_of d) Hs Hb Hh) as (p & s' & H & (hd & Ehd & Lhd) & Hp & Hf & Hv & Hd).
  rewrite (src_run_map EHeaderTooShort (read_header o) (cursor_of d) _ _ eq_refl H). cbn [mapo].
  unfold dstate_new. rewrite Hv. cbn [negb].
  assert (Hr : 5 <= nlen (s_rest s')).
  { change (s_rest (cursor_of d)) with d in Ehd. rewrite Ehd, nlen_app in Hn. unfold need in Hn. lia. }
  destruct (rc_new_ok s' Hf Hr) as (r & s'' & H2 & Hp2 & _).
  rewrite (io_runs_src_run _ _ _ _ H2).
  eexists. eexists. split; [reflexivity|]. cbn [rs_out]. split; [|split].
  - rewrite Hp2, Hp. unfold need. reflexivity.
  - reflexivity.
  - intros Hw. apply circ_new_inv; assumption.
Qed.

(* ------------------------------------------------------------------ *)
(* one write() while the header is incomplete                          *)
(* ------------------------------------------------------------------ *)
(* too few bytes so far: everything offered is taken into the tmp buffer *)
Lemma header_step_short s k d :
  st_state s = Some (SHeader k) -> head_ok (st_tmp s ++ d) ->
  nlen (st_tmp s) + nlen d < need (st_opts s) ->
  stream_write s d = (Done (nlen d), mkStream (st_tmp s ++ d) (Some (SHeader k)) (st_opts s) k).
Proof.
  intros Es Hb Hn. pose proof (need_bounds (st_opts s)) as Hnb.
  unfold stream_write. rewrite Es. cbv zeta. unfold MAX_TMP_LEN.
  destruct (N.ltb_spec 0 (nlen (st_tmp s))) as [Hpos|Hz].
  - assert (Hmin : N.min (nlen d) (18 - nlen (st_tmp s)) = nlen d) by lia.
    rewrite Hmin, nfirstn_all.
    destruct (srh_short k (st_tmp s ++ d) (st_opts s) Hb) as (s' & E); [rewrite nlen_app; exact Hn|].
    rewrite E. cbv beta iota.
    destruct (N.eqb_spec (nlen (st_tmp s ++ d)) 0) as [Hz|_]; [rewrite nlen_app in Hz; lia|reflexivity].
  - assert (Et : st_tmp s = []) by (apply nlen_zero; lia). rewrite Et in *. cbn [app] in *.
    rewrite nlen_nil in Hn.
    destruct (srh_short k d (st_opts s) Hb) as (s' & E); [lia|].
    rewrite E. cbv beta iota. rewrite nlen_nil. change (0 =? 0) with true. cbv iota.
    assert (Hmin : N.min (nlen d) 18 = nlen d) by lia.
    rewrite Hmin, nfirstn_all. reflexivity.
Qed.

(* enough bytes: the stream enters the data state with an empty history *)
Lemma header_step_full s k d :
  st_state s = Some (SHeader k) -> head_ok (st_tmp s ++ d) ->
  nlen (st_tmp s) < need (st_opts s) -> need (st_opts s) <= nlen (st_tmp s) + nlen d ->
  exists n s' r, stream_write s d = (Done n, s') /\ n <= nlen d /\
    st_state s' = Some (SData r) /\ st_opts s' = st_opts s /\ c_snk (rs_out r) = k /\
    (k_wfail k = None -> CInv (snk_bytes k) (rs_out r) []).
Proof.
  intros Es Hb Hlt Hn. pose proof (need_bounds (st_opts s)) as Hnb.
  unfold stream_write. rewrite Es. cbv zeta. unfold MAX_TMP_LEN.
  destruct (N.ltb_spec 0 (nlen (st_tmp s))) as [Hpos|Hz].
  - set (n := N.min (nlen d) (18 - nlen (st_tmp s))).
    assert (Hb' : head_ok (st_tmp s ++ nfirstn n d)).
    { intros b t E. destruct (st_tmp s) as [|b0 t0] eqn:Et; [change (nlen (@nil N)) with 0 in Hpos; lia|].
      cbn [app] in E. inversion E; subst. eapply Hb. rewrite ?Et. cbn [app]. reflexivity. }
    destruct (srh_full k (st_tmp s ++ nfirstn n d) (st_opts s) Hb') as (r & s' & E & Hp & Hk & HI).
    { rewrite nlen_app, nlen_nfirstn. unfold n. lia. }
    rewrite E. cbv beta iota.
    eexists. eexists. exists r. split; [reflexivity|]. cbn [st_state st_opts].
    split; [unfold n; lia|]. split; [reflexivity|split; [reflexivity|split; [exact Hk|exact HI]]].
  - assert (Et : st_tmp s = []) by (apply nlen_zero; lia). rewrite Et in *. cbn [app] in *.
    rewrite nlen_nil in Hn.
    destruct (srh_full k d (st_opts s) Hb) as (r & s' & E & Hp & Hk & HI); [lia|].
    rewrite E. cbv beta iota.
    eexists. eexists. exists r. split; [reflexivity|]. cbn [st_state st_opts].
    split; [rewrite Hp; lia|]. split; [reflexivity|split; [reflexivity|split; [exact Hk|exact HI]]].
Qed.

(* ------------------------------------------------------------------ *)
(* header + 5 bytes in two pieces                                      *)
(* ------------------------------------------------------------------ *)
(* [entered k s]: [s] is in the data state, has decoded nothing, and owns [k] *)
Definition entered (k : snk) (s : stream) : Prop :=
  exists r, st_state s = Some (SData r) /\ c_snk (rs_out r) = k /\
            (k_wfail k = None -> CInv (snk_bytes k) (rs_out r) []).

Theorem data_state_after_two_writes o k d1 d2 :
  need o <= nlen (d1 ++ d2) -> head_ok (d1 ++ d2) ->
  exists n1 s1, stream_write (stream_new o k) d1 = (Done n1, s1) /\ n1 <= nlen d1 /\
    (entered k s1 \/
     (n1 = nlen d1 /\ exists n2 s2, stream_write s1 d2 = (Done n2, s2) /\ n2 <= nlen d2 /\ entered k s2)).
Proof.
  intros Hn Hb. rewrite nlen_app in Hn.
  destruct (N.ltb_spec (nlen d1) (need o)) as [Hs|Hf].
  - (* the first piece is short: it is buffered; the second one completes the header *)
    assert (Hb1 : head_ok (st_tmp (stream_new o k) ++ d1)).
    { cbn [stream_new st_tmp app]. intros b t E. subst d1. eapply Hb. reflexivity. }
    pose proof (header_step_short (stream_new o k) k d1 eq_refl Hb1) as E1.
    cbn [stream_new st_tmp st_opts app] in E1. rewrite nlen_nil in E1. specialize (E1 ltac:(lia)).
    eexists. eexists. split; [exact E1|]. split; [lia|]. right. split; [reflexivity|].
    set (s1 := mkStream d1 (Some (SHeader k)) o k).
    destruct (header_step_full s1 k d2 eq_refl Hb) as (n2 & s2 & r & E2 & Hle & Hst & _ & Hk & HI).
    { exact Hs. } { exact Hn. }
    exists n2, s2. split; [exact E2|]. split; [exact Hle|]. exists r. split; [exact Hst|split; [exact Hk|exact HI]].
  - (* the first piece already holds header + 5 bytes *)
    assert (Hb1 : head_ok (st_tmp (stream_new o k) ++ d1)).
    { cbn [stream_new st_tmp app]. intros b t E. subst d1. eapply Hb. reflexivity. }
    destruct (header_step_full (stream_new o k) k d1 eq_refl Hb1) as (n1 & s1 & r & E1 & Hle & Hst & _ & Hk & HI).
    { cbn [stream_new st_tmp st_opts]. rewrite nlen_nil. pose proof (need_bounds o). lia. }
    { cbn [stream_new st_tmp st_opts]. rewrite nlen_nil. lia. }
    exists n1, s1. split; [exact E1|]. split; [exact Hle|]. left. exists r. split; [exact Hst|split; [exact Hk|exact HI]].
Qed.
Print Assumptions data_state_after_two_writes.

(* ------------------------------------------------------------------ *)
(* header + 5 bytes in any number of pieces                            *)
(* ------------------------------------------------------------------ *)
(* [fed s ds s']: the pieces [ds] were written one after the other, each one was
   taken completely (write returned Ok(len)), and the header is still incomplete *)
Inductive fed : stream -> list (list N) -> stream -> Prop :=
| fed_nil s : fed s [] s
| fed_cons s d ds s1 s2 :
    stream_write s d = (Done (nlen d), s1) -> (exists k, st_state s1 = Some (SHeader k)) ->
    fed s1 ds s2 -> fed s (d :: ds) s2.

Lemma header_chunks ds : forall s k,
  st_state s = Some (SHeader k) -> head_ok (st_tmp s ++ concat ds) ->
  nlen (st_tmp s) < need (st_opts s) -> need (st_opts s) <= nlen (st_tmp s) + nlen (concat ds) ->
  exists ds1 d ds2 s1 n s2, ds = ds1 ++ d :: ds2 /\ fed s ds1 s1 /\
    stream_write s1 d = (Done n, s2) /\ n <= nlen d /\ st_opts s2 = st_opts s /\ entered k s2.
Proof.
  induction ds as [|d ds IH]; intros s k Es Hb Hlt Hn.
  - cbn [concat] in Hn. rewrite nlen_nil in Hn. lia.
  - cbn [concat] in Hb, Hn. rewrite nlen_app in Hn.
    destruct (N.ltb_spec (nlen (st_tmp s) + nlen d) (need (st_opts s))) as [Hs|Hf].
    + assert (Hb1 : head_ok (st_tmp s ++ d)).
      { intros b t E. destruct (st_tmp s ++ d) as [|b0 t0] eqn:Ed; [discriminate|].
        inversion E; subst. rewrite app_assoc, Ed in Hb. eapply Hb. reflexivity. }
      pose proof (header_step_short s k d Es Hb1 Hs) as E1.
      set (s1 := mkStream (st_tmp s ++ d) (Some (SHeader k)) (st_opts s) k) in *.
      destruct (IH s1 k eq_refl) as (ds1 & d' & ds2 & s1' & n & s2 & Eds & Hfed & Ew & Hle & Ho & Hent).
      { cbn [s1 st_tmp]. rewrite <- app_assoc. exact Hb. }
      { cbn [s1 st_tmp st_opts]. rewrite nlen_app. exact Hs. }
      { cbn [s1 st_tmp st_opts]. rewrite nlen_app. lia. }
      exists (d :: ds1), d', ds2, s1', n, s2. split; [rewrite Eds; reflexivity|].
      split; [econstructor; [exact E1|exists k; reflexivity|exact Hfed]|].
      split; [exact Ew|]. split; [exact Hle|]. split; [exact Ho|exact Hent].
    + assert (Hb1 : head_ok (st_tmp s ++ d)).
      { intros b t E. destruct (st_tmp s ++ d) as [|b0 t0] eqn:Ed; [discriminate|].
        inversion E; subst. rewrite app_assoc, Ed in Hb. eapply Hb. reflexivity. }
      destruct (header_step_full s k d Es Hb1 Hlt Hf) as (n & s2 & r & E & Hle & Hst & Ho & Hk & HI).
      exists [], d, ds, s, n, s2. split; [reflexivity|]. split; [constructor|].
      split; [exact E|]. split; [exact Hle|]. split; [exact Ho|]. exists r. split; [exact Hst|split; [exact Hk|exact HI]].
Qed.

(* The data state is reached as soon as header + 5 bytes have been offered,
   whatever the chunking: all the pieces before the completing one are taken
   whole, the completing write returns Ok and leaves the stream in the data state
   with an empty history (and the sink untouched). *)
Theorem data_state_any_chunking o k ds :
  need o <= nlen (concat ds) -> head_ok (concat ds) ->
  exists ds1 d ds2 s1 n s2, ds = ds1 ++ d :: ds2 /\ fed (stream_new o k) ds1 s1 /\
    stream_write s1 d = (Done n, s2) /\ n <= nlen d /\ st_opts s2 = o /\ entered k s2.
Proof.
  intros Hn Hb.
  apply (header_chunks ds (stream_new o k) k eq_refl).
  - exact Hb.
  - cbn [stream_new st_tmp st_opts]. rewrite nlen_nil. pose proof (need_bounds o). lia.
  - cbn [stream_new st_tmp st_opts]. rewrite nlen_nil. lia.
Qed.
Print Assumptions data_state_any_chunking.

(* the hypotheses are satisfiable: the 13 + 5 bytes of StreamLatch.ex_stream cut after 7 bytes *)
Example chunking_example :
  need ex_opts <= nlen (nfirstn 18 ex_stream) /\ head_ok (nfirstn 18 ex_stream) /\
  exists r, st_state (snd (stream_write (snd (stream_write (stream_new ex_opts vec_sink) (nfirstn 7 ex_stream)))
                                        (nskipn 7 (nfirstn 18 ex_stream)))) = Some (SData r).
Proof.
  split; [vm_compute; discriminate|]. split.
  - intros b t E. vm_compute in E. inversion E; subst. lia.
  - eexists. vm_compute. reflexivity.
Qed.
