(* Inversion lemmas for the derived read / write operations of Model/Io.v.
   [reads w w' c]: between the worlds [w] and [w'] exactly the bytes [c] were
   consumed from the source, the position advanced by their number, a source
   without a Take limit stays without one, and the sink was not touched.
   None of the lemmas needs a fault-free source: a run that ends in [Done] has
   not met a fault, whatever the fragmentation. *)
From LZ Require Import Base.Prelude Base.Prog Model.Io Proofs.ProgLemmas.
Local Open Scope prog_scope.

(* ---------- lists with N lengths ---------- *)
Lemma nlen_nil {A} : @nlen A [] = 0.
Proof. reflexivity. Qed.
Lemma nlen_cons {A} (a : A) l : nlen (a :: l) = 1 + nlen l.
Proof. unfold nlen. cbn [length]. lia. Qed.
Lemma nlen_app {A} (l1 l2 : list A) : nlen (l1 ++ l2) = nlen l1 + nlen l2.
Proof. unfold nlen. rewrite app_length. lia. Qed.
Lemma nlen_repeat {A} (a : A) n : nlen (repeat a n) = N.of_nat n.
Proof. unfold nlen. rewrite repeat_length. reflexivity. Qed.
Lemma nlen_length {A} (l : list A) n : nlen l = N.of_nat n -> length l = n.
Proof. unfold nlen. lia. Qed.
Global Hint Rewrite @nlen_nil @nlen_cons @nlen_app @nlen_repeat : nlen.

Lemma nlen_nfirstn {A} n (l : list A) : nlen (nfirstn n l) = N.min n (nlen l).
Proof. unfold nlen, nfirstn. rewrite firstn_length. lia. Qed.

Lemma nmin_len_min {A} n (l : list A) : nmin_len n l = N.min n (nlen l).
Proof. unfold nmin_len. destruct (n <? 1048576); [apply nlen_nfirstn|reflexivity]. Qed.

Lemma nfirstn_nskipn {A} k (l : list A) : nfirstn k l ++ nskipn k l = l.
Proof. apply firstn_skipn. Qed.

Lemma nfirstn_nskipn_len {A} k (l : list A) : l = nfirstn k l ++ nskipn (nlen (nfirstn k l)) l.
Proof.
  unfold nfirstn, nskipn, nlen. rewrite Nat2N.id, firstn_length.
  destruct (Nat.le_ge_cases (N.to_nat k) (length l)) as [H|H].
  - rewrite Nat.min_l by assumption. symmetry. apply firstn_skipn.
  - rewrite Nat.min_r by assumption. rewrite firstn_all2 by assumption.
    rewrite skipn_all. symmetry. apply app_nil_r.
Qed.

Lemma lrev_cons_app {A} (a : A) acc : lrev (a :: acc) = lrev acc ++ [a].
Proof. rewrite !lrev_rev. reflexivity. Qed.

Lemma lrev_rev_append {A} (got acc : list A) : lrev (rev_append got acc) = lrev acc ++ got.
Proof. rewrite !lrev_rev, rev_append_rev, rev_app_distr, rev_involutive. reflexivity. Qed.

(* ---------- handler results ---------- *)
Definition hstate {X S} (r : hres X S) : S :=
  match r with HOk _ s => s | HErr _ s => s | HPanic _ s => s end.

(* a reflexive transitive relation that every handler step respects is respected by every program *)
Section Pres.
  Context {E : Type -> Type} {S : Type} (h : handler E S) (R : S -> S -> Prop).
  Hypothesis Rrefl : forall s, R s s.
  Hypothesis Rtrans : forall a b c, R a b -> R b c -> R a c.
  Hypothesis Hstep : forall X (o : E X) s, R s (hstate (h X o s)).
  Lemma interp_pres {A} (p : prog E A) : forall s, R s (snd (interp h p s)).
  Proof.
    induction p as [a|e|q|X o k IH]; intros s; cbn [interp snd]; try apply Rrefl.
    specialize (Hstep X o s). destruct (h X o s) as [x s'|e s'|q s']; cbn [hstate] in Hstep; cbn [snd].
    - eapply Rtrans; [exact Hstep|apply IH].
    - exact Hstep.
    - exact Hstep.
  Qed.
End Pres.

(* ---------- running programs ---------- *)
Lemma run_ret {A} (a : A) w : run_io (Ret a) w = (Done a, w).
Proof. reflexivity. Qed.
Lemma run_fail {A} e w : run_io (@Fail ioE A e) w = (Failed e, w).
Proof. reflexivity. Qed.
Lemma run_panic {A} q w : run_io (@Panic ioE A q) w = (Panicked q, w).
Proof. reflexivity. Qed.

Lemma run_bind {A B} (p : iop A) (f : A -> iop B) w :
  run_io (bind p f) w =
  match run_io p w with
  | (Done a, w1) => run_io (f a) w1
  | (Failed e, w1) => (Failed e, w1)
  | (Panicked q, w1) => (Panicked q, w1)
  end.
Proof. apply interp_bind. Qed.

Lemma run_bind_inv {A B} (p : iop A) (f : A -> iop B) w b w' :
  run_io (bind p f) w = (Done b, w') ->
  exists a w1, run_io p w = (Done a, w1) /\ run_io (f a) w1 = (Done b, w').
Proof.
  rewrite run_bind. destruct (run_io p w) as [[a|e|q] w1]; intros H; try discriminate H. eauto.
Qed.

Lemma run_ret_inv {A} (a b : A) w w' : run_io (Ret a) w = (Done b, w') -> b = a /\ w' = w.
Proof. rewrite run_ret. intros H. inversion H. auto. Qed.
Lemma run_fail_inv {A} e w (b : A) w' : run_io (Fail e) w = (Done b, w') -> False.
Proof. rewrite run_fail. discriminate. Qed.
Lemma run_panic_inv {A} q w (b : A) w' : run_io (Panic q) w = (Done b, w') -> False.
Proof. rewrite run_panic. discriminate. Qed.

Lemma run_call {X} (o : ioE X) w :
  run_io (icall o) w =
  match io_h _ o w with
  | HOk x w' => (Done x, w') | HErr e w' => (Failed e, w') | HPanic q w' => (Panicked q, w')
  end.
Proof. apply interp_call. Qed.

(* [rbind H as a w1 H1]: H : run_io (x <- p ;; f x) w = (Done ..)  becomes  H1 : run_io p w = (Done a, w1), H : run_io (f a) w1 = .. *)
Tactic Notation "rbind" hyp(H) "as" ident(a) ident(w1) ident(H1) :=
  apply run_bind_inv in H; destruct H as (a & w1 & H1 & H).
(* close a goal whose hypothesis H says that a failing / panicking program returned Done *)
Ltac rabs H :=
  exfalso; first [exact (run_fail_inv _ _ _ _ H) | exact (run_panic_inv _ _ _ _ H) | discriminate H].

(* ---------- the relation between source states ---------- *)
Definition pre (r : list N) (p : N) (r' : list N) (p' : N) : Prop :=
  exists c, r = c ++ r' /\ p' = p + nlen c.
Definition sle0 (s s' : src) : Prop := pre (s_rest s) (s_pos s) (s_rest s') (s_pos s').
Definition nolim (s s' : src) : Prop := s_limit s = None -> s_limit s' = None.
Definition sadv (s s' : src) (c : list N) : Prop :=
  s_rest s = c ++ s_rest s' /\ s_pos s' = s_pos s + nlen c /\ nolim s s'.
Definition reads (w w' : io) (c : list N) : Prop :=
  sadv (i_src w) (i_src w') c /\ i_snk w' = i_snk w.

Lemma pre_refl r p : pre r p r p.
Proof. exists []. split; [reflexivity|]. rewrite nlen_nil. lia. Qed.
Lemma pre_trans r p r1 p1 r2 p2 : pre r p r1 p1 -> pre r1 p1 r2 p2 -> pre r p r2 p2.
Proof.
  intros (c1 & E1 & P1) (c2 & E2 & P2). exists (c1 ++ c2). subst. rewrite <- app_assoc, nlen_app.
  split; [reflexivity|lia].
Qed.
Lemma sle0_refl s : sle0 s s.
Proof. apply pre_refl. Qed.
Lemma sle0_trans a b c : sle0 a b -> sle0 b c -> sle0 a c.
Proof. apply pre_trans. Qed.
Lemma nolim_refl s : nolim s s.
Proof. intros H; exact H. Qed.
Lemma nolim_trans a b c : nolim a b -> nolim b c -> nolim a c.
Proof. unfold nolim. auto. Qed.

Lemma sadv_refl s : sadv s s [].
Proof. repeat split; [rewrite nlen_nil; lia|apply nolim_refl]. Qed.
Lemma sadv_trans a b c c1 c2 : sadv a b c1 -> sadv b c c2 -> sadv a c (c1 ++ c2).
Proof.
  intros (E1 & P1 & L1) (E2 & P2 & L2). repeat split.
  - rewrite E1, E2, app_assoc. reflexivity.
  - rewrite nlen_app. lia.
  - eapply nolim_trans; eassumption.
Qed.
Lemma sadv_sle0 a b c : sadv a b c -> sle0 a b.
Proof. intros (E & P & _). exists c. auto. Qed.
Lemma sadv_nolim a b c : sadv a b c -> nolim a b.
Proof. intros (_ & _ & L). exact L. Qed.
Lemma sadv_eq a b c c' : c = c' -> sadv a b c -> sadv a b c'.
Proof. intros ->. auto. Qed.

Lemma reads_refl w : reads w w [].
Proof. split; [apply sadv_refl|reflexivity]. Qed.
Lemma reads_trans w w1 w2 c1 c2 : reads w w1 c1 -> reads w1 w2 c2 -> reads w w2 (c1 ++ c2).
Proof. intros (A1 & K1) (A2 & K2). split; [eapply sadv_trans; eassumption|congruence]. Qed.
Lemma reads_eq w w' c c' : c = c' -> reads w w' c -> reads w w' c'.
Proof. intros ->. auto. Qed.
Lemma reads_pos w w' c : reads w w' c -> s_pos (i_src w') = s_pos (i_src w) + nlen c.
Proof. intros ((_ & P & _) & _). exact P. Qed.
Lemma reads_rest w w' c : reads w w' c -> s_rest (i_src w) = c ++ s_rest (i_src w').
Proof. intros ((E & _) & _). exact E. Qed.
Lemma reads_snk w w' c : reads w w' c -> i_snk w' = i_snk w.
Proof. intros (_ & K). exact K. Qed.
Lemma reads_nolim w w' c : reads w w' c -> s_limit (i_src w) = None -> s_limit (i_src w') = None.
Proof. intros ((_ & _ & L) & _). exact L. Qed.

(* ---------- the four source operations ---------- *)
Lemma src_fill_spec s :
  match src_fill s with
  | HOk v s' => (s_rest s' = s_rest s /\ s_pos s' = s_pos s /\ s_limit s' = s_limit s) /\
                fst v = s_rest s /\ (s_limit s = None -> snd v = 0 -> s_rest s = [])
  | HErr _ s' => s_rest s' = s_rest s /\ s_pos s' = s_pos s /\ s_limit s' = s_limit s
  | HPanic _ s' => s_rest s' = s_rest s /\ s_pos s' = s_pos s /\ s_limit s' = s_limit s
  end.
Proof.
  assert (G : forall l : option N,
    s_limit s = l ->
    match (if 0 <? s_avail s then HOk (s_rest s, limited s (s_avail s)) s
    else
      match s_rest s with
      | [] => HOk ([], 0) s
      | _ =>
        if (match s_fail s with Some k => k =? s_refills s | None => false end)
        then HErr EIo (mkSrc (s_rest s) (s_pos s) 0 (s_refills s + 1) (s_frag s) (s_fail s) (s_limit s))
        else
          let want := N.max 1 (s_frag s (s_refills s)) in
          let a := nmin_len want (s_rest s) in
          let s' := mkSrc (s_rest s) (s_pos s) a (s_refills s + 1) (s_frag s) (s_fail s) (s_limit s) in
          HOk (s_rest s, limited s' a) s'
      end) with
    | HOk v s' => (s_rest s' = s_rest s /\ s_pos s' = s_pos s /\ s_limit s' = s_limit s) /\
                fst v = s_rest s /\ (l = None -> snd v = 0 -> s_rest s = [])
    | HErr _ s' => s_rest s' = s_rest s /\ s_pos s' = s_pos s /\ s_limit s' = s_limit s
    | HPanic _ s' => s_rest s' = s_rest s /\ s_pos s' = s_pos s /\ s_limit s' = s_limit s
    end).
  { intros l EL.
    destruct (N.ltb_spec 0 (s_avail s)) as [HA|HA].
    - cbn [fst snd]. repeat split. intros -> H0. unfold limited in H0. rewrite EL in H0. lia.
    - destruct (s_rest s) as [|b t] eqn:ER.
      + cbn [fst snd]. repeat split; auto.
      + destruct (match s_fail s with Some k => k =? s_refills s | None => false end).
        * cbn [s_rest s_pos s_limit]. repeat split.
        * cbv zeta. cbn [fst snd s_rest s_pos s_limit]. repeat split.
          intros -> H0. unfold limited in H0. cbn [s_limit] in H0. rewrite EL in H0.
          rewrite nmin_len_min, nlen_cons in H0. lia. }
  unfold src_fill. destruct (s_limit s) as [[|l]|] eqn:EL.
  - cbn [fst snd]. repeat split; intros; try discriminate; auto.
  - exact (G _ eq_refl).
  - exact (G _ eq_refl).
Qed.

Lemma fill_spec w :
  match run_io (icall FillBuf) w with
  | (Done v, w') => reads w w' [] /\ fst v = s_rest (i_src w) /\
                    (s_limit (i_src w) = None -> snd v = 0 -> s_rest (i_src w) = [])
  | (_, w') => reads w w' []
  end.
Proof.
  rewrite run_call. cbn [io_h]. pose proof (src_fill_spec (i_src w)) as F.
  assert (R : forall s', s_rest s' = s_rest (i_src w) /\ s_pos s' = s_pos (i_src w) /\ s_limit s' = s_limit (i_src w) ->
              reads w (mkIo s' (i_snk w)) []).
  { intros s' (E1 & E2 & E3). split; [|reflexivity]. cbn [i_src]. repeat split.
    - symmetry. exact E1.
    - rewrite nlen_nil. lia.
    - intros H. congruence. }
  destruct (src_fill (i_src w)) as [v s'|e s'|q s'].
  - destruct F as (F1 & F2 & F3). auto.
  - auto.
  - auto.
Qed.

Lemma consume_spec n w :
  run_io (icall (Consume n)) w = (Done tt, mkIo (src_consume (i_src w) n) (i_snk w)).
Proof. rewrite run_call. reflexivity. Qed.

Lemma getpos_spec w : run_io (icall GetPos) w = (Done (s_pos (i_src w)), w).
Proof. rewrite run_call. reflexivity. Qed.

Lemma getpos_inv w p w' : run_io (icall GetPos) w = (Done p, w') -> p = s_pos (i_src w) /\ w' = w.
Proof. rewrite getpos_spec. intros H. inversion H. auto. Qed.

(* ---------- read_buf ---------- *)
Lemma read_buf_spec n w r w' : run_io (read_buf n) w = (r, w') ->
  exists c, reads w w' c /\ forall got, r = Done got -> got = c /\ nlen got <= n /\
    (got = [] -> n <> 0 -> s_limit (i_src w) = None -> s_rest (i_src w) = []).
Proof.
  unfold read_buf. destruct (N.eqb_spec n 0) as [E0|E0].
  - rewrite run_ret. intros H. inversion H; subst. exists []. split; [apply reads_refl|].
    intros got G. inversion G. split; [reflexivity|]. rewrite nlen_nil. split; [lia|]. intros _ C. contradiction.
  - rewrite run_bind. pose proof (fill_spec w) as F.
    destruct (run_io (icall FillBuf) w) as [[v|e|q] w1].
    + destruct F as (F1 & F2 & F3). rewrite run_bind, consume_spec, run_ret.
      intros H. inversion H; subst. clear H.
      set (got := nfirstn (N.min n (snd v)) (fst v)).
      exists got. split.
      * apply (reads_eq _ _ ([] ++ got) got eq_refl). eapply reads_trans; [exact F1|].
        split; [|reflexivity]. cbn [i_src]. unfold src_consume. repeat split; cbn [s_rest s_pos s_limit].
        -- pose proof (reads_rest _ _ _ F1) as E. cbn [app] in E. rewrite <- E, <- F2. apply nfirstn_nskipn_len.
        -- intros L. rewrite L. reflexivity.
      * intros g G. inversion G. split; [reflexivity|]. split; [unfold got; rewrite nlen_nfirstn; lia|].
        intros EG _ L. assert (L0 : nlen got = 0) by (rewrite EG; apply nlen_nil).
        unfold got in L0. rewrite nlen_nfirstn, F2 in L0.
        destruct (N.eq_dec (snd v) 0) as [Z|Z]; [auto|].
        destruct (s_rest (i_src w)) as [|x t]; [reflexivity|]. rewrite nlen_cons in L0. lia.
    + intros H. inversion H; subst. exists []. split; [exact F|]. intros g G. discriminate G.
    + intros H. inversion H; subst. exists []. split; [exact F|]. intros g G. discriminate G.
Qed.

(* ---------- read_exact ---------- *)
Lemma read_exact_loop_spec fuel : forall n acc w r w',
  run_io (read_exact_loop fuel n acc) w = (r, w') ->
  exists c, reads w w' c /\ forall bs, r = Done bs -> bs = lrev acc ++ c /\ nlen c = n.
Proof.
  induction fuel as [|fuel IH]; intros n acc w r w'; cbn [read_exact_loop];
    destruct (N.eqb_spec n 0) as [E0|E0].
  - rewrite run_ret. intros H. inversion H; subst. exists []. split; [apply reads_refl|].
    intros bs G. inversion G. rewrite app_nil_r, nlen_nil. auto.
  - rewrite run_panic. intros H. inversion H; subst. exists []. split; [apply reads_refl|]. discriminate.
  - rewrite run_ret. intros H. inversion H; subst. exists []. split; [apply reads_refl|].
    intros bs G. inversion G. rewrite app_nil_r, nlen_nil. auto.
  - rewrite run_bind. destruct (run_io (read_buf n) w) as [[got|e|q] w1] eqn:EB;
      destruct (read_buf_spec _ _ _ _ EB) as (c1 & R1 & G1).
    + destruct (G1 _ eq_refl) as (-> & Hlen & _).
      destruct c1 as [|b t].
      * rewrite run_fail. intros H. inversion H; subst. exists []. split; [exact R1|]. discriminate.
      * intros H. destruct (IH _ _ _ _ _ H) as (c2 & R2 & G2).
        exists ((b :: t) ++ c2). split; [eapply reads_trans; eassumption|].
        intros bs G. destruct (G2 _ G) as (-> & L2). rewrite lrev_rev_append, <- app_assoc.
        split; [reflexivity|]. rewrite nlen_app. lia.
    + intros H. inversion H; subst. exists c1. split; [exact R1|]. discriminate.
    + intros H. inversion H; subst. exists c1. split; [exact R1|]. discriminate.
Qed.

Lemma read_exact_spec n w r w' : run_io (read_exact n) w = (r, w') ->
  exists c, reads w w' c /\ forall bs, r = Done bs -> bs = c /\ nlen c = n.
Proof.
  intros H. destruct (read_exact_loop_spec _ _ _ _ _ _ H) as (c & R & G). exists c. split; [exact R|].
  intros bs B. destruct (G _ B) as (-> & L). auto.
Qed.

Lemma read_exact_inv n w bs w' : run_io (read_exact n) w = (Done bs, w') -> reads w w' bs /\ nlen bs = n.
Proof.
  intros H. destruct (read_exact_spec _ _ _ _ H) as (c & R & G). destruct (G _ eq_refl) as (-> & L). auto.
Qed.

Lemma read_u8_inv w b w' : run_io read_u8 w = (Done b, w') -> reads w w' [b].
Proof.
  unfold read_u8. intros H. rbind H as bs w1 H1. apply read_exact_inv in H1. destruct H1 as (R & L).
  destruct bs as [|b0 [|b1 t]]; try rabs H. apply run_ret_inv in H. destruct H as (-> & ->). exact R.
Qed.

Lemma read_u32_le_inv w v w' : run_io read_u32_le w = (Done v, w') ->
  exists bs, reads w w' bs /\ length bs = 4%nat /\ le_num bs = v.
Proof.
  unfold read_u32_le. intros H. rbind H as bs w1 H1. apply read_exact_inv in H1. destruct H1 as (R & L).
  apply run_ret_inv in H. destruct H as (-> & ->). exists bs. split; [exact R|]. split; [|reflexivity].
  apply nlen_length. exact L.
Qed.

Lemma read_u64_le_inv w v w' : run_io read_u64_le w = (Done v, w') ->
  exists bs, reads w w' bs /\ length bs = 8%nat /\ le_num bs = v.
Proof.
  unfold read_u64_le. intros H. rbind H as bs w1 H1. apply read_exact_inv in H1. destruct H1 as (R & L).
  apply run_ret_inv in H. destruct H as (-> & ->). exists bs. split; [exact R|]. split; [|reflexivity].
  apply nlen_length. exact L.
Qed.

Lemma read_tag_inv tag w w' : run_io (read_tag tag) w = (Done true, w') -> reads w w' tag.
Proof.
  unfold read_tag. intros H. rbind H as bs w1 H1. apply read_exact_inv in H1. destruct H1 as (R & L).
  apply run_ret_inv in H. destruct H as (E & ->). destruct (list_eq_dec N.eq_dec bs tag) as [->|]; [exact R|discriminate E].
Qed.

Lemma is_eof_inv w w' : run_io is_eof w = (Done true, w') ->
  reads w w' [] /\ (s_limit (i_src w) = None -> s_rest (i_src w') = []).
Proof.
  unfold is_eof. intros H. rbind H as v w1 H1. pose proof (fill_spec w) as F. rewrite H1 in F.
  destruct F as (F1 & F2 & F3). apply run_ret_inv in H. destruct H as (E & ->). split; [exact F1|].
  intros L. symmetry in E. apply N.eqb_eq in E. pose proof (reads_rest _ _ _ F1) as ER. cbn [app] in ER.
  rewrite <- ER. auto.
Qed.

(* ---------- read_upto ---------- *)
Lemma read_upto_loop_spec fuel : forall n acc w r w',
  run_io (read_upto_loop fuel n acc) w = (r, w') ->
  exists c, reads w w' c /\ forall bs, r = Done bs -> bs = lrev acc ++ c /\ nlen c <= n /\
    (nlen c < n -> s_limit (i_src w) = None -> s_rest (i_src w') = []).
Proof.
  induction fuel as [|fuel IH]; intros n acc w r w'; cbn [read_upto_loop];
    destruct (N.eqb_spec n 0) as [E0|E0].
  - rewrite run_ret. intros H. inversion H; subst. exists []. split; [apply reads_refl|].
    intros bs G. inversion G. rewrite app_nil_r, nlen_nil. split; [reflexivity|]. split; lia.
  - rewrite run_panic. intros H. inversion H; subst. exists []. split; [apply reads_refl|]. discriminate.
  - rewrite run_ret. intros H. inversion H; subst. exists []. split; [apply reads_refl|].
    intros bs G. inversion G. rewrite app_nil_r, nlen_nil. split; [reflexivity|]. split; lia.
  - rewrite run_bind. destruct (run_io (read_buf n) w) as [[got|e|q] w1] eqn:EB;
      destruct (read_buf_spec _ _ _ _ EB) as (c1 & R1 & G1).
    + destruct (G1 _ eq_refl) as (-> & Hlen & Heof).
      destruct c1 as [|b t].
      * rewrite run_ret. intros H. inversion H; subst. exists []. split; [exact R1|].
        intros bs G. inversion G. rewrite app_nil_r, nlen_nil. split; [reflexivity|]. split; [lia|].
        intros _ L. pose proof (reads_rest _ _ _ R1) as ER. cbn [app] in ER. rewrite <- ER. auto.
      * intros H. destruct (IH _ _ _ _ _ H) as (c2 & R2 & G2).
        exists ((b :: t) ++ c2). split; [eapply reads_trans; eassumption|].
        intros bs G. destruct (G2 _ G) as (-> & L2 & Heof2). rewrite lrev_rev_append, <- app_assoc.
        split; [reflexivity|]. rewrite nlen_app. split; [lia|].
        intros Hlt L. apply Heof2; [lia|]. eapply reads_nolim; eassumption.
    + intros H. inversion H; subst. exists c1. split; [exact R1|]. discriminate.
    + intros H. inversion H; subst. exists c1. split; [exact R1|]. discriminate.
Qed.

Lemma read_upto_inv n w bs w' : run_io (read_upto n) w = (Done bs, w') ->
  reads w w' bs /\ nlen bs <= n /\ (nlen bs < n -> s_limit (i_src w) = None -> s_rest (i_src w') = []).
Proof.
  intros H. destruct (read_upto_loop_spec _ _ _ _ _ _ H) as (c & R & G).
  destruct (G _ eq_refl) as (-> & L & Z). auto.
Qed.

(* ---------- write_all ---------- *)
Lemma write_spec bs w n w' : run_io (icall (Write bs)) w = (Done n, w') ->
  i_src w' = i_src w /\ snk_bytes (i_snk w') = snk_bytes (i_snk w) ++ nfirstn n bs /\
  k_count (i_snk w') = k_count (i_snk w) + n /\ n <= nlen bs.
Proof.
  rewrite run_call. cbn [io_h]. unfold snk_write.
  destruct (match k_wfail (i_snk w) with Some j => j =? k_calls (i_snk w) | None => false end); [discriminate|].
  cbv zeta. intros H. inversion H; subst. clear H. cbn [i_src i_snk k_out k_count]. unfold snk_bytes. cbn [k_out].
  split; [reflexivity|]. split; [apply lrev_rev_append|]. split; [reflexivity|]. rewrite nmin_len_min. lia.
Qed.

Lemma write_all_loop_inv fuel : forall bs w w',
  run_io (write_all_loop fuel bs) w = (Done tt, w') ->
  i_src w' = i_src w /\ snk_bytes (i_snk w') = snk_bytes (i_snk w) ++ bs /\
  k_count (i_snk w') = k_count (i_snk w) + nlen bs.
Proof.
  induction fuel as [|fuel IH]; intros bs w w' H; destruct bs as [|b t]; cbn [write_all_loop] in H.
  - apply run_ret_inv in H. destruct H as (_ & ->). rewrite app_nil_r, nlen_nil. repeat split. lia.
  - rabs H.
  - apply run_ret_inv in H. destruct H as (_ & ->). rewrite app_nil_r, nlen_nil. repeat split. lia.
  - rbind H as n w1 H1. apply write_spec in H1. destruct H1 as (S1 & B1 & C1 & L1).
    destruct (N.eqb_spec n 0); [rabs H|]. apply IH in H. destruct H as (S2 & B2 & C2).
    split; [congruence|]. split.
    + rewrite B2, B1, <- app_assoc. f_equal. apply nfirstn_nskipn.
    + rewrite C2, C1. rewrite <- (nfirstn_nskipn n (b :: t)) at 2. rewrite nlen_app, nlen_nfirstn. lia.
Qed.

Lemma write_all_inv bs w w' : run_io (write_all bs) w = (Done tt, w') ->
  i_src w' = i_src w /\ snk_bytes (i_snk w') = snk_bytes (i_snk w) ++ bs /\
  k_count (i_snk w') = k_count (i_snk w) + nlen bs.
Proof. apply write_all_loop_inv. Qed.

(* ---------- numerals: over real bytes the four bytes are determined by the value ---------- *)
Lemma le_bytes_le_num bs : Forall (fun b => b < 256) bs -> le_bytes (length bs) (le_num bs) = bs.
Proof.
  induction 1 as [|b t Hb Ht IH]; cbn [length le_bytes le_num]; [reflexivity|].
  change 255 with (N.ones 8). rewrite N.land_ones, N.shiftr_div_pow2. change (2 ^ 8) with 256.
  replace ((b + 256 * le_num t) mod 256) with b.
  - replace ((b + 256 * le_num t) / 256) with (le_num t); [rewrite IH; reflexivity|].
    symmetry. rewrite N.mul_comm, N.div_add by lia. rewrite N.div_small by exact Hb. reflexivity.
  - rewrite N.mul_comm, N.mod_add by lia. symmetry. apply N.mod_small. exact Hb.
Qed.
