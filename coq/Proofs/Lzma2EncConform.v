(* C04 (LZMA2 writer): lzma2_compress (encode/lzma2.rs) emits a well-formed LZMA2 stream of
   uncompressed dictionary-reset chunks whose concatenation is the input, and the LZMA2
   decoder reads it back - for every fragmentation of the reader on both sides and every
   sink that does not fail a write (it may accept as few bytes per call as it likes). *)
From LZ Require Import Base.Prelude Base.Prog Model.Io Model.Tables Model.LzBuffer Model.RangeDec Model.Lzma Model.Lzma2 Model.Enc
  Proofs.ProgLemmas Proofs.IoLemmas Proofs.WinCirc Proofs.WinAccum Proofs.Lzma2Inv Proofs.Lzma2Framing Proofs.ResetFresh2
  Proofs.EncCarry.
From Coq Require Import ZifyBool ZifyNat ZifyN.
Ltac Zify.zify_post_hook ::= Z.div_mod_to_equations.
Local Open Scope prog_scope.
Local Open Scope N_scope.

(* ================================================================== *)
(* the byte format of a stream of uncompressed chunks                  *)
(* ================================================================== *)
(* control byte 1 (uncompressed, dictionary reset), big-endian size - 1, the bytes *)
Definition l2_chunk (c : list N) : list N := 1 :: be_bytes 2 (nlen c - 1) ++ c.
Definition l2_stream (chunks : list (list N)) : list N := concat (map l2_chunk chunks) ++ [0].
Definition chunk_ok (c : list N) : Prop := 1 <= nlen c <= 65536.

Lemma l2_stream_eq chunks :
  l2_stream chunks = concat (map (fun c => 1 :: be_bytes 2 (nlen c - 1) ++ c) chunks) ++ [0].
Proof. reflexivity. Qed.

Lemma l2_stream_cons c chunks : l2_stream (c :: chunks) = l2_chunk c ++ l2_stream chunks.
Proof. unfold l2_stream. cbn [map concat]. rewrite <- app_assoc. reflexivity. Qed.

Lemma nl_cons {A} (a : A) l : nlen (a :: l) = nlen l + 1.
Proof. unfold nlen. cbn [length]. lia. Qed.
Lemma nl_app {A} (l1 l2 : list A) : nlen (l1 ++ l2) = nlen l1 + nlen l2.
Proof. unfold nlen. rewrite app_length. lia. Qed.
Lemma nl_nil {A} : nlen (@nil A) = 0.
Proof. reflexivity. Qed.

Lemma nlen_be_bytes n v : nlen (be_bytes n v) = N.of_nat n.
Proof. unfold nlen. rewrite be_bytes_length. reflexivity. Qed.

Lemma nlen_l2_chunk c : nlen (l2_chunk c) = nlen c + 3.
Proof. unfold l2_chunk. rewrite nl_cons, nl_app, nlen_be_bytes. lia. Qed.

(* sizes: 3 framing bytes per chunk, one end byte; at most one chunk per data byte *)
Lemma nlen_l2_chunks chunks : nlen (concat (map l2_chunk chunks)) = nlen (concat chunks) + 3 * nlen chunks.
Proof.
  induction chunks as [|c cs IH]; [reflexivity|].
  cbn [map concat]. rewrite !nl_app, nl_cons, IH, nlen_l2_chunk. lia.
Qed.

Lemma nlen_l2_stream chunks : nlen (l2_stream chunks) = nlen (concat chunks) + 3 * nlen chunks + 1.
Proof. unfold l2_stream. rewrite nl_app, nlen_l2_chunks. change (nlen [0]) with 1. lia. Qed.

Lemma chunks_count_le chunks : Forall chunk_ok chunks -> nlen chunks <= nlen (concat chunks).
Proof.
  intros Fo. induction Fo as [|c cs Hc _ IH]; [apply N.le_refl|].
  cbn [concat]. rewrite nl_cons, nl_app. unfold chunk_ok in Hc. lia.
Qed.

(* ================================================================== *)
(* running sequences of writes                                         *)
(* ================================================================== *)
Lemma run_bind_done {A B} (p : iop A) (f : A -> iop B) w a w1 :
  run_io p w = (Done a, w1) -> run_io (bind p f) w = run_io (f a) w1.
Proof. intros H. unfold run_io in *. rewrite interp_bind, H. reflexivity. Qed.

Lemma write_chunk_ok c s k : k_wfail k = None ->
  exists k', run_io (write_u8 1 ;;; write_u16_be (nlen c - 1) ;;; write_all c) (mkIo s k) = (Done tt, mkIo s k') /\
             snk_app k (l2_chunk c) k'.
Proof.
  intros Hw.
  destruct (write_u8_ok 1 s k Hw) as (k1 & E1 & A1).
  destruct (write_all_ok (be_bytes 2 (nlen c - 1)) s k1 (proj1 A1)) as (k2 & E2 & A2).
  destruct (write_all_ok c s k2 (proj1 A2)) as (k3 & E3 & A3).
  exists k3. split.
  - rewrite (run_bind_done _ _ _ _ _ E1). unfold write_u16_be. rewrite (run_bind_done _ _ _ _ _ E2). exact E3.
  - unfold l2_chunk. change (1 :: be_bytes 2 (nlen c - 1) ++ c) with ([1] ++ be_bytes 2 (nlen c - 1) ++ c).
    eapply snk_app_trans; [exact A1|]. eapply snk_app_trans; eassumption.
Qed.

(* ================================================================== *)
(* PART 1a: the writer                                                 *)
(* ================================================================== *)
(* one iteration on a non-empty source: one chunk of 1..65536 bytes *)
Lemma l2enc_body_next s k : FaultFree s -> k_wfail k = None -> s_rest s <> [] ->
  exists c s' k', l2enc_body (mkIo s k) = Next (mkIo s' k') /\ chunk_ok c /\
    s_rest s = c ++ s_rest s' /\ s_pos s' = s_pos s + nlen c /\ FaultFree s' /\ snk_app k (l2_chunk c) k'.
Proof.
  intros Hs Hw Hne.
  destruct (io_read_buf_spec s 65536 (FaultFree_L s Hs) ltac:(lia))
    as (g & s1 & Hrun & Hgn & Hgl & _ & Hr1 & Hp1 & Hl1 & Hs1 & Hprog).
  assert (Hg1 : 1 <= g) by (apply Hprog; [exact Hne|apply FaultFree_lim_ge; exact Hs]).
  assert (Hff : FaultFree s1).
  { apply FaultFreeL_None; [exact Hs1|]. rewrite Hl1. apply lim_sub_None. apply Hs. }
  remember (nfirstn g (s_rest s)) as c eqn:Ec.
  assert (Hc : nlen c = g) by (rewrite Ec, nlen_nfirstn; lia).
  destruct (write_chunk_ok c s1 k Hw) as (k' & E & App).
  exists c, s1, k'. split; [|split; [|split; [|split; [|split]]]].
  - unfold l2enc_body. rewrite (Hrun k).
    destruct c as [|b t]; [rewrite nl_nil in Hc; lia|]. rewrite E. reflexivity.
  - unfold chunk_ok. lia.
  - rewrite Hr1, Ec. symmetry. apply nfirstn_nskipn.
  - lia.
  - exact Hff.
  - exact App.
Qed.

(* the iteration on the exhausted source: the end byte *)
Lemma l2enc_body_last s k : FaultFree s -> k_wfail k = None -> s_rest s = [] ->
  exists s' k', l2enc_body (mkIo s k) = Break (Done tt, mkIo s' k') /\
    s_rest s' = [] /\ s_pos s' = s_pos s /\ FaultFree s' /\ snk_app k [0] k'.
Proof.
  intros Hs Hw He.
  destruct (io_read_buf_spec s 65536 (FaultFree_L s Hs) ltac:(lia))
    as (g & s1 & Hrun & Hgn & Hgl & _ & Hr1 & Hp1 & Hl1 & Hs1 & _).
  rewrite He in *. rewrite nl_nil in Hgl. assert (g = 0) by lia. subst g.
  assert (Hff : FaultFree s1).
  { apply FaultFreeL_None; [exact Hs1|]. rewrite Hl1. apply lim_sub_None. apply Hs. }
  destruct (write_u8_ok 0 s1 k Hw) as (k' & E & App).
  exists s1, k'. split; [|split; [|split; [|split]]].
  - unfold l2enc_body. rewrite (Hrun k). unfold nfirstn. cbn [N.to_nat firstn]. rewrite E. reflexivity.
  - rewrite Hr1. reflexivity.
  - lia.
  - exact Hff.
  - exact App.
Qed.

Lemma l2enc_iter n : forall s k, FaultFree s -> k_wfail k = None -> (length (s_rest s) < n)%nat ->
  exists chunks s' k', iter_step n l2enc_body (mkIo s k) = Break (Done tt, mkIo s' k') /\
    concat chunks = s_rest s /\ Forall chunk_ok chunks /\ snk_app k (l2_stream chunks) k' /\
    s_rest s' = [] /\ s_pos s' = s_pos s + nlen (s_rest s) /\ FaultFree s'.
Proof.
  induction n as [|n IH]; intros s k Hs Hw Hn; [lia|].
  destruct (s_rest s) as [|b0 t0] eqn:Er.
  - destruct (l2enc_body_last s k Hs Hw Er) as (s' & k' & E & R' & P' & F' & App).
    exists [], s', k'. cbn [iter_step]. rewrite E.
    split; [reflexivity|]. split; [reflexivity|]. split; [constructor|]. split; [exact App|].
    split; [exact R'|]. split; [rewrite nl_nil; lia|exact F'].
  - destruct (l2enc_body_next s k Hs Hw) as (c & s1 & k1 & E & Hc & R1 & P1 & F1 & App1); [rewrite Er; discriminate|].
    rewrite Er in R1.
    assert (Hlen : (length (s_rest s1) < n)%nat).
    { assert (L : length (b0 :: t0) = (length c + length (s_rest s1))%nat) by (rewrite R1, app_length; reflexivity).
      unfold chunk_ok, nlen in Hc. lia. }
    destruct (IH s1 k1 F1 (proj1 App1) Hlen) as (chunks & s' & k' & E' & C' & Fo' & App' & R' & P' & F').
    exists (c :: chunks), s', k'. cbn [iter_step]. rewrite E.
    split; [exact E'|]. split; [cbn [concat]; rewrite C'; symmetry; exact R1|].
    split; [constructor; assumption|]. split; [rewrite l2_stream_cons; eapply snk_app_trans; eassumption|].
    split; [exact R'|]. split; [|exact F'].
    rewrite P', P1, R1, nl_app. lia.
Qed.

(* lzma2_compress on any fault-free source and any sink that does not fail a write *)
Theorem lzma2_compress_run fuel s k :
  FaultFree s -> k_wfail k = None -> nlen (s_rest s) < Npos fuel ->
  exists chunks s' k',
    lzma2_compress fuel (mkIo s k) = (Done tt, mkIo s' k') /\
    concat chunks = s_rest s /\ Forall chunk_ok chunks /\ snk_app k (l2_stream chunks) k' /\
    s_rest s' = [] /\ s_pos s' = s_pos s + nlen (s_rest s) /\ FaultFree s'.
Proof.
  intros Hs Hw Hf.
  destruct (l2enc_iter (Pos.to_nat fuel) s k Hs Hw) as (chunks & s' & k' & E & H); [unfold nlen in Hf; lia|].
  exists chunks, s', k'. split; [|exact H].
  unfold lzma2_compress. rewrite loopN_iter, E. reflexivity.
Qed.

(* the statement of the task: one uncompressed dictionary-reset chunk per read; the chunking
   depends on the fragmentation, the concatenation does not *)
Theorem lzma2_compress_spec fuel data frag k :
  k_wfail k = None -> nlen data < Npos fuel ->
  exists w' chunks,
    lzma2_compress fuel (mkIo (src_of data frag None) k) = (Done tt, w') /\
    concat chunks = data /\ Forall (fun c => 1 <= nlen c <= 65536) chunks /\
    snk_bytes (i_snk w') = snk_bytes k ++ concat (map (fun c => 1 :: be_bytes 2 (nlen c - 1) ++ c) chunks) ++ [0] /\
    s_rest (i_src w') = [] /\ k_wfail (i_snk w') = None.
Proof.
  intros Hw Hf.
  destruct (lzma2_compress_run fuel (src_of data frag None) k (src_of_FaultFree data frag) Hw Hf)
    as (chunks & s' & k' & E & C & Fo & App & R & _).
  exists (mkIo s' k'), chunks. cbn [i_src i_snk].
  split; [exact E|]. split; [exact C|]. split; [exact Fo|].
  split; [apply App|]. split; [exact R|apply App].
Qed.
Print Assumptions lzma2_compress_spec.

(* ================================================================== *)
(* PART 1b: the decoder on a stream of uncompressed chunks             *)
(* ================================================================== *)
Lemma mapped_read_u16_pos s bs t : FaultFree s -> s_rest s = bs ++ t -> nlen bs = 2 ->
  exists s', src_run (map_io_err ELzma read_u16_be) s = (Done (be_num bs), s') /\
             s_rest s' = t /\ s_pos s' = s_pos s + 2 /\ FaultFree s'.
Proof.
  intros Hs Hr Hn. destruct (io_read_exact_spec s bs t 2 Hs Hr Hn) as (s' & E & H1 & H2 & H3).
  exists s'. split; [|split; [|split]]; try assumption.
  rewrite src_run_map_io_err by (apply FaultFree_L; exact Hs).
  rewrite (io_runs_src_run read_u16_be s (Done (be_num bs)) s'); [reflexivity|].
  unfold read_u16_be. eapply io_runs_bind; [exact E|]. apply io_runs_ret.
Qed.

(* one uncompressed dictionary-reset chunk: the window is flushed to the sink, then holds the chunk *)
Lemma l2_body_raw_chunk fuel w pre h c t :
  FaultFree (w_src w) -> AInv pre (w_acc w) h -> chunk_ok c -> s_rest (w_src w) = l2_chunk c ++ t ->
  exists w', l2_body fuel w = Next w' /\ FaultFree (w_src w') /\ s_rest (w_src w') = t /\
    s_pos (w_src w') = s_pos (w_src w) + nlen (l2_chunk c) /\
    AInv (pre ++ h) (w_acc w') c /\
    k_ffail (a_snk (w_acc w')) = k_ffail (a_snk (w_acc w)) /\
    k_flushes (a_snk (w_acc w')) = k_flushes (a_snk (w_acc w)) /\ w_ds w' = w_ds w.
Proof.
  intros Hs HA Hc Hr. unfold l2_chunk in Hr. cbn [app] in Hr. rewrite <- app_assoc in Hr.
  destruct (l2_body_read fuel w 1 _ Hs Hr) as (s1 & F1 & R1 & P1 & E).
  destruct (mapped_read_u16_pos s1 (be_bytes 2 (nlen c - 1)) (c ++ t) F1 R1 (nlen_be_bytes 2 _)) as (s2 & E2 & R2 & P2 & F2).
  rewrite be_num_be_bytes in E2. change (256 ^ N.of_nat 2) with 65536 in E2.
  unfold chunk_ok in Hc. rewrite N.mod_small in E2 by lia.
  destruct (accum_reset_spec pre (w_acc w) h HA) as (a' & E3 & HA' & _ & Hff & Hfl).
  destruct (mapped_read_exact s2 c t (nlen c - 1 + 1) F2 R2 ltac:(lia)) as (s3 & E4 & R4 & P4 & F4).
  pose proof (accum_append_bytes_spec _ a' [] c HA') as HA''. cbn [app] in HA''.
  exists (mkW2 (w_ds w) s3 (accum_append_bytes a' c)). cbn [w_src w_ds w_acc].
  split; [|split; [exact F4|split; [exact R4|split; [|split; [exact HA''|split; [|split]]]]]].
  - rewrite E, l2_dispatch_raw by (left; reflexivity). change (1 =? 1) with true.
    unfold parse_uncompressed, w2_src. cbn [w_src w_ds w_acc]. rewrite E2. cbn [fst snd w_src w_ds w_acc].
    rewrite E3. cbn [w_src w_ds w_acc]. rewrite E4. cbn [fst snd w_src w_ds w_acc]. reflexivity.
  - rewrite nlen_l2_chunk. lia.
  - unfold accum_append_bytes. cbn [a_snk]. exact Hff.
  - unfold accum_append_bytes. cbn [a_snk]. exact Hfl.
  - reflexivity.
Qed.

(* the end byte *)
Lemma l2_body_end fuel w t : FaultFree (w_src w) -> s_rest (w_src w) = 0 :: t ->
  exists s1, l2_body fuel w = Break (Done tt, mkW2 (w_ds w) s1 (w_acc w)) /\
             FaultFree s1 /\ s_rest s1 = t /\ s_pos s1 = s_pos (w_src w) + 1.
Proof.
  intros Hs Hr. destruct (l2_body_read fuel w 0 t Hs Hr) as (s1 & F1 & R1 & P1 & E).
  exists s1. split; [exact E|]. split; [|split]; assumption.
Qed.

Lemma l2_iter_chunks fuel chunks : forall w pre h t,
  FaultFree (w_src w) -> AInv pre (w_acc w) h -> Forall chunk_ok chunks ->
  s_rest (w_src w) = concat (map l2_chunk chunks) ++ t ->
  exists w', iter_step (length chunks) (l2_body fuel) w = Next w' /\ FaultFree (w_src w') /\ s_rest (w_src w') = t /\
    s_pos (w_src w') = s_pos (w_src w) + nlen (concat (map l2_chunk chunks)) /\
    (exists pre' h', AInv pre' (w_acc w') h' /\ pre' ++ h' = pre ++ h ++ concat chunks) /\
    k_ffail (a_snk (w_acc w')) = k_ffail (a_snk (w_acc w)) /\
    k_flushes (a_snk (w_acc w')) = k_flushes (a_snk (w_acc w)) /\ w_ds w' = w_ds w.
Proof.
  induction chunks as [|c chunks IH]; intros w pre h t Hs HA Hc Hr.
  - exists w. cbn [length iter_step map concat app] in *. split; [reflexivity|]. split; [exact Hs|]. split; [exact Hr|].
    split; [rewrite nl_nil; lia|]. split; [|repeat split].
    exists pre, h. split; [exact HA|]. rewrite app_nil_r. reflexivity.
  - cbn [map concat] in Hr. rewrite <- app_assoc in Hr.
    apply Forall_cons_iff in Hc. destruct Hc as [Hc Hcs].
    destruct (l2_body_raw_chunk fuel w pre h c _ Hs HA Hc Hr) as (w1 & E1 & F1 & R1 & P1 & A1 & Hff1 & Hfl1 & D1).
    destruct (IH w1 (pre ++ h) c t F1 A1 Hcs R1) as (w' & E' & F' & R' & P' & (pre' & h' & A' & Eq') & Hff' & Hfl' & D').
    exists w'. cbn [length iter_step]. rewrite E1.
    split; [exact E'|]. split; [exact F'|]. split; [exact R'|].
    split; [rewrite P', P1; cbn [map concat]; rewrite nl_app; lia|].
    split; [exists pre', h'; split; [exact A'|]; rewrite Eq'; cbn [concat]; rewrite <- !app_assoc; reflexivity|].
    split; [congruence|]. split; congruence.
Qed.

(* lzma2_decompress_top on a stream of uncompressed chunks followed by arbitrary trailing bytes *)
Theorem lzma2_uncompressed_decodes fuel chunks trail s k :
  FaultFree s -> k_wfail k = None -> k_ffail k = false -> Forall chunk_ok chunks ->
  s_rest s = l2_stream chunks ++ trail -> nlen chunks < Npos fuel ->
  exists w', lzma2_decompress_top fuel (mkIo s k) = (Done tt, w') /\
    snk_bytes (i_snk w') = snk_bytes k ++ concat chunks /\
    k_flushes (i_snk w') = k_flushes k + 1 /\
    s_rest (i_src w') = trail /\ s_pos (i_src w') = s_pos s + nlen (l2_stream chunks) /\ FaultFree (i_src w').
Proof.
  intros Hs Hw Hff Hc Hr Hf.
  unfold lzma2_decompress_top. rewrite lzma2_new_eq. unfold lzma2_decompress. cbv zeta.
  cbn [l2_state i_src i_snk].
  set (w0 := mkW2 fresh_ds s (accum_new k (USIZE - 1))).
  unfold l2_stream in Hr. rewrite <- app_assoc in Hr. cbn [app] in Hr.
  destruct (l2_iter_chunks fuel chunks w0 (snk_bytes k) [] (0 :: trail) Hs (accum_new_inv k _ Hw) Hc Hr)
    as (w1 & E1 & F1 & R1 & P1 & (pre' & h' & A' & Eq') & Hff1 & Hfl1 & D1).
  destruct (l2_body_end fuel w1 trail F1 R1) as (s2 & E2 & F2 & R2 & P2).
  pose proof (loopN_break_at (l2_body fuel) _ _ _ _ fuel E1 E2) as L.
  destruct (Nat.ltb_spec (length chunks) (Pos.to_nat fuel)) as [_|Hge]; [|unfold nlen in Hf; lia].
  rewrite L. unfold w0 in *. clear w0.
  cbn [w_src w_acc accum_new a_snk] in *.
  destruct (accum_finish_spec pre' (w_acc w1) h' A') as (k' & E3 & B3 & Fl3); [congruence|].
  cbn [w_acc w_src w_ds]. rewrite E3. eexists. split; [reflexivity|]. cbn [i_src i_snk].
  split; [rewrite B3, Eq'; reflexivity|]. split; [rewrite Fl3, Hfl1; reflexivity|].
  split; [exact R2|]. split; [|exact F2].
  rewrite P2, P1. unfold l2_stream. rewrite nl_app. change (nlen [0]) with 1. lia.
Qed.
Print Assumptions lzma2_uncompressed_decodes.

(* PART 1c: decoding what lzma2_compress wrote gives back the data, for every fragmentation of
   both readers and any bytes following the stream *)
Theorem lzma2_round_trip fuel fuel' data frag frag' k k2 trail :
  k_wfail k = None -> k_wfail k2 = None -> k_ffail k2 = false ->
  nlen data < Npos fuel -> nlen data < Npos fuel' ->
  exists w1 out,
    lzma2_compress fuel (mkIo (src_of data frag None) k) = (Done tt, w1) /\
    snk_bytes (i_snk w1) = snk_bytes k ++ out /\
    exists w2,
      lzma2_decompress_top fuel' (mkIo (src_of (out ++ trail) frag' None) k2) = (Done tt, w2) /\
      snk_bytes (i_snk w2) = snk_bytes k2 ++ data /\
      k_flushes (i_snk w2) = k_flushes k2 + 1 /\
      s_rest (i_src w2) = trail.
Proof.
  intros Hw Hw2 Hff Hf Hf'.
  destruct (lzma2_compress_run fuel (src_of data frag None) k (src_of_FaultFree data frag) Hw Hf)
    as (chunks & s' & k' & E & C & Fo & App & R & _).
  cbn [src_of s_rest] in C.
  exists (mkIo s' k'), (l2_stream chunks). cbn [i_snk]. split; [exact E|]. split; [apply App|].
  assert (Hn : nlen chunks < Npos fuel').
  { (* every chunk has at least one byte *)
    pose proof (chunks_count_le chunks Fo) as L.
    rewrite C in L. lia. }
  destruct (lzma2_uncompressed_decodes fuel' chunks trail (src_of (l2_stream chunks ++ trail) frag' None) k2
              (src_of_FaultFree _ frag') Hw2 Hff Fo eq_refl Hn) as (w2 & E2 & B2 & Fl2 & R2 & _).
  exists w2. rewrite C in B2. auto.
Qed.
Print Assumptions lzma2_round_trip.

(* ---------- concrete runs: the chunking follows the reader, the concatenation does not ---------- *)
Definition c04_l2_bytes (data : list N) (frag acc : N -> N) : outcome unit * list N :=
  let '(r, w) := lzma2_compress big_fuel (mkIo (src_of data frag None) (snk_new acc None false)) in
  (r, snk_bytes (i_snk w)).
Example c04_l2_whole :
  c04_l2_bytes [104; 101; 108; 108; 111] frag_all frag_all = (Done tt, [1; 0; 4; 104; 101; 108; 108; 111; 0]).
Proof. vm_compute. reflexivity. Qed.
Example c04_l2_fragmented :
  c04_l2_bytes [104; 101; 108; 108; 111] (fun _ => 2) (fun _ => 1) =
  (Done tt, [1; 0; 1; 104; 101; 1; 0; 1; 108; 108; 1; 0; 0; 111; 0]).
Proof. vm_compute. reflexivity. Qed.
Example c04_l2_empty : c04_l2_bytes [] frag_all frag_all = (Done tt, [0]).
Proof. vm_compute. reflexivity. Qed.
(* 70000 bytes from a reader exposing everything at once: a 65536-byte chunk and a 4464-byte chunk *)
Example c04_l2_two_chunks :
  let '(r, out) := c04_l2_bytes (repeat 7 (N.to_nat 70000)) frag_all frag_all in
  (r, nlen out, firstn 4 out, firstn 4 (skipn (N.to_nat 65539) out)) = (Done tt, 70007, [1; 255; 255; 7], [1; 17; 111; 7]).
Proof. vm_compute. reflexivity. Qed.
