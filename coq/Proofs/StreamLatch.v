(* C16: a failed or completed stream stays failed or completed. *)
From LZ Require Import Base.Prelude Base.Prog Model.Io Model.Tables Model.LzBuffer Model.RangeDec Model.Lzma Model.Stream Proofs.ProgLemmas.

(* ---------- after a failure ---------- *)
Lemma write_when_dead s d : st_state s = None -> stream_write s d = (Done 0, s).
Proof. intros H. unfold stream_write. rewrite H. reflexivity. Qed.

Lemma flush_when_dead s : st_state s = None -> stream_flush s = (Done tt, s).
Proof. intros H. unfold stream_flush. rewrite H. reflexivity. Qed.

Lemma finish_when_dead s : st_state s = None -> stream_finish s = (Failed ELzma, st_ghost s).
Proof. intros H. unfold stream_finish. rewrite H. reflexivity. Qed.

Ltac break_match :=
  match goal with
  | H : context [match ?x with _ => _ end] |- _ => destruct x eqn:?
  | H : context [if ?x then _ else _] |- _ => destruct x eqn:?
  end.

(* a write that does not return Ok leaves the stream without a state *)
Lemma write_not_ok_kills s d r s' :
  stream_write s d = (r, s') -> (forall n, r <> Done n) -> st_state s' = None.
Proof.
  unfold stream_write, dead. intros H Hr.
  repeat (break_match; try discriminate).
  all: repeat match goal with
       | E : (_, _) = (_, _) |- _ => inversion E; subst; clear E
       end.
  all: try reflexivity.
  all: try (exfalso; eapply Hr; reflexivity).
Qed.

Lemma write_failed_kills s d e s' : stream_write s d = (Failed e, s') -> st_state s' = None.
Proof. intros H. eapply write_not_ok_kills; [exact H|]. intros n; discriminate. Qed.

Lemma write_panicked_kills s d p s' : stream_write s d = (Panicked p, s') -> st_state s' = None.
Proof. intros H. eapply write_not_ok_kills; [exact H|]. intros n; discriminate. Qed.

(* ---------- call sequences ---------- *)
Inductive call := CWrite (d : list N) | CFlush.
Inductive cres := RW (r : outcome N) | RF (r : outcome unit).
Definition do_call (s : stream) (c : call) : cres * stream :=
  match c with
  | CWrite d => let '(r, s') := stream_write s d in (RW r, s')
  | CFlush => let '(r, s') := stream_flush s in (RF r, s')
  end.
Fixpoint run_calls (s : stream) (cs : list call) : list cres * stream :=
  match cs with
  | [] => ([], s)
  | c :: cs' => let '(r, s1) := do_call s c in let '(rs, s2) := run_calls s1 cs' in (r :: rs, s2)
  end.

Definition quiet (r : cres) : Prop := r = RW (Done 0) \/ r = RF (Done tt).

Lemma dead_calls cs : forall s, st_state s = None ->
  Forall quiet (fst (run_calls s cs)) /\ snd (run_calls s cs) = s.
Proof.
  induction cs as [|c cs IH]; intros s H; cbn [run_calls fst snd]; [split; [constructor|reflexivity]|].
  destruct c as [d|]; cbn [do_call].
  - rewrite (write_when_dead s d H). destruct (IH s H) as [F E]. destruct (run_calls s cs) as [rs s2].
    cbn [fst snd] in *. split; [constructor; [left; reflexivity|exact F]|exact E].
  - rewrite (flush_when_dead s H). destruct (IH s H) as [F E]. destruct (run_calls s cs) as [rs s2].
    cbn [fst snd] in *. split; [constructor; [right; reflexivity|exact F]|exact E].
Qed.

(* The first half of C16: after a write has returned an error, every later write
   returns Ok(0), flush returns Ok, the stream (hence the sink) is unchanged, and
   finish returns an error without touching the sink. *)
Theorem failed_stays_failed s d e s1 cs :
  stream_write s d = (Failed e, s1) ->
  Forall quiet (fst (run_calls s1 cs)) /\
  snd (run_calls s1 cs) = s1 /\
  stream_sink (snd (run_calls s1 cs)) = stream_sink s1 /\
  stream_finish (snd (run_calls s1 cs)) = (Failed ELzma, stream_sink s1).
Proof.
  intros H. pose proof (write_failed_kills _ _ _ _ H) as Hd.
  destruct (dead_calls cs s1 Hd) as [F E]. rewrite E.
  repeat split; try assumption. rewrite (finish_when_dead s1 Hd). unfold stream_sink. rewrite Hd. reflexivity.
Qed.

(* ---------- after the declared size has been reached ---------- *)
Definition size_reached (r : run_state) : Prop :=
  exists us, ds_unpacked (rs_dec r) = Some us /\ us <= c_len (rs_out r).

Lemma process_partial_noop r input : size_reached r ->
  process_mode Partial big_fuel (mkLw (rs_dec r) (rs_rc r) input (WCirc (rs_out r)))
  = (Done tt, mkLw (rs_dec r) (rs_rc r) input (WCirc (rs_out r))).
Proof.
  intros (us & Hus & Hle). unfold process_mode.
  rewrite (loopN_break_now (pm_body Partial) big_fuel _ (r := (Done tt, mkLw (rs_dec r) (rs_rc r) input (WCirc (rs_out r))))).
  - cbn [l_ds ds_unpacked]. rewrite Hus. reflexivity.
  - unfold pm_body. cbn [l_ds l_win win_len]. rewrite Hus.
    destruct (N.leb_spec us (c_len (rs_out r))); [reflexivity|lia].
Qed.

Lemma read_data_noop r input : size_reached r ->
  stream_read_data r input = (Done tt, (r, input)).
Proof.
  intros H. unfold stream_read_data. rewrite (process_partial_noop r input H).
  cbn [l_win l_ds l_rc l_src]. destruct r; reflexivity.
Qed.

(* The second half of C16: once the declared size has been reached a write
   consumes nothing (returns Ok(0)), and leaves decoder, window and sink as they were. *)
Theorem completed_stays_completed s r d :
  st_state s = Some (SData r) -> size_reached r ->
  exists s', stream_write s d = (Done 0, s') /\ st_state s' = Some (SData r) /\ stream_sink s' = stream_sink s.
Proof.
  intros Hs Hr. unfold stream_write. rewrite Hs.
  destruct (0 <? nlen (st_tmp s)).
  - rewrite (read_data_noop r (cursor_of (st_tmp s)) Hr), (read_data_noop r (cursor_of d) Hr).
    eexists. split; [reflexivity|]. cbn [st_state]. split; [reflexivity|]. unfold stream_sink. cbn [st_state]. rewrite Hs. reflexivity.
  - rewrite (read_data_noop r (cursor_of d) Hr).
    eexists. split; [reflexivity|]. cbn [st_state]. split; [reflexivity|]. unfold stream_sink. cbn [st_state]. rewrite Hs. reflexivity.
Qed.

Theorem completed_calls cs : forall s r,
  st_state s = Some (SData r) -> size_reached r -> k_ffail (c_snk (rs_out r)) = false ->
  Forall (fun x => x = RW (Done 0) \/ x = RF (Done tt)) (fst (run_calls s cs)) /\
  snk_bytes (stream_sink (snd (run_calls s cs))) = snk_bytes (stream_sink s).
Proof.
  induction cs as [|c cs IH]; intros s r Hs Hr Hf; cbn [run_calls fst snd]; [split; [constructor|reflexivity]|].
  destruct c as [d|]; cbn [do_call].
  - destruct (completed_stays_completed s r d Hs Hr) as (s' & Hw & Hs' & Hk). rewrite Hw.
    destruct (IH s' r Hs' Hr Hf) as [F E]. destruct (run_calls s' cs) as [rs s2]. cbn [fst snd] in *.
    split; [constructor; [left; reflexivity|exact F]|congruence].
  - unfold stream_flush. rewrite Hs. unfold snk_flush. rewrite Hf.
    set (o' := mkCirc _ _ _ _ _ _ _). set (r' := mkRun (rs_dec r) (rs_rc r) o').
    assert (Hr' : size_reached r') by (destruct Hr as (us & A & B); exists us; split; [exact A|exact B]).
    set (s' := mkStream _ _ _ _).
    destruct (IH s' r' eq_refl Hr' eq_refl) as [F E]. destruct (run_calls s' cs) as [rs s2]. cbn [fst snd] in *.
    split; [constructor; [right; reflexivity|exact F]|].
    rewrite E. unfold stream_sink. cbn [st_state]. rewrite Hs. reflexivity.
Qed.

(* ---------- the hypotheses are satisfiable ---------- *)
Definition ex_opts := mkOptions ReadFromHeader None false.
Example a_write_can_fail :
  exists e s1, stream_write (stream_new ex_opts vec_sink) [255; 0; 0; 0; 0; 0; 0; 0; 0; 0; 0; 0; 0; 0; 0; 0; 0; 0] = (Failed e, s1).
Proof. eexists. eexists. vm_compute. reflexivity. Qed.

(* header: lc=3 lp=0 pb=2, dict 4096, size 1; payload decodes one literal *)
Definition ex_stream : list N := [93; 0; 16; 0; 0; 1; 0; 0; 0; 0; 0; 0; 0; 0; 0; 0; 0; 0; 0; 0; 0; 0; 0; 0].
Example size_can_be_reached :
  exists r, st_state (snd (stream_write (snd (stream_write (stream_new ex_opts vec_sink) ex_stream)) (nskipn 18 ex_stream))) = Some (SData r)
            /\ size_reached r /\ k_ffail (c_snk (rs_out r)) = false.
Proof. eexists. split; [vm_compute; reflexivity|]. split; [|reflexivity]. eexists. split; [reflexivity|]. vm_compute. discriminate. Qed.
