(* Generic facts about programs, handlers and fuelled loops. *)
From LZ Require Import Base.Prelude Base.Prog.
Set Implicit Arguments.

Section Free.
  Variable E : Type -> Type.

  Lemma interp_bind {S A B} (h : handler E S) (p : prog E A) (f : A -> prog E B) s :
    interp h (bind p f) s =
    match interp h p s with
    | (Done a, s') => interp h (f a) s'
    | (Failed e, s') => (Failed e, s')
    | (Panicked w, s') => (Panicked w, s')
    end.
  Proof.
    revert s. induction p as [a|e|w|X o k IH]; intros s; cbn [bind interp]; try reflexivity.
    destruct (h X o s) as [x s'|e s'|w s']; [apply IH|reflexivity|reflexivity].
  Qed.

  Lemma interp_call {S X} (h : handler E S) (o : E X) s :
    interp h (call o) s =
    match h _ o s with
    | HOk x s' => (Done x, s')
    | HErr e s' => (Failed e, s')
    | HPanic w s' => (Panicked w, s')
    end.
  Proof. unfold call. cbn [interp]. destruct (h X o s); reflexivity. Qed.

  (* Handler refinement: if a concrete handler answers like an abstract one on
     related states, every program behaves the same under both. *)
  Theorem handler_refinement {S1 S2 A} (h1 : handler E S1) (h2 : handler E S2) (R : S1 -> S2 -> Prop)
    (Hstep : forall X (o : E X) s1 s2, R s1 s2 ->
       match h1 X o s1, h2 X o s2 with
       | HOk x1 t1, HOk x2 t2 => x1 = x2 /\ R t1 t2
       | HErr e1 t1, HErr e2 t2 => e1 = e2 /\ R t1 t2
       | HPanic w1 t1, HPanic w2 t2 => w1 = w2 /\ R t1 t2
       | _, _ => False
       end) :
    forall (p : prog E A) s1 s2, R s1 s2 ->
      fst (interp h1 p s1) = fst (interp h2 p s2) /\ R (snd (interp h1 p s1)) (snd (interp h2 p s2)).
  Proof.
    induction p as [a|e|w|X o k IH]; intros s1 s2 HR; cbn [interp fst snd]; try (split; [reflexivity|assumption]).
    specialize (Hstep X o s1 s2 HR).
    destruct (h1 X o s1) as [x1 t1|e1 t1|w1 t1]; destruct (h2 X o s2) as [x2 t2|e2 t2|w2 t2];
      try contradiction; destruct Hstep as [-> HR']; cbn [fst snd]; try (split; [reflexivity|assumption]).
    apply IH. exact HR'.
  Qed.

  (* One-directional variant: the abstract handler (h2) may be partial in the sense
     that the refinement is only required where h2 succeeds. *)
  Theorem handler_refinement_ok {S1 S2 A} (h1 : handler E S1) (h2 : handler E S2) (R : S1 -> S2 -> Prop)
    (Hstep : forall X (o : E X) s1 s2 x t2, R s1 s2 -> h2 X o s2 = HOk x t2 ->
       exists t1, h1 X o s1 = HOk x t1 /\ R t1 t2) :
    forall (p : prog E A) s1 s2 a t2, R s1 s2 -> interp h2 p s2 = (Done a, t2) ->
      exists t1, interp h1 p s1 = (Done a, t1) /\ R t1 t2.
  Proof.
    induction p as [a0|e|w|X o k IH]; intros s1 s2 a t2 HR Hi; cbn [interp] in *.
    - inversion Hi; subst. eauto.
    - discriminate.
    - discriminate.
    - destruct (h2 X o s2) as [x u2|e u2|w u2] eqn:E2; try discriminate.
      destruct (Hstep X o s1 s2 x u2 HR E2) as (u1 & E1 & HR'). rewrite E1. eapply IH; eauto.
  Qed.
End Free.

(* ---------- the state monad ---------- *)
Lemma mbind_done {S A B} (m : M S A) (f : A -> M S B) s a s' :
  m s = (Done a, s') -> mbind m f s = f a s'.
Proof. intros H. unfold mbind. rewrite H. reflexivity. Qed.

Lemma mbind_inv_done {S A B} (m : M S A) (f : A -> M S B) s b s'' :
  mbind m f s = (Done b, s'') -> exists a s', m s = (Done a, s') /\ f a s' = (Done b, s'').
Proof.
  unfold mbind. destruct (m s) as [[a|e|w] s'] eqn:E; intros H; try discriminate. eauto.
Qed.

(* ---------- fuelled loops ---------- *)
Fixpoint iter_step {S R} (n : nat) (body : S -> step S R) (s : S) : step S R :=
  match n with
  | O => Next s
  | S n' => match body s with Next s' => iter_step n' body s' | Break r => Break r end
  end.

Lemma iter_step_add {S R} (body : S -> step S R) n m s :
  iter_step (n + m) body s =
  match iter_step n body s with Next s' => iter_step m body s' | Break r => Break r end.
Proof.
  revert s. induction n as [|n IH]; intros s; cbn [iter_step Nat.add]; [reflexivity|].
  destruct (body s); [apply IH|reflexivity].
Qed.

Lemma loopN_iter {S R} (p : positive) (body : S -> step S R) (s : S) :
  loopN p body s = iter_step (Pos.to_nat p) body s.
Proof.
  revert s. induction p as [p IH|p IH|]; intros s; cbn [loopN].
  - rewrite Pos2Nat.inj_xI. cbn [iter_step]. destruct (body s) as [s'|r]; [|reflexivity].
    replace (2 * Pos.to_nat p)%nat with (Pos.to_nat p + Pos.to_nat p)%nat by lia.
    rewrite iter_step_add, <- IH. destruct (loopN p body s'); [apply IH|reflexivity].
  - rewrite Pos2Nat.inj_xO.
    replace (2 * Pos.to_nat p)%nat with (Pos.to_nat p + Pos.to_nat p)%nat by lia.
    rewrite iter_step_add, <- IH. destruct (loopN p body s); [apply IH|reflexivity].
  - change (Pos.to_nat 1) with 1%nat. cbn [iter_step]. destruct (body s); reflexivity.
Qed.

(* an invariant of the loop body holds of whatever the loop returns *)
Lemma iter_step_inv {S R} (body : S -> step S R) (I : S -> Prop) (Q : R -> Prop)
  (Hnext : forall s s', I s -> body s = Next s' -> I s')
  (Hbreak : forall s r, I s -> body s = Break r -> Q r) :
  forall n s, I s ->
    match iter_step n body s with Next s' => I s' | Break r => Q r end.
Proof.
  induction n as [|n IH]; intros s Hs; cbn [iter_step]; [exact Hs|].
  destruct (body s) as [s'|r] eqn:E; [apply IH; eapply Hnext; eauto|eapply Hbreak; eauto].
Qed.

Lemma loopN_inv {S R} (body : S -> step S R) (I : S -> Prop) (Q : R -> Prop)
  (Hnext : forall s s', I s -> body s = Next s' -> I s')
  (Hbreak : forall s r, I s -> body s = Break r -> Q r) :
  forall p s, I s ->
    match loopN p body s with Next s' => I s' | Break r => Q r end.
Proof. intros p s Hs. rewrite loopN_iter. apply iter_step_inv; assumption. Qed.

Lemma loopN_break_now {S R} (body : S -> step S R) p s r :
  body s = Break r -> loopN p body s = Break r.
Proof.
  intros H. rewrite loopN_iter. destruct (Pos.to_nat p) eqn:E; [lia|]. cbn [iter_step]. rewrite H. reflexivity.
Qed.

(* a state invariant of the handler is an invariant of every program run *)
Lemma interp_inv {E : Type -> Type} {S A} (h : handler E S) (I : S -> Prop)
  (Hh : forall X (o : E X) s, I s ->
     match h X o s with HOk _ s' => I s' | HErr _ s' => I s' | HPanic _ s' => I s' end) :
  forall (p : prog E A) s, I s -> I (snd (interp h p s)).
Proof.
  induction p as [a|e|w|X o k IH]; intros s Hs; cbn [interp snd]; try exact Hs.
  specialize (Hh X o s Hs). destruct (h X o s) as [x s'|e s'|w s']; cbn [snd]; [apply IH; exact Hh|exact Hh|exact Hh].
Qed.

(* two loops whose bodies are related step by step are related *)
Lemma iter_step_sim {S1 S2 R1 R2} (b1 : S1 -> step S1 R1) (b2 : S2 -> step S2 R2)
  (Rs : S1 -> S2 -> Prop) (Rr : R1 -> R2 -> Prop)
  (Hb : forall s1 s2, Rs s1 s2 ->
     match b1 s1, b2 s2 with
     | Next t1, Next t2 => Rs t1 t2
     | Break r1, Break r2 => Rr r1 r2
     | _, _ => False
     end) :
  forall n s1 s2, Rs s1 s2 ->
    match iter_step n b1 s1, iter_step n b2 s2 with
    | Next t1, Next t2 => Rs t1 t2
    | Break r1, Break r2 => Rr r1 r2
    | _, _ => False
    end.
Proof.
  induction n as [|n IH]; intros s1 s2 H; cbn [iter_step]; [exact H|].
  specialize (Hb s1 s2 H). destruct (b1 s1) as [t1|r1]; destruct (b2 s2) as [t2|r2]; try contradiction; [apply IH; exact Hb|exact Hb].
Qed.

Lemma loopN_sim {S1 S2 R1 R2} (b1 : S1 -> step S1 R1) (b2 : S2 -> step S2 R2)
  (Rs : S1 -> S2 -> Prop) (Rr : R1 -> R2 -> Prop)
  (Hb : forall s1 s2, Rs s1 s2 ->
     match b1 s1, b2 s2 with
     | Next t1, Next t2 => Rs t1 t2
     | Break r1, Break r2 => Rr r1 r2
     | _, _ => False
     end) :
  forall p s1 s2, Rs s1 s2 ->
    match loopN p b1 s1, loopN p b2 s2 with
    | Next t1, Next t2 => Rs t1 t2
    | Break r1, Break r2 => Rr r1 r2
    | _, _ => False
    end.
Proof. intros p s1 s2 H. rewrite !loopN_iter. apply iter_step_sim; assumption. Qed.
