(* Soundness with a fault-free witness, and the round trip  soundness -> completeness:
   on fault-free sources, whether xz_decompress accepts depends on the remaining BYTES only -
   not on the fragmentation of the reader, not on its position counter, not on the
   short-write pattern of the (non-failing) sink; and the bytes written are the same.

   xz_decompress_sound_ff is xz_decompress_sound (XzSound.v) for a fault-free source, with
   blk_ok strengthened to blk_ok_ff (the witness source of every block is fault free) and
   with the bound  number of blocks < fuel.  Its proof repeats the inversion of XzSound.v
   and tracks FaultFree through the run (using the same_data lemmas of FragIo / FragIndep:
   a run from a FaultFreeL source ends in a FaultFreeL source). *)
From LZ Require Import Base.Prelude Base.Prog Model.Io Model.Tables Model.LzBuffer Model.RangeDec
  Model.Lzma Model.Lzma2 Model.Crc Model.Xz Proofs.ProgLemmas Proofs.IoLemmas Proofs.FragIo
  Proofs.FragLzma Proofs.FragLzma2 Proofs.FragIndep Proofs.IoInv Proofs.SrcMono Proofs.XzSound
  Proofs.XzComplete Proofs.XzCompleteLink.
From Coq Require Import ZifyBool ZifyNat ZifyN.
Local Open Scope prog_scope.

Ltac Zify.zify_post_hook ::= Z.div_mod_to_equations.

(* a run that starts on a fault-free source and consumes bytes ends on a fault-free source *)
Lemma run_ff {A} (p : iop A) w a w' c : Resp2 p -> run_io p w = (Done a, w') -> reads w w' c ->
  FaultFree (i_src w) -> FaultFree (i_src w').
Proof.
  intros Hp H R F.
  destruct (Resp2_run_io p Hp w w) as (_ & (SD & _)).
  { split; [apply same_data_refl, FaultFree_L; exact F|reflexivity]. }
  rewrite H in SD. cbn [snd] in SD. apply FaultFreeL_None; [apply SD|].
  eapply reads_nolim; [exact R|apply F].
Qed.

Section WithCrc.
Variable crc32 : list N -> N.
Variable crc64 : list N -> N.

Local Open Scope m_scope.

Tactic Notation "mbind" hyp(H) "as" ident(a) ident(w1) ident(H1) :=
  apply mbind_inv_done in H; destruct H as (a & w1 & H1 & H); unfold io_run in H1.
Ltac mabs H := exfalso; unfold mpanic, mfail in H; discriminate H.

Theorem read_block_ok_ff fuel start ck hs w r w' :
  read_block crc32 crc64 fuel start ck hs w = (Done r, w') ->
  FaultFree (i_src w) ->
  exists b,
    b_hs b = hs /\
    blk_ok_ff_gen crc32 crc64 fuel ck (s_pos (i_src w) + nlen (b_hdr b ++ b_hcrc b ++ b_payload b) - start) b /\
    sadv (i_src w) (i_src w') (b_hdr b ++ b_hcrc b ++ b_payload b ++ b_pad b ++ b_chk b) /\
    snk_bytes (i_snk w') = snk_bytes (i_snk w) ++ b_out b /\
    r = mkRecord (s_pos (i_src w) + nlen (b_hdr b ++ b_hcrc b ++ b_payload b ++ b_chk b) - start)
                 (nlen (b_out b)) /\
    FaultFree (i_src w').
Proof.
  intros H FF. assert (NL : s_limit (i_src w) = None) by apply FF.
  (* the final source is FaultFreeL *)
  assert (FL' : FaultFreeL (i_src w')).
  { destruct (read_block_resp crc32 crc64 fuel start ck hs w w) as (_ & (SD & _)).
    { split; [apply same_data_refl, FaultFree_L; exact FF|reflexivity]. }
    rewrite H in SD. cbn [snd] in SD. apply SD. }
  unfold read_block in H.
  destruct (N.eqb_spec hs 0) as [|HS0]; [mabs H|]. cbv zeta in H.
  replace (N.shiftl hs 2 - 1) with (4 * hs - 1) in H
    by (rewrite N.shiftl_mul_pow2; change (2 ^ 2) with 4; lia).
  mbind H as hdr w1 H1. pose proof H1 as H1'. apply read_upto_inv in H1. destruct H1 as (R1 & L1 & Z1).
  assert (FF1 : FaultFree (i_src w1)) by (eapply run_ff; [apply Resp2_read_upto|exact H1'|exact R1|exact FF]).
  destruct (read_block_header (4 * hs - 1) hdr) as [bh|e|q] eqn:EBH; try mabs H.
  mbind H as crc w2 H2. pose proof H2 as H2'. apply read_u32_le_inv in H2. destruct H2 as (cb & R2 & L2 & E2).
  assert (FF2 : FaultFree (i_src w2)) by (eapply run_ff; [apply Resp2_read_u32_le|exact H2'|exact R2|exact FF1]).
  destruct (N.eqb_spec crc (crc32 (hs :: hdr))) as [EC|]; cbn [negb] in H; [|mabs H].
  assert (L1' : nlen hdr = 4 * hs - 1).
  { destruct (N.eq_dec (nlen hdr) (4 * hs - 1)) as [|NE]; [assumption|exfalso].
    assert (Z : s_rest (i_src w1) = []) by (apply Z1; [lia|exact NL]).
    rewrite (reads_rest _ _ _ R2) in Z. destruct cb; [discriminate L2|discriminate Z]. }
  destruct (read_block_header_filters _ _ _ EBH) as (f0 & fs & EF).
  mbind H as out w3 H3. rewrite EF in H3.
  destruct (decode_filter fuel f0 (i_src w2)) as [[[packed out0]|e|q] s3] eqn:EDF; try discriminate H3.
  destruct (match bh_packed bh with Some e => negb (packed =? e) | None => false end) eqn:EPK; [discriminate H3|].
  destruct (later_filters fuel fs out0) as [o|e|q] eqn:ELF; try discriminate H3.
  inversion H3; subst o w3; clear H3.
  destruct (match bh_unpacked bh with Some e => negb (nlen out =? e) | None => false end) eqn:EUP; [mabs H|].
  mbind H as pos w4 H4. apply getpos_inv in H4. destruct H4 as (-> & ->). cbn [i_src] in H.
  mbind H as padbs w5 H5. apply read_zero_padding_inv in H5. destruct H5 as (_ & R5).
  mbind H as u6 w6 H6. destruct u6. apply (validate_block_check_inv crc32 crc64) in H6. destruct H6 as (chk & R6 & CF).
  mbind H as u7 w7 H7. destruct u7. apply write_all_inv in H7. destruct H7 as (S7 & B7 & _).
  mbind H as pos2 w8 H8. apply getpos_inv in H8. destruct H8 as (-> & ->).
  match type of H with context [if ?c then _ else _] => destruct c eqn:EOV; [mabs H|] end.
  unfold mret in H. inversion H; subst r w'; clear H.
  pose proof EDF as EDF'.
  apply (decode_filter_inv crc32 crc64) in EDF. destruct EDF as (payload & wd & AD & -> & EP & ED & -> & ->).
  assert (R12 : reads w w2 (hdr ++ cb)) by (eapply reads_trans; eassumption).
  pose proof (reads_pos _ _ _ R12) as P2. destruct AD as (AD1 & AD2 & AD3).
  assert (P3 : s_pos (i_src wd) = s_pos (i_src w) + nlen (hdr ++ cb ++ payload)).
  { rewrite AD2, P2. autorewrite with nlen. lia. }
  set (pad := repeat 0 (N.to_nat (padding_of (s_pos (i_src wd) - start)))) in *.
  assert (R56 : reads (mkIo (i_src wd) (i_snk w2)) w6 (pad ++ chk)) by (eapply reads_trans; eassumption).
  pose proof (reads_pos _ _ _ R56) as P6. cbn [i_src] in P6.
  assert (A12 : sadv (i_src w) (i_src w2) (hdr ++ cb)) by apply R12.
  assert (A23 : sadv (i_src w2) (i_src wd) payload) by (repeat split; assumption).
  assert (A36 : sadv (i_src wd) (i_src w6) (pad ++ chk)) by apply R56.
  assert (AALL : sadv (i_src w) (i_src w7) (hdr ++ cb ++ payload ++ pad ++ chk)).
  { rewrite S7. apply (sadv_eq _ _ ((hdr ++ cb) ++ payload ++ pad ++ chk)); [rewrite <- !app_assoc; reflexivity|].
    eapply sadv_trans; [exact A12|]. eapply sadv_trans; [exact A23|exact A36]. }
  exists (mkBlk hs hdr cb payload pad chk out). cbn [b_hs b_hdr b_hcrc b_payload b_pad b_chk b_out].
  split; [reflexivity|]. split; [|split; [exact AALL|split; [|split]]].
  - unfold blk_ok_ff_gen. cbn [b_hs b_hdr b_hcrc b_payload b_pad b_chk b_out].
    split; [exact HS0|]. split; [exact L1'|]. split; [exact L2|]. split; [congruence|]. split.
    + exists bh, f0, fs, (snk_bytes (i_snk wd)), (i_src w2), (i_src wd).
      split; [exact EBH|]. split; [exact EF|]. split; [exact FF2|]. split; [exact A23|].
      split; [exact EDF'|]. split; [exact ELF|]. split.
      * intros e Ee. rewrite Ee in EPK. destruct (N.eqb_spec (nlen payload) e); [assumption|discriminate EPK].
      * intros e Ee. rewrite Ee in EUP. destruct (N.eqb_spec (nlen out) e); [assumption|discriminate EUP].
    + split; [|exact CF]. unfold pad. rewrite P3. reflexivity.
  - rewrite B7. f_equal. f_equal. rewrite (reads_snk _ _ _ R56). cbn [i_snk].
    rewrite (reads_snk _ _ _ R12). reflexivity.
  - rewrite S7, P6. f_equal. apply N.ltb_ge in EOV. rewrite S7, P6 in EOV.
    assert (PL : nlen pad = padding_of (s_pos (i_src wd) - start)) by (unfold pad; rewrite nlen_repeat; apply N2Nat.id).
    rewrite <- PL in *. rewrite P3 in *. autorewrite with nlen in *. lia.
  - apply FaultFreeL_None; [exact FL'|]. apply (sadv_nolim _ _ _ AALL). exact NL.
Qed.

(* the block loop, counting iterations *)
Lemma xz_iter_sound_ff fuel ck : forall n done w isz w',
  iter_step n (xz_body crc32 crc64 fuel ck) (rev (map blk_record done), w) = Break (Done isz, w') ->
  FaultFree (i_src w) ->
  exists blocks index,
    Forall (blk_ok_ff crc32 crc64 fuel ck) blocks /\ (length blocks < n)%nat /\
    sadv (i_src w) (i_src w') (concat (map blk_bytes blocks) ++ index) /\
    index_bytes_ok crc32 (map blk_record (done ++ blocks)) index /\ isz = nlen index /\
    snk_bytes (i_snk w') = snk_bytes (i_snk w) ++ concat (map b_out blocks).
Proof.
  induction n as [|n IH]; intros done wc isz w' H FF; cbn [iter_step] in H; [discriminate H|].
  assert (NL : s_limit (i_src wc) = None) by apply FF.
  unfold xz_body at 1 in H.
  destruct (run_io read_u8 wc) as [[hs|e|q] w1] eqn:E8; try discriminate H.
  pose proof E8 as E8'. apply read_u8_inv in E8.
  assert (FF1 : FaultFree (i_src w1)) by (eapply run_ff; [apply Resp2_read_u8|exact E8'|exact E8|exact FF]).
  pose proof (reads_pos _ _ _ E8) as P1. rewrite IoInv.nlen_cons, IoInv.nlen_nil in P1.
  destruct (N.eqb_spec hs 0) as [->|HS0].
  - (* the index *)
    destruct (run_io (check_index crc32 (s_pos (i_src wc)) (lrev (rev (map blk_record done)))) w1) as [[[]|e|q] w2] eqn:ECI;
      try discriminate H.
    inversion H; subst isz w'; clear H.
    apply (check_index_ok crc32) in ECI. destruct ECI as (b0 & cs & pad & cb & R & M & F & (EP & _) & L & EC).
    assert (RI : reads wc w2 (0 :: b0 ++ concat cs ++ pad ++ cb)) by exact (reads_trans _ _ _ [0] _ E8 R).
    rewrite lrev_rev, rev_involutive in M, F.
    exists [], (0 :: b0 ++ concat cs ++ pad ++ cb). cbn [map concat app length]. rewrite app_nil_r.
    split; [constructor|]. split; [lia|]. split; [apply RI|]. split; [|split].
    + exists b0, cs, pad, cb. split; [reflexivity|]. split; [exact M|]. split; [exact F|].
      split; [|split; assumption]. rewrite EP. f_equal. f_equal. f_equal. rewrite P1, IoInv.nlen_cons. lia.
    + rewrite (reads_pos _ _ _ RI). lia.
    + rewrite (reads_snk _ _ _ RI). symmetry. apply app_nil_r.
  - (* one block *)
    destruct (read_block crc32 crc64 fuel (s_pos (i_src wc)) ck hs w1) as [[r|e|q] w2] eqn:ERB; try discriminate H.
    apply read_block_ok_ff in ERB; [|exact FF1]. destruct ERB as (b & Ehs & OK & ADb & SKb & Er & FF2).
    assert (OKb : blk_ok_ff crc32 crc64 fuel ck b).
    { unfold blk_ok_ff.
      replace (nlen (b_hs b :: b_hdr b ++ b_hcrc b ++ b_payload b))
        with (s_pos (i_src w1) + nlen (b_hdr b ++ b_hcrc b ++ b_payload b) - s_pos (i_src wc)); [exact OK|].
      rewrite P1, IoInv.nlen_cons. clear. lia. }
    assert (Er' : r = blk_record b).
    { rewrite Er. unfold blk_record. f_equal. rewrite P1, IoInv.nlen_cons. clear. lia. }
    rewrite Er' in H. clear Er Er'.
    replace (blk_record b :: rev (map blk_record done)) with (rev (map blk_record (done ++ [b]))) in H
      by (rewrite map_app, rev_app_distr; reflexivity).
    destruct (IH (done ++ [b]) w2 isz w' H FF2) as (blocks & index & FB & LB & AD & IOK & EI & SK).
    exists (b :: blocks), index. cbn [map concat length].
    split; [constructor; assumption|]. split; [lia|]. split; [|split; [|split]].
    + rewrite <- app_assoc. unfold blk_bytes at 1. rewrite Ehs.
      apply (sadv_trans _ _ _ [hs] _ (proj1 E8)). eapply sadv_trans; [exact ADb|exact AD].
    + rewrite <- app_assoc in IOK. exact IOK.
    + exact EI.
    + rewrite SK, SKb, (reads_snk _ _ _ E8), <- app_assoc. reflexivity.
Qed.

Theorem xz_decompress_sound_ff fuel w w' :
  xz_decompress crc32 crc64 fuel w = (Done tt, w') ->
  FaultFree (i_src w) ->
  exists ck hdr blocks index footer,
    s_rest (i_src w) = hdr ++ concat (map blk_bytes blocks) ++ index ++ footer /\
    s_rest (i_src w') = [] /\
    header_bytes_ok crc32 ck hdr /\
    Forall (blk_ok_ff crc32 crc64 fuel ck) blocks /\
    index_bytes_ok crc32 (map blk_record blocks) index /\
    footer_bytes_ok crc32 ck (nlen index) footer /\
    (length blocks < Pos.to_nat fuel)%nat /\
    snk_bytes (i_snk w') = snk_bytes (i_snk w) ++ concat (map b_out blocks).
Proof.
  unfold xz_decompress. intros H FF. assert (NL : s_limit (i_src w) = None) by apply FF.
  mbind H as ck w0 H0. pose proof H0 as H0'. apply (header_parse_bytes crc32) in H0. destruct H0 as (hdr & RH & HOK).
  assert (FF0 : FaultFree (i_src w0)) by (eapply run_ff; [apply Resp2_header_parse|exact H0'|exact RH|exact FF]).
  rewrite loopN_iter in H.
  destruct (iter_step (Pos.to_nat fuel) (xz_body crc32 crc64 fuel ck) ([], w0)) as [[recs wn]|[[isz|e|q] wf]] eqn:EL;
    try discriminate H.
  destruct (xz_iter_sound_ff fuel ck (Pos.to_nat fuel) [] w0 isz wf EL FF0) as (blocks & index & FB & LB & AD & IOK & -> & SK).
  cbn [app] in IOK.
  apply (xz_footer_ok crc32 crc64) in H. destruct H as (cb & bs & b0 & b1 & RF & L1 & L2 & EI & -> & EC & ECRC & Z).
  assert (NLf : s_limit (i_src wf) = None).
  { eapply sadv_nolim; [exact AD|]. eapply reads_nolim; eassumption. }
  specialize (Z NLf).
  assert (A : sadv (i_src w) (i_src w')
               (hdr ++ (concat (map blk_bytes blocks) ++ index) ++ cb ++ bs ++ [0; b1] ++ XZ_MAGIC_FOOTER)).
  { eapply sadv_trans; [apply RH|]. eapply sadv_trans; [exact AD|apply RF]. }
  destruct A as (AR & AP & _). rewrite Z, app_nil_r in AR.
  exists ck, hdr, blocks, index, (cb ++ bs ++ [0; b1] ++ XZ_MAGIC_FOOTER).
  split; [rewrite AR, <- !app_assoc; reflexivity|]. split; [exact Z|].
  split; [exact HOK|]. split; [exact FB|]. split; [exact IOK|]. split; [exists cb, bs, b1; auto 10|].
  split; [exact LB|].
  rewrite (reads_snk _ _ _ RF), SK, (reads_snk _ _ _ RH). reflexivity.
Qed.

(* ================= acceptance depends on the bytes only ================= *)
Theorem xz_accept_bytes_only fuel w w' :
  xz_decompress crc32 crc64 fuel w = (Done tt, w') -> FaultFree (i_src w) ->
  exists out, snk_bytes (i_snk w') = snk_bytes (i_snk w) ++ out /\
    forall v, FaultFree (i_src v) -> k_wfail (i_snk v) = None -> s_rest (i_src v) = s_rest (i_src w) ->
      exists v', xz_decompress crc32 crc64 fuel v = (Done tt, v') /\
                 snk_bytes (i_snk v') = snk_bytes (i_snk v) ++ out /\ s_rest (i_src v') = [].
Proof.
  intros H FF.
  destruct (xz_decompress_sound_ff fuel w w' H FF) as (ck & hdr & blocks & index & footer & ER & _ & HOK & FB & IOK & FOK & LB & SK).
  exists (concat (map b_out blocks)). split; [exact SK|].
  intros v Fv Kv Ev. rewrite ER in Ev.
  destruct (xz_decompress_complete crc32 crc64 fuel v ck hdr blocks index footer Fv Kv Ev HOK FB IOK FOK LB)
    as (v' & R & B & Z & _).
  exists v'. auto.
Qed.

End WithCrc.

Print Assumptions read_block_ok_ff.
Print Assumptions xz_decompress_sound_ff.
Print Assumptions xz_accept_bytes_only.
