(* C04, composition: lzma_compress (encode/dumbencoder.rs) emits exactly the
   reference encoding (Format/RefEnc.v) of the literal-only program of its input,
   followed by the end marker when the unpacked size is not written to the header.
   Part A: arithmetic / table correspondence.
   Part B: one literal = the nine events of [sym_evs .. (Lit b)].
   Part C: the input loop.
   Part D: the end marker.
   Part E: header, finish, and the main theorem [lzma_compress_conforms]. *)
From LZ Require Import Base.Prelude Base.Prog Model.Io Model.Tables Model.Enc Format.RefEnc
  Proofs.ProgLemmas Proofs.MapLemmas Proofs.IoLemmas Proofs.EncCarry.
From Coq Require Import ZifyBool ZifyNat ZifyN.
Ltac Zify.zify_post_hook ::= Z.div_mod_to_equations.
Local Open Scope N_scope.
Local Open Scope prog_scope.

(* ====================================================================== *)
(* Part A: arithmetic and tables                                           *)
(* ====================================================================== *)

Definition fp : fprops := mkFProps 3 0 2.
Definition W : option N := Some 8388608.

Lemma prob_upd_range p b : 31 <= p <= 2017 -> 31 <= prob_upd p b <= 2017.
Proof. intros H. unfold prob_upd. destruct b; lia. Qed.

(* the encoder's bit extraction is testbit *)
Lemma bit_test v j : negb (N.land (N.shiftr v j) 1 =? 0) = N.testbit v j.
Proof.
  replace (N.testbit v j) with (N.testbit (N.shiftr v j) 0) by (rewrite N.shiftr_spec'; f_equal; lia).
  rewrite N.bit0_eqb. change 1 with (N.ones 1) at 1. rewrite N.land_ones. change (2 ^ 1) with 2.
  set (x := N.shiftr v j). clearbody x.
  destruct (N.eqb_spec (x mod 2) 0); destruct (N.eqb_spec (x mod 2) 1); cbn [negb]; try reflexivity; lia.
Qed.

Lemma lxor_shift_bit r b : N.lxor (N.shiftl r 1) (b2n b) = 2 * r + b2n b.
Proof. destruct b; destruct r; reflexivity. Qed.

Lemma b2n_le1 b : b2n b <= 1.
Proof. destruct b; unfold b2n; lia. Qed.

(* all probabilities of a table are in the range that encode_bit_refines needs *)
Definition PR (m : nmap) : Prop := forall i, 31 <= nm_get m i 1024 <= 2017.
Lemma PR_empty : PR nm_empty.
Proof. intros i. rewrite nm_get_empty. lia. Qed.
Lemma PR_set m i v : PR m -> 31 <= v <= 2017 -> PR (nm_set m i v).
Proof.
  intros Hm Hv j. destruct (N.eq_dec j i) as [->|Hne]; [rewrite nm_gss; exact Hv|].
  rewrite nm_gso by exact Hne. apply Hm.
Qed.

Lemma tab_get_p_ok t i : i < t_len t -> tab_get_p t i = Ret (nm_get (t_map t) i 1024).
Proof. intros H. unfold tab_get_p, tab_get. destruct (N.ltb_spec i (t_len t)); [reflexivity|lia]. Qed.

(* the reference's tables when only literals have been coded from state 0:
   the literal table and the first four is_match cells are the encoder's, the rest is fresh *)
Definition tabs_gen (lit : tab) (imt : tab) : ptabs :=
  mkPTabs 8 lit (tab_new 256) (tab_new 16) (tab_new 115) imt
          (tab_new 12) (tab_new 12) (tab_new 12) (tab_new 12) (tab_new 192) lentabs_new lentabs_new.
Definition tabs_of (lit : tab) (imm : nmap) : ptabs := tabs_gen lit (mkTab 192 imm).

Lemma tabs_of_new : ptabs_new (2 ^ (f_lc fp + f_lp fp)) = tabs_of (tab_new (8 * 768)) (t_map (tab_new 4)).
Proof. reflexivity. Qed.

Lemma cell_get_lit l m r c : r < 8 -> c < 768 -> r * 768 + c < t_len l ->
  cell_get (tabs_of l m) (CLit r c) = Some (nm_get (t_map l) (r * 768 + c) 1024).
Proof.
  intros Hr Hc Hl. unfold tabs_of, tabs_gen. cbn [cell_get p_lit_rows p_lit].
  destruct (N.ltb_spec r 8); [|lia]. destruct (N.ltb_spec c 768); [|lia]. cbn [andb].
  unfold tab_get. destruct (N.ltb_spec (r * 768 + c) (t_len l)); [reflexivity|lia].
Qed.
Lemma cell_set_lit l m r c v : cell_set (tabs_of l m) (CLit r c) v = tabs_of (tab_set l (r * 768 + c) v) m.
Proof. reflexivity. Qed.
Lemma cell_get_im l m i : i < 192 -> cell_get (tabs_of l m) (CIsMatch i) = Some (nm_get m i 1024).
Proof.
  intros Hi. unfold tabs_of, tabs_gen. cbn [cell_get p_is_match]. unfold tab_get. cbn [t_len t_map].
  destruct (N.ltb_spec i 192); [reflexivity|lia].
Qed.
Lemma cell_set_im l m i v : cell_set (tabs_of l m) (CIsMatch i) v = tabs_of l (nm_set m i v).
Proof. reflexivity. Qed.

Lemma fold_ev_bit c b evs ie t p : cell_get t c = Some p ->
  fold_left ienc_ev (EvBit c b :: evs) (ie, t) = fold_left ienc_ev evs (ienc_bit ie p b, cell_set t c (prob_upd p b)).
Proof. intros H. cbn [fold_left ienc_ev]. rewrite H. reflexivity. Qed.

(* ====================================================================== *)
(* Part B: one literal                                                     *)
(* ====================================================================== *)

Lemma lit_loop n : forall i d row byte result mb imm out ie s k,
  i + N.of_nat n = 8 -> row < 8 -> (result + 1) * 2 ^ N.of_nat n <= 512 ->
  t_len (de_lit d) = 6144 -> PR (t_map (de_lit d)) ->
  EncR (de_rc d) out ie -> i_norms ie + N.of_nat n + 1 < 4294967296 -> k_wfail k = None ->
  exists d' add k' ie',
    run_io (encode_literal_loop n i d row byte result) (mkIo s k) = (Done d', mkIo s k') /\
    snk_app k add k' /\
    fold_left ienc_ev (lit_evs n row byte mb false result) (ie, tabs_of (de_lit d) imm)
      = (ie', tabs_of (de_lit d') imm) /\
    EncR (de_rc d') (out ++ add) ie' /\ i_norms ie' <= i_norms ie + N.of_nat n /\
    t_len (de_lit d') = 6144 /\ PR (t_map (de_lit d')) /\
    de_is_match d' = de_is_match d /\ de_opt d' = de_opt d.
Proof.
  induction n as [|n IH]; intros i d row byte result mb imm out ie s k Hi Hrow Hres Hlen HPR HR Hn Hw.
  - exists d, [], k, ie. cbn [encode_literal_loop lit_evs fold_left]. rewrite app_nil_r.
    split; [reflexivity|]. split; [apply snk_app_nil; exact Hw|]. split; [reflexivity|].
    split; [exact HR|]. split; [lia|]. split; [exact Hlen|]. split; [exact HPR|]. split; reflexivity.
  - rewrite Nat2N.inj_succ in Hi, Hres, Hn. rewrite N.pow_succ_r' in Hres.
    assert (Hq : 1 <= 2 ^ N.of_nat n).
    { assert (2 ^ N.of_nat n <> 0) by (apply N.pow_nonzero; lia). lia. }
    set (q := 2 ^ N.of_nat n) in *. clearbody q.
    assert (Hr256 : result + 1 <= 256) by nia.
    set (idx := row * 768 + result).
    assert (Hidx : idx < t_len (de_lit d)) by (unfold idx; lia).
    set (p := nm_get (t_map (de_lit d)) idx 1024).
    set (bit := N.testbit byte (N.of_nat n)).
    pose proof (EncR_csz _ _ _ _ HR) as Hcz.
    destruct (encode_bit_refines (de_rc d) out ie p bit s k HR (HPR idx) ltac:(lia) Hw)
      as (e1 & a1 & k1 & E1 & A1 & R1).
    pose proof (ienc_bit_norms ie p bit) as Hn1.
    set (d1 := mkDenc e1 (tab_set (de_lit d) idx (prob_upd p bit)) (de_is_match d) (de_opt d)).
    destruct (IH (i + 1) d1 row byte (2 * result + b2n bit) mb imm (out ++ a1) (ienc_bit ie p bit) s k1)
      as (d' & a2 & k2 & ie' & E2 & A2 & F2 & R2 & Hn2 & Hl2 & HP2 & Him2 & Ho2).
    { lia. }
    { exact Hrow. }
    { pose proof (b2n_le1 bit). nia. }
    { unfold d1. cbn [de_lit]. rewrite tab_len_set. exact Hlen. }
    { unfold d1. cbn [de_lit]. unfold tab_set. cbn [t_map]. apply PR_set; [exact HPR|].
      apply prob_upd_range. apply HPR. }
    { exact R1. }
    { lia. }
    { apply A1. }
    exists d', (a1 ++ a2), k2, ie'.
    split.
    { cbn [encode_literal_loop]. rewrite bit_test. replace (7 - i) with (N.of_nat n) by lia. fold bit.
      rewrite lxor_shift_bit. fold idx.
      unfold run_io in *. rewrite tab_get_p_ok by exact Hidx. cbn [bind]. fold p.
      rewrite interp_bind, E1. exact E2. }
    split; [eapply snk_app_trans; eassumption|].
    split.
    { cbn [lit_evs]. unfold nbit. fold bit.
      rewrite (fold_ev_bit _ _ _ _ _ p).
      - rewrite cell_set_lit. fold idx. exact F2.
      - rewrite cell_get_lit; [reflexivity|exact Hrow|lia|exact Hidx]. }
    rewrite app_assoc. split; [exact R2|]. split; [rewrite Nat2N.inj_succ; lia|].
    split; [exact Hl2|]. split; [exact HP2|]. split; [exact Him2|exact Ho2].
Qed.

(* the reference's events for a literal, with lc = 3, lp = 0, pb = 2, state 0 *)
Lemma sym_evs_lit pr len r0 r1 r2 r3 b :
  sym_evs fp 0 (mkHist pr len r0 r1 r2 r3) (Lit b) =
  (EvBit (CIsMatch (N.land len 3)) false ::
   lit_evs 8 (N.shiftr (hd 0 pr) 5) b (nth (N.to_nat r0) pr 0) false 1, 0).
Proof.
  unfold sym_evs, fp. cbn [f_pb f_lp f_lc h_len h_bytes h_r0].
  change (2 ^ 2 - 1) with 3. change (2 ^ 0 - 1) with 0. change (8 - 3) with 5.
  change (7 <=? 0) with false. change (st_lit 0) with 0. change (16 * 0) with 0.
  rewrite N.land_0_r, N.shiftl_0_l, !N.add_0_l. destruct pr; reflexivity.
Qed.

Lemma land3_lt x : N.land x 3 < 4.
Proof. change 3 with (N.ones 2). rewrite N.land_ones. change (2 ^ 2) with 4. lia. Qed.
Lemma land3_le x : N.land x 3 <= x.
Proof. change 3 with (N.ones 2). rewrite N.land_ones. change (2 ^ 2) with 4. lia. Qed.
Lemma shiftr5_lt x : x < 256 -> N.shiftr x 5 < 8.
Proof. intros H. rewrite N.shiftr_div_pow2. change (2 ^ 5) with 32. lia. Qed.

(* the per-byte program of denc_body against the events of one literal *)
Lemma one_literal d ps byte prev evs out ie s k :
  ps < 4 -> prev < 256 ->
  t_len (de_lit d) = 6144 -> PR (t_map (de_lit d)) ->
  t_len (de_is_match d) = 4 -> PR (t_map (de_is_match d)) ->
  EncR (de_rc d) out ie -> i_norms ie + 10 < 4294967296 -> k_wfail k = None ->
  forall mb, evs = EvBit (CIsMatch ps) false :: lit_evs 8 (N.shiftr prev 5) byte mb false 1 ->
  exists d' add k' ie',
    run_io (p <- tab_get_p (de_is_match d) ps ;;
            '(p', e') <- encode_bit (de_rc d) p false ;;
            encode_literal (mkDenc e' (de_lit d) (tab_set (de_is_match d) ps p') (de_opt d)) byte prev)
           (mkIo s k) = (Done d', mkIo s k') /\
    snk_app k add k' /\
    fold_left ienc_ev evs (ie, tabs_of (de_lit d) (t_map (de_is_match d)))
      = (ie', tabs_of (de_lit d') (t_map (de_is_match d'))) /\
    EncR (de_rc d') (out ++ add) ie' /\ i_norms ie' <= i_norms ie + 9 /\
    t_len (de_lit d') = 6144 /\ PR (t_map (de_lit d')) /\
    t_len (de_is_match d') = 4 /\ PR (t_map (de_is_match d')) /\ de_opt d' = de_opt d /\
    (forall j, j <> ps -> nm_get (t_map (de_is_match d')) j 1024 = nm_get (t_map (de_is_match d)) j 1024).
Proof.
  intros Hps Hprev Hl HP Hl4 HP4 HR Hn Hw mb ->.
  set (p := nm_get (t_map (de_is_match d)) ps 1024).
  pose proof (EncR_csz _ _ _ _ HR) as Hcz.
  destruct (encode_bit_refines (de_rc d) out ie p false s k HR (HP4 ps) ltac:(lia) Hw)
    as (e1 & a1 & k1 & E1 & A1 & R1).
  pose proof (ienc_bit_norms ie p false) as Hn1.
  set (d1 := mkDenc e1 (de_lit d) (tab_set (de_is_match d) ps (prob_upd p false)) (de_opt d)).
  destruct (lit_loop 8 0 d1 (N.shiftr prev 5) byte 1 mb (t_map (de_is_match d1)) (out ++ a1) (ienc_bit ie p false) s k1)
    as (d' & a2 & k2 & ie' & E2 & A2 & F2 & R2 & Hn2 & Hl2 & HP2 & Him2 & Ho2).
  { reflexivity. }
  { apply shiftr5_lt. exact Hprev. }
  { change (N.of_nat 8) with 8. change (2 ^ 8) with 256. lia. }
  { exact Hl. }
  { exact HP. }
  { exact R1. }
  { change (N.of_nat 8) with 8. lia. }
  { apply A1. }
  exists d', (a1 ++ a2), k2, ie'.
  split.
  { unfold run_io in *. rewrite tab_get_p_ok by lia. cbn [bind]. fold p.
    rewrite interp_bind, E1. exact E2. }
  split; [eapply snk_app_trans; eassumption|].
  split.
  { rewrite (fold_ev_bit _ _ _ _ _ p) by (apply cell_get_im; lia).
    rewrite cell_set_im. rewrite Him2. exact F2. }
  rewrite app_assoc. split; [exact R2|]. change (N.of_nat 8) with 8 in Hn2. split; [lia|].
  split; [exact Hl2|]. split; [exact HP2|]. rewrite Him2. unfold d1. cbn [de_is_match tab_set t_len t_map].
  split; [exact Hl4|]. split; [apply PR_set; [exact HP4|apply prob_upd_range; apply HP4]|].
  split; [exact Ho2|]. intros j Hj. apply nm_gso. exact Hj.
Qed.

(* ====================================================================== *)
(* Part C: the input loop                                                  *)
(* ====================================================================== *)

(* Read::read into a one-byte buffer, from a fault-free source, any fragmentation *)
Lemma read1_cons s b t : FaultFree s -> s_rest s = b :: t ->
  exists s', io_runs (read_buf 1) s (Done [b]) s' /\ s_rest s' = t /\ s_pos s' = s_pos s + 1 /\ FaultFree s'.
Proof.
  intros Hs Hr.
  destruct (io_read_buf_spec s 1 (FaultFree_L s Hs) ltac:(lia))
    as (g & s' & Hrun & Hg1 & Hg2 & _ & Hr' & Hp' & Hl' & Hs' & Hprog).
  assert (Hg : g = 1).
  { assert (1 <= g); [|lia]. apply Hprog; [rewrite Hr; discriminate|apply FaultFree_lim_ge; exact Hs]. }
  subst g. rewrite Hr in Hrun, Hr'. exists s'. split; [exact Hrun|]. split; [exact Hr'|]. split; [exact Hp'|].
  apply FaultFreeL_None; [exact Hs'|]. rewrite Hl'. apply lim_sub_None. apply Hs.
Qed.

Lemma read1_nil s : FaultFree s -> s_rest s = [] ->
  exists s', io_runs (read_buf 1) s (Done []) s' /\ s_rest s' = [] /\ s_pos s' = s_pos s /\ FaultFree s'.
Proof.
  intros Hs Hr.
  destruct (io_read_buf_spec s 1 (FaultFree_L s Hs) ltac:(lia))
    as (g & s' & Hrun & Hg1 & Hg2 & _ & Hr' & Hp' & Hl' & Hs' & Hprog).
  rewrite Hr in Hg2, Hrun, Hr'. rewrite nlen_nil in Hg2. assert (g = 0) by lia. subst g.
  exists s'. split; [exact Hrun|]. split; [exact Hr'|]. split; [lia|].
  apply FaultFreeL_None; [exact Hs'|]. rewrite Hl'. apply lim_sub_None. apply Hs.
Qed.

(* the loop invariant: [pr] is the input consumed so far, most recent byte first *)
Definition Inv (o : enc_unpacked) (pr : list N) (l : dloop) (out : list N) (ie : ienc) : Prop :=
  let d := dl_enc l in
  dl_out_len l = nlen pr /\ dl_prev l = hd 0 pr /\ dl_prev l < 256 /\ dl_input_len l = nlen pr - 1 /\
  de_opt d = o /\ t_len (de_lit d) = 6144 /\ PR (t_map (de_lit d)) /\
  t_len (de_is_match d) = 4 /\ PR (t_map (de_is_match d)) /\
  (forall j, nlen pr <= j -> nm_get (t_map (de_is_match d)) j 1024 = 1024) /\
  EncR (de_rc d) out ie /\ i_norms ie <= 9 * nlen pr.

(* the reference encoder's state that corresponds to the loop state *)
Definition est (pr : list N) (l : dloop) : estate :=
  mkEstate (tabs_of (de_lit (dl_enc l)) (t_map (de_is_match (dl_enc l)))) 0 (mkHist pr (nlen pr) 0 0 0 0).

Lemma enc_syms_lit b rest ie t h evs ie' t' h' :
  sym_evs fp 0 h (Lit b) = (evs, 0) -> fold_left ienc_ev evs (ie, t) = (ie', t') -> sem_sym W h (Lit b) = Some h' ->
  enc_syms_gen false fp W ie (mkEstate t 0 h) (Lit b :: rest) = enc_syms_gen false fp W ie' (mkEstate t' 0 h') rest.
Proof. intros H1 H2 H3. cbn [enc_syms_gen es_st es_hist es_tabs]. rewrite H1, H2, H3. reflexivity. Qed.

Lemma loop_lits o rest : forall n pr l src k out ie,
  (length rest < n)%nat -> FaultFree src -> s_rest src = rest -> k_wfail k = None -> bytes rest ->
  Inv o pr l out ie -> 9 * (nlen pr + nlen rest) + 50 < 4294967296 ->
  exists l' src' k' add ie',
    iter_step n denc_body (l, mkIo src k) = Break (Done l', mkIo src' k') /\
    snk_app k add k' /\
    Inv o (rev rest ++ pr) l' (out ++ add) ie' /\
    (forall tail, enc_syms_gen false fp W ie (est pr l) (map Lit rest ++ tail)
                  = enc_syms_gen false fp W ie' (est (rev rest ++ pr) l') tail).
Proof.
  induction rest as [|b rest IH]; intros n pr l src k out ie Hn Hs Hr Hw Hb HI Hsz.
  - destruct n as [|n]; [cbn [length] in Hn; lia|].
    destruct (read1_nil src Hs Hr) as (src' & Hrun & _).
    exists l, src', k, [], ie. split.
    { cbn [iter_step]. unfold denc_body. rewrite (Hrun k). reflexivity. }
    split; [apply snk_app_nil; exact Hw|]. rewrite app_nil_r. cbn [rev app map].
    split; [exact HI|]. intros tail. reflexivity.
  - destruct n as [|n]; [cbn [length] in Hn; lia|]. cbn [length] in Hn.
    inversion Hb as [|? ? Hb1 Hb2]; subst.
    destruct (read1_cons src b rest Hs Hr) as (src' & Hrun & Hr' & _ & Hs').
    destruct HI as (I1 & I2 & I3 & I4 & I5 & I6 & I7 & I8 & I9 & I10 & I11 & I12).
    cbv zeta in I5, I6, I7, I8, I9, I10, I11.
    rewrite nlen_cons in Hsz.
    set (d := dl_enc l) in *.
    set (ps := N.land (dl_out_len l) 3).
    pose proof (land3_lt (dl_out_len l)) as Hps. fold ps in Hps.
    pose proof (land3_le (dl_out_len l)) as Hps2. fold ps in Hps2.
    destruct (one_literal d ps b (dl_prev l)
                (EvBit (CIsMatch ps) false :: lit_evs 8 (N.shiftr (dl_prev l) 5) b (nth (N.to_nat 0) pr 0) false 1)
                out ie src' k Hps I3 I6 I7 I8 I9 I11 ltac:(lia) Hw _ eq_refl)
      as (d' & a1 & k1 & ie1 & E1 & A1 & F1 & R1 & Hn1 & Hl1 & HP1 & Hl41 & HP41 & Ho1 & Hoth).
    set (l1 := mkDloop d' b (dl_out_len l + 1) (dl_out_len l)).
    assert (HI1 : Inv o (b :: pr) l1 (out ++ a1) ie1).
    { unfold Inv, l1. cbn [dl_enc dl_prev dl_out_len dl_input_len hd]. rewrite nlen_cons.
      split; [lia|]. split; [reflexivity|]. split; [exact Hb1|]. split; [lia|].
      split; [congruence|]. split; [exact Hl1|]. split; [exact HP1|]. split; [exact Hl41|]. split; [exact HP41|].
      split; [|split; [exact R1|lia]].
      intros j Hj. rewrite Hoth by lia. apply I10. lia. }
    destruct (IH n (b :: pr) l1 src' k1 (out ++ a1) ie1 ltac:(lia) Hs' Hr' ltac:(apply A1) Hb2 HI1)
      as (l' & src2 & k2 & a2 & ie2 & E2 & A2 & I2' & T2).
    { rewrite nlen_cons. lia. }
    exists l', src2, k2, (a1 ++ a2), ie2.
    assert (Hrev : rev (b :: rest) ++ pr = rev rest ++ b :: pr).
    { cbn [rev]. rewrite <- app_assoc. reflexivity. }
    rewrite Hrev. split.
    { cbn [iter_step]. unfold denc_body at 1. rewrite (Hrun k). cbv zeta. fold d. fold ps.
      rewrite E1. fold l1. exact E2. }
    split; [eapply snk_app_trans; eassumption|].
    rewrite app_assoc. split; [exact I2'|].
    intros tail. cbn [map app]. rewrite <- T2. unfold est at 1. fold d.
    eapply enc_syms_lit.
    + rewrite sym_evs_lit. rewrite <- I2, <- I1. fold ps. reflexivity.
    + exact F1.
    + unfold sem_sym. destruct (N.ltb_spec b 256); [|lia].
      cbn [h_bytes h_len h_r0 h_r1 h_r2 h_r3]. unfold est, l1. cbn [dl_enc]. rewrite nlen_cons. reflexivity.
Qed.

(* ====================================================================== *)
(* Part D: the end marker                                                  *)
(* ====================================================================== *)

(* coding events whose cells are all untouched (probability 0x400) does not depend on the cells *)
Fixpoint all_fresh (t : ptabs) (evs : list ev) : bool :=
  match evs with
  | [] => true
  | EvBit c b :: r =>
      match cell_get t c with
      | Some v => (v =? 1024) && all_fresh (cell_set t c (prob_upd 1024 b)) r
      | None => false
      end
  | EvDirect _ :: r => all_fresh t r
  end.
Definition ev_shape (e : ev) : bool * bool :=
  match e with EvBit _ b => (true, b) | EvDirect b => (false, b) end.
Definition shape_step (ie : ienc) (sb : bool * bool) : ienc :=
  if fst sb then ienc_bit ie 1024 (snd sb) else ienc_direct ie (snd sb).

Lemma fresh_code evs : forall t ie, all_fresh t evs = true ->
  fst (fold_left ienc_ev evs (ie, t)) = fold_left shape_step (map ev_shape evs) ie.
Proof.
  induction evs as [|[c b|b] r IH]; intros t ie H; [reflexivity| |].
  - cbn [all_fresh] in H. destruct (cell_get t c) as [v|] eqn:E; [|discriminate].
    apply andb_prop in H. destruct H as [Hv Hr]. apply N.eqb_eq in Hv. subst v.
    rewrite (fold_ev_bit _ _ _ _ _ 1024 E). cbn [map fold_left ev_shape]. apply IH. exact Hr.
  - cbn [all_fresh] in H. cbn [fold_left ienc_ev map ev_shape]. apply IH. exact H.
Qed.

Definition marker_shape : list (bool * bool) :=
  repeat (true, false) 5 ++ repeat (true, true) 6 ++ repeat (false, true) 26 ++ repeat (true, true) 4.

(* what denc_finish codes after the is_match bit *)
Definition marker_ie (ie1 : ienc) : ienc :=
  ienc_steps (repeat (1024, true) 30) (ienc_steps (repeat (1024, true) 6)
    (ienc_steps (repeat (1024, false) 4) (ienc_steps (repeat (1024, false) 1) ie1))).

Lemma marker_shape_code ie1 : 16777216 <= i_range ie1 < 4294967296 ->
  fold_left shape_step marker_shape ie1 = marker_ie ie1.
Proof.
  intros HR. pose proof (marker_direct_equiv ie1 HR) as H. cbv zeta in H.
  set (A := fold_left (fun x b => ienc_bit x 1024 b) marker_prefix_bits ie1) in H.
  transitivity (Nat.iter 4 (fun x => ienc_bit x 1024 true) (Nat.iter 26 (fun x => ienc_direct x true) A)).
  { cbv [marker_shape repeat app fold_left shape_step fst snd Nat.iter nat_rect A marker_prefix_bits]. reflexivity. }
  rewrite <- H.
  cbv [marker_ie ienc_steps repeat app fold_left fst snd Nat.iter nat_rect A marker_prefix_bits]. reflexivity.
Qed.

(* the reference's marker events from state 0, after [len] output bytes *)
Lemma marker_ref lit imm ie pr len r0 r1 r2 r3 :
  16777216 <= i_range (ienc_bit ie (nm_get imm (N.land len 3) 1024) true) < 4294967296 ->
  fst (fold_left ienc_ev (fst (sym_evs fp 0 (mkHist pr len r0 r1 r2 r3) EndMarker)) (ie, tabs_of lit imm))
  = marker_ie (ienc_bit ie (nm_get imm (N.land len 3) 1024) true).
Proof.
  intros HR. unfold sym_evs, fp. cbn [f_pb h_len fst].
  change (2 ^ 2 - 1) with 3. change (16 * 0) with 0. rewrite N.add_0_l.
  pose proof (land3_lt len) as Hps. set (ps := N.land len 3) in *. clearbody ps.
  rewrite (fold_ev_bit _ _ _ _ _ (nm_get imm ps 1024)) by (apply cell_get_im; lia).
  rewrite cell_set_im.
  set (ie1 := ienc_bit ie (nm_get imm ps 1024) true) in *. clearbody ie1.
  set (imm' := nm_set imm ps _). clearbody imm'.
  rewrite <- (marker_shape_code ie1 HR).
  assert (Hc : ps = 0 \/ ps = 1 \/ ps = 2 \/ ps = 3) by lia.
  destruct Hc as [->|[->|[->| ->]]].
  all: rewrite fresh_code by (timeout 20 vm_compute; reflexivity).
  all: apply (f_equal (fun l => fold_left shape_step l ie1)).
  all: timeout 20 vm_compute; reflexivity.
Qed.

Lemma Forall_repeat_prob b n : Forall (fun pb : N * bool => 31 <= fst pb <= 2017) (repeat (1024, b) n).
Proof. apply Forall_forall. intros x Hx. apply repeat_spec in Hx. subst. cbn [fst]. lia. Qed.

Lemma fixed_bits_refines n bit e out ie s k :
  EncR e out ie -> i_norms ie + N.of_nat n + 1 < 4294967296 -> k_wfail k = None ->
  exists e' add k',
    run_io (encode_fixed_bits n e bit) (mkIo s k) = (Done e', mkIo s k') /\ snk_app k add k' /\
    EncR e' (out ++ add) (ienc_steps (repeat (1024, bit) n) ie) /\
    i_norms (ienc_steps (repeat (1024, bit) n) ie) <= i_norms ie + N.of_nat n.
Proof.
  intros HR Hn Hw. rewrite encode_fixed_bits_run.
  destruct (encode_steps_refines (repeat (1024, bit) n) e out ie s k HR (Forall_repeat_prob _ _)
              ltac:(rewrite nlen_repeat; lia) Hw) as (e' & add & k' & E & A & R & Hn').
  rewrite nlen_repeat in Hn'. exists e', add, k'. split; [exact E|]. split; [exact A|]. split; [exact R|exact Hn'].
Qed.

(* finish() with the end marker *)
Lemma finish_marker d len out ie s k :
  de_opt d = WriteToHeader None -> t_len (de_is_match d) = 4 -> PR (t_map (de_is_match d)) ->
  EncR (de_rc d) out ie -> i_norms ie + 50 < 4294967296 -> k_wfail k = None ->
  let ie1 := ienc_bit ie (nm_get (t_map (de_is_match d)) (N.land len 3) 1024) true in
  exists add k',
    run_io (denc_finish d len) (mkIo s k) = (Done tt, mkIo s k') /\ snk_app k add k' /\
    out ++ add = ienc_bytes (marker_ie ie1) 0 /\ 16777216 <= i_range ie1 < 4294967296.
Proof.
  intros Ho Hl4 HP4 HR Hn Hw. cbv zeta.
  pose proof (land3_lt len) as Hps. set (ps := N.land len 3) in *.
  set (p := nm_get (t_map (de_is_match d)) ps 1024).
  pose proof (EncR_csz _ _ _ _ HR) as Hcz.
  destruct (encode_bit_refines (de_rc d) out ie p true s k HR (HP4 ps) ltac:(lia) Hw)
    as (e1 & a1 & k1 & E1 & A1 & R1).
  pose proof (ienc_bit_norms ie p true) as Hn1.
  set (ie1 := ienc_bit ie p true) in *.
  assert (Hrng : 16777216 <= i_range ie1 < 4294967296) by apply R1.
  destruct (fixed_bits_refines 1 false e1 _ ie1 s k1 R1 ltac:(change (N.of_nat 1) with 1; lia) ltac:(apply A1))
    as (e2 & a2 & k2 & E2 & A2 & R2 & Hn2).
  change (N.of_nat 1) with 1 in Hn2. set (ie2 := ienc_steps (repeat (1024, false) 1) ie1) in *.
  destruct (fixed_bits_refines 4 false e2 _ ie2 s k2 R2 ltac:(change (N.of_nat 4) with 4; lia) ltac:(apply A2))
    as (e3 & a3 & k3 & E3 & A3 & R3 & Hn3).
  change (N.of_nat 4) with 4 in Hn3. set (ie3 := ienc_steps (repeat (1024, false) 4) ie2) in *.
  destruct (fixed_bits_refines 6 true e3 _ ie3 s k3 R3 ltac:(change (N.of_nat 6) with 6; lia) ltac:(apply A3))
    as (e4 & a4 & k4 & E4 & A4 & R4 & Hn4).
  change (N.of_nat 6) with 6 in Hn4. set (ie4 := ienc_steps (repeat (1024, true) 6) ie3) in *.
  destruct (fixed_bits_refines 30 true e4 _ ie4 s k4 R4 ltac:(change (N.of_nat 30) with 30; lia) ltac:(apply A4))
    as (e5 & a5 & k5 & E5 & A5 & R5 & Hn5).
  change (N.of_nat 30) with 30 in Hn5. set (ie5 := ienc_steps (repeat (1024, true) 30) ie4) in *.
  pose proof (EncR_csz _ _ _ _ R5) as Hcz5.
  destruct (renc_finish_app e5 _ ie5 s k5 R5 ltac:(lia) ltac:(apply A5)) as (e6 & a6 & k6 & E6 & A6 & Hout).
  exists (a1 ++ a2 ++ a3 ++ a4 ++ a5 ++ a6), k6.
  split.
  { unfold denc_finish, run_io in *. rewrite Ho. rewrite interp_bind.
    rewrite tab_get_p_ok by lia. cbn [bind]. fold ps. fold p.
    rewrite interp_bind, E1. cbv beta iota.
    rewrite interp_bind, E2. rewrite interp_bind, E3. rewrite interp_bind, E4. rewrite E5.
    rewrite interp_bind, E6. reflexivity. }
  split.
  { eapply snk_app_trans; [exact A1|]. eapply snk_app_trans; [exact A2|]. eapply snk_app_trans; [exact A3|].
    eapply snk_app_trans; [exact A4|]. eapply snk_app_trans; [exact A5|exact A6]. }
  split; [|exact Hrng].
  transitivity (ienc_bytes ie5 0); [|unfold marker_ie, ie5, ie4, ie3, ie2; reflexivity].
  rewrite <- Hout. rewrite !app_assoc. reflexivity.
Qed.

(* finish() without the end marker *)
Lemma finish_plain d len out ie s k :
  de_opt d <> WriteToHeader None -> EncR (de_rc d) out ie -> i_norms ie + 6 < 4294967296 -> k_wfail k = None ->
  exists add k',
    run_io (denc_finish d len) (mkIo s k) = (Done tt, mkIo s k') /\ snk_app k add k' /\
    out ++ add = ienc_bytes ie 0.
Proof.
  intros Ho HR Hn Hw.
  pose proof (EncR_csz _ _ _ _ HR) as Hcz.
  destruct (renc_finish_app (de_rc d) out ie s k HR ltac:(lia) Hw) as (e6 & a6 & k6 & E6 & A6 & Hout).
  exists a6, k6. split; [|split; assumption].
  unfold denc_finish, run_io in *. rewrite interp_bind.
  destruct (de_opt d) as [[x|]|]; try congruence; cbn [interp]; rewrite interp_bind, E6; reflexivity.
Qed.

(* ====================================================================== *)
(* Part E: header, finish, main theorem                                    *)
(* ====================================================================== *)

Definition header (o : enc_unpacked) : list N :=
  93 :: le_bytes 4 8388608 ++
  match o with
  | WriteToHeader None => le_bytes 8 18446744073709551615
  | WriteToHeader (Some x) => le_bytes 8 x
  | SkipWritingToHeader => []
  end.

(* the symbol program that the dumb encoder codes *)
Definition lit_program (o : enc_unpacked) (data : list N) : list sym :=
  map Lit data ++ match o with WriteToHeader None => [EndMarker] | _ => [] end.

Lemma from_stream_run o s k : k_wfail k = None ->
  exists k', run_io (denc_from_stream o) (mkIo s k)
             = (Done (mkDenc renc_new (tab_new (8 * 768)) (tab_new 4) o), mkIo s k') /\
             snk_app k (header o) k'.
Proof.
  intros Hw.
  destruct (write_u8_ok 93 s k Hw) as (k1 & E1 & A1).
  destruct (write_all_ok (le_bytes 4 8388608) s k1 ltac:(apply A1)) as (k2 & E2 & A2).
  assert (A12 : snk_app k (93 :: le_bytes 4 8388608) k2).
  { change (93 :: le_bytes 4 8388608) with ([93] ++ le_bytes 4 8388608). eapply snk_app_trans; eassumption. }
  unfold denc_from_stream, run_io, enc_props_byte, enc_dict_size, write_u32_le, write_u64_le, header in *.
  rewrite interp_bind, E1, interp_bind, E2, interp_bind.
  destruct o as [[x|]|].
  - destruct (write_all_ok (le_bytes 8 x) s k2 ltac:(apply A2)) as (k3 & E3 & A3).
    unfold run_io in E3. rewrite E3. exists k3. split; [reflexivity|].
    rewrite app_comm_cons. eapply snk_app_trans; eassumption.
  - destruct (write_all_ok (le_bytes 8 18446744073709551615) s k2 ltac:(apply A2)) as (k3 & E3 & A3).
    unfold run_io in E3. rewrite E3. exists k3. split; [reflexivity|].
    rewrite app_comm_cons. eapply snk_app_trans; eassumption.
  - exists k2. split; [reflexivity|]. rewrite app_nil_r. exact A12.
Qed.

Lemma enc_syms_marker ie t h :
  enc_syms_gen false fp W ie (mkEstate t 0 h) [EndMarker] =
  Some (fst (fold_left ienc_ev (fst (sym_evs fp 0 h EndMarker)) (ie, t)),
        mkEstate (snd (fold_left ienc_ev (fst (sym_evs fp 0 h EndMarker)) (ie, t))) (snd (sym_evs fp 0 h EndMarker)) h).
Proof.
  cbn [enc_syms_gen es_st es_hist es_tabs]. destruct (sym_evs fp 0 h EndMarker) as [evs st']. cbn [fst snd].
  destruct (fold_left ienc_ev evs (ie, t)). reflexivity.
Qed.

Lemma estate0_est o : estate0 fp = est [] (mkDloop (mkDenc renc_new (tab_new (8 * 768)) (tab_new 4) o) 0 0 0).
Proof. reflexivity. Qed.

Theorem lzma_compress_conforms fuel o data frag k :
  bytes data -> k_wfail k = None -> nlen data < Npos fuel -> 9 * nlen data + 50 < 4294967296 ->
  exists w' payload,
    lzma_compress fuel o (mkIo (src_of data frag None) k) = (Done tt, w') /\
    snk_bytes (i_snk w') = snk_bytes k ++ header o ++ payload /\
    enc_payload_gen false (mkFProps 3 0 2) (Some 8388608) (lit_program o data) 0 = Some (payload, data).
Proof.
  intros Hb Hw Hfuel Hsz.
  set (src := src_of data frag None).
  destruct (from_stream_run o src k Hw) as (k1 & E0 & A0).
  set (d0 := mkDenc renc_new (tab_new (8 * 768)) (tab_new 4) o) in *.
  set (l0 := mkDloop d0 0 0 0).
  assert (HI0 : Inv o [] l0 [] ienc0).
  { unfold Inv, l0, d0. cbn [dl_enc dl_out_len dl_prev dl_input_len de_opt de_lit de_is_match de_rc hd].
    split; [reflexivity|]. split; [reflexivity|]. split; [lia|]. split; [reflexivity|]. split; [reflexivity|].
    split; [reflexivity|]. split; [exact PR_empty|]. split; [reflexivity|]. split; [exact PR_empty|].
    split; [intros j _; apply nm_get_empty|]. split; [exact EncR_init|]. change (i_norms ienc0) with 0. lia. }
  destruct (loop_lits o data (Pos.to_nat fuel) [] l0 src k1 [] ienc0)
    as (l' & src' & k2 & add & ie' & EL & AL & HI & T).
  { unfold nlen in Hfuel. lia. }
  { apply src_of_FaultFree. }
  { reflexivity. }
  { apply A0. }
  { exact Hb. }
  { exact HI0. }
  { rewrite nlen_nil. lia. }
  rewrite app_nil_r in HI, T. cbn [app] in HI.
  destruct HI as (I1 & I2 & I3 & I4 & I5 & I6 & I7 & I8 & I9 & I10 & I11 & I12). cbv zeta in *.
  assert (Hlen : nlen (rev data) = nlen data) by (unfold nlen; rewrite rev_length; reflexivity).
  rewrite Hlen in *.
  assert (Hdata : lrev (rev data) = data) by (rewrite lrev_rev; apply rev_involutive).
  assert (Hrun : forall r, run_io (denc_finish (dl_enc l') (dl_input_len l' + 1)) (mkIo src' k2) = r ->
                 lzma_compress fuel o (mkIo src k) = r).
  { intros r Hr. unfold lzma_compress. rewrite E0. fold l0. rewrite loopN_iter, EL. exact Hr. }
  unfold enc_payload_gen. change (mkFProps 3 0 2) with fp. change (Some 8388608) with W.
  rewrite (estate0_est o). fold d0. fold l0. unfold lit_program. rewrite T.
  assert (Hmark : o = WriteToHeader None \/ o <> WriteToHeader None).
  { destruct o as [[x|]|]; [right; discriminate|left; reflexivity|right; discriminate]. }
  destruct Hmark as [Ho|Ho].
  - (* end marker *)
    assert (I5' : de_opt (dl_enc l') = WriteToHeader None) by congruence.
    destruct (finish_marker (dl_enc l') (dl_input_len l' + 1) add ie' src' k2 I5' I8 I9 I11 ltac:(lia) ltac:(apply AL))
      as (add2 & k3 & EF & AF & Hout & Hrng).
    cbv zeta in Hout, Hrng.
    set (imm := t_map (de_is_match (dl_enc l'))) in *.
    assert (Hp : nm_get imm (N.land (dl_input_len l' + 1) 3) 1024 = nm_get imm (N.land (nlen data) 3) 1024).
    { rewrite I4. destruct (N.eq_dec (nlen data) 0) as [Hz|Hnz].
      - rewrite Hz. rewrite !I10 by (rewrite Hz; lia). reflexivity.
      - replace (nlen data - 1 + 1) with (nlen data) by lia. reflexivity. }
    rewrite Hp in Hout, Hrng.
    exists (mkIo src' k3), (ienc_bytes (marker_ie (ienc_bit ie' (nm_get imm (N.land (nlen data) 3) 1024) true)) 0).
    split; [apply Hrun; exact EF|]. split.
    + cbn [i_snk]. rewrite <- Hout.
      assert (A : snk_app k (header o ++ add ++ add2) k3).
      { eapply snk_app_trans; [exact A0|]. eapply snk_app_trans; eassumption. }
      apply A.
    + rewrite Ho. unfold est. rewrite enc_syms_marker. cbn [es_hist h_bytes]. rewrite Hlen. fold imm.
      rewrite marker_ref by exact Hrng. rewrite Hdata. reflexivity.
  - (* no marker: the size is in the header, or the caller knows it *)
    destruct (finish_plain (dl_enc l') (dl_input_len l' + 1) add ie' src' k2 ltac:(congruence) I11 ltac:(lia) ltac:(apply AL))
      as (add2 & k3 & EF & AF & Hout).
    exists (mkIo src' k3), (ienc_bytes ie' 0).
    split; [apply Hrun; exact EF|]. split.
    + cbn [i_snk]. rewrite <- Hout.
      assert (A : snk_app k (header o ++ add ++ add2) k3).
      { eapply snk_app_trans; [exact A0|]. eapply snk_app_trans; eassumption. }
      apply A.
    + assert (Htail : match o with WriteToHeader None => [EndMarker] | _ => [] end = []).
      { destruct o as [[x|]|]; try reflexivity. congruence. }
      rewrite Htail. cbn [enc_syms_gen]. unfold est. cbn [es_hist h_bytes]. rewrite Hdata. reflexivity.
Qed.
Print Assumptions lzma_compress_conforms.

(* With the size field in the header, the whole output is the reference .lzma file *)
Corollary lzma_compress_is_enc_lzma fuel x data frag k :
  bytes data -> k_wfail k = None -> nlen data < Npos fuel -> 9 * nlen data + 50 < 4294967296 ->
  exists w' file,
    lzma_compress fuel (WriteToHeader x) (mkIo (src_of data frag None) k) = (Done tt, w') /\
    snk_bytes (i_snk w') = snk_bytes k ++ file /\
    enc_lzma (mkFProps 3 0 2) 8388608 (match x with Some v => v | None => 18446744073709551615 end)
             (lit_program (WriteToHeader x) data) 0 = Some (file, data).
Proof.
  intros Hb Hw Hfuel Hsz.
  destruct (lzma_compress_conforms fuel (WriteToHeader x) data frag k Hb Hw Hfuel Hsz) as (w' & payload & E & B & P).
  exists w', (header (WriteToHeader x) ++ payload). split; [exact E|]. split; [exact B|].
  unfold enc_lzma, enc_lzma_gen. change (N.max 8388608 4096) with 8388608. rewrite P.
  change (props_byte (mkFProps 3 0 2)) with 93. unfold header.
  destruct x as [v|]; cbn [app]; rewrite <- app_assoc; reflexivity.
Qed.
Print Assumptions lzma_compress_is_enc_lzma.

(* sanity: the statement is not vacuous - concrete runs, including the empty input with end marker
   (where lzma-rs uses pos_state 1 and the reference pos_state 0) *)
Example conform_empty_marker :
  snk_bytes (i_snk (snd (lzma_compress 10 (WriteToHeader None) (mkIo (src_of [] (fun _ => 1) None) vec_sink))))
  = header (WriteToHeader None) ++
    match enc_payload_gen false fp W (lit_program (WriteToHeader None) []) 0 with Some (p, _) => p | None => [] end.
Proof. vm_compute. reflexivity. Qed.
Example conform_abc_marker :
  let data := [97; 98; 99; 97; 98; 99; 0; 255] in
  snk_bytes (i_snk (snd (lzma_compress 20 (WriteToHeader None) (mkIo (src_of data (fun i => i + 2) None) vec_sink))))
  = header (WriteToHeader None) ++
    match enc_payload_gen false fp W (lit_program (WriteToHeader None) data) 0 with Some (p, _) => p | None => [] end.
Proof. vm_compute. reflexivity. Qed.
