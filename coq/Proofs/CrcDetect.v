(* Property C06, last sentence: the table-driven CRC-32 / CRC-64 of Model/Crc.v are affine over GF(2),
   and they detect every single-bit error and every burst error not longer than the register.

   Route.  The byte-wise, table-driven register update is the bit-serial one:
       crc_step (crc_table poly) c b = crc_bits 8 poly (c xor (b land 255))                    (crc_step_bits)
   and therefore, for a whole message,
       fold_left (crc_step (crc_table poly)) bs c = crc_bits (8 * length bs) poly (c xor lex bs) (fold_crc_bits)
   where [lex bs] is the message read as one little-endian integer (bit p of the message = bit p of lex bs).
   One bit-serial step [sh1] is GF(2)-linear on unbounded N and, on registers below 2^W where W is the width
   of the generator (2^W <= 2 * poly < 2^(W+1)), it maps non-zero registers to non-zero registers.
   Everything is by induction; nothing is computed except numerals. *)
From LZ Require Import Base.Prelude Model.Crc Proofs.MapLemmas.
From Coq Require Import ZifyBool ZifyNat ZifyN.

Ltac Zify.zify_post_hook ::= Z.div_mod_to_equations.

(* ---------- xor algebra by bits ---------- *)
Ltac xor_bits :=
  apply N.bits_inj; let k := fresh "k" in intros k;
  repeat rewrite N.lxor_spec; rewrite ?N.bits_0;
  repeat match goal with |- context [N.testbit ?x k] => generalize (N.testbit x k) end;
  intros; repeat match goal with b : bool |- _ => destruct b end; reflexivity.

Lemma lxor_cancel_l a b c : N.lxor a b = N.lxor a c -> b = c.
Proof.
  intros H. apply N.lxor_eq. replace (N.lxor b c) with (N.lxor (N.lxor a b) (N.lxor a c)) by xor_bits.
  rewrite H. apply N.lxor_nilpotent.
Qed.

Lemma land_lxor_l a b c : N.land (N.lxor a b) c = N.lxor (N.land a c) (N.land b c).
Proof.
  apply N.bits_inj. intros n. rewrite N.land_spec, !N.lxor_spec, !N.land_spec.
  destruct (N.testbit a n), (N.testbit b n), (N.testbit c n); reflexivity.
Qed.

Lemma land255_idem b : N.land (N.land b 255) 255 = N.land b 255.
Proof. rewrite <- N.land_assoc. rewrite N.land_diag. reflexivity. Qed.

Lemma land255_lt b : N.land b 255 < 256.
Proof. change 255 with (N.ones 8). rewrite N.land_ones. change (2 ^ 8) with 256. apply N.mod_lt. discriminate. Qed.

Lemma shiftr8_land255 b : N.shiftr (N.land b 255) 8 = 0.
Proof.
  rewrite N.shiftr_div_pow2. change (2 ^ 8) with 256. apply N.div_small. apply land255_lt.
Qed.

Lemma split8 c : c = N.lxor (N.land c 255) (N.shiftl (N.shiftr c 8) 8).
Proof.
  apply N.bits_inj. intros k. rewrite N.lxor_spec, N.land_spec. change 255 with (N.ones 8).
  destruct (N.ltb_spec k 8) as [L|L].
  - rewrite N.ones_spec_low by exact L. rewrite N.shiftl_spec_low by exact L.
    rewrite andb_true_r, xorb_false_r. reflexivity.
  - rewrite N.ones_spec_high by exact L. rewrite N.shiftl_spec_high' by exact L.
    rewrite N.shiftr_spec'. replace (k - 8 + 8) with k by lia. rewrite andb_false_r, xorb_false_l. reflexivity.
Qed.

Lemma lxor_lt_pow2 a b n : a < 2 ^ n -> b < 2 ^ n -> N.lxor a b < 2 ^ n.
Proof.
  intros A B. destruct (N.eq_dec (N.lxor a b) 0) as [E|E].
  - rewrite E. apply N.neq_0_lt_0. apply N.pow_nonzero. discriminate.
  - apply N.log2_lt_pow2; [lia|].
    eapply N.le_lt_trans; [apply N.log2_lxor|].
    destruct (N.eq_dec a 0) as [->|A0]; destruct (N.eq_dec b 0) as [->|B0].
    + exfalso. apply E. reflexivity.
    + rewrite N.max_r by (change (N.log2 0) with 0; lia). apply N.log2_lt_pow2; [lia|exact B].
    + rewrite N.max_l by (change (N.log2 0) with 0; lia). apply N.log2_lt_pow2; [lia|exact A].
    + apply N.max_lub_lt; apply N.log2_lt_pow2; try lia; assumption.
Qed.

(* ---------- one bit-serial step ---------- *)
Definition sh1 (poly c : N) : N := if N.odd c then N.lxor (N.shiftr c 1) poly else N.shiftr c 1.

Lemma crc_bits_S n poly c : crc_bits (S n) poly c = crc_bits n poly (sh1 poly c).
Proof. reflexivity. Qed.

Lemma odd_lxor a b : N.odd (N.lxor a b) = xorb (N.odd a) (N.odd b).
Proof. rewrite <- !N.bit0_odd. apply N.lxor_spec. Qed.

Lemma sh1_lxor poly a b : sh1 poly (N.lxor a b) = N.lxor (sh1 poly a) (sh1 poly b).
Proof.
  unfold sh1. rewrite odd_lxor, N.shiftr_lxor.
  destruct (N.odd a), (N.odd b); cbn [xorb]; xor_bits.
Qed.

Lemma crc_bits_lxor n poly : forall a b,
  crc_bits n poly (N.lxor a b) = N.lxor (crc_bits n poly a) (crc_bits n poly b).
Proof.
  induction n as [|n IH]; intros a b; [reflexivity|].
  rewrite !crc_bits_S, sh1_lxor. apply IH.
Qed.

Lemma crc_bits_0 n poly : crc_bits n poly 0 = 0.
Proof. induction n as [|n IH]; [reflexivity|]. rewrite crc_bits_S. exact IH. Qed.

Lemma crc_bits_add n m poly : forall c, crc_bits (n + m) poly c = crc_bits m poly (crc_bits n poly c).
Proof.
  induction n as [|n IH]; intros c; [reflexivity|].
  change (S n + m)%nat with (S (n + m)). rewrite !crc_bits_S. apply IH.
Qed.

(* bits above the first n pass through n steps unchanged *)
Lemma crc_bits_shiftl n poly : forall y, crc_bits n poly (N.shiftl y (N.of_nat n)) = y.
Proof.
  induction n as [|n IH]; intros y.
  - change (N.of_nat 0) with 0. rewrite N.shiftl_0_r. reflexivity.
  - rewrite crc_bits_S. rewrite Nat2N.inj_succ. unfold sh1.
    assert (O : N.odd (N.shiftl y (N.succ (N.of_nat n))) = false).
    { rewrite <- N.bit0_odd. apply N.shiftl_spec_low. lia. }
    rewrite O. rewrite N.shiftr_shiftl_l by lia.
    replace (N.succ (N.of_nat n) - 1) with (N.of_nat n) by lia. apply IH.
Qed.

Lemma crc_bits_split n poly x y :
  crc_bits n poly (N.lxor x (N.shiftl y (N.of_nat n))) = N.lxor (crc_bits n poly x) y.
Proof. rewrite crc_bits_lxor, crc_bits_shiftl. reflexivity. Qed.

(* ---------- the table ---------- *)
Lemma crc_table_build_get n poly : forall i0 m j,
  nm_get (crc_table_build n i0 poly m) j 0 =
  if (i0 <=? j) && (j <? i0 + N.of_nat n) then crc_bits 8 poly j else nm_get m j 0.
Proof.
  induction n as [|n IH]; intros i0 m j.
  - cbn [crc_table_build]. change (N.of_nat 0) with 0.
    destruct (N.leb_spec i0 j); destruct (N.ltb_spec j (i0 + 0)); cbn [andb]; try reflexivity. lia.
  - cbn [crc_table_build]. rewrite IH. rewrite Nat2N.inj_succ.
    destruct (N.leb_spec (N.succ i0) j) as [A|A]; destruct (N.ltb_spec j (N.succ i0 + N.of_nat n)) as [B|B];
      destruct (N.leb_spec i0 j) as [C|C]; destruct (N.ltb_spec j (i0 + N.succ (N.of_nat n))) as [D|D];
      cbn [andb]; try reflexivity; try lia;
      try (rewrite nm_gso by lia; reflexivity).
    assert (j = i0) by lia. subst j. rewrite nm_gss. reflexivity.
Qed.

Lemma crc_table_get poly j : j < 256 -> nm_get (crc_table poly) j 0 = crc_bits 8 poly j.
Proof.
  intros H. unfold crc_table. rewrite crc_table_build_get. change (N.of_nat 256) with 256.
  destruct (N.leb_spec 0 j); [|lia]. destruct (N.ltb_spec j (0 + 256)); [|lia]. reflexivity.
Qed.

(* the table is linear: tbl[i xor j] = tbl[i] xor tbl[j] *)
Lemma crc_table_linear poly i j : i < 256 -> j < 256 ->
  nm_get (crc_table poly) (N.lxor i j) 0 = N.lxor (nm_get (crc_table poly) i 0) (nm_get (crc_table poly) j 0).
Proof.
  intros I J. rewrite !crc_table_get; try assumption.
  - apply crc_bits_lxor.
  - change 256 with (2 ^ 8). apply lxor_lt_pow2; assumption.
Qed.

(* the byte-wise update is eight bit-serial steps *)
Lemma crc_step_bits poly c b :
  crc_step (crc_table poly) c b = crc_bits 8 poly (N.lxor c (N.land b 255)).
Proof.
  unfold crc_step. set (x := N.lxor c (N.land b 255)).
  rewrite (split8 x). change (N.shiftl (N.shiftr x 8) 8) with (N.shiftl (N.shiftr x 8) (N.of_nat 8)).
  rewrite crc_bits_split.
  rewrite <- crc_table_get by apply land255_lt.
  assert (E1 : N.land x 255 = N.land (N.lxor c b) 255).
  { unfold x. rewrite !land_lxor_l, land255_idem. reflexivity. }
  assert (E2 : N.shiftr x 8 = N.shiftr c 8).
  { unfold x. rewrite N.shiftr_lxor, shiftr8_land255. apply N.lxor_0_r. }
  rewrite E1, E2. reflexivity.
Qed.

Lemma crc_step_linear poly c1 c2 b1 b2 :
  crc_step (crc_table poly) (N.lxor c1 c2) (N.lxor b1 b2) =
  N.lxor (crc_step (crc_table poly) c1 b1) (crc_step (crc_table poly) c2 b2).
Proof.
  rewrite !crc_step_bits, <- crc_bits_lxor. f_equal. rewrite land_lxor_l. xor_bits.
Qed.

(* ---------- whole messages ---------- *)
(* the message as one little-endian integer (only the low 8 bits of each list element count) *)
Fixpoint lex (bs : list N) : N :=
  match bs with [] => 0 | b :: t => N.lxor (N.land b 255) (N.shiftl (lex t) 8) end.

Lemma fold_crc_bits poly : forall bs c,
  fold_left (crc_step (crc_table poly)) bs c = crc_bits (8 * length bs) poly (N.lxor c (lex bs)).
Proof.
  induction bs as [|b t IH]; intros c.
  - cbn [fold_left length lex]. rewrite N.lxor_0_r. reflexivity.
  - cbn [fold_left length lex]. rewrite IH, crc_step_bits.
    replace (8 * S (length t))%nat with (8 + 8 * length t)%nat by lia.
    rewrite crc_bits_add. f_equal. rewrite <- N.lxor_assoc.
    change (N.shiftl (lex t) 8) with (N.shiftl (lex t) (N.of_nat 8)). rewrite crc_bits_split. reflexivity.
Qed.

(* element-wise xor of two strings *)
Fixpoint lxor_list (a b : list N) : list N :=
  match a, b with x :: a', y :: b' => N.lxor x y :: lxor_list a' b' | _, _ => [] end.

Lemma lxor_list_length a : forall b, length a = length b -> length (lxor_list a b) = length a.
Proof.
  induction a as [|x a IH]; intros [|y b] H; cbn [lxor_list length] in *; try reflexivity; try discriminate.
  rewrite IH by lia. reflexivity.
Qed.

Lemma lxor_list_zeros a : lxor_list a (repeat 0 (length a)) = a.
Proof.
  induction a as [|x a IH]; [reflexivity|]. cbn [length repeat lxor_list]. rewrite N.lxor_0_r, IH. reflexivity.
Qed.

Lemma lxor_list_zeros_l a : lxor_list (repeat 0 (length a)) a = a.
Proof.
  induction a as [|x a IH]; [reflexivity|]. cbn [length repeat lxor_list]. rewrite N.lxor_0_l, IH. reflexivity.
Qed.

Lemma lex_lxor_list a : forall b, length a = length b -> lex (lxor_list a b) = N.lxor (lex a) (lex b).
Proof.
  induction a as [|x a IH]; intros [|y b] H; cbn [lxor_list length lex] in *; try discriminate.
  - reflexivity.
  - rewrite IH by lia. rewrite land_lxor_l, N.shiftl_lxor. xor_bits.
Qed.

Lemma lex_zeros n : lex (repeat 0 n) = 0.
Proof.
  induction n as [|n IH]; [reflexivity|]. cbn [repeat lex]. rewrite IH. reflexivity.
Qed.

(* G1, register form *)
Theorem crc_fold_linear poly a b c1 c2 : length a = length b ->
  fold_left (crc_step (crc_table poly)) (lxor_list a b) (N.lxor c1 c2) =
  N.lxor (fold_left (crc_step (crc_table poly)) a c1) (fold_left (crc_step (crc_table poly)) b c2).
Proof.
  intros L. rewrite !fold_crc_bits, lxor_list_length by exact L. rewrite <- L, <- crc_bits_lxor. f_equal.
  rewrite lex_lxor_list by exact L. xor_bits.
Qed.

(* the pure CRC: initial register 0, no final xor *)
Definition crc_pure (tbl : nmap) (bs : list N) : N := fold_left (crc_step tbl) bs 0.

Theorem crc_pure_linear poly a b : length a = length b ->
  crc_pure (crc_table poly) (lxor_list a b) = N.lxor (crc_pure (crc_table poly) a) (crc_pure (crc_table poly) b).
Proof. intros L. unfold crc_pure. rewrite <- crc_fold_linear by exact L. reflexivity. Qed.

Lemma crc_pure_bits poly e : crc_pure (crc_table poly) e = crc_bits (8 * length e) poly (lex e).
Proof. unfold crc_pure. rewrite fold_crc_bits, N.lxor_0_l. reflexivity. Qed.

(* an error pattern e adds its pure CRC to the checksum, whatever the initial and final constants *)
Lemma crc_error_shift poly init fin m e : length m = length e ->
  N.lxor (fold_left (crc_step (crc_table poly)) (lxor_list m e) init) fin =
  N.lxor (N.lxor (fold_left (crc_step (crc_table poly)) m init) fin) (crc_pure (crc_table poly) e).
Proof.
  intros L. unfold crc_pure. rewrite <- (N.lxor_0_r init) at 1. rewrite crc_fold_linear by exact L. xor_bits.
Qed.

Lemma crc_affine_gen poly init fin a b : length a = length b ->
  let crc bs := N.lxor (fold_left (crc_step (crc_table poly)) bs init) fin in
  crc (lxor_list a b) = N.lxor (N.lxor (crc a) (crc b)) (crc (repeat 0 (length a))).
Proof.
  intros L crc. unfold crc.
  rewrite crc_error_shift by exact L.
  assert (E : N.lxor (fold_left (crc_step (crc_table poly)) b init) fin =
              N.lxor (N.lxor (fold_left (crc_step (crc_table poly)) (repeat 0 (length a)) init) fin)
                     (crc_pure (crc_table poly) b)).
  { rewrite <- crc_error_shift by (rewrite repeat_length; exact L). rewrite L, lxor_list_zeros_l. reflexivity. }
  rewrite E. xor_bits.
Qed.

(* ---------- register width: non-zero registers stay non-zero ---------- *)
Section Width.
Variable W : N.
Variable poly : N.
Hypothesis poly_lt : poly < 2 ^ W.
Hypothesis poly_top : 2 ^ W <= 2 * poly.

Lemma sh1_lt c : c < 2 ^ W -> sh1 poly c < 2 ^ W.
Proof.
  intros C. unfold sh1.
  assert (S : N.shiftr c 1 < 2 ^ W).
  { rewrite N.shiftr_div_pow2. change (2 ^ 1) with 2. set (P := 2 ^ W) in *. clearbody P. lia. }
  destruct (N.odd c); [apply lxor_lt_pow2; assumption|exact S].
Qed.

Lemma sh1_nz c : c < 2 ^ W -> c <> 0 -> sh1 poly c <> 0.
Proof.
  intros C NZ. unfold sh1. destruct (N.odd c) eqn:O.
  - intros E. apply N.lxor_eq in E. revert E. rewrite N.shiftr_div_pow2. change (2 ^ 1) with 2.
    set (P := 2 ^ W) in *. clearbody P. lia.
  - rewrite N.shiftr_div_pow2. change (2 ^ 1) with 2.
    pose proof (N.bit0_mod c) as M. rewrite N.bit0_odd, O in M. cbn [N.b2n] in M. lia.
Qed.

Lemma crc_bits_lt n : forall c, c < 2 ^ W -> crc_bits n poly c < 2 ^ W.
Proof.
  induction n as [|n IH]; intros c C; [exact C|]. rewrite crc_bits_S. apply IH. apply sh1_lt. exact C.
Qed.

Lemma crc_bits_nz n : forall c, c < 2 ^ W -> c <> 0 -> crc_bits n poly c <> 0.
Proof.
  induction n as [|n IH]; intros c C NZ; [exact NZ|]. rewrite crc_bits_S.
  apply IH; [apply sh1_lt; exact C|apply sh1_nz; assumption].
Qed.

(* n bit-serial steps are injective on registers of width W *)
Lemma crc_bits_inj n c c' : c < 2 ^ W -> c' < 2 ^ W -> crc_bits n poly c = crc_bits n poly c' -> c = c'.
Proof.
  intros C C' E. apply N.lxor_eq. destruct (N.eq_dec (N.lxor c c') 0) as [Z|NZ]; [exact Z|exfalso].
  apply (crc_bits_nz n (N.lxor c c')); [apply lxor_lt_pow2; assumption|exact NZ|].
  rewrite crc_bits_lxor, E. apply N.lxor_nilpotent.
Qed.

(* feeding a zero byte is injective on registers of width W (the table-level statement of the task) *)
Lemma crc_step_zero_inj c c' : c < 2 ^ W -> c' < 2 ^ W ->
  crc_step (crc_table poly) c 0 = crc_step (crc_table poly) c' 0 -> c = c'.
Proof.
  rewrite !crc_step_bits. change (N.land 0 255) with 0. rewrite !N.lxor_0_r. apply crc_bits_inj.
Qed.

(* an error pattern whose integer value is B * 2^s with 0 < B < 2^W has a non-zero pure CRC *)
Lemma crc_pure_burst_nz e s B :
  0 < B -> B < 2 ^ W -> lex e = N.shiftl B s -> s <= 8 * nlen e ->
  crc_pure (crc_table poly) e <> 0.
Proof.
  intros B0 BW E S. rewrite crc_pure_bits, E.
  replace (8 * length e)%nat with (N.to_nat s + (8 * length e - N.to_nat s))%nat by (unfold nlen in S; lia).
  rewrite crc_bits_add.
  replace (N.shiftl B s) with (N.shiftl B (N.of_nat (N.to_nat s))) by (rewrite N2Nat.id; reflexivity).
  rewrite crc_bits_shiftl.
  apply crc_bits_nz; [exact BW|lia].
Qed.
End Width.

(* ---------- error patterns as integers ---------- *)
Lemma lex_le_bytes n : forall v, lex (le_bytes n v) = N.land v (N.ones (8 * N.of_nat n)).
Proof.
  induction n as [|n IH]; intros v.
  - cbn [le_bytes lex]. change (8 * N.of_nat 0) with 0. change (N.ones 0) with 0. rewrite N.land_0_r. reflexivity.
  - cbn [le_bytes lex]. rewrite IH, land255_idem. rewrite Nat2N.inj_succ.
    apply N.bits_inj. intros k. rewrite N.lxor_spec, !N.land_spec. change 255 with (N.ones 8).
    destruct (N.ltb_spec k 8) as [L|L].
    + rewrite N.ones_spec_low by exact L. rewrite N.shiftl_spec_low by exact L.
      rewrite N.ones_spec_low by lia. rewrite !andb_true_r, xorb_false_r. reflexivity.
    + rewrite N.ones_spec_high by exact L. rewrite N.shiftl_spec_high' by exact L.
      rewrite N.land_spec, N.shiftr_spec'. replace (k - 8 + 8) with k by lia.
      rewrite andb_false_r, xorb_false_l. f_equal.
      destruct (N.ltb_spec k (8 * N.succ (N.of_nat n))) as [M|M].
      * rewrite !N.ones_spec_low by lia. reflexivity.
      * rewrite !N.ones_spec_high by lia. reflexivity.
Qed.

Lemma lex_le_bytes_small n v : v < 2 ^ (8 * N.of_nat n) -> lex (le_bytes n v) = v.
Proof. intros H. rewrite lex_le_bytes, N.land_ones. apply N.mod_small. exact H. Qed.

Lemma le_bytes_length n : forall v, length (le_bytes n v) = n.
Proof. induction n as [|n IH]; intros v; cbn [le_bytes length]; [reflexivity|]. rewrite IH. reflexivity. Qed.

Lemma le_bytes_0 n : le_bytes n 0 = repeat 0 n.
Proof.
  induction n as [|n IH]; [reflexivity|]. cbn [le_bytes repeat].
  change (N.land 0 255) with 0. change (N.shiftr 0 8) with 0. rewrite IH. reflexivity.
Qed.

(* flipping bit (p mod 8) of byte (p / 8) *)
Fixpoint flip_at (m : list N) (i : nat) (k : N) : list N :=
  match m with
  | [] => []
  | b :: t => match i with O => N.lxor b (2 ^ k) :: t | S i' => b :: flip_at t i' k end
  end.
Definition flip_bit (m : list N) (p : N) : list N := flip_at m (N.to_nat (p / 8)) (p mod 8).

Lemma flip_bit_nil p : flip_bit [] p = [].
Proof. reflexivity. Qed.

Lemma flip_bit_cons b t p :
  flip_bit (b :: t) p = if p <? 8 then N.lxor b (2 ^ p) :: t else b :: flip_bit t (p - 8).
Proof.
  unfold flip_bit. destruct (N.ltb_spec p 8) as [L|L].
  - rewrite N.div_small by exact L. rewrite N.mod_small by exact L. reflexivity.
  - replace (p / 8) with (N.succ ((p - 8) / 8)) by lia. replace (p mod 8) with ((p - 8) mod 8) by lia.
    rewrite N2Nat.inj_succ. reflexivity.
Qed.

Lemma flip_bit_length m : forall p, length (flip_bit m p) = length m.
Proof.
  induction m as [|b t IH]; intros p; [reflexivity|]. rewrite flip_bit_cons.
  destruct (p <? 8); cbn [length]; [reflexivity|]. rewrite IH. reflexivity.
Qed.

(* a bit flip is the xor with the error pattern 2^p *)
Lemma flip_bit_lxor m : forall p, flip_bit m p = lxor_list m (le_bytes (length m) (2 ^ p)).
Proof.
  induction m as [|b t IH]; intros p; [reflexivity|].
  rewrite flip_bit_cons. cbn [length le_bytes lxor_list].
  destruct (N.ltb_spec p 8) as [L|L].
  - assert (E1 : N.land (2 ^ p) 255 = 2 ^ p).
    { change 255 with (N.ones 8). rewrite N.land_ones. apply N.mod_small. apply N.pow_lt_mono_r; [lia|exact L]. }
    assert (E2 : N.shiftr (2 ^ p) 8 = 0).
    { rewrite N.shiftr_div_pow2. apply N.div_small. apply N.pow_lt_mono_r; [lia|exact L]. }
    rewrite E1, E2, le_bytes_0, lxor_list_zeros. reflexivity.
  - assert (E1 : N.land (2 ^ p) 255 = 0).
    { change 255 with (N.ones 8). rewrite N.land_ones. replace p with (p - 8 + 8) by lia.
      rewrite N.pow_add_r. apply N.mod_mul. discriminate. }
    assert (E2 : N.shiftr (2 ^ p) 8 = 2 ^ (p - 8)).
    { rewrite N.shiftr_div_pow2. replace p with (p - 8 + 8) at 1 by lia.
      rewrite N.pow_add_r. apply N.div_mul. discriminate. }
    rewrite E1, E2, N.lxor_0_r, IH. reflexivity.
Qed.

(* ---------- generic detection ---------- *)
Section Detect.
Variable W : N.
Variable poly init fin : N.
Hypothesis poly_lt : poly < 2 ^ W.
Hypothesis poly_top : 2 ^ W <= 2 * poly.
Let crc (bs : list N) : N := N.lxor (fold_left (crc_step (crc_table poly)) bs init) fin.

(* G3: an error pattern E = B * 2^s, 0 < B < 2^W, lying inside the message *)
Lemma crc_detects_burst_gen m s B :
  0 < B -> B < 2 ^ W -> N.shiftl B s < 2 ^ (8 * nlen m) ->
  crc (lxor_list m (le_bytes (length m) (N.shiftl B s))) <> crc m.
Proof.
  intros B0 BW IN. unfold crc. rewrite crc_error_shift by (rewrite le_bytes_length; reflexivity).
  intros E. rewrite <- (N.lxor_0_r (N.lxor _ fin)) in E at 2. apply lxor_cancel_l in E.
  revert E. apply (crc_pure_burst_nz W poly poly_lt poly_top _ s B B0 BW).
  - apply lex_le_bytes_small. exact IN.
  - replace (nlen (le_bytes (length m) (N.shiftl B s))) with (nlen m)
      by (unfold nlen; rewrite le_bytes_length; reflexivity).
    assert (P : 2 ^ s < 2 ^ (8 * nlen m)).
    { eapply N.le_lt_trans; [|exact IN]. rewrite N.shiftl_mul_pow2.
      set (X := 2 ^ s). clearbody X. nia. }
    apply N.pow_lt_mono_r_iff in P; lia.
Qed.

(* G2 *)
Lemma crc_detects_single_bit_gen m p : p < 8 * nlen m -> crc (flip_bit m p) <> crc m.
Proof.
  intros P. rewrite flip_bit_lxor. rewrite <- (N.mul_1_l (2 ^ p)), <- N.shiftl_mul_pow2.
  apply crc_detects_burst_gen.
  - lia.
  - destruct (N.eq_dec W 0) as [->|NZ]; [exfalso; change (2 ^ 0) with 1 in *; lia|].
    change 1 with (2 ^ 0) at 1. apply N.pow_lt_mono_r; lia.
  - rewrite N.shiftl_mul_pow2, N.mul_1_l. apply N.pow_lt_mono_r; [lia|exact P].
Qed.
End Detect.

(* ================= the two instances of Model/Crc.v ================= *)
Lemma crc32_poly_lt : 3988292384 < 2 ^ 32. Proof. reflexivity. Qed.
Lemma crc32_poly_top : 2 ^ 32 <= 2 * 3988292384. Proof. intros H. discriminate H. Qed.
Lemma crc64_poly_lt : 14514072000185962306 < 2 ^ 64. Proof. reflexivity. Qed.
Lemma crc64_poly_top : 2 ^ 64 <= 2 * 14514072000185962306. Proof. intros H. discriminate H. Qed.

(* G1, affine form *)
Theorem crc32_affine a b : length a = length b ->
  crc32_exec (lxor_list a b) = N.lxor (N.lxor (crc32_exec a) (crc32_exec b)) (crc32_exec (repeat 0 (length a))).
Proof. intros L. exact (crc_affine_gen 3988292384 4294967295 4294967295 a b L). Qed.

Theorem crc64_affine a b : length a = length b ->
  crc64_exec (lxor_list a b) = N.lxor (N.lxor (crc64_exec a) (crc64_exec b)) (crc64_exec (repeat 0 (length a))).
Proof. intros L. exact (crc_affine_gen 14514072000185962306 18446744073709551615 18446744073709551615 a b L). Qed.

(* G1, pure form *)
Theorem crc32_pure_linear a b : length a = length b ->
  crc_pure crc32_table (lxor_list a b) = N.lxor (crc_pure crc32_table a) (crc_pure crc32_table b).
Proof. apply crc_pure_linear. Qed.
Theorem crc64_pure_linear a b : length a = length b ->
  crc_pure crc64_table (lxor_list a b) = N.lxor (crc_pure crc64_table a) (crc_pure crc64_table b).
Proof. apply crc_pure_linear. Qed.

(* an error pattern changes the checksum by its pure CRC *)
Theorem crc32_error_shift m e : length m = length e ->
  crc32_exec (lxor_list m e) = N.lxor (crc32_exec m) (crc_pure crc32_table e).
Proof. apply (crc_error_shift 3988292384 4294967295 4294967295). Qed.
Theorem crc64_error_shift m e : length m = length e ->
  crc64_exec (lxor_list m e) = N.lxor (crc64_exec m) (crc_pure crc64_table e).
Proof. apply (crc_error_shift 14514072000185962306 18446744073709551615 18446744073709551615). Qed.

(* table facts in the form suggested by the task *)
Theorem crc32_table_linear i j : i < 256 -> j < 256 ->
  nm_get crc32_table (N.lxor i j) 0 = N.lxor (nm_get crc32_table i 0) (nm_get crc32_table j 0).
Proof. apply crc_table_linear. Qed.
Theorem crc64_table_linear i j : i < 256 -> j < 256 ->
  nm_get crc64_table (N.lxor i j) 0 = N.lxor (nm_get crc64_table i 0) (nm_get crc64_table j 0).
Proof. apply crc_table_linear. Qed.
Theorem crc32_step_zero_inj c c' : c < 2 ^ 32 -> c' < 2 ^ 32 ->
  crc_step crc32_table c 0 = crc_step crc32_table c' 0 -> c = c'.
Proof. apply (crc_step_zero_inj 32 _ crc32_poly_lt crc32_poly_top). Qed.
Theorem crc64_step_zero_inj c c' : c < 2 ^ 64 -> c' < 2 ^ 64 ->
  crc_step crc64_table c 0 = crc_step crc64_table c' 0 -> c = c'.
Proof. apply (crc_step_zero_inj 64 _ crc64_poly_lt crc64_poly_top). Qed.

(* G2 *)
Theorem crc32_detects_single_bit m p : p < 8 * nlen m -> crc32_exec (flip_bit m p) <> crc32_exec m.
Proof. apply (crc_detects_single_bit_gen 32 _ 4294967295 4294967295 crc32_poly_lt crc32_poly_top). Qed.

Theorem crc64_detects_single_bit m p : p < 8 * nlen m -> crc64_exec (flip_bit m p) <> crc64_exec m.
Proof. apply (crc_detects_single_bit_gen 64 _ 18446744073709551615 18446744073709551615 crc64_poly_lt crc64_poly_top). Qed.

(* G3: the error pattern, read as a little-endian integer (bit p of the message is bit p of the integer), is
   B * 2^s with 0 < B < 2^32: all flipped bits lie in the 32 consecutive positions s .. s+31 *)
Theorem crc32_detects_burst32 m s B :
  0 < B -> B < 2 ^ 32 -> N.shiftl B s < 2 ^ (8 * nlen m) ->
  crc32_exec (lxor_list m (le_bytes (length m) (N.shiftl B s))) <> crc32_exec m.
Proof. apply (crc_detects_burst_gen 32 _ 4294967295 4294967295 crc32_poly_lt crc32_poly_top). Qed.

Theorem crc64_detects_burst64 m s B :
  0 < B -> B < 2 ^ 64 -> N.shiftl B s < 2 ^ (8 * nlen m) ->
  crc64_exec (lxor_list m (le_bytes (length m) (N.shiftl B s))) <> crc64_exec m.
Proof. apply (crc_detects_burst_gen 64 _ 18446744073709551615 18446744073709551615 crc64_poly_lt crc64_poly_top). Qed.

(* the window condition in positional form *)
Corollary crc32_detects_burst32_window m s B :
  0 < B -> B < 2 ^ 32 -> s + 32 <= 8 * nlen m ->
  crc32_exec (lxor_list m (le_bytes (length m) (N.shiftl B s))) <> crc32_exec m.
Proof.
  intros B0 BW S. apply crc32_detects_burst32; try assumption.
  rewrite N.shiftl_mul_pow2. replace (8 * nlen m) with (32 + s + (8 * nlen m - s - 32)) by lia.
  rewrite !N.pow_add_r.
  assert (P1 : 0 < 2 ^ s) by (apply N.neq_0_lt_0, N.pow_nonzero; discriminate).
  assert (P2 : 0 < 2 ^ (8 * nlen m - s - 32)) by (apply N.neq_0_lt_0, N.pow_nonzero; discriminate).
  set (X := 2 ^ s) in *. set (Y := 2 ^ (8 * nlen m - s - 32)) in *. set (Z := 2 ^ 32) in *. clearbody X Y Z.
  apply N.lt_le_trans with (Z * X); [apply N.mul_lt_mono_pos_r; assumption|].
  rewrite <- (N.mul_1_r (Z * X)) at 1. apply N.mul_le_mono_l. lia.
Qed.

Print Assumptions crc32_affine.
Print Assumptions crc64_affine.
Print Assumptions crc32_detects_single_bit.
Print Assumptions crc64_detects_single_bit.
Print Assumptions crc32_detects_burst32.
Print Assumptions crc64_detects_burst64.

(* sanity: the definitions mean what they say *)
Example flip_bit_ex : flip_bit [1; 2; 3] 9 = [1; 0; 3] /\ flip_bit [1; 2; 3] 23 = [1; 2; 131] /\ flip_bit [1; 2; 3] 24 = [1; 2; 3].
Proof. vm_compute. auto. Qed.
Example burst_ex : lxor_list [0; 0; 0; 0; 0; 0] (le_bytes 6 (N.shiftl 2147483649 5)) = [32; 0; 0; 0; 16; 0].
Proof. vm_compute. reflexivity. Qed.
