(* Property C13: the result of every one-shot decoder does not depend on how
   the reader fragments its data.  Two fault-free sources over the same bytes
   ([same_data]: equal remaining data, position and Take limit, no failing
   refill; s_avail / s_refills / s_frag may differ) give the same verdict, the
   same sink and [same_data] final sources (hence the same consumed count). *)
From LZ Require Import Base.Prelude Base.Prog Model.Io Model.Tables Model.LzBuffer Model.RangeDec Model.Lzma Model.Lzma2
  Model.Xz Proofs.ProgLemmas Proofs.IoLemmas Proofs.FragIo Proofs.FragLzma Proofs.FragLzma2.
Local Open Scope prog_scope.

(* ---------- the state monad over io ---------- *)
Definition MResp {A} (m : M io A) : Prop := forall w1 w2, sdio w1 w2 -> orel sdio (m w1) (m w2).

Lemma MResp_ret {A} (a : A) : MResp (mret a).
Proof. intros w1 w2 H. split; [reflexivity|exact H]. Qed.
Lemma MResp_fail {A} e : MResp (@mfail io A e).
Proof. intros w1 w2 H. split; [reflexivity|exact H]. Qed.
Lemma MResp_panic {A} q : MResp (@mpanic io A q).
Proof. intros w1 w2 H. split; [reflexivity|exact H]. Qed.

Lemma MResp_bind {A B} (m : M io A) (f : A -> M io B) :
  MResp m -> (forall a, MResp (f a)) -> MResp (mbind m f).
Proof.
  intros Hm Hf w1 w2 H. unfold mbind. destruct (Hm w1 w2 H) as [Hfst Hsd].
  destruct (m w1) as [r1 t1]; destruct (m w2) as [r2 t2]. cbn [fst snd] in *. subst r2.
  destruct r1 as [a|e|q]; try (split; [reflexivity|assumption]).
  apply Hf. assumption.
Qed.

Lemma MResp_io_run {A} (p : iop A) : Resp2 p -> MResp (io_run p).
Proof. intros Hp w1 w2 H. unfold io_run. apply Resp2_run_io; assumption. Qed.

(* ---------- XZ programs ---------- *)
Ltac resp2x :=
  repeat first
    [ apply Resp2_read_u8 | apply Resp2_read_u16_be | apply Resp2_read_u32_be | apply Resp2_read_u32_le
    | apply Resp2_read_u64_le | apply Resp2_read_tag | apply Resp2_write_all
    | resp2_step ].

Lemma Resp2_get_multibyte_loop n : forall i result acc, Resp2 (get_multibyte_loop n i result acc).
Proof.
  induction n as [|n IH]; intros i result acc; cbn [get_multibyte_loop]; [apply Resp2_fail|].
  apply Resp2_bind; [apply Resp2_read_u8|intros b]. cbv zeta.
  destruct (N.land b 128 =? 0); [apply Resp2_ret|apply IH].
Qed.
Lemma Resp2_get_multibyte : Resp2 get_multibyte.
Proof. apply Resp2_get_multibyte_loop. Qed.

Lemma Resp2_read_zero_padding n : forall acc, Resp2 (read_zero_padding n acc).
Proof.
  induction n as [|n IH]; intros acc; cbn [read_zero_padding]; [apply Resp2_ret|].
  apply Resp2_bind; [apply Resp2_read_u8|intros b].
  destruct (negb (b =? 0)); [apply Resp2_fail|apply IH].
Qed.

Lemma Resp2_check_records rs : forall acc, Resp2 (check_records rs acc).
Proof.
  induction rs as [|r rs IH]; intros acc; cbn [check_records]; [apply Resp2_ret|].
  apply Resp2_bind; [apply Resp2_get_multibyte|intros [u b1]].
  destruct (negb (u =? rc_unpadded r)); [apply Resp2_fail|].
  apply Resp2_bind; [apply Resp2_get_multibyte|intros [v b2]].
  destruct (negb (v =? rc_unpacked r)); [apply Resp2_fail|apply IH].
Qed.

Section WithCrc.
Variable crc32 : list N -> N.
Variable crc64 : list N -> N.

Lemma Resp2_header_parse : Resp2 (header_parse crc32).
Proof.
  unfold header_parse.
  apply Resp2_bind; [apply Resp2_read_tag|intros ok]. destruct (negb ok); [apply Resp2_fail|].
  apply Resp2_bind; [apply Resp2_read_exact|intros fl].
  apply Resp2_bind; [apply Resp2_read_u32_le|intros crc].
  destruct (negb (crc =? crc32 fl)); [apply Resp2_fail|].
  destruct fl as [|b0 [|b1 [|b2 fl]]]; try apply Resp2_panic.
  destruct (flags_parse b0 b1); resp2x.
Qed.

Lemma Resp2_check_index start records : Resp2 (check_index crc32 start records).
Proof.
  unfold check_index.
  apply Resp2_bind; [apply Resp2_get_multibyte|intros [num b0]].
  destruct (negb (num =? nlen records)); [apply Resp2_fail|].
  apply Resp2_bind; [apply Resp2_check_records|intros bs].
  apply Resp2_bind; [apply Resp2_getpos|intros pos]. cbv zeta.
  apply Resp2_bind; [apply Resp2_read_zero_padding|intros pad].
  apply Resp2_bind; [apply Resp2_read_u32_le|intros crc].
  destruct (negb (crc =? crc32 (0 :: bs ++ pad))); resp2x.
Qed.

Lemma Resp2_validate_block_check buf m : Resp2 (validate_block_check crc32 crc64 buf m).
Proof.
  unfold validate_block_check. destruct m.
  - apply Resp2_ret.
  - apply Resp2_bind; [apply Resp2_read_u32_le|intros c]. destruct (c =? crc32 buf); resp2x.
  - apply Resp2_bind; [apply Resp2_read_u64_le|intros c]. destruct (c =? crc64 buf); resp2x.
  - apply Resp2_fail.
Qed.

Lemma Resp2_xz_footer check index_size : Resp2 (xz_footer crc32 check index_size).
Proof.
  unfold xz_footer.
  apply Resp2_bind; [apply Resp2_read_u32_le|intros crc].
  apply Resp2_bind; [apply Resp2_read_exact|intros bsz]. cbv zeta.
  destruct (negb (index_size =? N.shiftl (le_num bsz + 1) 2)); [apply Resp2_fail|].
  apply Resp2_bind; [apply Resp2_read_exact|intros fl].
  destruct fl as [|b0 [|b1 [|b2 fl]]]; try apply Resp2_panic.
  destruct (flags_parse b0 b1) as [c|e|q]; [|apply Resp2_fail|apply Resp2_panic].
  destruct (negb (check_eqb check c)); [apply Resp2_fail|].
  destruct (negb (crc =? crc32 (bsz ++ [b0; b1]))); [apply Resp2_fail|].
  apply Resp2_bind; [apply Resp2_read_tag|intros ok]. destruct (negb ok); [apply Resp2_fail|].
  apply Resp2_bind; [apply Resp2_is_eof|intros e]. destruct e; resp2x.
Qed.

(* ---------- decode_filter ---------- *)
Lemma decode_filter_rel fuel f s1 s2 : same_data s1 s2 ->
  fst (decode_filter fuel f s1) = fst (decode_filter fuel f s2) /\
  same_data (snd (decode_filter fuel f s1)) (snd (decode_filter fuel f s2)).
Proof.
  intros Hsd. unfold decode_filter.
  destruct (negb (nlen (f_props f) =? 1)); [split; [reflexivity|exact Hsd]|]. cbv zeta.
  destruct (lzma2_decompress_top_rel fuel (mkIo s1 vec_sink) (mkIo s2 vec_sink)) as [Hf [Hs Hk]];
    [split; [exact Hsd|reflexivity]|].
  destruct (lzma2_decompress_top fuel (mkIo s1 vec_sink)) as [o1 y1].
  destruct (lzma2_decompress_top fuel (mkIo s2 vec_sink)) as [o2 y2].
  cbn [fst snd] in Hf, Hs, Hk. subst o2.
  assert (Ep : s_pos s1 = s_pos s2) by apply Hsd.
  assert (Ep' : s_pos (i_src y1) = s_pos (i_src y2)) by apply Hs.
  destruct o1 as [u|e|q]; cbn [fst snd]; (split; [|exact Hs]); try reflexivity.
  rewrite Hk, Ep, Ep'. reflexivity.
Qed.

(* ---------- read_block ---------- *)
Local Open Scope m_scope.

Lemma read_block_resp fuel start check hs : MResp (read_block crc32 crc64 fuel start check hs).
Proof.
  unfold read_block. destruct (hs =? 0); [apply MResp_panic|]. cbv zeta.
  apply MResp_bind; [apply MResp_io_run, Resp2_read_upto|intros hdr].
  destruct (read_block_header (N.shiftl hs 2 - 1) hdr) as [bh|e|q]; [|apply MResp_fail|apply MResp_panic].
  apply MResp_bind; [apply MResp_io_run, Resp2_read_u32_le|intros crc].
  destruct (negb (crc =? crc32 (hs :: hdr))); [apply MResp_fail|].
  apply MResp_bind.
  - destruct (bh_filters bh) as [|f0 fs]; [apply MResp_ret|].
    intros [s1 k1] [s2 k2] [Hsd Hk]. cbn [i_src i_snk] in *. subst k2.
    destruct (decode_filter_rel fuel f0 s1 s2 Hsd) as [Hf Hs].
    destruct (decode_filter fuel f0 s1) as [o1 t1]. destruct (decode_filter fuel f0 s2) as [o2 t2].
    cbn [fst snd] in Hf, Hs. subst o2.
    destruct o1 as [[packed out]|e|q]; try (split; [reflexivity|split; [exact Hs|reflexivity]]).
    cbv zeta.
    destruct (match bh_packed bh with Some e => negb (packed =? e) | None => false end);
      [split; [reflexivity|split; [exact Hs|reflexivity]]|].
    destruct (later_filters fuel fs out) as [b|e|q]; (split; [reflexivity|split; [exact Hs|reflexivity]]).
  - intros tmpbuf.
    destruct (match bh_unpacked bh with Some e => negb (nlen tmpbuf =? e) | None => false end); [apply MResp_fail|].
    apply MResp_bind; [apply MResp_io_run, Resp2_getpos|intros pos].
    apply MResp_bind; [apply MResp_io_run, Resp2_read_zero_padding|intros pad].
    apply MResp_bind; [apply MResp_io_run, Resp2_validate_block_check|intros u1].
    apply MResp_bind; [apply MResp_io_run, Resp2_write_all|intros u2].
    apply MResp_bind; [apply MResp_io_run, Resp2_getpos|intros pos2].
    destruct (pos2 - start <? padding_of (pos - start)); [apply MResp_panic|apply MResp_ret].
Qed.

(* ---------- the block loop ---------- *)
Definition xst_rel (x1 x2 : list record * io) : Prop := fst x1 = fst x2 /\ sdio (snd x1) (snd x2).

Definition xstep_rel (b1 b2 : step (list record * io) (outcome N * io)) : Prop :=
  match b1, b2 with
  | Next t1, Next t2 => xst_rel t1 t2
  | Break r1, Break r2 => orel sdio r1 r2
  | _, _ => False
  end.

Lemma xz_body_rel fuel check x1 x2 : xst_rel x1 x2 ->
  xstep_rel (xz_body crc32 crc64 fuel check x1) (xz_body crc32 crc64 fuel check x2).
Proof.
  destruct x1 as [records w1], x2 as [records2 w2]. intros [E H]. cbn [fst snd] in *. subst records2.
  unfold xz_body. cbv zeta.
  assert (Ep : s_pos (i_src w1) = s_pos (i_src w2)) by apply H. rewrite <- Ep.
  destruct (Resp2_run_io read_u8 Resp2_read_u8 w1 w2 H) as [Hf Hs].
  destruct (run_io read_u8 w1) as [o1 y1]. destruct (run_io read_u8 w2) as [o2 y2].
  cbn [fst snd] in Hf, Hs. subst o2.
  destruct o1 as [hs|e|q]; try (unfold xstep_rel, orel; cbn [fst snd]; split; [reflexivity|assumption]).
  destruct (hs =? 0).
  - destruct (Resp2_run_io _ (Resp2_check_index (s_pos (i_src w1)) (lrev records)) y1 y2 Hs) as [Gf Gs].
    destruct (run_io _ y1) as [r1 z1]. destruct (run_io _ y2) as [r2 z2].
    cbn [fst snd] in Gf, Gs. subst r2.
    destruct r1 as [u|e|q]; unfold xstep_rel, orel; cbn [fst snd]; (split; [|assumption]); try reflexivity.
    assert (Ep' : s_pos (i_src z1) = s_pos (i_src z2)) by apply Gs. rewrite Ep'. reflexivity.
  - destruct (read_block_resp fuel (s_pos (i_src w1)) check hs y1 y2 Hs) as [Gf Gs].
    destruct (read_block _ _ _ _ _ _ y1) as [r1 z1]. destruct (read_block _ _ _ _ _ _ y2) as [r2 z2].
    cbn [fst snd] in Gf, Gs. subst r2.
    destruct r1 as [r|e|q]; unfold xstep_rel, orel, xst_rel; cbn [fst snd]; (split; [reflexivity|assumption]).
Qed.

Theorem xz_decompress_resp fuel : MResp (xz_decompress crc32 crc64 fuel).
Proof.
  unfold xz_decompress. apply MResp_bind; [apply MResp_io_run, Resp2_header_parse|intros check].
  intros w1 w2 H.
  pose proof (loopN_sim (xz_body crc32 crc64 fuel check) (xz_body crc32 crc64 fuel check) xst_rel (orel sdio)
                (xz_body_rel fuel check) fuel ([], w1) ([], w2) (conj eq_refl H)) as L.
  destruct (loopN fuel (xz_body crc32 crc64 fuel check) ([], w1)) as [[rs1 t1]|[o1 y1]];
    destruct (loopN fuel (xz_body crc32 crc64 fuel check) ([], w2)) as [[rs2 t2]|[o2 y2]]; try contradiction.
  - destruct L as [_ L]. split; [reflexivity|exact L].
  - destruct L as [Hf Hs]. cbn [fst snd] in Hf, Hs. subst o2.
    destruct o1 as [isz|e|q]; try (split; [reflexivity|assumption]).
    apply Resp2_run_io; [apply Resp2_xz_footer|assumption].
Qed.

(* ---------- the main theorems ---------- *)
Theorem xz_frag_indep fuel w1 w2 :
  same_data (i_src w1) (i_src w2) -> i_snk w1 = i_snk w2 ->
  fst (xz_decompress crc32 crc64 fuel w1) = fst (xz_decompress crc32 crc64 fuel w2) /\
  i_snk (snd (xz_decompress crc32 crc64 fuel w1)) = i_snk (snd (xz_decompress crc32 crc64 fuel w2)) /\
  same_data (i_src (snd (xz_decompress crc32 crc64 fuel w1))) (i_src (snd (xz_decompress crc32 crc64 fuel w2))).
Proof.
  intros Hsd Hk. destruct (xz_decompress_resp fuel w1 w2 (conj Hsd Hk)) as [Hf [Hs Hk']].
  split; [exact Hf|]. split; [exact Hk'|exact Hs].
Qed.

End WithCrc.

Theorem lzma_frag_indep fuel o w1 w2 :
  same_data (i_src w1) (i_src w2) -> i_snk w1 = i_snk w2 ->
  fst (lzma_decompress fuel o w1) = fst (lzma_decompress fuel o w2) /\
  i_snk (snd (lzma_decompress fuel o w1)) = i_snk (snd (lzma_decompress fuel o w2)) /\
  same_data (i_src (snd (lzma_decompress fuel o w1))) (i_src (snd (lzma_decompress fuel o w2))).
Proof.
  intros Hsd Hk. destruct (lzma_decompress_rel fuel o w1 w2 (conj Hsd Hk)) as [Hf [Hs Hk']].
  split; [exact Hf|]. split; [exact Hk'|exact Hs].
Qed.

Theorem lzma2_frag_indep fuel w1 w2 :
  same_data (i_src w1) (i_src w2) -> i_snk w1 = i_snk w2 ->
  fst (lzma2_decompress_top fuel w1) = fst (lzma2_decompress_top fuel w2) /\
  i_snk (snd (lzma2_decompress_top fuel w1)) = i_snk (snd (lzma2_decompress_top fuel w2)) /\
  same_data (i_src (snd (lzma2_decompress_top fuel w1))) (i_src (snd (lzma2_decompress_top fuel w2))).
Proof.
  intros Hsd Hk. destruct (lzma2_decompress_top_rel fuel w1 w2 (conj Hsd Hk)) as [Hf [Hs Hk']].
  split; [exact Hf|]. split; [exact Hk'|exact Hs].
Qed.

(* same_data final sources have consumed the same number of bytes *)
Lemma same_data_pos s1 s2 : same_data s1 s2 -> s_pos s1 = s_pos s2.
Proof. intros H. apply H. Qed.

(* the usual instance: the same bytes behind two different fragmentation functions *)
Lemma src_of_same_data data frag1 frag2 : same_data (src_of data frag1 None) (src_of data frag2 None).
Proof.
  unfold same_data, FaultFreeL, src_of. cbn [s_rest s_pos s_limit s_fail s_avail].
  repeat split; apply N.le_0_l.
Qed.

Corollary lzma_frag_indep_src_of fuel o data frag1 frag2 k :
  let r1 := lzma_decompress fuel o (mkIo (src_of data frag1 None) k) in
  let r2 := lzma_decompress fuel o (mkIo (src_of data frag2 None) k) in
  fst r1 = fst r2 /\ i_snk (snd r1) = i_snk (snd r2) /\ s_pos (i_src (snd r1)) = s_pos (i_src (snd r2)).
Proof.
  cbv zeta.
  destruct (lzma_frag_indep fuel o (mkIo (src_of data frag1 None) k) (mkIo (src_of data frag2 None) k)
              (src_of_same_data data frag1 frag2) eq_refl) as (H1 & H2 & H3).
  split; [exact H1|]. split; [exact H2|]. apply same_data_pos. exact H3.
Qed.

Corollary lzma2_frag_indep_src_of fuel data frag1 frag2 k :
  let r1 := lzma2_decompress_top fuel (mkIo (src_of data frag1 None) k) in
  let r2 := lzma2_decompress_top fuel (mkIo (src_of data frag2 None) k) in
  fst r1 = fst r2 /\ i_snk (snd r1) = i_snk (snd r2) /\ s_pos (i_src (snd r1)) = s_pos (i_src (snd r2)).
Proof.
  cbv zeta.
  destruct (lzma2_frag_indep fuel (mkIo (src_of data frag1 None) k) (mkIo (src_of data frag2 None) k)
              (src_of_same_data data frag1 frag2) eq_refl) as (H1 & H2 & H3).
  split; [exact H1|]. split; [exact H2|]. apply same_data_pos. exact H3.
Qed.

Corollary xz_frag_indep_src_of crc32 crc64 fuel data frag1 frag2 k :
  let r1 := xz_decompress crc32 crc64 fuel (mkIo (src_of data frag1 None) k) in
  let r2 := xz_decompress crc32 crc64 fuel (mkIo (src_of data frag2 None) k) in
  fst r1 = fst r2 /\ i_snk (snd r1) = i_snk (snd r2) /\ s_pos (i_src (snd r1)) = s_pos (i_src (snd r2)).
Proof.
  cbv zeta.
  destruct (xz_frag_indep crc32 crc64 fuel (mkIo (src_of data frag1 None) k) (mkIo (src_of data frag2 None) k)
              (src_of_same_data data frag1 frag2) eq_refl) as (H1 & H2 & H3).
  split; [exact H1|]. split; [exact H2|]. apply same_data_pos. exact H3.
Qed.

Print Assumptions lzma_frag_indep.
Print Assumptions lzma2_frag_indep.
Print Assumptions xz_frag_indep.
Print Assumptions lzma_frag_indep_src_of.
Print Assumptions lzma2_frag_indep_src_of.
Print Assumptions xz_frag_indep_src_of.
