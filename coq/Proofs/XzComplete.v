(* Property C03: the XZ container decoder accepts every well-formed supported
   file - the converse of Proofs/XzSound.v (xz_decompress_sound).

   The declarative predicates of XzSound.v (header_bytes_ok, index_bytes_ok,
   footer_bytes_ok, check_field, mb_decodes, rec_enc, blk, blk_bytes, blk_record)
   are reused unchanged.  For blocks we use [blk_wf], which differs from
   [blk_ok] of XzSound.v in one clause only: where blk_ok says "decode_filter
   succeeded on SOME source s1 whose remaining data starts with the payload",
   blk_wf says "decode_filter succeeds on EVERY fault-free source whose
   remaining data starts with the payload".  (blk_ok speaks about one run and
   its witness source may be faulty / positioned elsewhere / followed by other
   bytes, so it cannot be used directly for a converse.)
   Proofs/XzCompleteLink.v proves  blk_ok -> blk_wf  when the witness source of
   blk_ok is fault-free (tail and position independence of the LZMA2 decoder).

   Everything is proved for an arbitrary fragmentation of the source
   (FaultFree: no failing refill, no Take limit) and an arbitrary short-writing
   sink that does not fail (k_wfail = None, any k_accept). *)
From LZ Require Import Base.Prelude Base.Prog Model.Io Model.Tables Model.LzBuffer Model.RangeDec
  Model.Lzma Model.Lzma2 Model.Crc Model.Xz Proofs.ProgLemmas Proofs.IoLemmas Proofs.FragIo
  Proofs.FragLzma Proofs.FragLzma2 Proofs.FragIndep Proofs.IoInv Proofs.SrcMono Proofs.XzSound.
From LZ Require Proofs.EncCarry.
From Coq Require Import ZifyBool ZifyNat ZifyN.
Local Open Scope prog_scope.

Ltac Zify.zify_post_hook ::= Z.div_mod_to_equations.

(* ---------- small list facts ---------- *)
Lemma app_eq_len {A} : forall (c c' t t' : list A), length c = length c' -> c ++ t = c' ++ t' -> c = c' /\ t = t'.
Proof.
  induction c as [|x c IH]; intros [|y c'] t t' L E; cbn [length] in L; try discriminate L.
  - cbn [app] in E. auto.
  - cbn [app] in E. inversion E; subst. destruct (IH c' t t') as (-> & ->); [lia|assumption|auto].
Qed.

Lemma nlen_len_eq {A B} (l : list A) (l' : list B) : nlen l = nlen l' -> length l = length l'.
Proof. unfold nlen. lia. Qed.

Lemma len_nlen {A} (l : list A) n : length l = n -> nlen l = N.of_nat n.
Proof. unfold nlen. intros ->. reflexivity. Qed.

(* ---------- reading known bytes from a fault-free source ---------- *)
(* [rd p p0 a c]: started at position [p0] on any fault-free source whose remaining
   data begins with [c], whatever its fragmentation and whatever the sink, the program
   [p] returns [a], consumes exactly [c] and leaves a fault-free source *)
Definition rd {A} (p : iop A) (p0 : N) (a : A) (c : list N) : Prop :=
  forall s t, FaultFree s -> s_pos s = p0 -> s_rest s = c ++ t ->
    exists s', io_runs p s (Done a) s' /\ s_rest s' = t /\ s_pos s' = p0 + nlen c /\ FaultFree s'.

(* the same, for a program that ends by observing the end of the input *)
Definition rde {A} (p : iop A) (p0 : N) (a : A) (c : list N) : Prop :=
  forall s, FaultFree s -> s_pos s = p0 -> s_rest s = c ->
    exists s', io_runs p s (Done a) s' /\ s_rest s' = [] /\ s_pos s' = p0 + nlen c /\ FaultFree s'.

Lemma rd_ret {A} (a a' : A) p0 : a = a' -> rd (Ret a) p0 a' [].
Proof.
  intros <- s t Hs Hp Hr. exists s. split; [apply io_runs_ret|]. split; [exact Hr|].
  split; [rewrite IoInv.nlen_nil; lia|exact Hs].
Qed.

Lemma rd_bind {A B} (p : iop A) (f : A -> iop B) p0 a c1 b c2 c :
  rd p p0 a c1 -> rd (f a) (p0 + nlen c1) b c2 -> c = c1 ++ c2 -> rd (bind p f) p0 b c.
Proof.
  intros H1 H2 -> s t Hs Hp Hr. rewrite <- app_assoc in Hr.
  destruct (H1 s (c2 ++ t) Hs Hp Hr) as (s1 & R1 & E1 & P1 & F1).
  destruct (H2 s1 t F1 P1 E1) as (s2 & R2 & E2 & P2 & F2).
  exists s2. split; [eapply io_runs_bind; eassumption|]. split; [exact E2|]. split; [|exact F2].
  rewrite P2, IoInv.nlen_app. lia.
Qed.

Lemma rd_bind0 {A B} (p : iop A) (f : A -> iop B) p0 a b c :
  rd p p0 a [] -> rd (f a) p0 b c -> rd (bind p f) p0 b c.
Proof.
  intros H1 H2. eapply rd_bind; [exact H1| |reflexivity].
  replace (p0 + nlen (@nil N)) with p0 by (rewrite IoInv.nlen_nil; lia). exact H2.
Qed.

Lemma rde_bind {A B} (p : iop A) (f : A -> iop B) p0 a c1 b c2 c :
  rd p p0 a c1 -> rde (f a) (p0 + nlen c1) b c2 -> c = c1 ++ c2 -> rde (bind p f) p0 b c.
Proof.
  intros H1 H2 -> s Hs Hp Hr.
  destruct (H1 s c2 Hs Hp Hr) as (s1 & R1 & E1 & P1 & F1).
  destruct (H2 s1 F1 P1 E1) as (s2 & R2 & E2 & P2 & F2).
  exists s2. split; [eapply io_runs_bind; eassumption|]. split; [exact E2|]. split; [|exact F2].
  rewrite P2, IoInv.nlen_app. lia.
Qed.

Lemma rd_exact n p0 bs : nlen bs = n -> rd (read_exact n) p0 bs bs.
Proof.
  intros L s t Hs Hp Hr. destruct (io_read_exact_spec s bs t n Hs Hr L) as (s' & R & E & P & F).
  exists s'. split; [exact R|]. split; [exact E|]. split; [|exact F]. rewrite P, Hp, L. reflexivity.
Qed.

Lemma rd_u8 p0 b : rd read_u8 p0 b [b].
Proof.
  unfold read_u8. eapply rd_bind; [apply (rd_exact 1 p0 [b]); reflexivity| |symmetry; apply app_nil_r].
  apply rd_ret. reflexivity.
Qed.

Lemma rd_u32_le p0 bs : length bs = 4%nat -> rd read_u32_le p0 (le_num bs) bs.
Proof.
  intros L. unfold read_u32_le.
  eapply rd_bind; [apply (rd_exact 4 p0 bs); apply (len_nlen _ _ L)| |symmetry; apply app_nil_r].
  apply rd_ret. reflexivity.
Qed.

Lemma rd_u64_le p0 bs : length bs = 8%nat -> rd read_u64_le p0 (le_num bs) bs.
Proof.
  intros L. unfold read_u64_le.
  eapply rd_bind; [apply (rd_exact 8 p0 bs); apply (len_nlen _ _ L)| |symmetry; apply app_nil_r].
  apply rd_ret. reflexivity.
Qed.

Lemma rd_tag p0 tag : rd (read_tag tag) p0 true tag.
Proof.
  unfold read_tag. eapply rd_bind; [apply (rd_exact (nlen tag) p0 tag); reflexivity| |symmetry; apply app_nil_r].
  apply rd_ret. destruct (list_eq_dec N.eq_dec tag tag) as [_|NE]; [reflexivity|exfalso; apply NE; reflexivity].
Qed.

Lemma rd_getpos p0 : rd (icall GetPos) p0 p0 [].
Proof.
  intros s t Hs Hp Hr. exists s. split.
  - intros k. rewrite getpos_spec. cbn [i_src]. rewrite Hp. reflexivity.
  - split; [exact Hr|]. split; [rewrite IoInv.nlen_nil; lia|exact Hs].
Qed.

(* read_upto on a source that holds at least [n] more bytes returns exactly [n] bytes
   (in general: min n (remaining), see read_upto_spec below) *)
Lemma read_upto_spec s n : FaultFree s ->
  exists s', io_runs (read_upto n) s (Done (nfirstn (N.min n (nlen (s_rest s))) (s_rest s))) s' /\
    s_rest s' = nskipn (N.min n (nlen (s_rest s))) (s_rest s) /\
    s_pos s' = s_pos s + N.min n (nlen (s_rest s)) /\ FaultFree s'.
Proof.
  intros Hs. destruct (read_upto2 s n (FaultFree_L s Hs)) as (s' & R & A1 & A2 & A3 & A4).
  assert (EL : s_limit s = None) by apply Hs.
  assert (EC : cap s = nlen (s_rest s)) by (unfold cap; rewrite EL; reflexivity).
  rewrite EC in *. exists s'. split.
  - intros k. unfold run_io. rewrite interp_interp2, R. reflexivity.
  - split; [exact A1|]. split; [exact A2|]. apply FaultFreeL_None; [exact A4|].
    rewrite A3. apply lim_sub_None. exact EL.
Qed.

Lemma rd_upto n p0 bs : nlen bs = n -> rd (read_upto n) p0 bs bs.
Proof.
  intros L s t Hs Hp Hr. destruct (read_upto_spec s n Hs) as (s' & R & E & P & F).
  assert (M : N.min n (nlen (s_rest s)) = nlen bs) by (rewrite Hr, IoInv.nlen_app; lia).
  rewrite M in *. rewrite Hr in R, E.
  rewrite nfirstn_app_le, nfirstn_all in R by lia. rewrite nskipn_app_le, nskipn_all in E by lia.
  exists s'. split; [exact R|]. split; [exact E|]. split; [|exact F]. rewrite P, Hp. reflexivity.
Qed.

(* is_eof at the end of the data *)
Lemma rde_eof p0 : rde (e <- is_eof ;; if e then Ret tt else Fail EXz) p0 tt [].
Proof.
  intros s Hs Hp Hr. destruct (io_is_eof_spec s Hs) as (s' & R & E & P & F). rewrite Hr in R.
  exists s'. split.
  - eapply io_runs_bind; [exact R|]. apply io_runs_ret.
  - split; [rewrite E; exact Hr|]. split; [|exact F]. rewrite P, Hp, IoInv.nlen_nil. lia.
Qed.

(* ---------- multibyte integers: every 1-9 byte encoding (minimal or not) is accepted ---------- *)
Lemma rd_mb_loop c : mb_shape c -> forall n i res acc p0, (length c <= n)%nat ->
  rd (get_multibyte_loop n i res acc) p0 (N.lxor res (mb_val i c), lrev acc ++ c) c.
Proof.
  induction 1 as [b E|b c E S IH]; intros n i res acc p0 L;
    (destruct n as [|n]; cbn [length] in L; [lia|]); cbn [get_multibyte_loop].
  - eapply rd_bind; [apply rd_u8| |reflexivity]. cbv zeta.
    rewrite (proj2 (N.eqb_eq _ _) E). apply rd_ret.
    cbn [mb_val]. rewrite N.lxor_0_r, lrev_cons_app. reflexivity.
  - eapply rd_bind; [apply rd_u8| |reflexivity]. cbv zeta.
    rewrite (proj2 (N.eqb_neq _ _) E).
    replace (N.lxor res (mb_val i (b :: c)), lrev acc ++ b :: c)
      with (N.lxor (N.lxor res (M64 (N.shiftl (N.land b 127) (i * 7)))) (mb_val (i + 1) c), lrev (b :: acc) ++ c).
    + apply IH. lia.
    + cbn [mb_val]. rewrite N.lxor_assoc, lrev_cons_app, <- app_assoc. reflexivity.
Qed.

Lemma get_multibyte_complete bs v p0 : mb_decodes bs v -> rd get_multibyte p0 (v, bs) bs.
Proof.
  intros (S & L & ->). unfold get_multibyte.
  pose proof (rd_mb_loop bs S 9 0 0 [] p0 L) as H. rewrite N.lxor_0_l in H. exact H.
Qed.

(* ---------- zero padding ---------- *)
Lemma rd_zero_padding n : forall acc p0,
  rd (read_zero_padding n acc) p0 (lrev acc ++ repeat 0 n) (repeat 0 n).
Proof.
  induction n as [|n IH]; intros acc p0; cbn [read_zero_padding repeat].
  - apply rd_ret. symmetry. apply app_nil_r.
  - eapply (rd_bind _ _ p0 0 [0]); [apply rd_u8| |reflexivity].
    change (0 =? 0) with true. cbn [negb].
    replace (lrev acc ++ 0 :: repeat 0 n) with (lrev (0 :: acc) ++ repeat 0 n); [apply IH|].
    rewrite lrev_cons_app, <- app_assoc. reflexivity.
Qed.

(* ---------- index records ---------- *)
Lemma check_records_complete rs : forall cs acc p0, Forall2 rec_enc rs cs ->
  rd (check_records rs acc) p0 (acc ++ concat cs) (concat cs).
Proof.
  induction rs as [|r rs IH]; intros cs acc p0 F; inversion F as [|r' c rs' cs' RE F']; subst; cbn [check_records concat].
  - apply rd_ret. symmetry. apply app_nil_r.
  - destruct RE as (b1 & b2 & -> & M1 & M2).
    eapply rd_bind; [apply (get_multibyte_complete b1 _ p0 M1)| |rewrite <- app_assoc; reflexivity].
    cbv beta iota. rewrite N.eqb_refl. cbn [negb].
    eapply rd_bind; [apply (get_multibyte_complete b2 _ _ M2)| |reflexivity].
    cbv beta iota. rewrite N.eqb_refl. cbn [negb].
    replace (acc ++ (b1 ++ b2) ++ concat cs') with ((acc ++ b1 ++ b2) ++ concat cs') by (rewrite <- !app_assoc; reflexivity).
    apply IH. exact F'.
Qed.

Section WithCrc.
Variable crc32 : list N -> N.
Variable crc64 : list N -> N.

(* ================= stream header ================= *)
Theorem header_parse_complete ck h p0 : header_bytes_ok crc32 ck h -> rd (header_parse crc32) p0 ck h.
Proof.
  intros (b1 & cb & -> & L & E & C). unfold header_parse.
  eapply rd_bind; [apply rd_tag| |reflexivity]. cbn [negb].
  eapply rd_bind; [apply (rd_exact 2 _ [0; b1]); reflexivity| |reflexivity].
  eapply rd_bind; [apply rd_u32_le; exact L| |symmetry; apply app_nil_r].
  rewrite E, N.eqb_refl. cbn [negb]. unfold flags_parse. change (0 =? 0) with true. cbn [negb]. rewrite C.
  apply rd_ret. reflexivity.
Qed.

(* ================= stream footer ================= *)
Theorem xz_footer_complete ck isz f p0 : footer_bytes_ok crc32 ck isz f -> rde (xz_footer crc32 ck isz) p0 tt f.
Proof.
  intros (cb & bs & b1 & -> & L1 & L2 & EI & C & EC). unfold xz_footer.
  eapply rde_bind; [apply rd_u32_le; exact L1| |reflexivity].
  eapply rde_bind; [apply (rd_exact 4 _ bs); apply (len_nlen _ _ L2)| |reflexivity]. cbv zeta.
  replace (isz =? N.shiftl (le_num bs + 1) 2) with true
    by (symmetry; apply N.eqb_eq; rewrite EI, N.shiftl_mul_pow2; change (2 ^ 2) with 4; lia).
  cbn [negb].
  eapply rde_bind; [apply (rd_exact 2 _ [0; b1]); reflexivity| |reflexivity].
  unfold flags_parse. change (0 =? 0) with true. cbn [negb]. rewrite C.
  unfold check_eqb. rewrite N.eqb_refl. cbn [negb]. rewrite EC, N.eqb_refl. cbn [negb].
  eapply rde_bind; [apply rd_tag| |symmetry; apply app_nil_r]. cbn [negb].
  apply rde_eof.
Qed.

(* ================= index ================= *)
(* [start] is the position of the index indicator byte (already consumed); the bytes given are
   the index without that byte *)
Theorem check_index_complete start records b0 cs pad cb :
  mb_decodes b0 (nlen records) -> Forall2 rec_enc records cs ->
  pad = repeat 0 (N.to_nat (padding_of (nlen (0 :: b0 ++ concat cs)))) ->
  length cb = 4%nat -> le_num cb = crc32 (0 :: b0 ++ concat cs ++ pad) ->
  rd (check_index crc32 start records) (start + 1) tt (b0 ++ concat cs ++ pad ++ cb).
Proof.
  intros M F -> L EC. unfold check_index.
  eapply rd_bind; [apply (get_multibyte_complete b0 _ _ M)| |reflexivity].
  cbv beta iota. rewrite N.eqb_refl. cbn [negb].
  eapply rd_bind; [apply (check_records_complete records cs b0 _ F)| |reflexivity].
  eapply rd_bind0; [apply rd_getpos|]. cbv zeta.
  replace (start + 1 + nlen b0 + nlen (concat cs) - start) with (nlen (0 :: b0 ++ concat cs))
    by (rewrite IoInv.nlen_cons, IoInv.nlen_app; lia).
  eapply rd_bind; [apply (rd_zero_padding _ [])| |reflexivity].
  change (lrev [] ++ ?x) with x.
  eapply rd_bind; [apply rd_u32_le; exact L| |symmetry; apply app_nil_r].
  rewrite EC, <- app_assoc, N.eqb_refl. cbn [negb]. apply rd_ret. reflexivity.
Qed.

Corollary check_index_complete_bytes start records idx : index_bytes_ok crc32 records idx ->
  exists rest, idx = 0 :: rest /\ rd (check_index crc32 start records) (start + 1) tt rest.
Proof.
  intros (b0 & cs & pad & cb & -> & M & F & EP & L & EC). eexists. split; [reflexivity|].
  apply check_index_complete; assumption.
Qed.

(* ================= block check ================= *)
Lemma validate_block_check_complete ck out chk p0 : check_field crc32 crc64 ck out chk ->
  rd (validate_block_check crc32 crc64 out ck) p0 tt chk.
Proof.
  unfold check_field, validate_block_check. destruct ck.
  - intros ->. apply rd_ret. reflexivity.
  - intros (L & E). eapply rd_bind; [apply rd_u32_le; exact L| |symmetry; apply app_nil_r].
    rewrite E, N.eqb_refl. apply rd_ret. reflexivity.
  - intros (L & E). eapply rd_bind; [apply rd_u64_le; exact L| |symmetry; apply app_nil_r].
    rewrite E, N.eqb_refl. apply rd_ret. reflexivity.
  - intros [].
Qed.

(* ================= blocks ================= *)
(* blk_ok of XzSound.v with the decoder clause quantified over every fault-free source that
   carries the payload next (any fragmentation, any position, any bytes behind it) *)
Definition blk_wf (fuel : positive) (ck : check_method) (b : blk) : Prop :=
  b_hs b <> 0 /\
  nlen (b_hdr b) = 4 * b_hs b - 1 /\
  length (b_hcrc b) = 4%nat /\ le_num (b_hcrc b) = crc32 (b_hs b :: b_hdr b) /\
  (exists bh f0 fs out0,
     read_block_header (4 * b_hs b - 1) (b_hdr b) = Done bh /\ bh_filters bh = f0 :: fs /\
     (forall s t, FaultFree s -> s_rest s = b_payload b ++ t ->
        exists s', decode_filter fuel f0 s = (Done (nlen (b_payload b), out0), s')) /\
     later_filters fuel fs out0 = Done (b_out b) /\
     (forall e, bh_packed bh = Some e -> nlen (b_payload b) = e) /\
     (forall e, bh_unpacked bh = Some e -> nlen (b_out b) = e)) /\
  b_pad b = repeat 0 (N.to_nat (padding_of (nlen (b_hs b :: b_hdr b ++ b_hcrc b ++ b_payload b)))) /\
  check_field crc32 crc64 ck (b_out b) (b_chk b).

(* what a successful decode_filter leaves behind on a fault-free source *)
Lemma decode_filter_ff fuel f s c t packed out s' :
  FaultFree s -> s_rest s = c ++ t -> nlen c = packed ->
  decode_filter fuel f s = (Done (packed, out), s') ->
  FaultFree s' /\ s_rest s' = t /\ s_pos s' = s_pos s + packed.
Proof.
  intros Hs Hr L H.
  pose proof (decode_filter_rel fuel f s s (same_data_refl s (FaultFree_L s Hs))) as (_ & SD).
  rewrite H in SD. cbn [snd] in SD. destruct SD as (_ & _ & _ & FL & _).
  apply (decode_filter_inv crc32 crc64) in H. destruct H as (c' & w & (AR & AP & AL) & EP & _).
  rewrite Hr in AR. destruct (app_eq_len c c' t (s_rest s')) as (<- & <-).
  - apply nlen_len_eq. congruence.
  - exact AR.
  - split; [|split; [reflexivity|rewrite AP; congruence]].
    apply FaultFreeL_None; [exact FL|]. apply AL. apply Hs.
Qed.

Local Open Scope m_scope.

Lemma io_run_runs {A} (p : iop A) s k a s' : io_runs p s (Done a) s' -> io_run p (mkIo s k) = (Done a, mkIo s' k).
Proof. intros H. apply H. Qed.

(* [start] is the position of the block-header-size byte, which xz_body has consumed already *)
Theorem read_block_complete fuel ck b start w t :
  blk_wf fuel ck b -> FaultFree (i_src w) -> k_wfail (i_snk w) = None ->
  s_pos (i_src w) = start + 1 ->
  s_rest (i_src w) = b_hdr b ++ b_hcrc b ++ b_payload b ++ b_pad b ++ b_chk b ++ t ->
  exists w', read_block crc32 crc64 fuel start ck (b_hs b) w = (Done (blk_record b), w') /\
    FaultFree (i_src w') /\ k_wfail (i_snk w') = None /\
    s_rest (i_src w') = t /\ s_pos (i_src w') = start + nlen (blk_bytes b) /\
    snk_bytes (i_snk w') = snk_bytes (i_snk w) ++ b_out b.
Proof.
  destruct b as [hs hdr hcrc payload pad chk out]. destruct w as [s k].
  unfold blk_wf, blk_record, blk_bytes. cbn [b_hs b_hdr b_hcrc b_payload b_pad b_chk b_out i_src i_snk].
  intros (HS0 & LH & LC & EC & (bh & f0 & fs & out0 & EBH & EF & DF & ELF & PK & UP) & EPAD & CF) Hs Hk Hp Hr.
  unfold read_block. rewrite (proj2 (N.eqb_neq _ _) HS0). cbv zeta.
  replace (N.shiftl hs 2 - 1) with (4 * hs - 1) by (rewrite N.shiftl_mul_pow2; change (2 ^ 2) with 4; lia).
  (* header bytes *)
  destruct (rd_upto (4 * hs - 1) (start + 1) hdr LH s _ Hs Hp Hr) as (s1 & R1 & E1 & P1 & F1).
  rewrite (mbind_done _ _ _ (io_run_runs _ _ k _ _ R1)). rewrite EBH.
  (* header CRC *)
  destruct (rd_u32_le (start + 1 + nlen hdr) hcrc LC s1 _ F1 P1 E1) as (s2 & R2 & E2 & P2 & F2).
  rewrite (mbind_done _ _ _ (io_run_runs _ _ k _ _ R2)). rewrite EC, N.eqb_refl. cbn [negb].
  (* the filter chain *)
  destruct (DF s2 _ F2 E2) as (s3 & EDF).
  destruct (decode_filter_ff _ _ _ _ _ _ _ _ F2 E2 eq_refl EDF) as (F3 & E3 & P3).
  rewrite EF.
  match goal with |- exists w', mbind ?m ?f ?w = _ /\ _ =>
    assert (EM : m w = (Done out, mkIo s3 k)) end.
  { cbn [i_src i_snk]. rewrite EDF.
    replace (match bh_packed bh with Some e => negb (nlen payload =? e) | None => false end) with false.
    - rewrite ELF. reflexivity.
    - destruct (bh_packed bh) as [e|] eqn:EPK; [|reflexivity]. rewrite (PK e eq_refl), N.eqb_refl. reflexivity. }
  rewrite (mbind_done _ _ _ EM). clear EM.
  replace (match bh_unpacked bh with Some e => negb (nlen out =? e) | None => false end) with false.
  2:{ destruct (bh_unpacked bh) as [e|] eqn:EUP; [|reflexivity]. rewrite (UP e eq_refl), N.eqb_refl. reflexivity. }
  (* position, padding *)
  assert (EG : forall s0 k0, io_run (icall GetPos) (mkIo s0 k0) = (Done (s_pos s0), mkIo s0 k0)).
  { intros s0 k0. unfold io_run. rewrite getpos_spec. reflexivity. }
  rewrite (mbind_done _ _ _ (EG s3 k)).
  assert (EPS : s_pos s3 - start = nlen (hs :: hdr ++ hcrc ++ payload)).
  { rewrite P3, P2. rewrite IoInv.nlen_cons, !IoInv.nlen_app. lia. }
  rewrite EPS. set (P := padding_of (nlen (hs :: hdr ++ hcrc ++ payload))) in *.
  assert (PL : P = nlen pad) by (rewrite EPAD, nlen_repeat, N2Nat.id; reflexivity).
  destruct (rd_zero_padding (N.to_nat P) [] (s_pos s3) s3 (chk ++ t) F3 eq_refl)
    as (s4 & R4 & E4 & P4 & F4); [rewrite <- EPAD; exact E3|]. rewrite <- EPAD in P4.
  rewrite (mbind_done _ _ _ (io_run_runs _ _ k _ _ R4)).
  (* block check *)
  destruct (validate_block_check_complete ck out chk _ CF s4 t F4 P4 E4) as (s5 & R5 & E5 & P5 & F5).
  rewrite (mbind_done _ _ _ (io_run_runs _ _ k _ _ R5)).
  (* output *)
  destruct (EncCarry.write_all_spec out s5 k Hk) as (k' & RW & BW & KW).
  rewrite (mbind_done _ _ _ RW).
  rewrite (mbind_done _ _ _ (EG s5 k')).
  assert (EP5 : s_pos s5 = start + nlen (hs :: hdr ++ hcrc ++ payload ++ pad ++ chk)).
  { rewrite P5, P3, P2. rewrite IoInv.nlen_cons, !IoInv.nlen_app. lia. }
  replace (s_pos s5 - start <? P) with false.
  2:{ symmetry. apply N.ltb_ge. rewrite PL, EP5. rewrite IoInv.nlen_cons, !IoInv.nlen_app. lia. }
  unfold mret. exists (mkIo s5 k'). cbn [i_src i_snk]. split.
  - f_equal. f_equal. f_equal. rewrite PL, EP5. rewrite !IoInv.nlen_cons, !IoInv.nlen_app. lia.
  - split; [exact F5|]. split; [exact KW|]. split; [exact E5|]. split; [exact EP5|exact BW].
Qed.

(* ================= the block loop ================= *)
(* one iteration that reads a block *)
Lemma xz_body_block fuel ck b recs w t :
  blk_wf fuel ck b -> FaultFree (i_src w) -> k_wfail (i_snk w) = None ->
  s_rest (i_src w) = blk_bytes b ++ t ->
  exists w', xz_body crc32 crc64 fuel ck (recs, w) = Next (blk_record b :: recs, w') /\
    FaultFree (i_src w') /\ k_wfail (i_snk w') = None /\
    s_rest (i_src w') = t /\ s_pos (i_src w') = s_pos (i_src w) + nlen (blk_bytes b) /\
    snk_bytes (i_snk w') = snk_bytes (i_snk w) ++ b_out b.
Proof.
  destruct w as [s k]. cbn [i_src i_snk]. intros WF Hs Hk Hr.
  unfold blk_bytes at 1 in Hr. cbn [app] in Hr. rewrite <- !app_assoc in Hr.
  destruct (rd_u8 (s_pos s) (b_hs b) s _ Hs eq_refl Hr) as (s1 & R1 & E1 & P1 & F1).
  unfold xz_body. cbn [i_src]. rewrite (R1 k).
  assert (HS0 : b_hs b <> 0) by apply WF. rewrite (proj2 (N.eqb_neq _ _) HS0).
  change (nlen [b_hs b]) with 1 in P1.
  destruct (read_block_complete fuel ck b (s_pos s) (mkIo s1 k) t WF F1 Hk P1 E1)
    as (w2 & RB & F2 & K2 & E2 & P2 & B2).
  rewrite RB. exists w2. cbn [i_snk] in B2. auto 10.
Qed.

(* the iteration that reads the index *)
Lemma xz_body_index fuel ck recs w index t :
  index_bytes_ok crc32 (lrev recs) index -> FaultFree (i_src w) ->
  s_rest (i_src w) = index ++ t ->
  exists w', xz_body crc32 crc64 fuel ck (recs, w) = Break (Done (nlen index), w') /\
    FaultFree (i_src w') /\ s_rest (i_src w') = t /\ s_pos (i_src w') = s_pos (i_src w) + nlen index /\
    i_snk w' = i_snk w.
Proof.
  destruct w as [s k]. cbn [i_src i_snk]. intros IOK Hs Hr.
  destruct (check_index_complete_bytes (s_pos s) _ _ IOK) as (rest & -> & RI).
  cbn [app] in Hr.
  destruct (rd_u8 (s_pos s) 0 s _ Hs eq_refl Hr) as (s1 & R1 & E1 & P1 & F1).
  unfold xz_body. cbn [i_src]. rewrite (R1 k).
  change (0 =? 0) with true. cbv iota.
  change (nlen [0]) with 1 in P1.
  destruct (RI s1 t F1 P1 E1) as (s2 & R2 & E2 & P2 & F2). rewrite (R2 k). cbn [i_src].
  exists (mkIo s2 k). cbn [i_src i_snk]. split.
  - f_equal. f_equal. f_equal. rewrite P2, IoInv.nlen_cons. lia.
  - split; [exact F2|]. split; [exact E2|]. split; [|reflexivity]. rewrite P2, IoInv.nlen_cons. lia.
Qed.

Lemma xz_loop_complete fuel ck index t : forall blocks done n w,
  Forall (blk_wf fuel ck) blocks ->
  index_bytes_ok crc32 (map blk_record (done ++ blocks)) index ->
  FaultFree (i_src w) -> k_wfail (i_snk w) = None ->
  s_rest (i_src w) = concat (map blk_bytes blocks) ++ index ++ t ->
  (length blocks < n)%nat ->
  exists w', iter_step n (xz_body crc32 crc64 fuel ck) (rev (map blk_record done), w) = Break (Done (nlen index), w') /\
    FaultFree (i_src w') /\ s_rest (i_src w') = t /\
    s_pos (i_src w') = s_pos (i_src w) + nlen (concat (map blk_bytes blocks) ++ index) /\
    snk_bytes (i_snk w') = snk_bytes (i_snk w) ++ concat (map b_out blocks).
Proof.
  induction blocks as [|b blocks IH]; intros done n w FB IOK Hs Hk Hr Hn;
    (destruct n as [|n]; cbn [length] in Hn; [lia|]); cbn [iter_step].
  - (* the index *)
    cbn [map concat app] in Hr. rewrite app_nil_r in IOK.
    destruct (xz_body_index fuel ck (rev (map blk_record done)) w index t) as (w' & RB & F' & E' & P' & K'); try assumption.
    { rewrite lrev_rev, rev_involutive. exact IOK. }
    rewrite RB. exists w'. split; [reflexivity|]. split; [exact F'|]. split; [exact E'|].
    cbn [map concat app]. split; [exact P'|]. rewrite K'. symmetry. apply app_nil_r.
  - (* one block *)
    inversion FB as [|b' bs' WF FB']; subst.
    cbn [map concat] in Hr. rewrite <- app_assoc in Hr.
    destruct (xz_body_block fuel ck b (rev (map blk_record done)) w _ WF Hs Hk Hr) as (w2 & RB & F2 & K2 & E2 & P2 & B2).
    rewrite RB.
    replace (blk_record b :: rev (map blk_record done)) with (rev (map blk_record (done ++ [b])))
      by (rewrite map_app, rev_app_distr; reflexivity).
    destruct (IH (done ++ [b]) n w2 FB') as (w' & RL & F' & E' & P' & B'); try assumption.
    { rewrite <- app_assoc. exact IOK. }
    { lia. }
    exists w'. split; [exact RL|]. split; [exact F'|]. split; [exact E'|]. split.
    + rewrite P', P2. cbn [map concat]. rewrite !IoInv.nlen_app. lia.
    + rewrite B', B2. cbn [map concat]. rewrite <- app_assoc. reflexivity.
Qed.

(* ================= the whole stream ================= *)
Theorem xz_decompress_complete_wf fuel w ck hdr blocks index footer :
  FaultFree (i_src w) -> k_wfail (i_snk w) = None ->
  s_rest (i_src w) = hdr ++ concat (map blk_bytes blocks) ++ index ++ footer ->
  header_bytes_ok crc32 ck hdr ->
  Forall (blk_wf fuel ck) blocks ->
  index_bytes_ok crc32 (map blk_record blocks) index ->
  footer_bytes_ok crc32 ck (nlen index) footer ->
  (length blocks < Pos.to_nat fuel)%nat ->
  exists w', xz_decompress crc32 crc64 fuel w = (Done tt, w') /\
    snk_bytes (i_snk w') = snk_bytes (i_snk w) ++ concat (map b_out blocks) /\
    s_rest (i_src w') = [] /\
    s_pos (i_src w') = s_pos (i_src w) + nlen (s_rest (i_src w)).
Proof.
  destruct w as [s k]. cbn [i_src i_snk]. intros Hs Hk Hr HOK FB IOK FOK Hfuel.
  unfold xz_decompress.
  destruct (header_parse_complete ck hdr (s_pos s) HOK s _ Hs eq_refl Hr) as (s0 & R0 & E0 & P0 & F0).
  rewrite (mbind_done _ _ _ (io_run_runs _ _ k _ _ R0)).
  rewrite loopN_iter.
  destruct (xz_loop_complete fuel ck index footer blocks [] (Pos.to_nat fuel) (mkIo s0 k) FB IOK F0 Hk E0 Hfuel)
    as (w1 & RL & F1 & E1 & P1 & B1).
  cbn [map rev] in RL. rewrite RL. destruct w1 as [s1 k1]. cbn [i_src i_snk] in *.
  destruct (xz_footer_complete ck (nlen index) footer (s_pos s1) FOK s1 F1 eq_refl E1) as (s2 & R2 & E2 & P2 & F2).
  rewrite (R2 k1). exists (mkIo s2 k1). cbn [i_src i_snk]. split; [reflexivity|]. split; [exact B1|]. split; [exact E2|].
  rewrite P2, P1, P0, Hr, !IoInv.nlen_app. lia.
Qed.

End WithCrc.

Print Assumptions header_parse_complete.
Print Assumptions xz_footer_complete.
Print Assumptions check_index_complete.
Print Assumptions read_block_complete.
Print Assumptions xz_decompress_complete_wf.
