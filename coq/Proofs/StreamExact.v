(* C01 / C04 x C05: exact decoding and the compression round trip through the STREAMING decoder.
   The one-shot theorems (lzma_decode_exact_opts, lzma_round_trip_gen and its instances) are transported to the
   streaming decoder under EVERY division of the input into pieces by
   stream_equals_oneshot_every_chunking (C05).
     enc_payload_bytes, hdr_bytes_bytes          : what the reference encoder emits is a byte string
     stream_decodes_wellformed_exactly           : a well-formed stream, fed in any pieces, is decoded exactly
     lzma_compress_file                          : the dumb encoder's output is a byte string shorter than 2^47
     stream_round_trip_gen / _marker / _sized / _skip / _override
                                                 : compress, then stream-decode in any pieces, gives the data back *)
From LZ Require Import Base.Prelude Base.Prog Model.Io Model.Tables Model.LzBuffer Model.RangeDec Model.Lzma Model.Stream Model.Enc
  Format.RefEnc
  Proofs.ProgLemmas Proofs.IoLemmas Proofs.RangeLockstep Proofs.HeaderRules Proofs.LzmaExactLoop Proofs.LzmaExact Proofs.LzmaExactOpts
  Proofs.DumbEncConform Proofs.LzmaRoundTrip
  Proofs.StreamSimLoop Proofs.StreamSimData Proofs.StreamSimTotal.
From Coq Require Import ZifyBool ZifyNat ZifyN.
Local Open Scope N_scope.

Definition byte_string (l : list N) : Prop := Forall (fun b => b < 256) l.

(* ====================================================================== *)
(* G1: byte ranges                                                          *)
(* ====================================================================== *)
Lemma le_bytes_bytes n : forall v, byte_string (le_bytes n v).
Proof.
  induction n as [|n IH]; intros v; cbn [le_bytes]; [constructor|].
  constructor; [|apply IH]. rewrite land255. apply N.mod_lt. lia.
Qed.

Lemma byte_string_lrev l : byte_string l -> byte_string (lrev l).
Proof. intros H. unfold byte_string. rewrite lrev_rev. apply Forall_rev. exact H. Qed.

Lemma be_bytes_bytes n v : byte_string (be_bytes n v).
Proof. unfold be_bytes. apply byte_string_lrev. apply le_bytes_bytes. Qed.

Lemma byte_string_app l1 l2 : byte_string l1 -> byte_string l2 -> byte_string (l1 ++ l2).
Proof. intros H1 H2. apply Forall_app. split; assumption. Qed.

Lemma ienc_bytes_bytes ie delta : byte_string (ienc_bytes ie delta).
Proof. unfold ienc_bytes. constructor; [lia|apply be_bytes_bytes]. Qed.

(* every byte of the payload of the reference encoder (strict or lenient) is below 256 *)
Theorem enc_payload_bytes lenient fp w prog delta payload out :
  enc_payload_gen lenient fp w prog delta = Some (payload, out) -> Forall (fun b => b < 256) payload.
Proof.
  unfold enc_payload_gen. intros H.
  destruct (enc_syms_gen lenient fp w ienc0 (estate0 fp) prog) as [[ie s]|]; [|discriminate].
  inversion H; subst. apply ienc_bytes_bytes.
Qed.
Print Assumptions enc_payload_bytes.

(* the payload has five bytes more than the number of normalisations *)
Lemma nlen_ienc_bytes ie delta : nlen (ienc_bytes ie delta) = i_norms ie + 5.
Proof.
  unfold ienc_bytes, be_bytes. rewrite IoLemmas.nlen_cons, nlen_lrev, nlen_le_bytes. lia.
Qed.

(* every byte of the 5- or 13-byte header is below 256
   (dict_field < 2^32 is what makes the four bytes REPRESENT dict_field; it is not needed for the range) *)
Theorem hdr_bytes_bytes fp dict_field field :
  f_lc fp <= 8 -> f_lp fp <= 4 -> f_pb fp <= 4 -> dict_field < 2 ^ 32 ->
  Forall (fun b => b < 256) field ->
  Forall (fun b => b < 256) (hdr_bytes fp dict_field field).
Proof.
  intros H1 H2 H3 _ Hf. unfold hdr_bytes.
  destruct (props_byte_decode fp H1 H2 H3) as (Hlt & _).
  constructor; [lia|]. apply byte_string_app; [apply le_bytes_bytes|exact Hf].
Qed.
Print Assumptions hdr_bytes_bytes.

(* a complete reference-encoded file *)
Corollary enc_lzma_bytes lenient fp dict_field size_field prog delta file out :
  f_lc fp <= 8 -> f_lp fp <= 4 -> f_pb fp <= 4 ->
  enc_lzma_gen lenient fp dict_field size_field prog delta = Some (file, out) -> Forall (fun b => b < 256) file.
Proof.
  intros H1 H2 H3. unfold enc_lzma_gen.
  destruct (enc_payload_gen lenient fp (Some (N.max dict_field 4096)) prog delta) as [[pl o]|] eqn:E; [|discriminate].
  intros H.
  assert (Hf : file = props_byte fp :: le_bytes 4 dict_field ++ le_bytes 8 size_field ++ pl) by congruence.
  rewrite Hf.
  destruct (props_byte_decode fp H1 H2 H3) as (Hlt & _).
  constructor; [lia|]. apply byte_string_app; [apply le_bytes_bytes|].
  apply byte_string_app; [apply le_bytes_bytes|]. exact (enc_payload_bytes _ _ _ _ _ _ _ E).
Qed.

(* ====================================================================== *)
(* The transport: a one-shot success becomes a streaming success            *)
(* ====================================================================== *)
Lemma same_verdict_done r : same_verdict r (Done tt) -> r = Done tt.
Proof. destruct r as [[]|e|q]; cbn [same_verdict]; intros H; [reflexivity|contradiction|contradiction]. Qed.

Lemma stream_of_oneshot_done (o : options) (k : snk) (bs : list N) (pieces : list (list N)) (w : io) :
  o_allow_incomplete o = false -> byte_string bs -> bs <> [] -> concat pieces = bs ->
  nlen bs < 140737488355328 ->
  lzma_decompress big_fuel o (mkIo (cursor_of bs) k) = (Done tt, w) ->
  drive (stream_new o k) pieces = (Done tt, i_snk w).
Proof.
  intros Hai Hb Hne Hcat Hlen Hrun.
  destruct (stream_equals_oneshot_every_chunking o k bs pieces Hai Hb Hne Hcat Hlen) as (Hv & Hs).
  rewrite Hrun in Hv, Hs. cbn [fst snd] in Hv, Hs.
  apply same_verdict_done in Hv. specialize (Hs Hv).
  destruct (drive (stream_new o k) pieces) as [r k']. cbn [fst snd] in Hv, Hs. subst r k'. reflexivity.
Qed.

Lemma big_fuel_nat n : N.of_nat n + 1 <= 4611686018427387904 -> (n + 1 <= Pos.to_nat big_fuel)%nat.
Proof. unfold big_fuel. lia. Qed.

(* ====================================================================== *)
(* G2: exact decoding of a well-formed stream by the streaming decoder      *)
(* ====================================================================== *)
Theorem stream_decodes_wellformed_exactly fp dict_field field prog payload out delta trail ief o k pieces :
  f_lc fp <= 8 -> f_lp fp <= 4 -> f_pb fp <= 4 -> dict_field < 2 ^ 32 ->
  enc_payload_gen false fp (Some (N.max dict_field 4096)) prog delta = Some (payload, out) ->
  final_ienc fp (Some (N.max dict_field 4096)) prog = Some ief ->
  nlen field = size_field_len (o_unpacked o) ->
  memlimit_ok (o_memlimit o) (N.max dict_field 4096) ->
  stream_mode (size_in_effect (o_unpacked o) (le_num field)) prog out delta trail ief ->
  k_wfail k = None -> k_ffail k = false ->
  o_allow_incomplete o = false ->
  Forall (fun b => b < 256) field -> Forall (fun b => b < 256) trail ->
  nlen ((hdr_bytes fp dict_field field ++ payload) ++ trail) < 140737488355328 ->      (* 2^47 *)
  nlen prog + 1 <= 4611686018427387904 ->                                               (* 2^62 *)
  concat pieces = (hdr_bytes fp dict_field field ++ payload) ++ trail ->
  exists k',
    drive (stream_new o k) pieces = (Done tt, k') /\
    snk_bytes k' = snk_bytes k ++ out /\
    k_flushes k' = k_flushes k + 1.
Proof.
  intros Hlc Hlp Hpb Hdf Henc Hfin Hfield Hml Hmode Hkw Hkf Hai Hbf Hbt Hlen Hfuel Hcat.
  destruct (lzma_decode_exact_opts fp dict_field field prog payload out delta trail ief o frag_all k big_fuel
              Hlc Hlp Hpb Hdf Henc Hfin Hfield Hml Hmode Hkw Hkf (big_fuel_nat _ Hfuel))
    as (w' & Hrun & Hb & Hfl & _).
  exists (i_snk w'). split; [|split; assumption].
  apply (stream_of_oneshot_done o k ((hdr_bytes fp dict_field field ++ payload) ++ trail) pieces w' Hai).
  - apply byte_string_app; [|exact Hbt]. apply byte_string_app.
    + apply hdr_bytes_bytes; assumption.
    + exact (enc_payload_bytes _ _ _ _ _ _ _ Henc).
  - unfold hdr_bytes. cbn [app]. discriminate.
  - exact Hcat.
  - exact Hlen.
  - exact Hrun.
Qed.
Print Assumptions stream_decodes_wellformed_exactly.

(* ====================================================================== *)
(* The length of the dumb encoder's output                                  *)
(* ====================================================================== *)
Lemma ienc_norm_norms e : i_norms (ienc_norm e) <= i_norms e + 1.
Proof. unfold ienc_norm. destruct (i_range e <? 16777216); cbn [i_norms]; lia. Qed.

Lemma ienc_ev_norms ie t e : i_norms (fst (ienc_ev (ie, t) e)) <= i_norms ie + 1.
Proof.
  destruct e as [c b|b]; cbn [ienc_ev fst].
  - unfold ienc_bit. cbv zeta. etransitivity; [apply ienc_norm_norms|]. destruct b; cbn [i_norms]; lia.
  - unfold ienc_direct. cbv zeta. etransitivity; [apply ienc_norm_norms|]. cbn [i_norms]. lia.
Qed.

Lemma fold_ev_norms evs : forall ie t,
  i_norms (fst (fold_left ienc_ev evs (ie, t))) <= i_norms ie + N.of_nat (length evs).
Proof.
  induction evs as [|e evs IH]; intros ie t.
  - cbn [fold_left fst length]. lia.
  - cbn [fold_left length]. pose proof (ienc_ev_norms ie t e) as H1.
    destruct (ienc_ev (ie, t) e) as [ie1 t1]. cbn [fst] in H1.
    pose proof (IH ie1 t1). lia.
Qed.

Lemma tree_evs_length nb : forall mk v m, length (tree_evs nb mk v m) = nb.
Proof. induction nb as [|nb IH]; intros mk v m; cbn [tree_evs length]; [reflexivity|]. rewrite IH. reflexivity. Qed.

Lemma lit_evs_length nb : forall row byte mb matched m, length (lit_evs nb row byte mb matched m) = nb.
Proof.
  induction nb as [|nb IH]; intros row byte mb matched m; cbn [lit_evs]; [reflexivity|].
  destruct matched; cbn [length]; rewrite IH; reflexivity.
Qed.

Lemma marker_dist_evs_length : length (dist_evs 0 4294967295) = 36%nat.
Proof. vm_compute. reflexivity. Qed.

(* a literal costs 9 coded bits, the end marker 42 *)
Lemma sym_evs_lit_length fp st h b : length (fst (sym_evs fp st h (Lit b))) = 9%nat.
Proof. unfold sym_evs. cbv zeta. cbn [fst length]. rewrite lit_evs_length. reflexivity. Qed.

Lemma sym_evs_marker_length fp st h : length (fst (sym_evs fp st h EndMarker)) = 42%nat.
Proof.
  unfold sym_evs. cbv zeta. cbn [fst length]. rewrite app_length, marker_dist_evs_length.
  unfold len_evs. change (0 <? 8) with true. cbn [length]. rewrite tree_evs_length. reflexivity.
Qed.

Definition lit_or_marker (x : sym) : Prop := match x with Lit _ | EndMarker => True | _ => False end.

Lemma prog_evs_count fp w : forall prog st h evs stf hf,
  Forall lit_or_marker prog -> prog_evs fp w st h prog = Some (evs, stf, hf) ->
  (length evs <= 42 * length prog)%nat.
Proof.
  induction prog as [|x rest IH]; intros st h evs stf hf HF H.
  - cbn [prog_evs] in H. inversion H; subst. cbn [length]. lia.
  - inversion HF as [|x0 l0 Hx Hrest]; subst.
    destruct x as [b|dist len| |i len|]; try contradiction.
    + rewrite (prog_evs_cons fp w st h (Lit b) rest ltac:(discriminate)) in H.
      destruct (sem_sym w h (Lit b)) as [h'|]; [|discriminate].
      destruct (prog_evs fp w (snd (sym_evs fp st h (Lit b))) h' rest) as [[[l st2] h2]|] eqn:Ep; [|discriminate].
      assert (Hev : evs = fst (sym_evs fp st h (Lit b)) ++ l) by congruence.
      rewrite Hev, app_length, sym_evs_lit_length. pose proof (IH _ _ _ _ _ Hrest Ep).
      cbn [length]. lia.
    + cbn [prog_evs] in H. destruct rest; [|discriminate].
      assert (Hev : evs = fst (sym_evs fp st h EndMarker)) by congruence.
      rewrite Hev, sym_evs_marker_length. cbn [length]. lia.
Qed.

Lemma lit_program_shape o data : Forall lit_or_marker (lit_program o data).
Proof.
  unfold lit_program. apply Forall_app. split.
  - apply Forall_forall. intros x Hx. apply in_map_iff in Hx. destruct Hx as (b & <- & _). exact I.
  - destruct o as [[x|]|]; repeat constructor.
Qed.

Lemma nlen_header o : nlen (header o) <= 13.
Proof.
  rewrite header_hdr_bytes, nlen_hdr_bytes, nlen_enc_field. destruct o as [[x|]|]; lia.
Qed.

Lemma header_bytes o : byte_string (header o).
Proof.
  rewrite header_hdr_bytes. apply hdr_bytes_bytes; cbn [f_lc f_lp f_pb]; [lia|lia|lia|reflexivity|].
  unfold enc_field. destruct o as [[x|]|]; try apply le_bytes_bytes. constructor.
Qed.

(* what lzma_compress writes is a byte string of at most 42 n + 60 bytes *)
Theorem lzma_compress_file fuel o data frag k :
  Forall (fun b => b < 256) data -> k_wfail k = None -> nlen data < Npos fuel -> 9 * nlen data + 50 < 4294967296 ->
  exists w' file,
    lzma_compress fuel o (mkIo (src_of data frag None) k) = (Done tt, w') /\
    snk_bytes (i_snk w') = snk_bytes k ++ file /\
    Forall (fun b => b < 256) file /\ file <> [] /\ nlen file <= 42 * nlen data + 60.
Proof.
  intros Hb Hw Hfuel Hsz.
  destruct (lzma_compress_conforms fuel o data frag k Hb Hw Hfuel Hsz) as (w' & payload & E & B & P).
  exists w', (header o ++ payload). split; [exact E|]. split; [exact B|].
  split; [apply byte_string_app; [apply header_bytes|exact (enc_payload_bytes _ _ _ _ _ _ _ P)]|].
  split; [unfold header; cbn [app]; discriminate|].
  rewrite IoLemmas.nlen_app. pose proof (nlen_header o) as Hh.
  unfold enc_payload_gen in P.
  destruct (enc_syms_gen false (mkFProps 3 0 2) (Some 8388608) ienc0 (estate0 (mkFProps 3 0 2)) (lit_program o data))
    as [[ie s]|] eqn:Es; [|discriminate].
  assert (Hp : payload = ienc_bytes ie 0) by congruence. rewrite Hp, nlen_ienc_bytes. clear P Hp.
  unfold estate0 in Es.
  destruct (enc_syms_prog_evs _ _ _ _ _ _ _ _ _ Es) as (evs & Hpe & Hfold).
  pose proof (prog_evs_count _ _ _ _ _ _ _ _ (lit_program_shape o data) Hpe) as Hc.
  pose proof (fold_ev_norms evs ienc0 (ptabs_new (2 ^ (f_lc (mkFProps 3 0 2) + f_lp (mkFProps 3 0 2))))) as Hn.
  rewrite Hfold in Hn. cbn [fst] in Hn. change (i_norms ienc0) with 0 in Hn.
  pose proof (lit_program_length o data) as Hl. unfold nlen in *. lia.
Qed.
Print Assumptions lzma_compress_file.

(* ====================================================================== *)
(* G3: the round trip through the streaming decoder                         *)
(* ====================================================================== *)
(* The decoder options must have allow_incomplete = false (hypothesis of C05). *)
Theorem stream_round_trip_gen fuel o o' data frag1 k1 k2 :
  Forall (fun b => b < 256) data -> k_wfail k1 = None -> k_wfail k2 = None -> k_ffail k2 = false ->
  nlen data < Npos fuel -> 9 * nlen data + 50 < 4294967296 ->
  nlen (enc_field o) = size_field_len (o_unpacked o') ->
  memlimit_ok (o_memlimit o') 8388608 ->
  size_in_effect (o_unpacked o') (le_num (enc_field o)) = size_needed o data ->
  o_allow_incomplete o' = false ->
  exists file w1,
    lzma_compress fuel o (mkIo (src_of data frag1 None) k1) = (Done tt, w1) /\
    snk_bytes (i_snk w1) = snk_bytes k1 ++ file /\
    forall pieces, concat pieces = file ->
      exists k',
        drive (stream_new o' k2) pieces = (Done tt, k') /\
        snk_bytes k' = snk_bytes k2 ++ data /\
        k_flushes k' = k_flushes k2 + 1.
Proof.
  intros Hb Hw1 Hw2 Hf2 Hfuel Hsz Hfield Hml Hsize Hai.
  destruct (lzma_compress_file fuel o data frag1 k1 Hb Hw1 Hfuel Hsz) as (w1 & file & E & B & Hfb & Hne & Hfl).
  assert (Hfuel' : (length data + 2 <= Pos.to_nat big_fuel)%nat) by (unfold big_fuel; unfold nlen in Hsz; lia).
  destruct (lzma_round_trip_gen fuel big_fuel o o' data frag1 frag_all k1 k2 Hb Hw1 Hw2 Hf2 Hfuel Hsz Hfuel' Hfield Hml Hsize)
    as (file' & w1' & w2 & E' & B' & R & B2 & F2 & _).
  assert (Ew : w1' = w1) by congruence. subst w1'.
  assert (Ef : file' = file) by (rewrite B in B'; exact (eq_sym (app_inv_head _ _ _ B'))). subst file'.
  exists file, w1. split; [exact E|]. split; [exact B|].
  intros pieces Hcat. exists (i_snk w2). split; [|split; assumption].
  apply (stream_of_oneshot_done o' k2 file pieces w2 Hai Hfb Hne Hcat); [lia|exact R].
Qed.
Print Assumptions stream_round_trip_gen.

(* ---------- the four pairings of the public API ---------- *)

(* end marker, no size in the header *)
Theorem stream_round_trip_marker fuel ml data frag1 k1 k2 :
  Forall (fun b => b < 256) data -> k_wfail k1 = None -> k_wfail k2 = None -> k_ffail k2 = false ->
  nlen data < Npos fuel -> 9 * nlen data + 50 < 4294967296 -> memlimit_ok ml 8388608 ->
  exists file w1,
    lzma_compress fuel (WriteToHeader None) (mkIo (src_of data frag1 None) k1) = (Done tt, w1) /\
    snk_bytes (i_snk w1) = snk_bytes k1 ++ file /\
    forall pieces, concat pieces = file ->
      exists k',
        drive (stream_new (mkOptions ReadFromHeader ml false) k2) pieces = (Done tt, k') /\
        snk_bytes k' = snk_bytes k2 ++ data /\
        k_flushes k' = k_flushes k2 + 1.
Proof.
  intros Hb Hw1 Hw2 Hf2 Hfuel Hsz Hml.
  apply stream_round_trip_gen; try assumption; reflexivity.
Qed.
Print Assumptions stream_round_trip_marker.

(* the true size in the header, no marker *)
Theorem stream_round_trip_sized fuel ml data frag1 k1 k2 :
  Forall (fun b => b < 256) data -> k_wfail k1 = None -> k_wfail k2 = None -> k_ffail k2 = false ->
  nlen data < Npos fuel -> 9 * nlen data + 50 < 4294967296 -> memlimit_ok ml 8388608 ->
  exists file w1,
    lzma_compress fuel (WriteToHeader (Some (nlen data))) (mkIo (src_of data frag1 None) k1) = (Done tt, w1) /\
    snk_bytes (i_snk w1) = snk_bytes k1 ++ file /\
    forall pieces, concat pieces = file ->
      exists k',
        drive (stream_new (mkOptions ReadFromHeader ml false) k2) pieces = (Done tt, k') /\
        snk_bytes k' = snk_bytes k2 ++ data /\
        k_flushes k' = k_flushes k2 + 1.
Proof.
  intros Hb Hw1 Hw2 Hf2 Hfuel Hsz Hml.
  apply stream_round_trip_gen; try assumption; try reflexivity.
  cbn [o_unpacked enc_field size_needed]. rewrite (le_num_le_bytes_small 8 (nlen data)).
  - unfold size_in_effect, U64MAX.
    destruct (N.eqb_spec (nlen data) 18446744073709551615) as [E|_]; [lia|reflexivity].
  - change (256 ^ N.of_nat 8) with 18446744073709551616. lia.
Qed.
Print Assumptions stream_round_trip_sized.

(* no size field at all: the caller supplies the size *)
Theorem stream_round_trip_skip fuel ml data frag1 k1 k2 :
  Forall (fun b => b < 256) data -> k_wfail k1 = None -> k_wfail k2 = None -> k_ffail k2 = false ->
  nlen data < Npos fuel -> 9 * nlen data + 50 < 4294967296 -> memlimit_ok ml 8388608 ->
  exists file w1,
    lzma_compress fuel SkipWritingToHeader (mkIo (src_of data frag1 None) k1) = (Done tt, w1) /\
    snk_bytes (i_snk w1) = snk_bytes k1 ++ file /\
    forall pieces, concat pieces = file ->
      exists k',
        drive (stream_new (mkOptions (UseProvided (Some (nlen data))) ml false) k2) pieces = (Done tt, k') /\
        snk_bytes k' = snk_bytes k2 ++ data /\
        k_flushes k' = k_flushes k2 + 1.
Proof.
  intros Hb Hw1 Hw2 Hf2 Hfuel Hsz Hml.
  apply stream_round_trip_gen; try assumption; reflexivity.
Qed.
Print Assumptions stream_round_trip_skip.

(* the caller's size overrides the header field, whatever was written there *)
Theorem stream_round_trip_override fuel x ml data frag1 k1 k2 :
  Forall (fun b => b < 256) data -> k_wfail k1 = None -> k_wfail k2 = None -> k_ffail k2 = false ->
  nlen data < Npos fuel -> 9 * nlen data + 50 < 4294967296 -> memlimit_ok ml 8388608 ->
  exists file w1,
    lzma_compress fuel (WriteToHeader x) (mkIo (src_of data frag1 None) k1) = (Done tt, w1) /\
    snk_bytes (i_snk w1) = snk_bytes k1 ++ file /\
    forall pieces, concat pieces = file ->
      exists k',
        drive (stream_new (mkOptions (ReadHeaderButUseProvided (override_size x data)) ml false) k2) pieces = (Done tt, k') /\
        snk_bytes k' = snk_bytes k2 ++ data /\
        k_flushes k' = k_flushes k2 + 1.
Proof.
  intros Hb Hw1 Hw2 Hf2 Hfuel Hsz Hml.
  apply stream_round_trip_gen; try assumption; try reflexivity.
  rewrite nlen_enc_field. reflexivity.
Qed.
Print Assumptions stream_round_trip_override.
