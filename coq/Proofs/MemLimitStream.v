(* C10, whole runs, part 2: the streaming decoder (decode/stream.rs).
   A Stream with o_memlimit = Some m behaves exactly like a Stream with a larger limit (or
   none) for as long as the window buffer of the latter stays within m; at the first call in
   which it grows beyond m the limited stream returns Err(LzmaError), drops its state, and
   what it had written to its sink is a prefix of what the other one writes. *)
From LZ Require Import Base.Prelude Base.Prog Model.Io Model.Tables Model.LzBuffer Model.RangeDec
  Model.Lzma Model.Stream Proofs.ProgLemmas Proofs.IoLemmas Proofs.StreamLatch Proofs.StreamPrefix Proofs.MemLimitRun.
Local Open Scope prog_scope.

(* ---- the window stays a circular buffer ---- *)
Definition is_circ (w : win) : Prop := match w with WCirc _ => True | WAccum _ => False end.
Lemma is_circ_lit w b : is_circ w -> keep is_circ true (fst (win_append_literal w b)) (snd (win_append_literal w b)).
Proof. intros H _. destruct w; [exact I|contradiction]. Qed.
Lemma is_circ_lz w len dist : is_circ w -> keep is_circ true (fst (win_append_lz w len dist)) (snd (win_append_lz w len dist)).
Proof. intros H _. destruct w; [exact I|contradiction]. Qed.
Lemma process_mode_is_circ mode fuel w : is_circ (l_win w) -> is_circ (l_win (snd (process_mode mode fuel w))).
Proof. intros H. apply (process_mode_keep is_circ true is_circ_lit is_circ_lz mode fuel w H). right. reflexivity. Qed.

(* ---- relations ---- *)
Definition run_rel (m : N) (r1 r2 : run_state) : Prop :=
  rs_dec r1 = rs_dec r2 /\ rs_rc r1 = rs_rc r2 /\ mem_related m (rs_out r1) (rs_out r2).
Definition sstate_rel (m : N) (s1 s2 : sstate) : Prop :=
  match s1, s2 with
  | SHeader k1, SHeader k2 => k1 = k2
  | SData r1, SData r2 => run_rel m r1 r2
  | _, _ => False
  end.
Definition ostate_rel (m : N) (s1 s2 : option sstate) : Prop :=
  match s1, s2 with
  | None, None => True
  | Some a, Some b => sstate_rel m a b
  | _, _ => False
  end.
Definition opts_rel (m : N) (o1 o2 : options) : Prop :=
  o_unpacked o1 = o_unpacked o2 /\ o_allow_incomplete o1 = o_allow_incomplete o2 /\
  o_memlimit o1 = Some m /\ m <= mem_of (o_memlimit o2).
Definition stream_rel (m : N) (s1 s2 : stream) : Prop :=
  st_tmp s1 = st_tmp s2 /\ opts_rel m (st_opts s1) (st_opts s2) /\ st_ghost s1 = st_ghost s2 /\
  ostate_rel m (st_state s1) (st_state s2).

(* what is known of the other stream once the limited one has failed *)
Definition stream_over (m : N) (s2 : stream) : Prop :=
  match st_state s2 with Some (SData r) => m < c_blen (rs_out r) | _ => True end.
Definition stream_div (m : N) (s1 s2 : stream) : Prop :=
  st_state s1 = None /\ ext (stream_sink s1) (stream_sink s2) /\ stream_over m s2.

Lemma stream_new_rel m o1 o2 k : opts_rel m o1 o2 -> stream_rel m (stream_new o1 k) (stream_new o2 k).
Proof. intros H. unfold stream_rel, stream_new. cbn [st_tmp st_opts st_ghost st_state ostate_rel sstate_rel]. auto. Qed.

Lemma with_mem_opts_rel o ml2 m : m <= mem_of ml2 -> opts_rel m (with_mem o (Some m)) (with_mem o ml2).
Proof. intros H. unfold opts_rel, with_mem. cbn [o_unpacked o_allow_incomplete o_memlimit]. auto. Qed.

(* ---- read_header ---- *)
Lemma read_header_unpacked o1 o2 : o_unpacked o1 = o_unpacked o2 -> read_header o1 = read_header o2.
Proof. intros H. unfold read_header. rewrite H. reflexivity. Qed.

Definition hdr_rel (m : N) (x1 x2 : outcome sstate * src) : Prop :=
  snd x1 = snd x2 /\
  match fst x1, fst x2 with
  | Done a, Done b => sstate_rel m a b
  | Failed e1, Failed e2 => e1 = e2
  | Panicked p1, Panicked p2 => p1 = p2
  | _, _ => False
  end.

Lemma stream_read_header_sim m k input o1 o2 : opts_rel m o1 o2 ->
  hdr_rel m (stream_read_header k input o1) (stream_read_header k input o2).
Proof.
  intros (Eu & _ & Em & Hm). unfold stream_read_header. rewrite (read_header_unpacked o1 o2 Eu), Em.
  fold (mem_of (o_memlimit o2)).
  destruct (src_run (map_io_err EHeaderTooShort (read_header o2)) input) as [[p|e|q] s].
  - destruct (dstate_new (pr_props p) (pr_unpacked p)) as [[d|e|q] []]; try (split; reflexivity).
    destruct (src_run rc_new s) as [[r|e|q] s']; unfold hdr_rel; cbn [fst snd sstate_rel]; (split; [reflexivity|]);
      try reflexivity.
    unfold run_rel. cbn [rs_dec rs_rc rs_out]. split; [reflexivity|]. split; [reflexivity|].
    apply circ_new_related. exact Hm.
  - destruct e; split; reflexivity.
  - split; reflexivity.
Qed.

(* ---- read_data (process_mode in Partial mode) ---- *)
Definition data_sim (m : N) (x1 x2 : outcome unit * (run_state * src)) : Prop :=
  (fst x1 = fst x2 /\ run_rel m (fst (snd x1)) (fst (snd x2)) /\ snd (snd x1) = snd (snd x2)) \/
  (fst x1 = Failed ELzma /\ ext (c_snk (rs_out (fst (snd x1)))) (c_snk (rs_out (fst (snd x2)))) /\
   m < c_blen (rs_out (fst (snd x2)))).

Theorem stream_read_data_sim m r1 r2 input : run_rel m r1 r2 ->
  data_sim m (stream_read_data r1 input) (stream_read_data r2 input).
Proof.
  intros (Ed & Er & Ho). unfold stream_read_data. rewrite Ed, Er.
  assert (HR : lw_rel m (mkLw (rs_dec r2) (rs_rc r2) input (WCirc (rs_out r1))) (mkLw (rs_dec r2) (rs_rc r2) input (WCirc (rs_out r2))))
    by (unfold lw_rel; cbn [l_ds l_rc l_src l_win win_rel]; auto).
  pose proof (process_mode_sim m Partial big_fuel _ _ HR) as S.
  pose proof (process_mode_is_circ Partial big_fuel (mkLw (rs_dec r2) (rs_rc r2) input (WCirc (rs_out r1))) I) as C1.
  destruct (process_mode Partial big_fuel (mkLw (rs_dec r2) (rs_rc r2) input (WCirc (rs_out r1)))) as [o1 x1].
  destruct (process_mode Partial big_fuel (mkLw (rs_dec r2) (rs_rc r2) input (WCirc (rs_out r2)))) as [o2 x2].
  destruct S as [[Ho12 (Ed' & Er' & Es' & Hw)]|[Ho1 [He Hl]]]; cbn [fst snd] in *.
  - left. cbn [fst snd rs_dec rs_rc rs_out]. split; [exact Ho12|]. split; [|exact Es'].
    unfold run_rel. cbn [rs_dec rs_rc rs_out]. split; [exact Ed'|]. split; [exact Er'|].
    destruct (l_win x1) as [c1|a1]; destruct (l_win x2) as [c2|a2]; cbn [win_rel] in Hw; try contradiction; exact Hw.
  - right. cbn [fst snd rs_dec rs_rc rs_out]. split; [exact Ho1|].
    destruct (l_win x1) as [c1|a1]; [|contradiction].
    destruct (l_win x2) as [c2|a2]; cbn [win_blen win_snk] in *; [split; assumption|lia].
Qed.
Print Assumptions stream_read_data_sim.

(* exactness: which alternative holds is decided by the buffer of the second stream *)
Theorem stream_read_data_mem_exact m r1 r2 input : run_rel m r1 r2 ->
  let x1 := stream_read_data r1 input in let x2 := stream_read_data r2 input in
  (c_blen (rs_out (fst (snd x2))) <= m ->
     fst x1 = fst x2 /\ run_rel m (fst (snd x1)) (fst (snd x2)) /\ snd (snd x1) = snd (snd x2)) /\
  (m < c_blen (rs_out (fst (snd x2))) ->
     fst x1 = Failed ELzma /\ ext (c_snk (rs_out (fst (snd x1)))) (c_snk (rs_out (fst (snd x2))))).
Proof.
  intros HR x1 x2. pose proof (stream_read_data_sim m r1 r2 input HR) as S. fold x1 x2 in S. split; intros Hl.
  - destruct S as [S|(_ & _ & C)]; [exact S|lia].
  - destruct S as [(_ & (_ & _ & (_ & E & _ & _ & _ & _ & _ & _ & L)) & _)|(Hf & He & _)]; [lia|split; assumption].
Qed.
Print Assumptions stream_read_data_mem_exact.

(* once over the limit, the second stream stays over it, and its sink only grows *)
Lemma stream_read_data_over m k1 r input :
  ext k1 (c_snk (rs_out r)) -> m < c_blen (rs_out r) ->
  ext k1 (c_snk (rs_out (fst (snd (stream_read_data r input))))) /\
  m < c_blen (rs_out (fst (snd (stream_read_data r input)))).
Proof.
  intros He Hl. unfold stream_read_data.
  pose proof (process_mode_keep (wdiv m k1) true (wdiv_lit m k1) (wdiv_lz m k1) Partial big_fuel
                (mkLw (rs_dec r) (rs_rc r) input (WCirc (rs_out r))) (conj He Hl)) as K.
  destruct (process_mode Partial big_fuel _) as [o x]. unfold pm_keep in K. cbn [fst snd rs_out] in *.
  destruct (K (or_intror eq_refl)) as [He' Hl'].
  destruct (l_win x) as [c|a]; cbn [win_snk win_blen] in *; [split; assumption|lia].
Qed.

(* ---- <Stream as Write>::write ---- *)
Notation ssim m := (osim (stream_rel m) (stream_div m)).

Ltac srel :=
  unfold stream_rel, dead; cbn [st_tmp st_opts st_ghost st_state ostate_rel sstate_rel]; auto.

Definition write_phase2 (s : stream) (r1 : run_state) (input : src) : outcome N * stream :=
  match stream_read_data r1 input with
  | (Done _, (r2, is)) => (Done (s_pos is), mkStream [] (Some (SData r2)) (st_opts s) (c_snk (rs_out r2)))
  | (Failed e, (r2, _)) => (Failed e, dead s [] (c_snk (rs_out r2)))
  | (Panicked p, (r2, _)) => (Panicked p, dead s [] (c_snk (rs_out r2)))
  end.

Lemma run_rel_snk m r1 r2 : run_rel m r1 r2 -> c_snk (rs_out r1) = c_snk (rs_out r2).
Proof. intros (_ & _ & (_ & _ & _ & _ & _ & E & _)). exact E. Qed.

Lemma write_phase2_over m k1 s r input :
  ext k1 (c_snk (rs_out r)) -> m < c_blen (rs_out r) ->
  ext k1 (stream_sink (snd (write_phase2 s r input))) /\ stream_over m (snd (write_phase2 s r input)).
Proof.
  intros He Hl. pose proof (stream_read_data_over m k1 r input He Hl) as [He' Hl']. unfold write_phase2.
  destruct (stream_read_data r input) as [[[]|e|p] [r2 is]]; cbn [fst snd] in *;
    unfold stream_sink, stream_over, dead; cbn [st_state st_ghost]; split; try assumption; exact I.
Qed.

Lemma write_phase2_sim m s1 s2 r1 r2 input :
  opts_rel m (st_opts s1) (st_opts s2) -> run_rel m r1 r2 ->
  ssim m (write_phase2 s1 r1 input) (write_phase2 s2 r2 input).
Proof.
  intros Ho HR. unfold write_phase2.
  pose proof (stream_read_data_sim m r1 r2 input HR) as [(Hf & Hr & Es)|(Hf & He & Hl)].
  - destruct (stream_read_data r1 input) as [o1 [r1' i1]]; destruct (stream_read_data r2 input) as [o2 [r2' i2]];
      cbn [fst snd] in *. subst o2 i2. pose proof (run_rel_snk m _ _ Hr) as Ek.
    destruct o1 as [[]|e|p]; left; cbn [fst snd]; (split; [reflexivity|]); rewrite Ek; srel.
  - destruct (stream_read_data r1 input) as [o1 [r1' i1]]; cbn [fst snd] in *. subst o1.
    right. cbn [fst snd]. split; [reflexivity|]. unfold stream_div. split; [reflexivity|].
    destruct (stream_read_data r2 input) as [[[]|e|p] [r2' i2]]; cbn [fst snd] in *;
      unfold stream_sink, stream_over, dead; cbn [st_state st_ghost]; split; try assumption; exact I.
Qed.

Lemma stream_write_split s data :
  stream_write s data =
  match st_state s with
  | None => (Done 0, s)
  | Some (SHeader k) =>
      let '(res, tmp1, pos1) :=
        if 0 <? nlen (st_tmp s) then
          let n := N.min (nlen data) (MAX_TMP_LEN - nlen (st_tmp s)) in
          let tmp := st_tmp s ++ nfirstn n data in
          match stream_read_header k (cursor_of tmp) (st_opts s) with
          | (Done (SData r), ts) => (Done (SData r), nskipn (s_pos ts) tmp, n)
          | (other, _) => (other, tmp, n)
          end
        else
          match stream_read_header k (cursor_of data) (st_opts s) with
          | (res, is) => (res, st_tmp s, s_pos is)
          end in
      match res with
      | Done (SHeader k') =>
          if nlen tmp1 =? 0 then
            let n := N.min (nlen data) MAX_TMP_LEN in
            (Done n, mkStream (nfirstn n data) (Some (SHeader k')) (st_opts s) k')
          else (Done pos1, mkStream tmp1 (Some (SHeader k')) (st_opts s) k')
      | Done (SData r) => (Done pos1, mkStream tmp1 (Some (SData r)) (st_opts s) (c_snk (rs_out r)))
      | Failed e => (Failed e, dead s tmp1 k)
      | Panicked p => (Panicked p, dead s tmp1 k)
      end
  | Some (SData r) =>
      if 0 <? nlen (st_tmp s) then
        match stream_read_data r (cursor_of (st_tmp s)) with
        | (Failed e, (r1, _)) => (Failed e, dead s (st_tmp s) (c_snk (rs_out r1)))
        | (Panicked p, (r1, _)) => (Panicked p, dead s (st_tmp s) (c_snk (rs_out r1)))
        | (Done _, (r1, _)) => write_phase2 s r1 (cursor_of data)
        end
      else write_phase2 s r (cursor_of data)
  end.
Proof.
  unfold stream_write, write_phase2. destruct (st_state s) as [[k|r]|]; try reflexivity.
  destruct (0 <? nlen (st_tmp s)); [|reflexivity].
  destruct (stream_read_data r (cursor_of (st_tmp s))) as [[[]|e|p] [r1 i1]]; reflexivity.
Qed.

Theorem stream_write_sim m s1 s2 data : stream_rel m s1 s2 ->
  ssim m (stream_write s1 data) (stream_write s2 data).
Proof.
  intros HS. pose proof HS as (Et & Ho & Eg & Hs). rewrite !stream_write_split. rewrite Et.
  destruct (st_state s1) as [[k1|r1]|]; destruct (st_state s2) as [[k2|r2]|]; cbn [ostate_rel sstate_rel] in Hs; try contradiction.
  - (* still reading the header: nothing depends on the limit *)
    subst k1.
    destruct (0 <? nlen (st_tmp s2)).
    + cbv zeta. set (n := N.min (nlen data) (MAX_TMP_LEN - nlen (st_tmp s2))). clearbody n.
      pose proof (stream_read_header_sim m k2 (cursor_of (st_tmp s2 ++ nfirstn n data)) _ _ Ho) as [Es Hh].
      destruct (stream_read_header k2 (cursor_of (st_tmp s2 ++ nfirstn n data)) (st_opts s1)) as [[[k1'|r1']|e1|p1] ts1];
        destruct (stream_read_header k2 (cursor_of (st_tmp s2 ++ nfirstn n data)) (st_opts s2)) as [[[k2'|r2']|e2|p2] ts2];
        cbn [fst snd sstate_rel] in Es, Hh; try contradiction; subst.
      * destruct (_ =? _); left; cbn [fst snd]; (split; [reflexivity|]); srel.
      * left. cbn [fst snd]. split; [reflexivity|]. rewrite (run_rel_snk m _ _ Hh). srel.
      * left. cbn [fst snd]. split; [reflexivity|]. srel.
      * left. cbn [fst snd]. split; [reflexivity|]. srel.
    + pose proof (stream_read_header_sim m k2 (cursor_of data) _ _ Ho) as [Es Hh].
      destruct (stream_read_header k2 (cursor_of data) (st_opts s1)) as [[[k1'|r1']|e1|p1] ts1];
        destruct (stream_read_header k2 (cursor_of data) (st_opts s2)) as [[[k2'|r2']|e2|p2] ts2];
        cbn [fst snd sstate_rel] in Es, Hh; try contradiction; subst.
      * destruct (_ =? _); left; cbn [fst snd]; (split; [reflexivity|]); srel.
      * left. cbn [fst snd]. split; [reflexivity|]. rewrite (run_rel_snk m _ _ Hh). srel.
      * left. cbn [fst snd]. split; [reflexivity|]. srel.
      * left. cbn [fst snd]. split; [reflexivity|]. srel.
  - (* decoding *)
    destruct (0 <? nlen (st_tmp s2)); [|apply write_phase2_sim; assumption].
    pose proof (stream_read_data_sim m r1 r2 (cursor_of (st_tmp s2)) Hs) as [(Hf & Hr & Es)|(Hf & He & Hl)].
    + destruct (stream_read_data r1 (cursor_of (st_tmp s2))) as [o1 [r1' i1]];
        destruct (stream_read_data r2 (cursor_of (st_tmp s2))) as [o2 [r2' i2]]; cbn [fst snd] in *. subst o2 i2.
      destruct o1 as [[]|e|p].
      * apply write_phase2_sim; assumption.
      * left. cbn [fst snd]. split; [reflexivity|]. rewrite (run_rel_snk m _ _ Hr). srel.
      * left. cbn [fst snd]. split; [reflexivity|]. rewrite (run_rel_snk m _ _ Hr). srel.
    + destruct (stream_read_data r1 (cursor_of (st_tmp s2))) as [o1 [r1' i1]]; cbn [fst snd] in *. subst o1.
      right. cbn [fst snd]. split; [reflexivity|]. unfold stream_div. split; [reflexivity|].
      unfold stream_sink at 1. cbn [dead st_state st_ghost].
      destruct (stream_read_data r2 (cursor_of (st_tmp s2))) as [[[]|e|p] [r2' i2]]; cbn [fst snd] in *.
      * apply write_phase2_over; assumption.
      * unfold stream_sink, stream_over, dead; cbn [st_state st_ghost]. split; [exact He|exact I].
      * unfold stream_sink, stream_over, dead; cbn [st_state st_ghost]. split; [exact He|exact I].
  - (* already dead *)
    left. cbn [fst snd]. split; [reflexivity|exact HS].
Qed.
Print Assumptions stream_write_sim.

(* exactness for one write: the limited stream reports the error exactly when the buffer of
   the other stream (if that one is still decoding) has gone beyond m *)
Theorem stream_write_mem_exact m s1 s2 data r2' : stream_rel m s1 s2 ->
  st_state (snd (stream_write s2 data)) = Some (SData r2') ->
  (c_blen (rs_out r2') <= m ->
     fst (stream_write s1 data) = fst (stream_write s2 data) /\
     stream_rel m (snd (stream_write s1 data)) (snd (stream_write s2 data))) /\
  (m < c_blen (rs_out r2') ->
     fst (stream_write s1 data) = Failed ELzma /\ st_state (snd (stream_write s1 data)) = None /\
     ext (stream_sink (snd (stream_write s1 data))) (stream_sink (snd (stream_write s2 data)))).
Proof.
  intros HS E2. pose proof (stream_write_sim m s1 s2 data HS) as S. split; intros Hl.
  - destruct S as [S|(_ & _ & _ & Ov)]; [exact S|]. unfold stream_over in Ov. rewrite E2 in Ov. lia.
  - destruct S as [(_ & (_ & _ & _ & Hs))|(Hf & Hd & He & _)]; [|auto].
    rewrite E2 in Hs. destruct (st_state (snd (stream_write s1 data))) as [[k|r1']|]; cbn [ostate_rel sstate_rel] in Hs; try contradiction.
    destruct Hs as (_ & _ & (_ & E & _ & _ & _ & _ & _ & _ & L)). lia.
Qed.
Print Assumptions stream_write_mem_exact.

(* ---- flush never looks at the limit ---- *)
Theorem stream_flush_sim m s1 s2 : stream_rel m s1 s2 ->
  fst (stream_flush s1) = fst (stream_flush s2) /\ stream_rel m (snd (stream_flush s1)) (snd (stream_flush s2)).
Proof.
  intros HS. pose proof HS as (Et & Ho & Eg & Hs). unfold stream_flush.
  destruct (st_state s1) as [[k1|r1]|] eqn:E1; destruct (st_state s2) as [[k2|r2]|] eqn:E2;
    cbn [ostate_rel sstate_rel] in Hs; try contradiction; try (cbn [fst snd]; split; [reflexivity|exact HS]).
  rewrite (run_rel_snk m _ _ Hs). destruct Hs as (Ed & Er & Hm).
  destruct (snk_flush (c_snk (rs_out r2))) as [x k|e k|p k]; cbn [fst snd]; try (split; [reflexivity|exact HS]).
  split; [reflexivity|]. unfold stream_rel. cbn [st_tmp st_opts st_ghost st_state ostate_rel sstate_rel].
  split; [exact Et|]. split; [exact Ho|]. split; [reflexivity|].
  unfold run_rel. cbn [rs_dec rs_rc rs_out]. split; [exact Ed|]. split; [exact Er|].
  unfold mem_related in *. cbn [c_buf c_blen c_dict c_mem c_cursor c_len c_snk]. tauto.
Qed.

(* ---- Stream::finish ---- *)
Theorem stream_finish_sim m s1 s2 : stream_rel m s1 s2 ->
  stream_finish s1 = stream_finish s2 \/
  (fst (stream_finish s1) = Failed ELzma /\ ext (snd (stream_finish s1)) (snd (stream_finish s2))).
Proof.
  intros HS. pose proof HS as (Et & (_ & Ea & _) & Eg & Hs). unfold stream_finish. rewrite Et, Ea, Eg.
  destruct (st_state s1) as [[k1|r1]|]; destruct (st_state s2) as [[k2|r2]|]; cbn [ostate_rel sstate_rel] in Hs; try contradiction.
  - subst k1. left. reflexivity.
  - destruct (negb (o_allow_incomplete (st_opts s2))).
    + destruct Hs as (Ed & Er & Hm). rewrite Ed, Er.
      assert (HR : lw_rel m (mkLw (rs_dec r2) (rs_rc r2) (cursor_of (st_tmp s2)) (WCirc (rs_out r1)))
                            (mkLw (rs_dec r2) (rs_rc r2) (cursor_of (st_tmp s2)) (WCirc (rs_out r2))))
        by (unfold lw_rel; cbn [l_ds l_rc l_src l_win win_rel]; auto).
      pose proof (process_mode_sim m FinishMode big_fuel _ _ HR) as S.
      pose proof (process_mode_is_circ FinishMode big_fuel (mkLw (rs_dec r2) (rs_rc r2) (cursor_of (st_tmp s2)) (WCirc (rs_out r1))) I) as C1.
      destruct (process_mode FinishMode big_fuel (mkLw (rs_dec r2) (rs_rc r2) (cursor_of (st_tmp s2)) (WCirc (rs_out r1)))) as [o1 x1].
      destruct (process_mode FinishMode big_fuel (mkLw (rs_dec r2) (rs_rc r2) (cursor_of (st_tmp s2)) (WCirc (rs_out r2)))) as [o2 x2].
      destruct S as [[Ho12 (_ & _ & _ & Hw)]|[Ho1 [He Hl]]]; cbn [fst snd] in *.
      * subst o2. left.
        destruct (l_win x1) as [c1|a1]; [|contradiction].
        destruct (l_win x2) as [c2|a2]; cbn [win_rel] in Hw; [|contradiction].
        destruct o1 as [[]|e|p].
        -- apply (circ_finish_related m). exact Hw.
        -- destruct Hw as (_ & _ & _ & _ & _ & -> & _). reflexivity.
        -- destruct Hw as (_ & _ & _ & _ & _ & -> & _). reflexivity.
      * subst o1. right. cbn [fst snd].
        destruct (l_win x1) as [c1|a1]; [|contradiction].
        destruct (l_win x2) as [c2|a2]; cbn [win_blen win_snk] in *; [|lia].
        split; [reflexivity|].
        destruct o2 as [[]|e|p]; cbn [snd]; try exact He.
        eapply ext_trans; [exact He|apply circ_finish_ext].
    + left. apply (circ_finish_related m). destruct Hs as (_ & _ & Hm). exact Hm.
  - left. reflexivity.
Qed.
Print Assumptions stream_finish_sim.

(* ---- any sequence of write / flush calls, then finish ---- *)
Lemma do_call_sim m s1 s2 c : stream_rel m s1 s2 ->
  (fst (do_call s1 c) = fst (do_call s2 c) /\ stream_rel m (snd (do_call s1 c)) (snd (do_call s2 c))) \/
  (fst (do_call s1 c) = RW (Failed ELzma) /\ stream_div m (snd (do_call s1 c)) (snd (do_call s2 c))).
Proof.
  intros HS. destruct c as [d|]; cbn [do_call].
  - pose proof (stream_write_sim m s1 s2 d HS) as S.
    destruct (stream_write s1 d) as [o1 t1]; destruct (stream_write s2 d) as [o2 t2].
    destruct S as [[Hf Hr]|[Hf Hd]]; cbn [fst snd] in *; subst o1; [left|right]; split; auto.
  - pose proof (stream_flush_sim m s1 s2 HS) as [Hf Hr].
    destruct (stream_flush s1) as [o1 t1]; destruct (stream_flush s2) as [o2 t2]; cbn [fst snd] in *.
    subst o2. left. split; auto.
Qed.

Theorem run_calls_sim m cs : forall s1 s2, stream_rel m s1 s2 ->
  (fst (run_calls s1 cs) = fst (run_calls s2 cs) /\ stream_rel m (snd (run_calls s1 cs)) (snd (run_calls s2 cs))) \/
  (In (RW (Failed ELzma)) (fst (run_calls s1 cs)) /\ st_state (snd (run_calls s1 cs)) = None /\
   ext (stream_sink (snd (run_calls s1 cs))) (stream_sink (snd (run_calls s2 cs)))).
Proof.
  induction cs as [|c cs IH]; intros s1 s2 HS; cbn [run_calls].
  - left. cbn [fst snd]. split; [reflexivity|exact HS].
  - pose proof (do_call_sim m s1 s2 c HS) as S.
    destruct (do_call s1 c) as [o1 t1]; destruct (do_call s2 c) as [o2 t2].
    destruct S as [[Hf Hr]|[Hf (Hd & He & _)]]; cbn [fst snd] in *; subst o1.
    + specialize (IH t1 t2 Hr).
      destruct (run_calls t1 cs) as [rs1 u1]; destruct (run_calls t2 cs) as [rs2 u2]; cbn [fst snd] in *.
      destruct IH as [[-> Hr']|(Hin & Hd' & He')]; [left; split; auto|right].
      split; [right; exact Hin|]. split; assumption.
    + right. destruct (dead_calls cs t1 Hd) as [_ E1].
      pose proof (run_calls_grows cs t2) as G2.
      destruct (run_calls t1 cs) as [rs1 u1]; destruct (run_calls t2 cs) as [rs2 u2]; cbn [fst snd] in *. subst u1.
      split; [left; reflexivity|]. split; [exact Hd|]. eapply ext_trans; [exact He|exact G2].
Qed.
Print Assumptions run_calls_sim.

(* the whole life of a Stream: new, any calls, finish *)
Theorem stream_mem_limit_exact o ml2 m k cs : m <= mem_of ml2 ->
  let run ml := run_calls (stream_new (with_mem o ml) k) cs in
  let fin ml := stream_finish (snd (run ml)) in
  (fst (run (Some m)) = fst (run ml2) /\ fin (Some m) = fin ml2) \/
  ((In (RW (Failed ELzma)) (fst (run (Some m))) \/ fst (run (Some m)) = fst (run ml2)) /\
   fst (fin (Some m)) = Failed ELzma /\
   exists t, snk_bytes (snd (fin ml2)) = snk_bytes (snd (fin (Some m))) ++ t).
Proof.
  intros Hm run fin.
  pose proof (run_calls_sim m cs _ _ (stream_new_rel m _ _ k (with_mem_opts_rel o ml2 m Hm))) as S.
  fold (run (Some m)) (run ml2) in S. subst fin. cbv beta.
  destruct S as [[Hr HS]|(Hin & Hd & He)].
  - destruct (stream_finish_sim m _ _ HS) as [E|[Hf Hx]].
    + left. split; assumption.
    + right. split; [right; exact Hr|]. split; assumption.
  - right. split; [left; exact Hin|]. rewrite (finish_when_dead _ Hd). cbn [fst snd]. split; [reflexivity|].
    unfold stream_sink in He at 1. rewrite Hd in He.
    destruct (stream_finish (snd (run ml2))) as [r2 k2] eqn:E2. cbn [snd].
    change (ext (st_ghost (snd (run (Some m)))) k2).
    eapply ext_trans; [exact He|]. eapply stream_finish_grows; exact E2.
Qed.
Print Assumptions stream_mem_limit_exact.

(* ---- the buffer of a Stream never exceeds its limit ---- *)
Definition stream_ok (s : stream) : Prop :=
  match st_state s with
  | Some (SData r) => blen_ok (mem_of (o_memlimit (st_opts s))) (WCirc (rs_out r))
  | _ => True
  end.

Lemma stream_read_data_blen_ok m r input : blen_ok m (WCirc (rs_out r)) ->
  blen_ok m (WCirc (rs_out (fst (snd (stream_read_data r input))))).
Proof.
  intros H. unfold stream_read_data.
  pose proof (mem_never_exceeded_process_mode m Partial big_fuel (mkLw (rs_dec r) (rs_rc r) input (WCirc (rs_out r))) H) as K.
  destruct (process_mode Partial big_fuel _) as [o x]. cbn [fst snd rs_out] in *.
  destruct (l_win x) as [c|a]; [exact K|exact H].
Qed.

Lemma stream_read_header_blen_ok k input o st s' :
  stream_read_header k input o = (Done st, s') ->
  match st with SData r => blen_ok (mem_of (o_memlimit o)) (WCirc (rs_out r)) | SHeader _ => True end.
Proof.
  unfold stream_read_header. intros H.
  destruct (src_run (map_io_err EHeaderTooShort (read_header o)) input) as [[p|e|q] s].
  - destruct (dstate_new (pr_props p) (pr_unpacked p)) as [[d|e|q] []]; try discriminate H.
    destruct (src_run rc_new s) as [[r|e|q] s'']; inversion H; subst; [|exact I].
    cbn [rs_out]. apply circ_new_blen_ok.
  - destruct e; inversion H; subst; exact I.
  - discriminate H.
Qed.

Theorem stream_write_ok s data : stream_ok s -> stream_ok (snd (stream_write s data)).
Proof.
  intros H. rewrite stream_write_split. unfold stream_ok in H.
  destruct (st_state s) as [[k|r]|] eqn:Es.
  - destruct (0 <? nlen (st_tmp s)).
    + cbv zeta. set (n := N.min (nlen data) (MAX_TMP_LEN - nlen (st_tmp s))). clearbody n.
      destruct (stream_read_header k (cursor_of (st_tmp s ++ nfirstn n data)) (st_opts s)) as [[[k'|r']|e|p] ts] eqn:E;
        try (apply stream_read_header_blen_ok in E); cbn [snd];
        try (destruct (_ =? _)); unfold stream_ok, dead; cbn [st_state st_opts]; try exact I. exact E.
    + destruct (stream_read_header k (cursor_of data) (st_opts s)) as [[[k'|r']|e|p] ts] eqn:E;
        try (apply stream_read_header_blen_ok in E); cbn [snd];
        try (destruct (_ =? _)); unfold stream_ok, dead; cbn [st_state st_opts]; try exact I. exact E.
  - assert (P2 : forall r0, blen_ok (mem_of (o_memlimit (st_opts s))) (WCirc (rs_out r0)) ->
                 stream_ok (snd (write_phase2 s r0 (cursor_of data)))).
    { intros r0 H0. unfold write_phase2.
      pose proof (stream_read_data_blen_ok _ r0 (cursor_of data) H0) as K.
      destruct (stream_read_data r0 (cursor_of data)) as [[[]|e|p] [r2 i2]]; cbn [fst snd] in *;
        unfold stream_ok, dead; cbn [st_state st_opts]; try exact I. exact K. }
    destruct (0 <? nlen (st_tmp s)); [|apply P2; exact H].
    pose proof (stream_read_data_blen_ok _ r (cursor_of (st_tmp s)) H) as K.
    destruct (stream_read_data r (cursor_of (st_tmp s))) as [[[]|e|p] [r1 i1]]; cbn [fst snd] in *;
      [apply P2; exact K| |]; unfold stream_ok, dead; cbn [st_state]; exact I.
  - cbn [snd]. unfold stream_ok. rewrite Es. exact I.
Qed.

Theorem stream_flush_ok s : stream_ok s -> stream_ok (snd (stream_flush s)).
Proof.
  intros H. unfold stream_flush. unfold stream_ok in H.
  destruct (st_state s) as [[k|r]|] eqn:Es; try (cbn [snd]; unfold stream_ok; rewrite Es; exact H).
  destruct (snk_flush (c_snk (rs_out r))) as [x k|e k|p k]; cbn [snd]; try (unfold stream_ok; rewrite Es; exact H).
  unfold stream_ok. cbn [st_state st_opts rs_out blen_ok c_mem c_blen]. exact H.
Qed.

Theorem stream_never_exceeds o k cs :
  match st_state (snd (run_calls (stream_new o k) cs)) with
  | Some (SData r) => c_blen (rs_out r) <= mem_of (o_memlimit o)
  | _ => True
  end.
Proof.
  assert (G : forall cs s, stream_ok s -> stream_ok (snd (run_calls s cs)) /\ st_opts (snd (run_calls s cs)) = st_opts s).
  { clear cs. induction cs as [|c cs IH]; intros s Hs; cbn [run_calls]; [split; [exact Hs|reflexivity]|].
    assert (H1 : stream_ok (snd (do_call s c)) /\ st_opts (snd (do_call s c)) = st_opts s).
    { destruct c as [d|]; cbn [do_call].
      - pose proof (stream_write_ok s d Hs) as W.
        assert (Eo : st_opts (snd (stream_write s d)) = st_opts s).
        { rewrite stream_write_split. destruct (st_state s) as [[k0|r]|]; [| |reflexivity].
          - destruct (0 <? nlen (st_tmp s)).
            + cbv zeta. destruct (stream_read_header k0 _ (st_opts s)) as [[[k'|r']|e|p] ts]; try (destruct (_ =? _)); reflexivity.
            + destruct (stream_read_header k0 _ (st_opts s)) as [[[k'|r']|e|p] ts]; try (destruct (_ =? _)); reflexivity.
          - assert (P2 : forall r0, st_opts (snd (write_phase2 s r0 (cursor_of d))) = st_opts s).
            { intros r0. unfold write_phase2. destruct (stream_read_data r0 (cursor_of d)) as [[[]|e|p] [r2 i2]]; reflexivity. }
            destruct (0 <? nlen (st_tmp s)); [|apply P2].
            destruct (stream_read_data r (cursor_of (st_tmp s))) as [[[]|e|p] [r1 i1]]; [apply P2|reflexivity|reflexivity]. }
        destruct (stream_write s d) as [o1 t1]. cbn [snd] in *. split; assumption.
      - pose proof (stream_flush_ok s Hs) as W.
        assert (Eo : st_opts (snd (stream_flush s)) = st_opts s).
        { unfold stream_flush. destruct (st_state s) as [[k0|r]|]; try reflexivity.
          destruct (snk_flush (c_snk (rs_out r))); reflexivity. }
        destruct (stream_flush s) as [o1 t1]. cbn [snd] in *. split; assumption. }
    destruct (do_call s c) as [o1 t1]. cbn [snd] in H1. destruct H1 as [H1 E1].
    destruct (IH t1 H1) as [H2 E2]. destruct (run_calls t1 cs) as [rs t2]. cbn [snd] in *. split; [exact H2|congruence]. }
  destruct (G cs (stream_new o k) I) as [H E]. unfold stream_ok in H. rewrite E in H. cbn [stream_new st_opts] in H.
  destruct (st_state (snd (run_calls (stream_new o k) cs))) as [[k0|r]|]; try exact I.
  cbn [blen_ok] in H. destruct H as [_ H]. exact H.
Qed.
Print Assumptions stream_never_exceeds.
