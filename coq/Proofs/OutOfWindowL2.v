(* C09 for LZMA2, end to end.  A chunk sequence  cs1 ++ [CLzma cls np (good ++ [bad]) delta]  where
   cs1 is well formed, [good] is well formed in the state reached and [bad] is a copy (match,
   short repeat, repeated match) whose distance exceeds the number of bytes produced since the
   last dictionary reset (the reset may be in cs1 or be this chunk itself: cls = 3) is rejected by
   lzma2_decompress_top with Err(LzmaError), for every fragmentation of the reader, every
   well-behaved sink, every trailing bytes, and for EVERY declared unpacked size of the last chunk
   that lets the decoder reach the copy (declared = bytes of [good] + room, room >= 1; room = 1
   is the lenient serialiser ser_chunk_gen true, room = length of the copy is the header under
   which a decoder that wrongly performed the copy would pass the size check).
   What the sink then holds is exactly the bytes that precede the last dictionary reset: a prefix
   of the output defined by cs1 and [good]; no byte is fabricated for the bad reference. *)
From LZ Require Import Base.Prelude Base.Prog Model.Io Model.Tables Model.LzBuffer Model.RangeDec Model.Lzma Model.Lzma2
  Format.RefEnc Format.Lzma2Fmt
  Proofs.ProgLemmas Proofs.MapLemmas Proofs.IoLemmas Proofs.RangeLockstep Proofs.WinCirc Proofs.WinAccum Proofs.NoPanic Proofs.NoPanicWorld
  Proofs.SymOracle Proofs.SymCoders Proofs.SymLiteral Proofs.SymDecode Proofs.SymChain
  Proofs.Lzma2Inv Proofs.Lzma2Framing Proofs.ResetFresh2
  Proofs.LzmaExactSync Proofs.LzmaExactShape Proofs.LzmaExactRefine Proofs.LzmaExactLoop Proofs.LzmaExact
  Proofs.Lzma2ExactIo Proofs.Lzma2ExactRefine Proofs.Lzma2ExactLoop Proofs.Lzma2ExactChunk Proofs.Lzma2ExactPayload
  Proofs.Lzma2ExactLzmaChunk Proofs.Lzma2ExactWf Proofs.Lzma2Exact
  Proofs.OutOfWindowSym Proofs.OutOfWindow Proofs.OutOfWindowL2Sym Proofs.OutOfWindowL2Loop.
From Coq Require Import ZifyBool ZifyNat ZifyN.
Ltac Zify.zify_post_hook ::= Z.div_mod_to_equations.
Local Open Scope prog_scope.

(* ================================================================== *)
(* the serialiser of the last chunk                                    *)
(* ================================================================== *)
(* the LZMA branch of ser_chunk_gen with the lenient encoder, declaring [room] bytes more than
   the symbols that the encoder accepted produce (ser_chunk_gen true: room = 1) *)
Definition ser_lzma_room (room : N) (s : l2state) (cls : N) (np : option fprops) (prog : list sym) (delta : N)
  : option (list N * l2state) :=
  if negb (cls <=? 3) then None else
  if negb (c_props_ok cls np) then None else
  match enc_syms_gen true (c_props s cls np) None ienc0 (c_es1 s cls np) prog with
  | None => None
  | Some (ie, es2) =>
      let unpacked := h_len (es_hist es2) - h_len (c_hist s (cls =? 3)) + room in
      let packed := nlen (ienc_bytes ie delta) in
      if (1 <=? unpacked) && (unpacked <=? 2097152) && (packed <=? 65536) then
        Some (c_header cls unpacked packed (c_props s cls np) ++ ienc_bytes ie delta,
              mkL2S (c_props s cls np) es2 (c_flushed s (cls =? 3)))
      else None
  end.

Lemma ser_lzma_room_1 s cls np prog delta :
  ser_lzma_room 1 s cls np prog delta = ser_chunk_gen true s (CLzma cls np prog delta).
Proof.
  unfold ser_lzma_room, ser_chunk_gen, c_es1, c_props, c_props_ok, c_hist, c_flushed, c_header.
  destruct (cls <=? 3); cbn [negb]; [|reflexivity].
  destruct (cls =? 3); cbv iota beta.
  - destruct np as [p0|].
    + destruct ((2 <=? cls) && (f_lc p0 + f_lp p0 <=? 4) && (f_pb p0 <=? 4)); cbn [negb]; [|reflexivity].
      destruct (enc_syms_gen true _ None ienc0 _ prog) as [[ie es2]|]; [|reflexivity].
      cbv zeta. destruct (_ && _ && _); [|reflexivity]. rewrite <- app_comm_cons, <- !app_assoc. reflexivity.
    + destruct (cls <=? 1); cbn [negb]; [|reflexivity].
      destruct (enc_syms_gen true _ None ienc0 _ prog) as [[ie es2]|]; [|reflexivity].
      cbv zeta. destruct (_ && _ && _); [|reflexivity]. rewrite <- app_comm_cons, <- !app_assoc. reflexivity.
  - destruct np as [p0|].
    + destruct ((2 <=? cls) && (f_lc p0 + f_lp p0 <=? 4) && (f_pb p0 <=? 4)); cbn [negb]; [|reflexivity].
      destruct (enc_syms_gen true _ None ienc0 _ prog) as [[ie es2]|]; [|reflexivity].
      cbv zeta. destruct (_ && _ && _); [|reflexivity]. rewrite <- app_comm_cons, <- !app_assoc. reflexivity.
    + destruct (cls <=? 1); cbn [negb]; [|reflexivity].
      destruct (enc_syms_gen true _ None ienc0 _ prog) as [[ie es2]|]; [|reflexivity].
      cbv zeta. destruct (_ && _ && _); [|reflexivity]. rewrite <- app_comm_cons, <- !app_assoc. reflexivity.
Qed.

(* the flush offset of the last chunk lies in the final interval of its (lenient) encoding *)
Definition last_ienc (s : l2state) (cls : N) (np : option fprops) (prog : list sym) : option ienc :=
  match enc_syms_gen true (c_props s cls np) None ienc0 (c_es1 s cls np) prog with
  | Some (ie, _) => Some ie
  | None => None
  end.
Definition delta_ok (s : l2state) (cls : N) (np : option fprops) (prog : list sym) (delta : N) : Prop :=
  match last_ienc s cls np prog with Some ie => delta < i_range ie | None => False end.

(* the [need] flag of Lzma2ExactChunk.v after a chunk sequence *)
Definition need_after (need : bool) (cs : list chunk) : bool := fold_left next_need cs need.

(* ================================================================== *)
(* the well-formed prefix, keeping track of [need]                     *)
(* ================================================================== *)
Theorem lzma2_chunks_exact_need pre0 fl fuel : forall cs need s w pos t bytes s_end,
  SInv need s -> ser_chunks_gen false s cs = Some (bytes, s_end) -> wf_fromb need s cs = true ->
  Forall (fun c => (chunk_syms c + 1 <= Pos.to_nat fuel)%nat) cs ->
  Inter pre0 fl s w pos (bytes ++ t) ->
  exists w', iter_step (length cs) (l2_body fuel) w = Next w' /\
             Inter pre0 fl s_end w' (pos + nlen bytes) t /\ SInv (need_after need cs) s_end.
Proof.
  induction cs as [|c rest IH]; intros need s w pos t bytes s_end HS Hser Hwf Hfuel HI.
  - cbn [ser_chunks_gen] in Hser. inversion Hser; subst bytes s_end. cbn [app] in HI.
    exists w. cbn [length iter_step need_after fold_left]. split; [reflexivity|]. split; [|exact HS].
    change (nlen (@nil N)) with 0. rewrite N.add_0_r. exact HI.
  - cbn [ser_chunks_gen wf_fromb] in Hser, Hwf.
    destruct (ser_chunk_gen false s c) as [[b1 s1]|] eqn:Ec; [|discriminate].
    destruct (ser_chunks_gen false s1 rest) as [[b2 s2]|] eqn:Er; [|discriminate].
    assert (Eb : bytes = b1 ++ b2) by congruence. assert (Es : s_end = s2) by congruence. clear Hser. subst bytes s_end.
    apply andb_true_iff in Hwf. destruct Hwf as [Hok Hwf].
    inversion Hfuel as [|? ? Hf1 Hf2]; subst.
    rewrite <- app_assoc in HI.
    destruct (chunk_exact pre0 fl need s c b1 s1 w pos (b2 ++ t) fuel HS Ec Hok Hf1 HI) as (w1 & Hb & HI1 & HS1).
    destruct (IH _ _ _ _ _ _ _ HS1 Er Hwf Hf2 HI1) as (w' & Hit & HI' & HS').
    exists w'. cbn [length iter_step]. rewrite Hb. split; [exact Hit|]. split; [|exact HS'].
    rewrite nlen_app, N.add_assoc. exact HI'.
Qed.

(* ================================================================== *)
(* the bad chunk                                                       *)
(* ================================================================== *)
Theorem lzma_chunk_rejects pre0 fl need s cls np good bad delta room hg bflag b1 s1 w pos t fuel :
  SInv need s -> (cls = 0 -> need = false) ->
  Forall (fun x => x <> EndMarker) good ->
  sem_from None (es_hist (c_es1 s cls np)) good = Some (hg, bflag) -> bad_copy2 hg bad ->
  h_len hg <= 18446744073709551615 -> 1 <= room ->
  ser_lzma_room room s cls np (good ++ [bad]) delta = Some (b1, s1) ->
  delta_ok s cls np (good ++ [bad]) delta ->
  (length good + 1 <= Pos.to_nat fuel)%nat ->
  Inter pre0 fl s w pos (b1 ++ t) ->
  exists w', l2_body fuel w = Break (Failed ELzma, w') /\
    es_hist (l2_es s1) = hg /\ l2_flushed s1 = c_flushed s (cls =? 3) /\ h_len hg = nlen (h_bytes hg) /\
    AInv (pre0 ++ List.rev (l2_flushed s1)) (w_acc w') (List.rev (h_bytes hg)).
Proof.
  intros HS Hneed' Hnm Hsem Hbad Hbound Hroom Hser Hdok Hfuel HI. unfold ser_lzma_room in Hser.
  destruct (N.leb_spec cls 3) as [Hc|]; [|discriminate]. cbn [negb] in Hser.
  destruct (c_props_ok cls np) eqn:Hok; [|discriminate]. cbn [negb] in Hser.
  unfold delta_ok, last_ienc in Hdok.
  destruct (enc_syms_gen true (c_props s cls np) None ienc0 (c_es1 s cls np) (good ++ [bad])) as [[ie es2]|] eqn:Henc;
    [|discriminate].
  rename Hdok into Hdelta.
  cbv zeta in Hser.
  set (rd := cls =? 3) in *. set (fpn := c_props s cls np) in *.
  set (u := h_len (es_hist es2) - h_len (c_hist s rd) + room) in *.
  set (payload := ienc_bytes ie delta) in *. set (packed := nlen payload) in *.
  destruct ((1 <=? u) && (u <=? 2097152) && (packed <=? 65536)) eqn:Hsz; [|discriminate].
  apply andb_true_iff in Hsz. destruct Hsz as [Hsz Hp64]. apply andb_true_iff in Hsz. destruct Hsz as [Hu1 Hu2].
  apply N.leb_le in Hu1. apply N.leb_le in Hu2. apply N.leb_le in Hp64.
  assert (Eb1 : b1 = c_header cls u packed fpn ++ payload) by congruence.
  assert (Es1 : s1 = mkL2S fpn es2 (c_flushed s rd)) by congruence.
  clear Hser. subst b1 s1.
  pose proof (c_es1_inv need s cls np HS Hneed' Hc Hok) as (P1 & P2 & Q1 & Q2 & Q3 & Q4 & Q5 & Q6 & Q7 & Q8).
  fold fpn in P1, P2, Q5. fold rd in Q7, Q8.
  pose proof HS as [S1 S2 S3 S4 S5 S6 S7 S8]. destruct HI as [I1 I2 I3 I4 I5 I6 I7 I8 I9 I10 I11 I12].
  (* sizes and control byte *)
  destruct (unpacked_fields u (conj Hu1 Hu2)) as (Hhi & Hlo & Hlor).
  set (hi := N.shiftr (u - 1) 16) in *. set (lo := N.land (u - 1) 65535) in *.
  destruct (ctl_facts cls hi Hc Hhi) as (C1 & C2 & C3).
  set (ctl := 128 + 32 * cls + hi) in *.
  assert (Hpk : packed = i_norms ie + 5) by apply nlen_ienc_bytes.
  unfold c_header in I11. fold hi lo ctl in I11.
  repeat (rewrite <- app_comm_cons in I11 || rewrite <- app_assoc in I11).
  (* the reads *)
  destruct (l2_body_read fuel w ctl _ I10 I11) as (sa & Fa & Ra & Pa & Hbody). rewrite Hbody. clear Hbody.
  rewrite (l2_dispatch_lzma fuel ctl _ C1).
  destruct (mapped_read_u16_field sa lo _ Fa Ra Hlo) as (sb & Eb & Rb & Pb & Fb).
  destruct (mapped_read_u16_field sb (packed - 1) _ Fb Rb ltac:(lia)) as (sc & Ec & Rc & Pc & Fc).
  destruct (pl_dict_exact pre0 s rd (w_ds w) sc (w_acc w) I6 I7) as (a1 & Edict & HA1 & Hm1 & Hff1 & Hfl1).
  destruct (pl_props_exact need s cls np (w_ds w) sc a1 (payload ++ t) HS Hc Hok I1 I2 I3 I4 I5 Fc Rc)
    as (ds' & sd & Eprops & D1 & D2 & D3 & D4 & D5 & Fd & Rd & Pd).
  destruct (c_es1 s cls np) as [t1 st1 h1] eqn:Ees1. cbn [es_tabs es_st es_hist] in *.
  assert (D2' : props_match (ds_props ds') fpn) by exact D2.
  assert (Q5' : TabsStd t1 (lc (ds_props ds') + lp (ds_props ds'))).
  { destruct D2' as (_ & _ & _ & E1 & E2 & _). rewrite <- E1, <- E2. exact Q5. }
  rewrite <- Q7 in HA1.
  destruct (payload_rejects fpn (ds_props ds') t1 st1 h1 good bad hg bflag ie es2 delta room
              (pre0 ++ List.rev (c_flushed s rd)) fl
              ds' sd a1 t fuel D2' D1 eq_refl D3 D4 D5 Q1 Q2 Q3 Q4 Q5' Q6 Hnm Hsem Hbad Henc Hdelta Hbound Hroom
              HA1 Hm1 ltac:(congruence) ltac:(congruence) Fd Rd Hfuel)
    as (w' & Epay & Ehist & Hlg & HA').
  assert (Hparse : parse_lzma fuel ctl (mkW2 (w_ds w) sa (w_acc w)) = (Failed ELzma, w')).
  { rewrite parse_lzma_eq. destruct (N.eqb_spec (N.land ctl 128) 0) as [E0|_]; [contradiction|].
    unfold w2_src. cbn [w_src w_ds w_acc fst snd]. rewrite Eb. cbn [fst snd w_src w_ds w_acc].
    rewrite Ec. cbn [fst snd w_src w_ds w_acc]. rewrite C2. fold rd. fold rd in Eprops. rewrite Edict, Eprops.
    unfold l2_unpacked. rewrite C3, Hlor. replace (packed - 1 + 1) with packed by lia.
    unfold u. rewrite Ehist, <- Q8. exact Epay. }
  rewrite Hparse. exists w'. split; [reflexivity|]. cbn [l2_es l2_flushed].
  split; [exact Ehist|]. split; [reflexivity|]. split; [exact Hlg|exact HA'].
Qed.
Print Assumptions lzma_chunk_rejects.

(* ================================================================== *)
(* the main theorem                                                    *)
(* ================================================================== *)
(* the general form, as a definition (it is proved below for every position of the bad chunk) *)
Definition out_of_window_rejected_statement : Prop :=
  forall cs1 cls np good bad delta room hg bflag b1 s1 b2 s2 trail frag k fuel,
  (* the chunks before the bad one: well formed, serialised by the strict serialiser *)
  wf_seq cs1 -> ser_chunks_gen false l2state0 cs1 = Some (b1, s1) ->
  (* the bad chunk: a state reset if a dictionary reset by an uncompressed chunk is pending *)
  (cls = 0 -> need_after false cs1 = false) ->
  (* its good symbols, in the state reached (dictionary / state / properties reset per cls) *)
  Forall (fun x => x <> EndMarker) good ->
  sem_from None (es_hist (c_es1 s1 cls np)) good = Some (hg, bflag) ->
  h_len hg <= 18446744073709551615 ->
  (* the copy reaching behind the bytes produced since the last dictionary reset *)
  bad_copy2 hg bad ->
  (* serialised with a declared size of (bytes of good) + room *)
  1 <= room ->
  ser_lzma_room room s1 cls np (good ++ [bad]) delta = Some (b2, s2) ->
  delta_ok s1 cls np (good ++ [bad]) delta ->
  (* sink and fuel *)
  k_wfail k = None -> k_ffail k = false ->
  fuel_ok fuel (cs1 ++ [CLzma cls np good delta]) ->
  exists w',
    lzma2_decompress_top fuel (mkIo (src_of ((b1 ++ b2) ++ trail) frag None) k) = (Failed ELzma, w') /\
    es_hist (l2_es s2) = hg /\
    (* the sink holds exactly what precedes the last dictionary reset ... *)
    snk_bytes (i_snk w') = snk_bytes k ++ lrev (l2_flushed s2) /\
    (* ... a prefix of the output defined by cs1 and good *)
    snk_bytes k ++ lrev (h_bytes hg ++ l2_flushed s2) = snk_bytes (i_snk w') ++ lrev (h_bytes hg).

Theorem lzma2_out_of_window_rejected : out_of_window_rejected_statement.
Proof.
  intros cs1 cls np good bad delta room hg bflag b1 s1 b2 s2 trail frag k fuel
         Hwf Hser1 Hneed Hnm Hsem Hbound Hbad Hroom Hser2 Hdok Hkw Hkf [Hfuel1 Hfuel2].
  rewrite app_length in Hfuel1. cbn [length] in Hfuel1.
  apply Forall_app in Hfuel2. destruct Hfuel2 as [Hfuel2 Hfuel3].
  inversion Hfuel3 as [|? ? Hfg _]; subst. cbn [chunk_syms] in Hfg.
  set (s0 := src_of ((b1 ++ b2) ++ trail) frag None).
  assert (Fs0 : FaultFree s0) by apply src_of_FaultFree.
  pose proof (Inter_init s0 k Fs0 Hkw Hkf) as HI0.
  change (s_pos s0) with 0 in HI0. change (s_rest s0) with ((b1 ++ b2) ++ trail) in HI0.
  rewrite <- app_assoc in HI0.
  destruct (lzma2_chunks_exact_need (snk_bytes k) (k_flushes k) fuel cs1 false l2state0 _ 0 (b2 ++ trail) b1 s1
              SInv_l2state0 Hser1 Hwf Hfuel2 HI0) as (w1 & Hit & HI1 & HS1).
  destruct (lzma_chunk_rejects (snk_bytes k) (k_flushes k) (need_after false cs1) s1 cls np good bad delta room hg bflag
              b2 s2 w1 _ trail fuel HS1 Hneed Hnm Hsem Hbad Hbound Hroom Hser2 Hdok Hfg HI1)
    as (w' & Hbody & Ehist & _ & Hlg & HA').
  assert (Hloop : loopN fuel (l2_body fuel) (mkW2 fresh_ds s0 (accum_new k (USIZE - 1))) = Break (Failed ELzma, w')).
  { rewrite loopN_iter. apply (iter_step_break_mono _ (length cs1 + 1)); [|lia].
    rewrite iter_step_add, Hit. cbn [iter_step]. rewrite Hbody. reflexivity. }
  unfold lzma2_decompress_top. rewrite lzma2_new_eq. unfold lzma2_decompress. cbn [l2_state i_src i_snk].
  fold s0. rewrite Hloop.
  eexists. split; [reflexivity|]. cbn [i_snk].
  assert (Hsnk : snk_bytes (a_snk (w_acc w')) = snk_bytes k ++ lrev (l2_flushed s2)).
  { destruct HA' as (_ & _ & _ & Hs & _). rewrite Hs, lrev_rev. reflexivity. }
  split; [exact Ehist|]. split; [exact Hsnk|].
  rewrite Hsnk, !lrev_rev, rev_app_distr, app_assoc. reflexivity.
Qed.
Print Assumptions lzma2_out_of_window_rejected.

(* ================================================================== *)
(* corollaries                                                         *)
(* ================================================================== *)
(* the prefix form of the conclusion *)
Corollary lzma2_out_of_window_rejected_prefix cs1 cls np good bad delta room hg bflag b1 s1 b2 s2 trail frag k fuel :
  wf_seq cs1 -> ser_chunks_gen false l2state0 cs1 = Some (b1, s1) ->
  (cls = 0 -> need_after false cs1 = false) ->
  Forall (fun x => x <> EndMarker) good ->
  sem_from None (es_hist (c_es1 s1 cls np)) good = Some (hg, bflag) ->
  h_len hg <= 18446744073709551615 ->
  bad_copy2 hg bad -> 1 <= room ->
  ser_lzma_room room s1 cls np (good ++ [bad]) delta = Some (b2, s2) ->
  delta_ok s1 cls np (good ++ [bad]) delta ->
  k_wfail k = None -> k_ffail k = false ->
  fuel_ok fuel (cs1 ++ [CLzma cls np good delta]) ->
  exists w' e,
    lzma2_decompress_top fuel (mkIo (src_of ((b1 ++ b2) ++ trail) frag None) k) = (Failed e, w') /\
    exists t, snk_bytes k ++ lrev (h_bytes (es_hist (l2_es s2)) ++ l2_flushed s2) = snk_bytes (i_snk w') ++ t.
Proof.
  intros H1 H2 H3 H4 H5 H6 H7 H8 H9 H10 H11 H12 H13.
  destruct (lzma2_out_of_window_rejected cs1 cls np good bad delta room hg bflag b1 s1 b2 s2 trail frag k fuel
              H1 H2 H3 H4 H5 H6 H7 H8 H9 H10 H11 H12 H13) as (w' & Hrun & Eh & _ & Hpre).
  exists w', ELzma. split; [exact Hrun|]. exists (lrev (h_bytes hg)). rewrite Eh. exact Hpre.
Qed.

(* the lenient serialiser of Format/Lzma2Fmt.v (declared = produced + 1) *)
Corollary lzma2_out_of_window_rejected_lenient cs1 cls np good bad delta hg bflag b1 s1 b2 s2 trail frag k fuel :
  wf_seq cs1 -> ser_chunks_gen false l2state0 cs1 = Some (b1, s1) ->
  (cls = 0 -> need_after false cs1 = false) ->
  Forall (fun x => x <> EndMarker) good ->
  sem_from None (es_hist (c_es1 s1 cls np)) good = Some (hg, bflag) ->
  h_len hg <= 18446744073709551615 ->
  bad_copy2 hg bad ->
  ser_chunk_gen true s1 (CLzma cls np (good ++ [bad]) delta) = Some (b2, s2) ->
  delta_ok s1 cls np (good ++ [bad]) delta ->
  k_wfail k = None -> k_ffail k = false ->
  fuel_ok fuel (cs1 ++ [CLzma cls np good delta]) ->
  exists w',
    lzma2_decompress_top fuel (mkIo (src_of ((b1 ++ b2) ++ trail) frag None) k) = (Failed ELzma, w') /\
    es_hist (l2_es s2) = hg /\
    snk_bytes (i_snk w') = snk_bytes k ++ lrev (l2_flushed s2) /\
    snk_bytes k ++ lrev (h_bytes hg ++ l2_flushed s2) = snk_bytes (i_snk w') ++ lrev (h_bytes hg).
Proof.
  intros H1 H2 H3 H4 H5 H6 H7 H9 H10 H11 H12 H13. rewrite <- ser_lzma_room_1 in H9.
  exact (lzma2_out_of_window_rejected cs1 cls np good bad delta 1 hg bflag b1 s1 b2 s2 trail frag k fuel
           H1 H2 H3 H4 H5 H6 H7 (N.le_refl 1) H9 H10 H11 H12 H13).
Qed.

(* the header that makes room for the whole copy: a decoder that performed the copy would
   produce exactly the declared number of bytes *)
Corollary lzma2_out_of_window_rejected_fit cs1 cls np good bad delta hg bflag b1 s1 b2 s2 trail frag k fuel :
  wf_seq cs1 -> ser_chunks_gen false l2state0 cs1 = Some (b1, s1) ->
  (cls = 0 -> need_after false cs1 = false) ->
  Forall (fun x => x <> EndMarker) good ->
  sem_from None (es_hist (c_es1 s1 cls np)) good = Some (hg, bflag) ->
  h_len hg <= 18446744073709551615 ->
  bad_copy2 hg bad ->
  ser_lzma_room (copy_len bad) s1 cls np (good ++ [bad]) delta = Some (b2, s2) ->
  delta_ok s1 cls np (good ++ [bad]) delta ->
  k_wfail k = None -> k_ffail k = false ->
  fuel_ok fuel (cs1 ++ [CLzma cls np good delta]) ->
  exists w',
    lzma2_decompress_top fuel (mkIo (src_of ((b1 ++ b2) ++ trail) frag None) k) = (Failed ELzma, w') /\
    es_hist (l2_es s2) = hg /\
    snk_bytes (i_snk w') = snk_bytes k ++ lrev (l2_flushed s2) /\
    snk_bytes k ++ lrev (h_bytes hg ++ l2_flushed s2) = snk_bytes (i_snk w') ++ lrev (h_bytes hg).
Proof.
  intros H1 H2 H3 H4 H5 H6 H7 H9 H10 H11 H12 H13.
  exact (lzma2_out_of_window_rejected cs1 cls np good bad delta (copy_len bad) hg bflag b1 s1 b2 s2 trail frag k fuel
           H1 H2 H3 H4 H5 H6 H7 (bad_copy2_len hg bad H7) H9 H10 H11 H12 H13).
Qed.
Print Assumptions lzma2_out_of_window_rejected_fit.

(* (a) the bad chunk is the first chunk of the stream *)
Corollary lzma2_out_of_window_rejected_first cls np good bad delta room hg bflag b2 s2 trail frag k fuel :
  Forall (fun x => x <> EndMarker) good ->
  sem_from None (es_hist (c_es1 l2state0 cls np)) good = Some (hg, bflag) ->
  h_len hg <= 18446744073709551615 ->
  bad_copy2 hg bad -> 1 <= room ->
  ser_lzma_room room l2state0 cls np (good ++ [bad]) delta = Some (b2, s2) ->
  delta_ok l2state0 cls np (good ++ [bad]) delta ->
  k_wfail k = None -> k_ffail k = false ->
  (length good + 1 <= Pos.to_nat fuel)%nat -> (2 <= Pos.to_nat fuel)%nat ->
  exists w',
    lzma2_decompress_top fuel (mkIo (src_of (b2 ++ trail) frag None) k) = (Failed ELzma, w') /\
    snk_bytes (i_snk w') = snk_bytes k.
Proof.
  intros H4 H5 H6 H7 H8 H9 H10 H11 H12 Hf1 Hf2.
  destruct (lzma2_out_of_window_rejected [] cls np good bad delta room hg bflag [] l2state0 b2 s2 trail frag k fuel)
    as (w' & Hrun & _ & Hs & _); try assumption; try reflexivity.
  { split; [cbn [app length]; lia|]. cbn [app]. constructor; [exact Hf1|constructor]. }
  cbn [app] in Hrun. exists w'. split; [exact Hrun|].
  rewrite Hs. unfold ser_lzma_room in H9.
  destruct (negb (cls <=? 3)); [discriminate|]. destruct (negb (c_props_ok cls np)); [discriminate|].
  destruct (enc_syms_gen true _ None ienc0 _ (good ++ [bad])) as [[ie es2]|]; [|discriminate].
  cbv zeta in H9. destruct (_ && _ && _); [|discriminate].
  assert (E : s2 = mkL2S (c_props l2state0 cls np) es2 (c_flushed l2state0 (cls =? 3))) by congruence.
  rewrite E. cbn [l2_flushed]. unfold c_flushed. destruct (cls =? 3); cbn; rewrite app_nil_r; reflexivity.
Qed.

(* (b) the bad chunk directly after a dictionary-resetting uncompressed chunk: only the bytes
   of that chunk (plus what this chunk produced) are in reach, and a state reset is required *)
Corollary lzma2_out_of_window_rejected_after_raw_reset cs0 data cls np good bad delta room hg bflag b1 s1 b2 s2 trail frag k fuel :
  wf_seq (cs0 ++ [CRaw true data]) -> ser_chunks_gen false l2state0 (cs0 ++ [CRaw true data]) = Some (b1, s1) ->
  cls <> 0 ->
  Forall (fun x => x <> EndMarker) good ->
  sem_from None (es_hist (c_es1 s1 cls np)) good = Some (hg, bflag) ->
  h_len hg <= 18446744073709551615 ->
  bad_copy2 hg bad -> 1 <= room ->
  ser_lzma_room room s1 cls np (good ++ [bad]) delta = Some (b2, s2) ->
  delta_ok s1 cls np (good ++ [bad]) delta ->
  k_wfail k = None -> k_ffail k = false ->
  fuel_ok fuel ((cs0 ++ [CRaw true data]) ++ [CLzma cls np good delta]) ->
  exists w',
    lzma2_decompress_top fuel (mkIo (src_of ((b1 ++ b2) ++ trail) frag None) k) = (Failed ELzma, w') /\
    es_hist (l2_es s2) = hg /\
    snk_bytes (i_snk w') = snk_bytes k ++ lrev (l2_flushed s2) /\
    snk_bytes k ++ lrev (h_bytes hg ++ l2_flushed s2) = snk_bytes (i_snk w') ++ lrev (h_bytes hg).
Proof.
  intros H1 H2 H3 H4 H5 H6 H7 H8 H9 H10 H11 H12 H13.
  apply (lzma2_out_of_window_rejected (cs0 ++ [CRaw true data]) cls np good bad delta room hg bflag b1 s1 b2 s2 trail frag k fuel);
    try assumption.
  intros E. contradiction.
Qed.

(* ================================================================== *)
(* the flush offset 0 is always admissible                             *)
(* ================================================================== *)
Lemma delta_ok_zero need s cls np good bad hg bflag b2 s2 room :
  SInv need s -> (cls = 0 -> need = false) ->
  Forall (fun x => x <> EndMarker) good ->
  sem_from None (es_hist (c_es1 s cls np)) good = Some (hg, bflag) -> bad_copy2 hg bad ->
  ser_lzma_room room s cls np (good ++ [bad]) 0 = Some (b2, s2) ->
  delta_ok s cls np (good ++ [bad]) 0.
Proof.
  intros HS Hneed Hnm Hsem Hbad Hser. unfold ser_lzma_room in Hser. unfold delta_ok, last_ienc.
  destruct (N.leb_spec cls 3) as [Hc|]; [|discriminate]. cbn [negb] in Hser.
  destruct (c_props_ok cls np) eqn:Hok; [|discriminate]. cbn [negb] in Hser.
  destruct (enc_syms_gen true (c_props s cls np) None ienc0 (c_es1 s cls np) (good ++ [bad])) as [[ie es2]|] eqn:Henc;
    [|discriminate].
  pose proof (c_es1_inv need s cls np HS Hneed Hc Hok) as (_ & _ & _ & _ & _ & _ & _ & Q6 & _).
  destruct (c_es1 s cls np) as [t1 st1 h1]. cbn [es_tabs es_hist] in *.
  destruct (enc_lenient_good_bad _ None bad good ienc0 t1 st1 h1 hg bflag ie es2 Hnm Hsem
              (bad_copy2_not_marker hg bad Hbad) (bad_copy2_sem hg bad Hbad) Henc)
    as (evg & stg & _ & Hfold & _).
  apply (f_equal fst) in Hfold. cbn [fst] in Hfold. rewrite fold_ev_rev in Hfold. rewrite <- Hfold.
  assert (W : wf_ienc (fold_left ienc_rev (to_revs t1 (evg ++ fst (sym_evs (c_props s cls np) stg hg bad))) ienc0)).
  { apply ienc_fold_wf; [exact wf_ienc0|]. apply to_revs_wf. exact Q6. }
  unfold wf_ienc in W. lia.
Qed.

(* ================================================================== *)
(* the output named in the theorem is the output of the strict stream  *)
(* ================================================================== *)
Lemma prog_evs_sem_from fp w : forall prog st h evs stf hf,
  Forall (fun x => x <> EndMarker) prog -> prog_evs fp w st h prog = Some (evs, stf, hf) ->
  sem_from w h prog = Some (hf, false).
Proof.
  induction prog as [|x rest IH]; intros st h evs stf hf Hnm Hpe.
  - cbn [prog_evs] in Hpe. inversion Hpe; subst. reflexivity.
  - inversion Hnm as [|? ? Hx Hnm']; subst.
    rewrite (prog_evs_cons fp w st h x rest Hx) in Hpe. rewrite (sem_from_cons w h x rest Hx).
    destruct (sem_sym w h x) as [h'|]; [|discriminate].
    destruct (prog_evs fp w (snd (sym_evs fp st h x)) h' rest) as [[[l st2] h2]|] eqn:Ep; [|discriminate].
    inversion Hpe; subst. exact (IH _ _ _ _ _ Hnm' Ep).
Qed.

Lemma ser_chunks_gen_app l : forall cs1 s cs2 b1 s1,
  ser_chunks_gen l s cs1 = Some (b1, s1) ->
  ser_chunks_gen l s (cs1 ++ cs2) =
  match ser_chunks_gen l s1 cs2 with Some (b2, s2) => Some (b1 ++ b2, s2) | None => None end.
Proof.
  induction cs1 as [|c rest IH]; intros s cs2 b1 s1 H; cbn [ser_chunks_gen app] in *.
  - inversion H; subst. destruct (ser_chunks_gen l s1 cs2) as [[b2 s2]|]; reflexivity.
  - destruct (ser_chunk_gen l s c) as [[bc sc]|]; [|discriminate].
    destruct (ser_chunks_gen l sc rest) as [[br sr]|] eqn:Er; [|discriminate].
    inversion H; subst. rewrite (IH _ cs2 _ _ Er).
    destruct (ser_chunks_gen l s1 cs2) as [[b2 s2]|]; [|reflexivity]. rewrite app_assoc. reflexivity.
Qed.

(* whenever the sequence without the bad symbol has a strict serialisation, the bytes it defines
   (ser2) are the [lrev (h_bytes hg ++ l2_flushed s2)] of the main theorem *)
Theorem good_output_is_ser2 cs1 cls np good bad delta delta' room hg bflag b1 s1 b2 s2 bytes out :
  ser_chunks_gen false l2state0 cs1 = Some (b1, s1) ->
  Forall (fun x => x <> EndMarker) good ->
  sem_from None (es_hist (c_es1 s1 cls np)) good = Some (hg, bflag) ->
  ser_lzma_room room s1 cls np (good ++ [bad]) delta = Some (b2, s2) ->
  ser2_gen false (cs1 ++ [CLzma cls np good delta']) = Some (bytes, out) ->
  out = lrev (h_bytes hg ++ l2_flushed s2).
Proof.
  intros Hser1 Hnm Hsem Hser2 Hs2. unfold ser2_gen in Hs2.
  rewrite (ser_chunks_gen_app false cs1 l2state0 _ b1 s1 Hser1) in Hs2.
  cbn [ser_chunks_gen] in Hs2. rewrite ser_lzma_eq in Hs2. unfold ser_lzma_room in Hser2.
  destruct (negb (cls <=? 3)); [discriminate|]. destruct (negb (c_props_ok cls np)); [discriminate|].
  destruct (enc_syms_gen true _ None ienc0 _ (good ++ [bad])) as [[ie es2]|]; [|discriminate].
  cbv zeta in Hser2. destruct (_ && _ && _) in Hser2; [|discriminate].
  assert (E2 : s2 = mkL2S (c_props s1 cls np) es2 (c_flushed s1 (cls =? 3))) by congruence. clear Hser2.
  destruct (enc_syms_gen false (c_props s1 cls np) None ienc0 (c_es1 s1 cls np) good) as [[ieg esg]|] eqn:Eg; [|discriminate].
  cbv zeta in Hs2. destruct (_ && _ && _) in Hs2; [|discriminate].
  inversion Hs2; subst bytes out s2. cbn [l2_es l2_flushed]. clear Hs2.
  destruct (c_es1 s1 cls np) as [t1 st1 h1]. cbn [es_hist] in Hsem.
  destruct (enc_syms_prog_evs _ None good ienc0 t1 st1 h1 ieg esg Eg) as (evs & Hpe & _).
  pose proof (prog_evs_sem_from _ None good st1 h1 evs _ _ Hnm Hpe) as Hsf.
  rewrite Hsem in Hsf. inversion Hsf; subst. reflexivity.
Qed.
Print Assumptions good_output_is_ser2.
