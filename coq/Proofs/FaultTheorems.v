(* C12: I/O failures propagate as errors; success implies flush; the sink only grows.
   Instances of the layered invariants of Proofs/FaultProp.v. *)
From LZ Require Import Base.Prelude Base.Prog Model.Io Model.Tables Model.LzBuffer Model.RangeDec
  Model.Lzma Model.Lzma2 Model.Xz Model.Enc Proofs.ProgLemmas Proofs.IoLemmas Proofs.FaultProp.

(* the failing refill / write call has been attempted *)
Definition src_hit (s : src) : bool := match s_fail s with Some j => j <? s_refills s | None => false end.
Definition snk_hit (k : snk) : bool := match k_wfail k with Some j => j <? k_calls k | None => false end.
Definition no_hit (w : io) : Prop := src_hit (i_src w) = false /\ snk_hit (i_snk w) = false.

(* ---------- facts about the four primitive operations ---------- *)
Lemma snk_flush_ok k u k' : snk_flush k = HOk u k' ->
  k_ffail k = false /\
  k' = mkSnk (k_out k) (k_count k) (k_calls k) (k_accept k) (k_wfail k) (k_flushes k + 1) (k_ffail k).
Proof. unfold snk_flush. destruct (k_ffail k); intros H; inversion H; auto. Qed.

(* ======================================================================= *)
(* Instance 1: no injected fault has been hit, unless the outcome is Failed EIo *)
Definition PsHit (b : ocls) (s : src) : Prop := match b with KFail EIo => True | _ => src_hit s = false end.
Definition PkHit (b : ocls) (k : snk) : Prop := match b with KFail EIo => True | _ => snk_hit k = false end.

Lemma PsHit_any b s : PsHit KDone s -> PsHit b s.
Proof. destruct b as [|[]|]; cbn [PsHit]; auto. Qed.
Lemma PkHit_any b k : PkHit KDone k -> PkHit b k.
Proof. destruct b as [|[]|]; cbn [PkHit]; auto. Qed.

Lemma PsHit_fill s : PsHit KDone s ->
  match src_fill s with HOk _ s' => PsHit KDone s' | HErr e s' => PsHit (KFail e) s' | HPanic _ s' => PsHit KPanic s' end.
Proof.
  cbn [PsHit]. unfold src_hit, src_fill. intros H.
  assert (G : match (if 0 <? s_avail s then HOk (s_rest s, limited s (s_avail s)) s
      else match s_rest s with
      | [] => HOk ([], 0) s
      | _ =>
        if (match s_fail s with Some k => k =? s_refills s | None => false end)
        then HErr EIo (mkSrc (s_rest s) (s_pos s) 0 (s_refills s + 1) (s_frag s) (s_fail s) (s_limit s))
        else
          let want := N.max 1 (s_frag s (s_refills s)) in
          let a := nmin_len want (s_rest s) in
          let s' := mkSrc (s_rest s) (s_pos s) a (s_refills s + 1) (s_frag s) (s_fail s) (s_limit s) in
          HOk (s_rest s, limited s' a) s'
      end) with
    | HOk _ s' => match s_fail s' with Some j => j <? s_refills s' | None => false end = false
    | HErr e s' => PsHit (KFail e) s'
    | HPanic _ s' => match s_fail s' with Some j => j <? s_refills s' | None => false end = false
    end).
  { destruct (0 <? s_avail s); [exact H|]. destruct (s_rest s); [exact H|].
    destruct (s_fail s) as [j|]; [|cbn [s_fail]; reflexivity].
    destruct (N.eqb_spec j (s_refills s)); [exact I|]. cbv zeta. cbn [s_fail s_refills].
    apply N.ltb_ge. apply N.ltb_ge in H. lia. }
  destruct (s_limit s) as [[|p]|]; try exact G. exact H.
Qed.

Lemma PsHit_consume s n : PsHit KDone s -> PsHit KDone (src_consume s n).
Proof. exact (fun H => H). Qed.
Lemma PsHit_limit b s l : PsHit b s -> PsHit b (set_limit s l).
Proof. exact (fun H => H). Qed.

Lemma PkHit_write k bs : PkHit KDone k ->
  match snk_write k bs with HOk _ k' => PkHit KDone k' | HErr e k' => PkHit (KFail e) k' | HPanic _ k' => PkHit KPanic k' end.
Proof.
  cbn [PkHit]. unfold snk_hit, snk_write. intros H.
  destruct (k_wfail k) as [j|] eqn:E; [|cbv zeta; cbn [k_wfail]; rewrite ?E; reflexivity].
  destruct (N.eqb_spec j (k_calls k)); [exact I|]. cbv zeta. cbn [k_wfail k_calls]. rewrite ?E.
  apply N.ltb_ge. apply N.ltb_ge in H. lia.
Qed.
Lemma PkHit_flush k : PkHit KDone k ->
  match snk_flush k with HOk _ k' => PkHit KDone k' | HErr e k' => PkHit (KFail e) k' | HPanic _ k' => PkHit KPanic k' end.
Proof.
  cbn [PkHit]. unfold snk_hit, snk_flush. intros H. destruct (k_ffail k); [exact I|exact H].
Qed.

(* what the hit instance says about a whole run *)
Definition Propagates {A} (w : io) (r : outcome A) (w' : io) : Prop :=
  no_hit w -> no_hit w' \/ r = Failed EIo.

Lemma IoI_hit_propagates {A} w (r : outcome A) w' :
  (IoI PsHit PkHit KDone w -> IoI PsHit PkHit (cls r) w') -> Propagates w r w'.
Proof.
  intros H [Hs Hk]. specialize (H (conj Hs Hk)). destruct H as [A1 A2].
  destruct r as [a|[]|q]; cbn [cls PsHit PkHit] in *; auto; left; split; assumption.
Qed.

Lemma IoFin_hit_propagates {A} w (r : outcome A) w' :
  (PsHit KDone (i_src w) -> PkHit KDone (i_snk w) -> IoFin PsHit PkHit r w') -> Propagates w r w'.
Proof.
  intros H [Hs Hk]. specialize (H Hs Hk). destruct H as [A1 A2].
  destruct r as [a|[]|q]; cbn [cls PsHit PkHit FinPost] in *; auto; left; split; try assumption.
  destruct A2 as (k1 & B1 & B2). apply snk_flush_ok in B2. destruct B2 as [_ ->]. exact B1.
Qed.

(* ---------- goal (a) ---------- *)
Theorem lzma_fault_propagates fuel o w r w' :
  lzma_decompress fuel o w = (r, w') -> Propagates w r w'.
Proof.
  intros E. apply IoFin_hit_propagates. intros Hs Hk.
  pose proof (lzma_decompress_inv PsHit PkHit PsHit_any PkHit_any PsHit_fill PsHit_consume PkHit_write fuel o w Hs Hk) as H.
  rewrite E in H. exact H.
Qed.
Print Assumptions lzma_fault_propagates.

Theorem lzma2_fault_propagates fuel w r w' :
  lzma2_decompress_top fuel w = (r, w') -> Propagates w r w'.
Proof.
  intros E. apply IoFin_hit_propagates. intros Hs Hk.
  pose proof (lzma2_decompress_top_inv PsHit PkHit PsHit_any PkHit_any PsHit_fill PsHit_consume PsHit_limit PkHit_write fuel w Hs Hk) as H.
  rewrite E in H. exact H.
Qed.
Print Assumptions lzma2_fault_propagates.

Theorem xz_fault_propagates crc32 crc64 fuel w r w' :
  xz_decompress crc32 crc64 fuel w = (r, w') -> Propagates w r w'.
Proof.
  intros E. apply IoI_hit_propagates. intros Hw.
  pose proof (xz_decompress_inv PsHit PkHit PsHit_any PkHit_any PsHit_fill PsHit_consume PsHit_limit PkHit_write PkHit_flush
                crc32 crc64 fuel w Hw) as H.
  rewrite E in H. exact H.
Qed.
Print Assumptions xz_fault_propagates.

Theorem lzma_compress_fault_propagates fuel o w r w' :
  lzma_compress fuel o w = (r, w') -> Propagates w r w'.
Proof.
  intros E. apply IoI_hit_propagates. intros Hw.
  pose proof (lzma_compress_inv PsHit PkHit PsHit_any PkHit_any PsHit_fill PsHit_consume PkHit_write PkHit_flush fuel o w Hw) as H.
  rewrite E in H. exact H.
Qed.
Print Assumptions lzma_compress_fault_propagates.

Theorem lzma2_compress_fault_propagates fuel w r w' :
  lzma2_compress fuel w = (r, w') -> Propagates w r w'.
Proof.
  intros E. apply IoI_hit_propagates. intros Hw.
  pose proof (lzma2_compress_inv PsHit PkHit PsHit_any PkHit_any PsHit_fill PsHit_consume PkHit_write PkHit_flush fuel w Hw) as H.
  rewrite E in H. exact H.
Qed.
Print Assumptions lzma2_compress_fault_propagates.

Theorem xz_compress_fault_propagates crc32 fuel w r w' :
  xz_compress crc32 fuel w = (r, w') -> Propagates w r w'.
Proof.
  intros E. apply IoI_hit_propagates. intros Hw.
  pose proof (xz_compress_inv PsHit PkHit PsHit_any PkHit_any PsHit_fill PsHit_consume PkHit_write PkHit_flush crc32 fuel w Hw) as H.
  rewrite E in H. exact H.
Qed.
Print Assumptions xz_compress_fault_propagates.

(* the statements asked for: Done means that no injected fault was hit *)
Lemma propagates_no_swallow w (w' : io) : Propagates w (Done tt) w' -> no_hit w ->
  src_hit (i_src w') = false /\ snk_hit (i_snk w') = false.
Proof. intros H Hn. destruct (H Hn) as [A|A]; [exact A|discriminate]. Qed.

Theorem lzma_no_swallow fuel o w w' : no_hit w -> lzma_decompress fuel o w = (Done tt, w') ->
  src_hit (i_src w') = false /\ snk_hit (i_snk w') = false.
Proof. intros Hn E. eapply propagates_no_swallow; [eapply lzma_fault_propagates; exact E|exact Hn]. Qed.
Theorem lzma2_no_swallow fuel w w' : no_hit w -> lzma2_decompress_top fuel w = (Done tt, w') ->
  src_hit (i_src w') = false /\ snk_hit (i_snk w') = false.
Proof. intros Hn E. eapply propagates_no_swallow; [eapply lzma2_fault_propagates; exact E|exact Hn]. Qed.
Theorem xz_no_swallow crc32 crc64 fuel w w' : no_hit w -> xz_decompress crc32 crc64 fuel w = (Done tt, w') ->
  src_hit (i_src w') = false /\ snk_hit (i_snk w') = false.
Proof. intros Hn E. eapply propagates_no_swallow; [eapply xz_fault_propagates; exact E|exact Hn]. Qed.
Theorem lzma_compress_no_swallow fuel o w w' : no_hit w -> lzma_compress fuel o w = (Done tt, w') ->
  src_hit (i_src w') = false /\ snk_hit (i_snk w') = false.
Proof. intros Hn E. eapply propagates_no_swallow; [eapply lzma_compress_fault_propagates; exact E|exact Hn]. Qed.
Theorem lzma2_compress_no_swallow fuel w w' : no_hit w -> lzma2_compress fuel w = (Done tt, w') ->
  src_hit (i_src w') = false /\ snk_hit (i_snk w') = false.
Proof. intros Hn E. eapply propagates_no_swallow; [eapply lzma2_compress_fault_propagates; exact E|exact Hn]. Qed.
Theorem xz_compress_no_swallow crc32 fuel w w' : no_hit w -> xz_compress crc32 fuel w = (Done tt, w') ->
  src_hit (i_src w') = false /\ snk_hit (i_snk w') = false.
Proof. intros Hn E. eapply propagates_no_swallow; [eapply xz_compress_fault_propagates; exact E|exact Hn]. Qed.
Print Assumptions lzma_no_swallow.
Print Assumptions xz_compress_no_swallow.

(* ======================================================================= *)
(* Instance 2: the fault configuration never changes and the call counters only grow
   (so a fault that has been hit stays hit) *)
Definition PsCfg (f : option N) (n : N) (b : ocls) (s : src) : Prop := s_fail s = f /\ n <= s_refills s.
Definition PkCfg (wf : option N) (ff : bool) (n : N) (b : ocls) (k : snk) : Prop :=
  k_wfail k = wf /\ k_ffail k = ff /\ n <= k_calls k.

Lemma PsCfg_fill f n s : PsCfg f n KDone s ->
  match src_fill s with HOk _ s' => PsCfg f n KDone s' | HErr e s' => PsCfg f n (KFail e) s' | HPanic _ s' => PsCfg f n KPanic s' end.
Proof.
  unfold PsCfg, src_fill. intros [H1 H2].
  destruct (s_limit s) as [[|p]|]; (try (split; assumption));
    (destruct (0 <? s_avail s); [split; assumption|]; destruct (s_rest s); [split; assumption|];
     destruct (match s_fail s with Some k => k =? s_refills s | None => false end); cbv zeta; cbn [s_fail s_refills]; split; try assumption; lia).
Qed.

Lemma PkCfg_write wf ff n k bs : PkCfg wf ff n KDone k ->
  match snk_write k bs with HOk _ k' => PkCfg wf ff n KDone k' | HErr e k' => PkCfg wf ff n (KFail e) k' | HPanic _ k' => PkCfg wf ff n KPanic k' end.
Proof.
  unfold PkCfg, snk_write. intros (H1 & H2 & H3).
  destruct (match k_wfail k with Some j => j =? k_calls k | None => false end); cbv zeta; cbn [k_wfail k_ffail k_calls];
    repeat split; try assumption; lia.
Qed.
Lemma PkCfg_flush wf ff n k : PkCfg wf ff n KDone k ->
  match snk_flush k with HOk _ k' => PkCfg wf ff n KDone k' | HErr e k' => PkCfg wf ff n (KFail e) k' | HPanic _ k' => PkCfg wf ff n KPanic k' end.
Proof.
  unfold PkCfg, snk_flush. intros H. destruct (k_ffail k) eqn:E; cbn [k_wfail k_ffail k_calls]; rewrite ?E; exact H.
Qed.

Definition CfgKept (w w' : io) : Prop :=
  s_fail (i_src w') = s_fail (i_src w) /\ s_refills (i_src w) <= s_refills (i_src w') /\
  k_wfail (i_snk w') = k_wfail (i_snk w) /\ k_ffail (i_snk w') = k_ffail (i_snk w) /\ k_calls (i_snk w) <= k_calls (i_snk w').

Lemma CfgKept_hit w w' : CfgKept w w' ->
  (src_hit (i_src w) = true -> src_hit (i_src w') = true) /\ (snk_hit (i_snk w) = true -> snk_hit (i_snk w') = true).
Proof.
  intros (A & B & C & D & E). unfold src_hit, snk_hit. rewrite A, C. split.
  - destruct (s_fail (i_src w)); [|auto]. rewrite !N.ltb_lt. lia.
  - destruct (k_wfail (i_snk w)); [|auto]. rewrite !N.ltb_lt. lia.
Qed.

Section CfgInst.
Variable w : io.
Let Ps := PsCfg (s_fail (i_src w)) (s_refills (i_src w)).
Let Pk := PkCfg (k_wfail (i_snk w)) (k_ffail (i_snk w)) (k_calls (i_snk w)).

Lemma Cfg_init : Ps KDone (i_src w) /\ Pk KDone (i_snk w).
Proof. unfold Ps, Pk, PsCfg, PkCfg. repeat split; lia. Qed.

Lemma IoI_cfg {A} (r : outcome A) w' : IoI Ps Pk (cls r) w' -> CfgKept w w'.
Proof. intros [[A1 A2] (B1 & B2 & B3)]. repeat split; assumption. Qed.

Lemma IoFin_cfg {A} (r : outcome A) w' : IoFin Ps Pk r w' -> CfgKept w w'.
Proof.
  intros [[A1 A2] F]. assert (B : Pk KDone (i_snk w')).
  { destruct r; cbn [FinPost cls] in F; try exact F.
    destruct F as (k1 & B & E). apply snk_flush_ok in E. destruct E as [_ ->]. exact B. }
  destruct B as (B1 & B2 & B3). repeat split; assumption.
Qed.

Theorem lzma_cfg_kept fuel o : CfgKept w (snd (lzma_decompress fuel o w)).
Proof.
  destruct Cfg_init as [Hs Hk]. eapply IoFin_cfg.
  apply (lzma_decompress_inv Ps Pk (fun b s H => H) (fun b k H => H) (PsCfg_fill _ _) (fun s n H => H) (PkCfg_write _ _ _) fuel o w Hs Hk).
Qed.
Theorem lzma2_cfg_kept fuel : CfgKept w (snd (lzma2_decompress_top fuel w)).
Proof.
  destruct Cfg_init as [Hs Hk]. eapply IoFin_cfg.
  apply (lzma2_decompress_top_inv Ps Pk (fun b s H => H) (fun b k H => H) (PsCfg_fill _ _) (fun s n H => H) (fun b s l H => H)
           (PkCfg_write _ _ _) fuel w Hs Hk).
Qed.
Theorem xz_cfg_kept crc32 crc64 fuel : CfgKept w (snd (xz_decompress crc32 crc64 fuel w)).
Proof.
  eapply IoI_cfg.
  apply (xz_decompress_inv Ps Pk (fun b s H => H) (fun b k H => H) (PsCfg_fill _ _) (fun s n H => H) (fun b s l H => H)
           (PkCfg_write _ _ _) (PkCfg_flush _ _ _) crc32 crc64 fuel w Cfg_init).
Qed.
Theorem lzma_compress_cfg_kept fuel o : CfgKept w (snd (lzma_compress fuel o w)).
Proof.
  eapply IoI_cfg.
  apply (lzma_compress_inv Ps Pk (fun b s H => H) (fun b k H => H) (PsCfg_fill _ _) (fun s n H => H)
           (PkCfg_write _ _ _) (PkCfg_flush _ _ _) fuel o w Cfg_init).
Qed.
Theorem lzma2_compress_cfg_kept fuel : CfgKept w (snd (lzma2_compress fuel w)).
Proof.
  eapply IoI_cfg.
  apply (lzma2_compress_inv Ps Pk (fun b s H => H) (fun b k H => H) (PsCfg_fill _ _) (fun s n H => H)
           (PkCfg_write _ _ _) (PkCfg_flush _ _ _) fuel w Cfg_init).
Qed.
Theorem xz_compress_cfg_kept crc32 fuel : CfgKept w (snd (xz_compress crc32 fuel w)).
Proof.
  eapply IoI_cfg.
  apply (xz_compress_inv Ps Pk (fun b s H => H) (fun b k H => H) (PsCfg_fill _ _) (fun s n H => H)
           (PkCfg_write _ _ _) (PkCfg_flush _ _ _) crc32 fuel w Cfg_init).
Qed.
End CfgInst.
Print Assumptions lzma_cfg_kept.
Print Assumptions xz_compress_cfg_kept.

(* ======================================================================= *)
(* Instance 3 (goal c): the flush counter moves exactly at the final flush *)
Definition PkFl (n : N) (f : bool) (b : ocls) (k : snk) : Prop := k_flushes k = n /\ k_ffail k = f.

Lemma PkFl_write n f k bs : PkFl n f KDone k ->
  match snk_write k bs with HOk _ k' => PkFl n f KDone k' | HErr e k' => PkFl n f (KFail e) k' | HPanic _ k' => PkFl n f KPanic k' end.
Proof.
  unfold PkFl, snk_write. intros H.
  destruct (match k_wfail k with Some j => j =? k_calls k | None => false end); cbv zeta; cbn [k_flushes k_ffail]; exact H.
Qed.

Lemma trivs_fill s : True -> match src_fill s with HOk _ _ => True | HErr _ _ => True | HPanic _ _ => True end.
Proof. intros _. destruct (src_fill s); exact I. Qed.

Definition FlushPost {A} (w : io) (r : outcome A) (w' : io) : Prop :=
  k_ffail (i_snk w') = k_ffail (i_snk w) /\
  match r with
  | Done _ => k_flushes (i_snk w') = k_flushes (i_snk w) + 1 /\ k_ffail (i_snk w) = false
  | _ => k_flushes (i_snk w') = k_flushes (i_snk w)
  end.

Lemma IoFin_flush {A} w (r : outcome A) w' :
  IoFin (fun _ _ => True) (PkFl (k_flushes (i_snk w)) (k_ffail (i_snk w))) r w' -> FlushPost w r w'.
Proof.
  intros [_ F]. unfold FlushPost. destruct r; cbn [FinPost cls] in F; try (destruct F as [F1 F2]; split; assumption).
  destruct F as (k1 & [B1 B2] & E). apply snk_flush_ok in E. destruct E as [E1 ->]. cbn [k_flushes k_ffail].
  rewrite <- B2, <- B1. repeat split; assumption.
Qed.

Theorem lzma_flush fuel o w r w' : lzma_decompress fuel o w = (r, w') -> FlushPost w r w'.
Proof.
  intros E. apply IoFin_flush.
  pose proof (lzma_decompress_inv (fun _ _ => True) (PkFl (k_flushes (i_snk w)) (k_ffail (i_snk w)))
                (fun _ _ _ => I) (fun b k H => H) trivs_fill (fun _ _ _ => I) (PkFl_write _ _) fuel o w I (conj eq_refl eq_refl)) as H.
  rewrite E in H. exact H.
Qed.
Theorem lzma2_flush fuel w r w' : lzma2_decompress_top fuel w = (r, w') -> FlushPost w r w'.
Proof.
  intros E. apply IoFin_flush.
  pose proof (lzma2_decompress_top_inv (fun _ _ => True) (PkFl (k_flushes (i_snk w)) (k_ffail (i_snk w)))
                (fun _ _ _ => I) (fun b k H => H) trivs_fill (fun _ _ _ => I) (fun _ _ _ _ => I) (PkFl_write _ _) fuel w I (conj eq_refl eq_refl)) as H.
  rewrite E in H. exact H.
Qed.
Print Assumptions lzma_flush.
Print Assumptions lzma2_flush.

(* success implies exactly one flush *)
Theorem lzma_success_flushed fuel o w w' : lzma_decompress fuel o w = (Done tt, w') ->
  k_flushes (i_snk w') = k_flushes (i_snk w) + 1.
Proof. intros E. apply lzma_flush in E. destruct E as (_ & A & _). exact A. Qed.
Theorem lzma2_success_flushed fuel w w' : lzma2_decompress_top fuel w = (Done tt, w') ->
  k_flushes (i_snk w') = k_flushes (i_snk w) + 1.
Proof. intros E. apply lzma2_flush in E. destruct E as (_ & A & _). exact A. Qed.

(* a sink whose flush fails never lets the decoders report success, and no flush is counted *)
Theorem lzma_flush_failure fuel o w : k_ffail (i_snk w) = true ->
  fst (lzma_decompress fuel o w) <> Done tt /\
  k_flushes (i_snk (snd (lzma_decompress fuel o w))) = k_flushes (i_snk w).
Proof.
  intros Hf. destruct (lzma_decompress fuel o w) as [r w'] eqn:E. apply lzma_flush in E. destruct E as [_ E].
  cbn [fst snd]. destruct r as [[]|e|q]; [destruct E as [_ E]; congruence|split; [discriminate|exact E]..].
Qed.
Theorem lzma2_flush_failure fuel w : k_ffail (i_snk w) = true ->
  fst (lzma2_decompress_top fuel w) <> Done tt /\
  k_flushes (i_snk (snd (lzma2_decompress_top fuel w))) = k_flushes (i_snk w).
Proof.
  intros Hf. destruct (lzma2_decompress_top fuel w) as [r w'] eqn:E. apply lzma2_flush in E. destruct E as [_ E].
  cbn [fst snd]. destruct r as [[]|e|q]; [destruct E as [_ E]; congruence|split; [discriminate|exact E]..].
Qed.
Print Assumptions lzma_flush_failure.
Print Assumptions lzma2_flush_failure.

(* ======================================================================= *)
(* Instance 4 (half of goal b): the bytes accepted by the sink only ever grow *)
Definition PkGrow (l : list N) (b : ocls) (k : snk) : Prop := exists t, snk_bytes k = l ++ t.

Lemma PkGrow_write l k bs : PkGrow l KDone k ->
  match snk_write k bs with HOk _ k' => PkGrow l KDone k' | HErr e k' => PkGrow l (KFail e) k' | HPanic _ k' => PkGrow l KPanic k' end.
Proof.
  unfold PkGrow, snk_write, snk_bytes. intros [t H].
  destruct (match k_wfail k with Some j => j =? k_calls k | None => false end); cbv zeta; cbn [k_out]; [exists t; exact H|].
  rewrite lrev_rev_append, H, <- app_assoc. eexists; reflexivity.
Qed.
Lemma PkGrow_flush l k : PkGrow l KDone k ->
  match snk_flush k with HOk _ k' => PkGrow l KDone k' | HErr e k' => PkGrow l (KFail e) k' | HPanic _ k' => PkGrow l KPanic k' end.
Proof.
  unfold PkGrow, snk_flush, snk_bytes. intros H. destruct (k_ffail k); cbn [k_out]; exact H.
Qed.

Definition Grows (w w' : io) : Prop := exists t, snk_bytes (i_snk w') = snk_bytes (i_snk w) ++ t.

Lemma PkGrow_init k : PkGrow (snk_bytes k) KDone k.
Proof. exists []. rewrite app_nil_r. reflexivity. Qed.

Lemma IoFin_grows {A} w (r : outcome A) w' :
  IoFin (fun _ _ => True) (PkGrow (snk_bytes (i_snk w))) r w' -> Grows w w'.
Proof.
  intros [_ F]. unfold Grows. destruct r; cbn [FinPost cls] in F; try exact F.
  destruct F as (k1 & B & E). apply snk_flush_ok in E. destruct E as [_ ->]. exact B.
Qed.

Theorem lzma_sink_grows fuel o w : Grows w (snd (lzma_decompress fuel o w)).
Proof.
  eapply IoFin_grows.
  apply (lzma_decompress_inv (fun _ _ => True) (PkGrow (snk_bytes (i_snk w)))
           (fun _ _ _ => I) (fun b k H => H) trivs_fill (fun _ _ _ => I) (PkGrow_write _) fuel o w I (PkGrow_init _)).
Qed.
Theorem lzma2_sink_grows fuel w : Grows w (snd (lzma2_decompress_top fuel w)).
Proof.
  eapply IoFin_grows.
  apply (lzma2_decompress_top_inv (fun _ _ => True) (PkGrow (snk_bytes (i_snk w)))
           (fun _ _ _ => I) (fun b k H => H) trivs_fill (fun _ _ _ => I) (fun _ _ _ _ => I) (PkGrow_write _) fuel w I (PkGrow_init _)).
Qed.
Theorem xz_sink_grows crc32 crc64 fuel w : Grows w (snd (xz_decompress crc32 crc64 fuel w)).
Proof.
  apply (xz_decompress_inv (fun _ _ => True) (PkGrow (snk_bytes (i_snk w)))
           (fun _ _ _ => I) (fun b k H => H) trivs_fill (fun _ _ _ => I) (fun _ _ _ _ => I) (PkGrow_write _) (PkGrow_flush _)
           crc32 crc64 fuel w (conj I (PkGrow_init _))).
Qed.
Theorem lzma_compress_sink_grows fuel o w : Grows w (snd (lzma_compress fuel o w)).
Proof.
  apply (lzma_compress_inv (fun _ _ => True) (PkGrow (snk_bytes (i_snk w)))
           (fun _ _ _ => I) (fun b k H => H) trivs_fill (fun _ _ _ => I) (PkGrow_write _) (PkGrow_flush _)
           fuel o w (conj I (PkGrow_init _))).
Qed.
Theorem lzma2_compress_sink_grows fuel w : Grows w (snd (lzma2_compress fuel w)).
Proof.
  apply (lzma2_compress_inv (fun _ _ => True) (PkGrow (snk_bytes (i_snk w)))
           (fun _ _ _ => I) (fun b k H => H) trivs_fill (fun _ _ _ => I) (PkGrow_write _) (PkGrow_flush _)
           fuel w (conj I (PkGrow_init _))).
Qed.
Theorem xz_compress_sink_grows crc32 fuel w : Grows w (snd (xz_compress crc32 fuel w)).
Proof.
  apply (xz_compress_inv (fun _ _ => True) (PkGrow (snk_bytes (i_snk w)))
           (fun _ _ _ => I) (fun b k H => H) trivs_fill (fun _ _ _ => I) (PkGrow_write _) (PkGrow_flush _)
           crc32 fuel w (conj I (PkGrow_init _))).
Qed.
Print Assumptions lzma_sink_grows.
Print Assumptions xz_compress_sink_grows.
