(* Property C07, Part 8 (fuel adequacy): the fuel of process_mode is a model artefact; with enough
   of it the loop never reports PFuel.  Potential argument:
       Phi = (bytes still to be read, including partial_input_buf) * 2^32 + range
   never increases, and drops by at least 31 * 2^13 for every probability-coded bit; every loop
   iteration decodes one symbol, which starts with such a bit (is_match). *)
From LZ Require Import Base.Prelude Base.Prog Model.Io Model.Tables Model.LzBuffer Model.RangeDec Model.Lzma.
From LZ Require Import Proofs.ProgLemmas Proofs.MapLemmas Proofs.NoPanic Proofs.NoPanicWorld
                       Proofs.IoInv Proofs.SrcMono Proofs.ResetFresh Proofs.NoPanicLoops.
From LZ Require Proofs.Bound20 Proofs.Bound20Run.
From Coq Require Import ZifyBool ZifyNat ZifyN.
Local Open Scope prog_scope.

Ltac Zify.zify_post_hook ::= Z.div_mod_to_equations.

Definition DROP : N := 253952.          (* 31 * 2^13 *)

(* range within [2^24, 2^32), probabilities within [31, 2017] (the invariant of Bound20Run) *)
Definition Rng (r : rc) : Prop := 16777216 <= r_range r < 4294967296.
Definition Linv (w : lw) : Prop := Rng (l_rc w) /\ Bound20Run.tabs_ok (ds_tabs (l_ds w)).

Lemma inv_unfold w : Bound20Run.inv w <-> Rng (d_rc w) /\ Bound20Run.tabs_ok (d_tabs w).
Proof. reflexivity. Qed.

Definition iphi (s : src) (r : rc) : N := nlen (s_rest s) * 4294967296 + r_range r.
Definition phi (w : dw) : N := iphi (d_src w) (d_rc w).

(* ---------- arithmetic ---------- *)
Lemma bit_drop R p : 16777216 <= R < 4294967296 -> 31 <= p <= 2017 ->
  N.shiftr R 11 * p + DROP <= R /\ DROP <= N.shiftr R 11 * p.
Proof.
  intros HR Hp. rewrite N.shiftr_div_pow2. change (2 ^ 11) with 2048. unfold DROP.
  assert (Hq : 2048 * (R / 2048) <= R < 2048 * (R / 2048) + 2048) by lia.
  assert (Hq2 : 8192 <= R / 2048) by lia.
  set (q := R / 2048) in *. clearbody q.
  assert (H1 : 31 * q <= q * p) by (rewrite (N.mul_comm q p); apply N.mul_le_mono_r; lia).
  assert (H2 : q * p <= 2017 * q) by (rewrite (N.mul_comm q p); apply N.mul_le_mono_r; lia).
  lia.
Qed.

(* ---------- the register operations on io ---------- *)
Lemma nlen_nskipn_eq {A} n (l : list A) : nlen (nskipn n l) = nlen l - n.
Proof. unfold nlen, nskipn. rewrite skipn_length. lia. Qed.

Lemma sle_nlen s s' : sle s s' -> nlen (s_rest s') <= nlen (s_rest s).
Proof. intros [(c & E & _) _]. rewrite E, IoInv.nlen_app. lia. Qed.

Lemma rc_normalize_phi r w r' w' : r_range r < 4294967296 ->
  run_io (rc_normalize r) w = (Done r', w') ->
  iphi (i_src w') r' <= iphi (i_src w) r /\ r_range r' < 4294967296.
Proof.
  intros Hr H. unfold rc_normalize in H. destruct (N.ltb_spec (r_range r) 16777216) as [Hlt|Hge].
  - rbind H as b w1 H1. apply read_u8_inv in H1. apply run_ret_inv in H. destruct H as (-> & ->).
    pose proof (reads_rest _ _ _ H1) as E. unfold iphi. rewrite E, IoInv.nlen_app. cbn [r_range].
    pose proof (M32_le (N.shiftl (r_range r) 8)) as Hm. pose proof (M32_lt (N.shiftl (r_range r) 8)) as Hm2.
    change (nlen [b]) with 1. set (m := M32 (N.shiftl (r_range r) 8)) in *. clearbody m.
    rewrite N.shiftl_mul_pow2 in Hm. change (2 ^ 8) with 256 in Hm.
    split; [lia|exact Hm2].
  - apply run_ret_inv in H. destruct H as (-> & ->). split; [lia|exact Hr].
Qed.

Lemma rc_decode_bit_phi r prob upd w b p' r' w' : Rng r -> 31 <= prob <= 2017 ->
  run_io (rc_decode_bit r prob upd) w = (Done (b, p', r'), w') ->
  iphi (i_src w') r' + DROP <= iphi (i_src w) r.
Proof.
  intros HR Hp H. destruct (bit_drop (r_range r) prob HR Hp) as [B1 B2]. unfold Rng in HR.
  unfold rc_decode_bit in H. cbv zeta in H.
  set (bound := N.shiftr (r_range r) 11 * prob) in *. clearbody bound.
  destruct (U32 <=? bound); [rabs H|].
  destruct (r_code r <? bound).
  - destruct (upd && (2048 <? prob)); [rabs H|].
    destruct (U16 <=? (if upd then prob + N.shiftr (2048 - prob) 5 else prob)); [rabs H|].
    rbind H as r1 w1 H1. apply run_ret_inv in H. destruct H as (E & ->). inversion E; subst.
    apply rc_normalize_phi in H1; [|cbn [r_range]; lia]. destruct H1 as [H1 _].
    unfold iphi in *. cbn [r_range] in H1. lia.
  - destruct (r_range r <? bound); [rabs H|].
    rbind H as r1 w1 H1. apply run_ret_inv in H. destruct H as (E & ->). inversion E; subst.
    apply rc_normalize_phi in H1; [|cbn [r_range]; lia]. destruct H1 as [H1 _].
    unfold iphi in *. cbn [r_range] in H1. lia.
Qed.

Lemma rc_get_loop_phi n : forall r res w x r' w', r_range r < 4294967296 ->
  run_io (rc_get_loop n r res) w = (Done (x, r'), w') -> iphi (i_src w') r' <= iphi (i_src w) r.
Proof.
  induction n as [|n IH]; intros r res w x r' w' Hr H; cbn [rc_get_loop] in H.
  - apply run_ret_inv in H. destruct H as (E & ->). inversion E; subst. lia.
  - rbind H as br w1 H1. destruct br as [b r1]. unfold rc_get_bit in H1. cbv zeta in H1.
    rbind H1 as r2 w2 H2. apply run_ret_inv in H1. destruct H1 as (E & ->). inversion E; subst.
    assert (Hs : N.shiftr (r_range r) 1 <= r_range r).
    { rewrite N.shiftr_div_pow2. change (2 ^ 1) with 2. lia. }
    apply rc_normalize_phi in H2; [|cbn [r_range]; lia]. destruct H2 as [H2 H2'].
    apply IH in H; [|exact H2']. unfold iphi in *. cbn [r_range] in H2. lia.
Qed.

Lemma src_run_inv {A} (p : iop A) s a s' : src_run p s = (Done a, s') ->
  exists w', run_io p (mkIo s vec_sink) = (Done a, w') /\ s' = i_src w'.
Proof.
  unfold src_run. destruct (run_io p (mkIo s vec_sink)) as [r w]. intros H. inversion H; subst. eauto.
Qed.

(* ---------- one handler step ---------- *)
Definition cost {X} (o : decE X) : N := match o with Bit _ _ => DROP | _ => 0 end.

Lemma dec_h_phi X (o : decE X) w x w' : Bound20Run.inv w -> dec_h X o w = HOk x w' ->
  phi w' + cost o <= phi w.
Proof.
  intros [HR Ht]. change (Rng (d_rc w)) in HR.
  destruct o as [c upd|cnt| | |dd|dist|b|len dist]; cbn [dec_h cost].
  - destruct (cell_get (d_tabs w) c) as [prob|] eqn:Ec; [|discriminate].
    pose proof (Ht c prob Ec) as Hp.
    destruct (src_run (rc_decode_bit (d_rc w) prob upd) (d_src w)) as [[[[b p'] r']|e|q] s] eqn:E; try discriminate.
    intros H. inversion H; subst. apply src_run_inv in E. destruct E as (w1 & E & ->).
    apply rc_decode_bit_phi in E; [|exact HR|exact Hp]. exact E.
  - unfold lift_src. destruct (src_run (rc_get cnt (d_rc w)) (d_src w)) as [[[v r']|e|q] s] eqn:E; try discriminate.
    intros H. inversion H; subst. apply src_run_inv in E. destruct E as (w1 & E & ->).
    unfold rc_get in E. apply rc_get_loop_phi in E; [|destruct HR; assumption]. unfold phi. cbn [d_src d_rc i_src] in *. lia.
  - pose proof (src_run_sle (rc_is_finished_ok (d_rc w)) (d_src w) (good_rc_is_finished_ok _)) as S.
    destruct (src_run (rc_is_finished_ok (d_rc w)) (d_src w)) as [[v|e|q] s]; try discriminate.
    intros H. inversion H; subst. cbn [snd] in S. apply sle_nlen in S. unfold phi, iphi. cbn [d_src d_rc]. nia.
  - intros H. inversion H; subst. lia.
  - unfold lift_win. destruct (win_last_or (d_win w) dd) as [[v|e|q] u]; try discriminate.
    intros H. inversion H; subst. unfold phi. cbn [d_src d_rc]. lia.
  - unfold lift_win. destruct (win_last_n (d_win w) dist) as [[v|e|q] u]; try discriminate.
    intros H. inversion H; subst. unfold phi. cbn [d_src d_rc]. lia.
  - unfold lift_win. destruct (win_append_literal (d_win w) b) as [[v|e|q] u]; try discriminate.
    intros H. inversion H; subst. unfold phi. cbn [d_src d_rc]. lia.
  - unfold lift_win. destruct (win_append_lz (d_win w) len dist) as [[v|e|q] u]; try discriminate.
    intros H. inversion H; subst. unfold phi. cbn [d_src d_rc]. lia.
Qed.

Lemma dec_h_inv X (o : decE X) w x w' : Bound20Run.inv w -> dec_h X o w = HOk x w' -> Bound20Run.inv w'.
Proof.
  intros Hw E. destruct (Bound20Run.dec_h_step X o w Hw) as (os & _ & _ & _ & H). rewrite E in H. tauto.
Qed.

(* the potential never increases along a successful run *)
Lemma interp_phi {A} (p : dprog A) : forall w a w', Bound20Run.inv w ->
  interp dec_h p w = (Done a, w') -> phi w' <= phi w.
Proof.
  induction p as [a0|e|q|X o k IH]; intros w a w' Hw E; cbn [interp] in E; try discriminate.
  - inversion E; subst. lia.
  - destruct (dec_h X o w) as [x w1|e w1|q w1] eqn:Eo; try discriminate.
    pose proof (dec_h_phi X o w x w1 Hw Eo) as H1. pose proof (dec_h_inv X o w x w1 Hw Eo) as Hw1.
    pose proof (IH x w1 a w' Hw1 E) as H2. lia.
Qed.

(* every symbol starts with a probability-coded bit *)
Theorem process_next_inner_phi p y upd w a w' : Bound20Run.inv w ->
  interp dec_h (process_next_inner p y upd) w = (Done a, w') -> phi w' + DROP <= phi w.
Proof.
  intros Hw E. unfold process_next_inner in E. cbn [bind call interp dec_h] in E.
  destruct (63 <? pb p); [discriminate|]. cbn [bind call interp] in E.
  match type of E with context [dec_h bool ?o w] =>
    destruct (dec_h bool o w) as [x w1|e w1|q w1] eqn:Eo; try discriminate;
    pose proof (dec_h_phi bool o w x w1 Hw Eo) as H1; pose proof (dec_h_inv bool o w x w1 Hw Eo) as Hw1 end.
  cbn [cost] in H1. apply interp_phi in E; [|exact Hw1]. lia.
Qed.
Print Assumptions process_next_inner_phi.

Definition lphi (w : lw) : N := iphi (l_src w) (l_rc w).

Theorem run_sym_phi upd w st w' : Linv w -> run_sym upd w = (Done st, w') ->
  lphi w' + DROP <= lphi w /\ Linv w'.
Proof.
  intros [HR Ht] E. split.
  - unfold run_sym in E. cbv zeta in E.
    destruct (interp dec_h _ _) as [[[st' y]|e|q] x] eqn:Ei; inversion E; subst; clear E.
    apply process_next_inner_phi in Ei; [|split; [exact HR|exact Ht]]. exact Ei.
  - exact (Bound20Run.run_sym_inv upd w w' st HR Ht E).
Qed.

(* ---------- the loop ---------- *)
Definition PhiL (w : lw) : N :=
  (nlen (ds_pib (l_ds w)) + nlen (s_rest (l_src w))) * 4294967296 + r_range (l_rc w).

Lemma Linv_src w d s : Linv w -> ds_tabs d = ds_tabs (l_ds w) -> Linv (mkLw d (l_rc w) s (l_win w)).
Proof. intros [H1 H2] E. split; cbn [l_rc l_ds]; [exact H1|rewrite E; exact H2]. Qed.

Lemma src_step_phi {A} (p : iop A) s : good p -> nlen (s_rest (snd (src_run p s))) <= nlen (s_rest s).
Proof. intros H. apply sle_nlen. apply src_run_sle. exact H. Qed.

Lemma good_call_fill : good (icall FillBuf).
Proof. apply good_fill. Qed.

Lemma rpib_phi w u w2 : read_partial_input_buf w = (Done u, w2) ->
  PhiL w2 <= PhiL w /\ l_rc w2 = l_rc w /\ ds_tabs (l_ds w2) = ds_tabs (l_ds w).
Proof.
  unfold read_partial_input_buf. cbv zeta. destruct (MAX_REQUIRED_INPUT <? nlen (ds_pib (l_ds w))); [discriminate|].
  destruct (src_run _ (l_src w)) as [[got|e|q] s] eqn:E; try discriminate.
  intros H. inversion H; subst. clear H. apply src_run_inv in E. destruct E as (w1 & E & ->).
  apply read_buf_spec in E. destruct E as (c & R & G). destruct (G got eq_refl) as (-> & _ & _).
  pose proof (reads_rest _ _ _ R) as Er. cbn [i_src] in Er.
  unfold PhiL. cbn [l_ds l_src l_rc set_pib ds_pib ds_tabs]. rewrite Er, !IoInv.nlen_app.
  split; [lia|split; reflexivity].
Qed.

Theorem pm_body_phi mode w : Linv w ->
  match pm_body mode w with
  | Next w' => Linv w' /\ PhiL w' + DROP <= PhiL w
  | Break _ => True
  end.
Proof.
  intros Hw. unfold pm_body. cbv zeta.
  set (head := match ds_unpacked (l_ds w) with Some us => _ | None => _ end).
  assert (Hh : Linv (snd head) /\ PhiL (snd head) <= PhiL w).
  { assert (G : forall {A B} (p : iop A) (f : A -> B), good p ->
              let r := match src_run p (l_src w) with
                       | (Done a, s) => (Done (f a), mkLw (l_ds w) (l_rc w) s (l_win w))
                       | (Failed e, s) => (Failed e, mkLw (l_ds w) (l_rc w) s (l_win w))
                       | (Panicked q, s) => (Panicked q, mkLw (l_ds w) (l_rc w) s (l_win w))
                       end in Linv (snd r) /\ PhiL (snd r) <= PhiL w).
    { intros A B p f Hp. pose proof (src_step_phi p (l_src w) Hp) as S.
      destruct (src_run p (l_src w)) as [[a|e|q] s]; cbn [snd] in *;
        (split; [apply Linv_src; [exact Hw|reflexivity]|unfold PhiL; cbn [l_ds l_src l_rc]; nia]). }
    unfold head. destruct (ds_unpacked (l_ds w)); [split; [exact Hw|cbn [snd]; lia]|]. destruct mode.
    - exact (G _ _ is_eof (fun e => e && (nlen (ds_pib (l_ds w)) =? 0)) good_is_eof).
    - destruct (_ =? _); [|split; [exact Hw|cbn [snd]; lia]].
      exact (G _ _ (rc_is_finished_ok (l_rc w)) (fun e => e && (nlen (ds_pib (l_ds w)) =? 0)) (good_rc_is_finished_ok _)). }
  clearbody head. destruct head as [[[|]|e|q] w1]; cbn [snd] in Hh; try exact I.
  destruct Hh as [L1 P1].
  destruct (0 <? nlen (ds_pib (l_ds w1))).
  - destruct (read_partial_input_buf w1) as [[u|e|q] w2] eqn:E2; try exact I.
    apply rpib_phi in E2. destruct E2 as (P2 & R2 & T2).
    match goal with |- match match ?nm with _ => _ end with _ => _ end => destruct nm as [[|]|e|q]; try exact I end.
    set (wc := mkLw (l_ds w2) (l_rc w2) (cursor_of (ds_pib (l_ds w2))) (l_win w2)).
    assert (Lc : Linv wc) by (destruct L1 as [A1 A2]; split; cbn [wc l_rc l_ds]; [rewrite R2|rewrite T2]; assumption).
    pose proof (run_sym_sle true wc) as S. pose proof (run_sym_pib true wc) as Ep.
    destruct (run_sym true wc) as [[st|e|q] t] eqn:Et; try exact I.
    apply run_sym_phi in Et; [|exact Lc]. destruct Et as [Pt Lt]. cbn [snd wc l_src l_ds] in S, Ep.
    destruct (nlen (ds_pib (l_ds w2)) <? s_pos (l_src t)); [exact I|].
    destruct st; [|exact I].
    destruct S as [(c & Ec & Epos) _]. cbn [cursor_of src_of s_rest s_pos] in Ec, Epos.
    split.
    + destruct Lt as [A1 A2]. split; cbn [l_rc l_ds set_pib ds_tabs]; assumption.
    + unfold PhiL, lphi, iphi in *. cbn [l_ds l_src l_rc set_pib ds_pib wc cursor_of src_of s_rest] in *.
      rewrite nlen_nskipn_eq. rewrite Ec in *. rewrite IoInv.nlen_app in *. lia.
  - pose proof (src_step_phi (icall FillBuf) (l_src w1) good_call_fill) as S.
    destruct (src_run (icall FillBuf) (l_src w1)) as [[buf|e|q] s]; try exact I. cbn [snd] in S.
    match goal with |- match match ?nm with _ => _ end with _ => _ end => destruct nm as [[|]|e|q]; try exact I end.
    set (w2 := mkLw (l_ds w1) (l_rc w1) s (l_win w1)).
    assert (L2 : Linv w2) by (apply Linv_src; [exact L1|reflexivity]).
    pose proof (run_sym_pib true w2) as Ep.
    destruct (run_sym true w2) as [[[|]|e|q] w3] eqn:E3; try exact I.
    apply run_sym_phi in E3; [|exact L2]. destruct E3 as [P3 L3]. cbn [snd w2 l_ds] in Ep.
    split; [exact L3|]. unfold PhiL, lphi, iphi in *. cbn [w2 l_ds l_src l_rc] in *. rewrite Ep. nia.
Qed.
Print Assumptions pm_body_phi.

Lemma iter_step_phi mode n : forall w, Linv w ->
  match iter_step n (pm_body mode) w with
  | Next w' => Linv w' /\ PhiL w' + N.of_nat n * DROP <= PhiL w
  | Break _ => True
  end.
Proof.
  induction n as [|n IH]; intros w Hw; cbn [iter_step].
  - split; [exact Hw|lia].
  - pose proof (pm_body_phi mode w Hw) as H. destruct (pm_body mode w) as [w1|r]; [|exact I].
    destruct H as [L1 P1]. specialize (IH w1 L1). destruct (iter_step n (pm_body mode) w1) as [w2|r]; [|exact I].
    destruct IH as [L2 P2]. split; [exact L2|]. lia.
Qed.

(* with enough fuel the loop always breaks *)
Theorem loop_breaks mode fuel w : Linv w -> PhiL w < N.pos fuel * DROP ->
  match loopN fuel (pm_body mode) w with Next _ => False | Break _ => True end.
Proof.
  intros Hw Hf. rewrite loopN_iter. pose proof (iter_step_phi mode (Pos.to_nat fuel) w Hw) as H.
  destruct (iter_step (Pos.to_nat fuel) (pm_body mode) w) as [w'|r]; [|exact I].
  destruct H as [_ H]. rewrite positive_nat_N in H. lia.
Qed.

Lemma ProbsOk_tabs_ok t : ProbsOk t -> Bound20Run.tabs_ok t.
Proof. intros H c v E. exact (cell_get_ProbsOk t c v H E). Qed.

Lemma PmInv_Linv w : PmInv w -> 16777216 <= r_range (l_rc w) -> Linv w.
Proof.
  intros Hw Hr. apply PmInv_split in Hw. destruct Hw as (D & _ & [R1 R2] & _ & _).
  change (2 ^ 32) with 4294967296 in R1. split; [split; assumption|].
  apply ProbsOk_tabs_ok. exact (do_probs _ D).
Qed.

(* 4. process_mode is total: with the invariant and enough fuel it does not panic at all *)
Theorem process_mode_total mode fuel w :
  PmInv w -> 16777216 <= r_range (l_rc w) -> PhiL w < N.pos fuel * DROP ->
  match process_mode mode fuel w with
  | (Panicked _, _) => False
  | (_, w') => PmInv w'
  end.
Proof.
  intros Hw Hr Hf. pose proof (loop_breaks mode fuel w (PmInv_Linv w Hw Hr) Hf) as Hb.
  pose proof (process_mode_no_panic mode fuel w Hw) as Hp. unfold process_mode in *.
  pose proof (loopN_inv (pm_body mode) PmInv ok_res) as L.
  assert (H1 : forall s s', PmInv s -> pm_body mode s = Next s' -> PmInv s').
  { intros s s' Hs E. pose proof (pm_body_safe mode s Hs) as P. rewrite E in P. exact P. }
  assert (H2 : forall s r, PmInv s -> pm_body mode s = Break r -> ok_res r).
  { intros s r Hs E. pose proof (pm_body_safe mode s Hs) as P. rewrite E in P. exact P. }
  specialize (L H1 H2 fuel w Hw).
  destruct (loopN fuel (pm_body mode) w) as [w1|[[u|e|q] w1]]; [contradiction| | |]; unfold ok_res in L.
  - destruct (ds_unpacked (l_ds w1)); [|exact L]. destruct mode; [exact L|]. destruct (_ =? _); exact L.
  - exact L.
  - contradiction.
Qed.
Print Assumptions process_mode_total.

(* a simple sufficient amount of fuel: 16913 iterations per byte still to be read (+1) *)
Lemma fuel_simple n fuel : 16913 * (n + 1) <= N.pos fuel -> n * 4294967296 + 4294967295 < N.pos fuel * DROP.
Proof. unfold DROP. lia. Qed.

(* ---------- the raw decoder and lzma_decompress ---------- *)
Lemma rc_new_range w r w' : run_io rc_new w = (Done r, w') -> r_range r = 4294967295.
Proof.
  unfold rc_new. intros H. rbind H as b w1 H1. rbind H as code w2 H2.
  apply run_ret_inv in H. destruct H as (-> & _). reflexivity.
Qed.

Lemma src_run_map_rc_new e s r s' : src_run (map_io_err e rc_new) s = (Done r, s') ->
  r_range r = 4294967295 /\ nlen (s_rest s') <= nlen (s_rest s).
Proof.
  intros H. split.
  - apply src_run_inv in H. destruct H as (w' & H & _).
    destruct (run_map_io_err e rc_new (mkIo s vec_sink)) as [_ Hf]. rewrite H in Hf. cbn [fst] in Hf.
    destruct (run_io rc_new (mkIo s vec_sink)) as [[r0|e0|q0] w0] eqn:E; cbn [fst] in Hf; try contradiction.
    subst r0. exact (rc_new_range _ _ _ E).
  - pose proof (src_step_phi (map_io_err e rc_new) s (good_map_io_err e _ good_rc_new)) as S.
    rewrite H in S. exact S.
Qed.

Theorem lzma_decoder_decompress_total fuel dec w : DecInv dec -> SrcBytes (i_src w) ->
  16913 * (nlen (s_rest (i_src w)) + 21) <= N.pos fuel ->
  match lzma_decoder_decompress fuel dec w with
  | (Panicked _, _) => False
  | (_, (dec', w')) => DecInv dec' /\ SrcBytes (i_src w')
  end.
Proof.
  intros Hd Hs Hfuel. pose proof Hd as [H1 H2 H3 H4]. unfold lzma_decoder_decompress. cbv zeta.
  pose proof (io_safe_src_run _ _ (i_src w) (io_safe_map_io_err RcInv ELzma rc_new rc_new_io_safe) Hs) as Hr.
  destruct (src_run (map_io_err ELzma rc_new) (i_src w)) as [[r|e|q] s] eqn:Er; [| |contradiction].
  2:{ cbn [i_src]. split; assumption. }
  destruct Hr as [Hr Hs']. apply src_run_map_rc_new in Er. destruct Er as [Erange Elen].
  set (w0 := mkLw (ld_state dec) r s (WCirc (circ_new (i_snk w) (pr_dict (ld_params dec)) (ld_memlimit dec)))).
  assert (Hw0 : PmInv w0).
  { apply PmInv_join; try assumption. apply circ_new_ok. exact H1. }
  assert (Hphi : PhiL w0 < N.pos fuel * DROP).
  { unfold PhiL. cbn [w0 l_ds l_src l_rc]. rewrite Erange. apply fuel_simple.
    destruct H4 as [H4 _]. unfold MAX_REQUIRED_INPUT in H4. lia. }
  pose proof (process_mode_total FinishMode fuel w0 Hw0) as Hp. cbn [w0 l_rc] in Hp. rewrite Erange in Hp.
  specialize (Hp ltac:(lia) Hphi). fold w0 in Hp.
  pose proof (process_mode_circ FinishMode fuel w0 I) as Hc.
  assert (Hdec : forall x, PmInv x ->
            DecInv (mkLzmaDecoder (ld_params dec) (ld_memlimit dec) (l_ds x)) /\ SrcBytes (l_src x)).
  { intros x Hx. apply PmInv_split in Hx. destruct Hx as (X1 & X2 & X3 & X4 & X5).
    split; [constructor; cbn [ld_params ld_state]; assumption|assumption]. }
  destruct (process_mode FinishMode fuel w0) as [[u|e|q] x]; cbn [snd] in Hc; [| |contradiction].
  - destruct (l_win x) as [c|a]; [|contradiction].
    pose proof (circ_finish_no_panic c) as Hf.
    destruct (circ_finish c) as [[u'|e|q] k]; cbn [fst not_panicked] in Hf; cbn [i_src];
      [apply Hdec; exact Hp|apply Hdec; exact Hp|contradiction].
  - cbn [i_src]. apply Hdec. exact Hp.
Qed.
Print Assumptions lzma_decoder_decompress_total.

(* lzma_decompress with fuel proportional to the input length is total: it returns Ok or Err *)
Theorem lzma_decompress_total fuel o w : SrcBytes (i_src w) ->
  16913 * (nlen (s_rest (i_src w)) + 21) <= N.pos fuel ->
  match lzma_decompress fuel o w with
  | (Panicked _, _) => False
  | (_, w') => SrcBytes (i_src w')
  end.
Proof.
  intros Hs Hfuel. unfold lzma_decompress.
  pose proof (io_safe_src_run _ _ (i_src w)
                (io_safe_map_io_err params_ok EHeaderTooShort (read_header o) (read_header_safe o)) Hs) as Hh.
  pose proof (src_step_phi (map_io_err EHeaderTooShort (read_header o)) (i_src w)) as Hlen.
  destruct (src_run (map_io_err EHeaderTooShort (read_header o)) (i_src w)) as [[p|e|q] s]; [| |contradiction].
  2:{ exact Hh. }
  destruct Hh as [[Hv Hdict] Hs']. cbn [snd] in Hlen.
  assert (Hl : nlen (s_rest s) <= nlen (s_rest (i_src w))).
  { apply Hlen. apply good_map_io_err. unfold read_header.
    apply good_bind; [apply good_read_u8|]. intros pbyte. destruct (225 <=? pbyte); [apply good_fail|].
    apply good_bind; [unfold read_u32_le; apply good_bind; [apply good_read_exact|intros; apply good_ret]|]. intros dp.
    apply good_bind; [|intros; apply good_ret].
    destruct (o_unpacked o).
    - apply good_bind; [unfold read_u64_le; apply good_bind; [apply good_read_exact|intros; apply good_ret]|intros; apply good_ret].
    - apply good_bind; [unfold read_u64_le; apply good_bind; [apply good_read_exact|intros; apply good_ret]|intros; apply good_ret].
    - apply good_ret. }
  pose proof (lzma_decoder_new_ok p (o_memlimit o) Hv) as Hn.
  destruct (lzma_decoder_new p (o_memlimit o)) as [dec|e|q]; [| |contradiction].
  2:{ exact Hs'. }
  destruct Hn as [Hdec _].
  pose proof (lzma_decoder_decompress_total fuel dec (mkIo s (i_snk w)) Hdec Hs') as Hd. cbn [i_src] in Hd.
  specialize (Hd ltac:(lia)).
  destruct (lzma_decoder_decompress fuel dec (mkIo s (i_snk w))) as [[u|e|q] [dec' w']]; tauto.
Qed.
Print Assumptions lzma_decompress_total.

(* e.g. one-shot decoding of a byte list into a Vec, fuel computed from the length *)
Corollary lzma_decompress_bytes_total o data fuel : Bytes data ->
  16913 * (nlen data + 21) <= N.pos fuel ->
  not_panicked (fst (lzma_decompress fuel o (mkIo (cursor_of data) vec_sink))).
Proof.
  intros Hb Hf. pose proof (lzma_decompress_total fuel o (mkIo (cursor_of data) vec_sink) Hb Hf) as H.
  destruct (lzma_decompress fuel o _) as [[u|e|q] w']; cbn [fst not_panicked]; tauto.
Qed.
Print Assumptions lzma_decompress_bytes_total.

(* the fuel constant used by the streaming API is adequate for any input below 2^47 bytes *)
Lemma big_fuel_adequate n : n < 140737488355328 -> 16913 * (n + 21) <= N.pos big_fuel.
Proof. unfold big_fuel. lia. Qed.
