(* C12, part 1: outcome-conditioned invariants of the source and the sink,
   threaded through every layer of the decoders and encoders.

   The layers are proved once, for abstract families  Ps, Pk : bool -> _ -> Prop
   ("Ps KDone" = what holds as long as everything succeeded, "Ps KFail" / "Ps KPanic" = what
   still holds after a failure).  Instances (Proofs/FaultTheorems.v):
     - no injected fault has been hit            (goal a)
     - the flush counter and the flush switch    (goal c)
     - the sink only grows                        (half of goal b). *)
From LZ Require Import Base.Prelude Base.Prog Model.Io Model.Tables Model.LzBuffer Model.RangeDec
  Model.Lzma Model.Lzma2 Model.Xz Model.Enc Proofs.ProgLemmas.

Inductive ocls := KDone | KFail (e : err) | KPanic.
Definition cls {A} (r : outcome A) : ocls :=
  match r with Done _ => KDone | Failed e => KFail e | Panicked _ => KPanic end.

(* ---------- generic ---------- *)
Lemma interp_cond_inv {E : Type -> Type} {S A} (h : handler E S) (I : ocls -> S -> Prop)
  (Hw : forall b s, I KDone s -> I b s)
  (Hh : forall X (o : E X) s, I KDone s ->
     match h X o s with HOk _ s' => I KDone s' | HErr e s' => I (KFail e) s' | HPanic _ s' => I KPanic s' end) :
  forall (p : prog E A) s, I KDone s -> I (cls (fst (interp h p s))) (snd (interp h p s)).
Proof.
  induction p as [a|e|q|X o k IH]; intros s Hs; cbn [interp fst snd cls]; auto.
  specialize (Hh X o s Hs). destruct (h X o s); cbn [fst snd cls]; auto.
Qed.

Lemma loopN_cond_inv {S R} (body : S -> step S R) (I : S -> Prop) (Q : R -> Prop)
  (Hb : forall s, I s -> match body s with Next s' => I s' | Break r => Q r end) :
  forall p s, I s -> match loopN p body s with Next s' => I s' | Break r => Q r end.
Proof.
  apply loopN_inv.
  - intros s s' Hs E. specialize (Hb s Hs). rewrite E in Hb. exact Hb.
  - intros s r Hs E. specialize (Hb s Hs). rewrite E in Hb. exact Hb.
Qed.

Lemma snk_flush_err k e k' : snk_flush k = HErr e k' -> k' = k.
Proof. unfold snk_flush. destruct (k_ffail k); intros H; inversion H; reflexivity. Qed.
Lemma snk_flush_nopanic k p k' : snk_flush k <> HPanic p k'.
Proof. unfold snk_flush. destruct (k_ffail k); discriminate. Qed.

(* ---------- parse_lzma cut into its stages (the model writes them inline) ---------- *)
Definition l2_reset_dict (rd : bool) (w : w2) : outcome unit * w2 :=
  if rd then match accum_reset (w_acc w) with (r, a) => (r, mkW2 (w_ds w) (w_src w) a) end
  else (Done tt, w).

Definition l2_new_props (reset_props : bool) (w : w2) : outcome props * w2 :=
  if reset_props then
    match w2_src w (src_run (map_io_err ELzma read_u8) (w_src w)) with
    | (Failed e, w) => (Failed e, w) | (Panicked p, w) => (Panicked p, w)
    | (Done pbyte, w) =>
        if 225 <=? pbyte then (Failed ELzma, w) else
        let lc_ := pbyte mod 9 in let t := pbyte / 9 in
        let lp_ := t mod 5 in let pb_ := t / 5 in
        if 4 <? lc_ + lp_ then (Failed ELzma, w) else (Done (mkProps lc_ lp_ pb_), w)
    end
  else (Done (ds_props (w_ds w)), w).

Definition l2_reset_state (reset_st reset_props : bool) (w : w2) : outcome unit * w2 :=
  if reset_st then
    match l2_new_props reset_props w with
    | (Failed e, w) => (Failed e, w) | (Panicked p, w) => (Panicked p, w)
    | (Done p, w) =>
        match reset_state (w_ds w) p with
        | (Done d, _) => (Done tt, mkW2 d (w_src w) (w_acc w))
        | (Failed e, _) => (Failed e, w)
        | (Panicked q, _) => (Panicked q, w)
        end
    end
  else (Done tt, w).

Definition l2_run (fuel : positive) (unpacked_size packed_size : N) (w : w2) : outcome unit * w2 :=
  let d := set_unpacked_size (w_ds w) (Some (unpacked_size + a_len (w_acc w))) in
  let taken := set_limit (w_src w) (Some packed_size) in
  match src_run (map_io_err ELzma rc_new) taken with
  | (Failed e, s) => (Failed e, mkW2 d (set_limit s None) (w_acc w))
  | (Panicked p, s) => (Panicked p, mkW2 d (set_limit s None) (w_acc w))
  | (Done r, s) =>
      match process_mode FinishMode fuel (mkLw d r s (WAccum (w_acc w))) with
      | (res, x) =>
          (res, mkW2 (l_ds x) (set_limit (l_src x) None)
                     (match l_win x with WAccum a => a | WCirc _ => w_acc w end))
      end
  end.

Lemma parse_lzma_split fuel status w :
  parse_lzma fuel status w =
  if N.land status 128 =? 0 then (Failed ELzma, w) else
  let cls := N.land (N.shiftr status 5) 3 in
  match w2_src w (src_run (map_io_err ELzma read_u16_be) (w_src w)) with
  | (Failed e, w) => (Failed e, w) | (Panicked p, w) => (Panicked p, w)
  | (Done us16, w) =>
  match w2_src w (src_run (map_io_err ELzma read_u16_be) (w_src w)) with
  | (Failed e, w) => (Failed e, w) | (Panicked p, w) => (Panicked p, w)
  | (Done ps16, w) =>
  match l2_reset_dict (cls =? 3) w with
  | (Failed e, w) => (Failed e, w) | (Panicked p, w) => (Panicked p, w)
  | (Done _, w) =>
  match l2_reset_state (negb (cls =? 0)) ((cls =? 2) || (cls =? 3)) w with
  | (Failed e, w) => (Failed e, w) | (Panicked p, w) => (Panicked p, w)
  | (Done _, w) => l2_run fuel (N.lor (N.shiftl (N.land status 31) 16) us16 + 1) (ps16 + 1) w
  end end end end.
Proof. reflexivity. Qed.

Section Core.
Variable Ps : ocls -> src -> Prop.
Variable Pk : ocls -> snk -> Prop.
Hypothesis Ps_any : forall b s, Ps KDone s -> Ps b s.
Hypothesis Pk_any : forall b k, Pk KDone k -> Pk b k.
Hypothesis Ps_fill : forall s, Ps KDone s ->
  match src_fill s with HOk _ s' => Ps KDone s' | HErr e s' => Ps (KFail e) s' | HPanic _ s' => Ps KPanic s' end.
Hypothesis Ps_consume : forall s n, Ps KDone s -> Ps KDone (src_consume s n).
Hypothesis Ps_limit : forall b s l, Ps b s -> Ps b (set_limit s l).
Hypothesis Pk_write : forall k bs, Pk KDone k ->
  match snk_write k bs with HOk _ k' => Pk KDone k' | HErr e k' => Pk (KFail e) k' | HPanic _ k' => Pk KPanic k' end.


(* ---------- the source under arbitrary programs ---------- *)
Lemma io_h_src X (o : ioE X) w : Ps KDone (i_src w) ->
  match io_h X o w with
  | HOk _ w' => Ps KDone (i_src w') | HErr e w' => Ps (KFail e) (i_src w') | HPanic _ w' => Ps KPanic (i_src w')
  end.
Proof.
  intros Hs. destruct o; cbn [io_h].
  - pose proof (Ps_fill _ Hs) as HF. destruct (src_fill (i_src w)); cbn [i_src]; exact HF.
  - cbn [i_src]. apply Ps_consume. exact Hs.
  - destruct (snk_write (i_snk w) bs); cbn [i_src]; auto.
  - destruct (snk_flush (i_snk w)); cbn [i_src]; auto.
  - exact Hs.
  - exact Hs.
Qed.

Lemma run_io_src {A} (p : iop A) w : Ps KDone (i_src w) ->
  Ps (cls (fst (run_io p w))) (i_src (snd (run_io p w))).
Proof.
  unfold run_io. apply (interp_cond_inv io_h (fun b w => Ps b (i_src w))).
  - intros b s. apply Ps_any.
  - intros X o s. apply io_h_src.
Qed.

Lemma src_run_inv {A} (p : iop A) s : Ps KDone s ->
  Ps (cls (fst (src_run p s))) (snd (src_run p s)).
Proof.
  intros Hs. unfold src_run.
  pose proof (run_io_src p (mkIo s vec_sink) Hs) as H.
  destruct (run_io p (mkIo s vec_sink)) as [r w]. exact H.
Qed.

(* map_io_err only rewrites the program: nothing special to prove *)
Lemma src_run_map_inv {A} e' (p : iop A) s : Ps KDone s ->
  Ps (cls (fst (src_run (map_io_err e' p) s))) (snd (src_run (map_io_err e' p) s)).
Proof. apply src_run_inv. Qed.

(* ---------- the sink under write_all ---------- *)
Lemma write_all_loop_snk fuel : forall bs w, Pk KDone (i_snk w) ->
  Pk (cls (fst (run_io (write_all_loop fuel bs) w))) (i_snk (snd (run_io (write_all_loop fuel bs) w))).
Proof.
  induction fuel as [|fuel IH]; intros bs w Hk.
  - destruct bs; cbn [write_all_loop run_io interp fst snd cls]; auto.
  - destruct bs as [|b t]; [cbn [write_all_loop run_io interp fst snd cls]; auto|].
    cbn [write_all_loop]. unfold run_io. rewrite interp_bind, interp_call. cbn [io_h].
    pose proof (Pk_write (i_snk w) (b :: t) Hk) as HW.
    destruct (snk_write (i_snk w) (b :: t)) as [n k'|e k'|q k']; cbn [fst snd cls i_snk]; auto.
    destruct (n =? 0); [cbn [interp fst snd cls i_snk]; auto|].
    apply IH. exact HW.
Qed.

Lemma snk_run_write_all bs k : Pk KDone k ->
  Pk (cls (fst (snk_run (write_all bs) k))) (snd (snk_run (write_all bs) k)).
Proof.
  intros Hk. unfold snk_run, write_all.
  pose proof (write_all_loop_snk (length bs) bs (mkIo (cursor_of []) k) Hk) as H.
  destruct (run_io _ _) as [r w]. exact H.
Qed.

(* finishing: write the rest, then flush *)
Definition FinPost {A} (r : outcome A) (k' : snk) : Prop :=
  match r with
  | Done _ => exists k1, Pk KDone k1 /\ snk_flush k1 = HOk tt k'
  | _ => Pk (cls r) k'
  end.

Lemma snk_run_finish (p : iop unit) k :
  (forall w, Pk KDone (i_snk w) -> Pk (cls (fst (run_io p w))) (i_snk (snd (run_io p w)))) ->
  Pk KDone k ->
  FinPost (fst (snk_run (bind p (fun _ => icall Flush)) k)) (snd (snk_run (bind p (fun _ => icall Flush)) k)).
Proof.
  intros Hp Hk. unfold snk_run, run_io in *. rewrite interp_bind.
  specialize (Hp (mkIo (cursor_of []) k) Hk).
  destruct (interp io_h p (mkIo (cursor_of []) k)) as [[u|e|q] w1]; cbn [fst snd cls FinPost] in *; auto.
  rewrite interp_call. cbn [io_h].
  destruct (snk_flush (i_snk w1)) as [x k'|e k'|q k'] eqn:E; cbn [fst snd i_snk FinPost].
  - destruct x. eauto.
  - apply snk_flush_err in E. subst. auto.
  - exfalso. eapply snk_flush_nopanic; eauto.
Qed.

(* ---------- LzCircularBuffer ---------- *)
Lemma circ_set_snk b i v : c_snk (snd (circ_set b i v)) = c_snk b.
Proof. unfold circ_set. destruct (_ <? _); [destruct (_ <=? _)|]; reflexivity. Qed.

Lemma circ_append_literal_inv b lit : Pk KDone (c_snk b) ->
  Pk (cls (fst (circ_append_literal b lit))) (c_snk (snd (circ_append_literal b lit))).
Proof.
  intros Hk. unfold circ_append_literal.
  pose proof (circ_set_snk b (c_cursor b) lit) as Es.
  destruct (circ_set b (c_cursor b) lit) as [[u|e|q] b1]; cbn [fst snd cls] in *; try (rewrite Es; auto; fail).
  destruct (_ =? _).
  - rewrite <- Es in Hk. pose proof (snk_run_write_all (map_slice (c_buf b1) 0 (c_blen b1)) (c_snk b1) Hk) as H.
    destruct (snk_run _ _) as [[u'|e|q] k]; cbn [fst snd cls c_snk] in *; exact H.
  - cbn [fst snd cls c_snk]. rewrite Es. exact Hk.
Qed.

Lemma circ_lz_loop_inv n : forall b offset, Pk KDone (c_snk b) ->
  Pk (cls (fst (circ_lz_loop n b offset))) (c_snk (snd (circ_lz_loop n b offset))).
Proof.
  induction n as [|n IH]; intros b offset Hk; cbn [circ_lz_loop fst snd cls]; auto.
  pose proof (circ_append_literal_inv b (circ_get b offset) Hk) as H.
  destruct (circ_append_literal b (circ_get b offset)) as [[u|e|q] b1]; cbn [fst snd cls] in *; auto.
Qed.

Lemma circ_append_lz_inv b len dist : Pk KDone (c_snk b) ->
  Pk (cls (fst (circ_append_lz b len dist))) (c_snk (snd (circ_append_lz b len dist))).
Proof.
  intros Hk. unfold circ_append_lz.
  destruct (_ <? _); [cbn [fst snd cls]; auto|].
  destruct (_ <? _); [cbn [fst snd cls]; auto|].
  destruct (_ =? _); [cbn [fst snd cls]; auto|].
  apply circ_lz_loop_inv. exact Hk.
Qed.

Lemma circ_finish_inv c : Pk KDone (c_snk c) ->
  FinPost (fst (circ_finish c)) (snd (circ_finish c)).
Proof.
  intros Hk. unfold circ_finish. apply snk_run_finish; [|exact Hk].
  intros w Hw. destruct (0 <? c_cursor c).
  - apply write_all_loop_snk. exact Hw.
  - cbn [run_io interp fst snd cls]. exact Hw.
Qed.

(* ---------- LzAccumBuffer ---------- *)
Lemma accum_reset_inv a : Pk KDone (a_snk a) ->
  Pk (cls (fst (accum_reset a))) (a_snk (snd (accum_reset a))).
Proof.
  intros Hk. unfold accum_reset.
  pose proof (snk_run_write_all (map_slice (a_buf a) 0 (a_blen a)) (a_snk a) Hk) as H.
  destruct (snk_run _ _) as [[u'|e|q] k]; cbn [fst snd cls a_snk] in *; exact H.
Qed.

Lemma accum_finish_inv a : Pk KDone (a_snk a) ->
  FinPost (fst (accum_finish a)) (snd (accum_finish a)).
Proof.
  intros Hk. unfold accum_finish. apply snk_run_finish; [|exact Hk].
  intros w Hw. apply write_all_loop_snk. exact Hw.
Qed.

(* ---------- the window as a sum ---------- *)
Lemma win_last_or_snk w d : win_snk (snd (win_last_or w d)) = win_snk w.
Proof.
  destruct w as [c|a]; cbn [win_last_or lift_c lift_a snd win_snk].
  - unfold circ_last_or. destruct (_ =? _); [|destruct (_ =? _)]; reflexivity.
  - unfold accum_last_or. destruct (_ =? _); reflexivity.
Qed.
Lemma win_last_n_snk w d : win_snk (snd (win_last_n w d)) = win_snk w.
Proof.
  destruct w as [c|a]; cbn [win_last_n lift_c lift_a snd win_snk].
  - unfold circ_last_n. destruct (_ <? _); [|destruct (_ <? _); [|destruct (_ =? _)]]; reflexivity.
  - unfold accum_last_n. destruct (_ <? _); [|destruct (_ =? _)]; reflexivity.
Qed.
Lemma accum_append_literal_snk a b : a_snk (snd (accum_append_literal a b)) = a_snk a.
Proof. unfold accum_append_literal. destruct (_ <? _); reflexivity. Qed.
Lemma accum_append_lz_snk a len dist : a_snk (snd (accum_append_lz a len dist)) = a_snk a.
Proof.
  unfold accum_append_lz. destruct (_ <? _); [reflexivity|]. destruct (_ && _); [reflexivity|].
  destruct (accum_lz_loop _ _ _ _). reflexivity.
Qed.

Lemma win_append_literal_inv w b : Pk KDone (win_snk w) ->
  Pk (cls (fst (win_append_literal w b))) (win_snk (snd (win_append_literal w b))).
Proof.
  destruct w as [c|a]; cbn [win_append_literal lift_c lift_a fst snd win_snk]; intros Hk.
  - apply circ_append_literal_inv. exact Hk.
  - rewrite accum_append_literal_snk. apply Pk_any. exact Hk.
Qed.
Lemma win_append_lz_inv w len dist : Pk KDone (win_snk w) ->
  Pk (cls (fst (win_append_lz w len dist))) (win_snk (snd (win_append_lz w len dist))).
Proof.
  destruct w as [c|a]; cbn [win_append_lz lift_c lift_a fst snd win_snk]; intros Hk.
  - apply circ_append_lz_inv. exact Hk.
  - rewrite accum_append_lz_snk. apply Pk_any. exact Hk.
Qed.

(* ---------- the symbol decoder's handler ---------- *)
Definition DwI (b : ocls) (w : dw) : Prop := Ps b (d_src w) /\ Pk b (win_snk (d_win w)).

Lemma DwI_any b w : DwI KDone w -> DwI b w.
Proof. intros [A B]. split; auto. Qed.

Lemma lift_win_inv {X} w (r : outcome X * win) : Ps KDone (d_src w) ->
  Pk (cls (fst r)) (win_snk (snd r)) ->
  match lift_win w r with HOk _ w' => DwI KDone w' | HErr e w' => DwI (KFail e) w' | HPanic _ w' => DwI KPanic w' end.
Proof.
  intros Hs Hk. destruct r as [[x|e|q] v]; cbn [lift_win fst snd cls] in *; split; cbn [d_src d_win]; auto.
Qed.

Lemma dec_h_inv X (o : decE X) w : DwI KDone w ->
  match dec_h X o w with HOk _ w' => DwI KDone w' | HErr e w' => DwI (KFail e) w' | HPanic _ w' => DwI KPanic w' end.
Proof.
  intros [Hs Hk]. destruct o; cbn [dec_h].
  - destruct (cell_get (d_tabs w) c); [|apply DwI_any; split; assumption].
    pose proof (src_run_inv (rc_decode_bit (d_rc w) n upd) (d_src w) Hs) as H.
    destruct (src_run _ _) as [[[[b p'] r']|e|q] s]; cbn [fst snd cls] in H; split; cbn [d_src d_win]; auto.
  - pose proof (src_run_inv (rc_get count (d_rc w)) (d_src w) Hs) as H.
    destruct (src_run _ _) as [[[x r']|e|q] s]; cbn [lift_src fst snd cls] in *; split; cbn [d_src d_win]; auto.
  - pose proof (src_run_inv (rc_is_finished_ok (d_rc w)) (d_src w) Hs) as H.
    destruct (src_run _ _) as [[x|e|q] s]; cbn [fst snd cls] in *; split; cbn [d_src d_win]; auto.
  - split; assumption.
  - apply lift_win_inv; [exact Hs|]. rewrite win_last_or_snk. apply Pk_any. exact Hk.
  - apply lift_win_inv; [exact Hs|]. rewrite win_last_n_snk. apply Pk_any. exact Hk.
  - apply lift_win_inv; [exact Hs|]. apply win_append_literal_inv. exact Hk.
  - apply lift_win_inv; [exact Hs|]. apply win_append_lz_inv. exact Hk.
Qed.

Lemma interp_dec_inv {A} (p : dprog A) w : DwI KDone w ->
  DwI (cls (fst (interp dec_h p w))) (snd (interp dec_h p w)).
Proof. apply (interp_cond_inv dec_h DwI DwI_any dec_h_inv). Qed.

(* ---------- process_mode ---------- *)
Definition LwI (b : ocls) (w : lw) : Prop := Ps b (l_src w) /\ Pk b (win_snk (l_win w)).

Lemma LwI_any b w : LwI KDone w -> LwI b w.
Proof. intros [A B]. split; [apply Ps_any|apply Pk_any]; assumption. Qed.

Lemma run_sym_inv upd w : LwI KDone w -> LwI (cls (fst (run_sym upd w))) (snd (run_sym upd w)).
Proof.
  intros [Hs Hk]. unfold run_sym.
  pose proof (interp_dec_inv (process_next_inner (ds_props (l_ds w)) (mkSym (ds_state (l_ds w)) (ds_rep (l_ds w))) upd)
                (mkDw (ds_tabs (l_ds w)) (l_rc w) (l_src w) (l_win w)) (conj Hs Hk)) as H.
  destruct (interp dec_h _ _) as [[[st y]|e|q] x]; cbn [fst snd cls] in *; exact H.
Qed.

(* the sink alone (the source may be a scratch cursor whose state is thrown away) *)
Definition DwK (b : ocls) (w : dw) : Prop := Pk b (win_snk (d_win w)).

Lemma lift_win_snk {X} w (r : outcome X * win) :
  Pk (cls (fst r)) (win_snk (snd r)) ->
  match lift_win w r with HOk _ w' => DwK KDone w' | HErr e w' => DwK (KFail e) w' | HPanic _ w' => DwK KPanic w' end.
Proof. intros Hk. destruct r as [[x|e|q] v]; cbn [lift_win fst snd cls] in *; exact Hk. Qed.

Lemma dec_h_snk X (o : decE X) w : DwK KDone w ->
  match dec_h X o w with HOk _ w' => DwK KDone w' | HErr e w' => DwK (KFail e) w' | HPanic _ w' => DwK KPanic w' end.
Proof.
  unfold DwK. intros Hk. destruct o; cbn [dec_h].
  - destruct (cell_get (d_tabs w) c); [|apply Pk_any; exact Hk].
    destruct (src_run _ _) as [[[[b p'] r']|e|q] s]; cbn [d_win]; auto.
  - destruct (src_run _ _) as [[[x r']|e|q] s]; cbn [lift_src d_win]; auto.
  - destruct (src_run _ _) as [[x|e|q] s]; cbn [d_win]; auto.
  - exact Hk.
  - apply lift_win_snk. rewrite win_last_or_snk. apply Pk_any. exact Hk.
  - apply lift_win_snk. rewrite win_last_n_snk. apply Pk_any. exact Hk.
  - apply lift_win_snk. apply win_append_literal_inv. exact Hk.
  - apply lift_win_snk. apply win_append_lz_inv. exact Hk.
Qed.

Lemma run_sym_snk upd w : Pk KDone (win_snk (l_win w)) ->
  Pk (cls (fst (run_sym upd w))) (win_snk (l_win (snd (run_sym upd w)))).
Proof.
  intros Hk. unfold run_sym.
  pose proof (interp_cond_inv dec_h DwK (fun b s => Pk_any b _) dec_h_snk
                (process_next_inner (ds_props (l_ds w)) (mkSym (ds_state (l_ds w)) (ds_rep (l_ds w))) upd)
                (mkDw (ds_tabs (l_ds w)) (l_rc w) (l_src w) (l_win w)) Hk) as H.
  destruct (interp dec_h _ _) as [[[st y]|e|q] x]; cbn [fst snd cls l_win] in *; exact H.
Qed.

Lemma read_partial_input_buf_inv w : LwI KDone w ->
  LwI (cls (fst (read_partial_input_buf w))) (snd (read_partial_input_buf w)).
Proof.
  intros [Hs Hk]. unfold read_partial_input_buf.
  destruct (_ <? _); [cbn [fst snd cls]; apply LwI_any; split; assumption|].
  pose proof (src_run_inv (read_buf (MAX_REQUIRED_INPUT - nlen (ds_pib (l_ds w)))) (l_src w) Hs) as H.
  destruct (src_run _ _) as [[g|e|q] s]; cbn [fst snd cls] in *; split; cbn [l_src l_win]; auto.
Qed.

Definition PmPost (x : step lw pm_result) : Prop :=
  match x with Next w' => LwI KDone w' | Break (r, w') => LwI (cls r) w' end.

(* the part of pm_body after the loop head *)
Definition pm_tail (mode : pmode) (w1 : lw) : step lw pm_result :=
    if 0 <? nlen (ds_pib (l_ds w1)) then
      match read_partial_input_buf w1 with
      | (Failed e, w2) => Break (Failed e, w2)
      | (Panicked p, w2) => Break (Panicked p, w2)
      | (Done _, w2) =>
        let pib := ds_pib (l_ds w2) in
        let need_more : outcome bool :=
          match mode with
          | Partial => if nlen pib <? MAX_REQUIRED_INPUT then try_process_next w2 pib else Done false
          | FinishMode => Done false
          end in
        match need_more with
        | Failed e => Break (Failed e, w2)
        | Panicked p => Break (Panicked p, w2)
        | Done true => Break (Done tt, w2)
        | Done false =>
          match run_sym true (mkLw (l_ds w2) (l_rc w2) (cursor_of pib) (l_win w2)) with
          | (Failed e, t) => Break (Failed e, mkLw (l_ds t) (l_rc w2) (l_src w2) (l_win t))
          | (Panicked p, t) => Break (Panicked p, mkLw (l_ds t) (l_rc w2) (l_src w2) (l_win t))
          | (Done res, t) =>
            let consumed := s_pos (l_src t) in
            if nlen pib <? consumed then Break (Panicked (POverflow 40), w2) else
            let w3 := mkLw (set_pib (l_ds t) (nskipn consumed pib)) (l_rc t) (l_src w2) (l_win t) in
            match res with
            | Finished => Break (Done tt, w3)
            | Continue => Next w3
            end
          end
        end
      end
    else
      match src_run (icall FillBuf) (l_src w1) with
      | (Failed e, s) => Break (Failed e, mkLw (l_ds w1) (l_rc w1) s (l_win w1))
      | (Panicked p, s) => Break (Panicked p, mkLw (l_ds w1) (l_rc w1) s (l_win w1))
      | (Done buf, s) =>
        let w2 := mkLw (l_ds w1) (l_rc w1) s (l_win w1) in
        let need_more : outcome bool :=
          match mode with
          | Partial => if snd buf <? MAX_REQUIRED_INPUT then try_process_next w2 (visible buf) else Done false
          | FinishMode => Done false
          end in
        match need_more with
        | Failed e => Break (Failed e, w2)
        | Panicked p => Break (Panicked p, w2)
        | Done true => Break (read_partial_input_buf w2)
        | Done false =>
          match run_sym true w2 with
          | (Failed e, w3) => Break (Failed e, w3)
          | (Panicked p, w3) => Break (Panicked p, w3)
          | (Done Finished, w3) => Break (Done tt, w3)
          | (Done Continue, w3) => Next w3
          end
        end
      end.

Definition pm_head (mode : pmode) (w : lw) : outcome bool * lw :=
  let d := l_ds w in
    match ds_unpacked d with
    | Some us => (Done (us <=? win_len (l_win w)), w)
    | None =>
        match mode with
        | Partial =>
            match src_run is_eof (l_src w) with
            | (Done e, s) => (Done (e && (nlen (ds_pib d) =? 0)), mkLw d (l_rc w) s (l_win w))
            | (Failed e, s) => (Failed e, mkLw d (l_rc w) s (l_win w))
            | (Panicked p, s) => (Panicked p, mkLw d (l_rc w) s (l_win w))
            end
        | FinishMode =>
            if rep0 (ds_rep d) =? 4294967295 then
              match src_run (rc_is_finished_ok (l_rc w)) (l_src w) with
              | (Done e, s) => (Done (e && (nlen (ds_pib d) =? 0)), mkLw d (l_rc w) s (l_win w))
              | (Failed e, s) => (Failed e, mkLw d (l_rc w) s (l_win w))
              | (Panicked p, s) => (Panicked p, mkLw d (l_rc w) s (l_win w))
              end
            else (Done false, w)
        end
    end.

Lemma pm_body_split mode w :
  pm_body mode w =
  match pm_head mode w with
  | (Failed e, w1) => Break (Failed e, w1)
  | (Panicked p, w1) => Break (Panicked p, w1)
  | (Done true, w1) => Break (Done tt, w1)
  | (Done false, w1) => pm_tail mode w1
  end.
Proof. reflexivity. Qed.

Lemma pm_head_inv mode w : LwI KDone w -> LwI (cls (fst (pm_head mode w))) (snd (pm_head mode w)).
Proof.
  intros [Hs Hk]. unfold pm_head.
  destruct (ds_unpacked (l_ds w)); [cbn [fst snd cls]; split; assumption|].
  destruct mode.
  - pose proof (src_run_inv is_eof (l_src w) Hs) as H.
    destruct (src_run _ _) as [[x|e|q] s]; cbn [fst snd cls] in *; split; cbn [l_src l_win]; auto.
  - destruct (_ =? _); [|cbn [fst snd cls]; split; assumption].
    pose proof (src_run_inv (rc_is_finished_ok (l_rc w)) (l_src w) Hs) as H.
    destruct (src_run _ _) as [[x|e|q] s]; cbn [fst snd cls] in *; split; cbn [l_src l_win]; auto.
Qed.

Lemma pm_tail_inv mode w1 : LwI KDone w1 -> PmPost (pm_tail mode w1).
Proof.
  intros Hw. unfold pm_tail. destruct (0 <? _).
  - pose proof (read_partial_input_buf_inv w1 Hw) as H2.
    destruct (read_partial_input_buf w1) as [[u|e|q] w2]; cbn [fst snd cls PmPost] in *; auto.
    cbv zeta.
    assert (TAIL :
      PmPost (match run_sym true (mkLw (l_ds w2) (l_rc w2) (cursor_of (ds_pib (l_ds w2))) (l_win w2)) with
          | (Failed e, t) => Break (Failed e, mkLw (l_ds t) (l_rc w2) (l_src w2) (l_win t))
          | (Panicked p, t) => Break (Panicked p, mkLw (l_ds t) (l_rc w2) (l_src w2) (l_win t))
          | (Done res, t) =>
            if nlen (ds_pib (l_ds w2)) <? s_pos (l_src t) then Break (Panicked (POverflow 40), w2) else
            match res with
            | Finished => Break (Done tt, mkLw (set_pib (l_ds t) (nskipn (s_pos (l_src t)) (ds_pib (l_ds w2)))) (l_rc t) (l_src w2) (l_win t))
            | Continue => Next (mkLw (set_pib (l_ds t) (nskipn (s_pos (l_src t)) (ds_pib (l_ds w2)))) (l_rc t) (l_src w2) (l_win t))
            end
          end)).
    { destruct H2 as [Hs2 Hk2].
      pose proof (run_sym_snk true (mkLw (l_ds w2) (l_rc w2) (cursor_of (ds_pib (l_ds w2))) (l_win w2)) Hk2) as H3.
      cbn [l_win] in H3.
      destruct (run_sym true _) as [[res|e|q] t]; cbn [fst snd cls PmPost] in *;
        try (split; cbn [l_src l_win]; [apply Ps_any; exact Hs2|exact H3]).
      destruct (_ <? _); [cbn [PmPost cls]; apply LwI_any; split; assumption|].
      destruct res; cbn [PmPost cls]; (split; cbn [l_src l_win]; [exact Hs2|exact H3]). }
    destruct mode; [|exact TAIL].
    destruct (_ <? _); [|exact TAIL].
    destruct (try_process_next w2 _) as [[|]|e|q]; cbn [PmPost cls]; try exact TAIL; try exact H2; apply LwI_any; exact H2.
  - destruct Hw as [Hs Hk].
    pose proof (src_run_inv (icall FillBuf) (l_src w1) Hs) as H.
    destruct (src_run _ _) as [[buf|e|q] s]; cbn [fst snd cls PmPost] in *; try (split; cbn [l_src l_win]; auto; fail).
    cbv zeta.
    assert (Hw2 : LwI KDone (mkLw (l_ds w1) (l_rc w1) s (l_win w1))) by (split; cbn [l_src l_win]; assumption).
    assert (TAIL :
      PmPost (match run_sym true (mkLw (l_ds w1) (l_rc w1) s (l_win w1)) with
          | (Failed e, w3) => Break (Failed e, w3)
          | (Panicked p, w3) => Break (Panicked p, w3)
          | (Done Finished, w3) => Break (Done tt, w3)
          | (Done Continue, w3) => Next w3
          end)).
    { pose proof (run_sym_inv true _ Hw2) as H3.
      destruct (run_sym true _) as [[[|]|e|q] w3]; cbn [fst snd cls PmPost] in *; exact H3. }
    destruct mode; [|exact TAIL].
    destruct (_ <? _); [|exact TAIL].
    destruct (try_process_next _ _) as [[|]|e|q]; cbn [PmPost cls]; try exact TAIL; try (apply LwI_any; exact Hw2).
    pose proof (read_partial_input_buf_inv _ Hw2) as H4.
    destruct (read_partial_input_buf _) as [r4 w4]. exact H4.
Qed.

Lemma pm_body_inv mode w : LwI KDone w -> PmPost (pm_body mode w).
Proof.
  intros Hw. rewrite pm_body_split.
  pose proof (pm_head_inv mode w Hw) as H.
  destruct (pm_head mode w) as [[[|]|e|q] w1]; cbn [fst snd cls PmPost] in *; try exact H.
  apply pm_tail_inv. exact H.
Qed.

Lemma process_mode_inv mode fuel w : LwI KDone w ->
  LwI (cls (fst (process_mode mode fuel w))) (snd (process_mode mode fuel w)).
Proof.
  intros Hw. unfold process_mode.
  pose proof (loopN_cond_inv (pm_body mode) (LwI KDone) (fun r => LwI (cls (fst r)) (snd r))) as LI.
  assert (Hb : forall s, LwI KDone s ->
            match pm_body mode s with Next s' => LwI KDone s' | Break r => LwI (cls (fst r)) (snd r) end).
  { intros s Hs. pose proof (pm_body_inv mode s Hs) as H. destruct (pm_body mode s) as [s'|[r s']]; exact H. }
  specialize (LI Hb fuel w Hw).
  destruct (loopN fuel (pm_body mode) w) as [w'|[[u|e|q] w']]; cbn [fst snd cls] in *; try exact LI.
  - apply LwI_any. exact LI.
  - destruct (ds_unpacked (l_ds w')); [|exact LI].
    destruct mode; [exact LI|]. destruct (_ =? _); cbn [fst snd cls]; [exact LI|apply LwI_any; exact LI].
Qed.

(* ---------- the one-shot LZMA decoder ---------- *)
Definition IoFin {A} (r : outcome A) (w' : io) : Prop := Ps (cls r) (i_src w') /\ FinPost r (i_snk w').

Lemma lzma_decoder_decompress_inv fuel dec w : Ps KDone (i_src w) -> Pk KDone (i_snk w) ->
  IoFin (fst (lzma_decoder_decompress fuel dec w)) (snd (snd (lzma_decoder_decompress fuel dec w))).
Proof.
  intros Hs Hk. unfold lzma_decoder_decompress.
  pose proof (src_run_map_inv ELzma rc_new (i_src w) Hs) as H.
  destruct (src_run _ _) as [[r|e|q] s]; cbn [fst snd cls] in *;
    try (split; cbn [i_src i_snk FinPost]; auto; fail).
  pose proof (process_mode_inv FinishMode fuel
               (mkLw (ld_state dec) r s (WCirc (circ_new (i_snk w) (pr_dict (ld_params dec)) (ld_memlimit dec))))
               (conj H Hk)) as HP.
  destruct (process_mode FinishMode fuel _) as [[u|e|q] x]; cbn [fst snd cls] in *;
    try (destruct HP; split; cbn [i_src i_snk FinPost]; auto; fail).
  destruct HP as [HPs HPk].
  destruct (l_win x) as [c|a]; cbn [win_snk] in HPk.
  - pose proof (circ_finish_inv c HPk) as HF.
    destruct (circ_finish c) as [[u'|e|q] k]; cbn [fst snd cls] in *; split; cbn [i_src i_snk]; auto.
  - cbn [fst snd]. split; cbn [i_src i_snk FinPost cls]; auto.
Qed.

Lemma lzma_decompress_inv fuel o w : Ps KDone (i_src w) -> Pk KDone (i_snk w) ->
  IoFin (fst (lzma_decompress fuel o w)) (snd (lzma_decompress fuel o w)).
Proof.
  intros Hs Hk. unfold lzma_decompress.
  pose proof (src_run_map_inv EHeaderTooShort (read_header o) (i_src w) Hs) as H.
  destruct (src_run _ _) as [[p|e|q] s]; cbn [fst snd cls] in *;
    try (split; cbn [i_src i_snk FinPost]; auto; fail).
  destruct (lzma_decoder_new p (o_memlimit o)) as [dec|e|q];
    try (split; cbn [fst snd i_src i_snk FinPost cls]; auto; fail).
  pose proof (lzma_decoder_decompress_inv fuel dec (mkIo s (i_snk w)) H Hk) as HD.
  destruct (lzma_decoder_decompress fuel dec (mkIo s (i_snk w))) as [r [d' w']]. exact HD.
Qed.

(* ---------- LZMA2 ---------- *)
Definition W2I (b : ocls) (w : w2) : Prop := Ps b (w_src w) /\ Pk b (a_snk (w_acc w)).

Lemma W2I_any b w : W2I KDone w -> W2I b w.
Proof. intros [A B]. split; [apply Ps_any|apply Pk_any]; assumption. Qed.

Lemma w2_src_map_inv {A} e' (p : iop A) w : W2I KDone w ->
  W2I (cls (fst (w2_src w (src_run (map_io_err e' p) (w_src w)))))
      (snd (w2_src w (src_run (map_io_err e' p) (w_src w)))).
Proof.
  intros [Hs Hk]. pose proof (src_run_map_inv e' p (w_src w) Hs) as H.
  unfold w2_src. destruct (src_run _ _) as [r s]. cbn [fst snd] in *.
  split; cbn [w_src w_acc]; [exact H|apply Pk_any; exact Hk].
Qed.

Lemma accum_reset_w2_inv w : W2I KDone w ->
  W2I (cls (fst (let (r, a) := accum_reset (w_acc w) in (r, mkW2 (w_ds w) (w_src w) a))))
      (snd (let (r, a) := accum_reset (w_acc w) in (r, mkW2 (w_ds w) (w_src w) a))).
Proof.
  intros [Hs Hk]. pose proof (accum_reset_inv (w_acc w) Hk) as H.
  destruct (accum_reset (w_acc w)) as [r a]. cbn [fst snd] in *.
  split; cbn [w_src w_acc]; [apply Ps_any; exact Hs|exact H].
Qed.

Lemma parse_uncompressed_inv reset_dict w : W2I KDone w ->
  W2I (cls (fst (parse_uncompressed reset_dict w))) (snd (parse_uncompressed reset_dict w)).
Proof.
  intros Hw. unfold parse_uncompressed.
  pose proof (w2_src_map_inv ELzma read_u16_be w Hw) as H1.
  destruct (w2_src w _) as [[us16|e|q] w1]; cbn [fst snd cls] in *; auto.
  assert (H2 : W2I (cls (fst (if reset_dict then let (r, a) := accum_reset (w_acc w1) in (r, mkW2 (w_ds w1) (w_src w1) a) else (Done tt, w1))))
                   (snd (if reset_dict then let (r, a) := accum_reset (w_acc w1) in (r, mkW2 (w_ds w1) (w_src w1) a) else (Done tt, w1)))).
  { destruct reset_dict; [apply accum_reset_w2_inv; exact H1|exact H1]. }
  destruct (if reset_dict then _ else _) as [[u|e|q] w2]; cbn [fst snd cls] in *; auto.
  pose proof (w2_src_map_inv ELzma (read_exact (us16 + 1)) w2 H2) as H3.
  destruct (w2_src w2 _) as [[bs|e|q] w3]; cbn [fst snd cls] in *; auto.
Qed.

Lemma l2_reset_dict_inv rd w : W2I KDone w ->
  W2I (cls (fst (l2_reset_dict rd w))) (snd (l2_reset_dict rd w)).
Proof.
  intros Hw. unfold l2_reset_dict. destruct rd; [apply accum_reset_w2_inv; exact Hw|exact Hw].
Qed.

Lemma l2_new_props_inv rp w : W2I KDone w ->
  W2I (cls (fst (l2_new_props rp w))) (snd (l2_new_props rp w)).
Proof.
  intros Hw. unfold l2_new_props. destruct rp; [|exact Hw].
  pose proof (w2_src_map_inv ELzma read_u8 w Hw) as H5.
  destruct (w2_src w _) as [[pbyte|e|q] w4]; cbn [fst snd cls] in *; auto.
  destruct (_ <=? _); [cbn [fst snd cls]; apply W2I_any; exact H5|].
  destruct (_ <? _); [cbn [fst snd cls]; apply W2I_any; exact H5|exact H5].
Qed.

Lemma l2_reset_state_inv rs rp w : W2I KDone w ->
  W2I (cls (fst (l2_reset_state rs rp w))) (snd (l2_reset_state rs rp w)).
Proof.
  intros Hw. unfold l2_reset_state. destruct rs; [|exact Hw].
  pose proof (l2_new_props_inv rp w Hw) as H4.
  destruct (l2_new_props rp w) as [[p|e|q] w4]; cbn [fst snd cls] in *; auto.
  destruct (reset_state (w_ds w4) p) as [[d|e|q] []]; cbn [fst snd cls]; try (apply W2I_any; exact H4).
Qed.

Lemma l2_run_inv fuel us ps w : W2I KDone w ->
  W2I (cls (fst (l2_run fuel us ps w))) (snd (l2_run fuel us ps w)).
Proof.
  intros [Hs5 Hk5]. unfold l2_run.
  pose proof (src_run_map_inv ELzma rc_new (set_limit (w_src w) (Some ps)) (Ps_limit _ _ _ Hs5)) as H6.
  destruct (src_run _ _) as [[r|e|q] s]; cbn [fst snd cls] in *;
    try (split; cbn [w_src w_acc]; [apply Ps_limit; exact H6|apply Pk_any; exact Hk5]).
  match goal with |- context [process_mode FinishMode fuel ?L] =>
    pose proof (process_mode_inv FinishMode fuel L (conj H6 Hk5)) as H7;
    destruct (process_mode FinishMode fuel L) as [res x] end.
  cbn [fst snd] in *. destruct H7 as [Hs7 Hk7]. split; cbn [w_src w_acc].
  - apply Ps_limit. exact Hs7.
  - destruct (l_win x) as [c|a]; cbn [win_snk] in Hk7.
    + (* the window handed back is not an accumulator: cannot happen, and the old one is kept *)
      apply Pk_any. exact Hk5.
    + exact Hk7.
Qed.

Lemma parse_lzma_inv fuel status w : W2I KDone w ->
  W2I (cls (fst (parse_lzma fuel status w))) (snd (parse_lzma fuel status w)).
Proof.
  intros Hw. rewrite parse_lzma_split.
  destruct (_ =? 0); [cbn [fst snd cls]; apply W2I_any; exact Hw|].
  pose proof (w2_src_map_inv ELzma read_u16_be w Hw) as H1.
  destruct (w2_src w _) as [[us16|e|q] w1]; cbn [fst snd cls] in *; auto.
  pose proof (w2_src_map_inv ELzma read_u16_be w1 H1) as H2.
  destruct (w2_src w1 _) as [[ps16|e|q] w2]; cbn [fst snd cls] in *; auto.
  pose proof (l2_reset_dict_inv (N.land (N.shiftr status 5) 3 =? 3) w2 H2) as H3.
  destruct (l2_reset_dict _ w2) as [[u|e|q] w3]; cbn [fst snd cls] in *; auto.
  match goal with |- context [l2_reset_state ?a ?b w3] =>
    pose proof (l2_reset_state_inv a b w3 H3) as H4; destruct (l2_reset_state a b w3) as [[u'|e|q] w4] end;
    cbn [fst snd cls] in *; auto.
  apply l2_run_inv. exact H4.
Qed.

Lemma l2_body_inv fuel w : W2I KDone w ->
  match l2_body fuel w with Next w' => W2I KDone w' | Break r => W2I (cls (fst r)) (snd r) end.
Proof.
  intros Hw. unfold l2_body.
  pose proof (w2_src_map_inv ELzma read_u8 w Hw) as H1.
  destruct (w2_src w _) as [[status|e|q] w1]; cbn [fst snd cls] in *; auto.
  destruct (status =? 0); [exact H1|].
  set (R := if status =? 1 then parse_uncompressed true w1
            else if status =? 2 then parse_uncompressed false w1 else parse_lzma fuel status w1).
  assert (H2 : W2I (cls (fst R)) (snd R)).
  { subst R. destruct (status =? 1); [apply parse_uncompressed_inv; exact H1|].
    destruct (status =? 2); [apply parse_uncompressed_inv; exact H1|].
    apply parse_lzma_inv; exact H1. }
  clearbody R.
  destruct R as [[u|e|q] w2]; cbn [fst snd cls] in *; exact H2.
Qed.

Lemma lzma2_decompress_inv fuel dec io0 : Ps KDone (i_src io0) -> Pk KDone (i_snk io0) ->
  IoFin (fst (lzma2_decompress fuel dec io0)) (snd (snd (lzma2_decompress fuel dec io0))).
Proof.
  intros Hs Hk. unfold lzma2_decompress.
  pose proof (loopN_cond_inv (l2_body fuel) (W2I KDone) (fun r => W2I (cls (fst r)) (snd r)) (l2_body_inv fuel) fuel
                (mkW2 (l2_state dec) (i_src io0) (accum_new (i_snk io0) (USIZE - 1))) (conj Hs Hk)) as HL.
  destruct (loopN fuel (l2_body fuel) _) as [w|[[u|e|q] w]]; cbn [fst snd cls] in *;
    try (destruct HL as [A B]; split; cbn [i_src i_snk FinPost cls]; auto; fail).
  destruct HL as [A B].
  pose proof (accum_finish_inv (w_acc w) B) as HF.
  destruct (accum_finish (w_acc w)) as [r k]. cbn [fst snd] in *. split; cbn [i_src i_snk]; [apply Ps_any; exact A|exact HF].
Qed.

Lemma lzma2_decompress_top_inv fuel io0 : Ps KDone (i_src io0) -> Pk KDone (i_snk io0) ->
  IoFin (fst (lzma2_decompress_top fuel io0)) (snd (lzma2_decompress_top fuel io0)).
Proof.
  intros Hs Hk. unfold lzma2_decompress_top.
  destruct lzma2_new as [dec|e|q]; try (split; cbn [fst snd FinPost cls]; auto; fail).
  pose proof (lzma2_decompress_inv fuel dec io0 Hs Hk) as H.
  destruct (lzma2_decompress fuel dec io0) as [r [d' w']]. exact H.
Qed.

End Core.

(* ======================================================================= *)
(* Layers that run arbitrary programs against both ends: Xz and the encoders *)
Lemma trivk_write (k : snk) (bs : list N) : True ->
  match snk_write k bs with HOk _ _ => True | HErr _ _ => True | HPanic _ _ => True end.
Proof. intros _. destruct (snk_write k bs); exact I. Qed.

Section World.
Variable Ps : ocls -> src -> Prop.
Variable Pk : ocls -> snk -> Prop.
Hypothesis Ps_any : forall b s, Ps KDone s -> Ps b s.
Hypothesis Pk_any : forall b k, Pk KDone k -> Pk b k.
Hypothesis Ps_fill : forall s, Ps KDone s ->
  match src_fill s with HOk _ s' => Ps KDone s' | HErr e s' => Ps (KFail e) s' | HPanic _ s' => Ps KPanic s' end.
Hypothesis Ps_consume : forall s n, Ps KDone s -> Ps KDone (src_consume s n).
Hypothesis Ps_limit : forall b s l, Ps b s -> Ps b (set_limit s l).
Hypothesis Pk_write : forall k bs, Pk KDone k ->
  match snk_write k bs with HOk _ k' => Pk KDone k' | HErr e k' => Pk (KFail e) k' | HPanic _ k' => Pk KPanic k' end.
Hypothesis Pk_flush : forall k, Pk KDone k ->
  match snk_flush k with HOk _ k' => Pk KDone k' | HErr e k' => Pk (KFail e) k' | HPanic _ k' => Pk KPanic k' end.

Definition IoI (b : ocls) (w : io) : Prop := Ps b (i_src w) /\ Pk b (i_snk w).

Lemma IoI_any b w : IoI KDone w -> IoI b w.
Proof. intros [A B]. split; auto. Qed.

Lemma io_h_inv X (o : ioE X) w : IoI KDone w ->
  match io_h X o w with HOk _ w' => IoI KDone w' | HErr e w' => IoI (KFail e) w' | HPanic _ w' => IoI KPanic w' end.
Proof.
  intros [Hs Hk]. destruct o; cbn [io_h].
  - pose proof (Ps_fill _ Hs) as HF. destruct (src_fill (i_src w)); split; cbn [i_src i_snk]; auto.
  - split; cbn [i_src i_snk]; auto.
  - pose proof (Pk_write _ bs Hk) as HF. destruct (snk_write (i_snk w) bs); split; cbn [i_src i_snk]; auto.
  - pose proof (Pk_flush _ Hk) as HF. destruct (snk_flush (i_snk w)); split; cbn [i_src i_snk]; auto.
  - split; assumption.
  - split; assumption.
Qed.

Definition MInv {A} (m : M io A) : Prop := forall w, IoI KDone w -> IoI (cls (fst (m w))) (snd (m w)).

Lemma run_io_inv {A} (p : iop A) : MInv (run_io p).
Proof. intros w. unfold run_io. apply (interp_cond_inv io_h IoI IoI_any io_h_inv). Qed.

Lemma MInv_io_run {A} (p : iop A) : MInv (io_run p).
Proof. apply run_io_inv. Qed.
Lemma MInv_ret {A} (a : A) : MInv (mret a).
Proof. intros w H. exact H. Qed.
Lemma MInv_fail {A} e : MInv (@mfail io A e).
Proof. intros w H. apply IoI_any. exact H. Qed.
Lemma MInv_panic {A} p : MInv (@mpanic io A p).
Proof. intros w H. apply IoI_any. exact H. Qed.
Lemma MInv_bind {A B} (m : M io A) (f : A -> M io B) : MInv m -> (forall a, MInv (f a)) -> MInv (mbind m f).
Proof.
  intros Hm Hf w Hw. unfold mbind. specialize (Hm w Hw).
  destruct (m w) as [[a|e|q] w1]; cbn [fst snd cls] in *; auto. apply Hf. exact Hm.
Qed.

(* ---------- Xz ---------- *)
Section XzCrc.
Variable crc32 : list N -> N.
Variable crc64 : list N -> N.

Lemma decode_filter_inv fuel f s : Ps KDone s ->
  Ps (cls (fst (decode_filter fuel f s))) (snd (decode_filter fuel f s)).
Proof.
  intros Hs. unfold decode_filter. destruct (negb _); [cbn [fst snd cls]; auto|].
  pose proof (lzma2_decompress_top_inv Ps (fun _ _ => True) Ps_any (fun _ _ _ => I) Ps_fill Ps_consume Ps_limit
                trivk_write fuel (mkIo s vec_sink) Hs I) as [H _].
  destruct (lzma2_decompress_top fuel (mkIo s vec_sink)) as [[u|e|q] w]; cbn [fst snd cls] in *; exact H.
Qed.

Lemma read_block_inv fuel start check hs : MInv (read_block crc32 crc64 fuel start check hs).
Proof.
  unfold read_block. destruct (hs =? 0); [apply MInv_panic|]. cbv zeta.
  apply MInv_bind; [apply MInv_io_run|intros hdr].
  destruct (read_block_header _ hdr) as [bh|e|q]; [|apply MInv_fail|apply MInv_panic].
  apply MInv_bind; [apply MInv_io_run|intros crc].
  destruct (negb _); [apply MInv_fail|].
  apply MInv_bind.
  - destruct (bh_filters bh) as [|f0 fs]; [apply MInv_ret|].
    intros w [Hs Hk]. pose proof (decode_filter_inv fuel f0 (i_src w) Hs) as H.
    destruct (decode_filter fuel f0 (i_src w)) as [[[packed out]|e|q] s]; cbn [fst snd cls] in *;
      try (split; cbn [i_src i_snk]; auto; fail).
    destruct (match bh_packed bh with Some _ => _ | None => _ end);
      [cbn [fst snd cls]; split; cbn [i_src i_snk]; auto|].
    destruct (later_filters fuel fs out); cbn [fst snd cls]; split; cbn [i_src i_snk]; auto.
  - intros tmpbuf.
    destruct (match bh_unpacked bh with Some _ => _ | None => _ end); [apply MInv_fail|].
    apply MInv_bind; [apply MInv_io_run|intros pos].
    apply MInv_bind; [apply MInv_io_run|intros _].
    apply MInv_bind; [apply MInv_io_run|intros _].
    apply MInv_bind; [apply MInv_io_run|intros _].
    apply MInv_bind; [apply MInv_io_run|intros pos2].
    destruct (_ <? _); [apply MInv_panic|apply MInv_ret].
Qed.

Lemma xz_body_inv fuel check st : IoI KDone (snd st) ->
  match xz_body crc32 crc64 fuel check st with
  | Next st' => IoI KDone (snd st')
  | Break r => IoI (cls (fst r)) (snd r)
  end.
Proof.
  destruct st as [records w]. cbn [snd]. intros Hw. unfold xz_body.
  pose proof (run_io_inv read_u8 w Hw) as H1.
  destruct (run_io read_u8 w) as [[hs|e|q] w1]; cbn [fst snd cls] in *; auto.
  destruct (hs =? 0).
  - pose proof (run_io_inv (check_index crc32 (s_pos (i_src w)) (lrev records)) w1 H1) as H2.
    destruct (run_io _ w1) as [[u|e|q] w2]; cbn [fst snd cls] in *; exact H2.
  - pose proof (read_block_inv fuel (s_pos (i_src w)) check hs w1 H1) as H2.
    destruct (read_block _ _ _ _ _ _ w1) as [[r|e|q] w2]; cbn [fst snd cls] in *; exact H2.
Qed.

Lemma xz_decompress_inv fuel : MInv (xz_decompress crc32 crc64 fuel).
Proof.
  unfold xz_decompress. apply MInv_bind; [apply MInv_io_run|intros check].
  intros w Hw.
  pose proof (loopN_cond_inv (xz_body crc32 crc64 fuel check) (fun st => IoI KDone (snd st))
                (fun r => IoI (cls (fst r)) (snd r)) (xz_body_inv fuel check) fuel ([], w) Hw) as HL.
  destruct (loopN fuel _ _) as [[rs w']|[[n|e|q] w']]; cbn [fst snd cls] in *; try exact HL.
  - apply IoI_any. exact HL.
  - apply run_io_inv. exact HL.
Qed.

(* ---------- encode/xz.rs ---------- *)
End XzCrc.

(* ---------- the encoders ---------- *)
Lemma denc_body_inv st : IoI KDone (snd st) ->
  match denc_body st with
  | Next st' => IoI KDone (snd st')
  | Break r => IoI (cls (fst r)) (snd r)
  end.
Proof.
  destruct st as [l w]. cbn [snd]. intros Hw. unfold denc_body.
  pose proof (run_io_inv (read_buf 1) w Hw) as H1.
  destruct (run_io (read_buf 1) w) as [[[|byte t]|e|q] w1]; cbn [fst snd cls] in *; auto.
  match goal with |- context [run_io ?p w1] =>
    pose proof (run_io_inv p w1 H1) as H2; destruct (run_io p w1) as [[d'|e|q] w2] end;
    cbn [fst snd cls] in *; exact H2.
Qed.

Lemma lzma_compress_inv fuel o : MInv (lzma_compress fuel o).
Proof.
  intros w Hw. unfold lzma_compress.
  pose proof (run_io_inv (denc_from_stream o) w Hw) as H1.
  destruct (run_io _ w) as [[d|e|q] w1]; cbn [fst snd cls] in *; auto.
  pose proof (loopN_cond_inv denc_body (fun st => IoI KDone (snd st))
                (fun r => IoI (cls (fst r)) (snd r)) denc_body_inv fuel (mkDloop d 0 0 0, w1) H1) as HL.
  destruct (loopN fuel denc_body _) as [[l w2]|[[l|e|q] w2]]; cbn [fst snd cls] in *; try exact HL.
  - apply IoI_any. exact HL.
  - apply run_io_inv. exact HL.
Qed.

Lemma l2enc_body_inv w : IoI KDone w ->
  match l2enc_body w with Next w' => IoI KDone w' | Break r => IoI (cls (fst r)) (snd r) end.
Proof.
  intros Hw. unfold l2enc_body.
  pose proof (run_io_inv (read_buf 65536) w Hw) as H1.
  destruct (run_io (read_buf 65536) w) as [[[|byte t]|e|q] w1]; cbn [fst snd cls] in *; auto.
  - apply run_io_inv. exact H1.
  - match goal with |- context [run_io ?p w1] =>
      pose proof (run_io_inv p w1 H1) as H2; destruct (run_io p w1) as [[d'|e|q] w2] end;
      cbn [fst snd cls] in *; exact H2.
Qed.

Lemma lzma2_compress_inv fuel : MInv (lzma2_compress fuel).
Proof.
  intros w Hw. unfold lzma2_compress.
  pose proof (loopN_cond_inv l2enc_body (IoI KDone) (fun r => IoI (cls (fst r)) (snd r)) l2enc_body_inv fuel w Hw) as HL.
  destruct (loopN fuel l2enc_body w) as [w'|r]; cbn [fst snd cls]; [apply IoI_any|]; exact HL.
Qed.

Lemma xz_compress_inv crc32 fuel : MInv (xz_compress crc32 fuel).
Proof.
  intros w Hw. unfold xz_compress.
  match goal with |- context [run_io ?p w] =>
    pose proof (run_io_inv p w Hw) as H1; destruct (run_io p w) as [[[c0 p0]|e|q] w1] end;
    cbn [fst snd cls] in *; auto.
  pose proof (lzma2_compress_inv fuel w1 H1) as H2.
  destruct (lzma2_compress fuel w1) as [[u|e|q] w2]; cbn [fst snd cls] in *; auto.
  apply run_io_inv. exact H2.
Qed.

End World.
