(* C02, layer 1: the range decoder's reads under a std::io::Take limit.
   [TakeOk s rest trail]: the source is fault free, what is left of it is [rest ++ trail] and the
   Take limit is exactly the length of [rest] (the part of the packed chunk not yet consumed).
   When the pure decoder of RangeLockstep.v succeeds on [rest] ALONE, the model's programs
   rc_new / rc_normalize / rc_decode_bit / rc_get run on such a source return the same values,
   never reach the limit and keep the invariant, whatever the fragmentation of the source. *)
From LZ Require Import Base.Prelude Base.Prog Model.Io Model.Tables Model.LzBuffer Model.RangeDec Model.Lzma Model.Lzma2 Format.RefEnc
  Proofs.ProgLemmas Proofs.IoLemmas Proofs.RangeLockstep.
From Coq Require Import ZifyBool ZifyNat ZifyN.
Local Open Scope prog_scope.

Definition TakeOk (s : src) (rest trail : list N) : Prop :=
  FaultFreeL s /\ s_rest s = rest ++ trail /\ s_limit s = Some (nlen rest).

(* [p] run on [s] returns [a] and consumes exactly the bytes of [rest] that precede [rest'] *)
Definition runsT {A} (p : iop A) (s : src) (rest trail : list N) (a : A) (rest' : list N) : Prop :=
  exists s', io_runs p s (Done a) s' /\ TakeOk s' rest' trail /\ s_pos s' + nlen rest' = s_pos s + nlen rest.

Lemma runsT_ret {A} (a : A) s rest trail : TakeOk s rest trail -> runsT (Ret a) s rest trail a rest.
Proof. intros H. exists s. split; [apply io_runs_ret|]. split; [exact H|reflexivity]. Qed.

Lemma runsT_bind {A B} (p : iop A) (f : A -> iop B) s rest trail a rest1 b rest2 :
  runsT p s rest trail a rest1 ->
  (forall s1, TakeOk s1 rest1 trail -> runsT (f a) s1 rest1 trail b rest2) ->
  runsT (bind p f) s rest trail b rest2.
Proof.
  intros (s1 & Hrun1 & HT1 & Hp1) Hf. destruct (Hf s1 HT1) as (s2 & Hrun2 & HT2 & Hp2).
  exists s2. split; [eapply io_runs_bind; eassumption|]. split; [exact HT2|lia].
Qed.

Lemma runsT_src_run {A} (p : iop A) s rest trail a rest' : runsT p s rest trail a rest' ->
  exists s', src_run p s = (Done a, s') /\ TakeOk s' rest' trail /\ s_pos s' + nlen rest' = s_pos s + nlen rest.
Proof. intros (s' & H & H'). exists s'. split; [apply io_runs_src_run; exact H|exact H']. Qed.

Lemma read_u8_take s b rest trail : TakeOk s (b :: rest) trail -> runsT read_u8 s (b :: rest) trail b rest.
Proof.
  intros (Hff & Hr & Hl). cbn [app] in Hr.
  destruct (io_read_u8_specL s b (rest ++ trail) Hff Hr) as (s' & Hrun & Hr' & Hp' & Hl' & Hff').
  { unfold lim_ge. rewrite Hl, nlen_cons. lia. }
  exists s'. split; [exact Hrun|]. split.
  - split; [exact Hff'|]. split; [exact Hr'|]. rewrite Hl'. unfold lim_sub. rewrite Hl, nlen_cons. f_equal. lia.
  - rewrite Hp', nlen_cons. lia.
Qed.

Lemma read_exact_take s bs rest trail n : TakeOk s (bs ++ rest) trail -> nlen bs = n ->
  runsT (read_exact n) s (bs ++ rest) trail bs rest.
Proof.
  intros (Hff & Hr & Hl) Hn. rewrite <- app_assoc in Hr.
  destruct (io_read_exact_specL s bs (rest ++ trail) n Hff Hr Hn) as (s' & Hrun & Hr' & Hp' & Hl' & Hff').
  { unfold lim_ge. rewrite Hl, nlen_app. lia. }
  exists s'. split; [exact Hrun|]. split.
  - split; [exact Hff'|]. split; [exact Hr'|]. rewrite Hl'. unfold lim_sub. rewrite Hl, nlen_app. f_equal. lia.
  - rewrite Hp', nlen_app. lia.
Qed.

(* ---------- RangeDecoder::new ---------- *)
Theorem rc_new_take s b0 c3 c2 c1 c0 rest trail :
  TakeOk s (b0 :: c3 :: c2 :: c1 :: c0 :: rest) trail ->
  exists s', src_run rc_new s = (Done (mkRc 4294967295 (be_num [c3; c2; c1; c0])), s') /\
             TakeOk s' rest trail /\ s_pos s' = s_pos s + 5.
Proof.
  intros HT.
  assert (R : runsT rc_new s (b0 :: c3 :: c2 :: c1 :: c0 :: rest) trail
                (mkRc 4294967295 (be_num [c3; c2; c1; c0])) rest).
  { unfold rc_new, read_u32_be.
    eapply runsT_bind; [apply read_u8_take; exact HT|]. intros s1 HT1.
    eapply runsT_bind.
    - eapply runsT_bind.
      + apply (read_exact_take s1 [c3; c2; c1; c0] rest trail 4); [exact HT1|reflexivity].
      + intros s2 HT2. apply runsT_ret. exact HT2.
    - intros s2 HT2. apply runsT_ret. exact HT2. }
  destruct (runsT_src_run _ _ _ _ _ _ R) as (s' & Hrun & HT' & Hp).
  exists s'. split; [exact Hrun|]. split; [exact HT'|]. rewrite !nlen_cons in Hp. lia.
Qed.

(* ---------- normalize / decode_bit / get ---------- *)
Lemma rc_normalize_take r s rest trail r' rest' :
  TakeOk s rest trail -> pnorm r rest = Some (r', rest') ->
  runsT (rc_normalize r) s rest trail r' rest'.
Proof.
  intros HT. unfold rc_normalize, pnorm. destruct (N.ltb_spec (r_range r) 16777216) as [Hlt|Hge].
  - destruct rest as [|b t]; [discriminate|]. intros E. inversion E; subst r' rest'. clear E.
    eapply runsT_bind; [apply read_u8_take; exact HT|]. intros s1 HT1. apply runsT_ret. exact HT1.
  - intros E. inversion E; subst r' rest'. apply runsT_ret. exact HT.
Qed.

Theorem rc_decode_bit_take r p upd s rest trail b r' rest' :
  TakeOk s rest trail -> r_range r < 4294967296 -> p <= 2048 ->
  pdecode_bit r p rest = Some (b, r', rest') ->
  exists s', src_run (rc_decode_bit r p upd) s = (Done (b, (if upd then prob_upd p b else p), r'), s') /\
             TakeOk s' rest' trail /\ s_pos s' + nlen rest' = s_pos s + nlen rest.
Proof.
  intros HT HR Hp Hpd. apply runsT_src_run.
  unfold pdecode_bit, pdecode_pre, pfinish in Hpd.
  unfold rc_decode_bit, prob_upd, U32, U16.
  rewrite shiftr11 in *. rewrite !shiftr5. pose proof (bound_le (r_range r) p Hp) as Hb.
  set (bound := r_range r / 2048 * p) in *.
  destruct (N.leb_spec 4294967296 bound) as [H|_]; [lia|].
  destruct (N.ltb_spec (r_code r) bound) as [Hlt|Hge]; cbn [fst snd] in Hpd.
  - destruct (N.ltb_spec 2048 p) as [H|_]; [lia|]. rewrite andb_false_r.
    assert (Hp' : (if upd then p + (2048 - p) / 32 else p) < 65536).
    { destruct upd; [|lia]. pose proof (N.div_mod (2048 - p) 32 ltac:(lia)). lia. }
    destruct (N.leb_spec 65536 (if upd then p + (2048 - p) / 32 else p)) as [H|_]; [lia|].
    destruct (pnorm (mkRc bound (r_code r)) rest) as [[r1 t1]|] eqn:En; [|discriminate].
    inversion Hpd; subst b r' rest'. clear Hpd.
    eapply runsT_bind; [apply rc_normalize_take; [exact HT|exact En]|].
    intros s1 HT1. apply runsT_ret. exact HT1.
  - destruct (N.ltb_spec (r_range r) bound) as [H|_]; [lia|].
    destruct (pnorm (mkRc (r_range r - bound) (r_code r - bound)) rest) as [[r1 t1]|] eqn:En; [|discriminate].
    inversion Hpd; subst b r' rest'. clear Hpd.
    eapply runsT_bind; [apply rc_normalize_take; [exact HT|exact En]|].
    intros s1 HT1. apply runsT_ret. exact HT1.
Qed.

Lemma rc_get_bit_take r s rest trail b r' rest' :
  TakeOk s rest trail -> pget_bit r rest = Some (b, r', rest') ->
  runsT (rc_get_bit r) s rest trail (b, r') rest'.
Proof.
  intros HT Hpd. unfold pget_bit, pget_pre, pfinish in Hpd. cbn [fst snd] in Hpd.
  unfold rc_get_bit.
  set (range := N.shiftr (r_range r) 1) in *.
  set (code := if range <=? r_code r then r_code r - range else r_code r) in *.
  destruct (pnorm (mkRc range code) rest) as [[r1 t1]|] eqn:En; [|discriminate].
  inversion Hpd; subst b r' rest'. clear Hpd.
  eapply runsT_bind; [apply rc_normalize_take; [exact HT|exact En]|].
  intros s1 HT1. apply runsT_ret. exact HT1.
Qed.

Lemma rc_get_loop_take n : forall r result s rest trail v r' rest',
  TakeOk s rest trail -> pget_loop n r result rest = Some (v, r', rest') ->
  runsT (rc_get_loop n r result) s rest trail (v, r') rest'.
Proof.
  induction n as [|n IH]; intros r result s rest trail v r' rest' HT Hp; cbn [rc_get_loop pget_loop] in *.
  - inversion Hp; subst. apply runsT_ret. exact HT.
  - destruct (pget_bit r rest) as [[[b r1] t1]|] eqn:Eb; [|discriminate].
    eapply runsT_bind; [apply rc_get_bit_take; [exact HT|exact Eb]|].
    intros s1 HT1. cbv beta iota. apply IH; [exact HT1|exact Hp].
Qed.

Theorem rc_get_take count r s rest trail v r' rest' :
  TakeOk s rest trail -> pget count r rest = Some (v, r', rest') ->
  exists s', src_run (rc_get count r) s = (Done (v, r'), s') /\
             TakeOk s' rest' trail /\ s_pos s' + nlen rest' = s_pos s + nlen rest.
Proof.
  intros HT Hp. apply runsT_src_run. unfold rc_get. apply rc_get_loop_take; [exact HT|exact Hp].
Qed.

(* ---------- fill_buf ---------- *)
Theorem fill_take s rest trail : TakeOk s rest trail ->
  exists buf s', src_run (icall FillBuf) s = (Done buf, s') /\ TakeOk s' rest trail /\ s_pos s' = s_pos s.
Proof.
  intros (Hff & Hr & Hl).
  destruct (IoLemmas.src_fill_spec s Hff) as (v & s1 & Hfill & Hr1 & Hp1 & Hl1 & Hs1 & _).
  exists (s_rest s, v), s1. split.
  - unfold src_run, run_io. rewrite interp_call. cbn [io_h i_src i_snk]. rewrite Hfill. reflexivity.
  - split; [|exact Hp1]. split; [exact Hs1|]. split; congruence.
Qed.

(* entering and leaving the Take adapter *)
Lemma TakeOk_enter s rest trail : FaultFreeL s -> s_rest s = rest ++ trail ->
  TakeOk (set_limit s (Some (nlen rest))) rest trail.
Proof. intros Hff Hr. split; [exact Hff|]. split; [exact Hr|reflexivity]. Qed.

Lemma TakeOk_leave s rest trail : TakeOk s rest trail ->
  FaultFree (set_limit s None) /\ s_rest (set_limit s None) = rest ++ trail /\ s_pos (set_limit s None) = s_pos s.
Proof.
  intros ((Hf & Ha) & Hr & Hl). split; [|split; [exact Hr|reflexivity]].
  split; [exact Hf|]. split; [reflexivity|exact Ha].
Qed.

Print Assumptions rc_new_take.
Print Assumptions rc_decode_bit_take.
Print Assumptions rc_get_take.
Print Assumptions fill_take.
