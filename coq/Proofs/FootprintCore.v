(* C07, memory clause - core: what a decoder world holds, and the invariant that bounds it.

   Everything the decoders keep between two steps is a list, a map with an explicit
   length ([c_blen], [a_blen], [t_len]) or a fixed record of numbers.  The Rust
   allocations these model are
     - partial_input_buf (ds_pib, at most 20 bytes in use),
     - the probability tables (t_len of every table; only literal_probs depends on the
       stream: 0x300 << (lc + lp) cells),
     - the window: LzCircularBuffer.buf (c_blen bytes, grown lazily by circ_set) or
       LzAccumBuffer.buf (a_blen bytes).
   This file proves, for ARBITRARY input (no assumption on the source, the sink or the
   bytes), that one turn of the main loop pm_body - and hence every iteration - keeps
     pib <= 20,  tables = constant shape,  window allocation <= min(produced, dict, memlimit).

   The window part needs two predicates: [WinFoot] holds in every state from which decoding
   goes on; after a failed write of a full lap the circular buffer is left with
   cursor = dict_size (as in Rust) and only the bound [WinBound] survives - which is all
   that is claimed of a state in which decoding has stopped. *)
From LZ Require Import Base.Prelude Base.Prog Model.Io Model.Tables Model.LzBuffer Model.RangeDec Model.Lzma.
From LZ Require Import Proofs.ProgLemmas Proofs.IoLemmas Proofs.StreamLatch Proofs.StreamPrefix Proofs.SizeRules Proofs.ResetFresh Proofs.FaultProp.
Local Open Scope prog_scope.

(* ------------------------------------------------------------------ *)
(* 1. what is allocated                                                 *)
(* ------------------------------------------------------------------ *)
(* probability tables, in u16 cells *)
Definition lentabs_size (l : lentabs) : N := 2 + t_len (lt_low l) + t_len (lt_mid l) + t_len (lt_high l).
Definition tabs_size (t : ptabs) : N :=
  t_len (p_lit t) + t_len (p_pos_slot t) + t_len (p_align t) + t_len (p_pos_dec t) + t_len (p_is_match t) +
  t_len (p_is_rep t) + t_len (p_is_rep_g0 t) + t_len (p_is_rep_g1 t) + t_len (p_is_rep_g2 t) +
  t_len (p_is_rep_0long t) + lentabs_size (p_len t) + lentabs_size (p_rep_len t).

Definition TABS_FIXED : N := 1847.                        (* everything but literal_probs *)
Definition LIT_ROWS_MAX : N := 4096.                      (* 1 << (8 + 4) *)
Definition TABS_MAX : N := LIT_ROWS_MAX * 768 + TABS_FIXED.   (* 0x300 * 2^12 + 1847 cells *)

(* the window, in bytes *)
Definition win_alloc (w : win) : N := match w with WCirc c => c_blen c | WAccum a => a_blen a end.

(* one LZMA decoding world, in bytes (tables are u16) *)
Definition lw_footprint (w : lw) : N :=
  nlen (ds_pib (l_ds w)) + 2 * tabs_size (ds_tabs (l_ds w)) + win_alloc (l_win w).
Definition FOOT_CONST : N := MAX_REQUIRED_INPUT + 2 * TABS_MAX.

(* ------------------------------------------------------------------ *)
(* 2. tables                                                            *)
(* ------------------------------------------------------------------ *)
Definition TabsFoot (t : ptabs) : Prop :=
  p_lit_rows t <= LIT_ROWS_MAX /\ tabs_size t = p_lit_rows t * 768 + TABS_FIXED.

Lemma TabsFoot_bound t : TabsFoot t -> tabs_size t <= TABS_MAX.
Proof. unfold TabsFoot, TABS_MAX. intros [H1 H2]. rewrite H2. lia. Qed.

Lemma ptabs_new_size rows : tabs_size (ptabs_new rows) = rows * 768 + TABS_FIXED.
Proof.
  unfold tabs_size, ptabs_new, lentabs_size, lentabs_new, tab_new, TABS_FIXED.
  cbn [p_lit p_pos_slot p_align p_pos_dec p_is_match p_is_rep p_is_rep_g0 p_is_rep_g1 p_is_rep_g2 p_is_rep_0long
       p_len p_rep_len t_len lt_low lt_mid lt_high]. lia.
Qed.

Lemma TabsFoot_new rows : rows <= LIT_ROWS_MAX -> TabsFoot (ptabs_new rows).
Proof. intros H. split; [exact H|apply ptabs_new_size]. Qed.

Lemma len_set_size l p v : lentabs_size (len_set l p v) = lentabs_size l.
Proof. destruct p; reflexivity. Qed.

Lemma cell_set_size t c v : tabs_size (cell_set t c v) = tabs_size t.
Proof.
  destruct t as [rows lit ps al pd im ir g0 g1 g2 r0 ln rl].
  destruct c as [i|i|i|i|i|i|row col|ls i|i|i|rep lpart]; try reflexivity.
  destruct rep; unfold tabs_size; cbn [cell_set p_lit p_pos_slot p_align p_pos_dec p_is_match p_is_rep p_is_rep_g0 p_is_rep_g1
    p_is_rep_g2 p_is_rep_0long p_len p_rep_len]; rewrite len_set_size; reflexivity.
Qed.

Lemma cell_set_TabsFoot t c v : TabsFoot t -> TabsFoot (cell_set t c v).
Proof. unfold TabsFoot. rewrite cell_set_size, cell_set_rows. trivial. Qed.

Lemma shiftl_rows_le a b : a <= 8 -> b <= 4 -> N.shiftl 1 (a + b) <= LIT_ROWS_MAX.
Proof.
  intros Ha Hb. rewrite N.shiftl_1_l. unfold LIT_ROWS_MAX. change 4096 with (2 ^ 12).
  apply N.pow_le_mono_r; lia.
Qed.

Lemma props_valid_rows p : props_valid p = true -> N.shiftl 1 (lc p + lp p) <= LIT_ROWS_MAX.
Proof.
  unfold props_valid. intros H. apply andb_true_iff in H. destruct H as [H H3]. apply andb_true_iff in H. destruct H as [H1 H2].
  apply N.leb_le in H1, H2. apply shiftl_rows_le; assumption.
Qed.

(* the handler of the symbol decoder only ever writes single cells *)
Lemma dec_h_TabsFoot X (o : decE X) w : TabsFoot (d_tabs w) ->
  match dec_h X o w with HOk _ w' => TabsFoot (d_tabs w') | HErr _ w' => TabsFoot (d_tabs w') | HPanic _ w' => TabsFoot (d_tabs w') end.
Proof.
  intros H. destruct o; cbn [dec_h].
  - destruct (cell_get (d_tabs w) c); [|exact H].
    destruct (src_run _ _) as [[[[b p'] r']|e|q] s]; cbn [d_tabs]; destruct upd; try exact H; apply cell_set_TabsFoot; exact H.
  - unfold lift_src. destruct (src_run _ _) as [[[x r']|e|q] s]; exact H.
  - destruct (src_run _ _) as [[b|e|q] s]; exact H.
  - exact H.
  - unfold lift_win. destruct (win_last_or _ _) as [[x|e|q] v]; exact H.
  - unfold lift_win. destruct (win_last_n _ _) as [[x|e|q] v]; exact H.
  - unfold lift_win. destruct (win_append_literal _ _) as [[x|e|q] v]; exact H.
  - unfold lift_win. destruct (win_append_lz _ _ _) as [[x|e|q] v]; exact H.
Qed.

Lemma interp_TabsFoot {A} (p : dprog A) w : TabsFoot (d_tabs w) -> TabsFoot (d_tabs (snd (interp dec_h p w))).
Proof. apply (interp_inv dec_h (fun x => TabsFoot (d_tabs x)) dec_h_TabsFoot). Qed.

(* ------------------------------------------------------------------ *)
(* 3. the decoder state: partial input buffer and tables                *)
(* ------------------------------------------------------------------ *)
Definition DsFoot (d : dstate) : Prop := nlen (ds_pib d) <= MAX_REQUIRED_INPUT /\ TabsFoot (ds_tabs d).

Lemma DsFoot_set_pib d pib : DsFoot d -> nlen pib <= MAX_REQUIRED_INPUT -> DsFoot (set_pib d pib).
Proof. intros [_ H] Hp. split; [exact Hp|exact H]. Qed.

Lemma DsFoot_set_unpacked d us : DsFoot d -> DsFoot (set_unpacked_size d us).
Proof. intros H. exact H. Qed.

Lemma dstate_new_foot p us d : dstate_new p us = (Done d, tt) -> DsFoot d /\ ds_pib d = [].
Proof.
  unfold dstate_new. destruct (props_valid p) eqn:Hv; cbn [negb]; [|discriminate].
  intros H. inversion H; subst. clear H. cbn [ds_pib ds_tabs]. split; [|reflexivity].
  split; [cbn [ds_pib]; unfold nlen, MAX_REQUIRED_INPUT; cbn [length]; lia|].
  cbn [ds_tabs]. apply TabsFoot_new, props_valid_rows. exact Hv.
Qed.

Lemma reset_state_foot d np d' : DsFoot d -> reset_state d np = (Done d', tt) -> DsFoot d'.
Proof.
  intros [Hp [Hr Hs]]. unfold reset_state. destruct (props_valid np) eqn:Hv; cbn [negb]; [|discriminate].
  intros H. inversion H; subst. clear H. split; [exact Hp|]. cbn [ds_tabs]. apply TabsFoot_new.
  destruct (_ =? _); [exact Hr|apply props_valid_rows; exact Hv].
Qed.

(* ------------------------------------------------------------------ *)
(* 4. the circular window                                               *)
(* ------------------------------------------------------------------ *)
(* [dict], [mem]: the dictionary size and memory limit the buffer was created with *)
Definition CircBound (dict mem : N) (c : circ) : Prop :=
  c_dict c = dict /\ c_mem c = mem /\
  c_blen c <= c_len c /\ c_blen c <= dict /\ c_blen c <= mem.
Definition CircFoot (dict mem : N) (c : circ) : Prop :=
  CircBound dict mem c /\ c_cursor c < dict /\ c_cursor c <= c_len c.

Lemma CircBound_min dict mem c : CircBound dict mem c -> c_blen c <= N.min (N.min (c_len c) dict) mem.
Proof. intros (_ & _ & H1 & H2 & H3). lia. Qed.

Lemma circ_new_foot k dict mem : 0 < dict -> CircFoot dict mem (circ_new k dict mem).
Proof.
  intros H. unfold CircFoot, CircBound, circ_new. cbn [c_dict c_mem c_blen c_len c_cursor].
  repeat split; try reflexivity; lia.
Qed.

Definition keep2 {A S} (P B : S -> Prop) (r : outcome A * S) : Prop :=
  (odone (fst r) = true -> P (snd r)) /\ B (snd r).

Lemma keep2_same {A S} (P B : S -> Prop) (HPB : forall s, P s -> B s) (o : outcome A) s : P s -> keep2 P B (o, s).
Proof. intros H. split; [intros _; exact H|apply HPB; exact H]. Qed.

Lemma CircFoot_Bound dict mem c : CircFoot dict mem c -> CircBound dict mem c.
Proof. intros [H _]. exact H. Qed.

Lemma circ_append_literal_foot dict mem c lit : CircFoot dict mem c ->
  keep2 (CircFoot dict mem) (CircBound dict mem) (circ_append_literal c lit).
Proof.
  intros [(Hd & Hm & H1 & H2 & H3) [H4 H5]].
  unfold circ_append_literal, circ_set.
  destruct (N.ltb_spec (c_blen c) (c_cursor c + 1)) as [Hg|Hg].
  - destruct (N.leb_spec (c_cursor c + 1) (c_mem c)) as [Hl|Hl].
    + cbn [c_cursor c_len c_dict c_buf c_blen c_mem c_snk].
      destruct (N.eqb_spec (c_cursor c + 1) (c_dict c)) as [He|He].
      * destruct (snk_run _ _) as [[[]|e|q] k]; split; cbn [fst snd odone]; try (intros D; discriminate D);
          unfold CircFoot, CircBound; cbn [c_cursor c_len c_dict c_buf c_blen c_mem c_snk];
          repeat split; try assumption; try lia.
      * split; cbn [fst snd odone]; unfold CircFoot, CircBound; cbn [c_cursor c_len c_dict c_buf c_blen c_mem c_snk];
          repeat split; try assumption; try lia.
    + split; cbn [fst snd odone]; [intros D; discriminate D|].
      unfold CircBound. repeat split; assumption.
  - cbn [c_cursor c_len c_dict c_buf c_blen c_mem c_snk].
    destruct (N.eqb_spec (c_cursor c + 1) (c_dict c)) as [He|He].
    + destruct (snk_run _ _) as [[[]|e|q] k]; split; cbn [fst snd odone]; try (intros D; discriminate D);
        unfold CircFoot, CircBound; cbn [c_cursor c_len c_dict c_buf c_blen c_mem c_snk];
        repeat split; try assumption; try lia.
    + split; cbn [fst snd odone]; unfold CircFoot, CircBound; cbn [c_cursor c_len c_dict c_buf c_blen c_mem c_snk];
        repeat split; try assumption; try lia.
Qed.

Lemma circ_lz_loop_foot dict mem n : forall c off, CircFoot dict mem c ->
  keep2 (CircFoot dict mem) (CircBound dict mem) (circ_lz_loop n c off).
Proof.
  induction n as [|n IH]; intros c off H; cbn [circ_lz_loop].
  - apply keep2_same; [apply CircFoot_Bound|exact H].
  - pose proof (circ_append_literal_foot dict mem c (circ_get c off) H) as [K1 K2].
    destruct (circ_append_literal c (circ_get c off)) as [[[]|e|q] c1]; cbn [fst snd odone] in *.
    + apply IH. apply K1. reflexivity.
    + split; [intros D; discriminate D|exact K2].
    + split; [intros D; discriminate D|exact K2].
Qed.

Lemma circ_append_lz_foot dict mem c len dist : CircFoot dict mem c ->
  keep2 (CircFoot dict mem) (CircBound dict mem) (circ_append_lz c len dist).
Proof.
  intros H. unfold circ_append_lz.
  destruct (_ <? _); [apply keep2_same; [apply CircFoot_Bound|exact H]|].
  destruct (_ <? _); [apply keep2_same; [apply CircFoot_Bound|exact H]|].
  destruct (_ =? _); [apply keep2_same; [apply CircFoot_Bound|exact H]|].
  apply circ_lz_loop_foot. exact H.
Qed.

(* ------------------------------------------------------------------ *)
(* 5. the accumulating window: allocation = bytes since the last reset  *)
(* ------------------------------------------------------------------ *)
Definition AccFoot (a : accum) : Prop := a_blen a = a_len a.

Lemma accum_new_foot k mem : AccFoot (accum_new k mem).
Proof. reflexivity. Qed.

Lemma accum_lz_loop_blen n : forall m bl off, snd (accum_lz_loop n m bl off) = bl + N.of_nat n.
Proof.
  induction n as [|n IH]; intros m bl off; cbn [accum_lz_loop].
  - cbn [snd]. change (N.of_nat 0) with 0. lia.
  - rewrite IH. rewrite Nnat.Nat2N.inj_succ. lia.
Qed.

Lemma accum_append_literal_foot a lit : AccFoot a -> AccFoot (snd (accum_append_literal a lit)).
Proof.
  unfold AccFoot, accum_append_literal. intros H. destruct (_ <? _); cbn [snd a_blen a_len]; lia.
Qed.

Lemma accum_append_lz_foot a len dist : AccFoot a -> AccFoot (snd (accum_append_lz a len dist)).
Proof.
  unfold AccFoot, accum_append_lz. intros H.
  destruct (_ <? _); [exact H|]. destruct (_ && _); [exact H|].
  pose proof (accum_lz_loop_blen (N.to_nat len) (a_buf a) (a_blen a) (a_blen a - dist)) as E.
  destruct (accum_lz_loop _ _ _ _) as [m bl]. cbn [snd a_blen a_len] in *. rewrite E, Nnat.N2Nat.id. lia.
Qed.

Lemma accum_append_bytes_foot a bs : AccFoot a -> AccFoot (accum_append_bytes a bs).
Proof. unfold AccFoot, accum_append_bytes. cbn [a_blen a_len]. lia. Qed.

Lemma accum_reset_foot a : AccFoot a -> AccFoot (snd (accum_reset a)).
Proof.
  unfold AccFoot, accum_reset. intros H. destruct (snk_run _ _) as [[[]|e|q] k]; cbn [snd a_blen a_len]; [reflexivity|exact H|exact H].
Qed.

(* a dictionary reset frees the whole buffer *)
Lemma accum_reset_frees a a' : accum_reset a = (Done tt, a') -> a_blen a' = 0 /\ a_len a' = 0.
Proof.
  unfold accum_reset. destruct (snk_run _ _) as [[[]|e|q] k]; intros H; inversion H; subst. split; reflexivity.
Qed.

(* ------------------------------------------------------------------ *)
(* 6. the window as a sum                                               *)
(* ------------------------------------------------------------------ *)
Definition WinBound (dict mem : N) (w : win) : Prop :=
  match w with WCirc c => CircBound dict mem c | WAccum a => AccFoot a end.
Definition WinFoot (dict mem : N) (w : win) : Prop :=
  match w with WCirc c => CircFoot dict mem c | WAccum a => AccFoot a end.

Lemma WinFoot_Bound dict mem w : WinFoot dict mem w -> WinBound dict mem w.
Proof. destruct w; [apply CircFoot_Bound|trivial]. Qed.

(* the headline inequality: never more window than bytes produced *)
Lemma WinBound_alloc_len dict mem w : WinBound dict mem w -> win_alloc w <= win_len w.
Proof. destruct w as [c|a]; cbn [WinBound win_alloc win_len]; [intros (_ & _ & H & _); exact H|intros H; rewrite H; lia]. Qed.

Lemma WinBound_circ dict mem c : WinBound dict mem (WCirc c) ->
  c_blen c <= N.min (N.min (c_len c) dict) mem.
Proof. apply CircBound_min. Qed.

Lemma win_append_literal_foot dict mem w b : WinFoot dict mem w ->
  keep2 (WinFoot dict mem) (WinBound dict mem) (win_append_literal w b).
Proof.
  destruct w as [c|a]; cbn [WinFoot win_append_literal]; intros H.
  - pose proof (circ_append_literal_foot dict mem c b H) as [K1 K2]. split; cbn [lift_c fst snd]; assumption.
  - pose proof (accum_append_literal_foot a b H) as K. split; cbn [lift_a fst snd WinFoot WinBound]; auto.
Qed.

Lemma win_append_lz_foot dict mem w len dist : WinFoot dict mem w ->
  keep2 (WinFoot dict mem) (WinBound dict mem) (win_append_lz w len dist).
Proof.
  destruct w as [c|a]; cbn [WinFoot win_append_lz]; intros H.
  - pose proof (circ_append_lz_foot dict mem c len dist H) as [K1 K2]. split; cbn [lift_c fst snd]; assumption.
  - pose proof (accum_append_lz_foot a len dist H) as K. split; cbn [lift_a fst snd WinFoot WinBound]; auto.
Qed.

(* ------------------------------------------------------------------ *)
(* 7. transport through the symbol decoder                              *)
(* ------------------------------------------------------------------ *)
Section Transport.
  Variables dict mem : N.
  Notation P := (WinFoot dict mem).
  Notation B := (WinBound dict mem).

  (* generic: an invariant that may degrade to a weaker one when a handler fails *)
  Lemma interp_inv2 {E : Type -> Type} {S A} (h : handler E S) (I J : S -> Prop)
    (HIJ : forall s, I s -> J s)
    (Hh : forall X (o : E X) s, I s ->
       match h X o s with HOk _ s' => I s' | HErr _ s' => J s' | HPanic _ s' => J s' end) :
    forall (p : prog E A) s, I s -> keep2 I J (interp h p s).
  Proof.
    induction p as [a|e|w|X o k IH]; intros s Hs; cbn [interp].
    - apply keep2_same; assumption.
    - apply keep2_same; assumption.
    - apply keep2_same; assumption.
    - specialize (Hh X o s Hs). destruct (h X o s) as [x s'|e s'|w s'].
      + apply IH. exact Hh.
      + split; cbn [fst snd odone]; [intros D; discriminate D|exact Hh].
      + split; cbn [fst snd odone]; [intros D; discriminate D|exact Hh].
  Qed.

  Definition DwFoot (x : dw) : Prop := TabsFoot (d_tabs x) /\ P (d_win x).
  Definition DwBound (x : dw) : Prop := TabsFoot (d_tabs x) /\ B (d_win x).

  Lemma lift_win_foot {X} w (r : outcome X * win) : TabsFoot (d_tabs w) -> keep2 P B r ->
    match lift_win w r with HOk _ w' => DwFoot w' | HErr _ w' => DwBound w' | HPanic _ w' => DwBound w' end.
  Proof.
    intros Ht [K1 K2]. destruct r as [[x|e|q] v]; cbn [lift_win fst snd odone] in *.
    - split; [exact Ht|apply K1; reflexivity].
    - split; [exact Ht|exact K2].
    - split; [exact Ht|exact K2].
  Qed.

  Lemma dec_h_foot X (o : decE X) w : DwFoot w ->
    match dec_h X o w with HOk _ w' => DwFoot w' | HErr _ w' => DwBound w' | HPanic _ w' => DwBound w' end.
  Proof.
    intros [Ht Hw]. pose proof (dec_h_TabsFoot X o w Ht) as T. pose proof (WinFoot_Bound _ _ _ Hw) as Hb.
    destruct o; cbn [dec_h] in *.
    - destruct (cell_get (d_tabs w) c); [|split; assumption].
      destruct (src_run _ _) as [[[[b p'] r']|e|q] s]; cbn [d_tabs d_win] in *; split; assumption.
    - unfold lift_src in *. destruct (src_run _ _) as [[[x r']|e|q] s]; split; assumption.
    - destruct (src_run _ _) as [[b|e|q] s]; split; assumption.
    - split; assumption.
    - apply lift_win_foot; [exact Ht|]. rewrite (surjective_pairing (win_last_or (d_win w) d)), win_last_or_st.
      apply keep2_same; [apply WinFoot_Bound|exact Hw].
    - apply lift_win_foot; [exact Ht|]. rewrite (surjective_pairing (win_last_n (d_win w) dist)), win_last_n_st.
      apply keep2_same; [apply WinFoot_Bound|exact Hw].
    - apply lift_win_foot; [exact Ht|]. apply win_append_literal_foot. exact Hw.
    - apply lift_win_foot; [exact Ht|]. apply win_append_lz_foot. exact Hw.
  Qed.

  Lemma DwFoot_Bound x : DwFoot x -> DwBound x.
  Proof. intros [H1 H2]. split; [exact H1|apply WinFoot_Bound; exact H2]. Qed.

  (* every state the symbol decoder passes through, whatever the program *)
  Theorem interp_dec_foot {A} (p : dprog A) x : DwFoot x -> keep2 DwFoot DwBound (interp dec_h p x).
  Proof. apply interp_inv2; [exact DwFoot_Bound|exact dec_h_foot]. Qed.

  (* ---- one LZMA world ---- *)
  Definition LwFoot (w : lw) : Prop := DsFoot (l_ds w) /\ P (l_win w).
  Definition LwBound (w : lw) : Prop := DsFoot (l_ds w) /\ B (l_win w).

  Lemma LwFoot_Bound w : LwFoot w -> LwBound w.
  Proof. intros [H1 H2]. split; [exact H1|apply WinFoot_Bound; exact H2]. Qed.

  Lemma run_sym_foot upd w : LwFoot w -> keep2 LwFoot LwBound (run_sym upd w).
  Proof.
    intros [[Hp Ht] Hw]. unfold run_sym.
    assert (Hx : DwFoot (mkDw (ds_tabs (l_ds w)) (l_rc w) (l_src w) (l_win w))) by (split; assumption).
    pose proof (interp_dec_foot (process_next_inner (ds_props (l_ds w)) (mkSym (ds_state (l_ds w)) (ds_rep (l_ds w))) upd) _ Hx)
      as [K1 K2].
    destruct (interp dec_h _ _) as [[[st y]|e|q] x]; cbn [fst snd odone] in *.
    - specialize (K1 eq_refl). destruct K1 as [T1 T2]. split; intros; (split; [split; [exact Hp|exact T1]|]);
        cbn [l_win]; [exact T2|apply WinFoot_Bound; exact T2].
    - destruct K2 as [T1 T2]. split; [intros D; discriminate D|]. split; [split; [exact Hp|exact T1]|exact T2].
    - destruct K2 as [T1 T2]. split; [intros D; discriminate D|]. split; [split; [exact Hp|exact T1]|exact T2].
  Qed.

  Lemma nlen_read_buf_le n s : match src_run (read_buf n) s with (Done got, _) => nlen got <= n | _ => True end.
  Proof.
    unfold src_run, run_io, read_buf. destruct (N.eqb_spec n 0) as [->|Hn].
    - cbn [interp]. unfold nlen. cbn [length]. lia.
    - rewrite interp_bind. rewrite interp_call.
      destruct (io_h _ FillBuf (mkIo s vec_sink)) as [vis w'|e w'|q w']; [|exact I|exact I].
      rewrite interp_bind, interp_call. cbn [io_h interp].
      rewrite nlen_nfirstn. lia.
  Qed.

  (* read_partial_input_buf never holds more than 20 bytes *)
  Lemma rpib_ds w : DsFoot (l_ds w) -> DsFoot (l_ds (snd (read_partial_input_buf w))).
  Proof.
    intros [Hp Ht]. unfold read_partial_input_buf.
    destruct (N.ltb_spec MAX_REQUIRED_INPUT (nlen (ds_pib (l_ds w)))) as [C|_]; [split; assumption|].
    pose proof (nlen_read_buf_le (MAX_REQUIRED_INPUT - nlen (ds_pib (l_ds w))) (l_src w)) as L.
    destruct (src_run _ _) as [[got|e|q] s]; cbn [snd l_ds]; try (split; assumption).
    split; [|exact Ht]. cbn [set_pib ds_pib]. rewrite nlen_app. lia.
  Qed.

  Lemma rpib_foot w : LwFoot w -> LwFoot (snd (read_partial_input_buf w)).
  Proof. intros [H1 H2]. split; [apply rpib_ds; exact H1|rewrite rpib_win; exact H2]. Qed.

  Lemma pm_head_st mode w : l_ds (snd (pm_head mode w)) = l_ds w /\ l_win (snd (pm_head mode w)) = l_win w.
  Proof.
    unfold pm_head. destruct (ds_unpacked (l_ds w)); [split; reflexivity|]. destruct mode.
    - destruct (src_run is_eof _) as [[b|e|q] s]; split; reflexivity.
    - destruct (_ =? _); [|split; reflexivity]. destruct (src_run _ _) as [[b|e|q] s]; split; reflexivity.
  Qed.

  Lemma LwFoot_head mode w : LwFoot w -> LwFoot (snd (pm_head mode w)).
  Proof. intros [H1 H2]. destruct (pm_head_st mode w) as [E1 E2]. split; [rewrite E1; exact H1|rewrite E2; exact H2]. Qed.

  (* what one turn of the loop leaves behind: the full invariant when decoding goes on or has
     stopped with Ok, the bound in every case *)
  Definition StepFoot (x : step lw pm_result) : Prop :=
    match x with Next w' => LwFoot w' | Break r => keep2 LwFoot LwBound r end.

  Lemma break_same (o : outcome unit) w : LwFoot w -> StepFoot (Break (o, w)).
  Proof. intros H. cbn [StepFoot]. apply keep2_same; [exact LwFoot_Bound|exact H]. Qed.

  Lemma pm_tail_foot mode w1 : LwFoot w1 -> StepFoot (pm_tail mode w1).
  Proof.
    intros Hw. unfold pm_tail. destruct (0 <? _).
    - pose proof (rpib_foot w1 Hw) as H2.
      destruct (read_partial_input_buf w1) as [[u|e|q] w2]; cbn [snd] in H2; try (apply break_same; exact H2).
      cbv zeta.
      set (nm := match mode with Partial => _ | FinishMode => _ end). clearbody nm.
      destruct nm as [[|]|e|q]; try (apply break_same; exact H2).
      assert (H3 : LwFoot (mkLw (l_ds w2) (l_rc w2) (cursor_of (ds_pib (l_ds w2))) (l_win w2))) by exact H2.
      pose proof (run_sym_foot true _ H3) as [K1 K2].
      destruct (run_sym true _) as [[st|e|q] t]; cbn [fst snd odone] in *.
      + destruct (_ <? _); [apply break_same; exact H2|].
        specialize (K1 eq_refl).
        assert (H4 : LwFoot (mkLw (set_pib (l_ds t) (nskipn (s_pos (l_src t)) (ds_pib (l_ds w2)))) (l_rc t) (l_src w2) (l_win t))).
        { destruct K1 as [D1 D2]. split; cbn [l_ds l_win]; [|exact D2].
          apply DsFoot_set_pib; [exact D1|]. rewrite nlen_nskipn. destruct H2 as [[L _] _]. lia. }
        destruct st; [exact H4|apply break_same; exact H4].
      + cbn [StepFoot]. split; cbn [fst snd odone]; [intros D; discriminate D|]. destruct K2 as [D1 D2]. split; assumption.
      + cbn [StepFoot]. split; cbn [fst snd odone]; [intros D; discriminate D|]. destruct K2 as [D1 D2]. split; assumption.
    - destruct (src_run (icall FillBuf) (l_src w1)) as [[buf|e|q] s];
        try (apply break_same; destruct Hw as [D1 D2]; split; assumption).
      cbv zeta.
      assert (H2 : LwFoot (mkLw (l_ds w1) (l_rc w1) s (l_win w1))) by (destruct Hw as [D1 D2]; split; assumption).
      set (nm := match mode with Partial => _ | FinishMode => _ end). clearbody nm.
      destruct nm as [[|]|e|q]; try (apply break_same; exact H2).
      + pose proof (rpib_foot _ H2) as H3. destruct (read_partial_input_buf _) as [o w3]. apply break_same. exact H3.
      + pose proof (run_sym_foot true _ H2) as [K1 K2].
        destruct (run_sym true _) as [[[|]|e|q] w3]; cbn [fst snd odone StepFoot] in *.
        * apply K1. reflexivity.
        * apply keep2_same; [exact LwFoot_Bound|apply K1; reflexivity].
        * split; cbn [fst snd odone]; [intros D; discriminate D|exact K2].
        * split; cbn [fst snd odone]; [intros D; discriminate D|exact K2].
  Qed.

  Theorem pm_body_foot mode w : LwFoot w -> StepFoot (pm_body mode w).
  Proof.
    intros Hw. rewrite pm_body_split. pose proof (LwFoot_head mode w Hw) as H1.
    destruct (pm_head mode w) as [[[|]|e|q] w1]; cbn [snd] in H1; try (apply break_same; exact H1).
    apply pm_tail_foot. exact H1.
  Qed.

  (* every iteration of the main loop, any number of them *)
  Theorem pm_iter_foot mode n w : LwFoot w -> StepFoot (iter_step n (pm_body mode) w).
  Proof.
    intros Hw. apply (iter_step_inv (pm_body mode) LwFoot (keep2 LwFoot LwBound)); [| |exact Hw].
    - intros s s' Hs E. pose proof (pm_body_foot mode s Hs) as H. rewrite E in H. exact H.
    - intros s r Hs E. pose proof (pm_body_foot mode s Hs) as H. rewrite E in H. exact H.
  Qed.

  Lemma StepFoot_bound x : StepFoot x -> LwBound (res_state x).
  Proof.
    destruct x as [w'|[o w']]; cbn [StepFoot res_state]; [apply LwFoot_Bound|intros [_ H]; exact H].
  Qed.

  (* the state process_mode returns is the state the loop stopped in *)
  Lemma process_mode_state mode fuel w :
    snd (process_mode mode fuel w) = res_state (iter_step (Pos.to_nat fuel) (pm_body mode) w) /\
    (odone (fst (process_mode mode fuel w)) = true ->
     exists w', iter_step (Pos.to_nat fuel) (pm_body mode) w = Break (Done tt, w')).
  Proof.
    unfold process_mode. rewrite loopN_iter.
    destruct (iter_step (Pos.to_nat fuel) (pm_body mode) w) as [w'|[[[]|e|q] w']]; cbn [res_state fst snd odone].
    - split; [reflexivity|intros D; discriminate D].
    - split; [|intros _; eexists; reflexivity].
      destruct (ds_unpacked (l_ds w')); [destruct mode|]; try reflexivity. destruct (_ =? _); reflexivity.
    - split; [reflexivity|intros D; discriminate D].
    - split; [reflexivity|intros D; discriminate D].
  Qed.

  Theorem process_mode_foot mode fuel w : LwFoot w -> keep2 LwFoot LwBound (process_mode mode fuel w).
  Proof.
    intros Hw. destruct (process_mode_state mode fuel w) as [E1 E2].
    pose proof (pm_iter_foot mode (Pos.to_nat fuel) w Hw) as H.
    split.
    - intros D. destruct (E2 D) as [w' E]. rewrite E1, E in *. cbn [StepFoot res_state] in *.
      destruct H as [K _]. apply K. reflexivity.
    - rewrite E1. apply StepFoot_bound. exact H.
  Qed.
End Transport.

(* ------------------------------------------------------------------ *)
(* 8. consequences stated on the footprint                              *)
(* ------------------------------------------------------------------ *)
Theorem LwBound_footprint dict mem w : LwBound dict mem w ->
  nlen (ds_pib (l_ds w)) <= MAX_REQUIRED_INPUT /\
  tabs_size (ds_tabs (l_ds w)) <= TABS_MAX /\
  win_alloc (l_win w) <= win_len (l_win w) /\
  lw_footprint w <= FOOT_CONST + win_len (l_win w).
Proof.
  intros [[Hp Ht] Hw]. pose proof (TabsFoot_bound _ Ht) as T. pose proof (WinBound_alloc_len _ _ _ Hw) as A.
  repeat split; try assumption. unfold lw_footprint, FOOT_CONST. lia.
Qed.

Print Assumptions pm_iter_foot.
Print Assumptions process_mode_foot.
Print Assumptions LwBound_footprint.
