(* Reads from a fault-free source do not depend on its fragmentation.
   [FaultFree]: no failing refill, no Take limit.  [FaultFreeL]: no failing
   refill, any Take limit (std::io::Take); the lemmas then carry the side
   condition that the limit covers the bytes read. *)
From LZ Require Import Base.Prelude Base.Prog Model.Io Model.Tables Model.LzBuffer Model.RangeDec Proofs.ProgLemmas.
From Coq Require Import ZifyBool ZifyNat ZifyN.
Local Open Scope prog_scope.

(* ---------- list helpers ---------- *)
Lemma nlen_nil {A} : nlen (@nil A) = 0.
Proof. reflexivity. Qed.

Lemma nlen_cons {A} (a : A) l : nlen (a :: l) = nlen l + 1.
Proof. unfold nlen. cbn [length]. lia. Qed.

Lemma nlen_app {A} (l1 l2 : list A) : nlen (l1 ++ l2) = nlen l1 + nlen l2.
Proof. unfold nlen. rewrite app_length. lia. Qed.

Lemma nlen_zero {A} (l : list A) : nlen l = 0 -> l = [].
Proof. destruct l; [reflexivity|]. rewrite nlen_cons. lia. Qed.

Lemma nlen_nfirstn {A} n (l : list A) : nlen (nfirstn n l) = N.min n (nlen l).
Proof. unfold nlen, nfirstn. rewrite firstn_length. lia. Qed.

Lemma nlen_nskipn {A} n (l : list A) : nlen (nskipn n l) = nlen l - n.
Proof. unfold nlen, nskipn. rewrite skipn_length. lia. Qed.

Lemma nmin_len_spec {A} n (l : list A) : nmin_len n l = N.min n (nlen l).
Proof.
  unfold nmin_len. destruct (N.ltb_spec n 1048576); [apply nlen_nfirstn|reflexivity].
Qed.

Lemma nfirstn_nskipn {A} n (l : list A) : nfirstn n l ++ nskipn n l = l.
Proof. apply firstn_skipn. Qed.

Lemma nfirstn_app_le {A} n (l1 l2 : list A) : n <= nlen l1 -> nfirstn n (l1 ++ l2) = nfirstn n l1.
Proof.
  unfold nfirstn, nlen. intros H. rewrite firstn_app.
  replace (N.to_nat n - length l1)%nat with 0%nat by lia. cbn [firstn]. apply app_nil_r.
Qed.

Lemma nskipn_app_le {A} n (l1 l2 : list A) : n <= nlen l1 -> nskipn n (l1 ++ l2) = nskipn n l1 ++ l2.
Proof.
  unfold nskipn, nlen. intros H. rewrite skipn_app.
  replace (N.to_nat n - length l1)%nat with 0%nat by lia. reflexivity.
Qed.

Lemma nfirstn_all {A} (l : list A) : nfirstn (nlen l) l = l.
Proof. unfold nfirstn, nlen. rewrite Nat2N.id. apply firstn_all. Qed.

Lemma nskipn_all {A} (l : list A) : nskipn (nlen l) l = [].
Proof. unfold nskipn, nlen. rewrite Nat2N.id. apply skipn_all. Qed.

Lemma lrev_rev_append {A} (g acc : list A) : lrev (rev_append g acc) = lrev acc ++ g.
Proof. rewrite !lrev_rev, rev_append_rev, rev_app_distr, rev_involutive. reflexivity. Qed.

(* ---------- running a program that only touches the source ---------- *)
(* [io_runs p s r s']: whatever the sink is, [p] started on source [s] ends with
   outcome [r] and source [s'], and leaves the sink alone. *)
Definition io_runs {A} (p : iop A) (s : src) (r : outcome A) (s' : src) : Prop :=
  forall k, run_io p (mkIo s k) = (r, mkIo s' k).

Lemma io_runs_src_run {A} (p : iop A) s r s' : io_runs p s r s' -> src_run p s = (r, s').
Proof. intros H. unfold src_run. rewrite H. reflexivity. Qed.

Lemma io_runs_ret {A} (a : A) s : io_runs (Ret a) s (Done a) s.
Proof. intros k. reflexivity. Qed.

Lemma io_runs_bind {A B} (p : iop A) (f : A -> iop B) s a s' r s'' :
  io_runs p s (Done a) s' -> io_runs (f a) s' r s'' -> io_runs (bind p f) s r s''.
Proof. intros H1 H2 k. unfold io_runs, run_io in *. rewrite interp_bind, H1. apply H2. Qed.

Lemma io_runs_bind_fail {A B} (p : iop A) (f : A -> iop B) s e s' :
  io_runs p s (Failed e) s' -> io_runs (bind p f) s (Failed e) s'.
Proof. intros H1 k. unfold io_runs, run_io in *. rewrite interp_bind, H1. reflexivity. Qed.

Lemma io_runs_bind_panic {A B} (p : iop A) (f : A -> iop B) s w s' :
  io_runs p s (Panicked w) s' -> io_runs (bind p f) s (Panicked w) s'.
Proof. intros H1 k. unfold io_runs, run_io in *. rewrite interp_bind, H1. reflexivity. Qed.

Lemma io_runs_det {A} (p : iop A) s r1 s1 r2 s2 :
  io_runs p s r1 s1 -> io_runs p s r2 s2 -> r1 = r2 /\ s1 = s2.
Proof.
  intros H1 H2. specialize (H1 vec_sink). specialize (H2 vec_sink). rewrite H1 in H2.
  inversion H2. split; reflexivity.
Qed.

(* ---------- fault-free sources ---------- *)
Definition FaultFree (s : src) : Prop := s_fail s = None /\ s_limit s = None /\ s_avail s <= nlen (s_rest s).
Definition FaultFreeL (s : src) : Prop := s_fail s = None /\ s_avail s <= nlen (s_rest s).

(* the Take limit, if any, is at least [n] / is below [n] / after reading [n] bytes *)
Definition lim_ge (s : src) (n : N) : Prop := match s_limit s with Some l => n <= l | None => True end.
Definition lim_lt (s : src) (n : N) : Prop := match s_limit s with Some l => l < n | None => False end.
Definition lim_sub (s : src) (n : N) : option N := match s_limit s with Some l => Some (l - n) | None => None end.

Lemma FaultFree_L s : FaultFree s -> FaultFreeL s.
Proof. intros (H1 & H2 & H3). split; assumption. Qed.

Lemma FaultFree_lim_ge s n : FaultFree s -> lim_ge s n.
Proof. intros (H1 & H2 & H3). unfold lim_ge. rewrite H2. exact I. Qed.

Lemma FaultFreeL_None s : FaultFreeL s -> s_limit s = None -> FaultFree s.
Proof. intros (H1 & H3) H2. repeat split; assumption. Qed.

Lemma lim_sub_None s n : s_limit s = None -> lim_sub s n = None.
Proof. unfold lim_sub. intros ->. reflexivity. Qed.

Lemma lim_ge_le s n m : lim_ge s n -> m <= n -> lim_ge s m.
Proof. unfold lim_ge. destruct (s_limit s); [lia|trivial]. Qed.

Lemma cursor_FaultFree data : FaultFree (cursor_of data).
Proof. unfold FaultFree, cursor_of, src_of. cbn [s_fail s_limit s_avail s_rest]. repeat split. lia. Qed.

Lemma src_of_FaultFree data frag : FaultFree (src_of data frag None).
Proof. unfold FaultFree, src_of. cbn [s_fail s_limit s_avail s_rest]. repeat split. lia. Qed.

(* fill_buf: [v] bytes become visible; nothing else that matters changes *)
Lemma src_fill_spec s : FaultFreeL s ->
  exists v s', src_fill s = HOk (s_rest s, v) s' /\
    s_rest s' = s_rest s /\ s_pos s' = s_pos s /\ s_limit s' = s_limit s /\ FaultFreeL s' /\
    v <= s_avail s' /\ lim_ge s v /\
    (s_rest s <> [] -> lim_ge s 1 -> 1 <= v) /\ (s_rest s = [] -> v = 0).
Proof.
  intros (Hf & Ha). unfold src_fill, lim_ge, limited.
  destruct (s_limit s) as [[|l]|] eqn:El.
  - exists 0, s. unfold FaultFreeL. repeat split; try assumption; try lia.
  - destruct (N.ltb_spec 0 (s_avail s)) as [Hpos|Hz].
    + exists (N.min (N.pos l) (s_avail s)), s. unfold FaultFreeL.
      repeat split; try assumption; try lia.
      intros E. rewrite E, nlen_nil in Ha. lia.
    + destruct (s_rest s) as [|b t] eqn:Er.
      * exists 0, s. unfold FaultFreeL. rewrite Er. repeat split; try assumption; try lia. congruence.
      * rewrite Hf. cbn [s_limit]. rewrite nmin_len_spec.
        eexists _, _. split; [reflexivity|]. unfold FaultFreeL. cbn [s_rest s_pos s_limit s_avail s_fail].
        rewrite nlen_cons in *. repeat split; try assumption; try lia. discriminate.
  - destruct (N.ltb_spec 0 (s_avail s)) as [Hpos|Hz].
    + exists (s_avail s), s. unfold FaultFreeL.
      repeat split; try assumption; try lia.
      intros E. rewrite E, nlen_nil in Ha. lia.
    + destruct (s_rest s) as [|b t] eqn:Er.
      * exists 0, s. unfold FaultFreeL. rewrite Er. repeat split; try assumption; try lia. congruence.
      * rewrite Hf. cbn [s_limit]. rewrite nmin_len_spec.
        eexists _, _. split; [reflexivity|]. unfold FaultFreeL. cbn [s_rest s_pos s_limit s_avail s_fail].
        rewrite nlen_cons in *. repeat split; try assumption; try lia. discriminate.
Qed.

(* Read::read of at most [n > 0] bytes: some prefix of length [g] is delivered *)
Lemma io_read_buf_spec s n : FaultFreeL s -> 0 < n ->
  exists g s', io_runs (read_buf n) s (Done (nfirstn g (s_rest s))) s' /\
    g <= n /\ g <= nlen (s_rest s) /\ lim_ge s g /\
    s_rest s' = nskipn g (s_rest s) /\ s_pos s' = s_pos s + g /\ s_limit s' = lim_sub s g /\ FaultFreeL s' /\
    (s_rest s <> [] -> lim_ge s 1 -> 1 <= g).
Proof.
  intros Hs Hn.
  destruct (src_fill_spec s Hs) as (v & s1 & Hfill & Hr & Hp & Hl & (Hf1 & Ha1) & Hv & Hlim & Hprog & _).
  exists (N.min n v), (src_consume s1 (N.min n v)).
  assert (Hg : nlen (nfirstn (N.min n v) (s_rest s)) = N.min n v).
  { rewrite nlen_nfirstn. rewrite Hr in Ha1. lia. }
  split.
  - intros k. unfold run_io, read_buf. destruct (N.eqb_spec n 0) as [E|_]; [lia|].
    rewrite interp_bind, interp_call. cbn [io_h i_src i_snk]. rewrite Hfill.
    rewrite interp_bind, interp_call. cbn [io_h i_src i_snk fst snd interp]. rewrite Hg. reflexivity.
  - unfold src_consume, lim_sub, FaultFreeL. cbn [s_rest s_pos s_limit s_avail s_fail].
    rewrite Hr, Hp, Hl, nlen_nskipn. rewrite Hr in Ha1.
    repeat split; try assumption; try lia.
    all: unfold lim_ge in *; destruct (s_limit s); try lia; trivial.
Qed.

Lemma read_exact_loop_unfold fuel n acc :
  read_exact_loop fuel n acc =
  if n =? 0 then Ret (lrev acc) else
  match fuel with
  | O => Panic (PFuel 1)
  | S fuel' =>
      got <- read_buf n ;;
      match got with
      | [] => Fail EIo
      | _ => read_exact_loop fuel' (n - nlen got) (rev_append got acc)
      end
  end.
Proof. destruct fuel; reflexivity. Qed.

Lemma io_read_exact_loop_spec fuel : forall s bs t n acc,
  FaultFreeL s -> s_rest s = bs ++ t -> nlen bs = n -> lim_ge s n -> (N.to_nat n <= fuel)%nat ->
  exists s', io_runs (read_exact_loop fuel n acc) s (Done (lrev acc ++ bs)) s' /\
    s_rest s' = t /\ s_pos s' = s_pos s + n /\ s_limit s' = lim_sub s n /\ FaultFreeL s'.
Proof.
  induction fuel as [|fuel IH]; intros s bs t n acc Hs Hr Hn Hlim Hfuel; rewrite read_exact_loop_unfold.
  - assert (n = 0) by lia. assert (bs = []) by (apply nlen_zero; lia). subst n bs.
    change (0 =? 0) with true. cbv iota. exists s. rewrite app_nil_r. cbn [app] in Hr.
    split; [apply io_runs_ret|]. split; [assumption|]. split; [lia|]. split; [|assumption].
    unfold lim_sub. destruct (s_limit s); [f_equal; lia|reflexivity].
  - destruct (N.eqb_spec n 0) as [E|E].
    + assert (bs = []) by (apply nlen_zero; lia). subst n bs.
      exists s. rewrite app_nil_r. cbn [app] in Hr.
      split; [apply io_runs_ret|]. split; [assumption|]. split; [lia|]. split; [|assumption].
      unfold lim_sub. destruct (s_limit s); [f_equal; lia|reflexivity].
    + destruct (io_read_buf_spec s n Hs ltac:(lia)) as (g & s1 & Hrun & Hgn & Hgl & Hlg & Hr1 & Hp1 & Hl1 & Hs1 & Hprog).
      assert (Hg1 : 1 <= g).
      { apply Hprog.
        - rewrite Hr. destruct bs; [rewrite nlen_nil in Hn; lia|discriminate].
        - apply (lim_ge_le s n); [assumption|lia]. }
      rewrite Hr in Hrun, Hr1. rewrite nfirstn_app_le in Hrun by lia. rewrite nskipn_app_le in Hr1 by lia.
      assert (Hgot : nlen (nfirstn g bs) = g) by (rewrite nlen_nfirstn; lia).
      destruct (IH s1 (nskipn g bs) t (n - g) (rev_append (nfirstn g bs) acc) Hs1 Hr1) as (s2 & Hrun2 & Hr2 & Hp2 & Hl2 & Hs2).
      { rewrite nlen_nskipn. lia. }
      { unfold lim_ge, lim_sub in *. rewrite Hl1. destruct (s_limit s); [lia|trivial]. }
      { lia. }
      exists s2. split.
      * eapply io_runs_bind; [exact Hrun|].
        rewrite lrev_rev_append, <- app_assoc, nfirstn_nskipn in Hrun2. cbv beta. rewrite Hgot.
        destruct (nfirstn g bs) as [|x l] eqn:Eg; [rewrite nlen_nil in Hgot; lia|]. exact Hrun2.
      * split; [assumption|]. split; [lia|]. split; [|assumption].
        unfold lim_ge, lim_sub in *. rewrite Hl2, Hl1. destruct (s_limit s); [f_equal; lia|reflexivity].
Qed.

(* ---------- read_exact ---------- *)
Lemma io_read_exact_specL s bs t n : FaultFreeL s -> s_rest s = bs ++ t -> nlen bs = n -> lim_ge s n ->
  exists s', io_runs (read_exact n) s (Done bs) s' /\
    s_rest s' = t /\ s_pos s' = s_pos s + n /\ s_limit s' = lim_sub s n /\ FaultFreeL s'.
Proof.
  intros Hs Hr Hn Hl. unfold read_exact.
  destruct (io_read_exact_loop_spec (N.to_nat n) s bs t n [] Hs Hr Hn Hl (le_n _)) as (s' & H & H').
  exists s'. split; [exact H|exact H'].
Qed.

Lemma io_read_exact_loop_eof fuel : forall s n acc,
  FaultFreeL s -> nlen (s_rest s) < n \/ lim_lt s n -> (N.to_nat n <= fuel)%nat ->
  exists s', io_runs (read_exact_loop fuel n acc) s (Failed EIo) s' /\ FaultFreeL s' /\
             s_pos s' + nlen (s_rest s') = s_pos s + nlen (s_rest s) /\
             (s_limit s = None -> s_limit s' = None /\ s_rest s' = []).
Proof.
  induction fuel as [|fuel IH]; intros s n acc Hs Hshort Hfuel; rewrite read_exact_loop_unfold.
  - exfalso. unfold lim_lt in Hshort. destruct (s_limit s); lia.
  - assert (Hn : 0 < n) by (unfold lim_lt in Hshort; destruct (s_limit s); lia).
    destruct (N.eqb_spec n 0) as [E|E]; [lia|].
    destruct (io_read_buf_spec s n Hs Hn) as (g & s1 & Hrun & Hgn & Hgl & Hlg & Hr1 & Hp1 & Hl1 & Hs1 & Hprog).
    assert (Hgot : nlen (nfirstn g (s_rest s)) = g) by (rewrite nlen_nfirstn; lia).
    assert (Hcons : s_pos s1 + nlen (s_rest s1) = s_pos s + nlen (s_rest s)).
    { rewrite Hr1, Hp1, nlen_nskipn. lia. }
    destruct (N.eqb_spec g 0) as [Eg|Eg].
    + exists s1. split; [|split; [assumption|split; [assumption|]]].
      * eapply io_runs_bind; [exact Hrun|]. cbv beta.
        destruct (nfirstn g (s_rest s)) as [|x l]; [|rewrite nlen_cons in Hgot; lia].
        intros k. reflexivity.
      * intros E0. split; [rewrite Hl1; apply lim_sub_None; exact E0|].
        rewrite Hr1. subst g. unfold nskipn. cbn [N.to_nat skipn].
        destruct (s_rest s) as [|x l] eqn:Er; [reflexivity|exfalso].
        assert (1 <= 0); [|lia]. apply Hprog; [discriminate|]. unfold lim_ge. rewrite E0. exact I.
    + destruct (IH s1 (n - g) (rev_append (nfirstn g (s_rest s)) acc) Hs1) as (s2 & Hrun2 & Hs2 & Hc2 & Hl2).
      { rewrite Hr1, nlen_nskipn. unfold lim_lt, lim_ge, lim_sub in *. rewrite Hl1.
        destruct (s_limit s); lia. }
      { lia. }
      exists s2. split; [|split; [assumption|split; [lia|]]].
      * eapply io_runs_bind; [exact Hrun|]. cbv beta. rewrite Hgot.
        destruct (nfirstn g (s_rest s)) as [|x l]; [rewrite nlen_nil in Hgot; lia|]. exact Hrun2.
      * intros E0. apply Hl2. rewrite Hl1. apply lim_sub_None. exact E0.
Qed.

Lemma io_read_exact_eofL s n : FaultFreeL s -> nlen (s_rest s) < n \/ lim_lt s n ->
  exists s', io_runs (read_exact n) s (Failed EIo) s' /\ FaultFreeL s' /\
             s_pos s' + nlen (s_rest s') = s_pos s + nlen (s_rest s) /\
             (s_limit s = None -> s_limit s' = None /\ s_rest s' = []).
Proof. intros Hs Hn. unfold read_exact. apply io_read_exact_loop_eof; [assumption|assumption|lia]. Qed.

(* ---------- read_u8 ---------- *)
Lemma io_read_u8_specL s b t : FaultFreeL s -> s_rest s = b :: t -> lim_ge s 1 ->
  exists s', io_runs read_u8 s (Done b) s' /\
    s_rest s' = t /\ s_pos s' = s_pos s + 1 /\ s_limit s' = lim_sub s 1 /\ FaultFreeL s'.
Proof.
  intros Hs Hr Hl.
  destruct (io_read_exact_specL s [b] t 1 Hs Hr eq_refl Hl) as (s' & Hrun & H').
  exists s'. split; [|exact H']. unfold read_u8. eapply io_runs_bind; [exact Hrun|]. apply io_runs_ret.
Qed.

Lemma io_read_u8_eofL s : FaultFreeL s -> s_rest s = [] \/ s_limit s = Some 0 ->
  exists s', io_runs read_u8 s (Failed EIo) s' /\ FaultFreeL s' /\
             s_pos s' + nlen (s_rest s') = s_pos s + nlen (s_rest s).
Proof.
  intros Hs He.
  destruct (io_read_exact_eofL s 1 Hs) as (s' & Hrun & H1 & H2 & _).
  { unfold lim_lt. destruct He as [E|E]; rewrite E; [left; rewrite nlen_nil|right]; lia. }
  exists s'. split; [|split; assumption]. unfold read_u8. apply io_runs_bind_fail. exact Hrun.
Qed.

(* ---------- is_eof ---------- *)
Lemma io_is_eof_specL s : FaultFreeL s ->
  exists s', io_runs is_eof s
               (Done (match s_rest s with
                      | [] => true
                      | _ => match s_limit s with Some 0 => true | _ => false end
                      end)) s' /\
    s_rest s' = s_rest s /\ s_pos s' = s_pos s /\ s_limit s' = s_limit s /\ FaultFreeL s'.
Proof.
  intros Hs.
  destruct (src_fill_spec s Hs) as (v & s1 & Hfill & Hr & Hp & Hl & Hs1 & Hv & Hlim & Hprog & Hempty).
  exists s1. split; [|repeat split; try assumption; apply Hs1].
  intros k. unfold run_io, is_eof. rewrite interp_bind, interp_call. cbn [io_h i_src i_snk]. rewrite Hfill.
  cbn [interp snd]. do 2 f_equal.
  destruct (s_rest s) as [|b t] eqn:Er.
  - rewrite Hempty by reflexivity. reflexivity.
  - unfold lim_ge in *. destruct (s_limit s) as [[|l]|].
    + assert (v = 0) by lia. subst v. reflexivity.
    + assert (1 <= v) by (apply Hprog; [discriminate|lia]). destruct (N.eqb_spec v 0); [lia|reflexivity].
    + assert (1 <= v) by (apply Hprog; [discriminate|trivial]). destruct (N.eqb_spec v 0); [lia|reflexivity].
Qed.

(* ---------- the FaultFree (no Take limit) instances ---------- *)
Lemma io_read_exact_spec s bs t n : FaultFree s -> s_rest s = bs ++ t -> nlen bs = n ->
  exists s', io_runs (read_exact n) s (Done bs) s' /\ s_rest s' = t /\ s_pos s' = s_pos s + n /\ FaultFree s'.
Proof.
  intros Hs Hr Hn.
  destruct (io_read_exact_specL s bs t n (FaultFree_L s Hs) Hr Hn (FaultFree_lim_ge s n Hs)) as (s' & H1 & H2 & H3 & H4 & H5).
  exists s'. repeat split; try assumption; try apply H5.
  rewrite H4. apply lim_sub_None. apply Hs.
Qed.

Lemma io_read_exact_eof s n : FaultFree s -> nlen (s_rest s) < n ->
  exists s', io_runs (read_exact n) s (Failed EIo) s' /\ FaultFree s' /\
             s_rest s' = [] /\ s_pos s' = s_pos s + nlen (s_rest s).
Proof.
  intros Hs Hn.
  destruct (io_read_exact_eofL s n (FaultFree_L s Hs) (or_introl Hn)) as (s' & H1 & H2 & H3 & H4).
  destruct H4 as [H4 H5]; [apply Hs|].
  exists s'. split; [assumption|]. split; [apply FaultFreeL_None; assumption|]. split; [assumption|].
  rewrite H5, nlen_nil in H3. lia.
Qed.

Lemma io_read_u8_spec s b t : FaultFree s -> s_rest s = b :: t ->
  exists s', io_runs read_u8 s (Done b) s' /\ s_rest s' = t /\ s_pos s' = s_pos s + 1 /\ FaultFree s'.
Proof.
  intros Hs Hr.
  destruct (io_read_u8_specL s b t (FaultFree_L s Hs) Hr (FaultFree_lim_ge s 1 Hs)) as (s' & H1 & H2 & H3 & H4 & H5).
  exists s'. repeat split; try assumption; try apply H5.
  rewrite H4. apply lim_sub_None. apply Hs.
Qed.

Lemma io_read_u8_eof s : FaultFree s -> s_rest s = [] ->
  exists s', io_runs read_u8 s (Failed EIo) s' /\ s_rest s' = [] /\ s_pos s' = s_pos s /\ FaultFree s'.
Proof.
  intros Hs Hr.
  (* with an empty source the very first fill_buf shows nothing: the state is unchanged *)
  exists s. split; [|repeat split; try assumption; apply Hs].
  intros k. unfold run_io, read_u8, read_exact. change (N.to_nat 1) with 1%nat.
  rewrite interp_bind. cbn [read_exact_loop]. change (1 =? 0) with false. cbv iota.
  rewrite interp_bind. unfold read_buf. change (1 =? 0) with false. cbv iota.
  rewrite interp_bind, interp_call. cbn [io_h i_src i_snk].
  destruct Hs as (Hf & Hl & Ha). rewrite Hr, nlen_nil in Ha.
  unfold src_fill. rewrite Hl, Hr. destruct (N.ltb_spec 0 (s_avail s)); [lia|].
  rewrite interp_bind, interp_call. cbn [io_h i_src i_snk fst snd interp nfirstn firstn].
  unfold nfirstn. rewrite firstn_nil. cbn [interp].
  f_equal. f_equal. unfold src_consume. cbn [nlen length N.of_nat s_rest s_pos s_avail s_refills s_frag s_fail s_limit].
  rewrite Hl, Hr. unfold nskipn. cbn [N.to_nat skipn]. destruct s; cbn in *. f_equal; try lia; congruence.
Qed.

Lemma io_is_eof_spec s : FaultFree s ->
  exists s', io_runs is_eof s (Done (match s_rest s with [] => true | _ => false end)) s' /\
    s_rest s' = s_rest s /\ s_pos s' = s_pos s /\ FaultFree s'.
Proof.
  intros Hs.
  destruct (io_is_eof_specL s (FaultFree_L s Hs)) as (s' & H1 & H2 & H3 & H4 & H5).
  exists s'. assert (El : s_limit s = None) by apply Hs. rewrite El in H1.
  split; [|repeat split; try assumption; try apply H5; congruence].
  destruct (s_rest s); exact H1.
Qed.

(* ---------- the same, as statements about [src_run] ---------- *)
Theorem src_read_u8_spec s b t : FaultFree s -> s_rest s = b :: t ->
  exists s', src_run read_u8 s = (Done b, s') /\ s_rest s' = t /\ s_pos s' = s_pos s + 1 /\ FaultFree s'.
Proof.
  intros Hs Hr. destruct (io_read_u8_spec s b t Hs Hr) as (s' & H & H').
  exists s'. split; [apply io_runs_src_run; exact H|exact H'].
Qed.

Theorem src_read_u8_eof s : FaultFree s -> s_rest s = [] ->
  exists s', src_run read_u8 s = (Failed EIo, s') /\ s_rest s' = [] /\ s_pos s' = s_pos s /\ FaultFree s'.
Proof.
  intros Hs Hr. destruct (io_read_u8_eof s Hs Hr) as (s' & H & H').
  exists s'. split; [apply io_runs_src_run; exact H|exact H'].
Qed.

Theorem src_read_exact_spec s bs t n : FaultFree s -> s_rest s = bs ++ t -> nlen bs = n ->
  exists s', src_run (read_exact n) s = (Done bs, s') /\ s_rest s' = t /\ s_pos s' = s_pos s + n /\ FaultFree s'.
Proof.
  intros Hs Hr Hn. destruct (io_read_exact_spec s bs t n Hs Hr Hn) as (s' & H & H').
  exists s'. split; [apply io_runs_src_run; exact H|exact H'].
Qed.

Theorem src_read_exact_eof s n : FaultFree s -> nlen (s_rest s) < n ->
  exists s', src_run (read_exact n) s = (Failed EIo, s') /\ FaultFree s' /\
             s_rest s' = [] /\ s_pos s' = s_pos s + nlen (s_rest s).
Proof.
  intros Hs Hn. destruct (io_read_exact_eof s n Hs Hn) as (s' & H & H').
  exists s'. split; [apply io_runs_src_run; exact H|exact H'].
Qed.

Theorem src_is_eof_spec s : FaultFree s ->
  exists s', src_run is_eof s = (Done (match s_rest s with [] => true | _ => false end), s') /\
    s_rest s' = s_rest s /\ s_pos s' = s_pos s /\ FaultFree s'.
Proof.
  intros Hs. destruct (io_is_eof_spec s Hs) as (s' & H & H').
  exists s'. split; [apply io_runs_src_run; exact H|exact H'].
Qed.

(* std::io::Take: the same reads from a source with a limit that covers them *)
Theorem src_read_u8_specL s b t : FaultFreeL s -> s_rest s = b :: t -> lim_ge s 1 ->
  exists s', src_run read_u8 s = (Done b, s') /\
    s_rest s' = t /\ s_pos s' = s_pos s + 1 /\ s_limit s' = lim_sub s 1 /\ FaultFreeL s'.
Proof.
  intros Hs Hr Hl. destruct (io_read_u8_specL s b t Hs Hr Hl) as (s' & H & H').
  exists s'. split; [apply io_runs_src_run; exact H|exact H'].
Qed.

Theorem src_read_u8_eofL s : FaultFreeL s -> s_rest s = [] \/ s_limit s = Some 0 ->
  exists s', src_run read_u8 s = (Failed EIo, s') /\ FaultFreeL s' /\
             s_pos s' + nlen (s_rest s') = s_pos s + nlen (s_rest s).
Proof.
  intros Hs Hr. destruct (io_read_u8_eofL s Hs Hr) as (s' & H & H').
  exists s'. split; [apply io_runs_src_run; exact H|exact H'].
Qed.

Theorem src_read_exact_specL s bs t n : FaultFreeL s -> s_rest s = bs ++ t -> nlen bs = n -> lim_ge s n ->
  exists s', src_run (read_exact n) s = (Done bs, s') /\
    s_rest s' = t /\ s_pos s' = s_pos s + n /\ s_limit s' = lim_sub s n /\ FaultFreeL s'.
Proof.
  intros Hs Hr Hn Hl. destruct (io_read_exact_specL s bs t n Hs Hr Hn Hl) as (s' & H & H').
  exists s'. split; [apply io_runs_src_run; exact H|exact H'].
Qed.

Theorem src_read_exact_eofL s n : FaultFreeL s -> nlen (s_rest s) < n \/ lim_lt s n ->
  exists s', src_run (read_exact n) s = (Failed EIo, s') /\ FaultFreeL s' /\
             s_pos s' + nlen (s_rest s') = s_pos s + nlen (s_rest s).
Proof.
  intros Hs Hn. destruct (io_read_exact_eofL s n Hs Hn) as (s' & H & H1 & H2 & _).
  exists s'. split; [apply io_runs_src_run; exact H|split; assumption].
Qed.

Theorem src_is_eof_specL s : FaultFreeL s ->
  exists s', src_run is_eof s =
               (Done (match s_rest s with
                      | [] => true
                      | _ => match s_limit s with Some 0 => true | _ => false end
                      end), s') /\
    s_rest s' = s_rest s /\ s_pos s' = s_pos s /\ s_limit s' = s_limit s /\ FaultFreeL s'.
Proof.
  intros Hs. destruct (io_is_eof_specL s Hs) as (s' & H & H').
  exists s'. split; [apply io_runs_src_run; exact H|exact H'].
Qed.

Print Assumptions src_read_u8_spec.
Print Assumptions src_read_u8_eof.
Print Assumptions src_read_exact_spec.
Print Assumptions src_read_exact_eof.
Print Assumptions src_is_eof_spec.
Print Assumptions src_read_u8_specL.
Print Assumptions src_read_u8_eofL.
Print Assumptions src_read_exact_specL.
Print Assumptions src_read_exact_eofL.
Print Assumptions src_is_eof_specL.
