(* C02: LZMA2 decoding is exact for every well-formed chunk sequence.
   lzma2_chunks_exact  : the decoder follows any well-formed chunk sequence, chunk by chunk
   lzma2_decode_exact  : lzma2_decompress_top on the reference serialisation of the sequence *)
From LZ Require Import Base.Prelude Base.Prog Model.Io Model.Tables Model.LzBuffer Model.RangeDec Model.Lzma Model.Lzma2
  Format.RefEnc Format.Lzma2Fmt
  Proofs.ProgLemmas Proofs.MapLemmas Proofs.IoLemmas Proofs.RangeLockstep Proofs.WinCirc Proofs.WinAccum Proofs.NoPanic Proofs.NoPanicWorld
  Proofs.SymOracle Proofs.SymCoders Proofs.SymLiteral Proofs.SymDecode Proofs.SymChain
  Proofs.Lzma2Inv Proofs.Lzma2Framing Proofs.ResetFresh2
  Proofs.LzmaExactSync Proofs.LzmaExactShape Proofs.LzmaExactRefine Proofs.LzmaExactLoop Proofs.LzmaExact
  Proofs.Lzma2ExactIo Proofs.Lzma2ExactRefine Proofs.Lzma2ExactLoop Proofs.Lzma2ExactChunk Proofs.Lzma2ExactPayload
  Proofs.Lzma2ExactLzmaChunk Proofs.Lzma2ExactWf.
From Coq Require Import ZifyBool ZifyNat ZifyN.
Local Open Scope prog_scope.

(* ---------- fuel ---------- *)
Definition chunk_syms (c : chunk) : nat := match c with CLzma _ _ prog _ => length prog | CRaw _ _ => 0%nat end.
(* more than the number of chunks, and more than the number of symbols of every chunk *)
Definition fuel_ok (fuel : positive) (cs : list chunk) : Prop :=
  (length cs + 1 <= Pos.to_nat fuel)%nat /\ Forall (fun c => (chunk_syms c + 1 <= Pos.to_nat fuel)%nat) cs.

(* ---------- one chunk of either kind ---------- *)
Theorem chunk_exact pre0 fl need s c b1 s1 w pos t fuel :
  SInv need s -> ser_chunk_gen false s c = Some (b1, s1) -> chunk_okb need s c s1 = true ->
  (chunk_syms c + 1 <= Pos.to_nat fuel)%nat ->
  Inter pre0 fl s w pos (b1 ++ t) ->
  exists w', l2_body fuel w = Next w' /\ Inter pre0 fl s1 w' (pos + nlen b1) t /\ SInv (next_need need c) s1.
Proof.
  intros HS Hser Hok Hfuel HI. destruct c as [rd data|cls np prog delta]; cbn [next_need chunk_syms] in *.
  - exact (raw_chunk_exact pre0 fl need s rd data b1 s1 w pos t fuel HS Hser HI).
  - exact (lzma_chunk_exact pre0 fl need s cls np prog delta b1 s1 w pos t fuel HS Hser Hok Hfuel HI).
Qed.

(* ---------- the chunk sequence ---------- *)
Theorem lzma2_chunks_exact pre0 fl fuel : forall cs need s w pos t bytes s_end,
  SInv need s -> ser_chunks_gen false s cs = Some (bytes, s_end) -> wf_fromb need s cs = true ->
  Forall (fun c => (chunk_syms c + 1 <= Pos.to_nat fuel)%nat) cs ->
  Inter pre0 fl s w pos (bytes ++ t) ->
  exists w' need', iter_step (length cs) (l2_body fuel) w = Next w' /\
                   Inter pre0 fl s_end w' (pos + nlen bytes) t /\ SInv need' s_end.
Proof.
  induction cs as [|c rest IH]; intros need s w pos t bytes s_end HS Hser Hwf Hfuel HI.
  - cbn [ser_chunks_gen] in Hser. inversion Hser; subst bytes s_end. cbn [app] in HI.
    exists w, need. cbn [length iter_step]. split; [reflexivity|]. split; [|exact HS].
    change (nlen (@nil N)) with 0. rewrite N.add_0_r. exact HI.
  - cbn [ser_chunks_gen wf_fromb] in Hser, Hwf.
    destruct (ser_chunk_gen false s c) as [[b1 s1]|] eqn:Ec; [|discriminate].
    destruct (ser_chunks_gen false s1 rest) as [[b2 s2]|] eqn:Er; [|discriminate].
    assert (Eb : bytes = b1 ++ b2) by congruence. assert (Es : s_end = s2) by congruence. clear Hser. subst bytes s_end.
    apply andb_true_iff in Hwf. destruct Hwf as [Hok Hwf].
    inversion Hfuel as [|? ? Hf1 Hf2]; subst.
    rewrite <- app_assoc in HI.
    destruct (chunk_exact pre0 fl need s c b1 s1 w pos (b2 ++ t) fuel HS Ec Hok Hf1 HI) as (w1 & Hb & HI1 & HS1).
    destruct (IH _ _ _ _ _ _ _ HS1 Er Hwf Hf2 HI1) as (w' & need' & Hit & HI' & HS').
    exists w', need'. cbn [length iter_step]. rewrite Hb. split; [exact Hit|]. split; [|exact HS'].
    rewrite nlen_app, N.add_assoc. exact HI'.
Qed.
Print Assumptions lzma2_chunks_exact.

(* ---------- the initial state ---------- *)
Lemma Inter_init s0 k : FaultFree s0 -> k_wfail k = None -> k_ffail k = false ->
  Inter (snk_bytes k) (k_flushes k) l2state0 (mkW2 fresh_ds s0 (accum_new k (USIZE - 1))) (s_pos s0) (s_rest s0).
Proof.
  intros Hs Hw Hf. constructor; cbn [w_ds w_src w_acc l2state0 l2_props l2_es l2_flushed estate0 es_tabs es_st es_hist hist0 h_bytes];
    try reflexivity; try assumption.
  - unfold props_match, fresh_ds, props0. cbn [ds_props lc lp pb f_lc f_lp f_pb]. repeat split; lia.
  - cbn [List.rev]. rewrite app_nil_r. apply accum_new_inv. exact Hw.
Qed.

(* ---------- the main theorem ---------- *)
Theorem lzma2_decode_exact cs bytes out trail frag k fuel :
  ser2_gen false cs = Some (bytes, out) -> wf_seq cs ->
  k_wfail k = None -> k_ffail k = false -> fuel_ok fuel cs ->
  exists w', lzma2_decompress_top fuel (mkIo (src_of (bytes ++ trail) frag None) k) = (Done tt, w') /\
    snk_bytes (i_snk w') = snk_bytes k ++ out /\ k_flushes (i_snk w') = k_flushes k + 1 /\
    s_pos (i_src w') = nlen bytes /\ s_rest (i_src w') = trail.
Proof.
  intros Hser Hwf Hkw Hkf [Hfuel1 Hfuel2]. unfold ser2_gen in Hser.
  destruct (ser_chunks_gen false l2state0 cs) as [[cb s_end]|] eqn:Ecs; [|discriminate].
  assert (Eb : bytes = cb ++ [0]) by congruence.
  assert (Eo : out = lrev (h_bytes (es_hist (l2_es s_end)) ++ l2_flushed s_end)) by congruence.
  clear Hser. subst bytes out.
  set (s0 := src_of ((cb ++ [0]) ++ trail) frag None).
  assert (Fs0 : FaultFree s0) by apply src_of_FaultFree.
  pose proof (Inter_init s0 k Fs0 Hkw Hkf) as HI0.
  change (s_pos s0) with 0 in HI0. change (s_rest s0) with ((cb ++ [0]) ++ trail) in HI0.
  rewrite <- app_assoc in HI0.
  destruct (lzma2_chunks_exact (snk_bytes k) (k_flushes k) fuel cs false l2state0 _ 0 ([0] ++ trail) cb s_end
              SInv_l2state0 Ecs Hwf Hfuel2 HI0) as (w1 & need1 & Hit & HI1 & HS1).
  destruct HI1 as [I1 I2 I3 I4 I5 I6 I7 I8 I9 I10 I11 I12]. cbn [app] in I11.
  (* the end byte *)
  destruct (l2_body_read fuel w1 0 trail I10 I11) as (se & Fe & Re & Pe & Hbody).
  assert (Hloop : loopN fuel (l2_body fuel) (mkW2 fresh_ds s0 (accum_new k (USIZE - 1)))
                  = Break (Done tt, mkW2 (w_ds w1) se (w_acc w1))).
  { rewrite loopN_iter. apply (iter_step_break_mono _ (length cs + 1)); [|exact Hfuel1].
    rewrite iter_step_add, Hit. cbn [iter_step]. rewrite Hbody. reflexivity. }
  destruct (accum_finish_spec _ _ _ I6 I8) as (k' & Hfin & Hkb & Hkfl).
  unfold lzma2_decompress_top. rewrite lzma2_new_eq. unfold lzma2_decompress. cbn [l2_state i_src i_snk].
  fold s0. rewrite Hloop. cbn [w_acc w_ds w_src]. rewrite Hfin.
  eexists. split; [reflexivity|]. cbn [i_src i_snk].
  split; [rewrite Hkb, lrev_rev, rev_app_distr, app_assoc; reflexivity|].
  split; [rewrite Hkfl, I9; reflexivity|].
  split; [rewrite Pe, I12, nlen_app; change (nlen [0]) with 1; lia|exact Re].
Qed.
Print Assumptions lzma2_decode_exact.
