(* C07, memory clause: examples (by running the model and through the theorems). *)
From LZ Require Import Base.Prelude Base.Prog Model.Io Model.Tables Model.LzBuffer Model.RangeDec Model.Lzma Model.Lzma2
  Model.Crc Model.Xz Model.Stream.
From LZ Require Import Proofs.ProgLemmas Proofs.StreamLatch Proofs.SizeRules Proofs.MemLimitRun
  Proofs.FootprintCore Proofs.FootprintLzma Proofs.FootprintStream Proofs.FootprintLzma2 Proofs.FootprintXz.
From LZ Require Proofs.MemLimitExamples Proofs.Lzma2ExactExamples Proofs.XzExactExamples.

Example consts : (TABS_MAX, FOOT_CONST) = (3147575, 6295170).
Proof. vm_compute. reflexivity. Qed.

(* ------------------------------------------------------------------ *)
(* LZMA: a header announcing dict_size = 2^32 - 1 and unpacked size 2^63 *)
(* ------------------------------------------------------------------ *)
(* properties 0x5D, dictionary 0xFFFFFFFF, size 0x8000000000000000, then the payload of
   MemLimitExamples.mx_bytes (five literals and an end marker) *)
Definition huge_hdr : list N := [93; 255; 255; 255; 255; 0; 0; 0; 0; 0; 0; 0; 128].
Definition huge_bytes : list N := huge_hdr ++ nskipn 13 MemLimitExamples.mx_bytes.
Definition huge_opts : options := mkOptions ReadFromHeader None false.
Definition huge_io : io := mkIo (cursor_of huge_bytes) vec_sink.

Definition lw_view (x : lw) :=
  (win_alloc (l_win x), win_len (l_win x), nlen (ds_pib (l_ds x)), tabs_size (ds_tabs (l_ds x)),
   match l_win x with WCirc c => (c_dict c, c_mem c) | WAccum _ => (0, 0) end, ds_unpacked (l_ds x)).

(* the loop starts with an EMPTY window: allocation 0, although dict = 4 GiB - 1 and size = 2^63 *)
Example huge_start :
  option_map lw_view (lzma_start huge_opts huge_io) =
  Some (0, 0, 0, 8 * 768 + 1847, (4294967295, USIZE - 1), Some 9223372036854775808).
Proof. vm_compute. reflexivity. Qed.

(* after 1, 3 and 5 iterations: the window holds exactly the bytes produced *)
Example huge_iter :
  match lzma_start huge_opts huge_io with
  | Some w0 => map (fun n => let x := res_state (iter_step n (pm_body FinishMode) w0) in (win_alloc (l_win x), win_len (l_win x)))
                   [0; 1; 3; 5; 6]%nat
  | None => []
  end = [(0, 0); (1, 1); (3, 3); (5, 5); (5, 5)].
Proof. vm_compute. reflexivity. Qed.

(* the run ends with Err (the end marker arrives long before 2^63 bytes) having allocated 5 bytes of window *)
Example huge_final :
  (fst (lzma_decompress 100 huge_opts huge_io), lzma_peak 100 huge_opts huge_io, lzma_dict huge_opts huge_io) =
  (Failed ELzma, 5, 4294967295).
Proof. vm_compute. reflexivity. Qed.

(* the same facts through the theorems, without running anything *)
Example huge_by_theorem n w0 : lzma_start huge_opts huge_io = Some w0 ->
  let x := res_state (iter_step n (pm_body FinishMode) w0) in
  win_alloc (l_win x) <= win_len (l_win x) /\ lw_footprint x <= FOOT_CONST + win_len (l_win x).
Proof.
  intros H x. destruct (lzma_footprint_bounded huge_opts huge_io w0 n H) as (_ & _ & H3 & H4). fold x in H3, H4.
  split; [lia|exact H4].
Qed.

Example fresh_decoder_example k :
  match lzma_decoder_new (mkParams (mkProps 3 0 2) 4294967295 (Some 9223372036854775808)) None with
  | Done dec => win_alloc (WCirc (circ_new k (pr_dict (ld_params dec)) (ld_memlimit dec))) = 0 /\ ds_pib (ld_state dec) = []
  | _ => False
  end.
Proof.
  destruct (lzma_decoder_new _ None) as [dec|e|q] eqn:E; [|vm_compute in E; discriminate E|vm_compute in E; discriminate E].
  destruct (fresh_decoder_allocates_nothing _ _ _ k E) as (H1 & H2 & _). split; assumption.
Qed.

(* the hypothesis 0 < dict_size of the loop theorems (guaranteed by LzmaDecoder::new and by the header
   parser) is needed: a circular buffer with dict_size = 0 never wraps *)
Example dict_zero_grows :
  let c := snd (circ_append_literal (snd (circ_append_literal (circ_new vec_sink 0 100) 1)) 2) in
  (c_blen c, c_dict c, c_cursor c) = (2, 0, 2).
Proof. vm_compute. reflexivity. Qed.

(* ------------------------------------------------------------------ *)
(* Stream: the same file, fed in pieces                                 *)
(* ------------------------------------------------------------------ *)
Definition stream_view (s : stream) :=
  (nlen (st_tmp s), stream_footprint s, stream_produced s,
   match st_state s with Some (SData r) => Some (c_blen (rs_out r), c_dict (rs_out r)) | _ => None end).

(* 5 bytes: header incomplete, 5 bytes staged.  +13: header parsed, EMPTY window, dict = 2^32 - 1.
   then the data: 5 bytes produced, 5 bytes of window. *)
Example huge_stream :
  map (fun cs => stream_view (snd (run_calls (stream_new huge_opts vec_sink) cs)))
      [ [CWrite (nfirstn 5 huge_bytes)];
        [CWrite (nfirstn 5 huge_bytes); CWrite (nskipn 5 (nfirstn 20 huge_bytes))];
        [CWrite (nfirstn 5 huge_bytes); CWrite (nskipn 5 (nfirstn 20 huge_bytes)); CWrite (nskipn 18 huge_bytes)] ] =
  [ (5, 5, 0, None);
    (0, 2 * (8 * 768 + 1847), 0, Some (0, 4294967295));
    (0, 2 * (8 * 768 + 1847) + 5, 5, Some (5, 4294967295)) ].
Proof. vm_compute. reflexivity. Qed.

Example huge_stream_by_theorem cs : stream_foot_ok (snd (run_calls (stream_new huge_opts vec_sink) cs)).
Proof. apply stream_footprint_bounded. Qed.

(* ------------------------------------------------------------------ *)
(* LZMA2                                                                *)
(* ------------------------------------------------------------------ *)
Definition w2_view (w : w2) := (a_blen (w_acc w), a_len (w_acc w), nlen (k_out (a_snk (w_acc w))), nlen (ds_pib (w_ds w))).

(* the seven chunks of Lzma2ExactExamples.ex_bytes; the sixth resets the dictionary: the buffer (27
   bytes) is flushed and freed *)
Example l2_iter :
  match lzma2_new with
  | Done dec =>
      map (fun n => w2_view (l2_res_state (iter_step n (l2_body 8)
                       (lzma2_start dec (mkIo (cursor_of Lzma2ExactExamples.ex_bytes) vec_sink)))))
          [0; 1; 2; 3; 4; 5; 6; 7; 8]%nat
  | _ => []
  end =
  [(0, 0, 0, 0); (7, 7, 0, 0); (10, 10, 0, 0); (16, 16, 0, 0); (20, 20, 0, 0); (27, 27, 0, 0);
   (3, 3, 27, 0); (7, 7, 27, 0); (7, 7, 27, 0)].
Proof. vm_compute. reflexivity. Qed.

(* a chunk header declaring the maximal sizes (unpacked 2 MiB, packed 64 KiB, dictionary + properties
   reset) followed by nothing: the decoder fails having allocated nothing *)
Example l2_declared_sizes :
  match lzma2_new with
  | Done dec =>
      let x := iter_step 1 (l2_body 8) (lzma2_start dec (mkIo (cursor_of [255; 255; 255; 255; 255; 93]) vec_sink)) in
      (match x with Break (r, _) => Some r | Next _ => None end, w2_view (l2_res_state x),
       ds_unpacked (w_ds (l2_res_state x)))
  | _ => (None, (0, 0, 0, 0), None)
  end = (Some (Failed ELzma), (0, 0, 0, 0), Some 2097152).
Proof. vm_compute. reflexivity. Qed.

(* FINDING (faithful to the crate): only append_literal checks the memory limit of LzAccumBuffer;
   append_lz and append_bytes do not.  With a limit of 2 bytes: *)
Example accum_memlimit_not_enforced_by_lz :
  let a0 := accum_new vec_sink 2 in
  let a1 := snd (accum_append_literal a0 7) in
  let r := accum_append_lz a1 10 1 in
  (fst r, a_blen (snd r), a_mem (snd r)) = (Done tt, 11, 2).
Proof. vm_compute. reflexivity. Qed.
Example accum_memlimit_not_enforced_by_bytes :
  let a := accum_append_bytes (accum_new vec_sink 2) [1; 2; 3; 4; 5] in (a_blen a, a_mem a) = (5, 2).
Proof. vm_compute. reflexivity. Qed.
(* (Lzma2Decoder always passes usize::MAX - the model's USIZE - 1 - so no limit is ever set for LZMA2.) *)

(* ------------------------------------------------------------------ *)
(* XZ                                                                   *)
(* ------------------------------------------------------------------ *)
(* the two-block file of XzExactExamples: one record per block, positions 12 -> 60 -> 104 *)
Example xz_iter :
  match xz_state_at crc32_exec crc64_exec 8 (mkIo (cursor_of XzExactExamples.ex_xz) vec_sink) 2 with
  | Some (Next st) => Some (nlen (fst st), s_pos (i_src (snd st)), xz_footprint st)
  | _ => None
  end = Some (2, 104, 32).
Proof. vm_compute. reflexivity. Qed.

Example xz_by_theorem n st :
  xz_state_at crc32_exec crc64_exec 8 (mkIo (cursor_of XzExactExamples.ex_xz) vec_sink) n = Some (Next st) ->
  nlen (fst st) = N.of_nat n /\ xz_footprint st <= 16 * s_pos (i_src (snd st)).
Proof.
  intros H. destruct (xz_decompress_footprint_bounded crc32_exec crc64_exec 8 _ n st H) as [H1 H2].
  split; [exact H1|]. cbn [i_src cursor_of src_of s_pos] in H2. lia.
Qed.

(* a block header declaring packed size 2^62 and unpacked size 2^62 (both present), one LZMA2 filter,
   followed by an empty LZMA2 stream: the block is rejected when the sizes are compared; nothing was
   allocated from them (tmpbuf = []) *)
Definition big_bh : block_header := mkBH [mkFilter [22]] (Some 4611686018427387904) (Some 4611686018427387904).
Example xz_declared_sizes :
  let w := mkIo (cursor_of [0]) vec_sink in
  (fst (block_decode 8 big_bh w),
   fst (block_decode 8 (mkBH [mkFilter [22]] (Some 1) (Some 4611686018427387904)) w),
   fst (block_decode 8 (mkBH [mkFilter [22]] None None) w)) =
  (Failed EXz, Done [], Done []).
Proof. vm_compute. reflexivity. Qed.
