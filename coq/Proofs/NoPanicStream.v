(* Property C07, Part 6: the incremental decoder behind io::Write (decode/stream.rs) never panics,
   for ANY sequence of write / flush calls followed by finish, with arbitrary byte data in every
   call, any options, any sink behaviour. *)
From LZ Require Import Base.Prelude Base.Prog Model.Io Model.Tables Model.LzBuffer Model.RangeDec Model.Lzma Model.Lzma2 Model.Stream.
From LZ Require Import Proofs.ProgLemmas Proofs.MapLemmas Proofs.NoPanic Proofs.NoPanicWorld
                       Proofs.IoInv Proofs.SrcMono Proofs.ResetFresh Proofs.Lzma2Inv Proofs.StreamLatch Proofs.NoPanicLoops.
From Coq Require Import ZifyBool ZifyNat ZifyN.
Local Open Scope prog_scope.

Ltac Zify.zify_post_hook ::= Z.div_mod_to_equations.

(* the only panic allowed: the model's fuel artefact of process_mode *)
Definition fuel_only {A} (o : outcome A) : Prop :=
  match o with Panicked p => p = PFuel 10 | _ => True end.

Record RunInv (r : run_state) : Prop := mkRunInv {
  ri_ds : DsOk (rs_dec r);
  ri_pib : PibOk (rs_dec r);
  ri_rc : RcInv (rs_rc r);
  ri_out : CircOk (rs_out r)
}.

Definition sstate_ok (st : sstate) : Prop :=
  match st with SHeader _ => True | SData r => RunInv r end.

Definition StInv (s : stream) : Prop :=
  Bytes (st_tmp s) /\ match st_state s with Some st => sstate_ok st | None => True end.

Theorem stream_new_ok o k : StInv (stream_new o k).
Proof. split; [constructor|exact I]. Qed.

(* ---------- Stream::read_header ---------- *)
Theorem stream_read_header_ok k input o : SrcBytes input ->
  match stream_read_header k input o with
  | (Done st, s') => sstate_ok st /\ SrcBytes s'
  | (Failed _, _) => True
  | (Panicked _, _) => False
  end.
Proof.
  intros Hs. unfold stream_read_header.
  pose proof (io_safe_src_run _ _ input
                (io_safe_map_io_err params_ok EHeaderTooShort (read_header o) (read_header_safe o)) Hs) as Hh.
  destruct (src_run (map_io_err EHeaderTooShort (read_header o)) input) as [[p|e|q] s]; [| |contradiction].
  - destruct Hh as [[Hv Hdict] Hs'].
    destruct (dstate_new_ok (pr_props p) (pr_unpacked p) Hv) as (d & E & D1 & D2 & _). rewrite E.
    pose proof (rc_new_safe s Hs') as Hr.
    destruct (src_run rc_new s) as [[r|e|q] s']; [| |contradiction].
    + destruct Hr as [Hr Hs'']. split; [|exact Hs'']. cbn [sstate_ok].
      constructor; cbn [rs_dec rs_rc rs_out]; try assumption.
      split; [cbn [circ_new c_dict]; lia|apply BufBytes_empty].
    + split; [exact I|exact Hr].
  - destruct e; try exact I. split; [exact I|exact Hh].
Qed.
Print Assumptions stream_read_header_ok.

(* ---------- Stream::read_data ---------- *)
Theorem stream_read_data_ok r input : RunInv r -> SrcBytes input ->
  match stream_read_data r input with
  | (res, (r', s')) => fuel_only res /\ RunInv r' /\ SrcBytes s'
  end.
Proof.
  intros [H1 H2 H3 H4] Hs. unfold stream_read_data.
  set (w0 := mkLw (rs_dec r) (rs_rc r) input (WCirc (rs_out r))).
  assert (Hw0 : PmInv w0) by (apply PmInv_join; assumption).
  pose proof (process_mode_no_panic Partial big_fuel w0 Hw0) as Hp.
  destruct (process_mode Partial big_fuel w0) as [res x].
  assert (Hx : PmInv x) by (destruct res; tauto).
  split; [destruct res; cbn [fuel_only]; tauto|].
  apply PmInv_split in Hx. destruct Hx as (X1 & X2 & X3 & X4 & X5).
  split; [|exact X4]. constructor; cbn [rs_dec rs_rc rs_out]; try assumption.
  destruct (l_win x) as [c|a]; [exact X5|exact H4].
Qed.
Print Assumptions stream_read_data_ok.

Lemma dead_ok s tmp k : Bytes tmp -> StInv (dead s tmp k).
Proof. intros H. split; [exact H|exact I]. Qed.

(* ---------- <Stream as Write>::write ---------- *)
Theorem stream_write_no_panic s data : StInv s -> Bytes data ->
  match stream_write s data with (res, s') => fuel_only res /\ StInv s' end.
Proof.
  intros [Ht Hst] Hd. unfold stream_write. cbv zeta.
  destruct (st_state s) as [[k|r]|] eqn:Est.
  - (* header not complete yet *)
    set (trip := if 0 <? nlen (st_tmp s) then _ else _).
    assert (Htrip : let '(res, tmp1, pos1) := trip in
              Bytes tmp1 /\ match res with Done st => sstate_ok st | Failed _ => True | Panicked _ => False end).
    { unfold trip. destruct (0 <? nlen (st_tmp s)).
      - set (tmp := st_tmp s ++ nfirstn (N.min (nlen data) (MAX_TMP_LEN - nlen (st_tmp s))) data).
        assert (Htmp : Bytes tmp) by (apply Bytes_app; [exact Ht|apply Bytes_nfirstn; exact Hd]).
        pose proof (stream_read_header_ok k (cursor_of tmp) (st_opts s) Htmp) as H.
        destruct (stream_read_header k (cursor_of tmp) (st_opts s)) as [[[k'|r]|e|q] ts].
        + split; [exact Htmp|exact I].
        + split; [apply Bytes_nskipn; exact Htmp|tauto].
        + split; [exact Htmp|exact I].
        + contradiction.
      - pose proof (stream_read_header_ok k (cursor_of data) (st_opts s) Hd) as H.
        destruct (stream_read_header k (cursor_of data) (st_opts s)) as [[st|e|q] is_]; [|tauto|contradiction].
        split; [exact Ht|tauto]. }
    clearbody trip. destruct trip as [[res tmp1] pos1]. destruct Htrip as [Hb Hres].
    destruct res as [[k'|r]|e|q]; [| | |contradiction].
    + destruct (nlen tmp1 =? 0); (split; [exact I|]); (split; [|exact I]); cbn [st_tmp].
      * apply Bytes_nfirstn. exact Hd.
      * exact Hb.
    + split; [exact I|]. split; [exact Hb|exact Hres].
    + split; [exact I|]. apply dead_ok. exact Hb.
  - (* data *)
    cbn [sstate_ok] in Hst.
    set (first := if 0 <? nlen (st_tmp s) then _ else _).
    assert (Hf : fuel_only (fst first) /\ RunInv (snd first)).
    { unfold first. destruct (0 <? nlen (st_tmp s)); [|split; [exact I|exact Hst]].
      pose proof (stream_read_data_ok r (cursor_of (st_tmp s)) Hst Ht) as H.
      destruct (stream_read_data r (cursor_of (st_tmp s))) as [res [r' s']]. cbn [fst snd]. tauto. }
    clearbody first. destruct first as [[u|e|q] r1]; cbn [fst snd] in Hf; destruct Hf as [Hf1 Hr1].
    + pose proof (stream_read_data_ok r1 (cursor_of data) Hr1 Hd) as H.
      destruct (stream_read_data r1 (cursor_of data)) as [[u'|e|q] [r2 is_]]; destruct H as (F & R2 & _).
      * split; [exact I|]. split; [constructor|exact R2].
      * split; [exact I|]. apply dead_ok. constructor.
      * split; [exact F|]. apply dead_ok. constructor.
    + split; [exact I|]. apply dead_ok. exact Ht.
    + split; [exact Hf1|]. apply dead_ok. exact Ht.
  - split; [exact I|]. split; [exact Ht|rewrite Est; exact I].
Qed.
Print Assumptions stream_write_no_panic.

(* ---------- <Stream as Write>::flush ---------- *)
Theorem stream_flush_no_panic s : StInv s ->
  match stream_flush s with (res, s') => not_panicked res /\ StInv s' end.
Proof.
  intros [Ht Hst]. unfold stream_flush.
  destruct (st_state s) as [[k|r]|] eqn:E; try (split; [exact I|]; split; [exact Ht|rewrite E; exact Hst]).
  unfold snk_flush. destruct (k_ffail (c_snk (rs_out r))).
  - split; [exact I|]. split; [exact Ht|rewrite E; exact Hst].
  - split; [exact I|]. split; [exact Ht|]. cbn [st_state sstate_ok] in *.
    destruct Hst as [H1 H2 H3 [H4 H5]]. constructor; cbn [rs_dec rs_rc rs_out]; try assumption.
    split; assumption.
Qed.
Print Assumptions stream_flush_no_panic.

(* ---------- Stream::finish ---------- *)
Theorem stream_finish_no_panic s : StInv s -> fuel_only (fst (stream_finish s)).
Proof.
  intros [Ht Hst]. unfold stream_finish.
  destruct (st_state s) as [[k|r]|]; [destruct (0 <? nlen (st_tmp s)); exact I| |exact I].
  cbn [sstate_ok] in Hst. pose proof Hst as [H1 H2 H3 H4].
  set (processed := if negb (o_allow_incomplete (st_opts s)) then _ else _).
  assert (Hp : fuel_only (fst processed)).
  { unfold processed. destruct (negb (o_allow_incomplete (st_opts s))); [|exact I].
    set (w0 := mkLw (rs_dec r) (rs_rc r) (cursor_of (st_tmp s)) (WCirc (rs_out r))).
    assert (Hw0 : PmInv w0) by (apply PmInv_join; first [assumption|exact Ht]).
    pose proof (process_mode_no_panic FinishMode big_fuel w0 Hw0) as Hpm.
    destruct (process_mode FinishMode big_fuel w0) as [[u|e|q] x]; cbn [fst fuel_only]; tauto. }
  clearbody processed. destruct processed as [[u|e|q] c]; cbn [fst] in *; try exact Hp.
  pose proof (circ_finish_no_panic c) as Hf.
  destruct (circ_finish c) as [[u'|e|q] k]; cbn [fst not_panicked fuel_only] in *; tauto.
Qed.
Print Assumptions stream_finish_no_panic.

(* ---------- any call sequence ---------- *)
Definition call_bytes (c : call) : Prop := match c with CWrite d => Bytes d | CFlush => True end.
Definition cres_fuel_only (r : cres) : Prop := match r with RW o => fuel_only o | RF o => fuel_only o end.

Theorem stream_calls_no_panic cs : forall s, StInv s -> Forall call_bytes cs ->
  Forall cres_fuel_only (fst (run_calls s cs)) /\
  StInv (snd (run_calls s cs)) /\
  fuel_only (fst (stream_finish (snd (run_calls s cs)))).
Proof.
  induction cs as [|c cs IH]; intros s Hs Hc; cbn [run_calls fst snd].
  - split; [constructor|]. split; [exact Hs|apply stream_finish_no_panic; exact Hs].
  - inversion Hc as [|? ? Hc1 Hc2]; subst.
    assert (H1 : cres_fuel_only (fst (do_call s c)) /\ StInv (snd (do_call s c))).
    { destruct c as [d|]; cbn [do_call].
      - pose proof (stream_write_no_panic s d Hs Hc1) as H. destruct (stream_write s d) as [r s']. exact H.
      - pose proof (stream_flush_no_panic s Hs) as H. destruct (stream_flush s) as [r s']. cbn [fst snd cres_fuel_only].
        destruct H as [H H']. split; [destruct r; cbn [fuel_only not_panicked] in *; tauto|exact H']. }
    destruct (do_call s c) as [r s1]. cbn [fst snd] in H1. destruct H1 as [Hr Hs1].
    specialize (IH s1 Hs1 Hc2). destruct (run_calls s1 cs) as [rs s2]. cbn [fst snd] in *.
    destruct IH as (I1 & I2 & I3). split; [constructor; assumption|split; assumption].
Qed.
Print Assumptions stream_calls_no_panic.

(* from a fresh stream *)
Corollary stream_never_panics o k cs : Forall call_bytes cs ->
  Forall cres_fuel_only (fst (run_calls (stream_new o k) cs)) /\
  fuel_only (fst (stream_finish (snd (run_calls (stream_new o k) cs)))).
Proof.
  intros Hc. destruct (stream_calls_no_panic cs (stream_new o k) (stream_new_ok o k) Hc) as (H1 & _ & H3). auto.
Qed.
Print Assumptions stream_never_panics.
