(* C05 without the fuel side condition: for inputs shorter than 2^47 bytes the one-shot run provably does not
   exhaust the model's loop fuel (FuelAdequacy), so the streaming decoder under every chunking equals the one-shot decoder. *)
From LZ Require Import Base.Prelude Base.Prog Model.Io Model.Tables Model.LzBuffer Model.RangeDec Model.Lzma Model.Stream.
From LZ Require Import Proofs.NoPanic Proofs.FuelAdequacy Proofs.StreamSimAbs Proofs.StreamSimLoop Proofs.StreamSimData Proofs.StreamSimFull.
From Coq Require Import ZifyBool ZifyNat ZifyN.
Local Open Scope N_scope.

Lemma oneshot_fuel_suffices (o : options) (k : snk) (bs : list N) :
  is_byte_string bs -> nlen bs < 140737488355328 ->
  forall q, fst (lzma_decompress big_fuel o (mkIo (cursor_of bs) k)) <> Panicked q.
Proof.
  intros Hb Hlen q.
  assert (Hs : SrcBytes (i_src (mkIo (cursor_of bs) k))) by exact Hb.
  pose proof (lzma_decompress_total big_fuel o (mkIo (cursor_of bs) k) Hs) as H.
  cbn [i_src cursor_of s_rest] in H.
  specialize (H (big_fuel_adequate (nlen bs) Hlen)).
  destruct (lzma_decompress big_fuel o (mkIo (cursor_of bs) k)) as [[u|e|p] w']; cbn [fst]; [discriminate|discriminate|contradiction].
Qed.

(* the literal C05 statement for every input below 2^47 bytes (128 TiB) *)
Definition stream_equals_oneshot_bounded_statement : Prop :=
  (forall (o : options) (k : snk) (bs : list N) (pieces : list (list N)),
     o_allow_incomplete o = false -> is_byte_string bs -> bs <> [] -> concat pieces = bs ->
     nlen bs < 140737488355328 ->
     let d := drive (stream_new o k) pieces in
     let w := lzma_decompress big_fuel o (mkIo (cursor_of bs) k) in
     same_verdict (fst d) (fst w) /\ (fst d = Done tt -> snd d = i_snk (snd w))) /\
  (forall o k, stream_finish (stream_new o k) = (Done tt, k)).

Theorem stream_equals_oneshot_bounded : stream_equals_oneshot_bounded_statement.
Proof.
  split; [|apply stream_zero_input].
  intros o k bs pieces Hai Hb Hne Hcat Hlen. cbv zeta.
  apply (stream_equals_oneshot o k bs pieces Hai Hb Hne Hcat); [unfold StreamSimAbs.BIG; lia|].
  apply oneshot_fuel_suffices; assumption.
Qed.
Print Assumptions stream_equals_oneshot_bounded.

(* the two halves, stated without the wrapping definition *)
Theorem stream_equals_oneshot_every_chunking (o : options) (k : snk) (bs : list N) (pieces : list (list N)) :
  o_allow_incomplete o = false -> Forall (fun b => b < 256) bs -> bs <> [] -> concat pieces = bs ->
  nlen bs < 140737488355328 ->
  same_verdict (fst (drive (stream_new o k) pieces)) (fst (lzma_decompress big_fuel o (mkIo (cursor_of bs) k))) /\
  (fst (drive (stream_new o k) pieces) = Done tt ->
   snd (drive (stream_new o k) pieces) = i_snk (snd (lzma_decompress big_fuel o (mkIo (cursor_of bs) k)))).
Proof. intros Hai Hb Hne Hcat Hlen. exact (proj1 stream_equals_oneshot_bounded o k bs pieces Hai Hb Hne Hcat Hlen). Qed.
Print Assumptions stream_equals_oneshot_every_chunking.

Theorem stream_zero_input_finishes_ok (o : options) (k : snk) : stream_finish (stream_new o k) = (Done tt, k).
Proof. apply stream_zero_input. Qed.
Print Assumptions stream_zero_input_finishes_ok.
